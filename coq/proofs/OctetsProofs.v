(* OctetsProofs.v -- lemmas about the model of iox.OctetsStream/Writer/Reader (models/Octets.v).
   Method: every reader is shown to be a function of the unread bytes only (a "view":
   result, bytes consumed, alloc); C12 facts and the C11 round trips are then proved on
   the views (pure list functions) and transported back to streams.  The 7-bit round trip
   over all 2^32 patterns is by algebra (lia with div/mod equations on five size ranges),
   not by enumeration. *)
From Got Require Import Base Octets OctetsSpec.
Local Open Scope Z_scope.

Lemma testbit_small a k n : 0 <= a < 2 ^ k -> 0 <= k <= n -> Z.testbit a n = false.
Proof.
  intros Ha Hk. apply Z.testbit_false; [lia|].
  rewrite Z.div_small; [reflexivity|].
  assert (2 ^ k <= 2 ^ n) by (apply Z.pow_le_mono_r; lia). lia.
Qed.

Lemma lor_shiftl_add a b k : 0 <= k -> 0 <= a < 2 ^ k -> Z.lor a (Z.shiftl b k) = a + b * 2 ^ k.
Proof.
  intros Hk Ha.
  assert (Hl : Z.land a (Z.shiftl b k) = 0).
  { apply Z.bits_inj'. intros n Hn. rewrite Z.land_spec, Z.bits_0.
    destruct (Z_lt_ge_dec n k).
    - rewrite Z.shiftl_spec_low by lia. apply andb_false_r.
    - rewrite (testbit_small a k n) by lia. reflexivity. }
  rewrite <- Z.lxor_lor by exact Hl. rewrite <- Z.add_nocarry_lxor by exact Hl.
  rewrite Z.shiftl_mul_pow2 by lia. reflexivity.
Qed.

Lemma land_127 b : Z.land b 127 = b mod 128.
Proof. change 127 with (Z.ones 7). rewrite Z.land_ones by lia. reflexivity. Qed.

(* byte(num | 0xFFFFFF80) = 128 + num mod 128 *)
Lemma lor_128_byte x : 0 <= x < 256 -> Z.lor x 128 = 128 + x mod 128.
Proof.
  intros Hx.
  assert (H : x = x mod 128 + (x / 128) * 2 ^ 7) by (change (2^7) with 128; lia).
  rewrite H at 1. rewrite <- lor_shiftl_add by (change (2^7) with 128; lia).
  rewrite <- Z.lor_assoc.
  assert (C : x / 128 = 0 \/ x / 128 = 1) by lia.
  replace (Z.lor (Z.shiftl (x / 128) 7) 128) with (Z.shiftl 1 7) by (destruct C as [-> | ->]; reflexivity).
  rewrite lor_shiftl_add by (change (2^7) with 128; lia). change (2^7) with 128. lia.
Qed.

Lemma byte_lor_cont num : oct_byte (Z.lor num 4294967168) = 128 + num mod 128.
Proof.
  unfold oct_byte, wrapu. rewrite <- Z.land_ones by lia.
  rewrite Z.land_lor_distr_l. change (Z.land 4294967168 (Z.ones 8)) with 128.
  rewrite Z.land_ones by lia. change (2 ^ 8) with 256.
  rewrite lor_128_byte by lia. lia.
Qed.

(* ---------------------------------------------------------------- list views *)
Definition oct_wf (s : oct_stream) : Prop := (oct_pos s <= length (oct_buf s))%nat.
Definition oct_rest (s : oct_stream) : list Z := skipn (oct_pos s) (oct_buf s).
Definition oct_adv (s : oct_stream) (n : nat) : oct_stream := oct_set_pos s (oct_pos s + n).

Lemma rest_length s : oct_wf s -> length (oct_rest s) = (length (oct_buf s) - oct_pos s)%nat.
Proof. intros _. unfold oct_rest. apply skipn_length. Qed.

Lemma adv_wf s n : oct_wf s -> (n <= length (oct_rest s))%nat -> oct_wf (oct_adv s n).
Proof. unfold oct_wf. intros H Hn. rewrite rest_length in Hn by exact H. cbn. lia. Qed.

Lemma skipn_skipn' {A} (l : list A) p k : skipn k (skipn p l) = skipn (p + k) l.
Proof.
  revert l. induction p as [|p IH]; intros l; [reflexivity|].
  destruct l as [|x l]; cbn [skipn plus]; [apply skipn_nil|]. apply IH.
Qed.

Lemma rest_adv s n : oct_rest (oct_adv s n) = skipn n (oct_rest s).
Proof. unfold oct_rest, oct_adv. cbn. symmetry. apply skipn_skipn'. Qed.

Lemma adv_0 s : oct_adv s 0 = s.
Proof. destruct s. unfold oct_adv, oct_set_pos. cbn. f_equal. lia. Qed.

Lemma adv_adv s n m : oct_adv (oct_adv s n) m = oct_adv s (n + m).
Proof. unfold oct_adv, oct_set_pos. cbn. f_equal. lia. Qed.

Lemma nth_error_skipn {A} (l : list A) p k : nth_error (skipn p l) k = nth_error l (p + k).
Proof.
  revert l. induction p as [|p IH]; intros l; [reflexivity|].
  destruct l as [|x l]; cbn [skipn plus]; [destruct k; reflexivity|]. cbn [nth_error]. apply IH.
Qed.

(* a view: what a reader does, as a function of the unread bytes only:
   (result, bytes consumed, alloc) *)
Definition oct_view (A : Type) : Type := (res A oct_err * nat * Z)%type.

Definition views {A} (R : oct_stream -> oct_rd A) (V : list Z -> oct_view A) : Prop :=
  forall s, oct_wf s ->
    R s = (fst (fst (V (oct_rest s))), oct_adv s (snd (fst (V (oct_rest s)))), snd (V (oct_rest s))) /\
    (snd (fst (V (oct_rest s))) <= length (oct_rest s))%nat.

Definition v_byte (l : list Z) : oct_view Z :=
  match l with [] => (Err OctErrNotEnoughData, 0%nat, 0) | b :: _ => (Ok b, 1%nat, 0) end.

Lemma view_byte : views oct_read_byte v_byte.
Proof.
  intros s Hwf. unfold oct_read_byte, oct_index.
  pose proof (rest_length s Hwf) as Hl.
  pose proof (nth_error_skipn (oct_buf s) (oct_pos s) 0) as Hn. rewrite Nat.add_0_r in Hn.
  fold (oct_rest s) in Hn.
  destruct (oct_rest s) as [|b r] eqn:E; cbn [v_byte fst snd length] in *.
  - rewrite adv_0. destruct (Nat.leb_spec (length (oct_buf s)) (oct_pos s)); [split; [reflexivity|lia]|lia].
  - destruct (Nat.leb_spec (length (oct_buf s)) (oct_pos s)); [lia|].
    rewrite <- Hn. cbn [nth_error]. split; [|lia]. unfold oct_adv. do 3 f_equal. lia.
Qed.

Definition v_bool (l : list Z) : oct_view bool :=
  match l with [] => (Err OctErrNotEnoughData, 0%nat, 0) | b :: _ => (Ok (b =? 1), 1%nat, 0) end.

Lemma view_bool : views oct_read_bool v_bool.
Proof.
  intros s Hwf. unfold oct_read_bool. destruct (view_byte s Hwf) as [-> Hle].
  destruct (oct_rest s) as [|b r]; cbn [v_byte v_bool fst snd] in *; split; auto.
Qed.

Definition v_int16 (l : list Z) : oct_view Z :=
  match l with
  | b0 :: b1 :: _ => (Ok (sext 16 (Z.lor b0 (Z.shiftl b1 8))), 2%nat, 0)
  | _ => (Err OctErrNotEnoughData, 0%nat, 0)
  end.
Definition v_int32 (l : list Z) : oct_view Z :=
  match l with
  | b0 :: b1 :: b2 :: b3 :: _ =>
      (Ok (sext 32 (Z.lor (Z.lor (Z.lor b0 (Z.shiftl b1 8)) (Z.shiftl b2 16)) (Z.shiftl b3 24))), 4%nat, 0)
  | _ => (Err OctErrNotEnoughData, 0%nat, 0)
  end.
Definition v_int64 (l : list Z) : oct_view Z :=
  match l with
  | b0 :: b1 :: b2 :: b3 :: b4 :: b5 :: b6 :: b7 :: _ =>
      (Ok (sext 64
             (Z.lor (Z.lor (Z.lor (Z.lor (Z.lor (Z.lor (Z.lor b0 (Z.shiftl b1 8)) (Z.shiftl b2 16))
                (Z.shiftl b3 24)) (Z.shiftl b4 32)) (Z.shiftl b5 40)) (Z.shiftl b6 48)) (Z.shiftl b7 56))), 8%nat, 0)
  | _ => (Err OctErrNotEnoughData, 0%nat, 0)
  end.

Lemma slice_from_rest s : oct_wf s -> oct_slice_from (oct_buf s) (oct_pos s) = Some (oct_rest s).
Proof.
  intros Hwf. unfold oct_slice_from. unfold oct_wf in Hwf.
  destruct (Nat.leb_spec (oct_pos s) (length (oct_buf s))); [reflexivity|lia].
Qed.

Ltac fixed_short :=
  cbn [length fst snd] in *; rewrite adv_0;
  match goal with |- context [Nat.ltb ?a ?b] => destruct (Nat.ltb_spec a b) end;
  [split; [reflexivity|lia]|lia].
Ltac fixed_view :=
  let s := fresh "s" in let Hwf := fresh "Hwf" in let Hl := fresh "Hl" in let l := fresh "l" in
  intros s Hwf;
  pose proof (rest_length s Hwf) as Hl;
  rewrite (slice_from_rest s Hwf);
  generalize dependent (oct_rest s); intros l Hl;
  repeat (destruct l as [|? l]; [fixed_short|]);
  try fixed_short;
  cbn [length fst snd] in *;
  match goal with |- context [Nat.ltb ?a ?b] => destruct (Nat.ltb_spec a b) end; [lia|];
  cbn [oct_index nth_error]; split; [reflexivity|lia].

Lemma view_int16 : views oct_read_int16 v_int16.
Proof. unfold views, oct_read_int16, v_int16. fixed_view. Qed.
Lemma view_int32 : views oct_read_int32 v_int32.
Proof. unfold views, oct_read_int32, v_int32. fixed_view. Qed.
Lemma view_int64 : views oct_read_int64 v_int64.
Proof. unfold views, oct_read_int64, v_int64. fixed_view. Qed.

(* OctetsStream.Read *)
Definition v_read (n : Z) (l : list Z) : oct_view (list Z) :=
  if n =? 0 then (Err OctErrInvalidArgument, 0%nat, 0)
  else (Ok (firstn (Z.to_nat n) l), Nat.min (Z.to_nat n) (length l), 0).

Lemma view_read n : 0 <= n -> views (fun s => oct_stream_read s n) (v_read n).
Proof.
  intros Hn s Hwf. unfold oct_stream_read, v_read, oct_len, oct_position.
  pose proof (rest_length s Hwf) as Hl. unfold oct_wf in Hwf.
  destruct (Z.eqb_spec n 0) as [->|Hn0]; cbn [fst snd].
  { rewrite adv_0. split; [reflexivity|lia]. }
  destruct (Z.eqb_spec (Z.of_nat (length (oct_buf s)) - Z.of_nat (oct_pos s)) 0) as [E|E].
  { assert (Hr : oct_rest s = []) by (apply length_zero_iff_nil; lia).
    rewrite Hr. rewrite firstn_nil. cbn [length]. rewrite Nat.min_0_r, adv_0. split; [reflexivity|lia]. }
  set (remain := Z.of_nat (length (oct_buf s)) - Z.of_nat (oct_pos s)) in *.
  set (rs := if n >? remain then remain else n).
  assert (Hrs : 0 < rs <= remain /\ Z.to_nat rs = Nat.min (Z.to_nat n) (length (oct_rest s))).
  { unfold rs. destruct (Z.gtb_spec n remain); lia. }
  unfold oct_slice.
  replace ((0 <=? Z.of_nat (oct_pos s)) && (Z.of_nat (oct_pos s) <=? Z.of_nat (oct_pos s) + rs)
           && (Z.of_nat (oct_pos s) + rs <=? Z.of_nat (length (oct_buf s)))) with true
    by (symmetry; rewrite !andb_true_iff; repeat split; lia).
  rewrite Nat2Z.id. fold (oct_rest s).
  replace (Z.of_nat (oct_pos s) + rs - Z.of_nat (oct_pos s)) with rs by lia.
  split; [|lia]. f_equal. f_equal.
  - f_equal. destruct Hrs as [_ ->].
    destruct (Nat.le_ge_cases (Z.to_nat n) (length (oct_rest s))) as [H|H].
    + rewrite Nat.min_l by exact H. reflexivity.
    + rewrite Nat.min_r by exact H. rewrite !firstn_all2 by lia. reflexivity.
  - unfold oct_adv. f_equal. lia.
Qed.

(* Read7BitEncodedInt *)
Definition dec7_step (num b i : Z) : Z := Z.lor num (wrapu 32 (Z.shiftl (Z.land b 127) i)).

Fixpoint v_7loop (iters : nat) (i num : Z) (l : list Z) : oct_view Z :=
  match l with
  | [] => (Err OctErrNotEnoughData, 0%nat, 0)
  | b :: l' =>
      match iters with
      | O => if b >? 15 then (Err OctErrBad7BitInt, 1%nat, 0)
             else (Ok (sext 32 (Z.lor num (Z.shiftl b 28))), 1%nat, 0)
      | S k => if b <=? 127 then (Ok (sext 32 (dec7_step num b i)), 1%nat, 0)
               else match v_7loop k (i + 7) (dec7_step num b i) l' with
                    | (r, n, a) => (r, S n, a)
                    end
      end
  end.
Definition v_7bit (l : list Z) : oct_view Z := v_7loop 4 0 0 l.

Lemma view_7loop iters : forall i num, views (oct_read7_loop iters i num) (v_7loop iters i num).
Proof.
  induction iters as [|k IH]; intros i num s Hwf; cbn [oct_read7_loop];
    destruct (view_byte s Hwf) as [-> Hle];
    destruct (oct_rest s) as [|b r] eqn:E; cbn [v_byte v_7loop fst snd] in *.
  - split; [reflexivity|lia].
  - destruct (b >? 15); cbn [fst snd]; split; auto.
  - split; [reflexivity|lia].
  - fold (dec7_step num b i). destruct (b <=? 127); cbn [fst snd]; [split; auto|].
    assert (Hwf1 : oct_wf (oct_adv s 1)) by (apply adv_wf; [exact Hwf|rewrite E; cbn; lia]).
    destruct (IH (i + 7) (dec7_step num b i) (oct_adv s 1) Hwf1) as [-> Hle1].
    rewrite rest_adv, E in *. cbn [skipn] in *.
    destruct (v_7loop k (i + 7) (dec7_step num b i) r) as [[r0 n0] a0]. cbn [fst snd] in *.
    rewrite adv_adv. cbn [length] in *. split; [reflexivity|lia].
Qed.

Lemma view_7bit : views oct_read_7bit v_7bit.
Proof. apply view_7loop. Qed.

(* ReadBytes *)
Definition v_bytes (v : oct_variant) (l : list Z) : oct_view (list Z) :=
  match v_7bit l with
  | (Ok size, n1, a1) =>
      if size <? 0 then (Err OctErrNegativeSize, n1, a1)
      else if size =? 0 then (Ok [], n1, a1)
      else if (match v with
               | OctFixed => size >? Z.of_nat (length (skipn n1 l))
               | OctOrig => false
               end)
      then (Err OctErrNotEnoughData, n1, a1)
      else
        let d := firstn (Z.to_nat size) (skipn n1 l) in
        if sext 32 (Z.of_nat (length d)) =? size
        then (Ok d, (n1 + length d)%nat, a1 + size)
        else (Err OctErrNotEnoughData, (n1 + length d)%nat, a1 + size)
  | (Err e, n1, a1) => (Err e, n1, a1)
  | (Panic, n1, a1) => (Panic, n1, a1)
  end.

Lemma view_bytes v : views (oct_read_bytes v) (v_bytes v).
Proof.
  intros s Hwf. unfold oct_read_bytes, v_bytes.
  destruct (view_7bit s Hwf) as [-> Hle].
  destruct (v_7bit (oct_rest s)) as [[r n1] a1]. cbn [fst snd] in *.
  destruct r as [size|e|]; [|split; auto|split; auto].
  destruct (size <? 0) eqn:Eneg; [split; auto|].
  destruct (Z.eqb_spec size 0) as [E0|E0]; [split; auto|].
  assert (Hwf1 : oct_wf (oct_adv s n1)) by (apply adv_wf; assumption).
  assert (Hlen : oct_len (oct_adv s n1) - oct_position (oct_adv s n1) = Z.of_nat (length (skipn n1 (oct_rest s)))).
  { rewrite <- rest_adv, rest_length by exact Hwf1. unfold oct_len, oct_position. unfold oct_wf in Hwf1. cbn in *. lia. }
  rewrite Hlen.
  destruct (match v with OctFixed => size >? Z.of_nat (length (skipn n1 (oct_rest s))) | OctOrig => false end);
    [split; auto|].
  assert (Hs : 0 <= size) by lia.
  destruct (view_read size Hs (oct_adv s n1) Hwf1) as [-> Hle2].
  rewrite rest_adv in *. unfold v_read in *.
  destruct (Z.eqb_spec size 0) as [?|_]; [contradiction|]. cbn [fst snd] in *.
  rewrite adv_adv.
  assert (Hfl : length (firstn (Z.to_nat size) (skipn n1 (oct_rest s))) = Nat.min (Z.to_nat size) (length (skipn n1 (oct_rest s)))).
  { apply firstn_length. }
  rewrite Hfl. rewrite skipn_length in *.
  destruct (sext 32 _ =? size); cbn [fst snd]; rewrite Z.add_0_r; (split; [reflexivity|lia]).
Qed.

(* ---------------------------------------------------------------- operations *)
Definition view_map {A B} (f : A -> B) (x : oct_view A) : oct_view B :=
  match x with
  | (Ok y, n, a) => (Ok (f y), n, a)
  | (Err e, n, a) => (Err e, n, a)
  | (Panic, n, a) => (Panic, n, a)
  end.

Lemma views_map {A B} (f : A -> B) R V :
  views R V -> views (fun s => oct_rd_map f (R s)) (fun l => view_map f (V l)).
Proof.
  intros H s Hwf. destruct (H s Hwf) as [-> Hle].
  destruct (V (oct_rest s)) as [[[y|e|] n] a]; cbn [fst snd oct_rd_map view_map] in *; split; auto.
Qed.

Definition v_string (v : oct_variant) (l : list Z) : oct_view (list Z) := v_bytes v l.

Lemma view_string v : views (oct_read_string v) (v_string v).
Proof.
  intros s Hwf. unfold oct_read_string, v_string. destruct (view_bytes v s Hwf) as [-> Hle].
  destruct (v_bytes v (oct_rest s)) as [[[y|e|] n] a]; cbn [fst snd] in *; split; auto.
Qed.

Definition v_op (v : oct_variant) (op : oct_op) (l : list Z) : oct_view oct_val :=
  match op with
  | OpBool _ => view_map OVBool (v_bool l)
  | OpByte _ => view_map OVByte (v_byte l)
  | OpInt16 _ => view_map OVInt16 (v_int16 l)
  | OpInt32 _ => view_map OVInt32 (v_int32 l)
  | OpInt64 _ => view_map OVInt64 (v_int64 l)
  | Op7Bit => view_map OV7Bit (v_7bit l)
  | OpBytes => view_map OVBytes (v_bytes v l)
  | OpString => view_map OVString (v_string v l)
  | OpRead n => view_map OVRaw (v_read n l)
  end.

Definition oct_op_ok (op : oct_op) : bool :=
  match op with OpRead n => 0 <=? n | _ => true end.

Lemma view_op v op : oct_op_ok op = true -> views (oct_read_op v op) (v_op v op).
Proof.
  intros Hok. destruct op as [[]|[]|[]|[]|[]| | | |n]; cbn [oct_read_op v_op];
    unfold oct_rdr_read_bool, oct_rdr_read_byte, oct_rdr_read_int16, oct_rdr_read_int32, oct_rdr_read_int64.
  all: try (apply (views_map OVBool _ _ view_bool)).
  all: try (apply (views_map OVByte _ _ view_byte)).
  all: try (apply (views_map OVInt16 _ _ view_int16)).
  all: try (apply (views_map OVInt32 _ _ view_int32)).
  all: try (apply (views_map OVInt64 _ _ view_int64)).
  - apply (views_map OV7Bit _ _ view_7bit).
  - apply (views_map OVBytes _ _ (view_bytes v)).
  - apply (views_map OVString _ _ (view_string v)).
  - cbn in Hok. apply (views_map OVRaw (fun s => oct_stream_read s n) _ (view_read n ltac:(lia))).
Qed.

(* ---------------------------------------------------------------- C12 facts on the views *)
Ltac split5 := split; [|split; [|split; [|split]]].

Lemma v_7loop_facts iters : forall i num l r n a,
  v_7loop iters i num l = (r, n, a) ->
  r <> Panic /\ a = 0 /\ (n <= length l)%nat /\ (n <= S iters)%nat /\
  (forall x, r = Ok x -> - 2 ^ 31 <= x < 2 ^ 31 /\ (1 <= n)%nat).
Proof.
  assert (R : forall y x : Z, @Ok Z oct_err (sext 32 y) = Ok x -> - 2 ^ 31 <= x < 2 ^ 31).
  { intros y x Hq. inversion Hq; subst. apply (sext_range 32); lia. }
  induction iters as [|k IH]; intros i num l r n a H; destruct l as [|b l']; cbn [v_7loop length] in H.
  - inversion H; subst. split5; try discriminate; lia.
  - destruct (b >? 15); inversion H; subst; cbn [length]; split5; try discriminate; try lia;
      intros x Hq; split; try lia; eapply R; eauto.
  - inversion H; subst. split5; try discriminate; lia.
  - destruct (b <=? 127).
    + inversion H; subst. cbn [length]. split5; try discriminate; try lia;
        intros x Hq; split; try lia; eapply R; eauto.
    + destruct (v_7loop k (i + 7) (dec7_step num b i) l') as [[r0 n0] a0] eqn:E.
      inversion H; subst. destruct (IH _ _ _ _ _ _ E) as (Hp & Ha & Hn & Hk & Hx).
      cbn [length]. split5; try assumption; try lia; intros x Hq; destruct (Hx x Hq); split; lia.
Qed.

Lemma v_7bit_facts l r n a :
  v_7bit l = (r, n, a) ->
  r <> Panic /\ a = 0 /\ (n <= length l)%nat /\ (n <= 5)%nat /\
  (forall x, r = Ok x -> - 2 ^ 31 <= x < 2 ^ 31 /\ (1 <= n)%nat).
Proof. apply v_7loop_facts. Qed.

Definition oct_is_err {A E} (r : res A E) : Prop := match r with Err _ => True | _ => False end.

(* what ReadBytes does, read off the view: *)
Lemma v_bytes_spec v l r n a :
  v_bytes v l = (r, n, a) ->
  r <> Panic /\ (n <= length l)%nat /\ 0 <= a /\
  (v = OctFixed -> a <= Z.of_nat (length l)) /\
  (forall d, r = Ok d ->
     exists size n1, v_7bit l = (Ok size, n1, 0) /\ 0 <= size /\
       Z.of_nat (length d) = size /\ d = firstn (Z.to_nat size) (skipn n1 l) /\
       n = (n1 + length d)%nat /\ (v = OctFixed -> a = size)).
Proof.
  unfold v_bytes. intros H.
  destruct (v_7bit l) as [[r1 n1] a1] eqn:E7.
  destruct (v_7bit_facts _ _ _ _ E7) as (Hp & Ha & Hn & _ & Hx). subst a1.
  destruct r1 as [size|e|]; [|inversion H; subst; repeat split; try discriminate; lia|contradiction].
  destruct (Hx size eq_refl) as [Hrange Hn1].
  destruct (Z.ltb_spec size 0) as [Hneg|Hneg].
  { inversion H; subst. repeat split; try discriminate; lia. }
  destruct (Z.eqb_spec size 0) as [E0|E0].
  { inversion H; subst. repeat split; try discriminate; try lia.
    intros d Hd. inversion Hd; subst. exists 0, n. cbn. repeat split; auto; lia. }
  pose proof (firstn_length (Z.to_nat size) (skipn n1 l)) as Hfl.
  pose proof (skipn_length n1 l) as Hsl.
  destruct v.
  - (* Orig *)
    destruct (sext 32 (Z.of_nat (length (firstn (Z.to_nat size) (skipn n1 l)))) =? size) eqn:Es;
      inversion H; subst r n a; (split; [discriminate|]); (split; [lia|]); (split; [lia|]);
      (split; [discriminate|]); intros d Hd; [|discriminate].
    inversion Hd; subst d. exists size, n1. apply Z.eqb_eq in Es.
    assert (Hlt : Z.of_nat (length (firstn (Z.to_nat size) (skipn n1 l))) < 2 ^ 31) by lia.
    rewrite sext_id in Es by lia. repeat split; auto; try lia.
  - (* Fixed *)
    destruct (Z.gtb_spec size (Z.of_nat (length (skipn n1 l)))) as [Hgt|Hle].
    { inversion H; subst r n a. repeat split; try discriminate; lia. }
    assert (Hlen : Z.of_nat (length (firstn (Z.to_nat size) (skipn n1 l))) = size) by lia.
    rewrite Hlen in H. rewrite sext_id in H by lia. rewrite Z.eqb_refl in H.
    inversion H; subst r n a. (split; [discriminate|]); (split; [lia|]); (split; [lia|]);
      (split; [lia|]); intros d Hd.
    inversion Hd; subst d. exists size, n1. repeat split; auto; lia.
Qed.

Definition oct_op_fixed (op : oct_op) : bool :=
  match op with OpBool _ | OpByte _ | OpInt16 _ | OpInt32 _ | OpInt64 _ => true | _ => false end.

Lemma view_map_inv {A B} (f : A -> B) x r n a :
  view_map f x = (r, n, a) ->
  exists r0, x = (r0, n, a) /\ (r = Panic <-> r0 = Panic) /\ (oct_is_err r <-> oct_is_err r0) /\
             (forall y, r = Ok y -> exists y0, r0 = Ok y0 /\ y = f y0).
Proof.
  destruct x as [[[y|e|] n0] a0]; cbn; intros H; inversion H; subst; eexists; (split; [reflexivity|]);
    repeat split; try tauto; try discriminate; intros ? Hq; inversion Hq; subst; eauto.
Qed.

Ltac split6 := split; [|split; [|split; [|split; [|split]]]].

Ltac fin HP := cbn [oct_is_err] in *;
  first [ lia | tauto | discriminate
        | (let Hq := fresh in intros Hq; apply HP in Hq; discriminate)
        | (intros; lia) | (intros; tauto) | (intros; discriminate) ].

Lemma v_op_facts v op l r n a :
  oct_op_ok op = true -> v_op v op l = (r, n, a) ->
  r <> Panic /\ (n <= length l)%nat /\ 0 <= a /\
  (v = OctFixed -> a <= Z.of_nat (length l)) /\
  (oct_op_fixed op = true -> oct_is_err r -> n = 0%nat) /\
  (oct_op_fixed op = true -> a = 0).
Proof.
  intros Hok H.
  assert (T : forall r0 : res oct_val oct_err, True) by (intros; exact I).
  destruct op as [?|?|?|?|?| | | |m]; cbn [v_op oct_op_fixed] in *;
    apply view_map_inv in H; destruct H as (r0 & H & HP & HE & _).
  - destruct l as [|b l']; cbn in H; inversion H; subst; cbn [length]; split6; fin HP.
  - destruct l as [|b l']; cbn in H; inversion H; subst; cbn [length]; split6; fin HP.
  - destruct l as [|b0 [|b1 l']]; cbn in H; inversion H; subst; cbn [length]; split6; fin HP.
  - destruct l as [|b0 [|b1 [|b2 [|b3 l']]]]; cbn in H; inversion H; subst; cbn [length]; split6; fin HP.
  - destruct l as [|b0 [|b1 [|b2 [|b3 [|b4 [|b5 [|b6 [|b7 l']]]]]]]]; cbn in H; inversion H; subst; cbn [length];
      split6; fin HP.
  - destruct (v_7bit_facts _ _ _ _ H) as (Hp & Ha & Hn & _). subst a.
    split6; fin HP.
  - destruct (v_bytes_spec _ _ _ _ _ H) as (Hp & Hn & Ha & Hf & _).
    split6; fin HP.
  - unfold v_string in H. destruct (v_bytes_spec _ _ _ _ _ H) as (Hp & Hn & Ha & Hf & _).
    split6; fin HP.
  - unfold v_read in H. cbn in Hok. destruct (m =? 0); inversion H; subst;
      split6; fin HP.
Qed.

(* ---------------------------------------------------------------- C12 on streams *)
Lemma read_op_view v op s r s' a :
  oct_wf s -> oct_op_ok op = true -> oct_read_op v op s = (r, s', a) ->
  exists n, v_op v op (oct_rest s) = (r, n, a) /\ s' = oct_adv s n /\ (n <= length (oct_rest s))%nat.
Proof.
  intros Hwf Hok H. destruct (view_op v op Hok s Hwf) as [E Hle]. rewrite E in H.
  destruct (v_op v op (oct_rest s)) as [[r0 n0] a0]. cbn [fst snd] in *.
  inversion H; subst. exists n0. auto.
Qed.

Lemma read_total_lemma v op s :
  oct_wf s -> oct_op_ok op = true -> fst (fst (oct_read_op v op s)) <> Panic.
Proof.
  intros Hwf Hok. destruct (oct_read_op v op s) as [[r s'] a] eqn:E.
  destruct (read_op_view _ _ _ _ _ _ Hwf Hok E) as (n & Hv & _).
  apply (v_op_facts _ _ _ _ _ _ Hok Hv).
Qed.

Lemma read_cursor_in_bounds_lemma v op s r s' a :
  oct_wf s -> oct_op_ok op = true -> oct_read_op v op s = (r, s', a) ->
  oct_buf s' = oct_buf s /\ oct_position s <= oct_position s' <= oct_len s' /\ oct_len s' = oct_len s.
Proof.
  intros Hwf Hok E. destruct (read_op_view _ _ _ _ _ _ Hwf Hok E) as (n & Hv & -> & Hle).
  rewrite rest_length in Hle by exact Hwf. unfold oct_wf in Hwf.
  unfold oct_position, oct_len, oct_adv. cbn. repeat split; lia.
Qed.

Lemma read_consumes_available_only_lemma v op s r s' a :
  oct_wf s -> oct_op_ok op = true -> oct_read_op v op s = (r, s', a) ->
  0 <= oct_position s' - oct_position s <= oct_len s - oct_position s /\
  (forall s2, oct_wf s2 -> oct_rest s2 = oct_rest s ->
     exists s2', oct_read_op v op s2 = (r, s2', a) /\
                 oct_position s2' - oct_position s2 = oct_position s' - oct_position s).
Proof.
  intros Hwf Hok E. destruct (read_op_view _ _ _ _ _ _ Hwf Hok E) as (n & Hv & -> & Hle).
  split.
  - rewrite rest_length in Hle by exact Hwf. unfold oct_wf in Hwf.
    unfold oct_position, oct_len, oct_adv. cbn. lia.
  - intros s2 Hwf2 Hr. destruct (view_op v op Hok s2 Hwf2) as [E2 _]. rewrite Hr, Hv in E2.
    cbn [fst snd] in E2. eexists. split; [exact E2|]. unfold oct_position, oct_adv. cbn. lia.
Qed.

Lemma read_fixed_fail_consumes_nothing_lemma v op s e s' a :
  oct_wf s -> oct_op_fixed op = true -> oct_read_op v op s = (Err e, s', a) -> s' = s /\ a = 0.
Proof.
  intros Hwf Hf E.
  assert (Hok : oct_op_ok op = true) by (destruct op; try discriminate; reflexivity).
  destruct (read_op_view _ _ _ _ _ _ Hwf Hok E) as (n & Hv & -> & Hle).
  destruct (v_op_facts _ _ _ _ _ _ Hok Hv) as (_ & _ & _ & _ & Hn & Ha).
  rewrite (Hn Hf I). split; [apply adv_0|auto].
Qed.

Lemma read_alloc_bounded_lemma op s r s' a :
  oct_wf s -> oct_op_ok op = true -> oct_read_op OctFixed op s = (r, s', a) ->
  0 <= a <= oct_len s - oct_position s.
Proof.
  intros Hwf Hok E. destruct (read_op_view _ _ _ _ _ _ Hwf Hok E) as (n & Hv & -> & Hle).
  destruct (v_op_facts _ _ _ _ _ _ Hok Hv) as (_ & _ & Ha0 & Ha & _).
  specialize (Ha eq_refl). rewrite rest_length in Ha by exact Hwf. unfold oct_wf in Hwf.
  unfold oct_len, oct_position. lia.
Qed.

Lemma read_bytes_exact_lemma v s d s' a :
  oct_wf s -> oct_read_bytes v s = (Ok d, s', a) ->
  exists size s1,
    oct_read_7bit s = (Ok size, s1, 0) /\ 0 <= size /\
    Z.of_nat (length d) = size /\
    d = firstn (Z.to_nat size) (skipn (oct_pos s1) (oct_buf s)) /\
    oct_buf s' = oct_buf s /\ oct_position s' = oct_position s1 + size /\
    (v = OctFixed -> a = size).
Proof.
  intros Hwf E. destruct (view_bytes v s Hwf) as [Ev Hle]. rewrite Ev in E.
  destruct (v_bytes v (oct_rest s)) as [[r n] a0] eqn:Eb. cbn [fst snd] in *.
  inversion E; subst r s' a0. clear E.
  destruct (v_bytes_spec _ _ _ _ _ Eb) as (_ & _ & _ & _ & Hd).
  destruct (Hd d eq_refl) as (size & n1 & E7 & Hs & Hl & Hdd & Hn & Ha).
  destruct (view_7bit s Hwf) as [E7s _]. rewrite E7 in E7s. cbn [fst snd] in E7s.
  exists size, (oct_adv s n1). split; [exact E7s|]. split; [exact Hs|]. split; [exact Hl|].
  split. { rewrite Hdd. unfold oct_rest, oct_adv. cbn. rewrite skipn_skipn'. reflexivity. }
  split; [reflexivity|]. split; [|exact Ha].
  unfold oct_position, oct_adv. cbn. lia.
Qed.

(* sequences of read calls *)
Fixpoint oct_reads_safe (v : oct_variant) (s : oct_stream) (rs : list (oct_rd oct_val)) : Prop :=
  match rs with
  | [] => True
  | (r, s', a) :: t =>
      r <> Panic /\ oct_buf s' = oct_buf s /\
      oct_position s <= oct_position s' <= oct_len s /\
      0 <= a /\ (v = OctFixed -> a <= oct_len s - oct_position s) /\
      oct_reads_safe v s' t
  end.

Lemma reads_safe_lemma v ops : forall s,
  oct_wf s -> forallb oct_op_ok ops = true -> oct_reads_safe v s (oct_run_reads v ops s).
Proof.
  induction ops as [|op ops IH]; intros s Hwf Hok; cbn [oct_run_reads oct_reads_safe]; [exact I|].
  cbn [forallb] in Hok. apply andb_true_iff in Hok. destruct Hok as [Hok Hoks].
  destruct (oct_read_op v op s) as [[r s'] a] eqn:E. cbn [fst snd].
  destruct (read_op_view _ _ _ _ _ _ Hwf Hok E) as (n & Hv & Hs' & Hle).
  destruct (v_op_facts _ _ _ _ _ _ Hok Hv) as (Hp & _ & Ha0 & Ha & _).
  pose proof (rest_length s Hwf) as Hl.
  assert (Hwf' : oct_wf s') by (subst s'; apply adv_wf; assumption).
  split; [exact Hp|]. split; [subst s'; reflexivity|].
  split. { subst s'. unfold oct_wf in Hwf. unfold oct_position, oct_len, oct_adv. cbn. lia. }
  split; [exact Ha0|]. split.
  { intros Hf. specialize (Ha Hf). unfold oct_wf in Hwf. unfold oct_position, oct_len. lia. }
  apply IH; assumption.
Qed.

(* the pre-fix ReadBytes: ff ff ff ff 07 requests 2^31-1 bytes from make *)
Lemma read_bytes_orig_alloc_refuted_lemma :
  exists input r s' a,
    oct_read_bytes OctOrig (oct_write oct_empty input) = (r, s', a) /\
    a = 2 ^ 31 - 1 /\ oct_len (oct_write oct_empty input) = 5 /\
    oct_read_bytes OctFixed (oct_write oct_empty input) = (Err OctErrNotEnoughData, s', 0).
Proof.
  exists [255; 255; 255; 255; 7]. eexists. eexists. eexists.
  split; [vm_compute; reflexivity|]. split; [reflexivity|]. split; reflexivity.
Qed.


(* ---------------------------------------------------------------- C11: specs *)
Lemma le_value_le_bytes n : forall x, le_value (le_bytes n x) = x mod 256 ^ Z.of_nat n.
Proof.
  induction n as [|k IH]; intros x.
  - cbn. rewrite Z.mod_1_r. reflexivity.
  - cbn [le_bytes le_value]. rewrite IH. rewrite Nat2Z.inj_succ, Z.pow_succ_r by lia.
    rewrite Z.rem_mul_r by lia. reflexivity.
Qed.

Lemma le_bytes_length n x : length (le_bytes n x) = n.
Proof. revert x. induction n; intros x; cbn; auto. Qed.

Lemma le_bytes_range n : forall x, Forall (fun b => 0 <= b < 256) (le_bytes n x).
Proof. induction n; intros x; cbn [le_bytes]; constructor; auto. lia. Qed.

Lemma sext_mod w x : 0 < w -> sext w (x mod 2 ^ w) = sext w x.
Proof. intros Hw. unfold sext. rewrite Z.mod_mod by lia. reflexivity. Qed.

(* lor chains of the readers = little-endian value, for bytes in range *)
Definition byte_ok (b : Z) : Prop := 0 <= b < 256.

Lemma lor2 b0 b1 : byte_ok b0 -> byte_ok b1 ->
  Z.lor b0 (Z.shiftl b1 8) = le_value [b0; b1].
Proof.
  unfold byte_ok. intros. cbn [le_value].
  rewrite (lor_shiftl_add b0 b1 8) by lia. change (2 ^ 8) with 256. lia.
Qed.

Lemma lor4 b0 b1 b2 b3 : byte_ok b0 -> byte_ok b1 -> byte_ok b2 -> byte_ok b3 ->
  Z.lor (Z.lor (Z.lor b0 (Z.shiftl b1 8)) (Z.shiftl b2 16)) (Z.shiftl b3 24) = le_value [b0; b1; b2; b3].
Proof.
  unfold byte_ok. intros. cbn [le_value].
  rewrite (lor_shiftl_add b0 b1 8) by lia. change (2 ^ 8) with 256.
  rewrite (lor_shiftl_add _ b2 16) by (change (2 ^ 16) with 65536; lia). change (2 ^ 16) with 65536.
  rewrite (lor_shiftl_add _ b3 24) by (change (2 ^ 24) with 16777216; lia). change (2 ^ 24) with 16777216.
  lia.
Qed.

Lemma lor8 b0 b1 b2 b3 b4 b5 b6 b7 :
  byte_ok b0 -> byte_ok b1 -> byte_ok b2 -> byte_ok b3 -> byte_ok b4 -> byte_ok b5 -> byte_ok b6 -> byte_ok b7 ->
  Z.lor (Z.lor (Z.lor (Z.lor (Z.lor (Z.lor (Z.lor b0 (Z.shiftl b1 8)) (Z.shiftl b2 16))
     (Z.shiftl b3 24)) (Z.shiftl b4 32)) (Z.shiftl b5 40)) (Z.shiftl b6 48)) (Z.shiftl b7 56)
  = le_value [b0; b1; b2; b3; b4; b5; b6; b7].
Proof.
  unfold byte_ok. intros. cbn [le_value].
  rewrite (lor_shiftl_add b0 b1 8) by lia. change (2 ^ 8) with 256.
  rewrite (lor_shiftl_add _ b2 16) by (change (2 ^ 16) with 65536; lia). change (2 ^ 16) with 65536.
  rewrite (lor_shiftl_add _ b3 24) by (change (2 ^ 24) with 16777216; lia). change (2 ^ 24) with 16777216.
  rewrite (lor_shiftl_add _ b4 32) by (change (2 ^ 32) with 4294967296; lia). change (2 ^ 32) with 4294967296.
  rewrite (lor_shiftl_add _ b5 40) by (change (2 ^ 40) with 1099511627776; lia). change (2 ^ 40) with 1099511627776.
  rewrite (lor_shiftl_add _ b6 48) by (change (2 ^ 48) with 281474976710656; lia). change (2 ^ 48) with 281474976710656.
  rewrite (lor_shiftl_add _ b7 56) by (change (2 ^ 56) with 72057594037927936; lia). change (2 ^ 56) with 72057594037927936.
  lia.
Qed.

(* readers on a little-endian encoding followed by anything *)
Lemma v_int16_le x post : v_int16 (le_bytes 2 x ++ post) = (Ok (sext 16 x), 2%nat, 0).
Proof.
  pose proof (le_bytes_range 2 x) as R. pose proof (le_value_le_bytes 2 x) as V.
  cbn [le_bytes app v_int16] in *.
  inversion R as [|? ? R0 R']; subst. inversion R' as [|? ? R1 _]; subst.
  rewrite lor2 by assumption. rewrite V. change (256 ^ Z.of_nat 2) with (2 ^ 16).
  rewrite sext_mod by lia. reflexivity.
Qed.

Lemma v_int32_le x post : v_int32 (le_bytes 4 x ++ post) = (Ok (sext 32 x), 4%nat, 0).
Proof.
  pose proof (le_bytes_range 4 x) as R. pose proof (le_value_le_bytes 4 x) as V.
  cbn [le_bytes app v_int32] in *.
  repeat match goal with H : Forall _ (_ :: _) |- _ => inversion H; clear H; subst end.
  rewrite lor4 by assumption. rewrite V. change (256 ^ Z.of_nat 4) with (2 ^ 32).
  rewrite sext_mod by lia. reflexivity.
Qed.

Lemma v_int64_le x post : v_int64 (le_bytes 8 x ++ post) = (Ok (sext 64 x), 8%nat, 0).
Proof.
  pose proof (le_bytes_range 8 x) as R. pose proof (le_value_le_bytes 8 x) as V.
  cbn [le_bytes app v_int64] in *.
  repeat match goal with H : Forall _ (_ :: _) |- _ => inversion H; clear H; subst end.
  rewrite lor8 by assumption. rewrite V. change (256 ^ Z.of_nat 8) with (2 ^ 64).
  rewrite sext_mod by lia. reflexivity.
Qed.

(* writers emit le_bytes *)
Lemma oct_byte_mod x : oct_byte x = x mod 256.
Proof. reflexivity. Qed.

Lemma wire_int16_bytes d :
  [oct_byte d; oct_byte (Z.shiftr d 8)] = le_bytes 2 d.
Proof.
  cbn [le_bytes]. rewrite !oct_byte_mod, !Z.shiftr_div_pow2 by lia. reflexivity.
Qed.

Lemma wire_int32_bytes d :
  [oct_byte d; oct_byte (Z.shiftr d 8); oct_byte (Z.shiftr d 16); oct_byte (Z.shiftr d 24)] = le_bytes 4 d.
Proof.
  cbn [le_bytes]. rewrite !oct_byte_mod, !Z.shiftr_div_pow2 by lia. rewrite !Z.div_div by lia. reflexivity.
Qed.

Lemma wire_int64_bytes d :
  [oct_byte d; oct_byte (Z.shiftr d 8); oct_byte (Z.shiftr d 16); oct_byte (Z.shiftr d 24);
   oct_byte (Z.shiftr d 32); oct_byte (Z.shiftr d 40); oct_byte (Z.shiftr d 48); oct_byte (Z.shiftr d 56)]
  = le_bytes 8 d.
Proof.
  cbn [le_bytes]. rewrite !oct_byte_mod, !Z.shiftr_div_pow2 by lia. rewrite !Z.div_div by lia. reflexivity.
Qed.

(* ---------------------------------------------------------------- LEB128 spec facts *)
Lemma uleb128_small n : 0 <= n < 128 -> uleb128 n = [n].
Proof.
  intros H. unfold uleb128, uleb128_conts.
  assert (E : Z.log2 n / 7 = 0).
  { destruct (Z.eq_dec n 0) as [->|N]; [reflexivity|].
    assert (Z.log2 n < 7) by (apply Z.log2_lt_pow2; lia).
    pose proof (Z.log2_nonneg n). apply Z.div_small. lia. }
  rewrite E. reflexivity.
Qed.

Lemma uleb128_step n : 128 <= n -> uleb128 n = (128 + n mod 128) :: uleb128 (n / 128).
Proof.
  intros H. unfold uleb128, uleb128_conts.
  assert (L : Z.log2 (n / 128) = Z.log2 n - 7).
  { change 128 with (2 ^ 7). rewrite <- Z.shiftr_div_pow2 by lia. rewrite Z.log2_shiftr by lia.
    assert (7 <= Z.log2 n) by (apply Z.log2_le_pow2; lia). lia. }
  assert (7 <= Z.log2 n) by (apply Z.log2_le_pow2; lia).
  rewrite L.
  replace (Z.to_nat (Z.log2 n / 7)) with (S (Z.to_nat ((Z.log2 n - 7) / 7))) by lia.
  reflexivity.
Qed.

Lemma uleb_value_uleb128_aux (k : nat) : forall n, 0 <= n < 128 ^ Z.of_nat (S k) -> uleb_value (uleb128 n) = n.
Proof.
  induction k as [|k IH]; intros n Hn.
  - change (128 ^ Z.of_nat 1) with 128 in Hn. rewrite uleb128_small by lia. cbn. lia.
  - destruct (Z_lt_ge_dec n 128) as [S|L].
    + rewrite uleb128_small by lia. cbn. lia.
    + rewrite uleb128_step by lia. cbn [uleb_value].
      rewrite Nat2Z.inj_succ, Z.pow_succ_r in Hn by lia.
      rewrite IH by lia. lia.
Qed.

Lemma uleb_value_uleb128 n : 0 <= n -> uleb_value (uleb128 n) = n.
Proof.
  intros Hn. apply (uleb_value_uleb128_aux (Z.to_nat n)).
  split; [lia|].
  assert (H : forall m : nat, Z.of_nat m < 128 ^ Z.of_nat (S m)).
  { induction m as [|m IHm]; [reflexivity|].
    rewrite (Nat2Z.inj_succ (S m)), Z.pow_succ_r by lia. lia. }
  specialize (H (Z.to_nat n)). lia.
Qed.

Lemma uleb128_length_small n : 0 <= n < 128 -> length (uleb128 n) = 1%nat.
Proof. intros. rewrite uleb128_small by lia. reflexivity. Qed.

(* the five shapes below 2^32 *)
Lemma uleb128_cases u : 0 <= u < 2 ^ 32 ->
  (u < 2 ^ 7 /\ uleb128 u = [u]) \/
  (2 ^ 7 <= u < 2 ^ 14 /\ uleb128 u = [128 + u mod 128; u / 128]) \/
  (2 ^ 14 <= u < 2 ^ 21 /\ uleb128 u = [128 + u mod 128; 128 + (u / 128) mod 128; u / 128 / 128]) \/
  (2 ^ 21 <= u < 2 ^ 28 /\
   uleb128 u = [128 + u mod 128; 128 + (u / 128) mod 128; 128 + (u / 128 / 128) mod 128; u / 128 / 128 / 128]) \/
  (2 ^ 28 <= u < 2 ^ 32 /\
   uleb128 u = [128 + u mod 128; 128 + (u / 128) mod 128; 128 + (u / 128 / 128) mod 128;
                128 + (u / 128 / 128 / 128) mod 128; u / 128 / 128 / 128 / 128]).
Proof.
  intros Hu.
  change (2 ^ 7) with 128. change (2 ^ 14) with 16384. change (2 ^ 21) with 2097152.
  change (2 ^ 28) with 268435456. change (2 ^ 32) with 4294967296 in *.
  destruct (Z_lt_ge_dec u 128); [left; split; [lia|apply uleb128_small; lia]|right].
  rewrite (uleb128_step u) by lia.
  destruct (Z_lt_ge_dec u 16384); [left; split; [lia|rewrite uleb128_small by lia; reflexivity]|right].
  rewrite (uleb128_step (u / 128)) by lia.
  destruct (Z_lt_ge_dec u 2097152); [left; split; [lia|rewrite uleb128_small by lia; reflexivity]|right].
  rewrite (uleb128_step (u / 128 / 128)) by lia.
  destruct (Z_lt_ge_dec u 268435456); [left; split; [lia|rewrite uleb128_small by lia; reflexivity]|right].
  rewrite (uleb128_step (u / 128 / 128 / 128)) by lia.
  split; [lia|rewrite uleb128_small by lia; reflexivity].
Qed.

(* ---------------------------------------------------------------- 7-bit encoder = uleb128 *)
Lemma append_append s l1 l2 : oct_append (oct_append s l1) l2 = oct_append s (l1 ++ l2).
Proof. unfold oct_append. cbn. rewrite app_assoc. reflexivity. Qed.

Lemma write7_loop_spec fuel : forall num s,
  0 <= num < 128 ^ Z.of_nat (S fuel) ->
  oct_write7_loop fuel num s = Some (oct_append s (uleb128 num)).
Proof.
  induction fuel as [|f IH]; intros num s Hn; cbn [oct_write7_loop].
  - change (128 ^ Z.of_nat 1) with 128 in Hn.
    destruct (Z.gtb_spec num 127); [lia|].
    rewrite uleb128_small by lia. unfold oct_write_byte, oct_byte. rewrite wrapu_small by (change (2^8) with 256; lia).
    reflexivity.
  - destruct (Z.gtb_spec num 127).
    + rewrite Nat2Z.inj_succ, Z.pow_succ_r in Hn by lia.
      rewrite Z.shiftr_div_pow2 by lia. change (2 ^ 7) with 128.
      rewrite IH by lia. rewrite byte_lor_cont. unfold oct_write_byte. rewrite append_append.
      rewrite (uleb128_step num) by lia. reflexivity.
    + rewrite uleb128_small by lia. unfold oct_write_byte, oct_byte. rewrite wrapu_small by (change (2^8) with 256; lia).
      reflexivity.
Qed.

Lemma write_7bit_spec s d : oct_write_7bit s d = Some (oct_append s (uleb128 (d mod 2 ^ 32))).
Proof.
  unfold oct_write_7bit, wrapu. apply write7_loop_spec.
  assert (0 <= d mod 2 ^ 32 < 2 ^ 32) by (apply Z.mod_pos_bound; lia).
  change (128 ^ Z.of_nat 6) with (2 ^ 42). change (2 ^ 42) with (2 ^ 32 * 1024). lia.
Qed.

(* ---------------------------------------------------------------- 7-bit decoder on uleb128 *)
Lemma dec7_step_add num b i :
  0 <= i <= 21 -> 0 <= num < 2 ^ i -> 0 <= b ->
  dec7_step num b i = num + (b mod 128) * 2 ^ i.
Proof.
  intros Hi Hnum Hb. unfold dec7_step. rewrite land_127.
  assert (Hp : 0 < 2 ^ i) by (apply Z.pow_pos_nonneg; lia).
  assert (Hle : 2 ^ i <= 2 ^ 21) by (apply Z.pow_le_mono_r; lia).
  rewrite wrapu_small.
  - apply lor_shiftl_add; lia.
  - rewrite Z.shiftl_mul_pow2 by lia. change (2 ^ 32) with (2 ^ 21 * 2048).
    change (2 ^ 21) with 2097152 in *. nia.
Qed.

Lemma v_7bit_uleb128 u post : 0 <= u < 2 ^ 32 ->
  v_7bit (uleb128 u ++ post) = (Ok (sext 32 u), length (uleb128 u), 0).
Proof.
  intros Hu. unfold v_7bit.
  destruct (uleb128_cases u Hu) as [[R E]|[[R E]|[[R E]|[[R E]|[R E]]]]]; rewrite E; clear E;
    change (2 ^ 7) with 128 in R; change (2 ^ 14) with 16384 in R; change (2 ^ 21) with 2097152 in R;
    change (2 ^ 28) with 268435456 in R; change (2 ^ 32) with 4294967296 in *;
    cbn [app v_7loop length].
  - (* 1 byte *)
    destruct (Z.leb_spec u 127); [|lia].
    rewrite dec7_step_add by (change (2 ^ 0) with 1; lia). do 4 f_equal. change (2 ^ 0) with 1. lia.
  - (* 2 bytes *)
    destruct (Z.leb_spec (128 + u mod 128) 127); [lia|].
    change (0 + 7) with 7.
    rewrite (dec7_step_add 0 _ 0) by (change (2 ^ 0) with 1; lia).
    destruct (Z.leb_spec (u / 128) 127); [|lia].
    rewrite dec7_step_add by (change (2 ^ 7) with 128; lia).
    do 4 f_equal. change (2 ^ 0) with 1. change (2 ^ 7) with 128. lia.
  - (* 3 bytes *)
    destruct (Z.leb_spec (128 + u mod 128) 127); [lia|].
    destruct (Z.leb_spec (128 + u / 128 mod 128) 127); [lia|].
    change (0 + 7) with 7. change (7 + 7) with 14.
    rewrite (dec7_step_add 0 _ 0) by (change (2 ^ 0) with 1; lia).
    rewrite (dec7_step_add _ _ 7) by (change (2 ^ 0) with 1; change (2 ^ 7) with 128; lia).
    destruct (Z.leb_spec (u / 128 / 128) 127); [|lia].
    rewrite dec7_step_add by (change (2 ^ 0) with 1; change (2 ^ 7) with 128; change (2 ^ 14) with 16384; lia).
    do 4 f_equal. change (2 ^ 0) with 1. change (2 ^ 7) with 128. change (2 ^ 14) with 16384. lia.
  - (* 4 bytes *)
    destruct (Z.leb_spec (128 + u mod 128) 127); [lia|].
    destruct (Z.leb_spec (128 + u / 128 mod 128) 127); [lia|].
    destruct (Z.leb_spec (128 + u / 128 / 128 mod 128) 127); [lia|].
    change (0 + 7) with 7. change (7 + 7) with 14. change (14 + 7) with 21.
    rewrite (dec7_step_add 0 _ 0) by (change (2 ^ 0) with 1; lia).
    rewrite (dec7_step_add _ _ 7) by (change (2 ^ 0) with 1; change (2 ^ 7) with 128; lia).
    rewrite (dec7_step_add _ _ 14) by (change (2 ^ 0) with 1; change (2 ^ 7) with 128; change (2 ^ 14) with 16384; lia).
    destruct (Z.leb_spec (u / 128 / 128 / 128) 127); [|lia].
    rewrite dec7_step_add by (change (2 ^ 0) with 1; change (2 ^ 7) with 128; change (2 ^ 14) with 16384;
                              change (2 ^ 21) with 2097152; lia).
    do 4 f_equal. change (2 ^ 0) with 1. change (2 ^ 7) with 128. change (2 ^ 14) with 16384.
    change (2 ^ 21) with 2097152. lia.
  - (* 5 bytes *)
    destruct (Z.leb_spec (128 + u mod 128) 127); [lia|].
    destruct (Z.leb_spec (128 + u / 128 mod 128) 127); [lia|].
    destruct (Z.leb_spec (128 + u / 128 / 128 mod 128) 127); [lia|].
    destruct (Z.leb_spec (128 + u / 128 / 128 / 128 mod 128) 127); [lia|].
    change (0 + 7) with 7. change (7 + 7) with 14. change (14 + 7) with 21.
    rewrite (dec7_step_add 0 _ 0) by (change (2 ^ 0) with 1; lia).
    rewrite (dec7_step_add _ _ 7) by (change (2 ^ 0) with 1; change (2 ^ 7) with 128; lia).
    rewrite (dec7_step_add _ _ 14) by (change (2 ^ 0) with 1; change (2 ^ 7) with 128; change (2 ^ 14) with 16384; lia).
    rewrite (dec7_step_add _ _ 21) by (change (2 ^ 0) with 1; change (2 ^ 7) with 128; change (2 ^ 14) with 16384;
                                      change (2 ^ 21) with 2097152; lia).
    destruct (Z.gtb_spec (u / 128 / 128 / 128 / 128) 15); [lia|].
    rewrite lor_shiftl_add by (change (2 ^ 0) with 1; change (2 ^ 7) with 128; change (2 ^ 14) with 16384;
                               change (2 ^ 21) with 2097152; change (2 ^ 28) with 268435456; lia).
    do 4 f_equal. change (2 ^ 0) with 1. change (2 ^ 7) with 128. change (2 ^ 14) with 16384.
    change (2 ^ 21) with 2097152. change (2 ^ 28) with 268435456. lia.
Qed.

(* ---------------------------------------------------------------- typed values *)
(* the documented wire format of a value, written with the specifications only *)
Definition oct_wire (x : oct_val) : list Z :=
  match x with
  | OVBool b => [if b then 1 else 0]
  | OVByte x => [x]
  | OVInt16 x => le_bytes 2 x
  | OVInt32 x => le_bytes 4 x
  | OVInt64 x => le_bytes 8 x
  | OV7Bit x => uleb128 (x mod 2 ^ 32)
  | OVBytes l => prefixed l
  | OVString l => prefixed l
  | OVRaw l => l
  end.

Lemma val_ok_bytes_len (l : list Z) : Z.of_nat (length l) <? 2 ^ 31 = true ->
  sext 32 (Z.of_nat (length l)) mod 2 ^ 32 = Z.of_nat (length l).
Proof.
  intros H. apply Z.ltb_lt in H. rewrite sext_id by (change (2 ^ (32 - 1)) with (2 ^ 31); lia).
  apply Z.mod_small. change (2 ^ 32) with (2 * 2 ^ 31). lia.
Qed.

Lemma write_bytes_spec s l : Z.of_nat (length l) <? 2 ^ 31 = true ->
  oct_write_bytes s l = Some (oct_append s (prefixed l)).
Proof.
  intros H. unfold oct_write_bytes. rewrite write_7bit_spec. rewrite val_ok_bytes_len by exact H.
  unfold oct_write, prefixed. destruct l as [|b l]; cbn [length Nat.ltb Nat.leb].
  - rewrite app_nil_r. reflexivity.
  - rewrite append_append. reflexivity.
Qed.

Lemma write_val_spec a s x : oct_val_ok x = true ->
  oct_write_val a s x = Some (oct_append s (oct_wire x)).
Proof.
  intros Hok. destruct x as [b|x|x|x|x|x|l|l|l]; destruct a; cbn [oct_write_val oct_wire oct_val_ok] in *;
    unfold oct_wtr_write_bool, oct_wtr_write_byte, oct_wtr_write_int16, oct_wtr_write_int32, oct_wtr_write_int64,
           oct_write_bool, oct_write_byte, oct_write_int16, oct_write_int32, oct_write_int64, oct_write_string;
    try reflexivity;
    try (rewrite wire_int16_bytes; reflexivity);
    try (rewrite wire_int32_bytes; reflexivity);
    try (rewrite wire_int64_bytes; reflexivity);
    try apply write_7bit_spec;
    try (apply write_bytes_spec; exact Hok).
  all: unfold oct_write; rewrite Hok; reflexivity.
Qed.

Lemma skipn_app_exact {A} (l1 l2 : list A) : skipn (length l1) (l1 ++ l2) = l2.
Proof. induction l1; cbn; auto. Qed.
Lemma firstn_app_exact {A} (l1 l2 : list A) : firstn (length l1) (l1 ++ l2) = l1.
Proof. induction l1; cbn; f_equal; auto. Qed.

Lemma v_bytes_prefixed v l post : Z.of_nat (length l) <? 2 ^ 31 = true ->
  v_bytes v (prefixed l ++ post) = (Ok l, length (prefixed l), Z.of_nat (length l)).
Proof.
  intros H. pose proof H as Hlt. apply Z.ltb_lt in Hlt.
  unfold v_bytes, prefixed. rewrite <- app_assoc.
  rewrite v_7bit_uleb128 by (change (2 ^ 32) with (2 * 2 ^ 31); lia).
  rewrite sext_id by (change (2 ^ (32 - 1)) with (2 ^ 31); lia).
  destruct (Z.ltb_spec (Z.of_nat (length l)) 0); [lia|].
  rewrite skipn_app_exact.
  destruct (Z.eqb_spec (Z.of_nat (length l)) 0) as [E|E].
  - destruct l; [|cbn in E; lia]. rewrite app_nil_r. reflexivity.
  - assert (G : (match v with OctOrig => false | OctFixed => Z.of_nat (length l) >? Z.of_nat (length (l ++ post)) end) = false).
    { destruct v; [reflexivity|]. rewrite app_length. destruct (Z.gtb_spec (Z.of_nat (length l)) (Z.of_nat (length l + length post))); [lia|reflexivity]. }
    rewrite G.
    rewrite Nat2Z.id, firstn_app_exact.
    rewrite sext_id by (change (2 ^ (32 - 1)) with (2 ^ 31); lia). rewrite Z.eqb_refl.
    rewrite app_length. rewrite Z.add_0_l. reflexivity.
Qed.

(* alloc requested when reading a value back *)
Definition oct_val_alloc (x : oct_val) : Z :=
  match x with OVBytes l | OVString l => Z.of_nat (length l) | _ => 0 end.

Lemma v_op_wire v a x post : oct_val_ok x = true ->
  v_op v (oct_op_of a x) (oct_wire x ++ post) = (Ok x, length (oct_wire x), oct_val_alloc x).
Proof.
  intros Hok. destruct x as [b|x|x|x|x|x|l|l|l]; cbn [oct_op_of v_op oct_wire oct_val_ok oct_val_alloc] in *.
  - destruct b; reflexivity.
  - reflexivity.
  - rewrite v_int16_le. cbn [view_map]. rewrite sext_id by (change (2 ^ (16 - 1)) with (2 ^ 15); lia). reflexivity.
  - rewrite v_int32_le. cbn [view_map]. rewrite sext_id by (change (2 ^ (32 - 1)) with (2 ^ 31); lia). reflexivity.
  - rewrite v_int64_le. cbn [view_map]. rewrite sext_id by (change (2 ^ (64 - 1)) with (2 ^ 63); lia). reflexivity.
  - rewrite v_7bit_uleb128 by (apply Z.mod_pos_bound; lia). cbn [view_map].
    rewrite sext_mod by lia. rewrite sext_id by (change (2 ^ (32 - 1)) with (2 ^ 31); lia). reflexivity.
  - rewrite v_bytes_prefixed by exact Hok. reflexivity.
  - unfold v_string. rewrite v_bytes_prefixed by exact Hok. reflexivity.
  - unfold v_read. apply Nat.ltb_lt in Hok.
    destruct (Z.eqb_spec (Z.of_nat (length l)) 0); [lia|]. cbn [view_map].
    rewrite Nat2Z.id, firstn_app_exact, app_length. rewrite Nat.min_l by lia. reflexivity.
Qed.

Lemma op_of_ok a x : oct_op_ok (oct_op_of a x) = true.
Proof. destruct x; cbn; auto. apply Z.leb_le. lia. Qed.

(* ---------------------------------------------------------------- C11 on streams *)
(* one value: written at the end of any stream, then read at the position where it starts,
   whatever follows it in the buffer *)
Lemma rt_val_lemma v a a' x pre p post :
  oct_val_ok x = true ->
  exists enc,
    oct_write_val a {| oct_buf := pre; oct_pos := p |} x = Some {| oct_buf := pre ++ enc; oct_pos := p |} /\
    enc = oct_wire x /\
    oct_read_op v (oct_op_of a' x) {| oct_buf := pre ++ enc ++ post; oct_pos := length pre |} =
      (Ok x, {| oct_buf := pre ++ enc ++ post; oct_pos := length pre + length enc |}, oct_val_alloc x).
Proof.
  intros Hok. exists (oct_wire x). split; [apply write_val_spec; exact Hok|]. split; [reflexivity|].
  set (s := {| oct_buf := pre ++ oct_wire x ++ post; oct_pos := length pre |}).
  assert (Hwf : oct_wf s) by (unfold oct_wf, s; cbn; rewrite app_length; lia).
  destruct (view_op v (oct_op_of a' x) (op_of_ok a' x) s Hwf) as [E _].
  assert (Hr : oct_rest s = oct_wire x ++ post) by (unfold oct_rest, s; cbn; apply skipn_app_exact).
  rewrite Hr, v_op_wire in E by exact Hok. exact E.
Qed.

(* sequences *)
Fixpoint oct_wire_all (xs : list (oct_api * oct_val)) : list Z :=
  match xs with [] => [] | (_, x) :: r => oct_wire x ++ oct_wire_all r end.

Lemma write_all_spec xs : forall s,
  forallb (fun ax => oct_val_ok (snd ax)) xs = true ->
  oct_write_all s xs = Some (oct_append s (oct_wire_all xs)).
Proof.
  induction xs as [|[a x] r IH]; intros s Hok; cbn [oct_write_all oct_wire_all].
  - unfold oct_append. rewrite app_nil_r. destruct s; reflexivity.
  - cbn [forallb snd] in Hok. apply andb_true_iff in Hok. destruct Hok as [Hx Hr].
    rewrite write_val_spec by exact Hx. rewrite IH by exact Hr. rewrite append_append. reflexivity.
Qed.

(* expected result list of reading the values back from position p of buffer buf *)
Fixpoint oct_expect_reads (buf : list Z) (p : nat) (xs : list (oct_api * oct_val)) : list (oct_rd oct_val) :=
  match xs with
  | [] => []
  | (_, x) :: r =>
      let p' := (p + length (oct_wire x))%nat in
      (Ok x, {| oct_buf := buf; oct_pos := p' |}, oct_val_alloc x) :: oct_expect_reads buf p' r
  end.

Lemma run_reads_wire v xs : forall pre post,
  forallb (fun ax => oct_val_ok (snd ax)) xs = true ->
  oct_run_reads v (map (fun ax => oct_op_of (fst ax) (snd ax)) xs)
    {| oct_buf := pre ++ oct_wire_all xs ++ post; oct_pos := length pre |} =
  oct_expect_reads (pre ++ oct_wire_all xs ++ post) (length pre) xs.
Proof.
  induction xs as [|[a x] r IH]; intros pre post Hok; cbn [map oct_run_reads oct_expect_reads oct_wire_all fst snd]; [reflexivity|].
  cbn [forallb snd] in Hok. apply andb_true_iff in Hok. destruct Hok as [Hx Hr].
  destruct (rt_val_lemma v a a x pre 0%nat (oct_wire_all r ++ post) Hx) as (enc & _ & -> & E).
  rewrite <- app_assoc. rewrite E. cbn [fst snd]. f_equal.
  specialize (IH (pre ++ oct_wire x) post Hr).
  rewrite <- !app_assoc in IH. rewrite app_length in IH. exact IH.
Qed.

Lemma expect_reads_values buf xs : forall p,
  map (fun r => fst (fst r)) (oct_expect_reads buf p xs) = map (fun ax => Ok (snd ax)) xs.
Proof. induction xs as [|[a x] r IH]; intros p; cbn; f_equal; auto. Qed.

Lemma expect_reads_end buf xs : forall p d,
  oct_pos (snd (fst (last (oct_expect_reads buf p xs) d))) =
  match xs with [] => oct_pos (snd (fst d)) | _ => (p + length (oct_wire_all xs))%nat end.
Proof.
  induction xs as [|[a x] r IH]; intros p d; [reflexivity|].
  cbn [oct_expect_reads oct_wire_all]. destruct r as [|ax r'].
  - cbn. rewrite app_nil_r. reflexivity.
  - destruct ax as [a2 x2]. specialize (IH (p + length (oct_wire x))%nat d).
    cbn [oct_expect_reads] in IH |- *. cbn [last] in IH |- *. rewrite IH.
    cbn [oct_wire_all]. rewrite !app_length. lia.
Qed.

(* sequence round trip on streams *)
Lemma rt_sequence_lemma v xs pre p post :
  forallb (fun ax => oct_val_ok (snd ax)) xs = true ->
  exists s1,
    oct_write_all {| oct_buf := pre; oct_pos := p |} xs = Some s1 /\
    oct_buf s1 = pre ++ oct_wire_all xs /\ oct_pos s1 = p /\
    let rs := oct_run_reads v (map (fun ax => oct_op_of (fst ax) (snd ax)) xs)
                {| oct_buf := oct_buf s1 ++ post; oct_pos := length pre |} in
    rs = oct_expect_reads (oct_buf s1 ++ post) (length pre) xs /\
    map (fun r => fst (fst r)) rs = map (fun ax => Ok (snd ax)) xs /\
    (xs <> [] ->
     oct_pos (snd (fst (last rs (Panic, {| oct_buf := []; oct_pos := 0 |}, 0)))) = length (oct_buf s1)).
Proof.
  intros Hok. eexists. split; [apply write_all_spec; exact Hok|].
  cbn [oct_append oct_buf oct_pos]. split; [reflexivity|]. split; [reflexivity|].
  rewrite <- app_assoc. rewrite run_reads_wire by exact Hok.
  split; [reflexivity|]. split; [apply expect_reads_values|].
  intros Hne. rewrite expect_reads_end. destruct xs; [contradiction|]. rewrite app_length. reflexivity.
Qed.

Lemma rd_map_inv {A} (f : A -> oct_val) (Hf : forall x y, f x = f y -> x = y) (r : oct_rd A) x s a :
  oct_rd_map f r = (Ok (f x), s, a) -> r = (Ok x, s, a).
Proof.
  destruct r as [[[y|e|] s0] a0]; cbn; intros H; inversion H; subst. rewrite (Hf _ _ H1). reflexivity.
Qed.

(* size thresholds of the 7-bit encoding *)
Lemma uleb128_length u : 0 <= u < 2 ^ 32 ->
  length (uleb128 u) =
    if u <? 2 ^ 7 then 1%nat else if u <? 2 ^ 14 then 2%nat else if u <? 2 ^ 21 then 3%nat else if u <? 2 ^ 28 then 4%nat else 5%nat.
Proof.
  intros Hu.
  destruct (uleb128_cases u Hu) as [[R E]|[[R E]|[[R E]|[[R E]|[R E]]]]]; rewrite E; clear E; cbn [length];
    change (2 ^ 7) with 128 in *; change (2 ^ 14) with 16384 in *; change (2 ^ 21) with 2097152 in *;
    change (2 ^ 28) with 268435456 in *; change (2 ^ 32) with 4294967296 in *;
    repeat match goal with |- context [?a <? ?b] => destruct (Z.ltb_spec a b); try lia end; reflexivity.
Qed.

Lemma uleb_shape_uleb128_aux (k : nat) : forall n, 0 <= n < 128 ^ Z.of_nat (S k) ->
  uleb_shape (uleb128 n) = true /\ (1 <= n -> last (uleb128 n) 0 <> 0).
Proof.
  induction k as [|k IH]; intros n Hn.
  - change (128 ^ Z.of_nat 1) with 128 in Hn. rewrite uleb128_small by lia. cbn [uleb_shape last].
    split; [|lia]. apply andb_true_iff. split; [apply Z.leb_le|apply Z.ltb_lt]; lia.
  - destruct (Z_lt_ge_dec n 128) as [S|L].
    + rewrite uleb128_small by lia. cbn [uleb_shape last].
      split; [|lia]. apply andb_true_iff. split; [apply Z.leb_le|apply Z.ltb_lt]; lia.
    + rewrite uleb128_step by lia.
      rewrite Nat2Z.inj_succ, Z.pow_succ_r in Hn by lia.
      destruct (IH (n / 128)) as [Hs Hl]; [lia|].
      assert (Hl' : last (uleb128 (n / 128)) 0 <> 0) by (apply Hl; lia).
      destruct (uleb128 (n / 128)) as [|c r] eqn:E; [discriminate|].
      split.
      * cbn [uleb_shape]. cbn [uleb_shape] in Hs. rewrite Hs.
        replace (128 <=? 128 + n mod 128) with true by (symmetry; apply Z.leb_le; lia).
        replace (128 + n mod 128 <? 256) with true by (symmetry; apply Z.ltb_lt; lia).
        cbn [andb]. destruct (Z.eqb_spec (last (c :: r) 0) 0); [contradiction|reflexivity].
      * intros _. exact Hl'.
Qed.

Lemma uleb_shape_uleb128 n : 0 <= n -> uleb_shape (uleb128 n) = true.
Proof.
  intros Hn. apply (uleb_shape_uleb128_aux (Z.to_nat n)).
  split; [lia|].
  assert (H : forall m : nat, Z.of_nat m < 128 ^ Z.of_nat (S m)).
  { induction m as [|m IHm]; [reflexivity|].
    rewrite (Nat2Z.inj_succ (S m)), Z.pow_succ_r by lia. lia. }
  specialize (H (Z.to_nat n)). lia.
Qed.

(* ---------------------------------------------------------------- per-type round trips (API functions) *)
Definition oct_mk (buf : list Z) (p : nat) : oct_stream := {| oct_buf := buf; oct_pos := p |}.

Ltac rt_via val inj pre p post :=
  let enc := fresh "enc" in let Hw := fresh "Hw" in let Hr := fresh "Hr" in
  destruct (rt_val_lemma OctFixed OctViaStream OctViaStream val pre p post) as (enc & Hw & -> & Hr);
  [ cbn [oct_val_ok]; try reflexivity; try (apply andb_true_iff; split; [apply Z.leb_le|apply Z.ltb_lt]; lia);
    try (apply Z.ltb_lt; lia)
  | cbn [oct_write_val oct_op_of oct_read_op oct_wire oct_val_alloc] in Hw, Hr; unfold oct_mk; split;
    [ first [ exact Hw | exact (f_equal (fun o => match o with Some s0 => s0 | None => oct_empty end) Hw) ]
    | apply (rd_map_inv _ inj) in Hr; exact Hr ] ].

Lemma rt_bool_lemma : forall (b : bool) pre p post,
  oct_write_bool (oct_mk pre p) b = oct_mk (pre ++ [if b then 1 else 0]) p /\
  oct_read_bool (oct_mk (pre ++ [if b then 1 else 0] ++ post) (length pre)) =
    (Ok b, oct_mk (pre ++ [if b then 1 else 0] ++ post) (length pre + 1), 0).
Proof. intros b pre p post. rt_via (OVBool b) (fun x y (H : OVBool x = OVBool y) => f_equal (fun v => match v with OVBool z => z | _ => x end) H) pre p post. Qed.

Lemma rt_byte_lemma : forall x pre p post, 0 <= x < 256 ->
  oct_write_byte (oct_mk pre p) x = oct_mk (pre ++ [x]) p /\
  oct_read_byte (oct_mk (pre ++ [x] ++ post) (length pre)) = (Ok x, oct_mk (pre ++ [x] ++ post) (length pre + 1), 0).
Proof. intros x pre p post Hx. rt_via (OVByte x) (fun x y (H : OVByte x = OVByte y) => f_equal (fun v => match v with OVByte z => z | _ => x end) H) pre p post. Qed.

Lemma rt_int16_lemma : forall x pre p post, - 2 ^ 15 <= x < 2 ^ 15 ->
  oct_write_int16 (oct_mk pre p) x = oct_mk (pre ++ le_bytes 2 x) p /\
  oct_read_int16 (oct_mk (pre ++ le_bytes 2 x ++ post) (length pre)) =
    (Ok x, oct_mk (pre ++ le_bytes 2 x ++ post) (length pre + 2), 0).
Proof. intros x pre p post Hx. rt_via (OVInt16 x) (fun x y (H : OVInt16 x = OVInt16 y) => f_equal (fun v => match v with OVInt16 z => z | _ => x end) H) pre p post. Qed.

Lemma rt_int32_lemma : forall x pre p post, - 2 ^ 31 <= x < 2 ^ 31 ->
  oct_write_int32 (oct_mk pre p) x = oct_mk (pre ++ le_bytes 4 x) p /\
  oct_read_int32 (oct_mk (pre ++ le_bytes 4 x ++ post) (length pre)) =
    (Ok x, oct_mk (pre ++ le_bytes 4 x ++ post) (length pre + 4), 0).
Proof. intros x pre p post Hx. rt_via (OVInt32 x) (fun x y (H : OVInt32 x = OVInt32 y) => f_equal (fun v => match v with OVInt32 z => z | _ => x end) H) pre p post. Qed.

Lemma rt_int64_lemma : forall x pre p post, - 2 ^ 63 <= x < 2 ^ 63 ->
  oct_write_int64 (oct_mk pre p) x = oct_mk (pre ++ le_bytes 8 x) p /\
  oct_read_int64 (oct_mk (pre ++ le_bytes 8 x ++ post) (length pre)) =
    (Ok x, oct_mk (pre ++ le_bytes 8 x ++ post) (length pre + 8), 0).
Proof. intros x pre p post Hx. rt_via (OVInt64 x) (fun x y (H : OVInt64 x = OVInt64 y) => f_equal (fun v => match v with OVInt64 z => z | _ => x end) H) pre p post. Qed.

Lemma rt_7bit_lemma : forall x pre p post, - 2 ^ 31 <= x < 2 ^ 31 ->
  let enc := uleb128 (x mod 2 ^ 32) in
  oct_write_7bit (oct_mk pre p) x = Some (oct_mk (pre ++ enc) p) /\
  oct_read_7bit (oct_mk (pre ++ enc ++ post) (length pre)) =
    (Ok x, oct_mk (pre ++ enc ++ post) (length pre + length enc), 0).
Proof. intros x pre p post Hx enc. unfold enc. rt_via (OV7Bit x) (fun x y (H : OV7Bit x = OV7Bit y) => f_equal (fun v => match v with OV7Bit z => z | _ => x end) H) pre p post. Qed.

Lemma rt_bytes_lemma : forall (l : list Z) pre p post, Z.of_nat (length l) < 2 ^ 31 ->
  oct_write_bytes (oct_mk pre p) l = Some (oct_mk (pre ++ prefixed l) p) /\
  oct_read_bytes OctFixed (oct_mk (pre ++ prefixed l ++ post) (length pre)) =
    (Ok l, oct_mk (pre ++ prefixed l ++ post) (length pre + length (prefixed l)), Z.of_nat (length l)).
Proof. intros l pre p post Hx. rt_via (OVBytes l) (fun x y (H : OVBytes x = OVBytes y) => f_equal (fun v => match v with OVBytes z => z | _ => x end) H) pre p post. Qed.

Lemma read_string_eq v s : oct_read_string v s = oct_read_bytes v s.
Proof. unfold oct_read_string. destruct (oct_read_bytes v s) as [[[y|e|] s'] a]; reflexivity. Qed.

Lemma rt_string_lemma : forall (l : list Z) pre p post, Z.of_nat (length l) < 2 ^ 31 ->
  oct_write_string (oct_mk pre p) l = Some (oct_mk (pre ++ prefixed l) p) /\
  oct_read_string OctFixed (oct_mk (pre ++ prefixed l ++ post) (length pre)) =
    (Ok l, oct_mk (pre ++ prefixed l ++ post) (length pre + length (prefixed l)), Z.of_nat (length l)).
Proof. intros l pre p post Hx. rewrite read_string_eq. apply rt_bytes_lemma. exact Hx. Qed.

(* ---------------------------------------------------------------- wire format (all arguments, no range hypothesis) *)
Lemma wire_fixed_lemma : forall s d,
  oct_write_int16 s d = oct_append s (le_bytes 2 d) /\
  oct_write_int32 s d = oct_append s (le_bytes 4 d) /\
  oct_write_int64 s d = oct_append s (le_bytes 8 d).
Proof.
  intros s d. unfold oct_write_int16, oct_write_int32, oct_write_int64.
  rewrite wire_int16_bytes, wire_int32_bytes, wire_int64_bytes. auto.
Qed.

Lemma le_bytes_meaning_lemma : forall n x,
  length (le_bytes n x) = n /\ Forall (fun b => 0 <= b < 256) (le_bytes n x) /\
  le_value (le_bytes n x) = x mod 256 ^ Z.of_nat n.
Proof. intros n x. split; [apply le_bytes_length|]. split; [apply le_bytes_range|apply le_value_le_bytes]. Qed.

Lemma wire_7bit_lemma : forall s d,
  let u := d mod 2 ^ 32 in
  oct_write_7bit s d = Some (oct_append s (uleb128 u)) /\
  length (uleb128 u) =
    (if u <? 2 ^ 7 then 1%nat else if u <? 2 ^ 14 then 2%nat else if u <? 2 ^ 21 then 3%nat
     else if u <? 2 ^ 28 then 4%nat else 5%nat) /\
  uleb_value (uleb128 u) = u /\ uleb_shape (uleb128 u) = true.
Proof.
  intros s d u. assert (Hu : 0 <= u < 2 ^ 32) by (apply Z.mod_pos_bound; lia).
  split; [apply write_7bit_spec|]. split; [apply uleb128_length; exact Hu|].
  split; [apply uleb_value_uleb128; lia|apply uleb_shape_uleb128; lia].
Qed.

Lemma wire_bytes_lemma : forall s (l : list Z), Z.of_nat (length l) < 2 ^ 31 ->
  oct_write_bytes s l = Some (oct_append s (uleb128 (Z.of_nat (length l)) ++ l)) /\
  oct_write_string s l = Some (oct_append s (uleb128 (Z.of_nat (length l)) ++ l)).
Proof.
  intros s l H. unfold oct_write_string. rewrite write_bytes_spec by (apply Z.ltb_lt; exact H). auto.
Qed.

Lemma wire_bool_byte_lemma : forall s (b : bool) x,
  oct_write_bool s b = oct_append s [if b then 1 else 0] /\ oct_write_byte s x = oct_append s [x].
Proof. intros. split; reflexivity. Qed.

(* the writer / reader wrappers are the stream functions *)
Lemma wrappers_delegate_lemma :
  oct_wtr_write_bool = oct_write_bool /\ oct_wtr_write_byte = oct_write_byte /\
  oct_wtr_write_int16 = oct_write_int16 /\ oct_wtr_write_int32 = oct_write_int32 /\
  oct_wtr_write_int64 = oct_write_int64 /\
  oct_rdr_read_bool = oct_read_bool /\ oct_rdr_read_byte = oct_read_byte /\
  oct_rdr_read_int16 = oct_read_int16 /\ oct_rdr_read_int32 = oct_read_int32 /\
  oct_rdr_read_int64 = oct_read_int64.
Proof. repeat split; reflexivity. Qed.

(* examples used for non-vacuity *)
Lemma c11_example :
  oct_c11_case [(OctViaReader, OV7Bit (-1)); (OctViaStream, OVInt16 (-2)); (OctViaReader, OVString [104; 105])] =
  Some ([5; 7; 10],
        oct_mk [255; 255; 255; 255; 15; 254; 255; 2; 104; 105] 0,
        [(Ok (OV7Bit (-1)), oct_mk [255; 255; 255; 255; 15; 254; 255; 2; 104; 105] 5, 0);
         (Ok (OVInt16 (-2)), oct_mk [255; 255; 255; 255; 15; 254; 255; 2; 104; 105] 7, 0);
         (Ok (OVString [104; 105]), oct_mk [255; 255; 255; 255; 15; 254; 255; 2; 104; 105] 10, 2)]).
Proof. vm_compute. reflexivity. Qed.

Lemma c12_example :
  oct_c12_case OctFixed [128; 128; 128; 128; 16; 3; 65] [Op7Bit; OpBytes; OpInt16 OctViaReader; OpByte OctViaStream] =
  [(Err OctErrBad7BitInt, oct_mk [128; 128; 128; 128; 16; 3; 65] 5, 0);
   (Err OctErrNotEnoughData, oct_mk [128; 128; 128; 128; 16; 3; 65] 6, 0);
   (Err OctErrNotEnoughData, oct_mk [128; 128; 128; 128; 16; 3; 65] 6, 0);
   (Ok (OVByte 65), oct_mk [128; 128; 128; 128; 16; 3; 65] 7, 0)].
Proof. vm_compute. reflexivity. Qed.

(* ---------------------------------------------------------------- which documented error each call can return *)
Definition oct_err_allowed (op : oct_op) (e : oct_err) : Prop :=
  match op with
  | OpBool _ | OpByte _ | OpInt16 _ | OpInt32 _ | OpInt64 _ => e = OctErrNotEnoughData
  | Op7Bit => e = OctErrNotEnoughData \/ e = OctErrBad7BitInt
  | OpBytes | OpString => e = OctErrNotEnoughData \/ e = OctErrBad7BitInt \/ e = OctErrNegativeSize
  | OpRead n => e = OctErrInvalidArgument /\ n = 0
  end.

Lemma v_7loop_errors iters : forall i num l e n a,
  v_7loop iters i num l = (Err e, n, a) -> e = OctErrNotEnoughData \/ e = OctErrBad7BitInt.
Proof.
  induction iters as [|k IH]; intros i num l e n a H; destruct l as [|b l']; cbn [v_7loop] in H.
  - inversion H; auto.
  - destruct (b >? 15); inversion H; auto.
  - inversion H; auto.
  - destruct (b <=? 127); [discriminate|].
    destruct (v_7loop k (i + 7) (dec7_step num b i) l') as [[r0 n0] a0] eqn:E.
    inversion H; subst. eapply IH; eauto.
Qed.

Lemma v_bytes_errors v l e n a :
  v_bytes v l = (Err e, n, a) ->
  e = OctErrNotEnoughData \/ e = OctErrBad7BitInt \/ e = OctErrNegativeSize.
Proof.
  unfold v_bytes. intros H. destruct (v_7bit l) as [[r1 n1] a1] eqn:E7.
  destruct r1 as [size|e1|]; [| |discriminate].
  - destruct (size <? 0); [inversion H; auto|].
    destruct (size =? 0); [discriminate|].
    destruct (match v with OctOrig => false | OctFixed => _ end); [inversion H; auto|].
    destruct (sext 32 _ =? size); [discriminate|inversion H; auto].
  - inversion H; subst. apply v_7loop_errors in E7. tauto.
Qed.

Lemma view_map_err {A B} (f : A -> B) x e n a :
  view_map f x = (Err e, n, a) -> x = (Err e, n, a).
Proof. destruct x as [[[y|e0|] n0] a0]; cbn; intros H; inversion H; reflexivity. Qed.

Lemma read_errors_lemma : forall v op s e s' a,
  oct_wf s -> oct_op_ok op = true -> oct_read_op v op s = (Err e, s', a) -> oct_err_allowed op e.
Proof.
  intros v op s e s' a Hwf Hok H.
  destruct (read_op_view _ _ _ _ _ _ Hwf Hok H) as (n & Hv & _). clear H.
  destruct op as [?|?|?|?|?| | | |m]; cbn [v_op oct_err_allowed] in *; apply view_map_err in Hv.
  - destruct (oct_rest s) as [|b l']; cbn in Hv; inversion Hv; reflexivity.
  - destruct (oct_rest s) as [|b l']; cbn in Hv; inversion Hv; reflexivity.
  - destruct (oct_rest s) as [|b0 [|b1 l']]; cbn in Hv; inversion Hv; reflexivity.
  - destruct (oct_rest s) as [|b0 [|b1 [|b2 [|b3 l']]]]; cbn in Hv; inversion Hv; reflexivity.
  - destruct (oct_rest s) as [|b0 [|b1 [|b2 [|b3 [|b4 [|b5 [|b6 [|b7 l']]]]]]]]; cbn in Hv; inversion Hv; reflexivity.
  - eapply v_7loop_errors; exact Hv.
  - eapply v_bytes_errors; exact Hv.
  - eapply v_bytes_errors; exact Hv.
  - unfold v_read in Hv. destruct (Z.eqb_spec m 0); inversion Hv; auto.
Qed.
