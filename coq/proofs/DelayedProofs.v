(* DelayedProofs.v -- lemmas about models/Delayed.v (C10). *)
From Got Require Import Base Heap HeapProofs Delayed.
Require Import Permutation Sorted.
Local Open Scope Z_scope.

(* ------------------------------------------------------------------ list helpers *)
Lemma dl_ss_app : forall (l1 l2 : list dl_task),
  StronglySorted dl_le l1 -> StronglySorted dl_le l2 ->
  (forall a b, In a l1 -> In b l2 -> dl_le a b) ->
  StronglySorted dl_le (l1 ++ l2).
Proof.
  induction l1 as [|x l1 IH]; intros l2 H1 H2 H; [exact H2|].
  cbn [app]. inversion H1 as [|? ? Hs Hf]; subst. constructor.
  - apply IH; auto. intros a b Ha Hb. apply H; [right; exact Ha | exact Hb].
  - apply Forall_app. split; [exact Hf|].
    apply Forall_forall. intros b Hb. apply H; [left; reflexivity | exact Hb].
Qed.

Lemma dl_ss_app_l : forall (l1 l2 : list dl_task),
  StronglySorted dl_le (l1 ++ l2) -> StronglySorted dl_le l1.
Proof.
  induction l1 as [|x l1 IH]; intros l2 H; [constructor|].
  cbn [app] in H. inversion H as [|? ? Hs Hf]; subst. constructor.
  - eapply IH; eauto.
  - apply Forall_app in Hf. tauto.
Qed.

Lemma dl_length_zero_nil : forall (A : Type) (l : list A), length l = O -> l = [].
Proof. intros A [|x l] H; [reflexivity | discriminate H]. Qed.

Lemma dl_forwarded_app : forall a b, dl_forwarded (a ++ b) = dl_forwarded a ++ dl_forwarded b.
Proof. intros. unfold dl_forwarded. apply flat_map_app. Qed.

Lemma dl_placed_app : forall a b, dl_placed (a ++ b) = dl_placed a ++ dl_placed b.
Proof. intros. unfold dl_placed. apply flat_map_app. Qed.

Lemma dl_recvd_app : forall a b, dl_recvd (a ++ b) = dl_recvd a ++ dl_recvd b.
Proof. intros. unfold dl_recvd. apply flat_map_app. Qed.

Lemma dl_ticks_app : forall a b, dl_ticks (a ++ b) = dl_ticks a ++ dl_ticks b.
Proof. intros. unfold dl_ticks. apply flat_map_app. Qed.

(* what a delivery or a drain puts out: Placed/AfterClose/Got stamped [now], nothing disabled *)
Definition dl_out_ok (now : Z) (x : dl_out) : Prop :=
  match x with
  | DlPlaced _ a => a = now
  | DlAfterClose _ a => a = now
  | DlGot _ _ _ => True
  | DlDisabled _ => False
  end.

Lemma dl_placed_in : forall os t a, In (t, a) (dl_placed os) <-> In (DlPlaced t a) os.
Proof.
  induction os as [|x os IH]; intros t a; [cbn; tauto|].
  unfold dl_placed in *. cbn [flat_map]. rewrite in_app_iff, IH. cbn [In].
  destruct x; cbn [dl_placed_of In]; split; intros H.
  - destruct H as [[H|[]]|H]; [left; inversion H; reflexivity | right; exact H].
  - destruct H as [H|H]; [left; left; inversion H; reflexivity | right; exact H].
  - destruct H as [[]|H]; right; exact H.
  - destruct H as [H|H]; [discriminate H | right; exact H].
  - destruct H as [[]|H]; right; exact H.
  - destruct H as [H|H]; [discriminate H | right; exact H].
  - destruct H as [[]|H]; right; exact H.
  - destruct H as [H|H]; [discriminate H | right; exact H].
Qed.

Lemma dl_placed_forwarded : forall os t a, In (t, a) (dl_placed os) -> In t (dl_forwarded os).
Proof.
  induction os as [|x os IH]; intros t a H; [destruct H|].
  unfold dl_placed, dl_forwarded in *. cbn [flat_map] in *. apply in_app_iff in H. apply in_app_iff.
  destruct H as [H|H]; [left | right; eapply IH; exact H].
  destruct x; cbn in *; try tauto. destruct H as [H|[]]. inversion H. left. reflexivity.
Qed.

(* ------------------------------------------------------------------ generic part *)
Section Generic.
Variable I : dl_pq_impl.
Variable inv : pq_t I -> Prop.
Hypothesis OK : dl_pq_ok I inv.

Lemma dl_drain_unfold : forall fuel now p,
  dl_drain I fuel now p =
  match pq_len I p with
  | O => Some ([], p)
  | S _ =>
    match pq_top I p with
    | None => None
    | Some t =>
      if dl_trig t >? now then Some ([], p)
      else
        match fuel with
        | O => None
        | S f =>
          match pq_pop I p with
          | None => None
          | Some (_, p') =>
            match dl_drain I f now p' with
            | Some (o, p'') => Some (t :: o, p'')
            | None => None
            end
          end
        end
    end
  end.
Proof. intros [|f] now p; reflexivity. Qed.

Lemma dl_drain_spec : forall fuel now p,
  inv p -> (length (pq_elems I p) <= fuel)%nat ->
  exists ts p', dl_drain I fuel now p = Some (ts, p') /\ inv p' /\
    Permutation (pq_elems I p) (ts ++ pq_elems I p') /\
    Forall (fun t => dl_trig t <= now) ts /\
    Forall (fun y => now < dl_trig y) (pq_elems I p') /\
    StronglySorted dl_le ts.
Proof.
  induction fuel as [|f IH]; intros now p Hinv Hlen; rewrite dl_drain_unfold;
    rewrite (ok_len _ _ OK p Hinv).
  - assert (E : pq_elems I p = []) by (apply dl_length_zero_nil; lia).
    rewrite E. cbn [length]. exists [], p. rewrite E. cbn [app].
    repeat split; auto; constructor.
  - destruct (pq_elems I p) as [|e0 es] eqn:E.
    + cbn [length]. exists [], p. rewrite E. cbn [app]. repeat split; auto; constructor.
    + cbn [length].
      assert (Hne : pq_elems I p <> []) by (rewrite E; discriminate).
      destruct (pq_pop I p) as [[t p1]|] eqn:Ep;
        [| exfalso; exact (ok_pop_some _ _ OK p Hinv Hne Ep)].
      rewrite (ok_top _ _ OK p Hinv), Ep. cbn [option_map fst].
      pose proof (ok_pop _ _ OK p t p1 Hinv Ep) as Hperm.
      pose proof (ok_pop_inv _ _ OK p t p1 Hinv Ep) as Hinv1.
      destruct (dl_trig t >? now) eqn:G.
      * exists [], p. cbn [app]. split; [reflexivity|]. split; [exact Hinv|].
        split; [rewrite E; apply Permutation_refl|]. split; [constructor|]. split; [|constructor].
        rewrite E. apply Forall_forall. intros y Hy.
        assert (Hm : dl_trig t <= dl_trig y).
        { eapply (ok_pop_min _ _ OK p t p1 y Hinv Ep). rewrite E. exact Hy. }
        apply Z.gtb_lt in G. lia.
      * assert (Hl1 : (length (pq_elems I p1) <= f)%nat).
        { apply Permutation_length in Hperm. rewrite E in Hperm. cbn [length] in *. lia. }
        destruct (IH now p1 Hinv1 Hl1) as (ts & p2 & Hd & Hinv2 & Hp2 & Hle & Hgt & Hss).
        rewrite Hd. exists (t :: ts), p2. split; [reflexivity|]. split; [exact Hinv2|].
        split.
        { rewrite <- E. etransitivity; [exact Hperm|]. cbn [app]. constructor. exact Hp2. }
        split.
        { constructor; [|exact Hle]. rewrite Z.gtb_ltb in G. apply Z.ltb_ge in G. exact G. }
        split; [exact Hgt|].
        constructor; [exact Hss|].
        apply Forall_forall. intros y Hy. unfold dl_le.
        eapply (ok_pop_min _ _ OK p t p1 y Hinv Ep).
        eapply Permutation_in; [symmetry; exact Hperm|]. right.
        eapply Permutation_in; [symmetry; exact Hp2|]. apply in_app_iff. left. exact Hy.
Qed.

Lemma dl_deliver_spec : forall w qs at_ w' qs' o,
  dl_deliver w qs at_ = (w', qs', o) ->
  w = dl_forwarded o ++ w' /\ Forall (dl_out_ok at_) o /\
  (forall q t a, ~ In (DlGot q t a) o).
Proof.
  induction w as [|t w IH]; intros qs at_ w' qs' o H; cbn [dl_deliver] in H.
  - inversion H; subst. cbn. repeat split; auto.
  - destruct (dl_lookup qs (dl_q t)) as [qu|].
    + destruct (dl_closed qu).
      * destruct (dl_deliver w qs at_) as [[w1 qs1] o1] eqn:E. inversion H; subst.
        destruct (IH _ _ _ _ _ E) as (Hw & Hf & Hg). split; [|split].
        -- unfold dl_forwarded. cbn [flat_map dl_forwarded_of app]. f_equal. exact Hw.
        -- constructor; [reflexivity | exact Hf].
        -- intros q t0 a [Hx|Hx]; [discriminate Hx | exact (Hg _ _ _ Hx)].
      * destruct (length (dl_buf qu) <? dl_cap qu)%nat.
        -- match type of H with context [dl_deliver w ?Q at_] =>
             destruct (dl_deliver w Q at_) as [[w1 qs1] o1] eqn:E end.
           inversion H; subst.
           destruct (IH _ _ _ _ _ E) as (Hw & Hf & Hg). split; [|split].
           ++ unfold dl_forwarded. cbn [flat_map dl_forwarded_of app]. f_equal. exact Hw.
           ++ constructor; [reflexivity | exact Hf].
           ++ intros q t0 a [Hx|Hx]; [discriminate Hx | exact (Hg _ _ _ Hx)].
        -- inversion H; subst. cbn. repeat split; auto.
    + destruct (dl_deliver w qs at_) as [[w1 qs1] o1] eqn:E. inversion H; subst.
      destruct (IH _ _ _ _ _ E) as (Hw & Hf & Hg). split; [|split].
      * unfold dl_forwarded. cbn [flat_map dl_forwarded_of app]. f_equal. exact Hw.
      * constructor; [reflexivity | exact Hf].
      * intros q t0 a [Hx|Hx]; [discriminate Hx | exact (Hg _ _ _ Hx)].
Qed.

(* one step, characterised *)
Inductive dl_step_kind (s s1 : dl_state I) (e : dl_event) (o : list dl_out) : Prop :=
| DlkDisabled : s1 = s -> o = [DlDisabled e] ->
    match e with DlRecv _ | DlTick _ => dl_wait s <> [] | _ => True end -> dl_step_kind s s1 e o
| DlkRecv t : e = DlRecv t -> dl_wait s = [] -> dl_pq s1 = pq_push I t (dl_pq s) ->
    dl_wait s1 = [] -> o = [] -> dl_step_kind s s1 e o
| DlkTick now ts : e = DlTick now -> dl_wait s = [] ->
    Permutation (pq_elems I (dl_pq s)) (ts ++ pq_elems I (dl_pq s1)) ->
    Forall (fun t => dl_trig t <= now) ts ->
    Forall (fun y => now < dl_trig y) (pq_elems I (dl_pq s1)) ->
    StronglySorted dl_le ts ->
    ts = dl_forwarded o ++ dl_wait s1 -> Forall (dl_out_ok now) o -> dl_step_kind s s1 e o
| DlkQueue now : (exists q, e = DlTake q now \/ e = DlClose q now) ->
    dl_pq s1 = dl_pq s -> dl_wait s = dl_forwarded o ++ dl_wait s1 ->
    Forall (dl_out_ok now) o -> dl_step_kind s s1 e o.

Lemma dl_step_char : forall s e, inv (dl_pq s) ->
  exists s1 o, dl_step I s e = Some (s1, o) /\ inv (dl_pq s1) /\ dl_step_kind s s1 e o.
Proof.
  intros s e Hinv. destruct e as [t|now|q now|q now]; cbn [dl_step].
  - destruct (dl_wait s) eqn:W.
    + eexists _, _. split; [reflexivity|]. cbn. split; [apply (ok_push_inv _ _ OK); exact Hinv|].
      eapply DlkRecv; eauto.
    + eexists _, _. split; [reflexivity|]. split; [exact Hinv|]. apply DlkDisabled; try reflexivity. rewrite W. discriminate.
  - destruct (dl_wait s) eqn:W.
    + destruct (dl_drain_spec (pq_len I (dl_pq s)) now (dl_pq s) Hinv) as (ts & p' & Hd & Hinv' & Hp & Hle & Hgt & Hss).
      { rewrite (ok_len _ _ OK _ Hinv). lia. }
      rewrite Hd. destruct (dl_deliver ts (dl_qs s) now) as [[w qs'] o] eqn:E.
      destruct (dl_deliver_spec _ _ _ _ _ _ E) as (Hw & Hf & _).
      eexists _, _. split; [reflexivity|]. cbn. split; [exact Hinv'|].
      eapply DlkTick with (ts := ts); eauto.
    + eexists _, _. split; [reflexivity|]. split; [exact Hinv|]. apply DlkDisabled; try reflexivity. rewrite W. discriminate.
  - destruct (dl_lookup (dl_qs s) q) as [qu|].
    + destruct (dl_buf qu) as [|t rest].
      * eexists _, _. split; [reflexivity|]. split; [exact Hinv|]. apply DlkDisabled; try reflexivity; exact Logic.I.
      * match goal with |- context [dl_deliver (dl_wait s) ?Q now] =>
          destruct (dl_deliver (dl_wait s) Q now) as [[w qs'] o] eqn:E end.
        destruct (dl_deliver_spec _ _ _ _ _ _ E) as (Hw & Hf & _).
        eexists _, _. split; [reflexivity|]. cbn. split; [exact Hinv|].
        eapply DlkQueue with (now := now);
          [eexists; left; reflexivity | reflexivity
          | cbn; unfold dl_forwarded; cbn [flat_map dl_forwarded_of app]; exact Hw
          | constructor; [exact Logic.I | exact Hf]].
    + eexists _, _. split; [reflexivity|]. split; [exact Hinv|]. apply DlkDisabled; try reflexivity; exact Logic.I.
  - destruct (dl_lookup (dl_qs s) q) as [qu|].
    + match goal with |- context [dl_deliver (dl_wait s) ?Q now] =>
        destruct (dl_deliver (dl_wait s) Q now) as [[w qs'] o] eqn:E end.
      destruct (dl_deliver_spec _ _ _ _ _ _ E) as (Hw & Hf & _).
      eexists _, _. split; [reflexivity|]. cbn. split; [exact Hinv|].
      eapply DlkQueue with (now := now);
        [eexists; right; reflexivity | reflexivity | exact Hw | exact Hf].
    + eexists _, _. split; [reflexivity|]. split; [exact Hinv|]. apply DlkDisabled; try reflexivity; exact Logic.I.
Qed.

(* a run from a state with a well-formed priority queue never fails *)
Lemma dl_run_total_from : forall evs s, inv (dl_pq s) ->
  exists sf outs, dl_run I s evs = Some (sf, outs) /\ inv (dl_pq sf).
Proof.
  induction evs as [|e evs IH]; intros s Hinv; cbn [dl_run].
  - eexists _, _. split; [reflexivity | exact Hinv].
  - destruct (dl_step_char s e Hinv) as (s1 & o & Hs & Hinv1 & _). rewrite Hs.
    destruct (IH s1 Hinv1) as (sf & outs & Hr & Hf). rewrite Hr.
    eexists _, _. split; [reflexivity | exact Hf].
Qed.

(* split a run at its first event *)
Lemma dl_run_cons : forall s e evs sf outs, inv (dl_pq s) ->
  dl_run I s (e :: evs) = Some (sf, outs) ->
  exists s1 o1 o2, dl_step I s e = Some (s1, o1) /\ inv (dl_pq s1) /\ dl_step_kind s s1 e o1 /\
    dl_run I s1 evs = Some (sf, o2) /\ outs = o1 ++ o2.
Proof.
  intros s e evs sf outs Hinv H. cbn [dl_run] in H.
  destruct (dl_step_char s e Hinv) as (s1 & o & Hs & Hinv1 & Hk). rewrite Hs in H.
  destruct (dl_run I s1 evs) as [[s2 o2]|] eqn:E; [|discriminate H].
  inversion H; subst. eexists _, _, _. repeat split; eauto.
Qed.

Lemma dl_run_app : forall a b s sf outs, inv (dl_pq s) ->
  dl_run I s (a ++ b) = Some (sf, outs) ->
  exists s1 o1 o2, dl_run I s a = Some (s1, o1) /\ inv (dl_pq s1) /\
    dl_run I s1 b = Some (sf, o2) /\ outs = o1 ++ o2.
Proof.
  induction a as [|e a IH]; intros b s sf outs Hinv H.
  - cbn [app] in H. exists s, [], outs. cbn. auto.
  - cbn [app] in H. destruct (dl_run_cons _ _ _ _ _ Hinv H) as (s1 & o1 & o2 & Hs & Hinv1 & _ & Hr & ->).
    destruct (IH _ _ _ _ Hinv1 Hr) as (s2 & o3 & o4 & Ha & Hinv2 & Hb & ->).
    exists s2, (o1 ++ o3), o4. cbn [dl_run]. rewrite Hs, Ha. rewrite app_assoc. auto.
Qed.

(* ---------------------------------------------------------------- never early *)
Lemma dl_never_early_from : forall evs s lo sf outs,
  inv (dl_pq s) -> dl_run I s evs = Some (sf, outs) -> dl_mono lo evs = true ->
  Forall (fun w => dl_trig w <= lo) (dl_wait s) ->
  forall t a, In (DlPlaced t a) outs \/ In (DlAfterClose t a) outs -> dl_trig t <= a.
Proof.
  induction evs as [|e evs IH]; intros s lo sf outs Hinv Hr Hm Hw t a Hin.
  - cbn in Hr. inversion Hr; subst. destruct Hin as [[]|[]].
  - destruct (dl_run_cons _ _ _ _ _ Hinv Hr) as (s1 & o1 & o2 & Hs & Hinv1 & Hk & Hr2 & ->).
    assert (Hsplit : (In (DlPlaced t a) o1 \/ In (DlAfterClose t a) o1) \/
                     (In (DlPlaced t a) o2 \/ In (DlAfterClose t a) o2)).
    { destruct Hin as [H|H]; apply in_app_iff in H; tauto. }
    clear Hin. destruct Hk as [-> -> Hdis | t0 -> W Hp W1 -> | now ts -> W Hp Hle Hgt Hss Hts Hok | now [q He] Hp Hwt Hok].
    + destruct Hsplit as [[[H|[]]|[H|[]]]|H]; try discriminate H.
      assert (Hx : exists lo', lo <= lo' /\ dl_mono lo' evs = true).
      { destruct e as [t0|n|q n|q n]; cbn [dl_mono] in Hm.
        - exists lo. split; [lia | exact Hm].
        - apply andb_true_iff in Hm. destruct Hm as [H1 H2]. apply Z.leb_le in H1. exists n. auto.
        - apply andb_true_iff in Hm. destruct Hm as [H1 H2]. apply Z.leb_le in H1. exists n. auto.
        - apply andb_true_iff in Hm. destruct Hm as [H1 H2]. apply Z.leb_le in H1. exists n. auto. }
      destruct Hx as (lo' & Hl & Hm').
      eapply IH with (lo := lo'); eauto. eapply Forall_impl; [|exact Hw]. cbn. intros; lia.
    + destruct Hsplit as [[[]|[]]|H]. eapply IH with (lo := lo); eauto. rewrite W1. constructor.
    + cbn [dl_mono] in Hm. apply andb_true_iff in Hm. destruct Hm as [Hlo Hm].
      assert (Hall : forall x, In x (dl_forwarded o1) \/ In x (dl_wait s1) -> dl_trig x <= now).
      { intros x Hx. rewrite Forall_forall in Hle. apply Hle. rewrite Hts. apply in_app_iff. exact Hx. }
      destruct Hsplit as [H|H].
      * assert (Ha : a = now).
        { rewrite Forall_forall in Hok. destruct H as [H|H]; apply Hok in H; exact H. }
        subst a. apply Hall. left.
        destruct H as [H|H].
        -- eapply dl_placed_forwarded. apply dl_placed_in. exact H.
        -- clear -H. induction o1 as [|x o1 IHo]; [destruct H|]. unfold dl_forwarded. cbn [flat_map].
           apply in_app_iff. destruct H as [->|H]; [left; cbn; auto | right; apply IHo; exact H].
      * eapply IH with (lo := now); eauto. apply Forall_forall. intros x Hx. apply Hall. right. exact Hx.
    + assert (Hlo : lo <= now /\ dl_mono now evs = true).
      { destruct He as [->| ->]; cbn [dl_mono] in Hm; apply andb_true_iff in Hm;
          destruct Hm as [H1 H2]; apply Z.leb_le in H1; auto. }
      destruct Hlo as [Hlo Hm2].
      assert (Hall : forall x, In x (dl_forwarded o1) \/ In x (dl_wait s1) -> dl_trig x <= now).
      { intros x Hx. rewrite Forall_forall in Hw. specialize (Hw x). rewrite Hwt in Hw.
        rewrite in_app_iff in Hw. specialize (Hw Hx). cbn in Hw. lia. }
      destruct Hsplit as [H|H].
      * assert (Ha : a = now).
        { rewrite Forall_forall in Hok. destruct H as [H|H]; apply Hok in H; exact H. }
        subst a. apply Hall. left.
        destruct H as [H|H].
        -- eapply dl_placed_forwarded. apply dl_placed_in. exact H.
        -- clear -H. induction o1 as [|x o1 IHo]; [destruct H|]. unfold dl_forwarded. cbn [flat_map].
           apply in_app_iff. destruct H as [->|H]; [left; cbn; auto | right; apply IHo; exact H].
      * eapply IH with (lo := now); eauto. apply Forall_forall. intros x Hx. apply Hall. right. exact Hx.
Qed.

(* ---------------------------------------------------------------- conservation *)
Lemma dl_conservation_from : forall evs s sf outs,
  inv (dl_pq s) -> dl_run I s evs = Some (sf, outs) -> dl_all_enabled outs = true ->
  Permutation (dl_recvd evs ++ pq_elems I (dl_pq s) ++ dl_wait s)
              (dl_forwarded outs ++ pq_elems I (dl_pq sf) ++ dl_wait sf).
Proof.
  induction evs as [|e evs IH]; intros s sf outs Hinv Hr Hen.
  - cbn in Hr. inversion Hr; subst. cbn. apply Permutation_refl.
  - destruct (dl_run_cons _ _ _ _ _ Hinv Hr) as (s1 & o1 & o2 & Hs & Hinv1 & Hk & Hr2 & ->).
    unfold dl_all_enabled in Hen. rewrite forallb_app in Hen. apply andb_true_iff in Hen.
    destruct Hen as [Hen1 Hen2]. specialize (IH _ _ _ Hinv1 Hr2 Hen2).
    rewrite dl_forwarded_app. unfold dl_recvd in *. cbn [flat_map].
    destruct Hk as [-> -> Hdis | t0 -> W Hp W1 -> | now ts -> W Hp Hle Hgt Hss Hts Hok | now [q He] Hp Hwt Hok].
    + cbn in Hen1. discriminate Hen1.
    + cbn [dl_recvd_of dl_forwarded app]. cbn [flat_map app].
      etransitivity; [|exact IH]. rewrite Hp, W, W1.
      pose proof (ok_push _ _ OK t0 (dl_pq s) Hinv) as Hpush.
      rewrite !app_nil_r. rewrite Hpush.
      apply Permutation_middle.
    + cbn [dl_recvd_of app]. rewrite W, app_nil_r.
      rewrite <- app_assoc. etransitivity; [|apply Permutation_app_head; exact IH]. clear IH.
      rewrite Hp. rewrite Hts.
      rewrite <- !app_assoc.
      (* recvd ++ fw ++ wait1 ++ el1   ~   fw ++ recvd ++ el1 ++ wait1 *)
      etransitivity; [apply Permutation_app_swap_app|].
      apply Permutation_app_head. apply Permutation_app_head. apply Permutation_app_comm.
    + assert (Er : dl_recvd_of e = []) by (destruct He as [->| ->]; reflexivity).
      rewrite Er. cbn [app]. rewrite <- app_assoc.
      etransitivity; [|apply Permutation_app_head; exact IH]. clear IH.
      rewrite Hp, Hwt.
      (* recvd ++ el ++ fw ++ wait1  ~  fw ++ recvd ++ el ++ wait1 *)
      rewrite !app_assoc. apply Permutation_app_tail.
      rewrite <- (app_assoc (dl_forwarded o1)). apply Permutation_app_comm.
Qed.

(* ---------------------------------------------------------------- sorted release *)
Lemma dl_sorted_from : forall evs s eff seen sf outs,
  inv (dl_pq s) -> dl_run I s evs = Some (sf, outs) -> eff <= seen ->
  dl_timely seen evs = true ->
  (forall y, In y (pq_elems I (dl_pq s)) -> eff < dl_trig y) ->
  exists d, dl_forwarded outs ++ dl_wait sf = dl_wait s ++ d /\
            StronglySorted dl_le d /\ (forall x, In x d -> eff < dl_trig x).
Proof.
  induction evs as [|e evs IH]; intros s eff seen sf outs Hinv Hr Hes Ht Hel.
  - cbn in Hr. inversion Hr; subst. exists []. cbn. rewrite app_nil_r. repeat split; [constructor | tauto].
  - destruct (dl_run_cons _ _ _ _ _ Hinv Hr) as (s1 & o1 & o2 & Hs & Hinv1 & Hk & Hr2 & ->).
    rewrite dl_forwarded_app.
    destruct Hk as [-> -> Hdis | t0 -> W Hp W1 -> | now ts -> W Hp Hle Hgt Hss Hts Hok | now [q He] Hp Hwt Hok].
    + (* disabled: no effect *)
      assert (Ht' : exists seen', seen <= seen' /\ dl_timely seen' evs = true).
      { destruct e; cbn [dl_timely] in Ht.
        - apply andb_true_iff in Ht. exists seen. split; [lia | tauto].
        - exists (Z.max seen now). split; [lia | exact Ht].
        - exists seen. split; [lia | exact Ht].
        - exists seen. split; [lia | exact Ht]. }
      destruct Ht' as (seen' & Hs' & Ht').
      destruct (IH s eff seen' sf o2 Hinv Hr2 ltac:(lia) Ht' Hel) as (d & Hd & Hsd & Hgd).
      exists d. cbn [dl_forwarded flat_map dl_forwarded_of app]. auto.
    + cbn [dl_timely] in Ht. apply andb_true_iff in Ht. destruct Ht as [Ht0 Ht]. apply Z.ltb_lt in Ht0.
      assert (Hel1 : forall y, In y (pq_elems I (dl_pq s1)) -> eff < dl_trig y).
      { intros y Hy. rewrite Hp in Hy.
        apply (Permutation_in _ (ok_push _ _ OK t0 (dl_pq s) Hinv)) in Hy.
        destruct Hy as [<-|Hy]; [lia | apply Hel; exact Hy]. }
      destruct (IH s1 eff seen sf o2 Hinv1 Hr2 Hes Ht Hel1) as (d & Hd & Hsd & Hgd).
      exists d. cbn [dl_forwarded flat_map app]. rewrite W. rewrite W1 in Hd. auto.
    + cbn [dl_timely] in Ht.
      assert (Hel1 : forall y, In y (pq_elems I (dl_pq s1)) -> Z.max eff now < dl_trig y).
      { intros y Hy. rewrite Forall_forall in Hgt. specialize (Hgt y Hy).
        assert (eff < dl_trig y).
        { apply Hel. eapply Permutation_in; [symmetry; exact Hp|]. apply in_app_iff. right. exact Hy. }
        lia. }
      destruct (IH s1 (Z.max eff now) (Z.max seen now) sf o2 Hinv1 Hr2 ltac:(lia) Ht Hel1) as (d & Hd & Hsd & Hgd).
      exists (ts ++ d). rewrite W. cbn [app]. split; [|split].
      * rewrite <- app_assoc, Hd, app_assoc, <- Hts. reflexivity.
      * apply dl_ss_app; auto. intros a b Ha Hb. unfold dl_le.
        rewrite Forall_forall in Hle. specialize (Hle a Ha). specialize (Hgd b Hb). lia.
      * intros x Hx. apply in_app_iff in Hx. destruct Hx as [Hx|Hx].
        -- apply Hel. eapply Permutation_in; [symmetry; exact Hp|]. apply in_app_iff. left. exact Hx.
        -- specialize (Hgd x Hx). lia.
    + assert (Ht' : dl_timely seen evs = true) by (destruct He as [->| ->]; exact Ht).
      assert (Hel1 : forall y, In y (pq_elems I (dl_pq s1)) -> eff < dl_trig y) by (rewrite Hp; exact Hel).
      destruct (IH s1 eff seen sf o2 Hinv1 Hr2 Hes Ht' Hel1) as (d & Hd & Hsd & Hgd).
      exists d. split; [|auto]. rewrite <- app_assoc, Hd, app_assoc, <- Hwt. reflexivity.
Qed.

(* ---------------------------------------------------------------- roomy runs *)
Lemma dl_roomy_cons : forall s e evs s1 o1,
  dl_step I s e = Some (s1, o1) -> dl_roomy I s (e :: evs) = true ->
  dl_wait s1 = [] /\ (forall t a, ~ In (DlAfterClose t a) o1) /\ dl_roomy I s1 evs = true.
Proof.
  intros s e evs s1 o1 Hs H. cbn [dl_roomy] in H. rewrite Hs in H.
  destruct (dl_wait s1) eqn:W; [|discriminate H]. apply andb_true_iff in H. destruct H as [H1 H2].
  split; [reflexivity|]. split; [|exact H2].
  intros t a Hin. rewrite forallb_forall in H1. specialize (H1 _ Hin). discriminate H1.
Qed.

Lemma dl_roomy_app : forall a b s s1 o1, inv (dl_pq s) ->
  dl_run I s a = Some (s1, o1) -> dl_roomy I s (a ++ b) = true ->
  dl_roomy I s1 b = true /\ (a <> [] -> dl_wait s1 = []).
Proof.
  induction a as [|e a IH]; intros b s s1 o1 Hinv Hr H.
  - cbn in Hr. inversion Hr; subst. split; [exact H | congruence].
  - destruct (dl_run_cons _ _ _ _ _ Hinv Hr) as (s2 & o2 & o3 & Hs & Hinv2 & _ & Hr2 & ->).
    cbn [app] in H. destruct (dl_roomy_cons _ _ _ _ _ Hs H) as (W & _ & H2).
    destruct (IH b s2 s1 o3 Hinv2 Hr2 H2) as (H3 & H4). split; [exact H3|].
    intros _. destruct a as [|e' a']; [|apply H4; discriminate].
    cbn in Hr2. inversion Hr2; subst. exact W.
Qed.

(* in a roomy run a forwarded task is a placed task *)
Lemma dl_forwarded_placed_ok : forall o now t,
  Forall (dl_out_ok now) o -> (forall t a, ~ In (DlAfterClose t a) o) ->
  In t (dl_forwarded o) -> In (DlPlaced t now) o.
Proof.
  induction o as [|x o IH]; intros now t Hok Hna Hin; [destruct Hin|].
  unfold dl_forwarded in Hin. cbn [flat_map] in Hin. apply in_app_iff in Hin.
  inversion Hok as [|? ? Hx Hrest]; subst.
  destruct Hin as [Hin|Hin].
  - destruct x; cbn in Hin; try tauto.
    + destruct Hin as [<-|[]]. cbn in Hx. subst. left. reflexivity.
    + exfalso. eapply Hna. left. reflexivity.
  - right. apply IH; auto. intros t' a' H'. eapply Hna. right. exact H'.
Qed.

(* ---------------------------------------------------------------- less than one tick late *)
Lemma dl_late_from : forall evs s P last sf outs,
  inv (dl_pq s) -> dl_run I s evs = Some (sf, outs) ->
  dl_roomy I s evs = true -> dl_spaced P last evs = true -> dl_timely last evs = true ->
  dl_wait s = [] ->
  (forall y, In y (pq_elems I (dl_pq s)) -> last < dl_trig y) ->
  forall t a, In (DlPlaced t a) outs -> a - dl_trig t < P.
Proof.
  induction evs as [|e evs IH]; intros s P last sf outs Hinv Hr Hro Hsp Ht W Hel t a Hin.
  - cbn in Hr. inversion Hr; subst. destruct Hin.
  - destruct (dl_run_cons _ _ _ _ _ Hinv Hr) as (s1 & o1 & o2 & Hs & Hinv1 & Hk & Hr2 & ->).
    destruct (dl_roomy_cons _ _ _ _ _ Hs Hro) as (W1 & Hna & Hro2).
    apply in_app_iff in Hin.
    destruct Hk as [-> -> Hdis | t0 -> _ Hp _ -> | now ts -> _ Hp Hle Hgt Hss Hts Hok | now [q He] Hp Hwt Hok].
    + destruct Hin as [[H|[]]|Hin]; [discriminate H|].
      destruct e; cbn [dl_spaced dl_timely] in Hsp, Ht.
      * exfalso. apply Hdis. exact W.
      * exfalso. apply Hdis. exact W.
      * eapply IH; eauto.
      * eapply IH; eauto.
    + destruct Hin as [[]|Hin]. cbn [dl_spaced dl_timely] in Hsp, Ht.
      apply andb_true_iff in Ht. destruct Ht as [Ht0 Ht]. apply Z.ltb_lt in Ht0.
      eapply IH; eauto. intros y Hy. rewrite Hp in Hy.
      apply (Permutation_in _ (ok_push _ _ OK t0 (dl_pq s) Hinv)) in Hy.
      destruct Hy as [<-|Hy]; [lia | apply Hel; exact Hy].
    + cbn [dl_spaced dl_timely] in Hsp, Ht.
      rewrite !andb_true_iff in Hsp. destruct Hsp as [[Hl1 Hl2] Hsp].
      apply Z.leb_le in Hl1. apply Z.leb_le in Hl2.
      rewrite Z.max_r in Ht by lia.
      destruct Hin as [Hin|Hin].
      * assert (Ha : a = now) by (rewrite Forall_forall in Hok; apply Hok in Hin; exact Hin).
        subst a.
        assert (Hlt : last < dl_trig t).
        { apply Hel. eapply Permutation_in; [symmetry; exact Hp|]. apply in_app_iff. left.
          rewrite Hts. apply in_app_iff. left. eapply dl_placed_forwarded. apply dl_placed_in. exact Hin. }
        lia.
      * eapply IH with (last := now); eauto. intros y Hy.
        rewrite Forall_forall in Hgt. apply Hgt. exact Hy.
    + assert (Hsp' : dl_spaced P last evs = true) by (destruct He as [->| ->]; exact Hsp).
      assert (Ht' : dl_timely last evs = true) by (destruct He as [->| ->]; exact Ht).
      destruct Hin as [Hin|Hin].
      * (* nothing is placed by a Take/Close when nothing waits *)
        exfalso. rewrite W in Hwt. symmetry in Hwt. apply app_eq_nil in Hwt. destruct Hwt as [Hf _].
        apply dl_placed_in in Hin. apply dl_placed_forwarded in Hin. rewrite Hf in Hin. destruct Hin.
      * eapply IH; eauto. rewrite Hp. exact Hel.
Qed.

(* ---------------------------------------------------------------- forwarded at the first tick *)
Lemma dl_persist : forall evs s sf outs t,
  inv (dl_pq s) -> dl_run I s evs = Some (sf, outs) ->
  In t (pq_elems I (dl_pq s)) -> (forall n, In n (dl_ticks evs) -> n < dl_trig t) ->
  In t (pq_elems I (dl_pq sf)).
Proof.
  induction evs as [|e evs IH]; intros s sf outs t Hinv Hr Hin Hn.
  - cbn in Hr. inversion Hr; subst. exact Hin.
  - destruct (dl_run_cons _ _ _ _ _ Hinv Hr) as (s1 & o1 & o2 & Hs & Hinv1 & Hk & Hr2 & ->).
    assert (Hn' : forall n, In n (dl_ticks evs) -> n < dl_trig t).
    { intros n H. apply Hn. unfold dl_ticks. cbn [flat_map]. apply in_app_iff. right. exact H. }
    eapply IH; eauto.
    destruct Hk as [-> -> Hdis | t0 -> W Hp W1 -> | now ts -> W Hp Hle Hgt Hss Hts Hok | now [q He] Hp Hwt Hok].
    + exact Hin.
    + rewrite Hp. eapply Permutation_in; [symmetry; apply (ok_push _ _ OK); exact Hinv|]. right. exact Hin.
    + apply (Permutation_in _ Hp) in Hin. apply in_app_iff in Hin. destruct Hin as [Hin|Hin]; [|exact Hin].
      exfalso. rewrite Forall_forall in Hle. specialize (Hle _ Hin).
      assert (now < dl_trig t) by (apply Hn; unfold dl_ticks; cbn; left; reflexivity). lia.
    + rewrite Hp. exact Hin.
Qed.

Lemma dl_first_tick_from : forall h2 h3 s t now sf outs,
  inv (dl_pq s) -> dl_wait s = [] ->
  dl_run I s (DlRecv t :: h2 ++ DlTick now :: h3) = Some (sf, outs) ->
  dl_roomy I s (DlRecv t :: h2 ++ DlTick now :: h3) = true ->
  (forall n, In n (dl_ticks h2) -> n < dl_trig t) -> dl_trig t <= now ->
  In (DlPlaced t now) outs.
Proof.
  intros h2 h3 s t now sf outs Hinv W Hr Hro Hn Hle.
  destruct (dl_run_cons _ _ _ _ _ Hinv Hr) as (s1 & o1 & o2 & Hs & Hinv1 & Hk & Hr2 & ->).
  destruct (dl_roomy_cons _ _ _ _ _ Hs Hro) as (W1 & _ & Hro1).
  assert (Hin1 : In t (pq_elems I (dl_pq s1))).
  { destruct Hk as [-> -> Hdis | t0 He _ Hp _ -> | now' ts He | now' [q [He|He]]]; try discriminate He.
    - exfalso. apply Hdis. exact W.
    - inversion He; subst t0. rewrite Hp.
      eapply Permutation_in; [symmetry; apply (ok_push _ _ OK); exact Hinv|]. left. reflexivity. }
  destruct (dl_run_app _ _ _ _ _ Hinv1 Hr2) as (s2 & oa & ob & Ha & Hinv2 & Hb & ->).
  destruct (dl_roomy_app _ _ _ _ _ Hinv1 Ha Hro1) as (Hro2 & Hw2).
  assert (W2 : dl_wait s2 = []).
  { destruct h2 as [|e h2']; [|apply Hw2; discriminate]. cbn in Ha. inversion Ha; subst. exact W1. }
  pose proof (dl_persist _ _ _ _ _ Hinv1 Ha Hin1 Hn) as Hin2.
  destruct (dl_run_cons _ _ _ _ _ Hinv2 Hb) as (s3 & o3 & o4 & Hs3 & Hinv3 & Hk3 & Hr3 & ->).
  destruct (dl_roomy_cons _ _ _ _ _ Hs3 Hro2) as (W3 & Hna & _).
  apply in_app_iff. right. apply in_app_iff. right. apply in_app_iff. left.
  destruct Hk3 as [-> -> Hdis | t0 He | now' ts He _ Hp Hle' Hgt _ Hts Hok | now' [q [He|He]]]; try discriminate He.
  - exfalso. apply Hdis. exact W2.
  - inversion He; subst now'.
    apply (Permutation_in _ Hp) in Hin2. apply in_app_iff in Hin2. destruct Hin2 as [Hin2|Hin2].
    + rewrite Hts, W3, app_nil_r in Hin2. eapply dl_forwarded_placed_ok; eauto.
    + exfalso. rewrite Forall_forall in Hgt. specialize (Hgt _ Hin2). lia.
Qed.

(* ---------------------------------------------------------------- from the initial state *)
Lemma dl_init_inv : forall caps, inv (dl_pq (dl_init I caps)).
Proof. intros. cbn. apply (ok_empty_inv _ _ OK). Qed.

Lemma dl_run_total : forall caps evs, exists sf outs, dl_run I (dl_init I caps) evs = Some (sf, outs).
Proof.
  intros. destruct (dl_run_total_from evs (dl_init I caps) (dl_init_inv caps)) as (sf & outs & H & _).
  eauto.
Qed.

Lemma dl_never_early : forall caps evs lo sf outs t a,
  dl_run I (dl_init I caps) evs = Some (sf, outs) -> dl_mono lo evs = true ->
  In (DlPlaced t a) outs \/ In (DlAfterClose t a) outs -> dl_trig t <= a.
Proof.
  intros caps evs lo sf outs t a Hr Hm. eapply dl_never_early_from; eauto using dl_init_inv. constructor.
Qed.

Lemma dl_exactly_once : forall caps evs sf outs,
  dl_run I (dl_init I caps) evs = Some (sf, outs) -> dl_all_enabled outs = true ->
  Permutation (dl_recvd evs) (dl_forwarded outs ++ pq_elems I (dl_pq sf) ++ dl_wait sf) /\
  (NoDup (map dl_id (dl_recvd evs)) ->
   NoDup (map dl_id (dl_forwarded outs ++ pq_elems I (dl_pq sf) ++ dl_wait sf))).
Proof.
  intros caps evs sf outs Hr Hen.
  pose proof (dl_conservation_from _ _ _ _ (dl_init_inv caps) Hr Hen) as H.
  cbn [dl_init dl_pq dl_wait] in H. rewrite (ok_empty _ _ OK) in H. cbn [app] in H. rewrite app_nil_r in H.
  split; [exact H|]. intros Hnd. eapply Permutation_NoDup; [|exact Hnd]. apply Permutation_map. exact H.
Qed.

Lemma dl_roomy_forwarded_placed : forall evs s sf outs,
  inv (dl_pq s) -> dl_run I s evs = Some (sf, outs) -> dl_roomy I s evs = true ->
  dl_forwarded outs = map fst (dl_placed outs).
Proof.
  induction evs as [|e evs IH]; intros s sf outs Hinv Hr Hro.
  - cbn in Hr. inversion Hr; subst. reflexivity.
  - destruct (dl_run_cons _ _ _ _ _ Hinv Hr) as (s1 & o1 & o2 & Hs & Hinv1 & _ & Hr2 & ->).
    destruct (dl_roomy_cons _ _ _ _ _ Hs Hro) as (_ & Hna & Hro2).
    rewrite dl_forwarded_app, dl_placed_app, map_app. f_equal; [|eapply IH; eauto].
    clear -Hna. induction o1 as [|x o1 IHo]; [reflexivity|].
    unfold dl_forwarded, dl_placed in *. cbn [flat_map]. rewrite map_app. f_equal.
    + destruct x; try reflexivity. exfalso. eapply Hna. left. reflexivity.
    + apply IHo. intros t a H. eapply Hna. right. exact H.
Qed.

Lemma dl_first_tick : forall caps h1 h2 h3 t now sf outs,
  dl_run I (dl_init I caps) (h1 ++ DlRecv t :: h2 ++ DlTick now :: h3) = Some (sf, outs) ->
  dl_roomy I (dl_init I caps) (h1 ++ DlRecv t :: h2 ++ DlTick now :: h3) = true ->
  (forall n, In n (dl_ticks h2) -> n < dl_trig t) -> dl_trig t <= now ->
  In (DlPlaced t now) outs.
Proof.
  intros caps h1 h2 h3 t now sf outs Hr Hro Hn Hle.
  destruct (dl_run_app _ _ _ _ _ (dl_init_inv caps) Hr) as (s1 & oa & ob & Ha & Hinv1 & Hb & ->).
  destruct (dl_roomy_app _ _ _ _ _ (dl_init_inv caps) Ha Hro) as (Hro1 & Hw1).
  assert (W1 : dl_wait s1 = []).
  { destruct h1 as [|e h1']; [|apply Hw1; discriminate]. cbn in Ha. inversion Ha; subst. reflexivity. }
  apply in_app_iff. right. eapply dl_first_tick_from; eauto.
Qed.

Lemma dl_less_than_one_tick_late : forall caps P t0 evs sf outs t a,
  dl_run I (dl_init I caps) evs = Some (sf, outs) ->
  dl_roomy I (dl_init I caps) evs = true -> dl_spaced P t0 evs = true -> dl_timely t0 evs = true ->
  In (DlPlaced t a) outs -> a - dl_trig t < P.
Proof.
  intros caps P t0 evs sf outs t a Hr Hro Hsp Ht Hin.
  eapply dl_late_from; eauto using dl_init_inv.
  cbn. rewrite (ok_empty _ _ OK). intros y [].
Qed.

Lemma dl_release_sorted : forall caps t0 evs sf outs,
  dl_run I (dl_init I caps) evs = Some (sf, outs) -> dl_timely t0 evs = true ->
  StronglySorted dl_le (dl_forwarded outs).
Proof.
  intros caps t0 evs sf outs Hr Ht.
  destruct (dl_sorted_from evs (dl_init I caps) t0 t0 sf outs (dl_init_inv caps) Hr ltac:(lia) Ht) as (d & Hd & Hs & _).
  { cbn. rewrite (ok_empty _ _ OK). intros y []. }
  cbn [dl_init dl_wait app] in Hd. rewrite <- Hd in Hs. eapply dl_ss_app_l. exact Hs.
Qed.

End Generic.

(* ------------------------------------------------------------------ per queue *)
Lemma dl_placed_on_incl : forall q os x, In x (dl_placed_on q os) -> In x (dl_forwarded os).
Proof.
  intros q os x H. unfold dl_placed_on in H. apply in_map_iff in H. destruct H as ([t a] & <- & H).
  apply filter_In in H. destruct H as [H _]. cbn. eapply dl_placed_forwarded. exact H.
Qed.

Lemma dl_placed_on_sorted : forall q os,
  StronglySorted dl_le (dl_forwarded os) -> StronglySorted dl_le (dl_placed_on q os).
Proof.
  induction os as [|x os IH]; intros H; [constructor|].
  unfold dl_forwarded in H. cbn [flat_map] in H.
  destruct x as [t a|t a|q' t a|e]; cbn [dl_forwarded_of app] in H.
  - inversion H as [|? ? Hs Hf]; subst. specialize (IH Hs).
    unfold dl_placed_on, dl_placed. cbn [flat_map dl_placed_of app filter fst].
    destruct (dl_q t =? q); [|exact IH]. cbn [map fst]. constructor; [exact IH|].
    apply Forall_forall. intros y Hy. rewrite Forall_forall in Hf. apply Hf.
    eapply dl_placed_on_incl. exact Hy.
  - inversion H as [|? ? Hs Hf]; subst. exact (IH Hs).
  - exact (IH H).
  - exact (IH H).
Qed.

(* ------------------------------------------------------------------ the sorted-list instance *)
Lemma dl_insert_perm : forall t l, Permutation (dl_insert t l) (t :: l).
Proof.
  induction l as [|x l IH]; cbn [dl_insert]; [apply Permutation_refl|].
  destruct (dl_less t x); [apply Permutation_refl|].
  etransitivity; [apply perm_skip; exact IH | apply perm_swap].
Qed.

Lemma dl_insert_sorted : forall t l, StronglySorted dl_le l -> StronglySorted dl_le (dl_insert t l).
Proof.
  induction l as [|x l IH]; intros H; cbn [dl_insert].
  - constructor; constructor.
  - inversion H as [|? ? Hs Hf]; subst. unfold dl_less. destruct (dl_trig t <? dl_trig x) eqn:E.
    + apply Z.ltb_lt in E. constructor; [exact H|]. constructor; [unfold dl_le; lia|].
      eapply Forall_impl; [|exact Hf]. unfold dl_le. intros; lia.
    + apply Z.ltb_ge in E. constructor; [apply IH; exact Hs|].
      apply Forall_forall. intros y Hy. apply (Permutation_in _ (dl_insert_perm t l)) in Hy.
      destruct Hy as [<-|Hy]; [exact E|]. rewrite Forall_forall in Hf. apply Hf. exact Hy.
Qed.

Lemma dl_sorted_pq_ok : dl_pq_ok dl_sorted_pq (StronglySorted dl_le).
Proof.
  constructor; cbn.
  - constructor.
  - reflexivity.
  - intros t p H. apply dl_insert_sorted. exact H.
  - intros t p _. apply dl_insert_perm.
  - reflexivity.
  - intros [|x p] _; reflexivity.
  - intros [|x p] _ H; [congruence | discriminate].
  - intros [|x p] t p' H E; [discriminate E|]. inversion E; subst. inversion H; assumption.
  - intros [|x p] t p' _ E; [discriminate E|]. inversion E; subst. apply Permutation_refl.
  - intros [|x p] t p' y H E Hy; [discriminate E|]. inversion E; subst.
    destruct Hy as [<-|Hy]; [lia|]. inversion H as [|? ? _ Hf]; subst.
    rewrite Forall_forall in Hf. apply Hf. exact Hy.
Qed.

(* ------------------------------------------------------------------ the container/heap instance *)
Lemma dl_less_asym : hp_asym dl_less.
Proof. intros x y H. unfold dl_less in *. apply Z.ltb_lt in H. apply Z.ltb_ge. lia. Qed.

Lemma dl_less_negtrans : hp_negtrans dl_less.
Proof. intros x y z H1 H2. unfold dl_less in *. apply Z.ltb_ge in H1, H2. apply Z.ltb_ge. lia. Qed.

Lemma dl_heap_pq_ok : dl_pq_ok dl_heap_pq (hp_heap dl_less).
Proof.
  constructor; cbn [dl_heap_pq pq_t pq_empty pq_push pq_top pq_pop pq_len pq_elems].
  - apply hp_heap_nil.
  - reflexivity.
  - intros t p H. destruct (hp_push_spec dl_less dl_less_asym dl_less_negtrans p t H) as (l' & -> & Hh & _). exact Hh.
  - intros t p H. destruct (hp_push_spec dl_less dl_less_asym dl_less_negtrans p t H) as (l' & -> & _ & Hp & _). exact Hp.
  - reflexivity.
  - intros p H. destruct p as [|x p'] eqn:E; [reflexivity|]. rewrite <- E in *.
    assert (Hne : p <> []) by (rewrite E; discriminate).
    destruct (hp_pop_spec dl_less dl_less_asym dl_less_negtrans p H Hne) as (m & l' & -> & _ & _ & _ & Ht & _).
    rewrite Ht. reflexivity.
  - intros p H Hne. destruct (hp_pop_spec dl_less dl_less_asym dl_less_negtrans p H Hne) as (m & l' & -> & _). discriminate.
  - intros p t p' H E. destruct p as [|x q] eqn:Ep; [cbn in E; discriminate E|]. rewrite <- Ep in *.
    assert (Hne : p <> []) by (rewrite Ep; discriminate).
    destruct (hp_pop_spec dl_less dl_less_asym dl_less_negtrans p H Hne) as (m & l' & Hpop & Hh & _).
    rewrite Hpop in E. inversion E; subst. exact Hh.
  - intros p t p' H E. destruct p as [|x q] eqn:Ep; [cbn in E; discriminate E|]. rewrite <- Ep in *.
    assert (Hne : p <> []) by (rewrite Ep; discriminate).
    destruct (hp_pop_spec dl_less dl_less_asym dl_less_negtrans p H Hne) as (m & l' & Hpop & _ & Hp & _).
    rewrite Hpop in E. inversion E; subst. exact Hp.
  - intros p t p' y H E Hy. destruct p as [|x q] eqn:Ep; [cbn in E; discriminate E|]. rewrite <- Ep in *.
    assert (Hne : p <> []) by (rewrite Ep; discriminate).
    destruct (hp_pop_spec dl_less dl_less_asym dl_less_negtrans p H Hne) as (m & l' & Hpop & _ & _ & _ & _ & Hmin).
    rewrite Hpop in E. inversion E; subst. specialize (Hmin y Hy). unfold dl_less in Hmin. apply Z.ltb_ge in Hmin. exact Hmin.
Qed.
