(* AntsStepsRefine.v -- a PARTIAL link between the two ants models: the per-task DECISION AUTOMATON.
   Ants.v (timed event machine) moves a task through  AnQueued -AnPick-> AnEnq 1 -AnEnqueue-> AnWait 1
   -AnDecide-> (an_after: store the pair; nil: AnDone | attempt < R: AnEnq (attempt+1) | else onError; AnDone).
   Here: the view [av] of an Ants task (phase without its time stamp, fields, decisions (attempt, pair) newest
   first, error-callback arguments), the function [av_after] that an_after induces on views (an_after_view,
   an_pick_view, an_enqueue_view tie it to the definitions of models/Ants.v), the view of a step-model task as
   seen by the thread that holds it, and the theorem ast_step_view: EVERY step of the fixed step model leaves the
   view of the task its thread holds unchanged or performs exactly one transition of that automaton
   (pick, enqueue, decide).  Time stamps, queue capacities, the order of events of different tasks and the
   handlers are NOT covered: this is not the simulation ants_steps_refine_events. *)
From Got Require Import Base ListAux Ants AntsSteps AntsStepsProofs AntsStepsDecide.
Local Open Scope nat_scope.

Inductive av_phase := AvQueued | AvEnq (a : nat) | AvWait (a : nat) | AvDone | AvOther.

Definition av_phase_of (p : an_phase) : av_phase :=
  match p with AnQueued => AvQueued | AnEnq a _ => AvEnq a | AnWait a _ => AvWait a | AnDone => AvDone | _ => AvOther end.

Record av := { av_ph : av_phase; av_fields : an_pair; av_dec : list (nat * an_pair); av_onerr : list an_err }.

Definition an_view (t : an_task) : av :=
  {| av_ph := av_phase_of (at_phase t); av_fields := at_fields t;
     av_dec := map (fun x => (fst (fst x), snd (fst x))) (at_dec t); av_onerr := map fst (at_onerr t) |}.

(* what run() does after runTaskOnce of attempt a left f in the fields *)
Definition av_after (R : nat) (oe : bool) (v : av) (a : nat) (f : an_pair) : av :=
  let dec := (a, f) :: av_dec v in
  if an_is_nil (snd f) then {| av_ph := AvDone; av_fields := f; av_dec := dec; av_onerr := av_onerr v |}
  else if a <? R then {| av_ph := AvEnq (S a); av_fields := f; av_dec := dec; av_onerr := av_onerr v |}
  else {| av_ph := AvDone; av_fields := f; av_dec := dec; av_onerr := if oe then snd f :: av_onerr v else av_onerr v |}.

Definition av_set_ph (v : av) (p : av_phase) : av :=
  {| av_ph := p; av_fields := av_fields v; av_dec := av_dec v; av_onerr := av_onerr v |}.

(* ---- the automaton is the one of models/Ants.v *)
Ltac an_view_cbn :=
  cbn [an_tk]; unfold an_upd; rewrite ?Nat.eqb_refl; unfold an_view;
  cbn [at_phase at_fields at_dec at_onerr at_opts at_set_rel at_set_phase at_set_dec at_set_fields at_set_onerr
       at_set_pickup at_set_blocked at_set_late map fst snd av_phase_of av_ph av_fields av_dec av_onerr].

Lemma an_after_view s k a f :
  an_view (an_tk (an_after s k a f) k) =
  av_after (ao_R (at_opts (an_tk s k))) (ao_onerr (at_opts (an_tk s k))) (an_view (an_tk s k)) a f.
Proof.
  unfold an_after, av_after, an_release, an_with_task.
  cbn [at_set_dec at_set_fields at_opts].
  destruct (an_is_nil (snd f)); [an_view_cbn; reflexivity|].
  remember (a <? ao_R (at_opts (an_tk s k))) as b eqn:Eb. destruct b; [an_view_cbn; reflexivity|].
  destruct (ao_onerr (at_opts (an_tk s k))); an_view_cbn; reflexivity.
Qed.

Lemma an_pick_view cfg s k s' :
  an_step cfg s (AnPick k) = Some s' -> an_view (an_tk s' k) = av_set_ph (an_view (an_tk s k)) (AvEnq 1).
Proof.
  cbn [an_step]. destruct (an_tchan s) as [|k' rest]; [discriminate|].
  destruct (Nat.eqb k' k && (length (an_active s) <? an_N cfg)); [|discriminate].
  intros [= <-]. an_view_cbn. reflexivity.
Qed.

Lemma an_enqueue_view cfg s k s' a c :
  at_phase (an_tk s k) = AnEnq a c -> an_step cfg s (AnEnqueue k) = Some s' ->
  an_view (an_tk s' k) = av_set_ph (an_view (an_tk s k)) (AvWait a).
Proof.
  intros Hp. cbn [an_step]. rewrite Hp. destruct (length (an_ichan s) <? an_N cfg); [|discriminate].
  intros [= <-]. an_view_cbn. reflexivity.
Qed.

Lemma an_decide_view cfg s k s' viaDone a c :
  an_pub cfg = AnAttemptChannel -> at_phase (an_tk s k) = AnWait a c -> an_step cfg s (AnDecide k viaDone) = Some s' ->
  exists f, an_view (an_tk s' k) =
            av_after (ao_R (at_opts (an_tk s k))) (ao_onerr (at_opts (an_tk s k))) (an_view (an_tk s k)) a f.
Proof.
  intros Hpub Hp. cbn [an_step]. rewrite Hp, Hpub. destruct viaDone.
  - destruct (an_chan_find a (at_chan (an_tk s k))) as [p|]; [|discriminate]. intros [= <-]. exists p. apply an_after_view.
  - destruct (an_dl s (c + ao_T (at_opts (an_tk s k))) <=? an_now s)%Z; [|discriminate]. intros [= <-].
    exists (None, AnDeadline). apply an_after_view.
Qed.

(* one transition of the per-task automaton, or none *)
Definition av_step (R : nat) (oe : bool) (v v' : av) : Prop :=
  v' = v \/
  (av_ph v = AvQueued /\ v' = av_set_ph v (AvEnq 1)) \/
  (exists a, av_ph v = AvEnq a /\ v' = av_set_ph v (AvWait a)) \/
  (exists a f, av_ph v = AvWait a /\ v' = av_after R oe v a f).

(* ------------------------------------------------------------------ the view of a step-model task *)
Definition av_err (e : Z) : an_err :=
  if (e =? 0)%Z then AnNil else if (e =? -1)%Z then AnDeadline else if (e =? -2)%Z then AnDiscard else AnE e.
Definition av_pair (p : Z * Z) : an_pair := ((if (fst p =? 0)%Z then None else Some (fst p)), av_err (snd p)).

Lemma av_err_nil e : an_is_nil (av_err e) = (e =? 0)%Z.
Proof.
  unfold av_err. destruct (e =? 0)%Z; [reflexivity|]. destruct (e =? -1)%Z; [reflexivity|].
  destruct (e =? -2)%Z; reflexivity.
Qed.

(* decisions, newest first, numbered from 1 *)
Fixpoint av_decs (k : nat) (D : list (Z * Z)) (acc : list (nat * an_pair)) : list (nat * an_pair) :=
  match D with [] => acc | p :: r => av_decs (S k) r ((k, av_pair p) :: acc) end.

Lemma av_decs_snoc D : forall k acc p, av_decs k (D ++ [p]) acc = (k + length D, av_pair p) :: av_decs k D acc.
Proof.
  induction D as [|q r IH]; intros k acc p; cbn [av_decs app length]; [rewrite Nat.add_0_r; reflexivity|].
  rewrite IH. f_equal. f_equal. lia.
Qed.

(* attempt in flight / waiting: the decisions stored so far, fields = the last of them *)
Definition av_run (ph : av_phase) (D : list (Z * Z)) : av :=
  {| av_ph := ph; av_fields := av_pair (last D (0%Z, 0%Z)); av_dec := av_decs 1 D []; av_onerr := [] |}.

(* after the decision f of attempt number a (1-based) on top of the decisions D *)
Definition av_post (R : nat) (oe : bool) (D : list (Z * Z)) (f : Z * Z) : av :=
  av_after R oe (av_run (AvWait (S (length D))) D) (S (length D)) (av_pair f).

(* the view of task record x as seen from the pc of a thread; pc_task pc = Some t is decided by the caller *)
Definition ast_view_held (pc : ast_pc) (x : ast_task) : av :=
  let R := aso_retry (att_opt x) in let oe := aso_onerr (att_opt x) in let D := att_decided x in
  match pc with
  | AstDEnq _ _ i => av_run (AvEnq (S i)) D
  | AstDSelect _ _ i => av_run (AvWait (S i)) D
  | AstDStoreRes _ _ _ v e => av_post R oe D (v, e)
  | AstDStoreTo _ _ _ => av_post R oe D (0%Z, ast_err_deadline)
  | AstDCancel _ _ _ | AstDReadErr _ _ | AstDOnErr _ | AstDWgDone _ =>
      av_post R oe (removelast D) (last D (0%Z, 0%Z))
  | _ => av_run AvQueued D       (* AstSendEnq: created, not yet received by a dispatcher *)
  end.

Definition ast_view_free (x : ast_task) : av :=
  if att_done x then av_post (aso_retry (att_opt x)) (aso_onerr (att_opt x)) (removelast (att_decided x)) (last (att_decided x) (0%Z, 0%Z))
  else av_run AvQueued (att_decided x).

Definition ast_holds (pc : ast_pc) (t : nat) : bool :=
  match ast_pc_task pc with Some t' => t' =? t | None => false end.

Definition ast_view (pc : ast_pc) (t : nat) (x : ast_task) : av :=
  if ast_holds pc t then ast_view_held pc x else ast_view_free x.
