(* RaceTaskQueueStruct.v -- preparations for RaceTaskQueueProofs.v: the pairing of task ids is
   injective (distinct tasks have disjoint locations), the monitor along a multi-thread trace
   (frame lemmas), and the structural facts about reachable states of models/TaskQueue.v the
   race-freedom argument needs, derived from the invariants of TaskQueueProofs.v (tq_inv, tq_fifo,
   tq_ginv): every task sits in exactly one place (parked sender, channel buffer, consumer, done)
   and its id is below its producer's call counter. *)
From Coq Require Import Relations.
From Got Require Import Base ListAux Race RaceProofs RaceHB RaceHBProofs RaceMonLemmas RaceCacheMon.
From Got Require Import TaskQueue TaskQueueProofs RaceTaskQueue.
Local Open Scope nat_scope.

(* ------------------------------------------------------------------ the pairing *)
Lemma rtq_tri_lt a b : a < b -> rtq_tri a + a < rtq_tri b.
Proof. induction 1; cbn [rtq_tri]; lia. Qed.

Lemma rtq_code_inj a b : rtq_code a = rtq_code b -> a = b.
Proof.
  destruct a as [i j], b as [i' j']. unfold rtq_code. cbn [fst snd]. intros H.
  destruct (Nat.lt_trichotomy (i + j) (i' + j')) as [L|[E|L]].
  - pose proof (rtq_tri_lt _ _ L). lia.
  - rewrite E in H. assert (i = i') by lia. subst. f_equal. lia.
  - pose proof (rtq_tri_lt _ _ L). lia.
Qed.

Definition rtq_X (id : tq_tid) : list nat := [rtq_res id; rtq_err id; rtq_hnd id].

Lemma rtq_X_inj x a b : In x (rtq_X a) -> In x (rtq_X b) -> a = b.
Proof.
  unfold rtq_X, rtq_res, rtq_err, rtq_hnd. cbn [In].
  intros [<-|[<-|[<-|[]]]] [H|[H|[H|[]]]]; apply rtq_code_inj; lia.
Qed.

Lemma rtq_res_ne_hnd a b : rtq_res a <> rtq_hnd b.
Proof. unfold rtq_res, rtq_hnd. lia. Qed.
Lemma rtq_err_ne_hnd a b : rtq_err a <> rtq_hnd b.
Proof. unfold rtq_err, rtq_hnd. lia. Qed.

(* ------------------------------------------------------------------ the monitor along a trace *)
Section Run.
Variable N : nat.

Definition rtq_run (m : rc_mon) (tr : hb_trace) : rc_mon :=
  fold_left (fun m p => rc_step N m (fst p) (snd p)) tr m.

Lemma rtq_run_app m a b : rtq_run m (a ++ b) = rtq_run (rtq_run m a) b.
Proof. unfold rtq_run. apply fold_left_app. Qed.

Lemma rtq_run_map m t evs : rtq_run m (map (pair t) evs) = rm_msteps N m t evs.
Proof.
  unfold rtq_run. rewrite <- (app_nil_r (map (pair t) evs)). rewrite rm_run_map. reflexivity.
Qed.

Lemma rtq_run_cons m p tr : rtq_run m (p :: tr) = rtq_run (rc_step N m (fst p) (snd p)) tr.
Proof. reflexivity. Qed.

(* all plain accesses of the trace are at locations in S *)
Definition rtq_plain_in (S : nat -> Prop) (tr : hb_trace) : Prop :=
  Forall (fun p => match snd p with RRead y | RWrite y => S y | _ => True end) tr.
Definition rtq_evs_in (S : nat -> Prop) (evs : list rc_ev) : Prop :=
  Forall (fun e => match e with RRead y | RWrite y => S y | _ => True end) evs.
Definition rtq_no_write (tr : hb_trace) : Prop :=
  Forall (fun p => match snd p with RWrite _ => False | _ => True end) tr.

Lemma rtq_plain_in_app S a b : rtq_plain_in S a -> rtq_plain_in S b -> rtq_plain_in S (a ++ b).
Proof. unfold rtq_plain_in. intros. apply Forall_app. split; assumption. Qed.

Lemma rtq_plain_in_map S t evs : rtq_evs_in S evs -> rtq_plain_in S (map (pair t) evs).
Proof.
  unfold rtq_plain_in, rtq_evs_in. intros H. apply Forall_forall. intros p Hp.
  apply in_map_iff in Hp. destruct Hp as [e [<- He]]. cbn [snd]. rewrite Forall_forall in H. apply H. exact He.
Qed.

Lemma rtq_plain_in_flat_map {A} S (f : A -> hb_trace) l :
  (forall a, In a l -> rtq_plain_in S (f a)) -> rtq_plain_in S (flat_map f l).
Proof.
  induction l as [|a l IH]; intros H; cbn [flat_map]; [constructor|].
  apply rtq_plain_in_app; [apply H; left; reflexivity|apply IH; intros b Hb; apply H; right; exact Hb].
Qed.

Lemma rtq_sync_evs_in S evs : Forall rm_sync evs -> rtq_evs_in S evs.
Proof.
  unfold rtq_evs_in. intros H. apply Forall_forall. intros e He. rewrite Forall_forall in H.
  specialize (H e He). destruct e; try exact I; contradiction.
Qed.

Lemma rtq_run_K tr : forall m j x (S : nat -> Prop),
  rtq_plain_in S tr -> ~ S x -> rm_K m j x -> rm_K (rtq_run m tr) j x.
Proof.
  induction tr as [|p r IH]; intros m j x S H Hx Hk; [exact Hk|]. inversion H; subst.
  rewrite rtq_run_cons. apply (IH _ _ _ S); try assumption.
  apply rm_K_step_keep; [|exact Hk]. intros E. rewrite E in H2. contradiction.
Qed.

Lemma rtq_run_P tr : forall m o x (S : nat -> Prop),
  rtq_plain_in S tr -> ~ S x -> rm_P m o x -> rm_P (rtq_run m tr) o x.
Proof.
  induction tr as [|p r IH]; intros m o x S H Hx Hk; [exact Hk|]. inversion H; subst.
  rewrite rtq_run_cons. apply (IH _ _ _ S); try assumption.
  apply rm_P_step_keep; [|exact Hk]. intros E. rewrite E in H2. contradiction.
Qed.

Lemma rtq_run_P_nw tr : forall m o x, rtq_no_write tr -> rm_P m o x -> rm_P (rtq_run m tr) o x.
Proof.
  induction tr as [|p r IH]; intros m o x H Hk; [exact Hk|]. inversion H; subst.
  rewrite rtq_run_cons. apply IH; [assumption|].
  apply rm_P_step_keep; [|exact Hk]. intros E. rewrite E in H2. contradiction.
Qed.

Lemma rtq_run_Wc tr : forall m x (S : nat -> Prop),
  rtq_plain_in S tr -> ~ S x -> rc_Wc (rtq_run m tr) x = rc_Wc m x.
Proof.
  induction tr as [|p r IH]; intros m x S H Hx; [reflexivity|]. inversion H; subst.
  rewrite rtq_run_cons, (IH _ _ S) by assumption.
  apply rm_Wc_step_keep. intros E. rewrite E in H2. contradiction.
Qed.

Lemma rtq_run_R tr : forall m x u (S : nat -> Prop),
  rtq_plain_in S tr -> ~ S x -> rc_R (rtq_run m tr) x u = rc_R m x u.
Proof.
  induction tr as [|p r IH]; intros m x u S H Hx; [reflexivity|]. inversion H; subst.
  rewrite rtq_run_cons, (IH _ _ _ S) by assumption.
  apply rm_R_step_keep. intros E. rewrite E in H2. contradiction.
Qed.

Lemma rtq_sync_raced evs : forall m t, Forall rm_sync evs -> rc_raced (rm_msteps N m t evs) = rc_raced m.
Proof.
  induction evs as [|e r IH]; intros m t H; [reflexivity|]. inversion H; subst.
  rewrite rm_msteps_cons, IH by assumption. apply rm_sync_raced. assumption.
Qed.

End Run.

(* ------------------------------------------------------------------ structure of reachable states *)
Lemma rtq_nodup_app_disj {A} (l1 l2 : list A) x : NoDup (l1 ++ l2) -> In x l1 -> In x l2 -> False.
Proof.
  induction l1 as [|a l IH]; intros H H1 H2; [contradiction|]. cbn in H.
  inversion H as [|? ? Hni Hnd]; subst.
  destruct H1 as [->|H1]; [apply Hni; apply in_or_app; right; exact H2|apply IH; assumption].
Qed.

Section Struct.
Variable progs : list (list tq_op).

Definition rtq_sinv (s : tq_state) : Prop := tq_inv progs s /\ tq_fifo s /\ tq_ginv s.

Lemma rtq_sinv_step s a s' e : tq_step s a = (s', e) -> rtq_sinv s -> rtq_sinv s'.
Proof.
  intros H (Hi & Hf & Hg). split; [eapply tq_inv_step; eauto|].
  split; [eapply tq_fifo_step; eauto|eapply tq_ginv_step; eauto].
Qed.

Lemma rtq_sinv_init cap : rtq_sinv (tq_init cap progs).
Proof. exact (tq_all_reachable cap progs []). Qed.

(* the id was handed out by its producer: below the producer's call counter *)
Definition rtq_allocd (s : tq_state) (id : tq_tid) : Prop :=
  exists p, nth_error (tq_prods s) (fst id) = Some p /\ snd id < tq_next p.

Lemma rtq_entered_allocd s t : rtq_sinv s -> In t (tq_entered s) -> rtq_allocd s (tq_id t).
Proof.
  intros (Hi & _) Ht. destruct (inv_bound _ _ Hi t Ht) as (p & Hp & Hlt). exists p. split; [exact Hp|].
  pose proof (tq_lim_le_next _ _ _ _ Hi Hp). lia.
Qed.

Lemma rtq_sendq_blocked s i t : rtq_sinv s -> In (i, t) (tq_sendq s) ->
  exists p, nth_error (tq_prods s) i = Some p /\ tq_ppc_of p = TqPBlocked t /\
            tq_id t = (i, pred (tq_next p)) /\ 1 <= tq_next p.
Proof.
  intros (Hi & _) Ht. destruct (inv_sendq _ _ Hi i t Ht) as (p & Hp & Hb).
  destruct (inv_blk _ _ Hi i p t Hp Hb) as (Hid & Hn & _). exists p. auto.
Qed.

Lemma rtq_sendq_allocd s i t : rtq_sinv s -> In (i, t) (tq_sendq s) -> rtq_allocd s (tq_id t).
Proof.
  intros Hs Ht. destruct (rtq_sendq_blocked s i t Hs Ht) as (p & Hp & _ & Hid & Hn).
  exists p. rewrite Hid. cbn [fst snd]. split; [exact Hp|lia].
Qed.

Lemma rtq_sendq_not_entered s i t t' : rtq_sinv s -> In (i, t) (tq_sendq s) -> In t' (tq_entered s) ->
  tq_id t <> tq_id t'.
Proof.
  intros Hs Ht Ht' E. destruct (rtq_sendq_blocked s i t Hs Ht) as (p & Hp & Hb & Hid & Hn).
  destruct Hs as (Hi & _). destruct (inv_bound _ _ Hi t' Ht') as (p' & Hp' & Hlt).
  rewrite <- E, Hid in Hp', Hlt. cbn [fst snd] in Hp', Hlt. rewrite Hp in Hp'. inversion Hp'; subst p'.
  unfold tq_lim in Hlt. rewrite Hb, Hid in Hlt. cbn [snd] in Hlt. lia.
Qed.

Lemma rtq_sendq_inj s i t i' t' : rtq_sinv s -> In (i, t) (tq_sendq s) -> In (i', t') (tq_sendq s) ->
  tq_id t = tq_id t' -> i = i' /\ t = t'.
Proof.
  intros Hs Ht Ht' E. destruct (rtq_sendq_blocked s i t Hs Ht) as (p & Hp & Hb & Hid & _).
  destruct (rtq_sendq_blocked s i' t' Hs Ht') as (p' & Hp' & Hb' & Hid' & _).
  assert (i = i') by (rewrite Hid, Hid' in E; inversion E; reflexivity). subst i'.
  rewrite Hp in Hp'. inversion Hp'; subst p'. rewrite Hb in Hb'. inversion Hb'. auto.
Qed.

Lemma rtq_buf_entered s t : rtq_sinv s -> In t (tq_buf s) -> In t (tq_entered s).
Proof. intros (_ & Hf & _) Ht. rewrite Hf. apply in_or_app. right. exact Ht. Qed.

Lemma rtq_received_entered s t : rtq_sinv s -> In t (tq_received s) -> In t (tq_entered s).
Proof. intros (_ & Hf & _) Ht. rewrite Hf. apply in_or_app. left. exact Ht. Qed.

Lemma rtq_cur_received s t : rtq_sinv s -> tq_cons_task s = Some t -> In t (tq_received s).
Proof. intros (_ & _ & Hg) Ht. apply (g_cur _ Hg). exact Ht. Qed.

Lemma rtq_received_not_buf s t t' : rtq_sinv s -> In t (tq_received s) -> In t' (tq_buf s) -> tq_id t <> tq_id t'.
Proof.
  intros (Hi & Hf & _) Ht Ht' E. pose proof (inv_nodup _ _ Hi) as Hn. rewrite Hf, map_app in Hn.
  apply (rtq_nodup_app_disj _ _ (tq_id t) Hn); [apply in_map; exact Ht|rewrite E; apply in_map; exact Ht'].
Qed.

Lemma rtq_buf_inj s t t' : rtq_sinv s -> In t (tq_buf s) -> In t' (tq_buf s) -> tq_id t = tq_id t' -> t = t'.
Proof.
  intros Hs Ht Ht' E. destruct Hs as (Hi & Hf & Hg).
  apply (tq_nodup_id_inj (tq_entered s)); [apply (inv_nodup _ _ Hi)| | |exact E];
    rewrite Hf; apply in_or_app; right; assumption.
Qed.

Lemma rtq_handled_received s cb : rtq_sinv s -> In cb (tq_cbs s) -> tq_handled cb = true ->
  exists t, In t (tq_received s) /\ tq_id t = tq_cb_id cb /\ tq_cons_task s <> Some t.
Proof.
  intros (_ & _ & Hg) Hc Hh. destruct (g_done _ Hg cb Hc Hh) as (t & H1 & H2 & _ & H3). exists t. auto.
Qed.

Lemma rtq_handled_not_cur s cb t : rtq_sinv s -> In cb (tq_cbs s) -> tq_handled cb = true ->
  tq_cons_task s = Some t -> tq_cb_id cb <> tq_id t.
Proof.
  intros Hs Hc Hh Ht E. destruct (rtq_handled_received s cb Hs Hc Hh) as (t0 & Hr & Hid & Hne).
  pose proof (rtq_cur_received s t Hs Ht) as Hr'. destruct Hs as (Hi & Hf & _).
  assert (t0 = t); [|subst; contradiction].
  apply (tq_nodup_id_inj (tq_received s)); try assumption; [|congruence].
  pose proof (inv_nodup _ _ Hi) as Hn. rewrite Hf, map_app in Hn. eapply tq_nodup_app_l. exact Hn.
Qed.

(* an id the producer has not handed out yet differs from every allocated one *)
Lemma rtq_allocd_not_fresh s id i j p :
  rtq_allocd s id -> nth_error (tq_prods s) i = Some p -> tq_next p <= j -> id <> (i, j).
Proof.
  intros (p' & Hp' & Hlt) Hp Hle E. subst id. cbn [fst snd] in *. rewrite Hp in Hp'. inversion Hp'; subst. lia.
Qed.

End Struct.
