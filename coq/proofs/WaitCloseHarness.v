(* WaitCloseHarness.v -- the harness-level steps of models/WaitClose.v (wc_hstep: WaitUtil beginning to wait on
   a closed channel returns in the same step; wc_lwstep: a thread really inside Lock() acquires the mutex as soon
   as it is released) are runs of the model; what a thread parked before the mutex does. *)
From Got Require Import Base WaitClose WaitCloseInv WaitCloseProofs.
Local Open Scope nat_scope.

Lemma wch_run_app s a b :
  wc_run s (a ++ b) =
  let '(s1, h1) := wc_run s a in let '(s2, h2) := wc_run s1 b in (s2, h1 ++ h2).
Proof.
  revert s. induction a as [|it a IH]; intros s; cbn [wc_run app].
  - destruct (wc_run s b); reflexivity.
  - destruct (wc_step s it) as [s1 acts]. rewrite IH.
    destruct (wc_run s1 a) as [s2 h2]. destruct (wc_run s2 b) as [s3 h3].
    rewrite app_assoc. reflexivity.
Qed.

Lemma wc_run_one s it : wc_run s [it] = (fst (wc_step s it), map (pair (wc_item_tid it)) (snd (wc_step s it))).
Proof. cbn [wc_run]. destruct (wc_step s it). cbn [fst snd]. rewrite app_nil_r. reflexivity. Qed.

Lemma wc_hstep_is_run s i s' acts :
  wc_hstep s (IRun i) = (s', acts) -> exists sched, wc_run s sched = (s', map (pair i) acts).
Proof.
  unfold wc_hstep. destruct (wc_step s (IRun i)) as [s1 a1] eqn:E1.
  assert (One : wc_run s [IRun i] = (s1, map (pair i) a1)).
  { rewrite wc_run_one, E1. reflexivity. }
  destruct (nth_error (wc_threads s1) i) as [th|]; [|intros H; inversion H; subst; eauto].
  destruct (wc_pcof th); try (intros H; inversion H; subst; eauto; fail).
  destruct (wc_closedb (wc_sh s1) ch); [|intros H; inversion H; subst; eauto].
  destruct (wc_step s1 (IRun i)) as [s2 a2] eqn:E2. intros H; inversion H; subst.
  exists [IRun i; IRun i]. cbn [wc_run]. rewrite E1, E2. cbn [wc_item_tid].
  rewrite app_nil_r, map_app. reflexivity.
Qed.

Lemma wc_lwstep_is_run s inl f i s' inl' acts auto :
  wc_lwstep s inl f i = (s', inl', acts, auto) ->
  exists sched, wc_run s sched =
    (s', map (pair i) acts ++ match auto with Some (j, a2) => map (pair j) a2 | None => [] end).
Proof.
  unfold wc_lwstep. destruct (wc_hstep s (IRun i)) as [s1 a1] eqn:E1.
  destruct (wc_hstep_is_run _ _ _ _ E1) as [sc Hsc].
  set (inl1 := match inl with Some j => Some j | None => _ end).
  destruct inl1 as [j|].
  - destruct (existsb wc_is_unlock a1).
    + destruct (wc_step s1 (IRun j)) as [s2 a2] eqn:E2. intros H; inversion H; subst.
      exists (sc ++ [IRun j]). rewrite wch_run_app, Hsc, wc_run_one, E2. reflexivity.
    + intros H; inversion H; subst. exists sc. rewrite app_nil_r. exact Hsc.
  - intros H; inversion H; subst. exists sc. rewrite app_nil_r. exact Hsc.
Qed.

Lemma wc_lwrun_is_run_pf s inl sched : exists sched', wc_lwrun s inl sched = wc_run s sched'.
Proof.
  revert s inl. induction sched as [|[f i] rest IH]; intros s inl.
  - exists []. reflexivity.
  - cbn [wc_lwrun]. destruct (wc_lwstep s inl f i) as [[[s1 inl1] acts] auto] eqn:E.
    destruct (wc_lwstep_is_run _ _ _ _ _ _ _ _ E) as [sc Hsc].
    destruct (IH s1 inl1) as [sc2 H2]. rewrite H2.
    exists (sc ++ sc2). rewrite wch_run_app, Hsc. destruct (wc_run s1 sc2) as [s2 h2].
    rewrite <- app_assoc. reflexivity.
Qed.

(* the same for runs from a reachable state: final state and history of a harness run after any model run *)
Lemma wc_lwrun_reachable_pf progs pre inl sched :
  exists sched',
    let '(s2, h2) := wc_lwrun (wc_final (wc_init progs) pre) inl sched in
    wc_final (wc_init progs) sched' = s2 /\ wc_history (wc_init progs) sched' = wc_history (wc_init progs) pre ++ h2.
Proof.
  destruct (wc_lwrun_is_run_pf (wc_final (wc_init progs) pre) inl sched) as [sc H].
  exists (pre ++ sc). rewrite H. unfold wc_final, wc_history. rewrite wch_run_app.
  destruct (wc_run (wc_init progs) pre) as [s1 h1]. cbn [fst snd].
  destruct (wc_run s1 sc) as [s2 h2]. cbn [fst snd]. split; reflexivity.
Qed.

Lemma wch_set_thread_same l i th :
  nth_error l i = Some th -> wc_set_thread l i th = l.
Proof.
  unfold wc_set_thread. revert i. induction l as [|x l IH]; intros [|i] H; cbn in *; try discriminate.
  - inversion H; reflexivity.
  - f_equal. apply IH. exact H.
Qed.

(* A thread parked before mutex.Lock(): while the mutex is held its step is the no-op (state unchanged, nothing
   returned); on a free mutex it acquires it and nothing else. *)
Lemma wc_lock_waiter_pf s j th :
  nth_error (wc_threads s) j = Some th -> wc_at_lock (wc_pcof th) = true ->
  (forall k, sh_own (wc_sh s) = Some k -> wc_step s (IRun j) = (s, [ABlocked])) /\
  (sh_own (wc_sh s) = None ->
     exists s', wc_step s (IRun j) = (s', [ALock]) /\ sh_own (wc_sh s') = Some j /\ wc_hold_th s' j = true).
Proof.
  intros Hn Hl. destruct th as [pc todo]. cbn [wc_pcof] in Hl.
  split.
  - intros k Hk. unfold wc_step. cbn [wc_item_tid]. rewrite Hn. cbn [wc_pcof wc_todo].
    destruct pc; try discriminate; cbn [wc_step_pc]; rewrite Hk;
      rewrite (wch_set_thread_same _ _ _ Hn); destruct s; reflexivity.
  - intros Hk. unfold wc_step. cbn [wc_item_tid]. rewrite Hn. cbn [wc_pcof wc_todo].
    assert (Hlen : j < length (wc_threads s)) by (apply nth_error_Some; congruence).
    destruct pc; try discriminate; cbn [wc_step_pc]; rewrite Hk; eexists; (split; [reflexivity|]);
      cbn [wc_sh sh_set_own sh_own]; (split; [reflexivity|]);
      unfold wc_hold_th; cbn [wc_threads]; unfold wc_set_thread;
      rewrite nth_error_app2 by (rewrite firstn_length; lia);
      rewrite firstn_length, Nat.min_l by lia; rewrite Nat.sub_diag; reflexivity.
Qed.

(* Once the close has been performed (in particular once any Close has returned) no WaitUtil keeps waiting: the
   channel a waiting call selected on is closed, its step is enabled and returns true. *)
Lemma wc_waiting_after_close_pf progs sched i th c :
  let s := wc_final (wc_init progs) sched in
  let h := wc_history (wc_init progs) sched in
  wc_close_rets h <> [] \/ wc_performs h <> [] ->
  nth_error (wc_threads s) i = Some th -> wc_pcof th = WWait c ->
  wc_closedb (wc_sh s) c = true /\ wc_enabled s (IRun i) = true /\
  wc_step s (IRun i) = ({| wc_sh := wc_sh s; wc_threads := wc_set_thread (wc_threads s) i {| wc_pcof := WIdle; wc_todo := wc_todo th |} |},
                        [ARetWait true]).
Proof.
  cbv zeta. intros Hc Hn Hp. destruct (wc_reachable_inv progs sched) as [G L].
  specialize (L _ _ Hn). rewrite Hp in L. destruct L as (_ & _ & Ec).
  assert (Hcl : wc_closedb (wc_sh (wc_final (wc_init progs) sched)) c = true).
  { destruct (wc_ginv_cases _ _ _ G) as [(A1 & _ & _ & _ & _ & _ & A7 & _) | (p & B1 & B2 & _)].
    - destruct Hc as [Hc | Hc]; contradiction.
    - rewrite Ec. exact B2. }
  split; [exact Hcl|]. split.
  - unfold wc_enabled. cbn [wc_item_tid]. rewrite Hn, Hp. exact Hcl.
  - unfold wc_step. cbn [wc_item_tid]. rewrite Hn, Hp. cbn [wc_step_pc]. rewrite Hcl. reflexivity.
Qed.
