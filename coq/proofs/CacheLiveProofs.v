(* CacheLiveProofs.v -- lemmas about the lock/queue protocol abstraction (models/CacheLive.v). *)
From Got Require Import Base CacheLive.
Local Open Scope nat_scope.

Lemma cl_sum_set {A} (f : A -> nat) l i x y :
  nth_error l i = Some x -> cl_sum f (cl_set l i y) + f x = cl_sum f l + f y.
Proof.
  unfold cl_set, cl_sum. revert i. induction l as [|a r IH]; intros i H; [destruct i; discriminate|].
  destruct i as [|i]; cbn in *.
  - inversion H; subst. lia.
  - specialize (IH i H). lia.
Qed.

Lemma cl_sweep_next_weight cfg j :
  cl_worker_weight cfg (cl_sweep_next cfg j) <= 2 * (cl_nshards cfg - j) + 2 /\
  (cl_nshards cfg <= j -> cl_worker_weight cfg (cl_sweep_next cfg j) = 0).
Proof.
  unfold cl_sweep_next. destruct (j <? cl_nshards cfg) eqn:E; cbn; split; lia.
Qed.

(* every step of a client or worker thread strictly decreases the measure (both send orders) *)
Lemma cl_measure_decreases cfg s l s' :
  cl_is_thread l = true -> cl_step cfg s l = Some s' -> cl_measure cfg s' < cl_measure cfg s.
Proof.
  intros Hl H. destruct l as [i|i pt| |c]; try discriminate; cbn [cl_step] in H.
  - destruct (nth_error (cl_clients s) i) as [c|] eqn:Hn; [|discriminate].
    destruct (cl_client_step cfg s c) as [[c' q']|] eqn:Hc; [|discriminate].
    inversion H; subst; clear H. unfold cl_measure; cbn [cl_clients cl_workers cl_queue cl_tick].
    pose proof (cl_sum_set cl_client_weight _ _ _ c' Hn) as Hs.
    unfold cl_client_step in Hc.
    destruct c as [sh job|sh job|sh| |].
    + destruct (cl_locked s sh); [discriminate|]. inversion Hc; subst. destruct job; cbn in *; lia.
    + destruct job.
      * destruct (cl_ord cfg).
        -- destruct (cl_queue s <? cl_cap cfg); [|discriminate]. inversion Hc; subst. cbn in *; lia.
        -- inversion Hc; subst. cbn in *; lia.
      * inversion Hc; subst. cbn in *; lia.
    + inversion Hc; subst. cbn in *; lia.
    + destruct (cl_queue s <? cl_cap cfg); [|discriminate]. inversion Hc; subst. cbn in *; lia.
    + discriminate.
  - destruct (nth_error (cl_workers s) i) as [w|] eqn:Hn; [|discriminate].
    destruct (cl_worker_step cfg s w pt) as [[[w' q'] t']|] eqn:Hw; [|discriminate].
    inversion H; subst; clear H. unfold cl_measure; cbn [cl_clients cl_workers cl_queue cl_tick].
    pose proof (cl_sum_set (cl_worker_weight cfg) _ _ _ w' Hn) as Hs.
    unfold cl_worker_step in Hw.
    destruct w as [| |j|j].
    + destruct pt.
      * destruct (cl_tick s) eqn:Ht; [|discriminate]. inversion Hw; subst.
        pose proof (cl_sweep_next_weight cfg 0) as [Hb _]. cbn [cl_worker_weight] in Hs. lia.
      * destruct (0 <? cl_queue s) eqn:Hq; [|discriminate]. inversion Hw; subst.
        apply Nat.ltb_lt in Hq. cbn [cl_worker_weight] in Hs. destruct (cl_tick s); lia.
    + inversion Hw; subst. cbn [cl_worker_weight] in Hs. destruct (cl_tick s); lia.
    + destruct (cl_locked s j); [discriminate|]. inversion Hw; subst. cbn [cl_worker_weight] in Hs.
      destruct (cl_tick s); lia.
    + inversion Hw; subst. cbn [cl_worker_weight] in Hs.
      pose proof (cl_sweep_next_weight cfg (S j)) as [Hb Hz].
      destruct (Nat.le_gt_cases (cl_nshards cfg) (S j)) as [Hge|Hlt].
      * rewrite (Hz Hge) in Hs. destruct (cl_tick s); lia.
      * destruct (cl_tick s); lia.
Qed.

(* a run of thread steps is at most as long as the measure of its start state *)
Lemma cl_run_bounded cfg ls : forall s s',
  forallb cl_is_thread ls = true -> cl_run cfg s ls = Some s' ->
  length ls + cl_measure cfg s' <= cl_measure cfg s.
Proof.
  induction ls as [|l r IH]; intros s s' Hth H; cbn [cl_run] in H.
  - inversion H; subst. cbn. lia.
  - cbn [forallb] in Hth. apply andb_prop in Hth. destruct Hth as [Hl Hr].
    destruct (cl_step cfg s l) as [s1|] eqn:Hs; [|discriminate].
    pose proof (cl_measure_decreases cfg s l s1 Hl Hs). specialize (IH s1 s' Hr H). cbn [length]. lia.
Qed.

(* ------------------------------------------------------------------ deadlock freedom *)
Lemma cl_existsb_nth {A} (p : A -> bool) l :
  existsb p l = true -> exists i x, nth_error l i = Some x /\ p x = true.
Proof.
  intros H. apply existsb_exists in H. destruct H as [x [Hin Hp]].
  apply In_nth_error in Hin. destruct Hin as [i Hi]. exists i, x. auto.
Qed.

Lemma cl_forallb_false_nth {A} (p : A -> bool) l :
  forallb p l = false -> exists i x, nth_error l i = Some x /\ p x = false.
Proof.
  induction l as [|a r IH]; cbn; [discriminate|]. destruct (p a) eqn:E; cbn.
  - intros H. destruct (IH H) as [i [x [Hi Hp]]]. exists (S i), x. auto.
  - intros _. exists 0, a. auto.
Qed.

Lemma cl_enabled_client cfg s i c r :
  nth_error (cl_clients s) i = Some c -> cl_client_step cfg s c = Some r ->
  cl_enabled cfg s (LClient i) = true.
Proof. intros Hn Hc. unfold cl_enabled. cbn [cl_step]. rewrite Hn, Hc. destruct r. reflexivity. Qed.

Lemma cl_enabled_worker cfg s i w pt r :
  nth_error (cl_workers s) i = Some w -> cl_worker_step cfg s w pt = Some r ->
  cl_enabled cfg s (LWorker i pt) = true.
Proof. intros Hn Hc. unfold cl_enabled. cbn [cl_step]. rewrite Hn, Hc. destruct r as [[? ?] ?]. reflexivity. Qed.

Definition cl_client_holding (c : cl_client) : bool :=
  match c with ClHold _ _ | ClSent _ => true | _ => false end.
Definition cl_worker_holding (w : cl_worker) : bool :=
  match w with ClwSweepHold _ => true | _ => false end.

Lemma cl_not_locked s sh :
  existsb cl_client_holding (cl_clients s) = false ->
  existsb cl_worker_holding (cl_workers s) = false -> cl_locked s sh = false.
Proof.
  intros H1 H2. unfold cl_locked. apply orb_false_intro.
  - apply not_true_is_false. intros H. apply existsb_exists in H. destruct H as [c [Hin Hc]].
    assert (existsb cl_client_holding (cl_clients s) = true).
    { apply existsb_exists. exists c. split; [exact Hin|]. destruct c; cbn in *; auto; discriminate. }
    congruence.
  - apply not_true_is_false. intros H. apply existsb_exists in H. destruct H as [w [Hin Hw]].
    assert (existsb cl_worker_holding (cl_workers s) = true).
    { apply existsb_exists. exists w. split; [exact Hin|]. destruct w; cbn in *; auto; discriminate. }
    congruence.
Qed.

Lemma cl_no_deadlock cfg s :
  cl_ord cfg = SendAfterUnlock -> 1 <= cl_cap cfg -> 1 <= length (cl_workers s) ->
  cl_finished s = false ->
  exists l, cl_is_thread l = true /\ cl_enabled cfg s l = true.
Proof.
  intros Hord Hcap Hpar Hfin.
  (* A: a client holds a lock: it can always release it *)
  destruct (existsb cl_client_holding (cl_clients s)) eqn:HA.
  { destruct (cl_existsb_nth _ _ HA) as [i [c [Hn Hc]]]. exists (LClient i). split; [reflexivity|].
    destruct c as [sh job|sh job|sh| |]; try discriminate.
    - destruct job.
      + eapply cl_enabled_client; [exact Hn|]. cbn -[Nat.ltb]. rewrite Hord. reflexivity.
      + eapply cl_enabled_client; [exact Hn|]. cbn -[Nat.ltb]. reflexivity.
    - eapply cl_enabled_client; [exact Hn|]. cbn -[Nat.ltb]. reflexivity. }
  (* A': a sweeping worker holds a lock: it releases it *)
  destruct (existsb cl_worker_holding (cl_workers s)) eqn:HA'.
  { destruct (cl_existsb_nth _ _ HA') as [i [w [Hn Hw]]]. exists (LWorker i false). split; [reflexivity|].
    destruct w; try discriminate. eapply cl_enabled_worker; [exact Hn|]. cbn -[Nat.ltb]. reflexivity. }
  (* B: no lock is held *)
  assert (HL : forall sh, cl_locked s sh = false) by (intros; apply cl_not_locked; assumption).
  (* a worker that is not idle can move *)
  destruct (forallb cl_worker_idle (cl_workers s)) eqn:HW.
  2:{ destruct (cl_forallb_false_nth _ _ HW) as [i [w [Hn Hw]]]. exists (LWorker i false). split; [reflexivity|].
      destruct w as [| |j|j]; try discriminate.
      - eapply cl_enabled_worker; [exact Hn|]. cbn -[Nat.ltb]. reflexivity.
      - eapply cl_enabled_worker; [exact Hn|]. cbn -[Nat.ltb]. rewrite HL. reflexivity.
      - eapply cl_enabled_worker; [exact Hn|]. cbn -[Nat.ltb]. reflexivity. }
  (* all workers idle; there is at least one *)
  destruct (cl_workers s) as [|w0 ws] eqn:HWs; [cbn in Hpar; lia|].
  assert (Hw0 : w0 = ClwIdle).
  { cbn in HW. apply andb_prop in HW. destruct HW as [H0 _]. destruct w0; try discriminate. reflexivity. }
  subst w0.
  destruct (0 <? cl_queue s) eqn:Hq.
  { exists (LWorker 0 false). split; [reflexivity|]. eapply cl_enabled_worker; [rewrite HWs; reflexivity|].
    cbn -[Nat.ltb]. rewrite Hq. reflexivity. }
  destruct (cl_tick s) eqn:Ht.
  { exists (LWorker 0 true). split; [reflexivity|]. eapply cl_enabled_worker; [rewrite HWs; reflexivity|].
    cbn -[Nat.ltb]. rewrite Ht. reflexivity. }
  (* queue empty, no tick, workers idle: some client is not done *)
  apply Nat.ltb_ge in Hq. assert (Hq0 : cl_queue s = 0) by lia.
  unfold cl_finished in Hfin. rewrite HWs in Hfin. rewrite <- HWs in Hfin.
  assert (HC : forallb cl_client_done (cl_clients s) = false).
  { destruct (forallb cl_client_done (cl_clients s)) eqn:E; [|reflexivity].
    rewrite HWs in Hfin. cbn [forallb cl_worker_idle] in Hfin. cbn in HW.
    rewrite HW, Hq0, Ht in Hfin. cbn in Hfin. discriminate. }
  destruct (cl_forallb_false_nth _ _ HC) as [i [c [Hn Hc]]]. exists (LClient i). split; [reflexivity|].
  destruct c as [sh job|sh job|sh| |]; try discriminate.
  - eapply cl_enabled_client; [exact Hn|]. cbn -[Nat.ltb]. rewrite HL. reflexivity.
  - exfalso. assert (existsb cl_client_holding (cl_clients s) = true).
    { apply existsb_exists. exists (ClHold sh job). split; [eapply nth_error_In; eauto|reflexivity]. }
    congruence.
  - exfalso. assert (existsb cl_client_holding (cl_clients s) = true).
    { apply existsb_exists. exists (ClSent sh). split; [eapply nth_error_In; eauto|reflexivity]. }
    congruence.
  - eapply cl_enabled_client; [exact Hn|]. cbn -[Nat.ltb]. rewrite Hq0.
    assert (H : 0 <? cl_cap cfg = true) by (apply Nat.ltb_lt; lia). rewrite H. reflexivity.
Qed.

(* the number of workers and the configuration never change *)
Lemma cl_set_length {A} (l : list A) i x y : nth_error l i = Some y -> length (cl_set l i x) = length l.
Proof.
  unfold cl_set. revert i. induction l as [|a r IH]; intros i H; [destruct i; discriminate|].
  destruct i as [|i]; cbn in *; [reflexivity|]. f_equal. apply IH. exact H.
Qed.

Lemma cl_step_workers cfg s l s' : cl_step cfg s l = Some s' -> length (cl_workers s') = length (cl_workers s).
Proof.
  destruct l as [i|i pt| |c]; cbn [cl_step]; intros H.
  - destruct (nth_error (cl_clients s) i); [|discriminate]. destruct (cl_client_step cfg s c) as [[? ?]|]; [|discriminate].
    inversion H; reflexivity.
  - destruct (nth_error (cl_workers s) i) as [w|] eqn:Hn; [|discriminate].
    destruct (cl_worker_step cfg s w pt) as [[[? ?] ?]|]; [|discriminate].
    inversion H; subst. cbn. eapply cl_set_length; eauto.
  - inversion H; reflexivity.
  - inversion H; reflexivity.
Qed.

Lemma cl_run_workers cfg ls : forall s s', cl_run cfg s ls = Some s' -> length (cl_workers s') = length (cl_workers s).
Proof.
  induction ls as [|l r IH]; intros s s' H; cbn [cl_run] in H; [inversion H; reflexivity|].
  destruct (cl_step cfg s l) as [s1|] eqn:E; [|discriminate].
  rewrite (IH _ _ H). eapply cl_step_workers; eauto.
Qed.

Lemma cl_init_workers par cs : length (cl_workers (cl_init par cs)) = par.
Proof. cbn. apply repeat_length. Qed.

(* every state reachable from an initial one (by any mix of thread steps, ticks, arrivals)
   with unfinished work has an enabled thread *)
Lemma cl_reachable_no_deadlock cfg par cs ls s :
  cl_ord cfg = SendAfterUnlock -> 1 <= cl_cap cfg -> 1 <= par ->
  cl_run cfg (cl_init par cs) ls = Some s -> cl_finished s = false ->
  exists l, cl_is_thread l = true /\ cl_enabled cfg s l = true.
Proof.
  intros Hord Hcap Hpar Hrun Hfin. apply cl_no_deadlock; auto.
  rewrite (cl_run_workers _ _ _ _ Hrun), cl_init_workers. exact Hpar.
Qed.

(* a maximal run of thread steps ends in a finished state, after at most measure-many steps *)
Lemma cl_all_complete cfg par cs pre ls s0 s :
  cl_ord cfg = SendAfterUnlock -> 1 <= cl_cap cfg -> 1 <= par ->
  cl_run cfg (cl_init par cs) pre = Some s0 ->
  forallb cl_is_thread ls = true -> cl_run cfg s0 ls = Some s ->
  length ls <= cl_measure cfg s0 /\
  ((forall l, cl_is_thread l = true -> cl_enabled cfg s l = false) -> cl_finished s = true).
Proof.
  intros Hord Hcap Hpar Hpre Hth Hrun. split.
  - pose proof (cl_run_bounded cfg ls s0 s Hth Hrun). lia.
  - intros Hstuck. destruct (cl_finished s) eqn:Hf; [reflexivity|exfalso].
    assert (Hw : 1 <= length (cl_workers s)).
    { rewrite (cl_run_workers _ _ _ _ Hrun), (cl_run_workers _ _ _ _ Hpre), cl_init_workers. exact Hpar. }
    destruct (cl_no_deadlock cfg s Hord Hcap Hw Hf) as [l [Hl He]]. rewrite (Hstuck l Hl) in He. discriminate.
Qed.

(* ------------------------------------------------------------------ the boolean stuck test *)
Lemma cl_stuck_spec cfg s :
  cl_stuck cfg s = true -> forall l, cl_is_thread l = true -> cl_step cfg s l = None.
Proof.
  intros H l Hl. unfold cl_stuck in H. rewrite forallb_forall in H.
  destruct l as [i|i pt| |c]; try discriminate.
  - destruct (Nat.lt_ge_cases i (length (cl_clients s))) as [Hlt|Hge].
    + assert (Hin : In (LClient i) (cl_thread_labels s)).
      { unfold cl_thread_labels. apply in_or_app. left. apply in_map. apply in_seq. lia. }
      specialize (H _ Hin). unfold cl_enabled in H. destruct (cl_step cfg s (LClient i)); [discriminate|reflexivity].
    + cbn [cl_step]. apply nth_error_None in Hge. rewrite Hge. reflexivity.
  - destruct (Nat.lt_ge_cases i (length (cl_workers s))) as [Hlt|Hge].
    + assert (Hin : In (LWorker i pt) (cl_thread_labels s)).
      { unfold cl_thread_labels. apply in_or_app. right. apply in_flat_map. exists i. split; [apply in_seq; lia|].
        destruct pt; cbn; auto. }
      specialize (H _ Hin). unfold cl_enabled in H. destruct (cl_step cfg s (LWorker i pt)); [discriminate|reflexivity].
    + cbn [cl_step]. apply nth_error_None in Hge. rewrite Hge. reflexivity.
Qed.

(* the code before fix ed85568: parallel = 1, jobChanSize = 1, three Loads *)
Definition cl_orig_cfg : cl_cfg := {| cl_ord := SendUnderLock; cl_cap := 1; cl_nshards := 1 |}.
Definition cl_orig_witness : list cl_label :=
  [LClient 0; LClient 0; LClient 0; LWorker 0 false; LClient 1; LClient 1; LClient 1; LClient 2;
   LWorker 0 false; LTick; LWorker 0 true].

Lemma cl_orig_deadlock :
  exists s, cl_run cl_orig_cfg (cl_init 1 [ClWant 0 true; ClWant 0 true; ClWant 0 true]) cl_orig_witness = Some s /\
    (forall l, cl_is_thread l = true -> cl_step cl_orig_cfg s l = None) /\
    nth_error (cl_clients s) 2 = Some (ClHold 0 true) /\ cl_queue s = 1 /\ cl_finished s = false.
Proof.
  eexists. split; [vm_compute; reflexivity|]. split; [apply cl_stuck_spec; vm_compute; reflexivity|].
  vm_compute. repeat split.
Qed.

