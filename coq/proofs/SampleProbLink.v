(* SampleProbLink.v -- ties the ideal real-valued keys (models/SampleProb.v) to the
   executable model of the code (models/Sample.v): with sampleNum = 1 the call returns
   index i exactly when i has the strictly largest ideal key (ties excluded). *)
From Got Require Import Base Heap Sample SampleProofs.
Require Import Reals Lra.
From Got Require Import SampleProb SampleProbProofs.

Lemma sp_k1_returns_winner :
  forall (key : nat -> Z) (us ws : list R) (i : nat),
    sp_ranks_agree key us ws -> (i < length ws)%nat -> sp_wins us ws i ->
    smp_sample SmpEmpty 1 (Z.of_nat (length ws)) key = HpOk [Z.of_nat i].
Proof.
  intros key us ws i Hag Hi Hwin.
  destruct (smp_sample_k1_first_argmax (Z.of_nat (length ws)) key ltac:(lia))
    as (b & Hr & Hb & Hmax & _).
  rewrite Nat2Z.id in Hb, Hmax.
  destruct (Nat.eq_dec b i) as [->|Hne]; [exact Hr|].
  exfalso. specialize (Hwin b Hb Hne). apply (Hag b i Hb Hi) in Hwin.
  specialize (Hmax i Hi). lia.
Qed.

Lemma sp_k1_returned_is_winner :
  forall (key : nat -> Z) (us ws : list R) (i : nat),
    sp_ranks_agree key us ws -> sp_no_ties us ws -> (i < length ws)%nat ->
    smp_sample SmpEmpty 1 (Z.of_nat (length ws)) key = HpOk [Z.of_nat i] ->
    sp_wins us ws i.
Proof.
  intros key us ws i Hag Hnt Hi Hret.
  destruct (smp_sample_k1_first_argmax (Z.of_nat (length ws)) key ltac:(lia))
    as (b & Hr & Hb & Hmax & _).
  rewrite Nat2Z.id in Hb, Hmax.
  rewrite Hr in Hret. assert (b = i) by (inversion Hret; lia). subst b.
  intros j Hj Hne.
  destruct (Rtotal_order (sp_key (nth j us 0%R) (nth j ws 0%R)) (sp_key (nth i us 0%R) (nth i ws 0%R)))
    as [Hlt | [Heq | Hgt]].
  - exact Hlt.
  - exfalso. exact (Hnt j i Hj Hi Hne Heq).
  - exfalso. apply (Hag i j Hi Hj) in Hgt. specialize (Hmax j Hj). lia.
Qed.

(* without ties some index wins, and only one *)
Lemma sp_wins_unique :
  forall us ws i j, (i < length ws)%nat -> (j < length ws)%nat ->
    sp_wins us ws i -> sp_wins us ws j -> i = j.
Proof.
  intros us ws i j Hi Hj Wi Wj. destruct (Nat.eq_dec i j) as [|Hne]; [assumption|].
  exfalso. pose proof (Wi j Hj (not_eq_sym Hne)). pose proof (Wj i Hi Hne). lra.
Qed.
