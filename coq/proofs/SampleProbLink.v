(* SampleProbLink.v -- ties the ideal real-valued keys (models/SampleProb.v) to the
   executable model of the code (models/Sample.v): with sampleNum = 1 the call returns
   index i exactly when i has the strictly largest ideal key (ties excluded). *)
From Got Require Import Base Heap Sample SampleProofs.
Require Import Reals Lra Permutation.
From Got Require Import SampleProb SampleProbProofs.

Lemma sp_k1_returns_winner :
  forall (key : nat -> Z) (us ws : list R) (i : nat),
    sp_ranks_agree key us ws -> (i < length ws)%nat -> sp_wins us ws i ->
    smp_sample SmpEmpty 1 (Z.of_nat (length ws)) key = HpOk [Z.of_nat i].
Proof.
  intros key us ws i Hag Hi Hwin.
  destruct (smp_sample_k1_first_argmax (Z.of_nat (length ws)) key ltac:(lia))
    as (b & Hr & Hb & Hmax & _).
  rewrite Nat2Z.id in Hb, Hmax.
  destruct (Nat.eq_dec b i) as [->|Hne]; [exact Hr|].
  exfalso. specialize (Hwin b Hb Hne). apply (Hag b i Hb Hi) in Hwin.
  specialize (Hmax i Hi). lia.
Qed.

Lemma sp_k1_returned_is_winner :
  forall (key : nat -> Z) (us ws : list R) (i : nat),
    sp_ranks_agree key us ws -> sp_no_ties us ws -> (i < length ws)%nat ->
    smp_sample SmpEmpty 1 (Z.of_nat (length ws)) key = HpOk [Z.of_nat i] ->
    sp_wins us ws i.
Proof.
  intros key us ws i Hag Hnt Hi Hret.
  destruct (smp_sample_k1_first_argmax (Z.of_nat (length ws)) key ltac:(lia))
    as (b & Hr & Hb & Hmax & _).
  rewrite Nat2Z.id in Hb, Hmax.
  rewrite Hr in Hret. assert (b = i) by (inversion Hret; lia). subst b.
  intros j Hj Hne.
  destruct (Rtotal_order (sp_key (nth j us 0%R) (nth j ws 0%R)) (sp_key (nth i us 0%R) (nth i ws 0%R)))
    as [Hlt | [Heq | Hgt]].
  - exact Hlt.
  - exfalso. exact (Hnt j i Hj Hi Hne Heq).
  - exfalso. apply (Hag i j Hi Hj) in Hgt. specialize (Hmax j Hj). lia.
Qed.

(* without ties some index wins, and only one *)
Lemma sp_wins_unique :
  forall us ws i j, (i < length ws)%nat -> (j < length ws)%nat ->
    sp_wins us ws i -> sp_wins us ws j -> i = j.
Proof.
  intros us ws i j Hi Hj Wi Wj. destruct (Nat.eq_dec i j) as [|Hne]; [assumption|].
  exfalso. pose proof (Wi j Hj (not_eq_sym Hne)). pose proof (Wj i Hi Hne). lra.
Qed.

(* sampleNum = 2: if i has the largest and j the second largest ideal key, the call
   returns exactly these two indices (in heap order) *)
Lemma sp_k2_returns_top_pair :
  forall (key : nat -> Z) (us ws : list R) (i j : nat),
    sp_ranks_agree key us ws -> (i < length ws)%nat -> (j < length ws)%nat -> i <> j ->
    sp_wins2 us ws i j ->
    exists r, smp_sample SmpEmpty 2 (Z.of_nat (length ws)) key = HpOk r /\
              Permutation r [Z.of_nat i; Z.of_nat j].
Proof.
  intros key us ws i j Hag Hi Hj Hij [Hji Hrest].
  set (rk := fun l => sp_key (nth l us 0%R) (nth l ws 0%R)) in *.
  assert (Hbelow_i : forall l, (l < length ws)%nat -> l <> i -> (key l < key i)%Z).
  { intros l Hl Hne. apply (Hag l i Hl Hi). fold (rk l) (rk i).
    destruct (Nat.eq_dec l j) as [->|Hnj]; [exact Hji|].
    specialize (Hrest l Hl Hne Hnj). fold (rk l) (rk j) in Hrest. fold (rk j) (rk i) in Hji. lra. }
  assert (Hbelow_j : forall l, (l < length ws)%nat -> l <> i -> l <> j -> (key l < key j)%Z).
  { intros l Hl Hne Hnj. apply (Hag l j Hl Hj). exact (Hrest l Hl Hne Hnj). }
  destruct (smp_sample_spec 2 (Z.of_nat (length ws)) key ltac:(lia))
    as (r & Hr & Hlen & Hrange & Hnd & _ & Htop).
  exists r. split; [exact Hr|].
  destruct r as [|a [|b [|? ?]]]; cbn in Hlen; try lia.
  inversion Hrange as [|? ? Ha Hrange']; subst. inversion Hrange' as [|? ? Hb _]; subst.
  inversion Hnd as [|? ? Hab _]; subst. assert (Hab' : a <> b) by (intros ->; apply Hab; left; reflexivity).
  assert (Ini : In (Z.of_nat i) [a; b]).
  { destruct (in_dec Z.eq_dec (Z.of_nat i) [a; b]) as [H|H]; [exact H|]. exfalso.
    specialize (Htop a (Z.of_nat i) ltac:(left; reflexivity) ltac:(lia) H).
    rewrite Nat2Z.id in Htop.
    assert (Hne : Z.to_nat a <> i) by (intros E; apply H; left; lia).
    specialize (Hbelow_i (Z.to_nat a) ltac:(lia) Hne). lia. }
  assert (Inj : In (Z.of_nat j) [a; b]).
  { destruct (in_dec Z.eq_dec (Z.of_nat j) [a; b]) as [H|H]; [exact H|]. exfalso.
    assert (Hc : exists c, In c [a; b] /\ c <> Z.of_nat i).
    { destruct (Z.eq_dec a (Z.of_nat i)) as [E|E].
      - exists b. split; [right; left; reflexivity | congruence].
      - exists a. split; [left; reflexivity | exact E]. }
    destruct Hc as (c & Hc & Hci).
    assert (Hcr : 0 <= c < Z.of_nat (length ws)) by (destruct Hc as [<-|[<-|[]]]; assumption).
    specialize (Htop c (Z.of_nat j) Hc ltac:(lia) H). rewrite Nat2Z.id in Htop.
    assert (Hcj : c <> Z.of_nat j) by (intros ->; exact (H Hc)).
    specialize (Hbelow_j (Z.to_nat c) ltac:(lia) ltac:(lia) ltac:(lia)). lia. }
  assert (Hzij : Z.of_nat i <> Z.of_nat j) by lia.
  destruct Ini as [Ea|[Eb|[]]]; destruct Inj as [Fa|[Fb|[]]].
  - exfalso. lia.
  - rewrite Ea, Fb. apply Permutation_refl.
  - rewrite Eb, Fa. apply perm_swap.
  - exfalso. lia.
Qed.

(* the events "i wins" partition the draws without ties: some index wins *)
Lemma sp_wins_exists :
  forall us ws, ws <> [] -> sp_no_ties us ws -> exists i, (i < length ws)%nat /\ sp_wins us ws i.
Proof.
  intros us ws Hne Hnt.
  set (rk := fun l => sp_key (nth l us 0%R) (nth l ws 0%R)).
  assert (H : forall n, (1 <= n <= length ws)%nat ->
            exists i, (i < n)%nat /\ forall j, (j < n)%nat -> j <> i -> (rk j < rk i)%R).
  { induction n as [|n IH]; intros Hn; [lia|].
    destruct (Nat.eq_dec n 0) as [->|Hn0].
    - exists 0%nat. split; [lia|]. intros j Hj Hj0. lia.
    - destruct (IH ltac:(lia)) as (i & Hi & Hmax).
      destruct (Rtotal_order (rk n) (rk i)) as [Hlt | [Heq | Hgt]].
      + exists i. split; [lia|]. intros j Hj Hji.
        destruct (Nat.eq_dec j n) as [->|Hjn]; [exact Hlt | apply Hmax; lia].
      + exfalso. apply (Hnt n i ltac:(lia) ltac:(lia) ltac:(lia)). exact Heq.
      + exists n. split; [lia|]. intros j Hj Hjn.
        destruct (Nat.eq_dec j i) as [->|Hji]; [exact Hgt|].
        specialize (Hmax j ltac:(lia) Hji). lra. }
  destruct ws as [|w ws']; [congruence|].
  destruct (H (length (w :: ws')) ltac:(simpl; lia)) as (i & Hi & Hmax).
  exists i. split; [exact Hi|]. intros j Hj Hji. exact (Hmax j Hj Hji).
Qed.

Lemma sp_exactly_one_winner :
  forall us ws, ws <> [] -> sp_no_ties us ws ->
    exists i, (i < length ws)%nat /\ sp_wins us ws i /\
              forall j, (j < length ws)%nat -> sp_wins us ws j -> j = i.
Proof.
  intros us ws Hne Hnt. destruct (sp_wins_exists us ws Hne Hnt) as (i & Hi & Hw).
  exists i. split; [exact Hi|]. split; [exact Hw|].
  intros j Hj Hwj. exact (sp_wins_unique us ws j i Hj Hi Hwj Hw).
Qed.
