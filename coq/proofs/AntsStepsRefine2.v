(* AntsStepsRefine2.v -- every step of the fixed ants step model performs at most one transition of the per-task
   decision automaton of models/Ants.v on the task its thread holds (definitions in AntsStepsRefine.v). *)
From Got Require Import Base ListAux Ants AntsSteps AntsStepsProofs AntsStepsDecide AntsStepsOutcome AntsStepsRefine.
Local Open Scope nat_scope.

Ltac vw_prep Hh Hx Hx' :=
  try (destruct Hh as [Hh|Hh]; try discriminate Hh); apply Nat.eqb_eq in Hh; subst;
  revert Hx'; ast_norm; rewrite ?Nat.eqb_refl, ?Hx; cbn [option_map]; intros Hx'; injection Hx' as <-;
  unfold ast_view, ast_holds; cbn [ast_pc_task]; rewrite ?Nat.eqb_refl; cbn [ast_view_held].

Lemma av_retry_eq R oe D i :
  length D = S i -> snd (last D (0%Z, 0%Z)) <> 0%Z -> (S i <? R) = true ->
  av_post R oe (removelast D) (last D (0%Z, 0%Z)) = av_run (AvEnq (S (S i))) D.
Proof.
  intros Hl He HR. assert (Hne : D <> []) by (destruct D; [discriminate Hl|discriminate]).
  assert (Hl' : length (removelast D) = i).
  { pose proof (app_removelast_last (0%Z, 0%Z) Hne) as E. apply (f_equal (@length _)) in E.
    rewrite app_length in E. cbn [length] in E. lia. }
  unfold av_post, av_after. rewrite Hl'. cbn [av_pair snd]. rewrite av_err_nil.
  destruct (Z.eqb_spec (snd (last D (0%Z, 0%Z))) 0) as [E|_]; [contradiction|]. rewrite HR.
  unfold av_run. cbn [av_dec av_onerr].
  assert (Hd : av_decs 1 D [] = (S i, av_pair (last D (0%Z, 0%Z))) :: av_decs 1 (removelast D) []).
  { rewrite (app_removelast_last (0%Z, 0%Z) Hne) at 1. rewrite av_decs_snoc, Hl'. reflexivity. }
  rewrite Hd. reflexivity.
Qed.

Ltac vw_decide P1 Hh Hx Hx' :=
  vw_prep Hh Hx Hx';
  (destruct (P1 _ _ eq_refl Hx) as (_ & Plen & _); right; right; right;
   eexists (S _), _; split; [reflexivity|unfold av_post; rewrite Plen; reflexivity]).

Lemma ast_step_view n s tid hint pc pc' t x x' :
  ast_inv s -> ast_dinv s -> (forall i pc, ast_pc_of s i = Some pc -> ast_is_storeo pc = false) ->
  ast_pc_of s tid = Some pc -> ast_pc_of (fst (fst (ast_step AstFixed n s tid hint))) tid = Some pc' ->
  ast_holds pc t = true \/ ast_holds pc' t = true ->
  nth_error (ast_tasks s) t = Some x -> nth_error (ast_tasks (fst (fst (ast_step AstFixed n s tid hint)))) t = Some x' ->
  1 <= aso_retry (att_opt x) ->
  av_step (aso_retry (att_opt x)) (aso_onerr (att_opt x)) (ast_view pc t x) (ast_view pc' t x').
Proof.
  intros Inv Dinv Hns Hpc. unfold ast_pc_of in Hpc. unfold ast_step.
  destruct (nth_error (ast_thr s) tid) as [th|] eqn:Eth; [|discriminate Hpc]. cbn [option_map] in Hpc. injection Hpc as Hpc.
  pose proof (Hns tid (ath_pc th)) as Hno. unfold ast_pc_of in Hno. rewrite Eth in Hno. specialize (Hno eq_refl).
  pose proof (ai_tthr _ Inv tid (ath_pc th)) as O1. unfold ast_pc_of in O1. rewrite Eth in O1.
  specialize (fun t => O1 t eq_refl).
  pose proof (di_pc _ Dinv tid (ath_pc th)) as P1. unfold ast_pc_of in P1. rewrite Eth in P1.
  specialize (fun t x => P1 t x eq_refl).
  pose proof (ai_tchan _ Inv) as I2.
  destruct th as [pc0 prog hs]. cbn [ath_pc] in *. subst pc0. unfold ast_step_pc. cbn [ath_pc ath_prog ath_handles] in *.
  destruct pc; cbn [ast_pc_task ast_is_storeo] in O1, P1, Hno; try discriminate;
    repeat first [progress (unfold ast_wait_ctx; ast_cbn) | match goal with
    | |- context [match ?x with _ => _ end] => destruct x eqn:?
    end]; intros Hpc' Hh Hx Hx' HR.
  all: revert Hpc'; ast_norm; rewrite ?Nat.eqb_refl, ?Eth; cbn [option_map ath_pc]; intros Hpc'; try discriminate Hpc';
    injection Hpc' as <-.
  all: unfold ast_holds in Hh; cbn [ast_pc_task] in Hh; try (destruct Hh as [Hh|Hh]; discriminate Hh).
  - (* newTaskCallback: the task does not exist before *)
    destruct Hh as [Hh|Hh]; [discriminate Hh|]. apply Nat.eqb_eq in Hh. subst. apply ast_nth_lt in Hx. lia.
  - vw_prep Hh Hx Hx'. destruct (P1 _ _ eq_refl Hx) as (_ & _ & _ & Hd). unfold ast_view_free. cbn [ast_t_owner att_done att_decided]. rewrite Hd. left. reflexivity.
  - vw_prep Hh Hx Hx'. destruct (P1 _ _ eq_refl Hx) as (_ & _ & _ & Hd). unfold ast_view_free. cbn [ast_t_owner att_done att_decided]. rewrite Hd. left. reflexivity.
  - vw_prep Hh Hx Hx'; left; reflexivity.
  - (* AnPick *)
    assert (Hc : ast_town s n0 = Some AwChan) by (apply I2; left; reflexivity). unfold ast_town in Hc.
    vw_prep Hh Hx Hx'. rewrite Hx in Hc. cbn in Hc. injection Hc as Hc.
    destruct (di_chan _ Dinv _ _ Hx Hc) as (_ & _ & _ & Hd). unfold ast_view_free. rewrite Hd.
    right. left. split; reflexivity.
  - (* retry = 0 is excluded *)
    exfalso. destruct Hh as [Hh|Hh]; [discriminate Hh|]. apply Nat.eqb_eq in Hh. subst.
    unfold ast_task_opt in Heqb1. ast_norm. rewrite Nat.eqb_refl, Hx in Heqb1. cbn [option_map att_opt ast_t_owner] in Heqb1.
    apply Nat.ltb_ge in Heqb1. lia.
  - (* AnEnqueue (pool closed: the callback is given up, the dispatcher goes on to its select) *)
    vw_prep Hh Hx Hx'; right; right; left; exists (S i); split; reflexivity.
  - (* AnEnqueue *)
    vw_prep Hh Hx Hx'; right; right; left; exists (S i); split; reflexivity.
  - vw_prep Hh Hx Hx'; left; reflexivity.
  - (* AnDecide via ctx1.Done() *) vw_decide P1 Hh Hx Hx'.
  - vw_decide P1 Hh Hx Hx'.
  - vw_decide P1 Hh Hx Hx'.
  - vw_prep Hh Hx Hx'; left; reflexivity.
  - (* AnDecide via doneChan *) vw_decide P1 Hh Hx Hx'.
  - (* the store itself: already accounted for by the decision *)
    vw_prep Hh Hx Hx'; left; cbn [ast_t_store att_decided att_opt]; rewrite removelast_last, last_last; reflexivity.
  - vw_prep Hh Hx Hx'; left; cbn [ast_t_store att_decided att_opt]; rewrite removelast_last, last_last; reflexivity.
  - vw_prep Hh Hx Hx'; left; reflexivity.
  - vw_prep Hh Hx Hx'; left; reflexivity.
  - (* retry: the view already says "attempt i+2 is being enqueued" *)
    destruct Hh as [Hh|Hh]; apply Nat.eqb_eq in Hh; subst t0; rewrite Hx in Heqo; injection Heqo as <-.
    all: destruct (P1 _ _ eq_refl Hx) as (_ & Plen & _); pose proof (tg_cur _ (di_t _ Dinv _ _ Hx)) as Hc.
    all: apply Z.eqb_neq in Heqb; assert (He : snd (last (att_decided x) (0%Z, 0%Z)) <> 0%Z) by (rewrite <- Hc; exact Heqb).
    all: revert Hx'; rewrite Nat.eqb_refl, Hx; cbn [option_map]; intros Hx'; injection Hx' as <-.
    all: unfold ast_view, ast_holds; cbn [ast_pc_task]; rewrite ?Nat.eqb_refl; cbn [ast_view_held ast_t_natt att_decided att_opt].
    all: left; symmetry; apply av_retry_eq; assumption.
  - vw_prep Hh Hx Hx'; left; reflexivity.
  - vw_prep Hh Hx Hx'; left; reflexivity.
  - vw_prep Hh Hx Hx'; left; reflexivity.
  - vw_prep Hh Hx Hx'; left; reflexivity.
  - (* wg.Done *)
    vw_prep Hh Hx Hx'. unfold ast_view_free. cbn [ast_t_done att_done att_decided att_opt]. left. reflexivity.
Qed.

(* a step does not change what the views look at (options, decisions, done flag) of a task the stepping thread
   holds neither before nor after the step *)
Lemma ast_step_core_unheld n s tid hint pc pc' t x x' :
  ast_inv s -> (forall i pc, ast_pc_of s i = Some pc -> ast_is_storeo pc = false) ->
  ast_pc_of s tid = Some pc -> ast_pc_of (fst (fst (ast_step AstFixed n s tid hint))) tid = Some pc' ->
  ast_holds pc t = false -> ast_holds pc' t = false ->
  nth_error (ast_tasks s) t = Some x -> nth_error (ast_tasks (fst (fst (ast_step AstFixed n s tid hint)))) t = Some x' ->
  ast_core x' = ast_core x.
Proof.
  intros Inv Hns Hpc. unfold ast_pc_of in Hpc. unfold ast_step.
  destruct (nth_error (ast_thr s) tid) as [th|] eqn:Eth; [|discriminate Hpc]. cbn [option_map] in Hpc. injection Hpc as Hpc.
  pose proof (Hns tid (ath_pc th)) as Hno. unfold ast_pc_of in Hno. rewrite Eth in Hno. specialize (Hno eq_refl).
  destruct th as [pc0 prog hs]. cbn [ath_pc] in *. subst pc0. unfold ast_step_pc. cbn [ath_pc ath_prog ath_handles] in *.
  destruct pc; cbn [ast_is_storeo] in Hno; try discriminate;
    repeat first [progress (unfold ast_wait_ctx; ast_cbn) | match goal with
    | |- context [match ?x with _ => _ end] => destruct x eqn:?
    end]; intros Hpc' Hh Hh' Hx Hx'; try congruence.
  all: revert Hpc'; ast_norm; rewrite ?Nat.eqb_refl, ?Eth; cbn [option_map ath_pc]; intros Hpc'; try discriminate Hpc';
    injection Hpc' as <-.
  all: unfold ast_holds in *; cbn [ast_pc_task] in *.
  all: revert Hx'; ast_eqb; try lia; try congruence; rewrite ?Hx; cbn [option_map]; intros Hx'; try congruence.
  all: try (apply ast_nth_lt in Hx; lia).
  all: try (injection Hx' as <-; reflexivity).
Qed.

(* the view of a finished task is its actual outcome: phase Done, the fields, all decisions, the error callback's
   arguments *)
Lemma ast_view_done n progs s t x :
  ast_reach AstFixed n progs s -> nth_error (ast_tasks s) t = Some x -> att_done x = true ->
  1 <= aso_retry (att_opt x) ->
  ast_view_free x = {| av_ph := AvDone; av_fields := av_pair (att_res x, att_err x);
                       av_dec := av_decs 1 (att_decided x) []; av_onerr := map av_err (att_onerr x) |}.
Proof.
  intros R Hx Hd HR. pose proof (ast_reach_dinv _ _ _ R) as Dv. pose proof (di_t _ Dv _ _ Hx) as T.
  destruct (di_done _ Dv _ _ Hx Hd) as [_ F]. destruct (ast_fin_outcome x T F HR) as (A & B & C & D0 & E & G).
  set (D := att_decided x) in *.
  assert (Hne : D <> []) by (destruct D; [cbn in B; lia|discriminate]).
  assert (Hl' : S (length (removelast D)) = length D).
  { pose proof (app_removelast_last (0%Z, 0%Z) Hne) as E0. apply (f_equal (@length _)) in E0.
    rewrite app_length in E0. cbn [length] in E0. lia. }
  assert (Hdec : av_decs 1 D [] = (length D, av_pair (last D (0%Z, 0%Z))) :: av_decs 1 (removelast D) []).
  { rewrite (app_removelast_last (0%Z, 0%Z) Hne) at 1. rewrite av_decs_snoc. rewrite <- Hl'. reflexivity. }
  unfold ast_view_free. rewrite Hd. fold D. unfold av_post, av_after. rewrite Hl', Hdec, <- C. cbn [av_pair snd fst].
  rewrite av_err_nil. rewrite G. unfold av_run. cbn [av_dec av_onerr].
  destruct (Z.eqb_spec (att_err x) 0) as [E0|E0]; [reflexivity|].
  destruct E as [E|E]; [contradiction|]. rewrite E, Nat.ltb_irrefl.
  destruct (aso_onerr (att_opt x)); reflexivity.
Qed.
