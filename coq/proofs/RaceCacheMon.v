(* RaceCacheMon.v -- the vector-clock monitor (lib/Race.v) along a LIST of events of one thread:
   read-knowledge predicates (the counterpart of rm_K / rm_P for the read clocks, needed for
   lock-protected locations that are written repeatedly), monotonicity of a thread's knowledge
   along its own events, frame lemmas, and a symbolic sufficient condition [rm_obl] for "the
   monitor does not flag while thread t executes evs", stated on the monitor state BEFORE evs.
   Used by RaceCacheProofs.v. *)
From Coq Require Import Relations.
From Got Require Import Base ListAux Race RaceProofs RaceHB RaceHBProofs RaceMonLemmas.
Local Open Scope nat_scope.

(* thread t knows every read of x / object o carries every read of x *)
Definition rm_KR (m : rc_mon) (t x : nat) : Prop := forall u, rc_R m x u <= rc_C m t u.
Definition rm_PR (m : rc_mon) (o x : nat) : Prop := forall u, rc_R m x u <= rc_L m o u.

Lemma rm_K_fresh m t x : rc_Wc m x = 0 -> rm_K m t x.
Proof. unfold rm_K. lia. Qed.
Lemma rm_P_fresh m o x : rc_Wc m x = 0 -> rm_P m o x.
Proof. unfold rm_P. lia. Qed.
Lemma rm_KR_fresh m t x : (forall u, rc_R m x u = 0) -> rm_KR m t x.
Proof. intros H u. rewrite H. lia. Qed.
Lemma rm_PR_fresh m o x : (forall u, rc_R m x u = 0) -> rm_PR m o x.
Proof. intros H u. rewrite H. lia. Qed.

Lemma rc_ev_eq_write (e : rc_ev) (x : nat) : {e = RWrite x} + {e <> RWrite x}.
Proof.
  destruct e as [y|y|o|o|o]; try (right; discriminate).
  destruct (Nat.eq_dec y x) as [->|]; [left; reflexivity|right; congruence].
Qed.

Section OneStep.
Variable N : nat.

(* an event of ANY thread t' keeps a K / P fact about x unless it writes x *)
Lemma rm_K_step_keep m t' e j x : e <> RWrite x -> rm_K m j x -> rm_K (rc_step N m t' e) j x.
Proof.
  intros Hne H. destruct e as [y|y|o|o|o].
  - apply (rm_K_ext (fun _ => True) m); [apply rm_ext_read|exact I|exact H].
  - apply (rm_K_ext (fun z => z <> y) m); [apply rm_ext_write; tauto|congruence|exact H].
  - apply (rm_K_ext (fun _ => True) m); [apply rm_ext_sync; exact I|exact I|exact H].
  - apply (rm_K_ext (fun _ => True) m); [apply rm_ext_sync; exact I|exact I|exact H].
  - apply (rm_K_ext (fun _ => True) m); [apply rm_ext_sync; exact I|exact I|exact H].
Qed.

Lemma rm_P_step_keep m t' e o x : e <> RWrite x -> rm_P m o x -> rm_P (rc_step N m t' e) o x.
Proof.
  intros Hne H. destruct e as [y|y|o'|o'|o'].
  - apply (rm_P_ext (fun _ => True) m); [apply rm_ext_read|exact I|exact H].
  - apply (rm_P_ext (fun z => z <> y) m); [apply rm_ext_write; tauto|congruence|exact H].
  - apply (rm_P_ext (fun _ => True) m); [apply rm_ext_sync; exact I|exact I|exact H].
  - apply (rm_P_ext (fun _ => True) m); [apply rm_ext_sync; exact I|exact I|exact H].
  - apply (rm_P_ext (fun _ => True) m); [apply rm_ext_sync; exact I|exact I|exact H].
Qed.

(* a thread's own events never destroy its knowledge of the last write *)
Lemma rm_K_own m t e x : rm_K m t x -> rm_K (rc_step N m t e) t x.
Proof.
  intros H. destruct (rc_ev_eq_write e x) as [->|Hne]; [apply rm_write_K|].
  apply rm_K_step_keep; assumption.
Qed.

Lemma rm_R_le_step m t' e x u :
  rc_R (rc_step N m t' e) x u = rc_R m x u \/ (e = RRead x /\ u = t' /\ rc_R (rc_step N m t' e) x u = rc_C m t' t').
Proof.
  rewrite rm_step_R. destruct e as [y|y|o|o|o]; try (left; reflexivity).
  destruct (Nat.eqb_spec x y) as [->|]; [|left; reflexivity].
  destruct (Nat.eqb_spec u t') as [->|]; [right; auto|left; reflexivity].
Qed.

Lemma rm_KR_own m t e x : rm_KR m t x -> rm_KR (rc_step N m t e) t x.
Proof.
  intros H u. pose proof (rm_C_mono N m t e t u) as Hc.
  destruct (rm_R_le_step m t e x u) as [->|(_ & -> & ->)].
  - specialize (H u). lia.
  - pose proof (rm_C_mono N m t e t t). lia.
Qed.

Lemma rm_KR_step_keep m t' e j x : e <> RRead x -> rm_KR m j x -> rm_KR (rc_step N m t' e) j x.
Proof.
  intros Hne H u. pose proof (rm_C_mono N m t' e j u) as Hc.
  destruct (rm_R_le_step m t' e x u) as [->|(E & _)]; [|contradiction].
  specialize (H u). lia.
Qed.

Lemma rm_PR_step_keep m t' e o x : e <> RRead x -> rm_PR m o x -> rm_PR (rc_step N m t' e) o x.
Proof.
  intros Hne H u. pose proof (rm_L_mono N m t' e o u) as Hc.
  destruct (rm_R_le_step m t' e x u) as [->|(E & _)]; [|contradiction].
  specialize (H u). lia.
Qed.

Lemma rm_acq_KR m t e o x : hb_is_acq e o -> rm_PR m o x -> rm_KR (rc_step N m t e) t x.
Proof.
  intros Ha H u.
  assert (Hs : rm_sync e) by (destruct e; cbn in Ha; try contradiction; exact I).
  rewrite rm_sync_R by exact Hs. pose proof (rm_acq_C N m t e o u Ha). specialize (H u). lia.
Qed.

Lemma rm_rel_PR m t e o x : hb_is_rel e o -> rm_KR m t x -> rm_PR (rc_step N m t e) o x.
Proof.
  intros Hr H u.
  assert (Hs : rm_sync e) by (destruct e; cbn in Hr; try contradiction; exact I).
  rewrite rm_sync_R by exact Hs. pose proof (rm_rel_L N m t e o u Hr). specialize (H u). lia.
Qed.

Lemma rm_Wc_step_keep m t' e x : e <> RWrite x -> rc_Wc (rc_step N m t' e) x = rc_Wc m x.
Proof.
  intros Hne. rewrite rm_step_Wc. destruct e as [y|y|o|o|o]; try reflexivity.
  destruct (Nat.eqb_spec x y) as [->|]; [congruence|reflexivity].
Qed.

Lemma rm_R_step_keep m t' e x u : e <> RRead x -> rc_R (rc_step N m t' e) x u = rc_R m x u.
Proof.
  intros Hne. destruct (rm_R_le_step m t' e x u) as [->|(E & _)]; [reflexivity|contradiction].
Qed.

End OneStep.

(* ------------------------------------------------------------------ lists of events of one thread *)
Section Lists.
Variable N : nat.

Lemma rm_msteps_app m t a b : rm_msteps N m t (a ++ b) = rm_msteps N (rm_msteps N m t a) t b.
Proof. unfold rm_msteps. apply fold_left_app. Qed.

Lemma rm_msteps_cons m t e r : rm_msteps N m t (e :: r) = rm_msteps N (rc_step N m t e) t r.
Proof. reflexivity. Qed.

Lemma rm_msteps_K_keep evs : forall m t j x,
  ~ In (RWrite x) evs -> rm_K m j x -> rm_K (rm_msteps N m t evs) j x.
Proof.
  induction evs as [|e r IH]; intros m t j x Hn H; [exact H|]. rewrite rm_msteps_cons.
  apply IH; [intros Hi; apply Hn; right; exact Hi|].
  apply rm_K_step_keep; [intros ->; apply Hn; left; reflexivity|exact H].
Qed.

Lemma rm_msteps_P_keep evs : forall m t o x,
  ~ In (RWrite x) evs -> rm_P m o x -> rm_P (rm_msteps N m t evs) o x.
Proof.
  induction evs as [|e r IH]; intros m t o x Hn H; [exact H|]. rewrite rm_msteps_cons.
  apply IH; [intros Hi; apply Hn; right; exact Hi|].
  apply rm_P_step_keep; [intros ->; apply Hn; left; reflexivity|exact H].
Qed.

Lemma rm_msteps_KR_keep evs : forall m t j x,
  ~ In (RRead x) evs -> rm_KR m j x -> rm_KR (rm_msteps N m t evs) j x.
Proof.
  induction evs as [|e r IH]; intros m t j x Hn H; [exact H|]. rewrite rm_msteps_cons.
  apply IH; [intros Hi; apply Hn; right; exact Hi|].
  apply rm_KR_step_keep; [intros ->; apply Hn; left; reflexivity|exact H].
Qed.

Lemma rm_msteps_PR_keep evs : forall m t o x,
  ~ In (RRead x) evs -> rm_PR m o x -> rm_PR (rm_msteps N m t evs) o x.
Proof.
  induction evs as [|e r IH]; intros m t o x Hn H; [exact H|]. rewrite rm_msteps_cons.
  apply IH; [intros Hi; apply Hn; right; exact Hi|].
  apply rm_PR_step_keep; [intros ->; apply Hn; left; reflexivity|exact H].
Qed.

Lemma rm_msteps_Wc_keep evs : forall m t x,
  ~ In (RWrite x) evs -> rc_Wc (rm_msteps N m t evs) x = rc_Wc m x.
Proof.
  induction evs as [|e r IH]; intros m t x Hn; [reflexivity|]. rewrite rm_msteps_cons.
  rewrite IH by (intros Hi; apply Hn; right; exact Hi).
  apply rm_Wc_step_keep. intros ->. apply Hn. left. reflexivity.
Qed.

Lemma rm_msteps_R_keep evs : forall m t x u,
  ~ In (RRead x) evs -> rc_R (rm_msteps N m t evs) x u = rc_R m x u.
Proof.
  induction evs as [|e r IH]; intros m t x u Hn; [reflexivity|]. rewrite rm_msteps_cons.
  rewrite IH by (intros Hi; apply Hn; right; exact Hi).
  apply rm_R_step_keep. intros ->. apply Hn. left. reflexivity.
Qed.

Lemma rm_msteps_K_own evs : forall m t x, rm_K m t x -> rm_K (rm_msteps N m t evs) t x.
Proof.
  induction evs as [|e r IH]; intros m t x H; [exact H|]. rewrite rm_msteps_cons.
  apply IH. apply rm_K_own. exact H.
Qed.

Lemma rm_msteps_KR_own evs : forall m t x, rm_KR m t x -> rm_KR (rm_msteps N m t evs) t x.
Proof.
  induction evs as [|e r IH]; intros m t x H; [exact H|]. rewrite rm_msteps_cons.
  apply IH. apply rm_KR_own. exact H.
Qed.

(* ---- what thread t knows while it executes evs from m: the last write of x is known if it was
   known before, or t wrote x itself ([wr]), or t acquired an object ([aq]) that carried it *)
Definition rm_Kp (m : rc_mon) (t : nat) (wr aq : list nat) (x : nat) : Prop :=
  rm_K m t x \/ In x wr \/ exists o, In o aq /\ rm_P m o x.

Fixpoint rm_obl (m : rc_mon) (t : nat) (wr aq : list nat) (evs : list rc_ev) : Prop :=
  match evs with
  | [] => True
  | RRead x :: r => rm_Kp m t wr aq x /\ rm_obl m t wr aq r
  | RWrite x :: r => rm_Kp m t wr aq x /\ rm_KR m t x /\ rm_obl m t (x :: wr) aq r
  | RAcq o :: r | RAcqRel o :: r => rm_obl m t wr (o :: aq) r
  | RRel _ :: r => rm_obl m t wr aq r
  end.

Fixpoint rm_writes (evs : list rc_ev) : list nat :=
  match evs with [] => [] | RWrite x :: r => x :: rm_writes r | _ :: r => rm_writes r end.
Fixpoint rm_acqs (evs : list rc_ev) : list nat :=
  match evs with [] => [] | RAcq o :: r | RAcqRel o :: r => o :: rm_acqs r | _ :: r => rm_acqs r end.

(* the relation between the state m0 before evs and a state m reached by t's own events *)
Record rm_along (m0 m : rc_mon) (t : nat) (wr aq : list nat) : Prop := {
  al_K : forall x, rm_K m0 t x -> rm_K m t x;
  al_wr : forall x, In x wr -> rm_K m t x;
  al_aq : forall o x, In o aq -> rm_P m0 o x -> rm_K m t x;
  al_P : forall o x, rm_P m0 o x -> rm_P m o x \/ rm_K m t x;
  al_KR : forall x, rm_KR m0 t x -> rm_KR m t x
}.

Lemma rm_along_refl m t : rm_along m m t [] [].
Proof. constructor; auto; intros; contradiction. Qed.

Lemma rm_along_Kp m0 m t wr aq x : rm_along m0 m t wr aq -> rm_Kp m0 t wr aq x -> rm_K m t x.
Proof.
  intros A [H|[H|[o [H1 H2]]]].
  - apply (al_K _ _ _ _ _ A). exact H.
  - apply (al_wr _ _ _ _ _ A). exact H.
  - apply (al_aq _ _ _ _ _ A o); assumption.
Qed.

Lemma rm_along_step m0 m t wr aq e :
  rm_along m0 m t wr aq ->
  rm_along m0 (rc_step N m t e) t
    (match e with RWrite x => x :: wr | _ => wr end)
    (match e with RAcq o | RAcqRel o => o :: aq | _ => aq end).
Proof.
  intros A. constructor.
  - intros x H. apply rm_K_own. apply (al_K _ _ _ _ _ A). exact H.
  - intros x H. destruct e as [y|y|o|o|o]; try (apply rm_K_own; apply (al_wr _ _ _ _ _ A); exact H).
    destruct H as [<-|H]; [apply rm_write_K|apply rm_K_own; apply (al_wr _ _ _ _ _ A); exact H].
  - intros o x Ho HP.
    assert (Hold : In o aq -> rm_K (rc_step N m t e) t x).
    { intros Hi. apply rm_K_own. apply (al_aq _ _ _ _ _ A o); assumption. }
    destruct e as [y|y|o'|o'|o']; try (apply Hold; exact Ho).
    + destruct Ho as [<-|Ho]; [|apply Hold; exact Ho].
      destruct (al_P _ _ _ _ _ A o' x HP) as [H|H]; [|apply rm_K_own; exact H].
      apply (rm_acq_K N m t (RAcq o') o'); [reflexivity|exact H].
    + destruct Ho as [<-|Ho]; [|apply Hold; exact Ho].
      destruct (al_P _ _ _ _ _ A o' x HP) as [H|H]; [|apply rm_K_own; exact H].
      apply (rm_acq_K N m t (RAcqRel o') o'); [reflexivity|exact H].
  - intros o x HP. destruct (al_P _ _ _ _ _ A o x HP) as [H|H]; [|right; apply rm_K_own; exact H].
    destruct (rc_ev_eq_write e x) as [->|Hne]; [right; apply rm_write_K|].
    left. apply rm_P_step_keep; assumption.
  - intros x H. apply rm_KR_own. apply (al_KR _ _ _ _ _ A). exact H.
Qed.

Lemma rm_along_msteps evs : forall m0 m t wr aq,
  rm_along m0 m t wr aq ->
  rm_along m0 (rm_msteps N m t evs) t (rev (rm_writes evs) ++ wr) (rev (rm_acqs evs) ++ aq).
Proof.
  induction evs as [|e r IH]; intros m0 m t wr aq A; [exact A|].
  rewrite rm_msteps_cons. pose proof (rm_along_step _ _ _ _ _ e A) as A'.
  specialize (IH _ _ _ _ _ A').
  destruct e as [y|y|o|o|o]; cbn [rm_writes rm_acqs rev]; rewrite <- ?app_assoc; exact IH.
Qed.

(* knowledge after evs *)
Lemma rm_msteps_Kp m t evs x :
  rm_Kp m t (rm_writes evs) (rm_acqs evs) x -> rm_K (rm_msteps N m t evs) t x.
Proof.
  intros H. pose proof (rm_along_msteps evs m m t [] [] (rm_along_refl m t)) as A.
  apply (rm_along_Kp _ _ _ _ _ _ A). rewrite !app_nil_r.
  destruct H as [H|[H|[o [H1 H2]]]].
  - left. exact H.
  - right. left. apply -> in_rev. exact H.
  - right. right. exists o. split; [apply -> in_rev; exact H1|exact H2].
Qed.

(* the monitor does not flag along evs *)
Lemma rm_obl_safe evs : forall m0 m t wr aq,
  rm_along m0 m t wr aq -> rc_raced m = false -> rm_obl m0 t wr aq evs ->
  rc_raced (rm_msteps N m t evs) = false.
Proof.
  induction evs as [|e r IH]; intros m0 m t wr aq A Hr Ho; [exact Hr|].
  rewrite rm_msteps_cons. pose proof (rm_along_step _ _ _ _ _ e A) as A'.
  destruct e as [x|x|o|o|o]; cbn [rm_obl] in Ho.
  - destruct Ho as [Hk Ho]. apply (IH _ _ _ _ _ A'); [|exact Ho].
    apply rm_read_ok; [exact Hr|apply (rm_along_Kp _ _ _ _ _ _ A); exact Hk].
  - destruct Ho as [Hk [Hkr Ho]]. apply (IH _ _ _ _ _ A'); [|exact Ho].
    apply rm_write_ok; [exact Hr|apply (rm_along_Kp _ _ _ _ _ _ A); exact Hk|].
    apply (al_KR _ _ _ _ _ A). exact Hkr.
  - apply (IH _ _ _ _ _ A'); [|exact Ho]. rewrite rm_sync_raced by exact I. exact Hr.
  - apply (IH _ _ _ _ _ A'); [|exact Ho]. rewrite rm_sync_raced by exact I. exact Hr.
  - apply (IH _ _ _ _ _ A'); [|exact Ho]. rewrite rm_sync_raced by exact I. exact Hr.
Qed.

Lemma rm_obl_ok m t evs :
  rc_raced m = false -> rm_obl m t [] [] evs -> rc_raced (rm_msteps N m t evs) = false.
Proof. intros Hr Ho. apply (rm_obl_safe evs m m t [] []); [apply rm_along_refl|exact Hr|exact Ho]. Qed.

(* a release in the middle of evs publishes what t knows at that point *)
Lemma rm_rel_post m t pre o post x :
  rm_Kp m t (rm_writes pre) (rm_acqs pre) x -> ~ In (RWrite x) post ->
  rm_P (rm_msteps N m t (pre ++ RRel o :: post)) o x.
Proof.
  intros Hk Hn. rewrite rm_msteps_app, rm_msteps_cons.
  apply rm_msteps_P_keep; [exact Hn|].
  apply (rm_rel_P N _ t (RRel o) o); [reflexivity|]. apply rm_msteps_Kp. exact Hk.
Qed.

Lemma rm_rel_post_R m t pre o post x :
  rm_KR m t x -> ~ In (RRead x) post ->
  rm_PR (rm_msteps N m t (pre ++ RRel o :: post)) o x.
Proof.
  intros Hk Hn. rewrite rm_msteps_app, rm_msteps_cons.
  apply rm_msteps_PR_keep; [exact Hn|].
  apply (rm_rel_PR N _ t (RRel o) o); [reflexivity|]. apply rm_msteps_KR_own. exact Hk.
Qed.

End Lists.
