From Got Require Import Base Search.

Local Open Scope Z_scope.

Lemma pow2_63_64 : 2 ^ 64 = 2 * 2 ^ 63. Proof. reflexivity. Qed.

Lemma mid_of_exact i j :
  -1 <= i -> i + 2 <= j -> j < 2 ^ 63 -> mid_of i j = (i + j) / 2.
Proof.
  intros Hi Hij Hj. unfold mid_of.
  assert (H63 : 2 ^ 63 = 9223372036854775808) by reflexivity.
  assert (H64 : 2 ^ 64 = 18446744073709551616) by reflexivity.
  assert (Hs : 0 <= i + j < 2 ^ 64) by lia.
  assert (Hw : wrapu 64 (sext 64 (i + j)) = i + j).
  { unfold sext, wrapu. change (64 - 1) with 63.
    destruct ((i + j) mod 2 ^ 64 <? 2 ^ 63) eqn:E.
    - rewrite Z.mod_mod by lia. apply Z.mod_small; lia.
    - rewrite (Z.mod_small (i + j)) by lia.
      rewrite <- (Z.mod_unique (i + j - 2 ^ 64) (2 ^ 64) (-1) (i + j)); lia. }
  rewrite Hw. apply sext_id; [lia|]. change (64 - 1) with 63. lia.
Qed.

Lemma succ_exact i : -1 <= i < 2 ^ 63 - 1 -> sext 64 (i + 1) = i + 1.
Proof. intros H. apply sext_id; [lia|]. change (64 - 1) with 63. lia. Qed.

Definition in_open (i j k : Z) : Prop := i < k < j.

(* Core loop lemma: with a threshold predicate the loop converges to the boundary,
   probing only strictly inside (i, j), at most k times when j - i <= 2^k. *)
Lemma search_loop_spec :
  forall (k fuel : nat) less i j b pr,
    (k <= fuel)%nat ->
    -1 <= i -> i < b <= j -> j < 2 ^ 63 ->
    j - i <= 2 ^ Z.of_nat k ->
    (forall m, i < m < j -> less m = (m <? b)) ->
    exists new,
      search_loop fuel less i j pr = Some (b, new ++ pr) /\
      Forall (in_open i j) new /\ (length new <= k)%nat.
Proof.
  induction k as [|k IH]; intros fuel less i j b pr Hk Hi Hb Hj Hw Hless.
  - (* width <= 1 *)
    assert (j = i + 1) by (change (2 ^ Z.of_nat 0) with 1 in Hw; lia). subst j.
    exists []. destruct fuel; cbn [search_loop]; rewrite succ_exact by lia;
      rewrite Z.eqb_refl; (replace b with (i + 1) by lia); repeat split; auto.
  - destruct fuel as [|fuel]; [lia|].
    cbn [search_loop].
    destruct (Z.eq_dec (i + 1) j) as [E|E].
    + subst j. rewrite succ_exact by lia. rewrite Z.eqb_refl.
      exists []. replace b with (i + 1) by lia. repeat split; auto. simpl; lia.
    + rewrite succ_exact by lia.
      destruct (Z.eqb_spec (i + 1) j) as [E'|_]; [contradiction|].
      rewrite mid_of_exact by lia.
      set (mid := (i + j) / 2).
      assert (Hmid : i < mid < j) by (unfold mid; lia).
      assert (Hpow : 2 ^ Z.of_nat (S k) = 2 * 2 ^ Z.of_nat k).
      { rewrite Nat2Z.inj_succ. rewrite Z.pow_succ_r by lia. reflexivity. }
      rewrite (Hless mid Hmid).
      destruct (Z.ltb_spec mid b) as [Hlt|Hge].
      * destruct (IH fuel less mid j b (mid :: pr)) as (new & Hrun & Hall & Hlen);
          [lia | lia | lia | lia | unfold mid; lia | intros m Hm; apply Hless; lia |].
        exists (new ++ [mid]). rewrite <- app_assoc. cbn [app]. split; [exact Hrun|].
        split.
        -- apply Forall_app. split.
           ++ eapply Forall_impl; [|exact Hall]. unfold in_open. intros; lia.
           ++ constructor; [exact Hmid|constructor].
        -- rewrite app_length. simpl. lia.
      * destruct (IH fuel less i mid b (mid :: pr)) as (new & Hrun & Hall & Hlen);
          [lia | lia | lia | lia | unfold mid; lia | intros m Hm; apply Hless; lia |].
        exists (new ++ [mid]). rewrite <- app_assoc. cbn [app]. split; [exact Hrun|].
        split.
        -- apply Forall_app. split.
           ++ eapply Forall_impl; [|exact Hall]. unfold in_open. intros; lia.
           ++ constructor; [exact Hmid|constructor].
        -- rewrite app_length. simpl. lia.
Qed.

Definition valid_index (n k : Z) : Prop := 0 <= k < n.

(* The predicates are "consistent with a sorted list": less holds exactly on the
   prefix [0,b), equal exactly on the block [b,e). *)
Definition consistent (n b e : Z) (less equal : Z -> bool) : Prop :=
  0 <= b <= e /\ e <= n /\
  (forall k, 0 <= k < n -> less k = (k <? b)) /\
  (forall k, 0 <= k < n -> equal k = ((b <=? k) && (k <? e))).

Definition expected_result (b e : Z) : Z := if b <? e then b else Z.lnot b.

Lemma search_spec_k :
  forall (k : nat) n b e less equal,
    0 < n < 2 ^ 63 -> (k <= search_fuel)%nat -> n + 1 <= 2 ^ Z.of_nat k ->
    consistent n b e less equal ->
    exists out,
      search n less equal = Some out /\
      s_result out = expected_result b e /\
      Forall (valid_index n) (s_less_probes out ++ s_equal_probes out) /\
      (length (s_less_probes out) <= k)%nat /\
      (length (s_equal_probes out) <= 1)%nat.
Proof.
  intros k n b e less equal Hn Hk Hpow (Hb & He & Hless & Hequal).
  unfold search. destruct (Z.leb_spec n 0) as [Hle|_]; [lia|].
  destruct (search_loop_spec k search_fuel less (-1) n b []) as (new & Hrun & Hall & Hlen);
    try lia.
  { intros m Hm. apply Hless. lia. }
  rewrite Hrun. rewrite app_nil_r.
  assert (Hvalid : Forall (valid_index n) (rev new)).
  { apply Forall_rev. eapply Forall_impl; [|exact Hall].
    unfold in_open, valid_index. intros; lia. }
  unfold expected_result.
  destruct (Z.eqb_spec b n) as [Hbn|Hbn].
  - eexists. split; [reflexivity|]. cbn.
    destruct (Z.ltb_spec b e); [lia|]. rewrite app_nil_r, rev_length.
    repeat split; auto.
  - rewrite (Hequal b) by lia.
    destruct (Z.leb_spec b b) as [_|]; [|lia]. cbn [andb].
    destruct (Z.ltb_spec b e) as [Hlt|Hge].
    + eexists. split; [reflexivity|]. cbn. rewrite rev_length. repeat split; auto.
      apply Forall_app. split; [exact Hvalid|]. constructor; [|constructor].
      unfold valid_index; lia.
    + eexists. split; [reflexivity|]. cbn. rewrite rev_length. repeat split; auto.
      apply Forall_app. split; [exact Hvalid|]. constructor; [|constructor].
      unfold valid_index; lia.
Qed.

(* number of less-probes is bounded by ceil(log2 (n+1)) *)
Theorem search_spec :
  forall n b e less equal,
    0 < n < 2 ^ 63 ->
    consistent n b e less equal ->
    exists out,
      search n less equal = Some out /\
      s_result out = expected_result b e /\
      Forall (valid_index n) (s_less_probes out ++ s_equal_probes out) /\
      Z.of_nat (length (s_less_probes out)) <= Z.log2_up (n + 1) /\
      (length (s_equal_probes out) <= 1)%nat.
Proof.
  intros n b e less equal Hn Hc.
  set (k := Z.to_nat (Z.log2_up (n + 1))).
  assert (Hlog : 0 <= Z.log2_up (n + 1)) by apply Z.log2_up_nonneg.
  assert (Hle64 : Z.log2_up (n + 1) <= 63).
  { apply Z.log2_up_le_pow2; lia. }
  destruct (search_spec_k k n b e less equal Hn) as (out & H1 & H2 & H3 & H4 & H5).
  - unfold k, search_fuel. lia.
  - unfold k. rewrite Z2Nat.id by lia. apply Z.log2_up_spec. lia.
  - exact Hc.
  - exists out. repeat split; auto. unfold k in H4. lia.
Qed.

Theorem search_empty :
  forall n less equal, n <= 0 ->
    search n less equal =
      Some {| s_result := -1; s_less_probes := []; s_equal_probes := [] |}.
Proof. intros n less equal Hn. unfold search. destruct (Z.leb_spec n 0); [reflexivity|lia]. Qed.

(* result is negative exactly when no element is equal to the target *)
Theorem search_negative_iff_absent :
  forall n b e less equal out,
    0 < n < 2 ^ 63 -> consistent n b e less equal ->
    search n less equal = Some out ->
    (s_result out < 0 <-> b = e) /\
    (b < e -> s_result out = b) /\
    (b = e -> Z.lnot (s_result out) = b).
Proof.
  intros n b e less equal out Hn Hc Hs.
  destruct (search_spec n b e less equal Hn Hc) as (out' & H1 & H2 & _).
  rewrite Hs in H1. injection H1 as <-.
  destruct Hc as (Hb & He & _).
  rewrite H2. unfold expected_result.
  destruct (Z.ltb_spec b e) as [Hlt|Hge].
  - repeat split; intros; try lia.
  - assert (b = e) by lia. subst e. rewrite Z.lnot_involutive.
    unfold Z.lnot. repeat split; intros; try lia.
Qed.

(* ------------------------------------------------------------------ *)
(* Element-level instance: a list of integers sorted ascending.         *)

Fixpoint count_lt (t : Z) (l : list Z) : nat :=
  match l with [] => O | x :: r => if x <? t then S (count_lt t r) else O end.
Fixpoint count_eq (t : Z) (l : list Z) : nat :=
  match l with [] => O | x :: r => if x =? t then S (count_eq t r) else O end.

Lemma znth_cons x l k : 0 < k -> znth (x :: l) k = znth l (k - 1).
Proof.
  intros Hk. unfold znth. replace (Z.to_nat k) with (S (Z.to_nat (k - 1))) by lia.
  reflexivity.
Qed.

Require Import Sorted.

Lemma sorted_lt_prefix :
  forall (l : list Z) t, StronglySorted Z.le l ->
    forall k, 0 <= k < Z.of_nat (length l) ->
      (znth l k <? t) = (k <? Z.of_nat (count_lt t l)).
Proof.
  induction l as [|x l IH]; intros t Hs k Hk; [simpl in Hk; lia|].
  inversion Hs as [|? ? Hs' Hall]; subst.
  cbn [count_lt length] in *.
  destruct (Z.eq_dec k 0) as [->|Hk0].
  - unfold znth. cbn. destruct (x <? t); lia.
  - rewrite znth_cons by lia.
    destruct (Z.ltb_spec x t) as [Hlt|Hge].
    + rewrite IH by (auto; lia). lia.
    + (* all later elements >= x >= t *)
      assert (Hin : In (znth l (k - 1)) l).
      { unfold znth. apply nth_In. lia. }
      rewrite Forall_forall in Hall. specialize (Hall _ Hin). lia.
Qed.

Lemma sorted_eq_block :
  forall (l : list Z) t, StronglySorted Z.le l ->
    forall k, 0 <= k < Z.of_nat (length l) ->
      (znth l k =? t) =
      ((Z.of_nat (count_lt t l) <=? k) &&
       (k <? Z.of_nat (count_lt t l) + Z.of_nat (count_eq t (skipn (count_lt t l) l)))).
Proof.
  induction l as [|x l IH]; intros t Hs k Hk; [simpl in Hk; lia|].
  inversion Hs as [|? ? Hs' Hall]; subst.
  cbn [count_lt length] in *.
  destruct (Z.ltb_spec x t) as [Hlt|Hge].
  - cbn [skipn].
    destruct (Z.eq_dec k 0) as [->|Hk0].
    + unfold znth. cbn. lia.
    + rewrite znth_cons by lia. rewrite IH by (auto; lia). lia.
  - cbn [skipn count_eq].
    destruct (Z.eq_dec k 0) as [->|Hk0].
    + unfold znth. cbn. destruct (x =? t); lia.
    + rewrite znth_cons by lia.
      destruct (Z.eqb_spec x t) as [->|Hne].
      * (* x = t: the block of t's continues *)
        assert (Hc0 : count_lt t l = O).
        { destruct l as [|y l']; [reflexivity|]. cbn.
          inversion Hall; subst. destruct (Z.ltb_spec y t); [lia|reflexivity]. }
        specialize (IH t Hs' (k - 1)). rewrite Hc0 in IH. cbn [skipn] in IH.
        rewrite IH by lia. lia.
      * assert (Hin : In (znth l (k - 1)) l).
        { unfold znth. apply nth_In. lia. }
        rewrite Forall_forall in Hall. specialize (Hall _ Hin). lia.
Qed.

Lemma count_lt_le_length t l : (count_lt t l <= length l)%nat.
Proof. induction l as [|x l IH]; cbn; [lia|]. destruct (x <? t); lia. Qed.
Lemma count_eq_le_length t l : (count_eq t l <= length l)%nat.
Proof. induction l as [|x l IH]; cbn; [lia|]. destruct (x =? t); lia. Qed.

(* For an ascending list: the result is the index of the first element equal to the
   target when there is one, else the complement of the number of smaller elements
   (the insertion point). *)
Theorem search_sorted_list :
  forall (l : list Z) t,
    StronglySorted Z.le l -> Z.of_nat (length l) < 2 ^ 63 ->
    exists out,
      search_list_asc l t = Some out /\
      let b := Z.of_nat (count_lt t l) in
      (In t l -> s_result out = b /\ znth l b = t /\
                 forall k, 0 <= k < b -> znth l k < t) /\
      (~ In t l -> s_result out = Z.lnot b /\ s_result out < 0) /\
      Forall (valid_index (Z.of_nat (length l))) (s_less_probes out ++ s_equal_probes out) /\
      Z.of_nat (length (s_less_probes out)) <= Z.log2_up (Z.of_nat (length l) + 1).
Proof.
  intros l t Hs Hlen.
  destruct (Nat.eq_dec (length l) 0) as [H0|H0].
  { destruct l; [|discriminate].
    exists {| s_result := -1; s_less_probes := []; s_equal_probes := [] |}.
    cbn. repeat split; auto; try contradiction; try lia. }
  set (n := Z.of_nat (length l)).
  set (b := Z.of_nat (count_lt t l)).
  set (e := b + Z.of_nat (count_eq t (skipn (count_lt t l) l))).
  assert (Hn : 0 < n < 2 ^ 63).
  { unfold n. lia. }
  assert (Hble : b <= n) by (unfold b, n; pose proof (count_lt_le_length t l); lia).
  assert (Hele : e <= n).
  { unfold e, b, n. pose proof (count_eq_le_length t (skipn (count_lt t l) l)).
    rewrite skipn_length in H. pose proof (count_lt_le_length t l). lia. }
  assert (Hc : consistent n b e (fun k => znth l k <? t) (fun k => znth l k =? t)).
  { unfold consistent. repeat split; try lia.
    - intros k Hk. apply sorted_lt_prefix; auto.
    - intros k Hk. apply sorted_eq_block; auto. }
  destruct (search_spec n b e _ _ Hn Hc) as (out & H1 & H2 & H3 & H4 & H5).
  exists out. split; [exact H1|]. cbn zeta. fold b.
  (* membership <-> b < e *)
  assert (Hmem : In t l <-> b < e).
  { split.
    - intros Hin. destruct (In_nth l t 0 Hin) as (i & Hi & Hnth).
      assert (Heq : (znth l (Z.of_nat i) =? t) = true).
      { unfold znth. rewrite Nat2Z.id. rewrite Hnth. apply Z.eqb_refl. }
      destruct Hc as (_ & _ & _ & Hequal). rewrite Hequal in Heq by (unfold n; lia). lia.
    - intros Hlt.
      destruct Hc as (_ & _ & _ & Hequal).
      assert (Heq : (znth l b =? t) = true) by (rewrite Hequal; lia).
      apply Z.eqb_eq in Heq. rewrite <- Heq. unfold znth. apply nth_In. lia. }
  unfold expected_result in H2.
  repeat split.
  - destruct (Z.ltb_spec b e); [exact H2|]. apply Hmem in H. lia.
  - destruct Hc as (_ & _ & _ & Hequal).
    apply Hmem in H.
    assert (Heq : (znth l b =? t) = true) by (rewrite Hequal; lia).
    apply Z.eqb_eq in Heq. exact Heq.
  - intros k Hk. destruct Hc as (_ & _ & Hless & _).
    assert (Hl : (znth l k <? t) = true) by (rewrite Hless; lia). lia.
  - destruct (Z.ltb_spec b e) as [Hlt|]; [|exact H2]. apply Hmem in Hlt. contradiction.
  - destruct (Z.ltb_spec b e) as [Hlt|]; [apply Hmem in Hlt; contradiction|].
    rewrite H2. unfold Z.lnot, b. lia.
  - exact H3.
  - exact H4.
Qed.

(* the 64-bit wrap in the midpoint is exact for every count below 2^63: this is the
   content of the source comment "(i+j)/2 may overflow" *)
Theorem search_no_overflow :
  forall i j, -1 <= i -> i + 2 <= j -> j < 2 ^ 63 ->
    mid_of i j = (i + j) / 2 /\ i < mid_of i j < j.
Proof.
  intros i j Hi Hij Hj. rewrite mid_of_exact by lia. split; [reflexivity|lia].
Qed.

(* Non-vacuity: concrete instance (the list of the repository's own test). *)
Example search_example_hit :
  option_map s_result (search_list_asc [1; 3; 3; 3; 5; 7; 9; 9; 9; 11] 9) = Some 6.
Proof. vm_compute. reflexivity. Qed.
Example search_example_miss :
  option_map s_result (search_list_asc [1; 3; 3; 5; 7; 9; 11] 4) = Some (Z.lnot 3).
Proof. vm_compute. reflexivity. Qed.
Example search_example_sorted : StronglySorted Z.le [1; 3; 3; 3; 5; 7; 9; 9; 9; 11].
Proof. repeat constructor; lia. Qed.
