(* SampleSeqProofs.v -- lemmas about models/SampleSeq.v (panicking callback, call sequences). *)
From Got Require Import Base Heap HeapProofs Sample SampleProofs SampleSeq.
Require Import Permutation.
Local Open Scope Z_scope.

(* a callback that never panics inside the iterated range: the loop is smp_loop *)
Lemma smp_loop_cb_no_panic k key pj : forall cnt i h,
  (forall x, (i <= x < i + cnt)%nat -> smp_cb_panics pj x = false) ->
  fst (smp_loop_cb k key pj cnt i h) = smp_loop k key cnt i h.
Proof.
  induction cnt as [|c IH]; intros i h Hno; [reflexivity|].
  cbn [smp_loop_cb smp_loop]. rewrite (Hno i) by lia.
  destruct (smp_step k (key i) i h) as [h'| |]; [|reflexivity|reflexivity].
  apply IH. intros x Hx. apply Hno. lia.
Qed.

Lemma smp_loop_cb_calls_ok k key pj : forall cnt i h h' c,
  smp_loop_cb k key pj cnt i h = (HpOk h', c) -> c = (i + cnt)%nat.
Proof.
  induction cnt as [|n IH]; intros i h h' c H; cbn [smp_loop_cb] in H.
  - inversion H. lia.
  - destruct (smp_cb_panics pj i); [discriminate|].
    destruct (smp_step k (key i) i h) as [h1| |]; [|discriminate|discriminate].
    apply IH in H. lia.
Qed.

Lemma smp_cb_none x : smp_cb_panics None x = false.
Proof. reflexivity. Qed.

Lemma smp_cb_some j x : smp_cb_panics (Some j) x = Nat.eqb x j.
Proof. reflexivity. Qed.

Lemma smp_sample_cb_fst_eq init k n key pj :
  (forall x, (x < Z.to_nat n)%nat -> smp_cb_panics pj x = false) ->
  fst (smp_sample_cb init k n key pj) = smp_sample init k n key.
Proof.
  intros Hno. unfold smp_sample_cb, smp_sample.
  destruct ((n <? k) || (n <=? 0)); [reflexivity|]. destruct (k <? 0); [reflexivity|].
  match goal with |- context [smp_loop_cb ?a ?b ?c ?d ?e ?f] =>
    pose proof (smp_loop_cb_no_panic a b c d e f) as E end.
  rewrite <- E by (intros x Hx; apply Hno; lia).
  destruct (smp_loop_cb _ _ _ _ _ _) as [[h| |] c]; reflexivity.
Qed.

(* getWeight never panics: exactly the function of models/Sample.v *)
Lemma smp_sample_cb_none init k n key :
  fst (smp_sample_cb init k n key None) = smp_sample init k n key.
Proof. apply smp_sample_cb_fst_eq. intros x _. reflexivity. Qed.

(* the panic index is never asked for (j >= totalNum): no influence *)
Lemma smp_sample_cb_late init k n key j :
  (Z.to_nat n <= j)%nat ->
  fst (smp_sample_cb init k n key (Some j)) = smp_sample init k n key.
Proof.
  intros Hj. apply smp_sample_cb_fst_eq. intros x Hx. cbn. apply Nat.eqb_neq. lia.
Qed.

(* callback panics at an index that is asked for: with the loop invariant up to there *)
Lemma smp_loop_cb_panics k key j : forall cnt i h dropped,
  (1 <= k)%nat -> smp_inv k key i h dropped -> (i <= j < i + cnt)%nat ->
  smp_loop_cb k key (Some j) cnt i h = (HpPanic, S j).
Proof.
  induction cnt as [|c IH]; intros i h dropped Hk Hinv Hj; [lia|].
  cbn [smp_loop_cb]. rewrite smp_cb_some.
  destruct (Nat.eqb_spec i j) as [->|Hne]; [reflexivity|].
  destruct (smp_step_spec k key i h dropped Hk Hinv) as (h1 & d1 & Hr & Hinv1).
  rewrite Hr. apply (IH (S i) h1 d1 Hk Hinv1). lia.
Qed.

(* valid arguments, getWeight panics when asked for index j < totalNum: the call panics
   after exactly j+1 callback invocations (indices 0..j, in order) *)
Lemma smp_sample_cb_panics k n key j :
  1 <= k <= n -> (j < Z.to_nat n)%nat ->
  smp_sample_cb SmpEmpty k n key (Some j) = (HpPanic, S j).
Proof.
  intros Hkn Hj. unfold smp_sample_cb.
  destruct (Z.ltb_spec n k); [lia|]. destruct (Z.leb_spec n 0); [lia|]. cbn [orb].
  destruct (Z.ltb_spec k 0); [lia|].
  rewrite (smp_loop_cb_panics (Z.to_nat k) key j (Z.to_nat n) 0 [] []
             ltac:(lia) (smp_inv_init _ key) ltac:(lia)).
  reflexivity.
Qed.

(* valid arguments, no panic: n callback invocations *)
Lemma smp_sample_cb_calls k n key pj r c :
  smp_sample_cb SmpEmpty k n key pj = (HpOk r, c) -> c = Z.to_nat n.
Proof.
  unfold smp_sample_cb.
  destruct ((n <? k) || (n <=? 0)); [discriminate|]. destruct (k <? 0); [discriminate|].
  destruct (smp_loop_cb _ _ _ _ _ _) as [[h| |] c'] eqn:E; [|discriminate|discriminate].
  intros H. inversion H. subst c'. apply smp_loop_cb_calls_ok in E. lia.
Qed.

(* invalid arguments: panic before the first callback invocation, or (sampleNum = 0) at the
   first comparison with the empty heap's root, after one invocation *)
Lemma smp_sample_cb_invalid_args k n key pj :
  (n < k \/ n <= 0 \/ k <= 0) ->
  fst (smp_sample_cb SmpEmpty k n key pj) = HpPanic /\ (snd (smp_sample_cb SmpEmpty k n key pj) <= 1)%nat.
Proof.
  intros H. unfold smp_sample_cb.
  destruct (Z.ltb_spec n k); [cbn; split; [reflexivity|lia]|].
  destruct (Z.leb_spec n 0); [cbn; split; [reflexivity|lia]|]. cbn [orb].
  destruct (Z.ltb_spec k 0); [cbn; split; [reflexivity|lia]|].
  assert (k = 0) by lia. subst k. cbn [Z.to_nat].
  destruct (Z.to_nat n) as [|c] eqn:En; [lia|].
  cbn [smp_loop_cb]. destruct (smp_cb_panics pj 0); [cbn; split; [reflexivity|lia]|].
  cbn. split; [reflexivity|lia].
Qed.

(* ---------------- call sequences ---------------- *)

Lemma smp_run_calls_nth cs : forall i c,
  nth_error cs i = Some c -> nth_error (smp_run_calls cs) i = Some (smp_call_result c).
Proof. intros i c H. unfold smp_run_calls. apply map_nth_error. exact H. Qed.

(* the outcome of a call does not depend on the calls made before or after it *)
Lemma smp_run_calls_history_independent pre post c :
  nth_error (smp_run_calls (pre ++ c :: post)) (length pre) = Some (smp_call_result c).
Proof.
  apply smp_run_calls_nth. rewrite nth_error_app2 by lia. rewrite Nat.sub_diag. reflexivity.
Qed.

(* every valid call of every sequence meets the full specification of the property,
   whatever the earlier calls were (normal, invalid arguments, callback panic) *)
Lemma smp_run_calls_valid_spec cs i c :
  nth_error cs i = Some c -> smp_call_valid c ->
  exists r, nth_error (smp_run_calls cs) i = Some (HpOk r, Z.to_nat (smc_n c)) /\
            smp_spec (smc_k c) (smc_n c) (smp_key_of_list (smc_keys c)) r.
Proof.
  intros Hc (Hkn & Hpj). rewrite (smp_run_calls_nth cs i c Hc).
  destruct (smp_sample_spec (smc_k c) (smc_n c) (smp_key_of_list (smc_keys c)) Hkn) as (r & Hr & Hs).
  exists r. split; [|exact Hs]. unfold smp_call_result.
  assert (Hf : fst (smp_sample_cb SmpEmpty (smc_k c) (smc_n c) (smp_key_of_list (smc_keys c)) (smc_pj c)) = HpOk r).
  { rewrite <- Hr. destruct (smc_pj c) as [j|]; [apply smp_sample_cb_late; exact Hpj|apply smp_sample_cb_none]. }
  destruct (smp_sample_cb _ _ _ _ _) as [res cnt] eqn:E. cbn in Hf. subst res.
  apply smp_sample_cb_calls in E. subst cnt. reflexivity.
Qed.
