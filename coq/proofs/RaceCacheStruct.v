(* RaceCacheStruct.v -- the part of a step of [cs_step CsFixed] that is not ghost (memory, mutex,
   program counter), as a function [rc_eff] without the ghost components, and the structural
   invariant the race-freedom proof of proofs/RaceCacheProofs.v rests on:
     - the mutex is held exactly by the thread whose pc is inside a critical section;
     - every future id a pc mentions is allocated; the ids whose err a pc is about to read are complete;
     - every incomplete future has at most one owner: the Load that created it and has not sent it
       yet, its place in the job queue, or the worker that received it;
     - map entries, predecessors and queued ids are allocated; queued jobs are distinct and incomplete.
   Everything here is independent of the vector-clock monitor. *)
From Got Require Import Base ListAux Race Cache CacheProofs CacheSteps CacheStepsProofs RaceCache.
Local Open Scope nat_scope.

(* ------------------------------------------------------------------ the real effect of a thread step *)
Definition rc_fetched (m : c_state) (w : bool) (x : nat) : c_state * option nat * cs_pc :=
  (m, None, CsXAU w x).

Definition rc_swnext (m : c_state) (lk : option nat) (rest : list (Z * nat)) : c_state * option nat * cs_pc :=
  match rest with
  | [] => (m, None, CsZAU)
  | (k, f) :: r => (m, lk, CsZLU k f r)
  end.

Definition rc_unmap (m : c_state) (k : Z) : c_state :=
  cs_with m (c_futs m) (c_remove (c_map m) k) (c_queue m) (c_running m).

Definition rc_eff (cfg : c_cfg) (m : c_state) (lk : option nat) (tid : nat) (pc : cs_pc)
  : c_state * option nat * cs_pc :=
  let nf := length (c_futs m) in
  match pc with
  | CsIdle => (m, lk, CsIdle)
  | CsLBL k => (m, Some tid, CsLAL k)
  | CsLAL k =>
      match c_lookup (c_map m) k with
      | None => (cs_new_entry m k None, None, CsLAU CEmpty None (Some nf))
      | Some f => (m, lk, CsLLU k f)
      end
  | CsLLU k f =>
      match cs_fdone m f with
      | None => (m, lk, CsRLP false f)
      | Some (_, _, u) => (m, lk, CsLRE k f (c_now m - u)%Z)
      end
  | CsLRE k f past =>
      match cs_status_of cfg past (cs_err_of m f) with
      | CGood => (m, lk, CsRLP false f)
      | st => (cs_new_entry m k (match st with CExpired => Some f | _ => None end), None,
               CsLAU st (Some f) (Some nf))
      end
  | CsLAU st last next =>
      match next with
      | Some n => (m, lk, CsLSJ st last n)
      | None => match last with Some f => (m, lk, CsRLP false f) | None => (m, lk, CsIdle) end
      end
  | CsLSJ st last n => (cs_enqueue m n, lk, CsIdle)
  | CsGBL k => (m, Some tid, CsGAL k)
  | CsGAL k =>
      match c_lookup (c_map m) k with
      | None => (m, None, CsGAU None)
      | Some f => (m, lk, CsGLU f)
      end
  | CsGAU fo => match fo with None => (m, lk, CsIdle) | Some f => (m, lk, CsGLU f) end
  | CsGLU f =>
      match cs_fdone m f with
      | None => (m, lk, CsRLP true f)
      | Some (_, _, u) => (m, lk, CsGRE f (c_now m - u)%Z)
      end
  | CsGRE f past =>
      match cs_status_of cfg past (cs_err_of m f) with
      | CGood => (m, lk, CsRLP true f)
      | CExpired => rc_fetched m true f
      | _ => (m, None, CsGAU None)
      end
  | CsGFW x => match cs_fdone m x with Some _ => (m, lk, CsIdle) | None => (m, lk, CsGFW x) end
  | CsRLP w f =>
      match cs_fpred m f with
      | None => rc_fetched m w f
      | Some p => (m, lk, CsRPU w f p)
      end
  | CsRPU w f p =>
      match cs_fdone m p with
      | None => rc_fetched m w f
      | Some (_, _, u) => (m, lk, CsRPE w f p (c_now m - u)%Z)
      end
  | CsRPE w f p past =>
      match cs_status_of cfg past (cs_err_of m p) with
      | CExpired => rc_fetched m w p
      | _ => rc_fetched m w f
      end
  | CsXAU w x => if w then (m, lk, CsGFW x) else (m, lk, CsIdle)
  | CsSBL k v e => (m, Some tid, CsSAL k v e)
  | CsSAL k v e => (m, lk, CsSSU k v e (c_now m))
  | CsSSU k v e now => (m, lk, CsSSP k v e now)
  | CsSSP k v e now => (cs_set_entry m k v e now, None, CsSAU)
  | CsSAU => (m, lk, CsIdle)
  | CsWLD f v e => (m, lk, CsWSU f v e (c_now m))
  | CsWSU f v e now => (cs_store_done m f (v, e, now), lk, CsWSP f v e now)
  | CsWSP f v e now => (cs_store_pred_nil m f, lk, CsIdle)
  | CsZBL => (m, Some tid, CsZAL)
  | CsZAL => rc_swnext m lk (c_map m)
  | CsZLU k f rest =>
      match cs_fdone m f with
      | None => rc_swnext m lk rest
      | Some (_, _, u) => (m, lk, CsZRE k f (c_now m - u)%Z rest)
      end
  | CsZRE k f past rest =>
      rc_swnext (match cs_status_of cfg past (cs_err_of m f) with CRotted => rc_unmap m k | _ => m end) lk rest
  | CsZAU => (m, lk, CsIdle)
  end.

Definition rc_dequeue (m : c_state) (f : nat) (q : list nat) : c_state :=
  cs_with m (c_futs m) (c_map m) q (c_running m ++ [f]).

Definition rc_eff_start (m : c_state) (lk : option nat) (op : cs_op) : c_state * option nat * cs_pc :=
  match op with
  | CsLoad k => (m, lk, CsLBL k)
  | CsGet2 k => (m, lk, CsGBL k)
  | CsSet k v e => (m, lk, CsSBL k v e)
  | CsSweep => (m, lk, CsZBL)
  | CsFinish v e =>
      match c_queue m with
      | [] => (m, lk, CsIdle)
      | f :: q => (rc_dequeue m f q, lk, CsWLD f v e)
      end
  end.

Lemma rc_sweep_next_eff cfg m lk g rest :
  let r := cs_sweep_next cfg m lk g rest in (tr_m r, tr_lock r, tr_pc r) = rc_swnext m lk rest.
Proof. destruct rest as [|[k f] r]; reflexivity. Qed.

Lemma rc_tstep_eff cfg s tid t :
  let r := cs_tstep CsFixed cfg s tid t in
  (tr_m r, tr_lock r, tr_pc r) = rc_eff cfg (cs_m s) (cs_lock s) tid (ct_pc t).
Proof.
  cbv zeta. unfold cs_tstep, rc_eff.
  destruct (ct_pc t) as [ |k|k|k f|k f past|st last next|st last n|k|k|fo|f|f past|x|w f|w f p|w f p past|w x
                         |k v e|k v e|k v e now|k v e now| |f v e|f v e now|f v e now| | |k f rest|k f past rest| ];
    cbv zeta; try reflexivity.
  - destruct (c_lookup (c_map (cs_m s)) k); [reflexivity|].
    unfold cs_lin_load. destruct (c_load cfg (cs_g s) k). reflexivity.
  - destruct (cs_fdone (cs_m s) f) as [[[? ?] ?]|]; reflexivity.
  - unfold cs_lin_load. destruct (c_load cfg (cs_g s) k).
    destruct (cs_status_of cfg past (cs_err_of (cs_m s) f)); reflexivity.
  - destruct next; [reflexivity|]. destruct last; reflexivity.
  - destruct (c_lookup (c_map (cs_m s)) k); reflexivity.
  - destruct fo; reflexivity.
  - destruct (cs_fdone (cs_m s) f) as [[[? ?] ?]|]; reflexivity.
  - destruct (cs_status_of cfg past (cs_err_of (cs_m s) f)); reflexivity.
  - destruct (cs_fdone (cs_m s) x) as [[[? ?] ?]|]; reflexivity.
  - destruct (cs_fpred (cs_m s) f); reflexivity.
  - destruct (cs_fdone (cs_m s) p) as [[[? ?] ?]|]; reflexivity.
  - destruct (cs_status_of cfg past (cs_err_of (cs_m s) p)); reflexivity.
  - destruct w; reflexivity.
  - destruct (c_finish (cs_g s) _ _ v e). reflexivity.
  - apply rc_sweep_next_eff.
  - destruct (cs_fdone (cs_m s) f) as [[[? ?] ?]|]; [reflexivity|]. apply rc_sweep_next_eff.
  - apply rc_sweep_next_eff.
Qed.

Lemma rc_tstart_eff cfg s op :
  let r := cs_tstart cfg s op in
  (tr_m r, tr_lock r, tr_pc r) = rc_eff_start (cs_m s) (cs_lock s) op.
Proof.
  cbv zeta. unfold cs_tstart, rc_eff_start. destruct op as [k|k|k v e|v e| ]; try reflexivity.
  destruct (c_queue (cs_m s)) as [|f q]; [reflexivity|].
  destruct (c_start (cs_g s) _). reflexivity.
Qed.

(* ------------------------------------------------------------------ the pcs of a state *)
Definition rc_pcof (s : cs_state) (j : nat) : option cs_pc := option_map ct_pc (nth_error (cs_thr s) j).

Definition rc_updpc (pcof : nat -> option cs_pc) (tid : nat) (pc : cs_pc) : nat -> option cs_pc :=
  fun j => if j =? tid then Some pc else pcof j.

(* a thread without a call in progress is idle *)
Definition rc_idle_inv (s : cs_state) : Prop :=
  forall j t, nth_error (cs_thr s) j = Some t -> ct_op t = None -> ct_pc t = CsIdle.

Lemma rc_go_view cfg s tid t op prog r :
  nth_error (cs_thr s) tid = Some t ->
  let s' := fst (cs_go cfg s tid t op prog r) in
  cs_m s' = tr_m r /\ cs_lock s' = tr_lock r /\
  (forall j, rc_pcof s' j = rc_updpc (rc_pcof s) tid (tr_pc r) j) /\
  length (cs_thr s') = length (cs_thr s) /\
  (rc_idle_inv s -> rc_idle_inv s').
Proof.
  intros Ht. cbv zeta. split; [reflexivity|]. split; [reflexivity|].
  assert (Hnth : forall j, nth_error (cs_thr (fst (cs_go cfg s tid t op prog r))) j =
                           if j =? tid then Some (cs_next cfg t op prog r)
                           else option_map (cs_note cfg (tr_g r)) (nth_error (cs_thr s) j)).
  { intros j. rewrite cs_go_thr. apply (cs_thr_nth cfg s tid t). exact Ht. }
  split; [|split].
  - intros j. unfold rc_pcof, rc_updpc. rewrite Hnth. destruct (j =? tid); cbn [option_map].
    + rewrite cs_next_pc. reflexivity.
    + destruct (nth_error (cs_thr s) j); cbn [option_map]; [rewrite cs_note_pc|]; reflexivity.
  - rewrite cs_go_thr.
    assert (H : forall (l : list cs_thread) i x, length (cs_upd l i x) = length l).
    { induction l as [|a l IH]; intros [|i] x; cbn; auto. }
    rewrite H. apply map_length.
  - intros Hid j tj Hj Hop. rewrite Hnth in Hj. destruct (j =? tid).
    + inversion Hj; subst tj. unfold cs_next in *. destruct (tr_pc r); try reflexivity;
        rewrite cs_note_op in Hop; discriminate.
    + destruct (nth_error (cs_thr s) j) as [t0|] eqn:E; [|discriminate]. cbn in Hj. inversion Hj; subst tj.
      rewrite cs_note_pc. rewrite cs_note_op in Hop. apply (Hid j t0 E Hop).
Qed.

(* a step of the machine, seen through memory, mutex and pcs *)
Inductive rc_stepview (cfg : c_cfg) (s s' : cs_state) : cs_item -> list rc_ev -> Prop :=
| RvNone it : s' = s -> rc_stepview cfg s s' it []
| RvTick dt :
    c_futs (cs_m s') = c_futs (cs_m s) -> c_map (cs_m s') = c_map (cs_m s) ->
    c_queue (cs_m s') = c_queue (cs_m s) -> cs_lock s' = cs_lock s ->
    (forall j, rc_pcof s' j = rc_pcof s j) -> rc_stepview cfg s s' (CsTick dt) []
| RvStep tid t pc' :
    nth_error (cs_thr s) tid = Some t -> cs_blocked s t = false -> ct_op t <> None ->
    (cs_m s', cs_lock s', pc') = rc_eff cfg (cs_m s) (cs_lock s) tid (ct_pc t) ->
    (forall j, rc_pcof s' j = rc_updpc (rc_pcof s) tid pc' j) ->
    rc_stepview cfg s s' (CsRun tid) (rc_label cfg (cs_m s) (ct_pc t))
| RvStart tid t op rest pc' :
    nth_error (cs_thr s) tid = Some t -> cs_blocked s t = false -> ct_op t = None ->
    ct_prog t = op :: rest ->
    (cs_m s', cs_lock s', pc') = rc_eff_start (cs_m s) (cs_lock s) op ->
    (forall j, rc_pcof s' j = rc_updpc (rc_pcof s) tid pc' j) ->
    rc_stepview cfg s s' (CsRun tid) (rc_label_start (cs_m s) op).

Lemma rc_note_pcof cfg g s j :
  option_map ct_pc (nth_error (map (cs_note cfg g) (cs_thr s)) j) = rc_pcof s j.
Proof.
  unfold rc_pcof. rewrite nth_error_map. destruct (nth_error (cs_thr s) j); cbn; [rewrite cs_note_pc|]; reflexivity.
Qed.

Lemma rc_step_view cfg s it :
  let s' := fst (cs_step CsFixed cfg s it) in
  rc_stepview cfg s s' it (rc_events cfg s it) /\ length (cs_thr s') = length (cs_thr s) /\
  (rc_idle_inv s -> rc_idle_inv s').
Proof.
  cbv zeta. unfold rc_events, rc_events_gen. destruct it as [tid|dt]; cbn [cs_step].
  - destruct (nth_error (cs_thr s) tid) as [t|] eqn:Ht; [|split; [apply RvNone|split]; auto].
    destruct (cs_blocked s t) eqn:Hb; [split; [apply RvNone|split]; auto|].
    destruct (ct_op t) as [op|] eqn:Hop.
    + destruct (rc_go_view cfg s tid t op (ct_prog t) (cs_tstep CsFixed cfg s tid t) Ht) as (A & B & C & D & E).
      split; [|split; assumption].
      apply (RvStep cfg s _ tid t (tr_pc (cs_tstep CsFixed cfg s tid t))); auto; [congruence|].
      rewrite A, B. apply rc_tstep_eff.
    + destruct (ct_prog t) as [|op rest] eqn:Hp; [split; [apply RvNone|split]; auto|].
      destruct (rc_go_view cfg s tid t op rest (cs_tstart cfg s op) Ht) as (A & B & C & D & E).
      split; [|split; assumption].
      apply (RvStart cfg s _ tid t op rest (tr_pc (cs_tstart cfg s op))); auto.
      rewrite A, B. apply rc_tstart_eff.
  - destruct (dt <? 0)%Z; [split; [apply RvNone|split]; auto|]. cbn [fst].
    split; [|split].
    + apply RvTick; try reflexivity. intros j. cbn [cs_thr]. apply rc_note_pcof.
    + cbn [cs_thr]. apply map_length.
    + intros Hid j tj Hj Hop. cbn [cs_thr] in Hj. rewrite nth_error_map in Hj.
      destruct (nth_error (cs_thr s) j) as [t0|] eqn:E; [|discriminate]. cbn in Hj. inversion Hj; subst tj.
      rewrite cs_note_pc. rewrite cs_note_op in Hop. apply (Hid j t0 E Hop).
Qed.

(* ------------------------------------------------------------------ classification of pcs *)
Definition rc_holds (pc : cs_pc) : bool :=
  match pc with
  | CsLAL _ | CsLLU _ _ | CsLRE _ _ _ | CsGAL _ | CsGLU _ | CsGRE _ _
  | CsRLP _ _ | CsRPU _ _ _ | CsRPE _ _ _ _
  | CsSAL _ _ _ | CsSSU _ _ _ _ | CsSSP _ _ _ _ | CsZAL | CsZLU _ _ _ | CsZRE _ _ _ _ => true
  | _ => false
  end.

(* the incomplete future a thread is responsible for *)
Definition rc_own (pc : cs_pc) : option nat :=
  match pc with
  | CsLAU _ _ (Some n) | CsLSJ _ _ n => Some n
  | CsWLD f _ _ | CsWSU f _ _ _ | CsWSP f _ _ _ => Some f
  | _ => None
  end.
Definition rc_iswsp (pc : cs_pc) : bool := match pc with CsWSP _ _ _ _ => true | _ => false end.
Definition rc_iswsu (pc : cs_pc) : bool := match pc with CsWSU _ _ _ _ => true | _ => false end.
Definition rc_setter (pc : cs_pc) : bool :=
  match pc with CsSSU _ _ _ _ | CsSSP _ _ _ _ => true | _ => false end.

(* the future ids a pc is going to access *)
Definition rc_pcfuts (pc : cs_pc) : list nat :=
  match pc with
  | CsLLU _ f | CsLRE _ f _ | CsGLU f | CsGRE f _ | CsRLP _ f => [f]
  | CsRPU _ f p | CsRPE _ f p _ => [f; p]
  | CsZLU _ f rest | CsZRE _ f _ rest => f :: map snd rest
  | _ => []
  end.
(* the future whose err the pc is about to read *)
Definition rc_redone (pc : cs_pc) : option nat :=
  match pc with
  | CsLRE _ f _ | CsGRE f _ | CsZRE _ f _ _ => Some f
  | CsRPE _ _ p _ => Some p
  | _ => None
  end.
(* pcs of the order before commit 4caabe5 that the Fixed order never reaches *)
Definition rc_pcok (pc : cs_pc) : Prop :=
  match pc with CsLAU _ _ None | CsGAU (Some _) => False | _ => True end.

Definition rc_lockmove (lk : option nat) (tid : nat) (pc : cs_pc) (lk' : option nat) (pc' : cs_pc) : Prop :=
  (lk' = lk /\ rc_holds pc' = rc_holds pc) \/
  (lk = None /\ lk' = Some tid /\ rc_holds pc = false /\ rc_holds pc' = true) \/
  (rc_holds pc = true /\ lk' = None /\ rc_holds pc' = false).

Definition rc_isbl (pc : cs_pc) : bool :=
  match pc with CsLBL _ | CsGBL _ | CsSBL _ _ _ | CsZBL => true | _ => false end.

Section Sinv.
Variables (m : c_state) (lk : option nat) (pcof : nat -> option cs_pc).
Let nf := length (c_futs m).

Record rc_sinv : Prop := {
  rs_lock : forall j pc, pcof j = Some pc -> (rc_holds pc = true <-> lk = Some j);
  rs_ok : forall j pc, pcof j = Some pc -> rc_pcok pc;
  rs_futs : forall j pc f, pcof j = Some pc -> In f (rc_pcfuts pc) -> f < nf;
  rs_done : forall j pc f, pcof j = Some pc -> rc_redone pc = Some f -> cs_fdone m f <> None;
  rs_own : forall j pc f, pcof j = Some pc -> rc_own pc = Some f ->
      f < nf /\ ~ In f (c_queue m) /\
      (rc_iswsp pc = true -> cs_fdone m f <> None) /\ (rc_iswsp pc = false -> cs_fdone m f = None);
  rs_uniq : forall i j pi pj f, pcof i = Some pi -> pcof j = Some pj ->
      rc_own pi = Some f -> rc_own pj = Some f -> i = j;
  rs_qnodup : NoDup (c_queue m);
  rs_queue : forall f, In f (c_queue m) -> f < nf /\ cs_fdone m f = None;
  rs_map : forall k f, In (k, f) (c_map m) -> f < nf;
  rs_pred : forall f p, cs_fpred m f = Some p -> p < nf
}.
End Sinv.

Lemma rc_updpc_same pcof tid pc : rc_updpc pcof tid pc tid = Some pc.
Proof. unfold rc_updpc. rewrite Nat.eqb_refl. reflexivity. Qed.
Lemma rc_updpc_other pcof tid pc j : j <> tid -> rc_updpc pcof tid pc j = pcof j.
Proof. intros H. unfold rc_updpc. destruct (Nat.eqb_spec j tid); [contradiction|reflexivity]. Qed.

(* the generic preservation lemma: thread tid moves from pc to pc', the memory from m to m' *)
Lemma rc_sinv_step m lk pcof tid pc m' lk' pc' :
  rc_sinv m lk pcof -> pcof tid = Some pc ->
  length (c_futs m) <= length (c_futs m') ->
  (forall f, cs_fdone m f <> None -> cs_fdone m' f <> None) ->
  (forall f, f < length (c_futs m) -> cs_fdone m f = None -> rc_own pc <> Some f -> cs_fdone m' f = None) ->
  NoDup (c_queue m') ->
  (forall f, In f (c_queue m') -> In f (c_queue m) \/ (rc_own pc = Some f /\ cs_fdone m' f = None)) ->
  (forall k f, In (k, f) (c_map m') -> f < length (c_futs m')) ->
  (forall f p, cs_fpred m' f = Some p -> p < length (c_futs m')) ->
  rc_lockmove lk tid pc lk' pc' ->
  rc_pcok pc' ->
  (forall f, In f (rc_pcfuts pc') -> f < length (c_futs m')) ->
  (forall f, rc_redone pc' = Some f -> cs_fdone m' f <> None) ->
  (forall f, rc_own pc' = Some f ->
     f < length (c_futs m') /\ ~ In f (c_queue m') /\
     (rc_iswsp pc' = true -> cs_fdone m' f <> None) /\ (rc_iswsp pc' = false -> cs_fdone m' f = None) /\
     (rc_own pc = Some f \/ forall j pj, pcof j = Some pj -> rc_own pj <> Some f)) ->
  rc_sinv m' lk' (rc_updpc pcof tid pc').
Proof.
  intros I Hpc Hlen Hdone Hundone Hnd Hq Hmap Hpred Hlm Hok Hfuts Hre Hown.
  destruct I as [Ilock Iok Ifuts Idone Iown Iuniq Iqnd Iqueue Imap Ipred].
  assert (Hsplit : forall j pj, rc_updpc pcof tid pc' j = Some pj ->
                     (j = tid /\ pj = pc') \/ (j <> tid /\ pcof j = Some pj)).
  { intros j pj H. unfold rc_updpc in H. destruct (Nat.eqb_spec j tid) as [->|Hne].
    - inversion H. left. auto.
    - right. auto. }
  pose proof (Ilock tid pc Hpc) as Ltid.
  constructor.
  - (* lock *)
    intros j pj Hj. destruct (Hsplit j pj Hj) as [[-> ->]|[Hne Hj']].
    + destruct Hlm as [[-> Hh]|[(Hl & -> & Hh1 & Hh2)|(Hh1 & -> & Hh2)]].
      * rewrite Hh. exact Ltid.
      * rewrite Hh2. tauto.
      * rewrite Hh2. split; discriminate.
    + pose proof (Ilock j pj Hj') as Lj.
      destruct Hlm as [[-> Hh]|[(Hl & -> & Hh1 & Hh2)|(Hh1 & -> & Hh2)]].
      * exact Lj.
      * split; [intros H; apply Lj in H; congruence|intros H; inversion H; congruence].
      * split; [|discriminate]. intros H. apply Lj in H. apply Ltid in Hh1. congruence.
  - intros j pj Hj. destruct (Hsplit j pj Hj) as [[-> ->]|[Hne Hj']]; [exact Hok|eapply Iok; eauto].
  - intros j pj f Hj Hf. destruct (Hsplit j pj Hj) as [[-> ->]|[Hne Hj']]; [apply Hfuts; exact Hf|].
    pose proof (Ifuts j pj f Hj' Hf). lia.
  - intros j pj f Hj Hf. destruct (Hsplit j pj Hj) as [[-> ->]|[Hne Hj']]; [apply Hre; exact Hf|].
    apply Hdone. eapply Idone; eauto.
  - intros j pj f Hj Hf. destruct (Hsplit j pj Hj) as [[-> ->]|[Hne Hj']].
    + destruct (Hown f Hf) as (A & B & C & D & _). auto.
    + destruct (Iown j pj f Hj' Hf) as (A & B & C & D).
      assert (Hno : rc_own pc <> Some f).
      { intros E. apply Hne. apply (Iuniq j tid pj pc f); assumption. }
      split; [lia|]. split; [|split].
      * intros Hin. destruct (Hq f Hin) as [H|[H _]]; [exact (B H)|exact (Hno H)].
      * intros H. apply Hdone. apply C. exact H.
      * intros H. apply Hundone; [exact A|apply D; exact H|exact Hno].
  - intros i j pi pj f Hi Hj Hfi Hfj.
    destruct (Hsplit i pi Hi) as [[-> ->]|[Hnei Hi']]; destruct (Hsplit j pj Hj) as [[-> ->]|[Hnej Hj']].
    + reflexivity.
    + exfalso. destruct (Hown f Hfi) as (_ & _ & _ & _ & [E|E]).
      * apply Hnej. apply (Iuniq j tid pj pc f); assumption.
      * exact (E j pj Hj' Hfj).
    + exfalso. destruct (Hown f Hfj) as (_ & _ & _ & _ & [E|E]).
      * apply Hnei. apply (Iuniq i tid pi pc f); assumption.
      * exact (E i pi Hi' Hfi).
    + apply (Iuniq i j pi pj f); assumption.
  - exact Hnd.
  - intros f Hin. destruct (Hq f Hin) as [H|[H1 H2]].
    + destruct (Iqueue f H) as [A B]. split; [lia|]. apply Hundone; [exact A|exact B|].
      intros E. destruct (Iown tid pc f Hpc E) as (_ & C & _). exact (C H).
    + destruct (Iown tid pc f Hpc H1) as (A & _). split; [lia|exact H2].
  - exact Hmap.
  - exact Hpred.
Qed.

(* ------------------------------------------------------------------ memory updates *)
Lemma rc_fdone_new m k p f : cs_fdone (cs_new_entry m k p) f = cs_fdone m f.
Proof.
  unfold cs_fdone, cs_new_entry, cs_with. cbn [c_futs]. rewrite cs_fdone_app. cbn [c_fdone].
  destruct (Nat.ltb f (length (c_futs m))) eqn:E; [reflexivity|]. apply Nat.ltb_ge in E.
  assert (H : c_get (c_futs m) f = None) by (apply nth_error_None; exact E). rewrite H.
  destruct (Nat.eqb f (length (c_futs m))); reflexivity.
Qed.

Lemma rc_fpred_new m k p f :
  cs_fpred (cs_new_entry m k p) f = if f =? length (c_futs m) then p else cs_fpred m f.
Proof.
  unfold cs_fpred, cs_new_entry, cs_with. cbn [c_futs]. rewrite cs_fpred_app. cbn [c_fpred].
  destruct (Nat.ltb f (length (c_futs m))) eqn:E.
  - apply Nat.ltb_lt in E. destruct (Nat.eqb_spec f (length (c_futs m))); [lia|reflexivity].
  - apply Nat.ltb_ge in E. destruct (Nat.eqb f (length (c_futs m))); [reflexivity|].
    assert (H : c_get (c_futs m) f = None) by (apply nth_error_None; exact E). rewrite H. reflexivity.
Qed.

Lemma rc_len_new m k p : length (c_futs (cs_new_entry m k p)) = S (length (c_futs m)).
Proof. unfold cs_new_entry, cs_with. cbn [c_futs]. rewrite app_length. cbn. lia. Qed.

Lemma rc_fdone_set m k v e now f :
  cs_fdone (cs_set_entry m k v e now) f =
  if f =? length (c_futs m) then Some (v, e, now) else cs_fdone m f.
Proof.
  unfold cs_fdone, cs_set_entry, cs_with. cbn [c_futs]. rewrite cs_fdone_app. cbn [c_fdone].
  destruct (Nat.ltb f (length (c_futs m))) eqn:E.
  - apply Nat.ltb_lt in E. destruct (Nat.eqb_spec f (length (c_futs m))); [lia|reflexivity].
  - apply Nat.ltb_ge in E. destruct (Nat.eqb f (length (c_futs m))); [reflexivity|].
    assert (H : c_get (c_futs m) f = None) by (apply nth_error_None; exact E). rewrite H. reflexivity.
Qed.

Lemma rc_fpred_set m k v e now f : cs_fpred (cs_set_entry m k v e now) f = cs_fpred m f.
Proof.
  unfold cs_fpred, cs_set_entry, cs_with. cbn [c_futs]. rewrite cs_fpred_app. cbn [c_fpred].
  destruct (Nat.ltb f (length (c_futs m))) eqn:E; [reflexivity|]. apply Nat.ltb_ge in E.
  assert (H : c_get (c_futs m) f = None) by (apply nth_error_None; exact E). rewrite H.
  destruct (Nat.eqb f (length (c_futs m))); reflexivity.
Qed.

Lemma rc_len_set m k v e now : length (c_futs (cs_set_entry m k v e now)) = S (length (c_futs m)).
Proof. unfold cs_set_entry, cs_with. cbn [c_futs]. rewrite app_length. cbn. lia. Qed.

Lemma rc_fdone_none_ge m f : length (c_futs m) <= f -> cs_fdone m f = None.
Proof. intros H. unfold cs_fdone. assert (E : c_get (c_futs m) f = None) by (apply nth_error_None; exact H). rewrite E. reflexivity. Qed.

Lemma rc_fdone_lt m f : cs_fdone m f <> None -> f < length (c_futs m).
Proof. intros H. destruct (Nat.lt_ge_cases f (length (c_futs m))) as [E|E]; [exact E|]. exfalso. apply H. apply rc_fdone_none_ge. exact E. Qed.

Lemma rc_len_store_done m f r : length (c_futs (cs_store_done m f r)) = length (c_futs m).
Proof.
  unfold cs_store_done. destruct (c_get (c_futs m) f) as [x|] eqn:E; [|reflexivity].
  unfold cs_with. cbn [c_futs]. apply c_setfut_length. eapply c_get_lt; eauto.
Qed.

Lemma rc_fdone_store_done m f r g :
  f < length (c_futs m) ->
  cs_fdone (cs_store_done m f r) g = if g =? f then Some r else cs_fdone m g.
Proof.
  intros Hlt. unfold cs_store_done.
  destruct (c_get (c_futs m) f) as [x|] eqn:E; [|apply nth_error_None in E; lia].
  unfold cs_fdone, cs_with. cbn [c_futs]. rewrite cs_fdone_setfut by exact Hlt. reflexivity.
Qed.

Lemma rc_fpred_store_done m f r g : cs_fpred (cs_store_done m f r) g = cs_fpred m g.
Proof.
  unfold cs_store_done. destruct (c_get (c_futs m) f) as [x|] eqn:E; [|reflexivity].
  assert (Hlt : f < length (c_futs m)) by (eapply c_get_lt; eauto).
  unfold cs_fpred, cs_with. cbn [c_futs]. rewrite cs_fpred_setfut by exact Hlt. cbn [c_fpred].
  destruct (Nat.eqb_spec g f) as [->|]; [rewrite E|]; reflexivity.
Qed.

Lemma rc_len_store_pred m f : length (c_futs (cs_store_pred_nil m f)) = length (c_futs m).
Proof.
  unfold cs_store_pred_nil. destruct (c_get (c_futs m) f) as [x|] eqn:E; [|reflexivity].
  unfold cs_with. cbn [c_futs]. apply c_setfut_length. eapply c_get_lt; eauto.
Qed.

Lemma rc_fdone_store_pred m f g : cs_fdone (cs_store_pred_nil m f) g = cs_fdone m g.
Proof.
  unfold cs_store_pred_nil. destruct (c_get (c_futs m) f) as [x|] eqn:E; [|reflexivity].
  assert (Hlt : f < length (c_futs m)) by (eapply c_get_lt; eauto).
  unfold cs_fdone, cs_with. cbn [c_futs]. rewrite cs_fdone_setfut by exact Hlt. cbn [c_fdone].
  destruct (Nat.eqb_spec g f) as [->|]; [rewrite E|]; reflexivity.
Qed.

Lemma rc_fpred_store_pred m f g p : cs_fpred (cs_store_pred_nil m f) g = Some p -> cs_fpred m g = Some p.
Proof.
  unfold cs_store_pred_nil. destruct (c_get (c_futs m) f) as [x|] eqn:E; [|auto].
  assert (Hlt : f < length (c_futs m)) by (eapply c_get_lt; eauto).
  unfold cs_fpred, cs_with. cbn [c_futs]. rewrite cs_fpred_setfut by exact Hlt. cbn [c_fpred].
  destruct (Nat.eqb_spec g f) as [->|]; [discriminate|auto].
Qed.

Lemma rc_in_update mp k n k' f : In (k', f) (c_update mp k n) -> f = n \/ In (k', f) mp.
Proof.
  unfold c_update. intros [H|H]; [inversion H; left; reflexivity|right].
  induction mp as [|[a g] r IH]; cbn [c_remove] in H; [contradiction|].
  destruct (a =? k)%Z; [right; apply IH; exact H|].
  destruct H as [H|H]; [left; exact H|right; apply IH; exact H].
Qed.

Lemma rc_in_remove mp k k' f : In (k', f) (c_remove mp k) -> In (k', f) mp.
Proof.
  induction mp as [|[a g] r IH]; cbn [c_remove]; [auto|].
  destruct (a =? k)%Z; intros H; [right; apply IH; exact H|].
  destruct H as [H|H]; [left; exact H|right; apply IH; exact H].
Qed.

Lemma rc_nodup_snoc (l : list nat) x : NoDup l -> ~ In x l -> NoDup (l ++ [x]).
Proof.
  induction l as [|a l IH]; intros Hn Hx; cbn; [constructor; [intros []|constructor]|].
  inversion Hn; subst. constructor.
  - rewrite in_app_iff. intros [H|[H|[]]]; [contradiction|]. apply Hx. left. congruence.
  - apply IH; [assumption|]. intros H. apply Hx. right. exact H.
Qed.

Lemma rc_qm_store_done m f r :
  c_queue (cs_store_done m f r) = c_queue m /\ c_map (cs_store_done m f r) = c_map m.
Proof. unfold cs_store_done. destruct (c_get (c_futs m) f); split; reflexivity. Qed.
Lemma rc_qm_store_pred m f :
  c_queue (cs_store_pred_nil m f) = c_queue m /\ c_map (cs_store_pred_nil m f) = c_map m.
Proof. unfold cs_store_pred_nil. destruct (c_get (c_futs m) f); split; reflexivity. Qed.

(* ------------------------------------------------------------------ the steps preserve the invariant *)
Section Step.
Variables (cfg : c_cfg) (m : c_state) (lk : option nat) (pcof : nat -> option cs_pc) (tid : nat).
Hypothesis I : rc_sinv m lk pcof.

(* a step that changes neither the memory nor what the thread owns *)
Lemma rc_sinv_move pc lk' pc' :
  pcof tid = Some pc ->
  rc_lockmove lk tid pc lk' pc' -> rc_pcok pc' ->
  (forall f, In f (rc_pcfuts pc') -> f < length (c_futs m)) ->
  (forall f, rc_redone pc' = Some f -> cs_fdone m f <> None) ->
  (forall f, rc_own pc' = Some f -> rc_own pc = Some f /\ rc_iswsp pc' = rc_iswsp pc) ->
  rc_sinv m lk' (rc_updpc pcof tid pc').
Proof.
  intros Hpc Hlm Hok Hf Hr Ho.
  apply (rc_sinv_step m lk pcof tid pc m lk' pc' I Hpc); auto.
  - apply (rs_qnodup _ _ _ I).
  - apply (rs_map _ _ _ I).
  - apply (rs_pred _ _ _ I).
  - intros f Hown. destruct (Ho f Hown) as [Ho1 Ho2].
    destruct (rs_own _ _ _ I tid pc f Hpc Ho1) as (A & B & C & D). rewrite Ho2. auto 6.
Qed.

Lemma rc_lookup_lt k f : c_lookup (c_map m) k = Some f -> f < length (c_futs m).
Proof. intros H. apply (rs_map _ _ _ I k f). apply c_lookup_in. exact H. Qed.

Ltac lm_keep := left; split; reflexivity.
Ltac lm_unlock Hh := right; right; repeat split; try reflexivity; exact Hh.

(* creation of a new entry by Load (under the lock) *)
Lemma rc_sinv_create pc k p st last :
  pcof tid = Some pc -> rc_holds pc = true -> rc_own pc = None ->
  (forall f, p = Some f -> f < length (c_futs m)) ->
  rc_sinv (cs_new_entry m k p) None (rc_updpc pcof tid (CsLAU st last (Some (length (c_futs m))))).
Proof.
  intros Hpc Hh Hno Hp.
  apply (rc_sinv_step m lk pcof tid pc _ None _ I Hpc).
  - rewrite rc_len_new. lia.
  - intros f. rewrite rc_fdone_new. auto.
  - intros f _. rewrite rc_fdone_new. auto.
  - apply (rs_qnodup _ _ _ I).
  - intros f H. left. exact H.
  - intros k' f H. rewrite rc_len_new. cbn [cs_new_entry cs_with c_map] in H.
    apply rc_in_update in H. destruct H as [->|H]; [lia|]. pose proof (rs_map _ _ _ I k' f H). lia.
  - intros f q. rewrite rc_fpred_new, rc_len_new. destruct (f =? length (c_futs m)).
    + intros ->. specialize (Hp q eq_refl). lia.
    + intros H. pose proof (rs_pred _ _ _ I f q H). lia.
  - lm_unlock Hh.
  - exact Logic.I.
  - intros f [].
  - intros f H. discriminate.
  - intros f H. cbn [rc_own] in H. inversion H; subst f. rewrite rc_len_new, rc_fdone_new.
    split; [lia|]. split; [|split; [|split]].
    + cbn [cs_new_entry cs_with c_queue]. intros Hin. pose proof (rs_queue _ _ _ I _ Hin). lia.
    + discriminate.
    + intros _. apply rc_fdone_none_ge. lia.
    + right. intros j pj Hj E. destruct (rs_own _ _ _ I j pj _ Hj E) as [A _]. lia.
Qed.

Lemma rc_swnext_sinv pc m1 rest :
  pcof tid = Some pc -> rc_holds pc = true -> rc_own pc = None ->
  c_futs m1 = c_futs m -> c_queue m1 = c_queue m ->
  (forall k f, In (k, f) (c_map m1) -> In (k, f) (c_map m)) ->
  (forall f, In f (map snd rest) -> f < length (c_futs m)) ->
  forall m' lk' pc', rc_swnext m1 lk rest = (m', lk', pc') ->
  rc_sinv m' lk' (rc_updpc pcof tid pc').
Proof.
  intros Hpc Hh Hno Hf Hq Hm Hrest m' lk' pc' E.
  assert (Hfd : forall f, cs_fdone m1 f = cs_fdone m f) by (intros f; unfold cs_fdone; rewrite Hf; reflexivity).
  assert (Hfp : forall f, cs_fpred m1 f = cs_fpred m f) by (intros f; unfold cs_fpred; rewrite Hf; reflexivity).
  assert (G : forall lk1 pc1, rc_lockmove lk tid pc lk1 pc1 -> rc_pcok pc1 -> rc_own pc1 = None ->
                (forall f, In f (rc_pcfuts pc1) -> f < length (c_futs m)) -> rc_redone pc1 = None ->
                rc_sinv m1 lk1 (rc_updpc pcof tid pc1)).
  { intros lk1 pc1 Hlm Hok Ho1 Hfu Hre.
    apply (rc_sinv_step m lk pcof tid pc m1 lk1 pc1 I Hpc); try rewrite Hf; try rewrite Hq; auto.
    - intros f. rewrite Hfd. auto.
    - intros f _. rewrite Hfd. auto.
    - apply (rs_qnodup _ _ _ I).
    - intros k f H. apply (rs_map _ _ _ I k f). apply Hm. exact H.
    - intros f p. rewrite Hfp. apply (rs_pred _ _ _ I).
    - intros f H. rewrite Hre in H. discriminate.
    - intros f H. rewrite Ho1 in H. discriminate. }
  destruct rest as [|[k f] r]; cbn [rc_swnext] in E; inversion E; subst.
  - apply G; [lm_unlock Hh|exact Logic.I|reflexivity|intros f []|reflexivity].
  - apply G; [left; split; [reflexivity|rewrite Hh; reflexivity]|exact Logic.I|reflexivity| |reflexivity].
    intros g Hg. apply Hrest. exact Hg.
Qed.


Ltac lm_acquire Hbl := right; left; repeat split; try reflexivity; apply Hbl; reflexivity.
Ltac nofut := let f := fresh "f" in let H := fresh "H" in intros f H; cbn in H; try contradiction; try discriminate.

Theorem rc_sinv_eff pc m' lk' pc' :
  pcof tid = Some pc -> (rc_isbl pc = true -> lk = None) ->
  rc_eff cfg m lk tid pc = (m', lk', pc') ->
  rc_sinv m' lk' (rc_updpc pcof tid pc').
Proof.
  intros Hpc Hbl E.
  pose proof (rs_ok _ _ _ I tid pc Hpc) as Hok.
  pose proof (fun f => rs_futs _ _ _ I tid pc f Hpc) as Hfu.
  pose proof (fun f => rs_done _ _ _ I tid pc f Hpc) as Hdn.
  pose proof (fun f => rs_own _ _ _ I tid pc f Hpc) as Hown.
  destruct pc as [ |k|k|k f|k f past|st last next|st last n|k|k|fo|f|f past|x|w f|w f p|w f p past|w x
                  |k v e|k v e|k v e now|k v e now| |f v e|f v e now|f v e now| | |k f rest|k f past rest| ];
    cbn [rc_eff rc_fetched] in E.
  - (* Idle *) injection E as <- <- <-. apply (rc_sinv_move _ _ _ Hpc); [lm_keep|exact Logic.I|nofut|nofut|nofut].
  - (* LBL *) injection E as <- <- <-. apply (rc_sinv_move _ _ _ Hpc); [lm_acquire Hbl|exact Logic.I|nofut|nofut|nofut].
  - (* LAL *) destruct (c_lookup (c_map m) k) as [f|] eqn:El; injection E as <- <- <-.
    + apply (rc_sinv_move _ _ _ Hpc); [lm_keep|exact Logic.I| |nofut|nofut].
      intros g [<-|[]]. apply (rc_lookup_lt k). exact El.
    + apply (rc_sinv_create (CsLAL k) k None CEmpty None Hpc); [reflexivity|reflexivity|discriminate].
  - (* LLU *) destruct (cs_fdone m f) as [[[v e] u]|] eqn:Ed; injection E as <- <- <-.
    + apply (rc_sinv_move _ _ _ Hpc); [lm_keep|exact Logic.I|exact Hfu| |nofut].
      intros g Hg. cbn in Hg. inversion Hg; subst g. rewrite Ed. discriminate.
    + apply (rc_sinv_move _ _ _ Hpc); [lm_keep|exact Logic.I|exact Hfu|nofut|nofut].
  - (* LRE *) destruct (cs_status_of cfg past (cs_err_of m f)) eqn:Es; injection E as <- <- <-.
    + apply (rc_sinv_create (CsLRE k f past) k None CEmpty (Some f) Hpc); [reflexivity|reflexivity|discriminate].
    + apply (rc_sinv_move _ _ _ Hpc); [lm_keep|exact Logic.I|exact Hfu|nofut|nofut].
    + apply (rc_sinv_create (CsLRE k f past) k (Some f) CExpired (Some f) Hpc); [reflexivity|reflexivity|].
      intros g Hg. inversion Hg; subst g. apply Hfu. left. reflexivity.
    + apply (rc_sinv_create (CsLRE k f past) k None CRotted (Some f) Hpc); [reflexivity|reflexivity|discriminate].
  - (* LAU *) destruct next as [n|]; [|contradiction]. injection E as <- <- <-.
    apply (rc_sinv_move _ _ _ Hpc); [lm_keep|exact Logic.I|nofut|nofut|].
    intros g Hg. cbn in *. auto.
  - (* LSJ *) injection E as <- <- <-.
    destruct (Hown n eq_refl) as (A & B & C & D).
    apply (rc_sinv_step m lk pcof tid _ (cs_enqueue m n) lk CsIdle I Hpc).
    + cbn [cs_enqueue cs_with c_futs]. lia.
    + intros g Hg. exact Hg.
    + intros g _ Hd _. exact Hd.
    + cbn [cs_enqueue cs_with c_queue]. apply rc_nodup_snoc; [apply (rs_qnodup _ _ _ I)|exact B].
    + cbn [cs_enqueue cs_with c_queue rc_own]. intros g Hg. apply in_app_iff in Hg.
      destruct Hg as [Hg|[<-|[]]]; [left; exact Hg|right]. split; [reflexivity|]. apply D. reflexivity.
    + apply (rs_map _ _ _ I).
    + apply (rs_pred _ _ _ I).
    + lm_keep.
    + exact Logic.I.
    + nofut.
    + nofut.
    + nofut.
  - (* GBL *) injection E as <- <- <-. apply (rc_sinv_move _ _ _ Hpc); [lm_acquire Hbl|exact Logic.I|nofut|nofut|nofut].
  - (* GAL *) destruct (c_lookup (c_map m) k) as [f|] eqn:El; injection E as <- <- <-.
    + apply (rc_sinv_move _ _ _ Hpc); [lm_keep|exact Logic.I| |nofut|nofut].
      intros g [<-|[]]. apply (rc_lookup_lt k). exact El.
    + apply (rc_sinv_move _ _ _ Hpc); [lm_unlock (eq_refl true)|exact Logic.I|nofut|nofut|nofut].
  - (* GAU *) destruct fo as [f|]; [contradiction|]. injection E as <- <- <-.
    apply (rc_sinv_move _ _ _ Hpc); [lm_keep|exact Logic.I|nofut|nofut|nofut].
  - (* GLU *) destruct (cs_fdone m f) as [[[v e] u]|] eqn:Ed; injection E as <- <- <-.
    + apply (rc_sinv_move _ _ _ Hpc); [lm_keep|exact Logic.I|exact Hfu| |nofut].
      intros g Hg. cbn in Hg. inversion Hg; subst g. rewrite Ed. discriminate.
    + apply (rc_sinv_move _ _ _ Hpc); [lm_keep|exact Logic.I|exact Hfu|nofut|nofut].
  - (* GRE *) destruct (cs_status_of cfg past (cs_err_of m f)) eqn:Es; injection E as <- <- <-.
    + apply (rc_sinv_move _ _ _ Hpc); [lm_unlock (eq_refl true)|exact Logic.I|nofut|nofut|nofut].
    + apply (rc_sinv_move _ _ _ Hpc); [lm_keep|exact Logic.I|exact Hfu|nofut|nofut].
    + apply (rc_sinv_move _ _ _ Hpc); [lm_unlock (eq_refl true)|exact Logic.I|nofut|nofut|nofut].
    + apply (rc_sinv_move _ _ _ Hpc); [lm_unlock (eq_refl true)|exact Logic.I|nofut|nofut|nofut].
  - (* GFW *) destruct (cs_fdone m x) as [r|]; injection E as <- <- <-;
      (apply (rc_sinv_move _ _ _ Hpc); [lm_keep|exact Logic.I|nofut|nofut|nofut]).
  - (* RLP *) destruct (cs_fpred m f) as [p|] eqn:Ep; injection E as <- <- <-.
    + apply (rc_sinv_move _ _ _ Hpc); [lm_keep|exact Logic.I| |nofut|nofut].
      intros g [<-|[<-|[]]]; [apply Hfu; left; reflexivity|apply (rs_pred _ _ _ I f p Ep)].
    + apply (rc_sinv_move _ _ _ Hpc); [lm_unlock (eq_refl true)|exact Logic.I|nofut|nofut|nofut].
  - (* RPU *) destruct (cs_fdone m p) as [[[v e] u]|] eqn:Ed; injection E as <- <- <-.
    + apply (rc_sinv_move _ _ _ Hpc); [lm_keep|exact Logic.I|exact Hfu| |nofut].
      intros g Hg. cbn in Hg. inversion Hg; subst g. rewrite Ed. discriminate.
    + apply (rc_sinv_move _ _ _ Hpc); [lm_unlock (eq_refl true)|exact Logic.I|nofut|nofut|nofut].
  - (* RPE *) destruct (cs_status_of cfg past (cs_err_of m p)) eqn:Es; injection E as <- <- <-;
      (apply (rc_sinv_move _ _ _ Hpc); [lm_unlock (eq_refl true)|exact Logic.I|nofut|nofut|nofut]).
  - (* XAU *) destruct w; injection E as <- <- <-;
      (apply (rc_sinv_move _ _ _ Hpc); [lm_keep|exact Logic.I|nofut|nofut|nofut]).
  - (* SBL *) injection E as <- <- <-. apply (rc_sinv_move _ _ _ Hpc); [lm_acquire Hbl|exact Logic.I|nofut|nofut|nofut].
  - (* SAL *) injection E as <- <- <-. apply (rc_sinv_move _ _ _ Hpc); [lm_keep|exact Logic.I|nofut|nofut|nofut].
  - (* SSU *) injection E as <- <- <-. apply (rc_sinv_move _ _ _ Hpc); [lm_keep|exact Logic.I|nofut|nofut|nofut].
  - (* SSP *) injection E as <- <- <-.
    apply (rc_sinv_step m lk pcof tid _ (cs_set_entry m k v e now) None CsSAU I Hpc).
    + rewrite rc_len_set. lia.
    + intros g. rewrite rc_fdone_set. destruct (g =? length (c_futs m)); [discriminate|auto].
    + intros g Hg Hd _. rewrite rc_fdone_set. destruct (Nat.eqb_spec g (length (c_futs m))); [lia|exact Hd].
    + apply (rs_qnodup _ _ _ I).
    + intros g Hg. left. exact Hg.
    + intros k' g H. rewrite rc_len_set. cbn [cs_set_entry cs_with c_map] in H.
      apply rc_in_update in H. destruct H as [->|H]; [lia|]. pose proof (rs_map _ _ _ I k' g H). lia.
    + intros g q. rewrite rc_fpred_set, rc_len_set. intros H. pose proof (rs_pred _ _ _ I g q H). lia.
    + lm_unlock (eq_refl true).
    + exact Logic.I.
    + nofut.
    + nofut.
    + nofut.
  - (* SAU *) injection E as <- <- <-. apply (rc_sinv_move _ _ _ Hpc); [lm_keep|exact Logic.I|nofut|nofut|nofut].
  - (* WLD *) injection E as <- <- <-. apply (rc_sinv_move _ _ _ Hpc); [lm_keep|exact Logic.I|nofut|nofut|].
    intros g Hg. cbn in *. auto.
  - (* WSU *) injection E as <- <- <-.
    destruct (Hown f eq_refl) as (A & B & C & D).
    destruct (rc_qm_store_done m f (v, e, now)) as [Eq Em].
    apply (rc_sinv_step m lk pcof tid _ (cs_store_done m f (v, e, now)) lk (CsWSP f v e now) I Hpc).
    + rewrite rc_len_store_done. lia.
    + intros g. rewrite rc_fdone_store_done by exact A. destruct (g =? f); [discriminate|auto].
    + intros g Hg Hd Hno. rewrite rc_fdone_store_done by exact A.
      destruct (Nat.eqb_spec g f) as [->|]; [exfalso; apply Hno; reflexivity|exact Hd].
    + rewrite Eq. apply (rs_qnodup _ _ _ I).
    + rewrite Eq. intros g Hg. left. exact Hg.
    + rewrite Em, rc_len_store_done. apply (rs_map _ _ _ I).
    + intros g q. rewrite rc_fpred_store_done, rc_len_store_done. apply (rs_pred _ _ _ I).
    + lm_keep.
    + exact Logic.I.
    + nofut.
    + nofut.
    + intros g Hg. cbn in Hg. inversion Hg; subst g. rewrite rc_len_store_done, Eq.
      split; [exact A|]. split; [exact B|]. split; [|split].
      * intros _. rewrite rc_fdone_store_done by exact A. rewrite Nat.eqb_refl. discriminate.
      * discriminate.
      * left. reflexivity.
  - (* WSP *) injection E as <- <- <-.
    destruct (rc_qm_store_pred m f) as [Eq Em].
    apply (rc_sinv_step m lk pcof tid _ (cs_store_pred_nil m f) lk CsIdle I Hpc).
    + rewrite rc_len_store_pred. lia.
    + intros g. rewrite rc_fdone_store_pred. auto.
    + intros g _ Hd _. rewrite rc_fdone_store_pred. exact Hd.
    + rewrite Eq. apply (rs_qnodup _ _ _ I).
    + rewrite Eq. intros g Hg. left. exact Hg.
    + rewrite Em, rc_len_store_pred. apply (rs_map _ _ _ I).
    + intros g q H. rewrite rc_len_store_pred. apply rc_fpred_store_pred in H. apply (rs_pred _ _ _ I g q H).
    + lm_keep.
    + exact Logic.I.
    + nofut.
    + nofut.
    + nofut.
  - (* ZBL *) injection E as <- <- <-. apply (rc_sinv_move _ _ _ Hpc); [lm_acquire Hbl|exact Logic.I|nofut|nofut|nofut].
  - (* ZAL *) apply (rc_swnext_sinv CsZAL m (c_map m) Hpc); auto.
    intros g Hg. apply in_map_iff in Hg. destruct Hg as [[k0 g0] [<- Hg]]. apply (rs_map _ _ _ I k0 g0 Hg).
  - (* ZLU *) destruct (cs_fdone m f) as [[[v e] u]|] eqn:Ed.
    + injection E as <- <- <-. apply (rc_sinv_move _ _ _ Hpc); [lm_keep|exact Logic.I|exact Hfu| |nofut].
      intros g Hg. cbn in Hg. inversion Hg; subst g. rewrite Ed. discriminate.
    + apply (rc_swnext_sinv (CsZLU k f rest) m rest Hpc); auto.
      intros g Hg. apply Hfu. right. exact Hg.
  - (* ZRE *) apply (rc_swnext_sinv (CsZRE k f past rest) _ rest Hpc) in E; auto.
    + destruct (cs_status_of cfg past (cs_err_of m f)); reflexivity.
    + destruct (cs_status_of cfg past (cs_err_of m f)); reflexivity.
    + intros k0 g. destruct (cs_status_of cfg past (cs_err_of m f)); auto.
      cbn [rc_unmap cs_with c_map]. apply rc_in_remove.
    + intros g Hg. apply Hfu. right. exact Hg.
  - (* ZAU *) injection E as <- <- <-. apply (rc_sinv_move _ _ _ Hpc); [lm_keep|exact Logic.I|nofut|nofut|nofut].
Qed.

(* the first step of a call, from an idle thread *)
Theorem rc_sinv_start op m' lk' pc' :
  pcof tid = Some CsIdle ->
  rc_eff_start m lk op = (m', lk', pc') ->
  rc_sinv m' lk' (rc_updpc pcof tid pc').
Proof.
  intros Hpc E. destruct op as [k|k|k v e|v e| ]; cbn [rc_eff_start] in E.
  - injection E as <- <- <-. apply (rc_sinv_move _ _ _ Hpc); [lm_keep|exact Logic.I|nofut|nofut|nofut].
  - injection E as <- <- <-. apply (rc_sinv_move _ _ _ Hpc); [lm_keep|exact Logic.I|nofut|nofut|nofut].
  - injection E as <- <- <-. apply (rc_sinv_move _ _ _ Hpc); [lm_keep|exact Logic.I|nofut|nofut|nofut].
  - destruct (c_queue m) as [|f q] eqn:Eq; injection E as <- <- <-.
    + apply (rc_sinv_move _ _ _ Hpc); [lm_keep|exact Logic.I|nofut|nofut|nofut].
    + pose proof (rs_qnodup _ _ _ I) as Hnd. rewrite Eq in Hnd. inversion Hnd as [|? ? Hnotin Hnd']; subst.
      destruct (rs_queue _ _ _ I f) as [A B]; [rewrite Eq; left; reflexivity|].
      apply (rc_sinv_step m lk pcof tid _ (rc_dequeue m f q) lk (CsWLD f v e) I Hpc).
      * cbn [rc_dequeue cs_with c_futs]. lia.
      * intros g Hg. exact Hg.
      * intros g _ Hd _. exact Hd.
      * exact Hnd'.
      * cbn [rc_dequeue cs_with c_queue]. intros g Hg. left. rewrite Eq. right. exact Hg.
      * apply (rs_map _ _ _ I).
      * apply (rs_pred _ _ _ I).
      * lm_keep.
      * exact Logic.I.
      * nofut.
      * nofut.
      * intros g Hg. cbn in Hg. inversion Hg; subst g. split; [exact A|]. split; [exact Hnotin|].
        split; [discriminate|]. split; [intros _; exact B|].
        right. intros j pj Hj Ho. destruct (rs_own _ _ _ I j pj f Hj Ho) as (_ & C & _).
        apply C. rewrite Eq. left. reflexivity.
  - injection E as <- <- <-. apply (rc_sinv_move _ _ _ Hpc); [lm_keep|exact Logic.I|nofut|nofut|nofut].
Qed.

End Step.
