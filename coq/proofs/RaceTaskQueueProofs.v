(* RaceTaskQueueProofs.v -- every labelled run of the taskx.Queue model (models/RaceTaskQueue.v) is
   free of happens-before races:
     rtq_race_free : ~ hb_race (rtq_trace cap progs gs)
   for every capacity, every number of producers and programs over SendCallback / SendTask (nil
   handlers and tasks included), one consumer, close at any time, any number of Get2 waiters on any
   handles, every schedule.  Method: monitor invariant [rtq_inv] (where the last write of each task's
   fields is known: by the parked sender, by the channel message, by the consumer, by the WaitGroup)
   over the structural invariants of TaskQueueProofs.v, then hbp_agree.
     rtq_trace_projects : the labelled trace is the model's event trace mapped through rtq_events
     rtq_early_refuted  : the seeded shape "isHandled set early + Get2 fast path" races *)
From Coq Require Import Relations.
From Got Require Import Base ListAux Race RaceProofs RaceHB RaceHBProofs RaceMonLemmas RaceCacheMon.
From Got Require Import TaskQueue TaskQueueProofs RaceTaskQueue RaceTaskQueueStruct.
Local Open Scope nat_scope.

Lemma rtq_X_disj id id0 x : id <> id0 -> In x (rtq_X id) -> ~ In x (rtq_X id0).
Proof. intros Hne H1 H2. apply Hne. apply (rtq_X_inj x); assumption. Qed.

Lemma rtq_res_in id : In (rtq_res id) (rtq_X id).
Proof. cbn. auto. Qed.
Lemma rtq_err_in id : In (rtq_err id) (rtq_X id).
Proof. cbn. auto. Qed.
Lemma rtq_hnd_in id : In (rtq_hnd id) (rtq_X id).
Proof. cbn. auto. Qed.

Ltac rtq_in :=
  repeat (apply Forall_cons; [first [exact I | exact (rtq_res_in _) | exact (rtq_err_in _) | exact (rtq_hnd_in _)]|]);
  apply Forall_nil.

Lemma rtq_alloc_in t : rtq_evs_in (fun y => In y (rtq_X (tq_id t))) (rtq_alloc t).
Proof. unfold rtq_alloc, rtq_evs_in. destruct (tq_kind_of t); rtq_in. Qed.
Lemma rtq_store_in t : rtq_evs_in (fun y => In y (rtq_X (tq_id t))) (rtq_store false t).
Proof. unfold rtq_store, rtq_evs_in. destruct (tq_kind_of t); cbn [app]; rtq_in. Qed.
Lemma rtq_done_in t : rtq_evs_in (fun y => In y (rtq_X (tq_id t))) (rtq_done false t).
Proof. unfold rtq_done, rtq_evs_in. destruct (tq_kind_of t); cbn [app]; rtq_in. Qed.
Lemma rtq_get2_in id : rtq_evs_in (fun y => In y (rtq_X id)) (rtq_get2 id).
Proof. unfold rtq_get2, rtq_evs_in. rtq_in. Qed.

Lemma rtq_close_sync np woken : Forall (fun p => rm_sync (snd p)) (rtq_base_events false np (TqEClose woken)).
Proof.
  cbn [rtq_base_events rtq_ret]. constructor; [exact I|].
  induction woken as [|it l IH]; cbn [flat_map map app]; [constructor|constructor; [exact I|exact IH]].
Qed.

Section Inv.
Variables (N np : nat) (progs : list (list tq_op)).

Definition rtq_Z (m : rc_mon) (x : nat) : Prop := forall u, rc_R m x u = 0.

Record rtq_inv (s : tq_state) (m : rc_mon) : Prop := {
  qi_nr : rc_raced m = false;
  qi_s : rtq_sinv progs s;
  qi_fresh : forall i j p x, nth_error (tq_prods s) i = Some p -> tq_next p <= j -> In x (rtq_X (i, j)) ->
      rc_Wc m x = 0 /\ rtq_Z m x;
  qi_blk : forall i t x, In (i, t) (tq_sendq s) -> In x (rtq_X (tq_id t)) -> rm_K m i x /\ rtq_Z m x;
  qi_buf : forall t x, In t (tq_buf s) -> In x (rtq_X (tq_id t)) -> rm_P m (rtq_msg (tq_id t)) x /\ rtq_Z m x;
  qi_cur : forall t x, tq_cons_task s = Some t -> In x (rtq_X (tq_id t)) -> rm_K m np x /\ rtq_Z m x;
  qi_done : forall cb, In cb (tq_cbs s) -> tq_handled cb = true ->
      rm_P m (rtq_wg (tq_cb_id cb)) (rtq_res (tq_cb_id cb)) /\ rm_P m (rtq_wg (tq_cb_id cb)) (rtq_err (tq_cb_id cb))
}.

(* the frame: what a step does not touch is kept; what it creates is proved by the caller *)
Lemma rtq_inv_frame (S : nat -> Prop) s m s' tr :
  rtq_inv s m -> rtq_sinv progs s' -> rtq_plain_in S tr -> rc_raced (rtq_run N m tr) = false ->
  (forall i j p x, nth_error (tq_prods s') i = Some p -> tq_next p <= j -> In x (rtq_X (i, j)) ->
     ~ S x /\ exists p0, nth_error (tq_prods s) i = Some p0 /\ tq_next p0 <= j) ->
  (forall i t, In (i, t) (tq_sendq s') ->
     (In (i, t) (tq_sendq s) /\ forall x, In x (rtq_X (tq_id t)) -> ~ S x) \/
     (forall x, In x (rtq_X (tq_id t)) -> rm_K (rtq_run N m tr) i x /\ rtq_Z (rtq_run N m tr) x)) ->
  (forall t, In t (tq_buf s') ->
     (In t (tq_buf s) /\ forall x, In x (rtq_X (tq_id t)) -> ~ S x) \/
     (forall x, In x (rtq_X (tq_id t)) -> rm_P (rtq_run N m tr) (rtq_msg (tq_id t)) x /\ rtq_Z (rtq_run N m tr) x)) ->
  (forall t, tq_cons_task s' = Some t ->
     (tq_cons_task s = Some t /\ forall x, In x (rtq_X (tq_id t)) -> ~ S x) \/
     (forall x, In x (rtq_X (tq_id t)) -> rm_K (rtq_run N m tr) np x /\ rtq_Z (rtq_run N m tr) x)) ->
  (forall cb, In cb (tq_cbs s') -> tq_handled cb = true ->
     (exists cb0, In cb0 (tq_cbs s) /\ tq_handled cb0 = true /\ tq_cb_id cb0 = tq_cb_id cb /\
                  ((~ S (rtq_res (tq_cb_id cb)) /\ ~ S (rtq_err (tq_cb_id cb))) \/ rtq_no_write tr)) \/
     (rm_P (rtq_run N m tr) (rtq_wg (tq_cb_id cb)) (rtq_res (tq_cb_id cb)) /\
      rm_P (rtq_run N m tr) (rtq_wg (tq_cb_id cb)) (rtq_err (tq_cb_id cb)))) ->
  rtq_inv s' (rtq_run N m tr).
Proof.
  intros [A1 A2 A3 A4 A5 A6 A7] Hs' Hpl Hnr Hfresh Hblk Hbuf Hcur Hdone.
  assert (HZ : forall x, ~ S x -> rtq_Z m x -> rtq_Z (rtq_run N m tr) x).
  { intros x Hx Hz u. rewrite (rtq_run_R N tr m x u S Hpl Hx). apply Hz. }
  constructor.
  - exact Hnr.
  - exact Hs'.
  - intros i j p x Hp Hle Hx. destruct (Hfresh i j p x Hp Hle Hx) as (Hnx & p0 & Hp0 & Hle0).
    destruct (A3 i j p0 x Hp0 Hle0 Hx) as [B1 B2]. split; [|apply HZ; assumption].
    rewrite (rtq_run_Wc N tr m x S Hpl Hnx). exact B1.
  - intros i t x Hin Hx. destruct (Hblk i t Hin) as [(Hold & Hnx)|Hnew]; [|apply Hnew; exact Hx].
    destruct (A4 i t x Hold Hx) as [B1 B2]. split; [|apply HZ; auto].
    apply (rtq_run_K N tr m i x S Hpl); auto.
  - intros t x Hin Hx. destruct (Hbuf t Hin) as [(Hold & Hnx)|Hnew]; [|apply Hnew; exact Hx].
    destruct (A5 t x Hold Hx) as [B1 B2]. split; [|apply HZ; auto].
    apply (rtq_run_P N tr m _ x S Hpl); auto.
  - intros t x Hin Hx. destruct (Hcur t Hin) as [(Hold & Hnx)|Hnew]; [|apply Hnew; exact Hx].
    destruct (A6 t x Hold Hx) as [B1 B2]. split; [|apply HZ; auto].
    apply (rtq_run_K N tr m np x S Hpl); auto.
  - intros cb Hin Hh. destruct (Hdone cb Hin Hh) as [(cb0 & Hin0 & Hh0 & Hid & Hk)|Hnew]; [|exact Hnew].
    destruct (A7 cb0 Hin0 Hh0) as [B1 B2]. rewrite Hid in B1, B2.
    destruct Hk as [[K1 K2]|K].
    + split; apply (rtq_run_P N tr m _ _ S Hpl); assumption.
    + split; apply rtq_run_P_nw; assumption.
Qed.

(* a step of another kind of thread that touches no plain location and changes only these parts *)
Lemma rtq_no_plain (tr : hb_trace) :
  Forall (fun p => rm_sync (snd p)) tr -> rtq_plain_in (fun _ => False) tr /\ rtq_no_write tr.
Proof.
  intros H. split; apply Forall_forall; intros p Hp; rewrite Forall_forall in H; specialize (H p Hp);
    destruct (snd p); try exact I; contradiction.
Qed.

Lemma rtq_run_sync_raced tr : forall m, Forall (fun p => rm_sync (snd p)) tr -> rc_raced (rtq_run N m tr) = rc_raced m.
Proof.
  induction tr as [|p r IH]; intros m H; [reflexivity|]. inversion H; subst.
  rewrite rtq_run_cons, IH by assumption. apply rm_sync_raced. assumption.
Qed.

(* ------------------------------------------------------------------ a producer's call *)
Lemma rtq_prod_inv s m i c s' e :
  tq_step s (TqProd i c) = (s', e) -> e <> TqENone -> rtq_inv s m ->
  rtq_inv s' (rtq_run N m (rtq_base_events false np e)).
Proof.
  intros H Hne Inv. pose proof (qi_s _ _ Inv) as Hs. pose proof (rtq_sinv_step _ _ _ _ _ H Hs) as Hs'.
  destruct (tq_step_call _ _ _ _ _ H Hne) as (p & op & rest & Ep & Eidle & Eprog & Hcl & Hcons & Hm).
  pose proof (tq_step_buf _ _ _ _ H) as Hbuf.
  assert (Hi : i < length (tq_prods s)) by (apply nth_error_Some; congruence).
  assert (Hct : tq_cons_task s' = tq_cons_task s) by (unfold tq_cons_task; rewrite Hcons; reflexivity).
  assert (Hfresh_gen : forall pc hs, tq_prods s' = tq_set_prod (tq_prods s) i (tq_ret_prod p rest pc hs) ->
            forall i' j p', nth_error (tq_prods s') i' = Some p' -> tq_next p' <= j ->
            (i', j) <> (i, tq_next p) /\ exists p0, nth_error (tq_prods s) i' = Some p0 /\ tq_next p0 <= j).
  { intros pc hs Hp i' j p' Hp' Hle. rewrite Hp, tq_set_prod_nth in Hp' by exact Hi.
    destruct (Nat.eqb_spec i' i) as [->|Hne'].
    - inversion Hp'; subst p'. cbn [tq_ret_prod tq_next] in Hle. split; [intros E; inversion E; lia|].
      exists p. split; [exact Ep|lia].
    - split; [intros E; inversion E; contradiction|]. exists p'. auto. }
  destruct (tq_op_task i (tq_next p) op) as [t|] eqn:Et.
  - destruct Hm as (Hcbs & Hbr). pose proof (tq_op_task_id _ _ _ _ Et) as Hid.
    assert (Hprods : exists pc hs, tq_prods s' = tq_set_prod (tq_prods s) i (tq_ret_prod p rest pc hs)).
    { destruct Hbr as [(_ & _ & Hp)|[(_ & _ & _ & Hp)|(_ & _ & _ & Hp)]]; eauto. }
    destruct Hprods as (pc & hs & Hprods).
    assert (Hfr : forall x, In x (rtq_X (tq_id t)) -> rc_Wc m x = 0 /\ rtq_Z m x).
    { intros x Hx. rewrite Hid in Hx. apply (qi_fresh _ _ Inv i (tq_next p) p x Ep (le_n _) Hx). }
    assert (Hna : forall id x, rtq_allocd s id -> In x (rtq_X id) -> ~ In x (rtq_X (tq_id t))).
    { intros id x Ha. apply rtq_X_disj. rewrite Hid. apply (rtq_allocd_not_fresh s id i (tq_next p) p Ha Ep). lia. }
    assert (Hev : exists tail, Forall rm_sync tail /\ rtq_base_events false np e = map (pair i) (rtq_alloc t ++ tail) /\
                   (e = TqESent i t -> tail = [RRel (rtq_msg (tq_id t))])).
    { destruct Hbr as [(-> & _)|[(-> & _)|(-> & _)]]; cbn [rtq_base_events rtq_ret].
      - exists [RRel (rtq_msg (tq_id t))]. split; [repeat constructor|]. split; [reflexivity|auto].
      - exists [RAcq rtq_cl]. split; [repeat constructor|]. split; [reflexivity|]. intros Hx; discriminate Hx.
      - exists []. split; [constructor|]. split; [rewrite app_nil_r; reflexivity|]. intros Hx; discriminate Hx. }
    destruct Hev as (tail & Htail & Hev & Hsent). rewrite Hev.
    assert (Hnoread : forall x, ~ In (RRead x) (rtq_alloc t ++ tail)).
    { intros x Hx. apply in_app_or in Hx. destruct Hx as [Hx|Hx].
      - unfold rtq_alloc in Hx. destruct (tq_kind_of t); cbn in Hx; intuition discriminate.
      - rewrite Forall_forall in Htail. apply (Htail _ Hx). }
    assert (HK : forall x, In x (rtq_X (tq_id t)) ->
              rm_K (rtq_run N m (map (pair i) (rtq_alloc t ++ tail))) i x /\
              rtq_Z (rtq_run N m (map (pair i) (rtq_alloc t ++ tail))) x).
    { intros x Hx. rewrite rtq_run_map. destruct (Hfr x Hx) as [B1 B2]. split.
      - apply rm_msteps_K_own. apply rm_K_fresh. exact B1.
      - intros u. rewrite rm_msteps_R_keep by apply Hnoread. apply B2. }
    apply (rtq_inv_frame (fun y => In y (rtq_X (tq_id t))) s m s').
    + exact Inv.
    + exact Hs'.
    + apply rtq_plain_in_map. unfold rtq_evs_in. apply Forall_app. split; [apply rtq_alloc_in|apply rtq_sync_evs_in; exact Htail].
    + rewrite rtq_run_map, rm_msteps_app, rtq_sync_raced by exact Htail.
      apply rm_obl_ok; [apply (qi_nr _ _ Inv)|].
      unfold rtq_alloc. destruct (tq_kind_of t); cbn [rm_obl]; [|exact I].
      repeat split; try (left; apply rm_K_fresh; apply Hfr; cbn; auto);
        apply rm_KR_fresh; apply Hfr; cbn; auto.
    + intros i' j p' x Hp' Hle Hx. destruct (Hfresh_gen pc hs Hprods i' j p' Hp' Hle) as [Hne' Hex].
      split; [|exact Hex]. apply (rtq_X_disj (i', j)); [rewrite Hid; exact Hne'|exact Hx].
    + intros i0 t0 Hin.
      assert (Hor : In (i0, t0) (tq_sendq s) \/ (i0, t0) = (i, t)).
      { destruct Hbr as [(_ & Hq & _)|[(_ & _ & Hq & _)|(_ & _ & Hq & _)]]; rewrite Hq in Hin; auto.
        apply in_app_or in Hin. destruct Hin as [Hin|[Hin|[]]]; auto. }
      destruct Hor as [Hold|Hnew].
      * left. split; [exact Hold|]. intros x. apply Hna. apply (rtq_sendq_allocd progs s i0 t0 Hs Hold).
      * right. inversion Hnew; subst. exact HK.
    + intros t0 Hin.
      assert (Hor : In t0 (tq_buf s) \/ (t0 = t /\ e = TqESent i t)).
      { destruct Hbr as [(-> & _)|[(-> & _)|(-> & _)]]; cbn [tq_rcv_of tq_ent_of] in Hbuf; rewrite Hbuf in Hin;
          apply in_app_or in Hin; destruct Hin as [Hin|Hin]; auto; try (cbn in Hin; contradiction);
          destruct Hin as [<-|[]]; auto. }
      destruct Hor as [Hold|[-> He]].
      * left. split; [exact Hold|]. intros x. apply Hna.
        apply (rtq_entered_allocd progs s t0 Hs). apply (rtq_buf_entered progs s t0 Hs Hold).
      * right. intros x Hx. split; [|apply HK; exact Hx].
        rewrite rtq_run_map, (Hsent He).
        apply (rm_rel_post N m i (rtq_alloc t) (rtq_msg (tq_id t)) [] x); [|intros []].
        left. apply rm_K_fresh. apply Hfr. exact Hx.
    + intros t0 Ht0. left. rewrite Hct in Ht0. split; [exact Ht0|]. intros x. apply Hna.
      apply (rtq_entered_allocd progs s t0 Hs). apply (rtq_received_entered progs s t0 Hs).
      apply (rtq_cur_received progs s t0 Hs Ht0).
    + intros cb Hin Hh. left. rewrite Hcbs in Hin. apply in_app_or in Hin. destruct Hin as [Hin|Hin].
      * exists cb. split; [exact Hin|]. split; [exact Hh|]. split; [reflexivity|]. left.
        destruct (rtq_handled_received progs s cb Hs Hin Hh) as (t0 & Hr & Hid0 & _).
        assert (Ha : rtq_allocd s (tq_cb_id cb)).
        { rewrite <- Hid0. apply (rtq_entered_allocd progs s t0 Hs). apply (rtq_received_entered progs s t0 Hs Hr). }
        split; apply (Hna (tq_cb_id cb)); try exact Ha; [apply rtq_res_in|apply rtq_err_in].
      * exfalso. unfold tq_new_cbs in Hin. destruct (tq_kind_of t); [|contradiction].
        destruct Hin as [<-|[]]. discriminate Hh.
  - (* SendCallback(nil) / SendTask(nil): no event *)
    destruct Hm as (Hq & Hcbs & Hbr).
    assert (He : rtq_base_events false np e = [] /\ tq_ent_of e = [] /\ tq_rcv_of e = [] /\
                 exists pc hs, tq_prods s' = tq_set_prod (tq_prods s) i (tq_ret_prod p rest pc hs)).
    { destruct Hbr as [(-> & Hp)|(-> & Hp)]; repeat split; eauto. }
    destruct He as (-> & He1 & He2 & pc & hs & Hprods). rewrite He1, He2, app_nil_r in Hbuf.
    apply (rtq_inv_frame (fun _ => False) s m s' []).
    + exact Inv.
    + exact Hs'.
    + constructor.
    + apply (qi_nr _ _ Inv).
    + intros i' j p' x Hp' Hle Hx. split; [tauto|]. apply (Hfresh_gen pc hs Hprods i' j p' Hp' Hle).
    + intros i0 t0 Hin. left. rewrite Hq in Hin. auto.
    + intros t0 Hin. left. rewrite Hbuf in Hin. auto.
    + intros t0 Ht0. left. rewrite Hct in Ht0. auto.
    + intros cb Hin Hh. left. rewrite Hcbs in Hin. exists cb. repeat split; auto.
Qed.

(* ------------------------------------------------------------------ a receive *)
Lemma rtq_unblock_next ps it i p' :
  nth_error (tq_unblock ps it) i = Some p' -> exists p0, nth_error ps i = Some p0 /\ tq_next p0 = tq_next p'.
Proof.
  unfold tq_unblock. destruct (nth_error ps (fst it)) as [p|] eqn:Ep; [|eauto].
  assert (Hi : fst it < length ps) by (apply nth_error_Some; congruence).
  rewrite tq_set_prod_nth by exact Hi. destruct (Nat.eqb_spec i (fst it)) as [->|Hne]; [|eauto].
  intros Hx. inversion Hx; subst. exists p. auto.
Qed.

Lemma rtq_recv_inv s m k s' e :
  tq_step s (TqRecv k) = (s', e) -> e <> TqENone -> rtq_inv s m ->
  rtq_inv s' (rtq_run N m (rtq_base_events false np e)).
Proof.
  intros H Hne Inv. pose proof (qi_s _ _ Inv) as Hs. pose proof (rtq_sinv_step _ _ _ _ _ H Hs) as Hs'.
  destruct (tq_step_recv _ _ _ _ H Hne) as (t & adm & -> & Hc & Hc' & Hcl & Hcbs & Hadm).
  pose proof (tq_step_buf _ _ _ _ H) as Hbuf. cbn [tq_rcv_of] in Hbuf. destruct Hbuf as (rest & Hb & Hb').
  assert (Htb : In t (tq_buf s)) by (rewrite Hb; left; reflexivity).
  set (tr := rtq_base_events false np (TqERecv t adm)).
  assert (Hsync : Forall (fun p => rm_sync (snd p)) tr).
  { unfold tr. cbn [rtq_base_events rtq_ret]. destruct adm as [it|]; repeat constructor. }
  destruct (rtq_no_plain tr Hsync) as [Hpl Hnw].
  (* knowledge of the received task *)
  assert (HKt : forall x, In x (rtq_X (tq_id t)) -> rm_K (rtq_run N m tr) np x /\ rtq_Z (rtq_run N m tr) x).
  { intros x Hx. destruct (qi_buf _ _ Inv t x Htb Hx) as [B1 B2]. split.
    - unfold tr. cbn [rtq_base_events]. rewrite rtq_run_cons. cbn [fst snd rtq_cons].
      apply (rtq_run_K N _ _ np x (fun _ => False)); [|tauto|].
      + destruct adm; [apply rtq_plain_in_map; repeat constructor|constructor].
      + apply (rm_acq_K N m np (RAcq (rtq_msg (tq_id t))) (rtq_msg (tq_id t))); [reflexivity|exact B1].
    - intros u. rewrite (rtq_run_R N tr m x u (fun _ => False) Hpl); [apply B2|tauto]. }
  apply (rtq_inv_frame (fun _ => False) s m s'); try assumption.
  - rewrite rtq_run_sync_raced by exact Hsync. apply (qi_nr _ _ Inv).
  - intros i j p' x Hp' Hle Hx. split; [tauto|]. destruct adm as [it|].
    + destruct Hadm as (k' & _ & _ & Hp). rewrite Hp in Hp'.
      destruct (rtq_unblock_next _ _ _ _ Hp') as (p0 & Hp0 & Hn). exists p0. split; [exact Hp0|lia].
    + destruct Hadm as (_ & _ & Hp). rewrite Hp in Hp'. eauto.
  - intros i0 t0 Hin. left. split; [|tauto]. destruct adm as [it|].
    + destruct Hadm as (k' & _ & Hq & _). rewrite Hq in Hin. apply tq_remove_nth_in in Hin. exact Hin.
    + destruct Hadm as (_ & Hq & _). rewrite Hq in Hin. contradiction.
  - intros t0 Hin. rewrite Hb' in Hin. apply in_app_or in Hin. destruct Hin as [Hin|Hin].
    + left. split; [rewrite Hb; right; exact Hin|tauto].
    + destruct adm as [[i1 t1]|]; cbn [tq_ent_of snd] in Hin; [|contradiction]. destruct Hin as [<-|[]].
      right. destruct Hadm as (k' & Hk' & _). apply nth_error_In in Hk'.
      intros x Hx. destruct (qi_blk _ _ Inv i1 t1 x Hk' Hx) as [B1 B2]. split.
      * unfold tr. cbn [rtq_base_events rtq_ret fst snd map]. rewrite !rtq_run_cons. cbn [fst snd rtq_run fold_left].
        apply (rm_rel_P N _ i1 (RRel (rtq_msg (tq_id t1))) (rtq_msg (tq_id t1))); [reflexivity|].
        apply rm_K_step_keep; [discriminate|exact B1].
      * intros u. rewrite (rtq_run_R N tr m x u (fun _ => False) Hpl); [apply B2|tauto].
  - intros t0 Ht0. right. unfold tq_cons_task in Ht0. rewrite Hc' in Ht0. inversion Ht0; subst t0. exact HKt.
  - intros cb Hin Hh. left. rewrite Hcbs in Hin. exists cb. repeat split; auto.
Qed.

(* ------------------------------------------------------------------ Do: the handler's pair is stored *)
Lemma rtq_store_inv s m s' e :
  tq_step s TqStore = (s', e) -> e <> TqENone -> rtq_inv s m ->
  rtq_inv s' (rtq_run N m (rtq_base_events false np e)).
Proof.
  intros H Hne Inv. pose proof (qi_s _ _ Inv) as Hs. pose proof (rtq_sinv_step _ _ _ _ _ H Hs) as Hs'.
  cbn [tq_step] in H. destruct (tq_cons s) as [|t|t] eqn:Ec; inversion H; subst; try congruence. clear H.
  assert (Hct : tq_cons_task s = Some t) by (unfold tq_cons_task; rewrite Ec; reflexivity).
  cbn [rtq_base_events]. rewrite rtq_run_map.
  assert (Hcur : forall x, In x (rtq_X (tq_id t)) -> rm_K m np x /\ rtq_Z m x).
  { intros x Hx. apply (qi_cur _ _ Inv t x Hct Hx). }
  assert (Hnoread : forall x, ~ In (RRead x) (rtq_store false t)).
  { intros x. unfold rtq_store. destruct (tq_kind_of t); cbn; intuition discriminate. }
  rewrite <- rtq_run_map.
  apply (rtq_inv_frame (fun y => In y (rtq_X (tq_id t))) s m); cbn [tq_prods tq_sendq tq_buf tq_cbs].
  - exact Inv.
  - exact Hs'.
  - apply rtq_plain_in_map. apply rtq_store_in.
  - rewrite rtq_run_map. apply rm_obl_ok; [apply (qi_nr _ _ Inv)|].
    unfold rtq_store. destruct (tq_kind_of t); cbn [app rm_obl]; [|exact I].
    repeat split; try (left; apply Hcur; cbn; auto); apply rm_KR_fresh; apply Hcur; cbn; auto.
  - intros i j p x Hp Hle Hx. split; [|eauto]. apply (rtq_X_disj (i, j)); [|exact Hx].
    intros E. symmetry in E. revert E. apply (rtq_allocd_not_fresh s (tq_id t) i j p); try assumption.
    apply (rtq_entered_allocd progs s t Hs). apply (rtq_received_entered progs s t Hs).
    apply (rtq_cur_received progs s t Hs Hct).
  - intros i0 t0 Hin. left. split; [exact Hin|]. intros x. apply rtq_X_disj.
    apply (rtq_sendq_not_entered progs s i0 t0 t Hs Hin). apply (rtq_received_entered progs s t Hs).
    apply (rtq_cur_received progs s t Hs Hct).
  - intros t0 Hin. left. split; [exact Hin|]. intros x. apply rtq_X_disj. intros E. symmetry in E. revert E.
    apply (rtq_received_not_buf progs s t t0 Hs); [apply (rtq_cur_received progs s t Hs Hct)|exact Hin].
  - intros t0 Ht0. right. unfold tq_cons_task in Ht0. cbn [tq_cons] in Ht0. inversion Ht0; subst t0.
    intros x Hx. destruct (Hcur x Hx) as [B1 B2]. rewrite rtq_run_map. split.
    + apply rm_msteps_K_own. exact B1.
    + intros u. rewrite rm_msteps_R_keep by apply Hnoread. apply B2.
  - intros cb Hin Hh. left.
    assert (Hex : exists cb0, In cb0 (tq_cbs s) /\ tq_handled cb0 = true /\ tq_cb_id cb0 = tq_cb_id cb).
    { destruct (tq_kind_of t); [|exists cb; auto].
      apply tq_upd_cbs_in in Hin; [|reflexivity]. destruct Hin as (cb0 & Hin0 & Hid & [[_ ->]|[_ ->]]).
      - exists cb0. cbn [tq_handled tq_cb_id] in *. auto.
      - exists cb0. auto. }
    destruct Hex as (cb0 & Hin0 & Hh0 & Hid). exists cb0. split; [exact Hin0|]. split; [exact Hh0|]. split; [exact Hid|].
    left. rewrite <- Hid.
    pose proof (rtq_handled_not_cur progs s cb0 t Hs Hin0 Hh0 Hct) as Hne'.
    split; apply (rtq_X_disj (tq_cb_id cb0)); try exact Hne'; [apply rtq_res_in|apply rtq_err_in].
Qed.

(* ------------------------------------------------------------------ Do: isHandled, wg.Done, the released waiters *)
Lemma rtq_waiters_read m id (rel : list (nat * tq_pair)) :
  rc_raced m = false ->
  rm_P m (rtq_wg id) (rtq_res id) -> rm_P m (rtq_wg id) (rtq_err id) ->
  let tr := flat_map (fun wp => map (pair (rtq_waiter np (fst wp))) (rtq_get2 id)) rel in
  rc_raced (rtq_run N m tr) = false /\
  rm_P (rtq_run N m tr) (rtq_wg id) (rtq_res id) /\ rm_P (rtq_run N m tr) (rtq_wg id) (rtq_err id).
Proof.
  revert m. induction rel as [|wp rel IH]; intros m Hnr P1 P2; cbn zeta; cbn [flat_map]; [auto|].
  rewrite rtq_run_app, rtq_run_map. apply IH.
  - apply rm_obl_ok; [exact Hnr|]. unfold rtq_get2. cbn [rm_obl].
    repeat split; right; right; exists (rtq_wg id); (split; [left; reflexivity|assumption]).
  - apply rm_msteps_P_keep; [unfold rtq_get2; cbn; intuition discriminate|exact P1].
  - apply rm_msteps_P_keep; [unfold rtq_get2; cbn; intuition discriminate|exact P2].
Qed.

Lemma rtq_done_inv s m s' e rel :
  tq_step s TqDone = (s', e) -> e <> TqENone -> rtq_inv s m ->
  (forall t, e = TqEDone t -> tq_kind_of t = TqKUser -> rel = []) ->
  rtq_inv s' (rtq_run N m (rtq_base_events false np e ++ rtq_released np e rel)).
Proof.
  intros H Hne Inv Hrel. pose proof (qi_s _ _ Inv) as Hs. pose proof (rtq_sinv_step _ _ _ _ _ H Hs) as Hs'.
  cbn [tq_step] in H. destruct (tq_cons s) as [|t|t] eqn:Ec; inversion H; subst; try congruence. clear H.
  assert (Hct : tq_cons_task s = Some t) by (unfold tq_cons_task; rewrite Ec; reflexivity).
  assert (Hcur : forall x, In x (rtq_X (tq_id t)) -> rm_K m np x /\ rtq_Z m x).
  { intros x Hx. apply (qi_cur _ _ Inv t x Hct Hx). }
  specialize (Hrel t eq_refl).
  cbn [rtq_base_events rtq_released].
  set (tr := map (pair (rtq_cons np)) (rtq_done false t) ++
             flat_map (fun wp => map (pair (rtq_waiter np (fst wp))) (rtq_get2 (tq_id t))) rel).
  assert (Hpl : rtq_plain_in (fun y => In y (rtq_X (tq_id t))) tr).
  { unfold tr. apply rtq_plain_in_app.
    - apply rtq_plain_in_map. apply rtq_done_in.
    - apply rtq_plain_in_flat_map. intros wp _. apply rtq_plain_in_map. apply rtq_get2_in. }
  (* the consumer's events, then the released waiters *)
  assert (Hmain : rc_raced (rtq_run N m tr) = false /\
                  (tq_kind_of t = TqKCallback ->
                   rm_P (rtq_run N m tr) (rtq_wg (tq_id t)) (rtq_res (tq_id t)) /\
                   rm_P (rtq_run N m tr) (rtq_wg (tq_id t)) (rtq_err (tq_id t)))).
  { unfold tr. rewrite rtq_run_app, rtq_run_map. unfold rtq_done. destruct (tq_kind_of t) eqn:Ek; cbn [app].
    - set (evs := [RRead (rtq_hnd (tq_id t)); RWrite (rtq_hnd (tq_id t)); RRel (rtq_wg (tq_id t)); RRead (rtq_err (tq_id t))]).
      assert (Hr : rc_raced (rm_msteps N m np evs) = false).
      { apply rm_obl_ok; [apply (qi_nr _ _ Inv)|]. unfold evs. cbn [rm_obl].
        repeat split; try (left; apply Hcur; cbn; auto). apply rm_KR_fresh. apply Hcur. cbn. auto. }
      assert (P1 : rm_P (rm_msteps N m np evs) (rtq_wg (tq_id t)) (rtq_res (tq_id t))).
      { apply (rm_rel_post N m np [RRead (rtq_hnd (tq_id t)); RWrite (rtq_hnd (tq_id t))] (rtq_wg (tq_id t))
                 [RRead (rtq_err (tq_id t))]); [|cbn; intuition discriminate].
        left. apply Hcur. cbn. auto. }
      assert (P2 : rm_P (rm_msteps N m np evs) (rtq_wg (tq_id t)) (rtq_err (tq_id t))).
      { apply (rm_rel_post N m np [RRead (rtq_hnd (tq_id t)); RWrite (rtq_hnd (tq_id t))] (rtq_wg (tq_id t))
                 [RRead (rtq_err (tq_id t))]); [|cbn; intuition discriminate].
        left. apply Hcur. cbn. auto. }
      destruct (rtq_waiters_read _ (tq_id t) rel Hr P1 P2) as (R1 & R2 & R3). auto.
    - rewrite (Hrel eq_refl). cbn [flat_map rm_msteps fold_left rtq_run]. split; [apply (qi_nr _ _ Inv)|discriminate]. }
  destruct Hmain as [Hnr HP].
  apply (rtq_inv_frame (fun y => In y (rtq_X (tq_id t))) s m); cbn [tq_prods tq_sendq tq_buf tq_cbs].
  - exact Inv.
  - exact Hs'.
  - exact Hpl.
  - exact Hnr.
  - intros i j p x Hp Hle Hx. split; [|eauto]. apply (rtq_X_disj (i, j)); [|exact Hx].
    intros E. symmetry in E. revert E. apply (rtq_allocd_not_fresh s (tq_id t) i j p); try assumption.
    apply (rtq_entered_allocd progs s t Hs). apply (rtq_received_entered progs s t Hs).
    apply (rtq_cur_received progs s t Hs Hct).
  - intros i0 t0 Hin. left. split; [exact Hin|]. intros x. apply rtq_X_disj.
    apply (rtq_sendq_not_entered progs s i0 t0 t Hs Hin). apply (rtq_received_entered progs s t Hs).
    apply (rtq_cur_received progs s t Hs Hct).
  - intros t0 Hin. left. split; [exact Hin|]. intros x. apply rtq_X_disj. intros E. symmetry in E. revert E.
    apply (rtq_received_not_buf progs s t t0 Hs); [apply (rtq_cur_received progs s t Hs Hct)|exact Hin].
  - intros t0 Ht0. unfold tq_cons_task in Ht0. cbn [tq_cons] in Ht0. discriminate Ht0.
  - intros cb Hin Hh. destruct (tq_kind_of t) eqn:Ek.
    + apply tq_upd_cbs_in in Hin; [|reflexivity]. destruct Hin as (cb0 & Hin0 & Hid & [[Heq ->]|[_ ->]]).
      * right. apply tq_tid_eqb_eq in Heq. cbn [tq_cb_id]. rewrite Heq. apply HP. reflexivity.
      * left. exists cb0. repeat split; auto. left.
        pose proof (rtq_handled_not_cur progs s cb0 t Hs Hin0 Hh Hct) as Hne'.
        split; apply (rtq_X_disj (tq_cb_id cb0)); try exact Hne'; [apply rtq_res_in|apply rtq_err_in].
    + left. exists cb. repeat split; auto. left.
      pose proof (rtq_handled_not_cur progs s cb t Hs Hin Hh Hct) as Hne'.
      split; apply (rtq_X_disj (tq_cb_id cb)); try exact Hne'; [apply rtq_res_in|apply rtq_err_in].
Qed.

(* ------------------------------------------------------------------ close(closeChan) *)
Lemma rtq_close_inv s m s' e :
  tq_step s TqClose = (s', e) -> e <> TqENone -> rtq_inv s m ->
  rtq_inv s' (rtq_run N m (rtq_base_events false np e)).
Proof.
  intros H Hne Inv. pose proof (qi_s _ _ Inv) as Hs. pose proof (rtq_sinv_step _ _ _ _ _ H Hs) as Hs'.
  cbn [tq_step] in H. destruct (tq_closed s) eqn:Ecl; inversion H; subst; try congruence. clear H.
  set (tr := rtq_base_events false np (TqEClose (tq_sendq s))).
  assert (Hsync : Forall (fun p => rm_sync (snd p)) tr).
  { apply rtq_close_sync. }
  destruct (rtq_no_plain tr Hsync) as [Hpl Hnw].
  apply (rtq_inv_frame (fun _ => False) s m); cbn [tq_prods tq_sendq tq_buf tq_cbs]; try assumption.
  - rewrite rtq_run_sync_raced by exact Hsync. apply (qi_nr _ _ Inv).
  - intros i j p' x Hp' Hle Hx. split; [tauto|]. rewrite nth_error_map in Hp'.
    destruct (nth_error (tq_prods s) i) as [p0|] eqn:Ep0; [|discriminate Hp']. cbn in Hp'. inversion Hp'; subst p'.
    exists p0. split; [reflexivity|]. unfold tq_wake in Hle. destruct (tq_ppc_of p0); exact Hle.
  - intros i0 t0 [].
  - intros t0 Hin. left. split; [exact Hin|tauto].
  - intros t0 Ht0. left. split; [exact Ht0|tauto].
  - intros cb Hin Hh. left. exists cb. repeat split; auto.
Qed.

(* ------------------------------------------------------------------ all base steps *)
Lemma rtq_base_inv s m a s' e rel :
  tq_step s a = (s', e) -> rtq_inv s m ->
  (forall t, e = TqEDone t -> tq_kind_of t = TqKUser -> rel = []) ->
  rtq_inv s' (rtq_run N m (rtq_base_events false np e ++ rtq_released np e rel)).
Proof.
  intros H Inv Hrel. destruct (tq_ev_none_dec e) as [->|Hne].
  - apply tq_step_none in H. subst s'. exact Inv.
  - destruct a as [i c|k| | |].
    + assert (Hr : rtq_released np e rel = []).
      { destruct (tq_step_call _ _ _ _ _ H Hne) as (p & op & rest & _ & _ & _ & _ & _ & Hm).
        destruct (tq_op_task i (tq_next p) op).
        - destruct Hm as (_ & [(-> & _)|[(-> & _)|(-> & _)]]); reflexivity.
        - destruct Hm as (_ & _ & [(-> & _)|(-> & _)]); reflexivity. }
      rewrite Hr, app_nil_r. apply (rtq_prod_inv s m i c); assumption.
    + assert (Hr : rtq_released np e rel = []).
      { destruct (tq_step_recv _ _ _ _ H Hne) as (t & adm & -> & _). reflexivity. }
      rewrite Hr, app_nil_r. apply (rtq_recv_inv s m k); assumption.
    + assert (Hr : rtq_released np e rel = []).
      { cbn [tq_step] in H. destruct (tq_cons s); inversion H; subst; reflexivity. }
      rewrite Hr, app_nil_r. apply (rtq_store_inv s m); assumption.
    + apply (rtq_done_inv s m); assumption.
    + assert (Hr : rtq_released np e rel = []).
      { cbn [tq_step] in H. destruct (tq_closed s); inversion H; subst; reflexivity. }
      rewrite Hr, app_nil_r. apply (rtq_close_inv s m); assumption.
Qed.

(* ------------------------------------------------------------------ Get2 that returns at once *)
Lemma rtq_get_inv s m id w p :
  tq_get2 s (TqHTask id) = Some p -> rtq_inv s m ->
  rtq_inv s (rtq_run N m (map (pair w) (rtq_get2 id))).
Proof.
  intros Hg Inv. pose proof (qi_s _ _ Inv) as Hs.
  cbn [tq_get2] in Hg. unfold tq_find_cb in Hg. destruct (find _ (tq_cbs s)) as [cb|] eqn:Ef; [|discriminate Hg].
  destruct (tq_handled cb) eqn:Hh; [|discriminate Hg].
  apply find_some in Ef. destruct Ef as [Hin Heq]. apply tq_tid_eqb_eq in Heq.
  destruct (qi_done _ _ Inv cb Hin Hh) as [P1 P2]. rewrite Heq in P1, P2.
  destruct (rtq_handled_received progs s cb Hs Hin Hh) as (t0 & Hr0 & Hid0 & Hnc). rewrite Heq in Hid0.
  apply (rtq_inv_frame (fun y => In y (rtq_X id)) s m).
  - exact Inv.
  - exact Hs.
  - apply rtq_plain_in_map. apply rtq_get2_in.
  - rewrite rtq_run_map. apply rm_obl_ok; [apply (qi_nr _ _ Inv)|]. unfold rtq_get2. cbn [rm_obl].
    repeat split; right; right; exists (rtq_wg id); (split; [left; reflexivity|assumption]).
  - intros i j p0 x Hp Hle Hx. split; [|eauto]. apply (rtq_X_disj (i, j)); [|exact Hx].
    intros E. symmetry in E. revert E. apply (rtq_allocd_not_fresh s id i j p0); try assumption.
    rewrite <- Hid0. apply (rtq_entered_allocd progs s t0 Hs). apply (rtq_received_entered progs s t0 Hs Hr0).
  - intros i0 t1 Hin1. left. split; [exact Hin1|]. intros x. apply rtq_X_disj. rewrite <- Hid0.
    apply (rtq_sendq_not_entered progs s i0 t1 t0 Hs Hin1). apply (rtq_received_entered progs s t0 Hs Hr0).
  - intros t1 Hin1. left. split; [exact Hin1|]. intros x. apply rtq_X_disj. rewrite <- Hid0.
    intros E. symmetry in E. revert E. apply (rtq_received_not_buf progs s t0 t1 Hs Hr0 Hin1).
  - intros t1 Ht1. left. split; [exact Ht1|]. intros x. apply rtq_X_disj. rewrite <- Heq. intros E. symmetry in E. revert E.
    apply (rtq_handled_not_cur progs s cb t1 Hs Hin Hh Ht1).
  - intros cb1 Hin1 Hh1. left. exists cb1. repeat split; auto. right.
    apply Forall_forall. intros q Hq. apply in_map_iff in Hq. destruct Hq as (e & <- & He). cbn [snd].
    unfold rtq_get2 in He. cbn in He. destruct He as [<-|[<-|[<-|[]]]]; exact I.
Qed.

(* ------------------------------------------------------------------ a step with waiters *)
Lemma rtq_released_same n l : tq_released_from n l l = [].
Proof.
  revert n. induction l as [|w l IH]; intros n; [reflexivity|]. cbn [tq_released_from].
  destruct (tq_w_ret w); apply IH.
Qed.

Lemma rtq_gstep_inv g m a :
  rtq_inv (tq_base g) m ->
  rtq_inv (tq_base (fst (tq_gstep g a))) (rtq_run N m (rtq_events false np a (snd (tq_gstep g a)))).
Proof.
  intros Inv. destruct a as [b|h]; cbn [tq_gstep].
  - destruct (tq_step (tq_base g) b) as [s' e] eqn:E. cbn [fst snd tq_base rtq_events].
    apply (rtq_base_inv (tq_base g) m b); [exact E|exact Inv|].
    intros t -> Hk. rewrite Hk. apply rtq_released_same.
  - cbn [fst tq_base]. destruct (tq_get2 (tq_base g) h) as [p|] eqn:Eg; cbn [snd rtq_events].
    + destruct h as [| |id]; try exact Inv. cbn [rtq_peek app]. apply (rtq_get_inv _ _ id _ p); assumption.
    + destruct h as [| |id]; exact Inv.
Qed.

Lemma rtq_trace_inv gs : forall g m,
  rtq_inv (tq_base g) m -> rc_raced (rtq_run N m (rtq_trace_from false np g gs)) = false.
Proof.
  induction gs as [|a r IH]; intros g m Inv; cbn [rtq_trace_from].
  - apply (qi_nr _ _ Inv).
  - rewrite rtq_run_app. apply IH. apply rtq_gstep_inv. exact Inv.
Qed.

End Inv.

Lemma rtq_inv_init np cap progs : rtq_inv np progs (tq_init cap progs) rc_init.
Proof.
  constructor; cbn [tq_init tq_sendq tq_buf tq_cbs tq_prods].
  - reflexivity.
  - apply rtq_sinv_init.
  - intros. split; [reflexivity|intros u; reflexivity].
  - intros i t x [].
  - intros t x [].
  - intros t x Hx. discriminate Hx.
  - intros cb [].
Qed.

(* ------------------------------------------------------------------ thread ids are in range *)
Lemma rtq_wf_mono n n' tr : n <= n' -> hb_wf n tr -> hb_wf n' tr.
Proof. intros Hle H. unfold hb_wf in *. eapply Forall_impl; [|exact H]. cbn. intros p Hp. lia. Qed.

Lemma rtq_wf_cons n p tr : fst p < n -> hb_wf n tr -> hb_wf n (p :: tr).
Proof. intros. constructor; assumption. Qed.

Lemma rtq_wf_flat_map {A} n (f : A -> hb_trace) l :
  (forall a, In a l -> hb_wf n (f a)) -> hb_wf n (flat_map f l).
Proof.
  induction l as [|a l IH]; intros H; cbn [flat_map]; [constructor|].
  apply rm_wf_app; [apply H; left; reflexivity|apply IH; intros b Hb; apply H; right; exact Hb].
Qed.

Lemma rtq_step_prods_len s a : length (tq_prods (fst (tq_step s a))) = length (tq_prods s).
Proof.
  destruct (tq_step s a) as [s' e] eqn:H. cbn [fst].
  destruct (tq_ev_none_dec e) as [->|Hne]; [apply tq_step_none in H; subst; reflexivity|].
  destruct a as [i c|k| | |].
  - destruct (tq_step_call _ _ _ _ _ H Hne) as (p & op & rest & Ep & _ & _ & _ & _ & Hm).
    assert (Hi : i < length (tq_prods s)) by (apply nth_error_Some; congruence).
    destruct (tq_op_task i (tq_next p) op).
    + destruct Hm as (_ & [(_ & _ & ->)|[(_ & _ & _ & ->)|(_ & _ & _ & ->)]]); apply tq_set_prod_length; exact Hi.
    + destruct Hm as (_ & _ & [(_ & ->)|(_ & ->)]); apply tq_set_prod_length; exact Hi.
  - destruct (tq_step_recv _ _ _ _ H Hne) as (t & adm & _ & _ & _ & _ & _ & Hadm). destruct adm as [it|].
    + destruct Hadm as (k' & _ & _ & ->). unfold tq_unblock.
      destruct (nth_error (tq_prods s) (fst it)) eqn:E; [|reflexivity].
      apply tq_set_prod_length. apply nth_error_Some. congruence.
    + destruct Hadm as (_ & _ & ->). reflexivity.
  - destruct (tq_step_exec s TqStore s' e (or_introl eq_refl) H) as (-> & _). reflexivity.
  - destruct (tq_step_exec s TqDone s' e (or_intror eq_refl) H) as (-> & _). reflexivity.
  - destruct (tq_step_close _ _ _ H Hne) as (_ & _ & _ & -> & _). apply map_length.
Qed.

Section Wf.
Variables (early : bool) (np : nat) (progs : list (list tq_op)).

Lemma rtq_base_events_wf s a s' e n :
  tq_step s a = (s', e) -> rtq_sinv progs s -> length (tq_prods s) = np -> np + 2 <= n ->
  hb_wf n (rtq_base_events early np e).
Proof.
  intros H Hs Hlen Hn. destruct (tq_ev_none_dec e) as [->|Hne]; [constructor|].
  assert (Hsq : forall it, In it (tq_sendq s) -> fst it < n).
  { intros [i t] Hin. destruct (rtq_sendq_blocked progs s i t Hs Hin) as (p & Hp & _).
    assert (i < length (tq_prods s)) by (apply nth_error_Some; congruence). cbn [fst]. lia. }
  destruct a as [i c|k| | |].
  - destruct (tq_step_call _ _ _ _ _ H Hne) as (p & op & rest & Ep & _ & _ & _ & _ & Hm).
    assert (Hi : i < n) by (assert (i < length (tq_prods s)) by (apply nth_error_Some; congruence); lia).
    destruct (tq_op_task i (tq_next p) op).
    + destruct Hm as (_ & [(-> & _)|[(-> & _)|(-> & _)]]); cbn [rtq_base_events]; apply rm_wf_map; exact Hi.
    + destruct Hm as (_ & _ & [(-> & _)|(-> & _)]); constructor.
  - destruct (tq_step_recv _ _ _ _ H Hne) as (t & adm & -> & _ & _ & _ & _ & Hadm). cbn [rtq_base_events].
    apply rtq_wf_cons; [cbn [fst]; unfold rtq_cons; lia|]. destruct adm as [it|]; [|constructor].
    destruct Hadm as (k' & Hk' & _). apply nth_error_In in Hk'. apply rm_wf_map. apply Hsq. exact Hk'.
  - cbn [tq_step] in H. destruct (tq_cons s); inversion H; subst; try congruence. cbn [rtq_base_events].
    apply rm_wf_map. unfold rtq_cons. lia.
  - cbn [tq_step] in H. destruct (tq_cons s); inversion H; subst; try congruence. cbn [rtq_base_events].
    apply rm_wf_map. unfold rtq_cons. lia.
  - cbn [tq_step] in H. destruct (tq_closed s); inversion H; subst; try congruence. cbn [rtq_base_events].
    apply rtq_wf_cons; [cbn [fst]; unfold rtq_closer; lia|].
    apply rtq_wf_flat_map. intros it Hin. apply rm_wf_map. apply Hsq. exact Hin.
Qed.

Lemma rtq_events_wf g a :
  rtq_sinv progs (tq_base g) -> length (tq_prods (tq_base g)) = np ->
  hb_wf (np + 2 + S (length (tq_waiters g))) (rtq_events early np a (snd (tq_gstep g a))).
Proof.
  intros Hs Hlen. destruct a as [b|h]; cbn [tq_gstep].
  - destruct (tq_step (tq_base g) b) as [s' e] eqn:E. cbn [snd rtq_events]. apply rm_wf_app.
    + apply (rtq_base_events_wf (tq_base g) b s' e); try assumption. lia.
    + unfold rtq_released. destruct e; try constructor.
      apply rtq_wf_flat_map. intros [w pr] Hin. apply rm_wf_map. cbn [fst].
      apply tq_released_from_spec in Hin. destruct Hin as (k & o & w' & -> & Ho & _).
      assert (k < length (tq_waiters g)) by (apply nth_error_Some; congruence). unfold rtq_waiter. lia.
  - destruct (tq_get2 (tq_base g) h); cbn [snd rtq_events]; destruct h; try constructor;
      apply rm_wf_map; unfold rtq_waiter; lia.
Qed.

Lemma rtq_gstep_waiters g a : length (tq_waiters (fst (tq_gstep g a))) <= S (length (tq_waiters g)).
Proof.
  destruct a as [b|h]; cbn [tq_gstep].
  - destruct (tq_step (tq_base g) b) as [s' e]. cbn [fst tq_waiters].
    destruct e; try lia. destruct (tq_kind_of t); [rewrite map_length|]; lia.
  - cbn [fst tq_waiters]. rewrite app_length. cbn [length]. lia.
Qed.

Lemma rtq_gstep_base g a :
  tq_base (fst (tq_gstep g a)) = match a with TqGBase b => fst (tq_step (tq_base g) b) | TqGGet _ => tq_base g end.
Proof.
  destruct a as [b|h]; cbn [tq_gstep]; [|reflexivity]. destruct (tq_step (tq_base g) b). reflexivity.
Qed.

Lemma rtq_gstep_sinv g a : rtq_sinv progs (tq_base g) -> rtq_sinv progs (tq_base (fst (tq_gstep g a))).
Proof.
  intros Hs. rewrite rtq_gstep_base. destruct a as [b|h]; [|exact Hs].
  destruct (tq_step (tq_base g) b) as [s' e] eqn:E. cbn [fst]. apply (rtq_sinv_step progs _ b s' e E Hs).
Qed.

Lemma rtq_gstep_len g a : length (tq_prods (tq_base (fst (tq_gstep g a)))) = length (tq_prods (tq_base g)).
Proof. rewrite rtq_gstep_base. destruct a as [b|h]; [apply rtq_step_prods_len|reflexivity]. Qed.

Lemma rtq_trace_from_wf gs : forall g,
  rtq_sinv progs (tq_base g) -> length (tq_prods (tq_base g)) = np ->
  hb_wf (np + 2 + length (tq_waiters g) + length gs) (rtq_trace_from early np g gs).
Proof.
  induction gs as [|a r IH]; intros g Hs Hlen; cbn [rtq_trace_from]; [constructor|].
  apply rm_wf_app.
  - apply (rtq_wf_mono (np + 2 + S (length (tq_waiters g)))); [cbn [length]; lia|apply rtq_events_wf; assumption].
  - pose proof (rtq_gstep_waiters g a) as Hw.
    apply (rtq_wf_mono (np + 2 + length (tq_waiters (fst (tq_gstep g a))) + length r)); [cbn [length]; lia|].
    apply IH; [apply rtq_gstep_sinv; exact Hs|rewrite rtq_gstep_len; exact Hlen].
Qed.

End Wf.

Lemma rtq_trace_wf early cap progs gs :
  hb_wf (rtq_nthreads progs gs) (rtq_trace_from early (length progs) (tq_ginit cap progs) gs).
Proof.
  pose proof (rtq_trace_from_wf early (length progs) progs gs (tq_ginit cap progs)) as H.
  cbn [tq_ginit tq_base tq_waiters length] in H. unfold rtq_nthreads.
  replace (length progs + 2 + length gs) with (length progs + 2 + 0 + length gs) by lia.
  apply H; [apply rtq_sinv_init|]. cbn [tq_init tq_prods]. apply map_length.
Qed.

(* ------------------------------------------------------------------ the theorems *)
Theorem rtq_monitor_spec cap progs gs :
  rc_raced (rc_run (rtq_nthreads progs gs) (rtq_trace cap progs gs)) = false
  /\ hb_wf (rtq_nthreads progs gs) (rtq_trace cap progs gs).
Proof.
  split; [|apply rtq_trace_wf]. unfold rc_run, rtq_trace.
  apply (rtq_trace_inv (rtq_nthreads progs gs) (length progs) progs gs (tq_ginit cap progs) rc_init).
  cbn [tq_ginit tq_base]. apply rtq_inv_init.
Qed.

Theorem rtq_race_free cap progs gs : ~ hb_race (rtq_trace cap progs gs).
Proof.
  destruct (rtq_monitor_spec cap progs gs) as [H1 H2].
  apply (hbp_agree (rtq_nthreads progs gs)); assumption.
Qed.

Theorem rtq_conflicts_ordered cap progs gs i j :
  i < j -> j < length (rtq_trace cap progs gs) -> hb_conflict (rtq_trace cap progs gs) i j ->
  hb_hb (rtq_trace cap progs gs) i j.
Proof.
  destruct (rtq_monitor_spec cap progs gs) as [H1 H2].
  apply (hbp_norace_ordered (rtq_nthreads progs gs)); assumption.
Qed.

(* the labelled trace is the model's own event trace mapped through the labelling *)
Lemma rtq_trace_projects early np gs : forall g,
  rtq_trace_from early np g gs =
  flat_map (fun ae => rtq_events early np (fst ae) (snd ae)) (combine gs (tq_gtrace g gs)).
Proof.
  induction gs as [|a r IH]; intros g; [reflexivity|].
  unfold tq_gtrace. cbn [rtq_trace_from tq_grun]. destruct (tq_gstep g a) as [g1 e] eqn:E. cbn [fst snd].
  specialize (IH g1). unfold tq_gtrace in IH. destruct (tq_grun g1 r) as [g2 tr]. cbn [snd] in *.
  cbn [combine flat_map fst snd]. rewrite IH. reflexivity.
Qed.

(* ------------------------------------------------------------------ the seeded shape races *)
Lemma rtq_early_refuted :
  hb_race (rtq_trace_early 1 [[TqCallback (Some (5%Z, 0%Z))]]
             [TqGBase (TqProd 0 false); TqGBase (TqRecv 0); TqGBase TqStore; TqGGet (TqHTask (0, 0))]).
Proof. apply (hbp_sound 4). vm_compute. reflexivity. Qed.

(* a concrete run (used by props/C18.v): two producers, capacity 1, a parked sender admitted by a
   receive, a user task, a waiter released by Done and one returning at once, close, a skipped send *)
Definition rtq_ex_progs : list (list tq_op) :=
  [[TqCallback (Some (5%Z, 0%Z)); TqTask (Some (1%Z, 1%Z))]; [TqCallback (Some (7%Z, 1%Z)); TqCallback (Some (8%Z, 0%Z))]].
Definition rtq_ex_sched : list tq_gact :=
  [TqGBase (TqProd 0 false); TqGGet (TqHTask (0, 0)); TqGBase (TqProd 1 false); TqGBase (TqProd 0 false);
   TqGBase (TqRecv 0); TqGBase TqStore; TqGBase TqDone; TqGGet (TqHTask (0, 0)); TqGBase (TqRecv 0);
   TqGBase TqStore; TqGBase TqClose; TqGBase TqDone; TqGGet (TqHTask (1, 0)); TqGBase (TqProd 1 false)].

(* deleting the one synchronisation event an ordering rests on makes the race-free run racy:
   13 = the release of wg.Done (the mutation "wg.Done() before the result store" removes exactly the
   edge from the stores to Done), 7 = the acquire of the consumer's receive *)
Lemma rtq_done_release_needed :
  let tr := rtq_trace 1 rtq_ex_progs rtq_ex_sched in
  nth_error tr 13 = Some (2, RRel (rtq_wg (0, 0))) /\ ~ hb_race tr /\ hb_race (firstn 13 tr ++ skipn 14 tr).
Proof.
  cbv zeta. split; [vm_compute; reflexivity|]. split; [apply rtq_race_free|].
  apply (hbp_sound 7). vm_compute. reflexivity.
Qed.

Lemma rtq_receive_needed :
  let tr := rtq_trace 1 rtq_ex_progs rtq_ex_sched in
  nth_error tr 7 = Some (2, RAcq (rtq_msg (0, 0))) /\ ~ hb_race tr /\ hb_race (firstn 7 tr ++ skipn 8 tr).
Proof.
  cbv zeta. split; [vm_compute; reflexivity|]. split; [apply rtq_race_free|].
  apply (hbp_sound 7). vm_compute. reflexivity.
Qed.

Lemma rtq_trace_projects_init cap progs gs :
  rtq_trace cap progs gs =
  flat_map (fun ae => rtq_events false (length progs) (fst ae) (snd ae))
           (combine gs (tq_gtrace (tq_ginit cap progs) gs)).
Proof. apply rtq_trace_projects. Qed.

Lemma rtq_rows_ok : rtq_rows_in_table = true.
Proof. vm_compute. reflexivity. Qed.
