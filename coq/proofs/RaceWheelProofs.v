(* RaceWheelProofs.v -- the labelled runs of the loom.Wheel MODEL (models/RaceWheel.v over
   models/Wheel.v) have no happens-before race, for both store orders of onTicker, every
   bucket count, number of ticks, requester programs and schedules:
     rwh_race_free : ~ hb_race (rwh_trace o (wh_init st n ticks progs) sched)
   Method: the monitor of lib/Race.v runs along the labelled run; invariant [rwh_inv]:
     - channel numbers not yet handed out were never written nor read;
     - the initial wheelData are carried by [start] (NewWheel released them);
     - every slot holds an initial wheelData or one carried by that slot (the StorePointer of
       onTicker released it);
     - a tick / a request that has started knows the initial wheelData; the ticker knows the
       lastItem it loaded; a requester parked at the re-validation knows the wheelData it
       loaded (its LoadPointer acquired the slot). *)
From Got Require Import Base ListAux Race RaceProofs RaceHB RaceHBProofs RaceMonLemmas.
From Got Require Import Wheel WheelProofs RaceWheel.
Local Open Scope nat_scope.

Section RWH.
Variable N : nat.
Variable o : wh_order.

Definition rwh_started (m : rc_mon) (t n : nat) : Prop := forall ch, ch < n -> rm_K m t ch.

Definition rwh_tinv (n next nslots : nat) (m : rc_mon) (tpc : wh_tpc) : Prop :=
  match tpc with
  | WTIdle | WTDead => True
  | WT1 | WT2 _ => rwh_started m 0 n
  | WT3 lp last | WT4 lp last => lp < nslots /\ last < next /\ rm_K m 0 last
  | WT5 last => last < next /\ rm_K m 0 last
  end.

Definition rwh_rinv (n next : nat) (m : rc_mon) (t : nat) (pc : wh_rpc) : Prop :=
  match pc with
  | WR1 _ _ | WR2 _ _ _ => rwh_started m t n
  | WR3 _ _ _ ch => rwh_started m t n /\ ch < next /\ rm_K m t ch
  | _ => True
  end.

Definition rwh_slots_ok (n next : nat) (m : rc_mon) (slots : list nat) : Prop :=
  forall j ch, nth_error slots j = Some ch -> ch < next /\ (ch < n \/ rm_P m (rwh_slot j) ch).

Definition rwh_fresh (next : nat) (m : rc_mon) : Prop :=
  forall x, next <= x -> rc_Wc m x = 0 /\ forall u, rc_R m x u = 0.

Record rwh_inv (s : wh_state) (m : rc_mon) : Prop := {
  hi_nr : rc_raced m = false;
  hi_fresh : rwh_fresh (wh_next s) m;
  hi_n : wh_n s <= wh_next s;
  hi_init : forall ch, ch < wh_n s -> rm_P m rwh_start ch;
  hi_slots : rwh_slots_ok (wh_n s) (wh_next s) m (wh_slots s);
  hi_tick : rwh_tinv (wh_n s) (wh_next s) (length (wh_slots s)) m (wh_tpc_of s);
  hi_req : forall k th, nth_error (wh_threads s) k = Some th ->
             rwh_rinv (wh_n s) (wh_next s) m (S k) (wh_rpc_of th)
}.

Definition rwh_keep (next : nat) : nat -> Prop := fun x => x < next.

Lemma rwh_started_ext n next m m' t :
  n <= next -> rm_ext (rwh_keep next) m m' -> rwh_started m t n -> rwh_started m' t n.
Proof.
  intros Hn X H ch Hch. apply (rm_K_ext _ _ _ _ _ X); [unfold rwh_keep; lia|apply H; exact Hch].
Qed.

Lemma rwh_tinv_ext n next next' ns m m' tpc :
  n <= next -> next <= next' -> rm_ext (rwh_keep next) m m' ->
  rwh_tinv n next ns m tpc -> rwh_tinv n next' ns m' tpc.
Proof.
  intros Hn Hnx X H. destruct tpc; cbn [rwh_tinv] in *; try exact I.
  - eapply rwh_started_ext; eauto.
  - eapply rwh_started_ext; eauto.
  - destruct H as (H1 & H2 & H3). repeat split; [exact H1|lia|].
    apply (rm_K_ext _ _ _ _ _ X); [exact H2|exact H3].
  - destruct H as (H1 & H2 & H3). repeat split; [exact H1|lia|].
    apply (rm_K_ext _ _ _ _ _ X); [exact H2|exact H3].
  - destruct H as (H2 & H3). split; [lia|].
    apply (rm_K_ext _ _ _ _ _ X); [exact H2|exact H3].
Qed.

Lemma rwh_rinv_ext n next next' m m' t pc :
  n <= next -> next <= next' -> rm_ext (rwh_keep next) m m' ->
  rwh_rinv n next m t pc -> rwh_rinv n next' m' t pc.
Proof.
  intros Hn Hnx X H. destruct pc; cbn [rwh_rinv] in *; try exact I.
  - eapply rwh_started_ext; eauto.
  - eapply rwh_started_ext; eauto.
  - destruct H as (H1 & H2 & H3). repeat split; [eapply rwh_started_ext; eauto|lia|].
    apply (rm_K_ext _ _ _ _ _ X); [exact H2|exact H3].
Qed.

Lemma rwh_slots_ext n next next' m m' slots :
  next <= next' -> rm_ext (rwh_keep next) m m' ->
  rwh_slots_ok n next m slots -> rwh_slots_ok n next' m' slots.
Proof.
  intros Hnx X H j ch Hj. destruct (H j ch Hj) as [H1 H2]. split; [lia|].
  destruct H2 as [H2|H2]; [left; exact H2|right].
  apply (rm_P_ext _ _ _ _ _ X); [exact H1|exact H2].
Qed.

Lemma rwh_fresh_sync next m t e : rm_sync e -> rwh_fresh next m -> rwh_fresh next (rc_step N m t e).
Proof.
  intros He H x Hx. destruct (H x Hx) as [H1 H2]. split.
  - rewrite rm_sync_Wc by exact He. exact H1.
  - intros u. rewrite rm_sync_R by exact He. apply H2.
Qed.

Lemma rwh_fresh_read next m t x : x < next -> rwh_fresh next m -> rwh_fresh next (rc_step N m t (RRead x)).
Proof.
  intros Hlt H y Hy. destruct (H y Hy) as [H1 H2]. split; [exact H1|].
  intros u. rewrite rm_step_R. destruct (Nat.eqb_spec y x); [lia|apply H2].
Qed.

(* ------------------------------------------------------------------ ticker steps *)
Lemma rwh_inv_tick_intro s m pos' slots' next' log' nst' ncl' tpc' ticks' m' :
  rwh_inv s m ->
  rm_ext (rwh_keep (wh_next s)) m m' -> wh_next s <= next' ->
  rc_raced m' = false -> rwh_fresh next' m' ->
  rwh_slots_ok (wh_n s) next' m' slots' ->
  rwh_tinv (wh_n s) next' (length slots') m' tpc' ->
  rwh_inv (wh_upd_ticker s pos' slots' next' log' nst' ncl' tpc' ticks') m'.
Proof.
  intros [A1 A2 A3 A4 A5 A6 A7] X Hnx Hnr Hfr Hsl Ht.
  constructor; unfold wh_upd_ticker;
    cbn [wh_n wh_next wh_slots wh_tpc_of wh_threads]; try assumption.
  - lia.
  - intros ch Hch. apply (rm_P_ext _ _ _ _ _ X); [unfold rwh_keep; lia|apply A4; exact Hch].
  - intros k th Hk. apply (rwh_rinv_ext _ (wh_next s) _ m); auto.
Qed.

(* same state up to the ticker pc / counters, one synchronisation event *)
Lemma rwh_inv_tick_sync s m log' nst' ncl' tpc' ticks' pos' e :
  rwh_inv s m -> rm_sync e ->
  rwh_tinv (wh_n s) (wh_next s) (length (wh_slots s)) (rc_step N m 0 e) tpc' ->
  rwh_inv (wh_upd_ticker s pos' (wh_slots s) (wh_next s) log' nst' ncl' tpc' ticks') (rc_step N m 0 e).
Proof.
  intros Inv He Ht.
  assert (X : rm_ext (rwh_keep (wh_next s)) m (rc_step N m 0 e)) by (apply rm_ext_sync; exact He).
  apply (rwh_inv_tick_intro s m); auto.
  - rewrite rm_sync_raced by exact He. apply (hi_nr _ _ Inv).
  - apply rwh_fresh_sync; [exact He|apply (hi_fresh _ _ Inv)].
  - apply (rwh_slots_ext _ (wh_next s) _ m); auto. apply (hi_slots _ _ Inv).
Qed.

Lemma rwh_inv_tick_noev s m log' nst' ncl' tpc' ticks' pos' :
  rwh_inv s m ->
  rwh_tinv (wh_n s) (wh_next s) (length (wh_slots s)) m tpc' ->
  rwh_inv (wh_upd_ticker s pos' (wh_slots s) (wh_next s) log' nst' ncl' tpc' ticks') m.
Proof.
  intros Inv Ht. apply (rwh_inv_tick_intro s m); auto.
  - apply rm_ext_refl.
  - apply (hi_nr _ _ Inv).
  - apply (hi_fresh _ _ Inv).
  - apply (hi_slots _ _ Inv).
Qed.

(* the fresh wheelData is built and stored into slot lp *)
Lemma rwh_inv_store_slot s m lp tpc' :
  rwh_inv s m -> lp < length (wh_slots s) ->
  (forall m', rm_ext (rwh_keep (wh_next s)) m m' ->
     rwh_tinv (wh_n s) (S (wh_next s)) (length (wh_slots s)) m' tpc') ->
  rwh_inv (wh_store_slot s lp tpc') (rm_msteps N m 0 (rwh_store_slot s lp)).
Proof.
  intros Inv Hlp Ht. unfold wh_store_slot, rwh_store_slot. cbn [rm_msteps fold_left].
  set (m1 := rc_step N m 0 (RWrite (wh_next s))).
  set (m2 := rc_step N m1 0 (RRel (rwh_slot lp))).
  destruct (hi_fresh _ _ Inv (wh_next s) (le_n _)) as [F1 F2].
  assert (X1 : rm_ext (rwh_keep (wh_next s)) m m1) by (apply rm_ext_write; unfold rwh_keep; lia).
  assert (X2 : rm_ext (rwh_keep (wh_next s)) m m2).
  { apply (rm_ext_trans _ m m1); [exact X1|apply rm_ext_sync; exact I]. }
  apply (rwh_inv_tick_intro s m); auto.
  - unfold m2. rewrite rm_sync_raced by exact I.
    apply rm_write_fresh_ok; [apply (hi_nr _ _ Inv)|exact F1|exact F2].
  - apply rwh_fresh_sync; [exact I|]. intros x Hx.
    destruct (hi_fresh _ _ Inv x ltac:(lia)) as [H1 H2]. unfold m1. split.
    + rewrite rm_step_Wc. destruct (Nat.eqb_spec x (wh_next s)); [lia|exact H1].
    + intros u. rewrite rm_step_R. apply H2.
  - intros j ch Hj. rewrite (wh_nth_set_nth _ _ _ _ Hlp) in Hj.
    destruct (Nat.eqb_spec j lp) as [->|Hne].
    + inversion Hj; subst ch. split; [lia|right].
      apply rm_rel_P; [reflexivity|apply rm_write_K].
    + destruct (hi_slots _ _ Inv j ch Hj) as [H1 H2]. split; [lia|].
      destruct H2 as [H2|H2]; [left; exact H2|right].
      apply (rm_P_ext _ _ _ _ _ X2); [exact H1|exact H2].
  - rewrite (wh_set_nth_length _ _ _ Hlp). apply Ht. exact X2.
Qed.

Lemma rwh_tick_inv s m :
  rwh_inv s m -> rwh_inv (fst (wh_tick_step o s)) (rm_msteps N m 0 (rwh_tick_ev o s)).
Proof.
  intros Inv. pose proof (hi_tick _ _ Inv) as Ht. pose proof (hi_n _ _ Inv) as Hn.
  unfold wh_tick_step, rwh_tick_ev.
  destruct (wh_tpc_of s) as [| |lp|lp last|lp last|last|] eqn:Etpc; cbn [rwh_tinv] in Ht.
  - (* WTIdle *)
    destruct (wh_ticks s) as [|k]; cbn [fst rm_msteps fold_left]; [exact Inv|].
    apply rwh_inv_tick_sync; [exact Inv|exact I|]. cbn [rwh_tinv].
    intros ch Hch. apply (rm_acq_K N m 0 (RAcq rwh_start) rwh_start); [reflexivity|].
    apply (hi_init _ _ Inv). exact Hch.
  - (* WT1 *)
    cbn [fst rm_msteps fold_left]. unfold wh_set_tpc.
    apply rwh_inv_tick_sync; [exact Inv|exact I|]. cbn [rwh_tinv].
    apply (rwh_started_ext _ (wh_next s) m); [exact Hn|apply rm_ext_sync; exact I|exact Ht].
  - (* WT2: load the slot *)
    destruct (nth_error (wh_slots s) lp) as [ch|] eqn:Eslot; cbn [fst rm_msteps fold_left]; unfold wh_set_tpc.
    + apply rwh_inv_tick_sync; [exact Inv|exact I|]. cbn [rwh_tinv].
      destruct (hi_slots _ _ Inv lp ch Eslot) as [H1 H2].
      split; [apply nth_error_Some; congruence|]. split; [exact H1|].
      destruct H2 as [H2|H2].
      * apply (rm_K_ext (rwh_keep (wh_next s)) m); [apply rm_ext_sync; exact I|exact H1|apply Ht; exact H2].
      * apply (rm_acq_K N m 0 (RAcq (rwh_slot lp)) (rwh_slot lp)); [reflexivity|exact H2].
    + apply rwh_inv_tick_noev; [exact Inv|exact I].
  - (* WT3 *)
    destruct Ht as (T1 & T2 & T3).
    destruct o; cbn [fst].
    + apply rwh_inv_store_slot; [exact Inv|exact T1|].
      intros m' X. cbn [rwh_tinv]. repeat split; [exact T1|lia|].
      apply (rm_K_ext _ _ _ _ _ X); [exact T2|exact T3].
    + cbn [rm_msteps fold_left]. unfold wh_store_pos.
      apply rwh_inv_tick_sync; [exact Inv|exact I|]. cbn [rwh_tinv]. repeat split; [exact T1|exact T2|].
      apply (rm_K_ext (rwh_keep (wh_next s)) m); [apply rm_ext_sync; exact I|exact T2|exact T3].
  - (* WT4 *)
    destruct Ht as (T1 & T2 & T3).
    destruct o; cbn [fst].
    + cbn [rm_msteps fold_left]. unfold wh_store_pos.
      apply rwh_inv_tick_sync; [exact Inv|exact I|]. cbn [rwh_tinv]. split; [exact T2|].
      apply (rm_K_ext (rwh_keep (wh_next s)) m); [apply rm_ext_sync; exact I|exact T2|exact T3].
    + apply rwh_inv_store_slot; [exact Inv|exact T1|].
      intros m' X. cbn [rwh_tinv]. split; [lia|].
      apply (rm_K_ext _ _ _ _ _ X); [exact T2|exact T3].
  - (* WT5: close(lastItem.c) reads the field *)
    destruct Ht as (T2 & T3).
    assert (Hgen : forall log' ncl' tpc' ,
              match tpc' with WTIdle | WTDead => True | _ => False end ->
              rwh_inv (wh_upd_ticker s (wh_pos s) (wh_slots s) (wh_next s) log' (wh_nstarted s) ncl' tpc' (wh_ticks s))
                      (rc_step N m 0 (RRead last))).
    { intros log' ncl' tpc' Htpc. apply (rwh_inv_tick_intro s m); auto.
      - apply rm_ext_read.
      - apply rm_read_ok; [apply (hi_nr _ _ Inv)|exact T3].
      - apply rwh_fresh_read; [exact T2|apply (hi_fresh _ _ Inv)].
      - apply (rwh_slots_ext _ (wh_next s) _ m); auto; [apply rm_ext_read|apply (hi_slots _ _ Inv)].
      - destruct tpc'; try contradiction; exact I. }
    destruct (wh_closed_at s last); cbn [fst rm_msteps fold_left]; unfold wh_set_tpc; apply Hgen; exact I.
  - (* WTDead *)
    exact Inv.
Qed.

(* ------------------------------------------------------------------ requester steps *)
Lemma rwh_inv_req_intro s m k th th' m' :
  rwh_inv s m -> nth_error (wh_threads s) k = Some th ->
  rm_ext (rwh_keep (wh_next s)) m m' ->
  rc_raced m' = false -> rwh_fresh (wh_next s) m' ->
  rwh_rinv (wh_n s) (wh_next s) m' (S k) (wh_rpc_of th') ->
  rwh_inv (wh_set_thread s k th') m'.
Proof.
  intros [A1 A2 A3 A4 A5 A6 A7] E X Hnr Hfr Hme.
  assert (Hk : k < length (wh_threads s)) by (apply nth_error_Some; congruence).
  constructor; unfold wh_set_thread; cbn [wh_n wh_next wh_slots wh_tpc_of wh_threads]; try assumption.
  - intros ch Hch. apply (rm_P_ext _ _ _ _ _ X); [unfold rwh_keep; lia|apply A4; exact Hch].
  - apply (rwh_slots_ext _ (wh_next s) _ m); auto.
  - apply (rwh_tinv_ext _ (wh_next s) _ _ m); auto.
  - intros k' th2 Hk'. rewrite (wh_nth_set_nth _ _ _ _ Hk) in Hk'.
    destruct (Nat.eqb_spec k' k) as [->|Hne].
    + inversion Hk'; subst th2. exact Hme.
    + apply (rwh_rinv_ext _ (wh_next s) _ m); auto.
Qed.

Lemma rwh_inv_req_sync s m k th th' e :
  rwh_inv s m -> nth_error (wh_threads s) k = Some th -> rm_sync e ->
  rwh_rinv (wh_n s) (wh_next s) (rc_step N m (S k) e) (S k) (wh_rpc_of th') ->
  rwh_inv (wh_set_thread s k th') (rc_step N m (S k) e).
Proof.
  intros Inv E He Hme. apply (rwh_inv_req_intro s m k th); auto.
  - apply rm_ext_sync. exact He.
  - rewrite rm_sync_raced by exact He. apply (hi_nr _ _ Inv).
  - apply rwh_fresh_sync; [exact He|apply (hi_fresh _ _ Inv)].
Qed.

Lemma rwh_inv_req_noev s m k th th' :
  rwh_inv s m -> nth_error (wh_threads s) k = Some th ->
  rwh_rinv (wh_n s) (wh_next s) m (S k) (wh_rpc_of th') ->
  rwh_inv (wh_set_thread s k th') m.
Proof.
  intros Inv E Hme. apply (rwh_inv_req_intro s m k th); auto.
  - apply rm_ext_refl.
  - apply (hi_nr _ _ Inv).
  - apply (hi_fresh _ _ Inv).
Qed.

Lemma rwh_req_inv s m k th :
  rwh_inv s m -> nth_error (wh_threads s) k = Some th ->
  rwh_inv (wh_set_thread s k (fst (wh_req_step_th o s th))) (rm_msteps N m (S k) (rwh_req_ev o s th)).
Proof.
  intros Inv E. pose proof (hi_req _ _ Inv k th E) as Hr. pose proof (hi_n _ _ Inv) as Hn.
  unfold wh_req_step_th, rwh_req_ev.
  destruct (wh_rpc_of th) as [|i k0|i k0 p|i k0 p ch|] eqn:Epc; cbn [rwh_rinv] in Hr.
  - (* WRIdle *)
    destruct (wh_todo th) as [|op rest]; cbn [fst rm_msteps fold_left].
    + apply (rwh_inv_req_noev s m k th); [exact Inv|exact E|rewrite Epc; exact I].
    + destruct (wh_eff_duration (wh_s s) (wh_tint th) op) as [d ti] eqn:Ed. cbn [fst].
      destruct (wh_bucket_index (wh_s s) (wh_n s) d) as [i|]; cbn [fst rm_msteps fold_left].
      * apply (rwh_inv_req_sync s m k th); [exact Inv|exact E|exact I|]. cbn [wh_rpc_of rwh_rinv].
        intros ch Hch. apply (rm_acq_K N m (S k) (RAcq rwh_start) rwh_start); [reflexivity|].
        apply (hi_init _ _ Inv). exact Hch.
      * apply (rwh_inv_req_noev s m k th); [exact Inv|exact E|exact I].
  - (* WR1 *)
    cbn [fst rm_msteps fold_left].
    apply (rwh_inv_req_sync s m k th); [exact Inv|exact E|exact I|]. cbn [wh_rpc_of rwh_rinv].
    apply (rwh_started_ext _ (wh_next s) m); [exact Hn|apply rm_ext_sync; exact I|exact Hr].
  - (* WR2: load the slot *)
    set (j := (p + i) mod wh_n s).
    destruct (nth_error (wh_slots s) j) as [ch|] eqn:Eslot; cbn [fst rm_msteps fold_left].
    + destruct (hi_slots _ _ Inv j ch Eslot) as [H1 H2].
      set (m1 := rc_step N m (S k) (RAcq (rwh_slot j))).
      assert (X1 : rm_ext (rwh_keep (wh_next s)) m m1) by (apply rm_ext_sync; exact I).
      assert (K1 : rm_K m1 (S k) ch).
      { destruct H2 as [H2|H2].
        - apply (rm_K_ext _ _ _ _ _ X1); [exact H1|apply Hr; exact H2].
        - apply (rm_acq_K N m (S k) (RAcq (rwh_slot j)) (rwh_slot j)); [reflexivity|exact H2]. }
      destruct o; cbn [fst rm_msteps fold_left]; fold m1.
      * (* WOrig: returns, the caller reads data.c *)
        apply (rwh_inv_req_intro s m k th); [exact Inv|exact E| | | |exact I].
        -- apply (rm_ext_trans _ m m1); [exact X1|apply rm_ext_read].
        -- apply rm_read_ok; [|exact K1]. unfold m1. rewrite rm_sync_raced by exact I. apply (hi_nr _ _ Inv).
        -- apply rwh_fresh_read; [exact H1|]. apply rwh_fresh_sync; [exact I|apply (hi_fresh _ _ Inv)].
      * apply (rwh_inv_req_sync s m k th); [exact Inv|exact E|exact I|]. cbn [wh_rpc_of rwh_rinv].
        split; [|split; [exact H1|exact K1]].
        apply (rwh_started_ext _ (wh_next s) m); [exact Hn|exact X1|exact Hr].
    + apply (rwh_inv_req_noev s m k th); [exact Inv|exact E|exact I].
  - (* WR3: re-validate, return *)
    destruct Hr as (R1 & R2 & R3).
    set (m1 := rc_step N m (S k) (RAcq rwh_pos)).
    assert (X1 : rm_ext (rwh_keep (wh_next s)) m m1) by (apply rm_ext_sync; exact I).
    destruct (p =? wh_pos s); cbn [fst rm_msteps fold_left app]; fold m1.
    + apply (rwh_inv_req_intro s m k th); [exact Inv|exact E| | | |exact I].
      * apply (rm_ext_trans _ m m1); [exact X1|apply rm_ext_read].
      * apply rm_read_ok.
        -- unfold m1. rewrite rm_sync_raced by exact I. apply (hi_nr _ _ Inv).
        -- apply (rm_K_ext _ _ _ _ _ X1); [exact R2|exact R3].
      * apply rwh_fresh_read; [exact R2|]. apply rwh_fresh_sync; [exact I|apply (hi_fresh _ _ Inv)].
    + apply (rwh_inv_req_sync s m k th); [exact Inv|exact E|exact I|]. cbn [wh_rpc_of rwh_rinv].
      apply (rwh_started_ext _ (wh_next s) m); [exact Hn|exact X1|exact R1].
  - (* WRDead *)
    cbn [fst rm_msteps fold_left].
    apply (rwh_inv_req_noev s m k th); [exact Inv|exact E|rewrite Epc; exact I].
Qed.

Lemma rwh_step_inv s m tid :
  rwh_inv s m -> rwh_inv (fst (wh_step o s tid)) (rm_msteps N m tid (rwh_step o s tid)).
Proof.
  intros Inv. destruct tid as [|k]; cbn [wh_step rwh_step].
  - apply rwh_tick_inv. exact Inv.
  - destruct (nth_error (wh_threads s) k) as [th|] eqn:E; [|exact Inv].
    pose proof (rwh_req_inv s m k th Inv E) as H.
    destruct (wh_req_step_th o s th) as [th' ev]. exact H.
Qed.

Lemma rwh_run_inv sched : forall s m,
  rwh_inv s m ->
  rc_raced (fold_left (fun m p => rc_step N m (fst p) (snd p)) (rwh_trace_from o s sched) m) = false.
Proof.
  induction sched as [|i r IH]; intros s m Inv; cbn [rwh_trace_from fold_left].
  - apply (hi_nr _ _ Inv).
  - rewrite rm_run_map. apply IH. apply rwh_step_inv. exact Inv.
Qed.

(* ------------------------------------------------------------------ NewWheel *)
Record rwh_sinv (su k : nat) (m : rc_mon) : Prop := {
  hs_nr : rc_raced m = false;
  hs_fresh : forall x, k <= x -> rc_Wc m x = 0;
  hs_R : forall x u, rc_R m x u = 0;
  hs_K : forall ch, ch < k -> rm_K m su ch
}.

Lemma rwh_setup_writes su k : rwh_sinv su k (rm_msteps N rc_init su (map RWrite (seq 0 k))).
Proof.
  induction k as [|k IH].
  - constructor; try reflexivity. intros; lia.
  - rewrite seq_S, map_app. unfold rm_msteps in *. rewrite fold_left_app. cbn [map fold_left Nat.add].
    destruct IH as [A1 A2 A3 A4].
    set (m := fold_left (fun m e => rc_step N m su e) (map RWrite (seq 0 k)) rc_init) in *.
    constructor.
    + apply rm_write_fresh_ok; [exact A1|apply A2; lia|intros u; apply A3].
    + intros x Hx. rewrite rm_step_Wc. destruct (Nat.eqb_spec x k); [lia|apply A2; lia].
    + intros x u. rewrite rm_step_R. apply A3.
    + intros ch Hch. destruct (Nat.eq_dec ch k) as [->|Hne]; [apply rm_write_K|].
      apply (rm_K_ext (fun x => x <> k) m); [apply rm_ext_write; tauto|exact Hne|apply A4; lia].
Qed.

Lemma rwh_seq_nth n j ch : nth_error (seq 0 n) j = Some ch -> ch < n.
Proof. intros H. apply nth_error_In in H. apply in_seq in H. lia. Qed.

Lemma rwh_init_inv st n ticks progs :
  let s := wh_init st n ticks progs in
  rwh_inv s (rc_run N (rwh_setup s)).
Proof.
  intros s. unfold rc_run, rwh_setup.
  rewrite <- (app_nil_r (map (pair (rwh_setup_tid s)) _)), rm_run_map. cbn [fold_left].
  unfold rm_msteps. rewrite fold_left_app. cbn [fold_left].
  destruct (rwh_setup_writes (rwh_setup_tid s) (wh_n s)) as [A1 A2 A3 A4]. unfold rm_msteps in *.
  set (m := fold_left (fun m e => rc_step N m (rwh_setup_tid s) e) (map RWrite (seq 0 (wh_n s))) rc_init) in *.
  constructor; cbn [s wh_init wh_n wh_next wh_slots wh_tpc_of wh_threads].
  - rewrite rm_sync_raced by exact I. exact A1.
  - apply rwh_fresh_sync; [exact I|]. intros x Hx. split; [apply A2; exact Hx|intros u; apply A3].
  - apply le_n.
  - intros ch Hch. apply rm_rel_P; [reflexivity|apply A4; exact Hch].
  - intros j ch Hj. apply rwh_seq_nth in Hj. split; [exact Hj|left; exact Hj].
  - exact I.
  - intros k th Hk. rewrite nth_error_map in Hk. destruct (nth_error progs k); inversion Hk; subst.
    exact I.
Qed.

End RWH.

(* ------------------------------------------------------------------ well-formedness *)
Lemma rwh_step_threads o s tid : length (wh_threads (fst (wh_step o s tid))) = length (wh_threads s).
Proof.
  destruct tid as [|k]; cbn [wh_step].
  - rewrite wh_tick_step_threads. reflexivity.
  - destruct (nth_error (wh_threads s) k) as [th|] eqn:E; [|reflexivity].
    destruct (wh_req_step_th o s th) as [th' ev]. cbn [fst wh_set_thread wh_threads].
    apply wh_set_nth_length. apply nth_error_Some. congruence.
Qed.

Lemma rwh_trace_from_wf o sched : forall s,
  hb_wf (rwh_nthreads s) (rwh_trace_from o s sched).
Proof.
  induction sched as [|i r IH]; intros s; cbn [rwh_trace_from]; [constructor|].
  apply rm_wf_app.
  - destruct i as [|k]; cbn [rwh_step].
    + apply rm_wf_map. unfold rwh_nthreads, rwh_setup_tid. lia.
    + destruct (nth_error (wh_threads s) k) as [th|] eqn:E; [|constructor].
      apply rm_wf_map. assert (k < length (wh_threads s)) by (apply nth_error_Some; congruence).
      unfold rwh_nthreads, rwh_setup_tid. lia.
  - specialize (IH (fst (wh_step o s i))). unfold rwh_nthreads, rwh_setup_tid in *.
    rewrite rwh_step_threads in IH. exact IH.
Qed.

Lemma rwh_trace_wf o s sched : hb_wf (rwh_nthreads s) (rwh_trace o s sched).
Proof.
  apply rm_wf_app; [|apply rwh_trace_from_wf].
  apply rm_wf_map. unfold rwh_nthreads. lia.
Qed.

(* ------------------------------------------------------------------ the theorems *)
Theorem rwh_monitor_silent o st n ticks progs sched :
  let s := wh_init st n ticks progs in
  rc_raced (rc_run (rwh_nthreads s) (rwh_trace o s sched)) = false.
Proof.
  intros s. unfold rwh_trace, rc_run. rewrite fold_left_app.
  apply rwh_run_inv. apply rwh_init_inv.
Qed.

Theorem rwh_race_free o st n ticks progs sched :
  ~ hb_race (rwh_trace o (wh_init st n ticks progs) sched).
Proof.
  apply (hbp_agree (rwh_nthreads (wh_init st n ticks progs))); [apply rwh_trace_wf|apply rwh_monitor_silent].
Qed.

Theorem rwh_conflicts_ordered o st n ticks progs sched i j :
  i < j -> j < length (rwh_trace o (wh_init st n ticks progs) sched) ->
  hb_conflict (rwh_trace o (wh_init st n ticks progs) sched) i j ->
  hb_hb (rwh_trace o (wh_init st n ticks progs) sched) i j.
Proof.
  apply (hbp_norace_ordered (rwh_nthreads (wh_init st n ticks progs)));
    [apply rwh_trace_wf|apply rwh_monitor_silent].
Qed.

(* what the ordering rests on.  With the original store order (slot first, no re-validation) a
   requester that loaded position before the tick and the slot after the tick's StorePointer
   reads the fresh wheelData's field; the only edge from the ticker's write (event 8) to that
   read (event 11) is StorePointer -> LoadPointer: without the release (event 9: the slot
   written by a plain store) the pair races *)
Lemma rwh_without_store_release_refuted :
  let tr := rwh_trace WOrig (wh_init 10%Z 2 1 [[WhNew 10%Z]]) [1;1; 0;0;0;0; 1] in
  nth_error tr 8 = Some (0, RWrite 2) /\ nth_error tr 9 = Some (0, RRel (rwh_slot 0)) /\
  nth_error tr 11 = Some (1, RRead 2) /\
  ~ hb_race tr /\ hb_race (firstn 9 tr ++ skipn 10 tr).
Proof.
  split; [vm_compute; reflexivity|]. split; [vm_compute; reflexivity|].
  split; [vm_compute; reflexivity|]. split; [apply rwh_race_free|].
  apply (hbp_sound 3). vm_compute. reflexivity.
Qed.

(* ------------------------------------------------------------------ labelling vs yield sites
   C03 checks at every step that the real goroutine is parked at the yield site the model
   predicts ([wh_site], numbers of loom/verif_on.go: 3 FetchLoadPosition, 4 FetchLoadSlot,
   5 FetchReloadPosition, 6 TickLoadPosition, 7 TickLoadSlot, 8 TickStorePosition,
   9 TickStoreSlot, 10 TickClose).  The labelling emits the operation the site names. *)
Lemma rwh_sites o s tid :
  match wh_site o s tid with
  | 3 | 5 | 6 => exists rest, rwh_step o s tid = RAcq rwh_pos :: rest
                              /\ Forall (fun e => ~ rm_sync e) rest
  | 4 | 7 => rwh_step o s tid = [] \/
             exists j rest, rwh_step o s tid = RAcq (rwh_slot j) :: rest
                            /\ Forall (fun e => ~ rm_sync e) rest
  | 8 => rwh_step o s tid = [RRel rwh_pos]
  | 9 => exists lp, rwh_step o s tid = rwh_store_slot s lp
  | 10 => exists last, rwh_step o s tid = [RRead last]
  | _ => True
  end.
Proof.
  destruct tid as [|k]; cbn [wh_site rwh_step].
  - unfold rwh_tick_ev. destruct (wh_tpc_of s) as [| |lp|lp last|lp last|last|]; try exact I.
    + eexists. split; [reflexivity|constructor].
    + destruct (nth_error (wh_slots s) lp); [right|left; reflexivity].
      eexists _, _. split; [reflexivity|constructor].
    + destruct o; [eexists|]; reflexivity.
    + destruct o; [|eexists]; reflexivity.
    + eexists. reflexivity.
  - destruct (nth_error (wh_threads s) k) as [th|]; [|exact I].
    unfold rwh_req_ev. destruct (wh_rpc_of th) as [|i k0|i k0 p|i k0 p ch|]; try exact I.
    + eexists. split; [reflexivity|constructor].
    + destruct (nth_error (wh_slots s) ((p + i) mod wh_n s)); [right|left; reflexivity].
      destruct o; eexists _, _; (split; [reflexivity|]); repeat constructor. intros [].
    + eexists. split; [reflexivity|]. destruct (p =? wh_pos s); repeat constructor. intros [].
Qed.
