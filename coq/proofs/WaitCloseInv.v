(* WaitCloseInv.v -- the inductive invariant of the WaitClose model (models/WaitClose.v) and its
   preservation by one step of one thread. Used by proofs/WaitCloseProofs.v. *)
From Got Require Import Base WaitClose.
Local Open Scope nat_scope.

(* ------------------------------------------------------------------ histories *)
Lemma wc_performs_app h1 h2 : wc_performs (h1 ++ h2) = wc_performs h1 ++ wc_performs h2.
Proof. apply flat_map_app. Qed.
Lemma wc_cb_starts_app h1 h2 : wc_cb_starts (h1 ++ h2) = wc_cb_starts h1 ++ wc_cb_starts h2.
Proof. apply flat_map_app. Qed.
Lemma wc_cb_ends_app h1 h2 : wc_cb_ends (h1 ++ h2) = wc_cb_ends h1 ++ wc_cb_ends h2.
Proof. apply flat_map_app. Qed.
Lemma wc_close_rets_app h1 h2 : wc_close_rets (h1 ++ h2) = wc_close_rets h1 ++ wc_close_rets h2.
Proof. apply flat_map_app. Qed.
Lemma wc_ret_chans_app h1 h2 : wc_ret_chans (h1 ++ h2) = wc_ret_chans h1 ++ wc_ret_chans h2.
Proof. apply flat_map_app. Qed.
Lemma wc_close_panics_app h1 h2 : wc_close_panics (h1 ++ h2) = wc_close_panics h1 ++ wc_close_panics h2.
Proof. apply flat_map_app. Qed.

Ltac wc_hsimp :=
  rewrite ?wc_performs_app, ?wc_cb_starts_app, ?wc_cb_ends_app, ?wc_close_rets_app,
          ?wc_ret_chans_app, ?wc_close_panics_app;
  cbn [map wc_performs wc_cb_starts wc_cb_ends wc_close_rets wc_ret_chans wc_close_panics
       flat_map snd fst app];
  rewrite ?app_nil_r.

(* ------------------------------------------------------------------ the invariant *)

(* global part: history h against the shared memory g; n = number of threads *)
Definition wc_ginv (h : wc_hist) (g : wc_shared) (n : nat) : Prop :=
  (forall i, sh_own g = Some i -> i < n) /\
  wc_close_panics h = [] /\
  (wc_ret_chans h <> [] -> sh_st g <> WNew) /\
  Forall (fun c => c = sh_ch g) (wc_ret_chans h) /\
  match wc_performs h with
  | [] =>
      (* the close has not been performed *)
      sh_st g <> WClosed /\ (sh_st g = WNew -> sh_ch g = WNil) /\
      (sh_st g = WInit -> exists c, sh_ch g = WMade c) /\
      sh_clo g = [] /\ wc_cb_starts h = [] /\ wc_cb_ends h = [] /\ wc_close_rets h = []
  | [(p, pch)] =>
      (* performed by p on channel pch: either finished (state Closed, callback over), or p
         still owns the mutex and its callback is running *)
      sh_ch g = pch /\ wc_closedb g pch = true /\
      ((sh_st g = WClosed /\ wc_cb_ends h = wc_cb_starts h /\
        (wc_cb_starts h = [] \/ wc_cb_starts h = [p])) \/
       (sh_st g <> WClosed /\ sh_own g = Some p /\ wc_cb_starts h = [p] /\ wc_cb_ends h = [] /\
        wc_close_rets h = []))
  | _ => False
  end.

(* what thread i parked at pc knows *)
Definition wc_linv (h : wc_hist) (g : wc_shared) (i : nat) (pc : wc_pc) : Prop :=
  (sh_own g = Some i <-> wc_hold pc = true) /\
  match pc with
  | WK3 _ | WC3 _ => sh_st g <> WClosed -> wc_performs h = []
  | WK4 _ => sh_st g <> WClosed /\ exists pch, wc_performs h = [(i, pch)]
  | WK6 _ => sh_st g = WClosed
  | WC4 _ => sh_st g <> WNew
  | WWait c => sh_st g <> WNew /\ c = sh_ch g
  | _ => True
  end.

Definition wc_inv (h : wc_hist) (s : wc_state) : Prop :=
  wc_ginv h (wc_sh s) (length (wc_threads s)) /\
  forall i th, nth_error (wc_threads s) i = Some th -> wc_linv h (wc_sh s) i (wc_pcof th).

(* what a step of thread i may change, as seen by the other threads *)
Definition wc_frame (h : wc_hist) (g : wc_shared) (h' : wc_hist) (g' : wc_shared) (i : nat) : Prop :=
  (sh_own g' = sh_own g \/ (sh_own g = None /\ sh_own g' = Some i) \/
   (sh_own g = Some i /\ sh_own g' = None)) /\
  (sh_own g <> Some i -> sh_st g' = sh_st g /\ sh_ch g' = sh_ch g /\ wc_performs h' = wc_performs h) /\
  (sh_st g = WClosed -> sh_st g' = WClosed) /\
  (sh_st g <> WNew -> sh_st g' <> WNew /\ sh_ch g' = sh_ch g).

Lemma wc_linv_frame h g h' g' i j pc :
  j <> i -> wc_frame h g h' g' i -> wc_linv h g j pc -> wc_linv h' g' j pc.
Proof.
  intros Hji (F1 & F2 & F3 & F4) (L1 & L2).
  assert (Hown : sh_own g' = Some j <-> sh_own g = Some j).
  { destruct F1 as [E | [[E1 E2] | [E1 E2]]].
    - rewrite E. tauto.
    - rewrite E1, E2. split; intros X; [inversion X; congruence | discriminate].
    - rewrite E1, E2. split; intros X; [discriminate | inversion X; congruence]. }
  split; [rewrite Hown; exact L1|].
  assert (Hne : wc_hold pc = true -> sh_own g <> Some i).
  { intros Hh. apply L1 in Hh. rewrite Hh. intros X. inversion X. congruence. }
  destruct pc; cbn [wc_hold] in *; try exact I.
  - destruct (F2 (Hne eq_refl)) as (E1 & E2 & E3). rewrite E1, E3. exact L2.
  - destruct (F2 (Hne eq_refl)) as (E1 & E2 & E3). rewrite E1, E3. exact L2.
  - apply F3. exact L2.
  - destruct (F2 (Hne eq_refl)) as (E1 & E2 & E3). rewrite E1, E3. exact L2.
  - apply F4. exact L2.
  - destruct L2 as [L2 L3]. destruct (F4 L2) as [E1 E2]. split; [exact E1 | congruence].
Qed.

Ltac wc_destr H :=
  match type of H with
  | context [match ?x with _ => _ end] =>
      let rec inn x := lazymatch x with
        | context [match ?y with _ => _ end] => inn y
        | _ => (tryif is_var x then destruct x else destruct x eqn:?)
      end in inn x
  end.

Ltac wc_split :=
  repeat match goal with
  | H : _ /\ _ |- _ => destruct H
  | H : exists _, _ |- _ => destruct H
  | |- _ /\ _ => split
  end.

Ltac wc_fin :=
  solve [ exact I | assumption | discriminate | congruence
        | (intros; discriminate) | (intros; congruence)
        | (eexists; reflexivity) | (intros; eexists; reflexivity)
        | (intros ? X; inversion X; subst; assumption)
        | (apply Forall_app; split; [assumption | constructor; [reflexivity | constructor]])
        | (match goal with G3 : wc_ret_chans ?h <> [] -> WNew <> WNew |- Forall _ (wc_ret_chans ?h) =>
             destruct (wc_ret_chans h); [constructor | exfalso; apply G3; [discriminate | reflexivity]] end)
        | (cbn [wc_closedb sh_clo existsb]; rewrite Nat.eqb_refl; reflexivity)
        | (intuition congruence) ].

(* one step of one thread preserves the global invariant, establishes the thread's new
   local invariant and respects the frame *)
Lemma wc_step_pc_inv h g n i tmo pc todo g' pc' todo' acts :
  wc_ginv h g n -> wc_linv h g i pc -> i < n ->
  wc_step_pc g i tmo pc todo = (g', pc', todo', acts) ->
  wc_ginv (h ++ map (pair i) acts) g' n /\
  wc_linv (h ++ map (pair i) acts) g' i pc' /\
  wc_frame h g (h ++ map (pair i) acts) g' i.
Proof.
  intros G L Hi H.
  destruct g as [st ch nm clo own].
  unfold wc_ginv, wc_linv, wc_frame in *.
  destruct G as (G1 & G2 & G3 & G4 & G5). destruct L as (L1 & L2).
  unfold wc_step_pc, wc_finish, wc_perform, sh_set_own, sh_set_st, sh_set_ch, wc_is_closed_st, wc_is_new_st in H.
  cbn [sh_st sh_ch sh_nmade sh_clo sh_own] in *.
  destruct (wc_performs h) as [|[p pch] [|? ?]] eqn:Ep; [| |contradiction].
  all: destruct tmo; destruct pc;
    repeat (cbn beta iota zeta in H; cbn [sh_st sh_ch sh_nmade sh_clo sh_own] in H; wc_destr H);
    cbn beta iota zeta in H;
    inversion H; subst; clear H; wc_hsimp; rewrite ?Ep; cbn [app wc_hold sh_st sh_ch sh_nmade sh_clo sh_own] in *;
    wc_split;
    repeat match goal with H : ?a = ?a -> _ |- _ => specialize (H eq_refl) end;
    wc_split; subst;
    repeat match goal with
      | H : WMade _ = WMade _ |- _ => inversion H; subst; clear H
      | H : [_] = [_] |- _ => inversion H; subst; clear H
      end;
    repeat match goal with H : ?f ?hh = ?v |- context [?f ?hh] => is_var hh; rewrite H end;
    cbn [app];
    try wc_fin.
  match goal with H : _ \/ _ |- _ => destruct H as [[? _]|(_ & _ & E1 & E2 & _)] end; [contradiction|].
  rewrite E1, E2. left. repeat split; auto.
Qed.

