(* RaceAtomicsProofs.v -- the labelled runs of the Flag / AddIf64 model (models/RaceAtomics.v):
     ra_lrun_projects   the labelled run projects to at_run (same final state, same event trace),
                        and its memory events are ra_trace
     ra_all_atomic      every memory event of every run is a synchronisation event (no plain access)
     ra_race_free       hence no happens-before race, for all words, programs, schedules
     ra_labels_match_events / ra_sites   the label of a step is determined by the at_event C17
                        compares with the code at every step / by the yield site it starts from
     ra_word_change_is_release   a step that changes the word emits a release on it
     ra_plain_refuted   AddFlag as a plain read-modify-write races in the same analysis *)
From Coq Require Import Relations.
From Got Require Import Base ListAux Race RaceProofs RaceHB RaceHBProofs RaceMonLemmas.
From Got Require Import Atomics RaceAtomics.
Local Open Scope nat_scope.

(* ------------------------------------------------------------------ traces without plain accesses *)
Definition rm_all_sync (tr : hb_trace) : Prop := Forall (fun p => rm_sync (snd p)) tr.

Lemma rm_all_sync_no_conflict tr i j : rm_all_sync tr -> ~ hb_conflict tr i j.
Proof.
  intros H (ti & ei & tj & ej & x & Ei & _ & _ & Ai & _).
  apply nth_error_In in Ei. unfold rm_all_sync in H. rewrite Forall_forall in H.
  specialize (H _ Ei). cbn [snd] in H. destruct ei; cbn in Ai, H; contradiction.
Qed.

Lemma rm_all_sync_no_race tr : rm_all_sync tr -> ~ hb_race tr.
Proof.
  intros H (i & j & _ & _ & Hc & _). exact (rm_all_sync_no_conflict tr i j H Hc).
Qed.

Lemma rm_all_sync_app a b : rm_all_sync a -> rm_all_sync b -> rm_all_sync (a ++ b).
Proof. unfold rm_all_sync. intros. apply Forall_app. split; assumption. Qed.

Lemma rm_all_sync_map t evs : Forall rm_sync evs -> rm_all_sync (map (pair t) evs).
Proof.
  intros H. unfold rm_all_sync. apply Forall_forall. intros p Hp. apply in_map_iff in Hp.
  destruct Hp as [e [<- He]]. cbn [snd]. rewrite Forall_forall in H. apply H. exact He.
Qed.

(* a release and a later acquire on the same object are ordered (one synchronizes-with edge) *)
Lemma rm_hb_sw (tr : hb_trace) i j ti tj ei ej o :
  i < j -> nth_error tr i = Some (ti, ei) -> nth_error tr j = Some (tj, ej) ->
  hb_is_rel ei o -> hb_is_acq ej o -> hb_hb tr i j.
Proof.
  intros Hij Ei Ej Hr Ha. apply t_step. right. split; [exact Hij|].
  exists ti, ei, tj, ej, o. repeat split; assumption.
Qed.

(* ------------------------------------------------------------------ the labelled run *)
Lemma ra_lrun_projects : forall sched s,
  fst (ra_lrun s sched) = at_final s sched /\
  map fst (snd (ra_lrun s sched)) = at_trace s sched /\
  ra_flatten (snd (ra_lrun s sched)) = ra_trace s sched.
Proof.
  induction sched as [|i r IH]; intros s; [repeat split|].
  unfold at_final, at_trace, ra_trace in *. cbn [ra_lrun at_run ra_trace_gen].
  destruct (at_step s i) as [s1 ev] eqn:E1. specialize (IH s1).
  destruct (ra_lrun s1 r) as [s2 tr] eqn:E2. destruct (at_run s1 r) as [s3 tr'] eqn:E3.
  cbn [fst snd] in *. destruct IH as (A & B & C). repeat split.
  - exact A.
  - cbn [map fst]. f_equal. exact B.
  - unfold ra_flatten in *. cbn [flat_map fst snd]. f_equal. exact C.
Qed.

Lemma ra_step_pc_sync w pc todo : Forall rm_sync (ra_step_pc false w pc todo).
Proof.
  destruct pc; cbn [ra_step_pc ra_load ra_cas].
  - destruct todo as [|[]]; repeat constructor.
  - repeat constructor.
  - destruct (w =? last)%Z; repeat constructor.
  - repeat constructor.
  - destruct (w =? expect)%Z; repeat constructor.
Qed.

Lemma ra_events_sync s i : Forall rm_sync (ra_events false s i).
Proof. unfold ra_events. destruct (nth_error (at_threads s) i); [apply ra_step_pc_sync|constructor]. Qed.

Lemma ra_all_atomic : forall sched s, rm_all_sync (ra_trace s sched).
Proof.
  induction sched as [|i r IH]; intros s; [constructor|].
  unfold ra_trace. cbn [ra_trace_gen]. apply rm_all_sync_app; [apply rm_all_sync_map, ra_events_sync|apply IH].
Qed.

Theorem ra_race_free s sched : ~ hb_race (ra_trace s sched).
Proof. apply rm_all_sync_no_race, ra_all_atomic. Qed.

Lemma ra_race_free_init (w : Z) progs sched : ~ hb_race (ra_trace (at_init w progs) sched).
Proof. apply ra_race_free. Qed.
Lemma ra_all_atomic_init (w : Z) progs sched :
  Forall (fun p => rm_sync (snd p)) (ra_trace (at_init w progs) sched).
Proof. apply ra_all_atomic. Qed.
Lemma ra_lrun_projects' s sched :
  fst (ra_lrun s sched) = at_final s sched /\
  map fst (snd (ra_lrun s sched)) = at_trace s sched /\
  ra_flatten (snd (ra_lrun s sched)) = ra_trace s sched.
Proof. apply ra_lrun_projects. Qed.

(* ------------------------------------------------------------------ labels vs. model events / sites *)
Lemma ra_labels_match_events s i :
  match snd (at_step s i) with
  | AEInv _ | AENone => ra_events false s i = []
  | AELoad | AECasFail | AEHas _ _ | AEIfFalse _ => ra_events false s i = [RAcq ra_word]
  | AEFlagEff _ _ | AEIfAdd _ _ => ra_events false s i = [RAcqRel ra_word]
  end.
Proof.
  unfold at_step, ra_events. destruct (nth_error (at_threads s) i) as [th|]; [|reflexivity].
  destruct (at_pcof th); cbn [at_step_pc ra_step_pc ra_load ra_cas].
  - destruct (at_todo th) as [|[]]; reflexivity.
  - reflexivity.
  - destruct (at_word s =? last)%Z; reflexivity.
  - destruct (p (at_word s)); reflexivity.
  - destruct (at_word s =? expect)%Z; reflexivity.
Qed.

Lemma ra_word_change_is_release s i :
  at_word (fst (at_step s i)) <> at_word s -> ra_events false s i = [RAcqRel ra_word].
Proof.
  unfold at_step, ra_events. destruct (nth_error (at_threads s) i) as [th|]; [|intros H; exfalso; apply H; reflexivity].
  destruct (at_pcof th); cbn [at_step_pc ra_step_pc ra_load ra_cas].
  - destruct (at_todo th) as [|[]]; cbn; intros H; exfalso; apply H; reflexivity.
  - cbn. intros H; exfalso; apply H; reflexivity.
  - destruct (at_word s =? last)%Z; cbn; [reflexivity|intros H; exfalso; apply H; reflexivity].
  - destruct (p (at_word s)); cbn; intros H; exfalso; apply H; reflexivity.
  - destruct (at_word s =? expect)%Z; cbn; [reflexivity|intros H; exfalso; apply H; reflexivity].
Qed.

Lemma ra_sites w pc todo :
  match at_site_pc pc with
  | 14 | 16 => ra_step_pc false w pc todo = [RAcq ra_word]
  | 15 | 17 => exists ok, ra_step_pc false w pc todo = ra_cas false ok
  | _ => ra_step_pc false w pc todo = [] \/ ra_step_pc false w pc todo = [RAcq ra_word]
  end.
Proof.
  destruct pc; cbn [at_site_pc ra_step_pc ra_load].
  - destruct todo as [|[]]; auto.
  - reflexivity.
  - eexists; reflexivity.
  - reflexivity.
  - eexists; reflexivity.
Qed.

(* ------------------------------------------------------------------ the faulty variant races *)
Lemma ra_plain_refuted :
  hb_race (ra_trace_gen true (at_init 0%Z [[AtAdd 1%Z]; [AtAdd 2%Z]]) [0; 1; 0; 1; 0; 1]).
Proof. apply (hbp_sound 2). vm_compute. reflexivity. Qed.

Lemma ra_rows_ok : ra_rows_in_table = true.
Proof. vm_compute. reflexivity. Qed.
