(* RaceCacheCases.v -- every step of [cs_step CsFixed] (its real effect rc_eff / rc_eff_start and
   its label rc_label / rc_label_start) satisfies the step description rc_sf of RaceCacheInv.v:
   the case analysis over the pcs of cachex. *)
From Got Require Import Base ListAux Race RaceProofs RaceHB RaceHBProofs RaceMonLemmas RaceCacheMon.
From Got Require Import Cache CacheProofs CacheSteps RaceCache RaceCacheStruct RaceCacheInv RaceCacheGen.
Local Open Scope nat_scope.

Lemma rc_fdone_unmap m k f : cs_fdone (rc_unmap m k) f = cs_fdone m f.
Proof. reflexivity. Qed.
Lemma rc_fdone_enqueue m n f : cs_fdone (cs_enqueue m n) f = cs_fdone m f.
Proof. reflexivity. Qed.
Lemma rc_fdone_dequeue m g q f : cs_fdone (rc_dequeue m g q) f = cs_fdone m f.
Proof. reflexivity. Qed.

(* all leaves of rc_eff *)
Ltac leaves pc E :=
  destruct pc as [ |k|k|k f|k f past|st last next|st last nx|k|k|fo|f|f past|x0|w f|w f p|w f p past|w x0
                  |k v e|k v e|k v e now|k v e now| |f v e|f v e now|f v e now| | |k f rest|k f past rest| ];
  cbn [rc_eff rc_fetched] in E;
  repeat (match type of E with
  | context [match c_lookup ?a ?b with _ => _ end] => destruct (c_lookup a b) eqn:?
  | context [match cs_fdone ?a ?b with _ => _ end] => destruct (cs_fdone a b) as [[[? ?] ?]|] eqn:?
  | context [match cs_status_of ?a ?b ?c with _ => _ end] => destruct (cs_status_of a b c) eqn:?
  | context [match cs_fpred ?a ?b with _ => _ end] => destruct (cs_fpred a b) eqn:?
  | context [match ?n with Some _ => _ | None => _ end] => is_var n; destruct n
  | context [if ?w then _ else _] => is_var w; destruct w
  | context [rc_swnext _ _ (c_map ?mm)] => destruct (c_map mm) as [|[? ?] ?] eqn:?
  | context [rc_swnext _ _ ?rest] => is_var rest; destruct rest as [|[? ?] ?]
  end; cbv beta iota in E; cbn [rc_swnext] in E);
  cbn [rc_swnext rc_fetched] in E; injection E as <- <- <-.

Ltac msimp :=
  rewrite ?rc_len_new, ?rc_len_set, ?rc_len_store_done, ?rc_len_store_pred,
          ?rc_fdone_new, ?rc_fdone_set, ?rc_fdone_store_pred, ?rc_fdone_unmap, ?rc_fdone_enqueue in *;
  cbn [rc_unmap cs_enqueue cs_with c_futs c_queue c_map] in *.

Section Mem.
Variables (cfg : c_cfg) (m : c_state) (lk : option nat) (tid : nat).
Local Notation nf := (length (c_futs m)).

Lemma sfa_len pc m' lk' pc' :
  rc_eff cfg m lk tid pc = (m', lk', pc') -> nf <= length (c_futs m') <= S nf.
Proof. intros E. leaves pc E; msimp; lia. Qed.

Lemma sfa_grow pc m' lk' pc' :
  rc_eff cfg m lk tid pc = (m', lk', pc') -> length (c_futs m') = S nf ->
  rc_holds pc = true /\ rc_setter pc' = false /\
  ((exists k v e now, pc = CsSSP k v e now /\ cs_fdone m' nf <> None) \/
   (rc_setter pc = false /\ cs_fdone m' nf = None)).
Proof.
  intros E. leaves pc E; msimp; intros Hg; try lia.
  all: split; [reflexivity|]; split; [reflexivity|].
  all: try (right; split; [reflexivity|]; apply rc_fdone_none_ge; lia).
  left. exists k, v, e, now. split; [reflexivity|]. rewrite Nat.eqb_refl. discriminate.
Qed.

Lemma sfa_done pc m' lk' pc' :
  rc_eff cfg m lk tid pc = (m', lk', pc') -> forall g, cs_fdone m g <> None -> cs_fdone m' g <> None.
Proof.
  intros E g. leaves pc E; msimp; auto.
  - destruct (g =? nf); [discriminate|auto].
  - destruct (Nat.lt_ge_cases f nf) as [A|A].
    + rewrite rc_fdone_store_done by exact A. destruct (g =? f); [discriminate|auto].
    + unfold cs_store_done. assert (H : c_get (c_futs m) f = None) by (apply nth_error_None; exact A).
      rewrite H. auto.
Qed.

Lemma sfa_undone pc m' lk' pc' :
  rc_eff cfg m lk tid pc = (m', lk', pc') -> forall g, cs_fdone m g = None -> cs_fdone m' g <> None ->
  (g = nf /\ rc_setter pc = true /\ length (c_futs m') = S nf) \/ (rc_iswsu pc = true /\ rc_own pc = Some g).
Proof.
  intros E g. leaves pc E; msimp; try congruence.
  - destruct (Nat.eqb_spec g nf); [|congruence]. intros _ _. left. auto.
  - intros Hn Hd. right. split; [reflexivity|]. cbn [rc_own].
    destruct (Nat.lt_ge_cases f nf) as [A|A].
    + rewrite rc_fdone_store_done in Hd by exact A. destruct (Nat.eqb_spec g f); [congruence|contradiction].
    + exfalso. unfold cs_store_done in Hd. assert (H : c_get (c_futs m) f = None) by (apply nth_error_None; exact A).
      rewrite H in Hd. contradiction.
Qed.

Lemma sfa_misc pc m' lk' pc' :
  rc_eff cfg m lk tid pc = (m', lk', pc') ->
  (rc_setter pc = true -> rc_setter pc' = true \/ length (c_futs m') = S nf) /\
  (forall k v e now, pc' = CsSSP k v e now -> length (c_futs m') = nf /\ pc = CsSSU k v e now) /\
  (rc_iswsu pc = true -> rc_iswsp pc' = true /\ rc_own pc' = rc_own pc).
Proof.
  intros E. leaves pc E; msimp; (split; [|split]); try discriminate; auto.
  intros k0 v0 e0 now0 H. inversion H; subst. auto.
Qed.

Lemma sfa_queue pc m' lk' pc' :
  rc_eff cfg m lk tid pc = (m', lk', pc') ->
  forall g, In g (c_queue m') -> In g (c_queue m) \/ exists st last, pc = CsLSJ st last g.
Proof.
  intros E g. leaves pc E; msimp; auto.
  - intros H. apply in_app_iff in H. destruct H as [H|[<-|[]]]; [left; exact H|right; eauto].
  - rewrite (proj1 (rc_qm_store_done m f (v, e, now))). auto.
  - rewrite (proj1 (rc_qm_store_pred m f)). auto.
Qed.

Lemma sfa_lock pc m' lk' pc' :
  rc_eff cfg m lk tid pc = (m', lk', pc') -> (rc_isbl pc = true -> lk = None) -> rc_pcok pc ->
  rc_lockmove lk tid pc lk' pc'.
Proof.
  intros E Hbl Hok. leaves pc E; cbn [rc_pcok] in Hok; try contradiction;
    first [ left; split; reflexivity
          | right; left; repeat split; try reflexivity; apply Hbl; reflexivity
          | right; right; repeat split; reflexivity ].
Qed.

End Mem.

(* ------------------------------------------------------------------ facts about the labels *)
Definition rc_ends (l : list rc_ev) (e : rc_ev) : Prop := exists pre, l = pre ++ [e].
Lemma rc_ends_one e : rc_ends [e] e.
Proof. exists []. reflexivity. Qed.
Lemma rc_ends_cons a l e : rc_ends l e -> rc_ends (a :: l) e.
Proof. intros [pre ->]. exists (a :: pre). reflexivity. Qed.

(* leaves, with the label unfolded in the goal first *)
Ltac lbl := cbv beta iota delta [rc_label rc_label_gen rc_status_ev rc_getut rc_create rc_new rc_setv rc_unlock rc_sweep_next app].
Ltac leavesL pc E :=
  destruct pc as [ |k|k|k f|k f past|st last next|st last nx|k|k|fo|f|f past|x0|w f|w f p|w f p past|w x0
                  |k v e|k v e|k v e now|k v e now| |f v e|f v e now|f v e now| | |k f rest|k f past rest| ];
  cbn [rc_eff rc_fetched] in E; lbl;
  repeat (match type of E with
  | context [match c_lookup ?a ?b with _ => _ end] => destruct (c_lookup a b) eqn:?
  | context [match cs_fdone ?a ?b with _ => _ end] => destruct (cs_fdone a b) as [[[? ?] ?]|] eqn:?
  | context [match cs_status_of ?a ?b ?c with _ => _ end] => destruct (cs_status_of a b c) eqn:?
  | context [match cs_fpred ?a ?b with _ => _ end] => destruct (cs_fpred a b) eqn:?
  | context [match ?n with Some _ => _ | None => _ end] => is_var n; destruct n
  | context [if ?w then _ else _] => is_var w; destruct w
  | context [rc_swnext _ _ (c_map ?mm)] => destruct (c_map mm) as [|[? ?] ?] eqn:?
  | context [rc_swnext _ _ ?rest] => is_var rest; destruct rest as [|[? ?] ?]
  end; cbv beta iota in E; cbn [rc_swnext] in E);
  cbn [rc_swnext rc_fetched] in E; injection E as <- <- <-; lbl.

Section Lab.
Variables (cfg : c_cfg) (m : c_state) (lk : option nat) (tid : nat).
Local Notation nf := (length (c_futs m)).

Lemma sfb_unlock pc m' lk' pc' :
  rc_eff cfg m lk tid pc = (m', lk', pc') -> lk' = None ->
  lk = None \/ (rc_holds pc = true /\ rc_ends (rc_label cfg m pc) (RRel rc_mu)).
Proof.
  intros E. leavesL pc E; intros H; try discriminate H; try (left; exact H);
    (right; split; [reflexivity|repeat first [apply rc_ends_one|apply rc_ends_cons]]).
Qed.

Lemma sfb_acquire pc m' lk' pc' :
  rc_eff cfg m lk tid pc = (m', lk', pc') -> (rc_isbl pc = true -> lk = None) -> lk' = Some tid ->
  lk = Some tid \/ (lk = None /\ rc_label cfg m pc = [RAcq rc_mu]).
Proof.
  intros E Hbl. leavesL pc E; intros H; try discriminate H; try (left; exact H);
    (right; split; [apply Hbl; reflexivity|reflexivity]).
Qed.

Ltac solveW :=
  first [ left; split; reflexivity
        | right; left; split; [unfold rc_locof; tauto|split; [reflexivity|split; [reflexivity|
            first [left; msimp; reflexivity|right; reflexivity]]]]
        | right; right; do 3 eexists; split; [reflexivity|tauto] ].

Lemma sfc_W pc m' lk' pc' :
  rc_eff cfg m lk tid pc = (m', lk', pc') -> forall x, In (RWrite x) (rc_label cfg m pc) ->
  (x = rc_mp /\ rc_holds pc = true) \/
  (rc_locof nf x /\ rc_holds pc = true /\ rc_setter pc = false /\ (length (c_futs m') = S nf \/ rc_setter pc' = true)) \/
  (exists f v e, pc = CsWLD f v e /\ (x = rc_val f \/ x = rc_err f \/ x = rc_tn f)).
Proof.
  intros E x. leavesL pc E; cbn [In]; intros H;
    repeat (destruct H as [H|H]; [try discriminate H; injection H as <-; solveW|]); try contradiction.
Qed.

Ltac solveR :=
  first [ left; split; reflexivity
        | right; left; eexists; split; [|
            first [left; split; [reflexivity|assumption]|right; split; [reflexivity|congruence]]];
          solve [cbn [rc_pcfuts In map]; auto]
        | right; right; left; eexists; split; reflexivity
        | right; right; right; eexists; split; [reflexivity|tauto] ].

Lemma sfc_R pc m' lk' pc' :
  rc_eff cfg m lk tid pc = (m', lk', pc') -> forall x, In (RRead x) (rc_label cfg m pc) ->
  (x = rc_mp /\ rc_holds pc = true) \/
  (exists f, In f (rc_pcfuts pc) /\ ((x = rc_tz f /\ cs_fdone m f = None) \/ (x = rc_tn f /\ cs_fdone m f <> None))) \/
  (exists f, rc_redone pc = Some f /\ x = rc_err f) \/
  (exists f, pc = CsGFW f /\ (x = rc_val f \/ x = rc_err f)).
Proof.
  intros E x. leavesL pc E; cbn [In app]; intros H;
    repeat (destruct H as [H|H]; [try discriminate H; injection H as <-; solveR|]); try contradiction.
Qed.

End Lab.

(* ------------------------------------------------------------------ obligations and new facts *)
Section Obl.
Variables (cfg : c_cfg) (m : c_state) (lk : option nat) (pcof : nat -> option cs_pc) (tid : nat).
Hypothesis Sv : rc_sinv m lk pcof.
Local Notation nf := (length (c_futs m)).

Lemma d_fresh pc x :
  pcof tid = Some pc -> rc_holds pc = true -> rc_setter pc = false -> rc_locof nf x -> rc_fresh m pcof x.
Proof.
  intros Hpc Hh Hs Hl. exists nf. split; [exact Hl|]. right. split; [reflexivity|].
  intros j pcj Hj. destruct (rc_setter pcj) eqn:E; [|reflexivity]. exfalso.
  pose proof (rc_setter_holds _ E) as E'. apply (rs_lock _ _ _ Sv j pcj Hj) in E'.
  apply (rs_lock _ _ _ Sv tid pc Hpc) in Hh. assert (j = tid) by congruence. subst j.
  rewrite Hpc in Hj. inversion Hj; subst pcj. congruence.
Qed.

(* the atoms of an obligation, from the context prepared by [prep] *)
Ltac atom Hpc Hlk Hfu Hfresh Hen2 :=
  first
  [ (* the map, lock held *)
    left; left; left; split; [exact Hlk|reflexivity]
  | (* a location the pc owns *)
    left; left; right; eexists; split; [exact Hpc|cbn [rc_klocs In]; auto; fail]
  | (* a location of the future being allocated *)
    left; right; apply Hfresh; unfold rc_locof; auto; fail
  | (* written earlier in this step *)
    right; left; cbn [In rm_writes]; auto; fail
  | (* acquired: updateTime, initial cell *)
    right; right; eexists; split; [|apply PfTz; apply Hfu; cbn [rc_pcfuts In map]; auto; fail]; cbn [In rm_acqs]; auto; fail
  | (* acquired: updateTime of a complete future *)
    right; right; eexists; split; [|eapply PfDone; cycle 1; [first [right; reflexivity|left; reflexivity]|congruence]]; cbn [In rm_acqs]; auto; fail
  | (* acquired: the WaitGroup *)
    right; right; eexists; split; [|apply PfWg; [apply Hen2; reflexivity|auto; fail]]; cbn [In rm_acqs]; auto; fail
  | (* kr: the map *)
    left; split; [exact Hlk|reflexivity]
  | (* kr: fresh *)
    right; left; apply Hfresh; unfold rc_locof; auto; fail ].

Lemma sfd_obl pc m' lk' pc' :
  pcof tid = Some pc -> rc_enabled m lk pcof pc ->
  rc_eff cfg m lk tid pc = (m', lk', pc') ->
  rc_obl m lk pcof tid [] [] (rc_label cfg m pc).
Proof.
  intros Hpc [_ Hen2] E.
  pose proof (proj1 (rs_lock _ _ _ Sv tid pc Hpc)) as Hlk.
  pose proof (fun f => rs_futs _ _ _ Sv tid pc f Hpc) as Hfu.
  pose proof (fun f => rs_own _ _ _ Sv tid pc f Hpc) as Hown.
  pose proof (fun x => d_fresh pc x Hpc) as Hfresh.
  leavesL pc E; cbn [rc_obl]; cbn [rc_holds rc_setter] in Hlk, Hfresh;
    try specialize (Hlk eq_refl); try (specialize (fun x => Hfresh x eq_refl eq_refl));
    repeat split; try (atom Hpc Hlk Hfu Hfresh Hen2).
  all: (* the worker's writes: nobody has read these fields *)
    try (destruct (Hown f eq_refl) as (A & _ & _ & D); specialize (D eq_refl);
         right; right; exists f; split; [exact A|split; [exact D|auto]]).
Qed.


Lemma sfd_K pc m' lk' pc' :
  pcof tid = Some pc -> rc_enabled m lk pcof pc ->
  rc_eff cfg m lk tid pc = (m', lk', pc') ->
  forall x, In x (rc_klocs (length (c_futs m')) pc') ->
  rc_kp m lk pcof tid (rm_writes (rc_label cfg m pc)) (rm_acqs (rc_label cfg m pc)) x.
Proof.
  intros Hpc [_ Hen2] E x.
  pose proof (proj1 (rs_lock _ _ _ Sv tid pc Hpc)) as Hlk.
  pose proof (fun f => rs_futs _ _ _ Sv tid pc f Hpc) as Hfu.
  pose proof (fun x => d_fresh pc x Hpc) as Hfresh.
  leavesL pc E; msimp; cbn [rc_klocs In]; cbn [rc_holds rc_setter] in Hlk, Hfresh;
    try specialize (Hlk eq_refl); try (specialize (fun x => Hfresh x eq_refl eq_refl));
    intros H; repeat (destruct H as [<-|H]); try contradiction;
    cbn [rm_writes rm_acqs]; atom Hpc Hlk Hfu Hfresh Hen2.
Qed.

Lemma sfd_N1 pc m' lk' pc' :
  pcof tid = Some pc ->
  rc_eff cfg m lk tid pc = (m', lk', pc') ->
  length (c_futs m') = S nf -> rc_setter pc = false ->
  rc_pubd m lk pcof tid (rc_label cfg m pc) (rc_ut nf) (rc_tz nf).
Proof.
  intros Hpc E.
  leavesL pc E; msimp; intros Hg Hs; try lia; try discriminate Hs.
  all: match goal with
       | |- rc_pubd _ _ _ _ (?a :: ?b :: ?c :: ?d :: RRel ?o :: ?post) _ _ =>
           exists [a; b; c; d], post; split; [reflexivity|split; [right; left; cbn [rm_writes In]; auto|]]
       end.
  all: cbn [In]; intros H; repeat (destruct H as [H|H]; [try discriminate H; injection H; ulia|]); contradiction.
Qed.

Lemma sfd_N pc m' lk' pc' :
  pcof tid = Some pc ->
  rc_eff cfg m lk tid pc = (m', lk', pc') ->
  forall o x, In (o, x) (rc_newP nf pc) -> rc_pubd m lk pcof tid (rc_label cfg m pc) o x.
Proof.
  intros Hpc E o x.
  assert (Hk : forall y, In y (rc_klocs nf pc) -> rc_kp m lk pcof tid [] [] y).
  { intros y Hy. left. left. right. exists pc. split; [exact Hpc|exact Hy]. }
  destruct pc; cbn [rc_newP In]; try contradiction; lbl; intros H;
    repeat (destruct H as [H|H]; [injection H as <- <-|]); try contradiction.
  (* LSJ *)
  1-3: exists [], []; split; [reflexivity|split; [apply Hk; cbn [rc_klocs In]; auto|intros []]].
  (* SSU *)
  1-3: exists [], []; split; [reflexivity|split; [apply Hk; cbn [rc_klocs In]; auto|intros []]].
  (* SSP *)
  1-2: exists [RRel (rc_pr nf)], [RWrite rc_mp; RRel rc_mu]; split; [reflexivity|split; [apply Hk; cbn [rc_klocs In]; auto|]];
       cbn [In]; intros H; repeat (destruct H as [H|H]; [try discriminate H; injection H; ulia|]); contradiction.
  (* WSU *)
  1-2: exists [], []; split; [reflexivity|split; [apply Hk; cbn [rc_klocs In]; auto|intros []]].
  (* WSP *)
  1-2: eexists [RRel (rc_pr _)], []; split; [reflexivity|split; [apply Hk; cbn [rc_klocs In]; auto|intros []]].
Qed.

End Obl.

(* ------------------------------------------------------------------ every thread step satisfies rc_sf *)
Theorem rc_eff_sf cfg m lk pcof tid pc m' lk' pc' :
  rc_sinv m lk pcof -> pcof tid = Some pc -> rc_enabled m lk pcof pc ->
  rc_eff cfg m lk tid pc = (m', lk', pc') ->
  rc_sf m lk pcof tid pc m' lk' pc' (rc_label cfg m pc).
Proof.
  intros Sv Hpc En E. pose proof En as [Hbl _].
  destruct (sfa_misc cfg m lk tid pc m' lk' pc' E) as (A1 & A2 & A3).
  constructor.
  - apply (sfa_len cfg m lk tid pc m' lk' pc' E).
  - apply (sfa_grow cfg m lk tid pc m' lk' pc' E).
  - apply (sfa_lock cfg m lk tid pc m' lk' pc' E Hbl). apply (rs_ok _ _ _ Sv tid pc Hpc).
  - intros H. destruct (sfb_unlock cfg m lk tid pc m' lk' pc' E H) as [H1|[H1 H2]]; [left; exact H1|right; auto].
  - apply (sfb_acquire cfg m lk tid pc m' lk' pc' E Hbl).
  - apply (sfa_done cfg m lk tid pc m' lk' pc' E).
  - apply (sfa_undone cfg m lk tid pc m' lk' pc' E).
  - exact A1.
  - exact A2.
  - exact A3.
  - apply (sfa_queue cfg m lk tid pc m' lk' pc' E).
  - apply (sfc_W cfg m lk tid pc m' lk' pc' E).
  - apply (sfc_R cfg m lk tid pc m' lk' pc' E).
  - apply (sfd_obl cfg m lk pcof tid Sv pc m' lk' pc' Hpc En E).
  - apply (sfd_K cfg m lk pcof tid Sv pc m' lk' pc' Hpc En E).
  - apply (sfd_N1 cfg m lk pcof tid pc m' lk' pc' Hpc E).
  - apply (sfd_N cfg m lk pcof tid pc m' lk' pc' Hpc E).
Qed.
