(* AntsStepsProv2.v -- the provenance invariant (AntsStepsProv.v) is preserved by every step of the fixed model. *)
From Got Require Import Base ListAux AntsSteps AntsStepsProofs AntsStepsCount AntsStepsCountN AntsStepsDecide AntsStepsProv.
Local Open Scope nat_scope.

Ltac pk_pc' Eth := ast_norm; rewrite ?Nat.eqb_refl, ?Eth; reflexivity.
Ltac pk_none := let H := fresh in intros ? ? ? H; cbn in H; discriminate H.
Ltac pk_chan := let a0 := fresh "a0" in let y' := fresh "y'" in let p := fresh "p" in
  let Hy' := fresh "Hy'" in let Hin := fresh "Hin" in
  intros a0 y' p Hy' Hin; left; revert Hy' Hin; ast_norm; ast_eqb; try lia;
  repeat match goal with |- context [nth_error (ast_atts ?s0) ?t] => destruct (nth_error (ast_atts s0) t) eqn:? end;
  cbn [option_map]; intros Hy' Hin; try discriminate Hy'; injection Hy' as <-;
  eexists; (split; [reflexivity|exact Hin]).
Ltac pk_dec := let t0 := fresh "t0" in let x' := fresh "x'" in let k := fresh "k" in let p := fresh "p" in
  let Hx' := fresh "Hx'" in let Hk := fresh "Hk" in
  intros t0 x' k p Hx' Hk; left; revert Hx' Hk; ast_norm; ast_eqb; try lia;
  repeat match goal with |- context [nth_error (ast_tasks ?s0) ?t] => destruct (nth_error (ast_tasks s0) t) eqn:? end;
  cbn [option_map]; intros Hx' Hk; try discriminate Hx'; injection Hx' as <-;
  eexists; (split; [reflexivity|exact Hk]).

Ltac pk_link_same Hlk L1 :=
  let H := fresh in intros ? ? ? H; cbn in H; injection H as <- <- <-; apply Hlk; apply (L1 _ _ _ eq_refl).

Lemma ast_hp_intro s' s3 a y' :
  nth_error (ast_atts s') a = Some y' -> ata_hst y' = 2 -> ast_att_beh s' a = ast_att_beh s3 a ->
  ast_hp s' a (asb_val (ast_att_beh s3 a), asb_err (ast_att_beh s3 a)).
Proof. intros H1 H2 H3. exists y'. split; [exact H1|]. split; [exact H2|]. unfold ast_att_pair. rewrite H3. reflexivity. Qed.

Ltac pk_fin_O1 Hy :=
  let H := fresh in intros ? ? ? H; cbn in H; injection H as <- <- <-; right; eapply ast_hp_intro;
  [ ast_norm; rewrite ?Nat.eqb_refl, ?Hy; reflexivity
  | reflexivity
  | unfold ast_att_beh, ast_task_opt; ast_norm; rewrite ?Nat.eqb_refl, ?Hy; reflexivity ].

Ltac pk_fin_recv Inv Pv Hhp Hlk Hoth Eth :=
  match goal with Heql : ast_ichan ?s = ?n0 :: _ |- ast_pinv (ast_set_pc _ ?tid _) =>
    let Hex := fresh "Hex" in let y := fresh "y" in let Hy := fresh "Hy" in
    assert (Hex : ast_aown s n0 = Some AwChan) by (apply (ai_achan _ Inv); rewrite Heql; left; reflexivity);
    unfold ast_aown in Hex; destruct (nth_error (ast_atts s) n0) as [y|] eqn:Hy; [|discriminate Hex];
    eapply (ast_pinv_gen s _ tid _ Pv Hhp Hlk Hoth); [pk_pc' Eth|pk_fin_O1 Hy|pk_none|pk_chan|pk_dec]
  end.

Ltac pk_fin_mid Inv Pv Hhp Hlk Hoth Eth :=
  match goal with |- ast_pinv (ast_set_pc _ ?tid (AstICtx ?a _ _)) =>
    let Hex := fresh "Hex" in let y := fresh "y" in let Hy := fresh "Hy" in
    pose proof (ai_athr _ Inv tid (AstIMid a) a) as Hex; unfold ast_pc_of, ast_aown in Hex; rewrite Eth in Hex;
    specialize (Hex eq_refl eq_refl);
    match type of Hex with context [nth_error (ast_atts ?s) a] =>
      destruct (nth_error (ast_atts s) a) as [y|] eqn:Hy; [|discriminate Hex];
      eapply (ast_pinv_gen s _ tid _ Pv Hhp Hlk Hoth); [pk_pc' Eth|pk_fin_O1 Hy|pk_none|pk_chan|pk_dec] end
  end.

Lemma ast_step_pinv n s tid hint :
  ast_inv s -> ast_hinv s -> ast_ninv s -> ast_dinv s ->
  (forall i pc, ast_pc_of s i = Some pc -> ast_is_storeo pc = false) ->
  ast_pinv s -> ast_pinv (fst (fst (ast_step AstFixed n s tid hint))).
Proof.
  intros Inv Hv Nv Dv Hns Pv.
  pose proof (fun a p => ast_hp_step AstFixed n s tid hint a p Inv Hv Nv) as Hhp.
  pose proof (fun t a k => ast_lk_step AstFixed n s tid hint t a k Inv Hv) as Hlk.
  pose proof (ast_step_pcs_but AstFixed n s tid hint) as Hoth.
  revert Hhp Hlk Hoth.
  unfold ast_step. destruct (nth_error (ast_thr s) tid) as [th|] eqn:Eth; [|intros _ _ _; exact Pv].
  pose proof (Hns tid (ath_pc th)) as Hno. unfold ast_pc_of in Hno. rewrite Eth in Hno. specialize (Hno eq_refl).
  pose proof (pi_carry _ Pv tid (ath_pc th)) as C1. unfold ast_pc_of in C1. rewrite Eth in C1.
  specialize (fun a p st => C1 a p st eq_refl).
  pose proof (pi_link _ Pv tid (ath_pc th)) as L1. unfold ast_pc_of in L1. rewrite Eth in L1.
  specialize (fun t a k => L1 t a k eq_refl).
  destruct th as [pc prog hs]. unfold ast_step_pc. cbn [ath_pc ath_prog ath_handles] in *.
  destruct pc; cbn [ast_pc_carry ast_pc_link ast_is_storeo] in C1, L1, Hno; try discriminate;
    repeat first [progress (unfold ast_wait_ctx; ast_cbn) | match goal with
    | |- context [match ?x with _ => _ end] => destruct x eqn:?
    end]; intros Hhp Hlk Hoth; try exact Pv.
  all: try (eapply (ast_pinv_gen s _ tid _ Pv Hhp Hlk Hoth); [pk_pc' Eth|pk_none|pk_none|pk_chan|pk_dec]; fail).
  - (* newTaskCallback *)
    eapply (ast_pinv_gen s _ tid _ Pv Hhp Hlk Hoth); [pk_pc' Eth|pk_none|pk_none|pk_chan|].
    intros t0 x' k p Hx' Hk. ast_norm. destruct (t0 <? length (ast_tasks s)); [left; eauto|].
    destruct (t0 =? length (ast_tasks s)); [|discriminate Hx']. injection Hx' as <-. destruct k; discriminate Hk.
  - (* first attempt *)
    eapply (ast_pinv_gen s _ tid _ Pv Hhp Hlk Hoth); [pk_pc' Eth|pk_none| | |pk_dec].
    + intros t0 a0 k0 H. cbn in H. injection H as <- <- <-. unfold ast_lk. ast_cbn.
      rewrite ast_snoc_nth, Nat.ltb_irrefl, Nat.eqb_refl. eexists. split; [reflexivity|split; reflexivity].
    + intros a0 y' p Hy' Hin. ast_norm. destruct (a0 <? length (ast_atts s)); [left; eauto|].
      destruct (a0 =? length (ast_atts s)); [|discriminate Hy']. injection Hy' as <-. destruct Hin.
  - (* DEnq -> DSelect (closed) *)
    eapply (ast_pinv_gen s _ tid _ Pv Hhp Hlk Hoth); [pk_pc' Eth|pk_none|pk_link_same Hlk L1|pk_chan|pk_dec].
  - (* DEnq -> DSelect (enqueued) *)
    eapply (ast_pinv_gen s _ tid _ Pv Hhp Hlk Hoth); [pk_pc' Eth|pk_none|pk_link_same Hlk L1|pk_chan|pk_dec].
  - eapply (ast_pinv_gen s _ tid _ Pv Hhp Hlk Hoth); [pk_pc' Eth|pk_none|pk_link_same Hlk L1|pk_chan|pk_dec].
  - eapply (ast_pinv_gen s _ tid _ Pv Hhp Hlk Hoth); [pk_pc' Eth|pk_none|pk_link_same Hlk L1|pk_chan|pk_dec].
  - eapply (ast_pinv_gen s _ tid _ Pv Hhp Hlk Hoth); [pk_pc' Eth|pk_none|pk_link_same Hlk L1|pk_chan|pk_dec].
  - (* r := <-doneChan *)
    unfold ast_att_chan in Heql. destruct (nth_error (ast_atts s) a) as [y|] eqn:Hy; [|discriminate Heql].
    eapply (ast_pinv_gen s _ tid _ Pv Hhp Hlk Hoth); [pk_pc' Eth| |pk_link_same Hlk L1| |pk_dec].
    + intros a0 p0 st H. cbn in H. injection H as <- <- <-.
      destruct (pi_chan _ Pv a y (z, z0) Hy) as [H|H]; [rewrite Heql; left; reflexivity|left; auto|right; apply Hhp; exact H].
    + intros a0 y' p0 Hy' Hin. left. revert Hy' Hin. ast_norm. destruct (Nat.eqb_spec a0 a) as [->|Hne].
      * rewrite Hy. cbn. intros [= <-] Hin. cbn in Hin. exists y. split; [reflexivity|]. rewrite Heql. right. exact Hin.
      * intros Hy' Hin. exists y'. auto.
  - (* store of the received pair *)
    pose proof (L1 _ _ _ eq_refl) as Lk. pose proof (C1 _ _ _ eq_refl) as Ca.
    pose proof (ai_tthr _ Inv tid (AstDStoreRes t a i v e) t) as Ho. unfold ast_pc_of, ast_town in Ho. rewrite Eth in Ho.
    specialize (Ho eq_refl eq_refl). destruct (nth_error (ast_tasks s) t) as [x|] eqn:Ex; [|discriminate Ho].
    pose proof (di_pc _ Dv tid (AstDStoreRes t a i v e) t x) as Ph. unfold ast_pc_of in Ph. rewrite Eth in Ph.
    specialize (Ph eq_refl eq_refl Ex). cbn [ast_pc_phase] in Ph. destruct Ph as (_ & Plen & _).
    eapply (ast_pinv_gen s _ tid _ Pv Hhp Hlk Hoth); [pk_pc' Eth|pk_none|pk_none|pk_chan|].
    intros t0 x' k p Hx' Hk. revert Hx' Hk. ast_norm. destruct (Nat.eqb_spec t0 t) as [->|Hne]; [|intros Hx' Hk; left; eauto].
    rewrite Ex. cbn [option_map]. intros [= <-]. cbn [ast_t_store att_decided]. intros Hk.
    destruct (Nat.lt_ge_cases k (length (att_decided x))) as [Hlt|Hge].
    + rewrite nth_error_app1 in Hk by exact Hlt. left. eauto.
    + rewrite nth_error_app2 in Hk by exact Hge. destruct (k - length (att_decided x)) as [|d] eqn:Ed; [|destruct d; discriminate Hk].
      injection Hk as <-. assert (k = i) by lia. subst k. right.
      destruct Ca as [[_ ->]|H]; [left; reflexivity|right]. exists a. split; [apply Hhp; exact H|apply Hlk; exact Lk].
  - (* store of the timeout pair *)
    pose proof (ai_tthr _ Inv tid (AstDStoreTo t a i) t) as Ho. unfold ast_pc_of, ast_town in Ho. rewrite Eth in Ho.
    specialize (Ho eq_refl eq_refl). destruct (nth_error (ast_tasks s) t) as [x|] eqn:Ex; [|discriminate Ho].
    eapply (ast_pinv_gen s _ tid _ Pv Hhp Hlk Hoth); [pk_pc' Eth|pk_none|pk_none|pk_chan|].
    intros t0 x' k p Hx' Hk. revert Hx' Hk. ast_norm. destruct (Nat.eqb_spec t0 t) as [->|Hne]; [|intros Hx' Hk; left; eauto].
    rewrite Ex. cbn [option_map]. intros [= <-]. cbn [ast_t_store att_decided]. intros Hk.
    destruct (Nat.lt_ge_cases k (length (att_decided x))) as [Hlt|Hge].
    + rewrite nth_error_app1 in Hk by exact Hlt. left. eauto.
    + rewrite nth_error_app2 in Hk by exact Hge. destruct (k - length (att_decided x)) as [|d] eqn:Ed; [|destruct d; discriminate Hk].
      injection Hk as <-. right. left. reflexivity.
  - (* retry: next attempt *)
    eapply (ast_pinv_gen s _ tid _ Pv Hhp Hlk Hoth); [pk_pc' Eth|pk_none| | |pk_dec].
    + intros t0 a0 k0 H. cbn in H. injection H as <- <- <-. unfold ast_lk. ast_cbn.
      rewrite ast_snoc_nth, Nat.ltb_irrefl, Nat.eqb_refl. eexists. split; [reflexivity|split; reflexivity].
    + intros a0 y' p Hy' Hin. ast_norm. destruct (a0 <? length (ast_atts s)); [left; eauto|].
      destruct (a0 =? length (ast_atts s)); [|discriminate Hy']. injection Hy' as <-. destruct Hin.
  - pk_fin_recv Inv Pv Hhp Hlk Hoth Eth.
  - pk_fin_recv Inv Pv Hhp Hlk Hoth Eth.
  - pk_fin_recv Inv Pv Hhp Hlk Hoth Eth.
  - pk_fin_recv Inv Pv Hhp Hlk Hoth Eth.
  - pk_fin_recv Inv Pv Hhp Hlk Hoth Eth.
  - pk_fin_recv Inv Pv Hhp Hlk Hoth Eth.
  - pk_fin_mid Inv Pv Hhp Hlk Hoth Eth.
  - pk_fin_mid Inv Pv Hhp Hlk Hoth Eth.
  - pk_fin_mid Inv Pv Hhp Hlk Hoth Eth.
  - (* ctx1.Done() taken *)
    eapply (ast_pinv_gen s _ tid _ Pv Hhp Hlk Hoth); [pk_pc' Eth| |pk_none|pk_chan|pk_dec].
    intros a0 p st H. cbn in H. injection H as <- <- <-. left. split; reflexivity.
  - (* default branch: the handler's pair *)
    eapply (ast_pinv_gen s _ tid _ Pv Hhp Hlk Hoth); [pk_pc' Eth| |pk_none|pk_chan|pk_dec].
    intros a0 p st H. cbn in H. injection H as <- <- <-. right. apply Hhp.
    destruct (C1 _ _ _ eq_refl) as [[Hf _]|Hh]; [discriminate Hf|exact Hh].
  - (* doneChan <- pair *)
    pose proof (C1 _ _ _ eq_refl) as Ca.
    pose proof (ai_athr _ Inv tid (AstISend a v e dead) a) as Hex. unfold ast_pc_of, ast_aown in Hex. rewrite Eth in Hex.
    specialize (Hex eq_refl eq_refl). destruct (nth_error (ast_atts s) a) as [y|] eqn:Hy; [|discriminate Hex].
    eapply (ast_pinv_gen s _ tid _ Pv Hhp Hlk Hoth); [pk_pc' Eth|pk_none|pk_none| |pk_dec].
    intros a0 y' p Hy' Hin. revert Hy' Hin. ast_norm. destruct (Nat.eqb_spec a0 a) as [->|Hne]; [|intros Hy' Hin; left; eauto].
    rewrite Hy. cbn [option_map]. intros [= <-]. cbn [ast_a_sent ata_chan]. intros [<-|[]]. right.
    destruct Ca as [[_ ->]|H]; [left; reflexivity|right; apply Hhp; exact H].
Qed.

Lemma ast_init_pinv n progs : ast_pinv (ast_init n progs).
Proof.
  constructor.
  - intros i pc a p st H1 H2. destruct (ast_init_pcs _ _ _ _ H1) as [->|[->| ->]]; discriminate H2.
  - intros i pc t a k H1 H2. destruct (ast_init_pcs _ _ _ _ H1) as [->|[->| ->]]; discriminate H2.
  - intros a y p H. cbn [ast_init ast_atts] in H. destruct a; discriminate H.
  - intros t x k p H. cbn [ast_init ast_tasks] in H. destruct t; discriminate H.
Qed.

Lemma ast_run_pinv n sched : forall s,
  ast_inv s -> ast_hinv s -> ast_ninv s -> ast_dinv s ->
  (forall i pc, ast_pc_of s i = Some pc -> ast_is_storeo pc = false) -> ast_pinv s ->
  ast_pinv (ast_run AstFixed n s sched).
Proof.
  induction sched as [|[tid h] r IH]; intros s Inv Hv Nv Dv Hns Pv; [exact Pv|]. cbn [ast_run fold_left].
  unfold ast_next. cbn [fst snd]. apply IH.
  - apply ast_step_inv. exact Inv.
  - apply ast_step_hinv; assumption.
  - apply ast_step_ninv; assumption.
  - apply ast_step_dinv; assumption.
  - apply ast_step_no_storeo. exact Hns.
  - apply ast_step_pinv; assumption.
Qed.

Lemma ast_reach_pinv n progs s : ast_reach AstFixed n progs s -> ast_pinv s.
Proof.
  intros [sched ->]. apply ast_run_pinv.
  - apply ast_init_inv.
  - apply ast_init_hinv.
  - apply ast_init_ninv.
  - apply ast_init_dinv.
  - intros i pc H1. destruct (ast_init_pcs _ _ _ _ H1) as [->|[->| ->]]; reflexivity.
  - apply ast_init_pinv.
Qed.

(* every stored decision is the timeout pair or the pair returned by the handler invocation of THAT attempt:
   decision k of task t comes from the attempt record with ata_task = t, ata_no = k, whose handler has returned
   (ata_hst = 2) the pair scripted for the invocation number ata_bi recorded when that handler was started *)
Lemma ast_steps_decisions_from_handlers n progs s t x k p :
  ast_reach AstFixed n progs s -> nth_error (ast_tasks s) t = Some x -> nth_error (att_decided x) k = Some p ->
  p = (0%Z, ast_err_deadline) \/
  exists a y, nth_error (ast_atts s) a = Some y /\ ata_task y = t /\ ata_no y = k /\ ata_hst y = 2 /\
    p = (asb_val (nth (ata_bi y) (aso_behs (att_opt x)) ast_dummy_beh),
         asb_err (nth (ata_bi y) (aso_behs (att_opt x)) ast_dummy_beh)).
Proof.
  intros R Hx Hk. destruct (pi_dec _ (ast_reach_pinv _ _ _ R) _ _ _ _ Hx Hk) as [H|(a & (y & Hy & Hh & Hp) & (y2 & Hy2 & E1 & E2))].
  - left. exact H.
  - right. rewrite Hy in Hy2. injection Hy2 as <-. exists a, y. repeat split; try assumption.
    rewrite Hp. unfold ast_att_pair, ast_att_beh, ast_task_opt. rewrite Hy, E1, Hx. reflexivity.
Qed.
