(* proofs about models/CacheDrop.v *)
From Got Require Import Base CacheDrop.
From Coq Require Import Permutation.
Local Open Scope nat_scope.

Lemma cd_split {A} (l : list A) i x : nth_error l i = Some x -> l = firstn i l ++ x :: skipn (S i) l.
Proof.
  revert i. induction l as [|a l IH]; intros [|i] H; cbn in *; try discriminate.
  - inversion H. reflexivity.
  - f_equal. apply IH. exact H.
Qed.

Definition cd_pf (x : cd_sender) : list nat := match x with CdsSend j => [j] | _ => [] end.

Lemma cd_pending_eq s : cd_pending s = flat_map cd_pf (cd_senders s).
Proof. reflexivity. Qed.

Lemma cd_pending_set ss i x y :
  nth_error ss i = Some x -> cd_pf y = [] ->
  Permutation (flat_map cd_pf ss) (cd_pf x ++ flat_map cd_pf (cd_set ss i y)).
Proof.
  intros H Hy. rewrite (cd_split ss i x H) at 1. unfold cd_set.
  rewrite !flat_map_app. cbn [flat_map]. rewrite Hy. cbn [app].
  rewrite Permutation_app_comm. rewrite <- app_assoc.
  apply Permutation_trans with (cd_pf x ++ flat_map cd_pf (skipn (S i) ss) ++ flat_map cd_pf (firstn i ss)).
  - apply Permutation_refl.
  - apply Permutation_app_head. apply Permutation_app_comm.
Qed.

Lemma cd_pending_set_nil ss i x y :
  nth_error ss i = Some x -> cd_pf x = [] -> cd_pf y = [] ->
  flat_map cd_pf (cd_set ss i y) = flat_map cd_pf ss.
Proof.
  intros H Hx Hy. rewrite (cd_split ss i x H) at 2. unfold cd_set.
  rewrite !flat_map_app. cbn [flat_map]. rewrite Hx, Hy. reflexivity.
Qed.

(* ---------------------------------------------------------------- conservation (both variants lose nothing
   from ran ++ chan ++ pending ... except that CdOrig DROPS the job of a sender that finds the cache closed) *)
Definition cd_all (s : cd_state) : list nat := cd_ran s ++ cd_chan s ++ cd_pending s.

Lemma cd_step_conserves s e : Permutation (cd_all (cd_step CdFixed s e)) (cd_all s).
Proof.
  unfold cd_all. rewrite !cd_pending_eq. destruct e as [|i take|i send]; cbn [cd_step].
  - reflexivity.
  - destruct (nth_error (cd_workers s) i) as [[|]|] eqn:Ew; try reflexivity.
    destruct take.
    + destruct (cd_chan s) as [|j rest] eqn:Ec; [rewrite Ec; reflexivity|].
      cbn [cd_upd cd_ran cd_chan cd_senders]. rewrite <- app_assoc. reflexivity.
    + destruct (cd_closed s); [|reflexivity].
      cbn [cd_upd cd_ran cd_chan cd_senders]. rewrite <- app_assoc. reflexivity.
  - destruct (nth_error (cd_senders s) i) as [[j| |]|] eqn:Es; try reflexivity.
    + destruct send.
      * destruct (length (cd_chan s) <? cd_cap s); [|reflexivity].
        cbn [cd_upd cd_ran cd_chan cd_senders].
        pose proof (cd_pending_set (cd_senders s) i (CdsSend j) CdsRecheck Es eq_refl) as P. cbn [cd_pf app] in P.
        apply Permutation_app_head. rewrite <- app_assoc. cbn [app].
        apply Permutation_sym. eapply Permutation_trans; [apply Permutation_app_head; exact P|].
        apply Permutation_app_head. apply Permutation_refl.
      * destruct (cd_closed s); [|reflexivity].
        cbn [cd_upd cd_ran cd_chan cd_senders].
        pose proof (cd_pending_set (cd_senders s) i (CdsSend j) CdsDone Es eq_refl) as P. cbn [cd_pf app] in P.
        rewrite <- app_assoc. apply Permutation_app_head. cbn [app].
        apply Permutation_sym. eapply Permutation_trans; [apply Permutation_app_head; exact P|].
        apply Permutation_sym. apply Permutation_middle.
    + destruct (cd_closed s); cbn [cd_upd cd_ran cd_chan cd_senders];
        rewrite (cd_pending_set_nil (cd_senders s) i CdsRecheck CdsDone Es eq_refl eq_refl).
      * rewrite <- app_assoc. reflexivity.
      * reflexivity.
Qed.

Lemma cd_run_conserves evs s : Permutation (cd_all (cd_run CdFixed s evs)) (cd_all s).
Proof.
  revert s. induction evs as [|e evs IH]; intros s; [reflexivity|].
  unfold cd_run in *. cbn [fold_left]. eapply Permutation_trans; [apply IH|apply cd_step_conserves].
Qed.

(* ---------------------------------------------------------------- somebody will still drain the channel *)
Definition cd_live (s : cd_state) : Prop :=
  In CdwLoop (cd_workers s) \/ In CdsRecheck (cd_senders s).

Definition cd_inv (s : cd_state) : Prop :=
  (cd_chan s <> [] -> cd_live s) /\
  (cd_closed s = false -> cd_workers s <> [] /\ Forall (fun w => w = CdwLoop) (cd_workers s)).

Lemma cd_in_set {A} (l : list A) i x y z :
  nth_error l i = Some x -> In z l -> z <> x -> In z (cd_set l i y).
Proof.
  intros H Hin Hne. rewrite (cd_split l i x H) in Hin. unfold cd_set.
  apply in_app_or in Hin. apply in_or_app. destruct Hin as [Hin|[Hin|Hin]]; [left; exact Hin|congruence|right; right; exact Hin].
Qed.

Lemma cd_in_set_self {A} (l : list A) i x y : nth_error l i = Some x -> In y (cd_set l i y).
Proof. intros _. unfold cd_set. apply in_or_app. right. left. reflexivity. Qed.

Lemma cd_workers_live ws : ws <> [] -> Forall (fun w => w = CdwLoop) ws -> In CdwLoop ws.
Proof. destruct ws as [|w ws]; [congruence|]. intros _ H. inversion H; subst. left. reflexivity. Qed.

Lemma cd_step_inv s e : cd_inv s -> cd_inv (cd_step CdFixed s e).
Proof.
  intros [Hl Hw]. destruct e as [|i take|i send]; cbn [cd_step].
  - split; cbn [cd_upd cd_chan cd_closed cd_workers cd_senders]; [exact Hl|discriminate].
  - destruct (nth_error (cd_workers s) i) as [[|]|] eqn:Ew; try (split; assumption).
    destruct take.
    + destruct (cd_chan s) as [|j rest] eqn:Ec; [split; [rewrite Ec; exact Hl|exact Hw]|].
      split; cbn [cd_upd cd_chan cd_closed cd_workers cd_senders]; [|exact Hw].
      intros _. left. eapply nth_error_In. exact Ew.
    + destruct (cd_closed s) eqn:Ecl; [|split; [exact Hl|rewrite Ecl; exact Hw]].
      split; cbn [cd_upd cd_chan cd_closed cd_workers cd_senders]; [congruence|discriminate].
  - destruct (nth_error (cd_senders s) i) as [[j| |]|] eqn:Es; try (split; assumption).
    + destruct send.
      * destruct (length (cd_chan s) <? cd_cap s); [|split; assumption].
        split; cbn [cd_upd cd_chan cd_closed cd_workers cd_senders]; [|exact Hw].
        intros _. right. eapply cd_in_set_self. exact Es.
      * destruct (cd_closed s) eqn:Ecl; [|split; [exact Hl|rewrite Ecl; exact Hw]].
        split; cbn [cd_upd cd_chan cd_closed cd_workers cd_senders]; [|discriminate].
        intros Hc. destruct (Hl Hc) as [H|H]; [left; exact H|right].
        eapply cd_in_set; [exact Es|exact H|discriminate].
    + destruct (cd_closed s) eqn:Ecl; split; cbn [cd_upd cd_chan cd_closed cd_workers cd_senders]; try congruence; try discriminate.
      * intros _. left. destruct (Hw eq_refl) as [Hne Hall]. apply cd_workers_live; assumption.
      * intros _. exact (Hw eq_refl).
Qed.

Lemma cd_run_inv evs s : cd_inv s -> cd_inv (cd_run CdFixed s evs).
Proof.
  revert s. induction evs as [|e evs IH]; intros s H; [exact H|].
  unfold cd_run in *. cbn [fold_left]. apply IH. apply cd_step_inv. exact H.
Qed.

Lemma cd_init_inv cap n jobs : 0 < n -> cd_inv (cd_init cap n jobs).
Proof.
  intros Hn. split; cbn [cd_init cd_chan cd_closed cd_workers]; [congruence|].
  intros _. split; [destruct n; [lia|discriminate]|]. apply Forall_forall. intros w Hw. apply repeat_spec in Hw. exact Hw.
Qed.

Lemma cd_quiescent_spec s :
  cd_quiescent s = true -> ~ cd_live s /\ cd_pending s = [].
Proof.
  unfold cd_quiescent. intros H. apply andb_true_iff in H. destruct H as [Hs Hw].
  rewrite forallb_forall in Hs, Hw. split.
  - intros [H|H]; [specialize (Hw _ H)|specialize (Hs _ H)]; discriminate.
  - rewrite cd_pending_eq. induction (cd_senders s) as [|x l IH]; [reflexivity|].
    cbn [flat_map]. pose proof (Hs x (or_introl eq_refl)) as Hx. destruct x; try discriminate.
    cbn [app]. apply IH. intros y Hy. apply Hs. right. exact Hy.
Qed.

(* ---------------------------------------------------------------- the theorem *)
Lemma cd_all_jobs_run_once cap n jobs evs :
  0 < n ->
  let s := cd_run CdFixed (cd_init cap n jobs) evs in
  Permutation (cd_ran s ++ cd_chan s ++ cd_pending s) jobs /\
  (cd_quiescent s = true -> cd_chan s = [] /\ Permutation (cd_ran s) jobs).
Proof.
  intros Hn s.
  assert (P : Permutation (cd_ran s ++ cd_chan s ++ cd_pending s) jobs).
  { eapply Permutation_trans; [apply (cd_run_conserves evs)|].
    unfold cd_all. rewrite cd_pending_eq. cbn [cd_init cd_ran cd_chan cd_senders app].
    rewrite flat_map_concat_map, map_map. cbn [cd_pf].
    induction jobs as [|j l IH]; [reflexivity|]. cbn [map concat app]. constructor. exact IH. }
  split; [exact P|]. intros Hq.
  destruct (cd_quiescent_spec s Hq) as [Hnl Hp].
  destruct (cd_run_inv evs _ (cd_init_inv cap n jobs Hn)) as [Hl _]. fold s in Hl.
  assert (Hc : cd_chan s = []).
  { destruct (cd_chan s) as [|j l] eqn:E; [reflexivity|]. exfalso. apply Hnl. apply Hl. discriminate. }
  split; [exact Hc|]. rewrite Hc, Hp in P. cbn [app] in P. rewrite app_nil_r in P. exact P.
Qed.

(* the code before 2b5acec: one job queued when the cache is closed, one sender arriving afterwards:
   everybody is done, nothing was executed *)
Lemma cd_orig_refuted :
  let s := cd_run CdOrig (cd_init 1 1 [1; 2]) [CdSender 0 true; CdClose; CdWorker 0 false; CdSender 1 false] in
  cd_quiescent s = true /\ cd_ran s = [] /\ cd_chan s = [1].
Proof. vm_compute. repeat split. Qed.

(* sendJob's second select is needed: without it a sender that arrives after the close AND after the last worker
   has left (a Load still running when the finalizer ran) and finds room queues a job nobody will take *)
Lemma cd_no_recheck_refuted :
  let s := cd_run CdNoRecheck (cd_init 1 1 [1]) [CdClose; CdWorker 0 false; CdSender 0 true] in
  cd_quiescent s = true /\ cd_ran s = [] /\ cd_chan s = [1].
Proof. vm_compute. repeat split. Qed.

Lemma cd_fixed_late_sender :
  let s := cd_run CdFixed (cd_init 1 1 [1]) [CdClose; CdWorker 0 false; CdSender 0 true; CdSender 0 true] in
  cd_quiescent s = true /\ cd_ran s = [1] /\ cd_chan s = [].
Proof. vm_compute. repeat split. Qed.

(* and the same history on the fixed code runs both *)
Lemma cd_fixed_same_history :
  let s := cd_run CdFixed (cd_init 1 1 [1; 2]) [CdSender 0 true; CdClose; CdWorker 0 false; CdSender 1 false; CdSender 0 true] in
  cd_quiescent s = true /\ cd_ran s = [1; 2] /\ cd_chan s = [].
Proof. vm_compute. repeat split. Qed.
