(* AntsPromptProofs.v -- the positive half of the timing clause of C08: when every handler
   invocation of a history is prompt (models/AntsPrompt.v) and the clock obeys maximal progress,
   no dispatcher is ever blocked in sendInnerCallback for a positive duration (B = 0), hence
   Get2 unblocks no later than R*T after pickup.

   Invariants (all over every reachable state, all N, all tie orders):
     an_kinv   every busy inner worker holds a distinct (task, attempt) that was started and
               whose pair is not yet in the attempt's doneChan; published attempts were started
     an_jinv   a callback waiting in innerCallbackChan, or a running handler, either belongs to
               the attempt its dispatcher is waiting for right now, or its deadline has passed
     an_pinv   (prompt histories, maximal progress) a running handler returns by
               max(now, deadline); a dispatcher in sendInnerCallback created its ctx1 at the
               current instant; B = 0 for every task
   The counting step (an_enq_not_quiet): if the clock could advance while a dispatcher sits in
   sendInnerCallback, the callback channel would be non-empty, so all N inner workers would run
   handlers that return in the future; being prompt their deadlines are in the future, so each
   belongs to a distinct dispatcher waiting in its select -- N of them, plus the one in
   sendInnerCallback: more than N dispatchers. *)
From Got Require Import Base Ants AntsProofs AntsCancelProofs AntsPrompt.
Local Open Scope Z_scope.

(* ------------------------------------------------------------------ helpers *)
Lemma an_after_proj s k a f :
  let s' := an_after s k a f in
  an_now s' = an_now s /\ an_next s' = an_next s /\ an_ichan s' = an_ichan s /\ an_workers s' = an_workers s /\
  (forall j, j <> k -> an_tk s' j = an_tk s j) /\
  at_inv (an_tk s' k) = at_inv (an_tk s k) /\ at_chan (an_tk s' k) = at_chan (an_tk s k) /\
  at_opts (an_tk s' k) = at_opts (an_tk s k) /\ at_blocked (an_tk s' k) = at_blocked (an_tk s k) /\
  ((at_phase (an_tk s' k) = AnDone /\ an_active s' = an_remove k (an_active s)) \/
   (at_phase (an_tk s' k) = AnEnq (S a) (an_now s) /\ an_active s' = an_active s)).
Proof.
  cbn zeta.
  destruct (an_after_cases s k a f) as [[_ E]|[[_ [_ E]]|[_ [_ E]]]]; rewrite E; clear E;
    cbn [an_now an_next an_ichan an_workers an_tk an_active an_release an_with_task];
    rewrite ?an_upd_same.
  - repeat split; auto. intros j Hj. apply an_upd_other, Hj.
  - repeat split; auto. intros j Hj. apply an_upd_other, Hj.
  - destruct (ao_onerr (at_opts (an_tk s k))); (repeat split; auto; intros j Hj; apply an_upd_other, Hj).
Qed.

Lemma an_started_unsent s : an_tinv_all s -> an_binv s -> an_started (an_tk s (an_next s)) = [].
Proof.
  intros (_ & Hnext & _) (_ & _ & B3 & _).
  assert (Hu : at_phase (an_tk s (an_next s)) = AnUnsent) by (apply Hnext; lia).
  destruct (an_started (an_tk s (an_next s))) as [|a l] eqn:E; [reflexivity|].
  destruct (B3 (an_next s)) as [_ Hb]. specialize (Hb a). rewrite E in Hb. specialize (Hb (or_introl eq_refl)).
  unfold an_enq in Hb. rewrite Hu in Hb. lia.
Qed.

Ltac an_extract_facts M :=
  let Hf := fresh "Hf" in let l1 := fresh "l1" in let l2 := fresh "l2" in
  let E1 := fresh "Ews" in let E2 := fresh "Erest" in
  destruct (an_extract_spec _ _ _ _ M) as [Hf [l1 [l2 [E1 E2]]]];
  (unfold an_is_run in Hf || unfold an_is_pub in Hf); an_bools; an_subst_vars;
  match type of E2 with ?x = _ => subst x end.

(* ------------------------------------------------------------------ busy workers hold distinct started, unpublished attempts *)
Definition an_slot_key (sl : an_slot) : nat * nat :=
  match sl with AnRun k a _ _ _ => (k, a) | AnPub k a _ _ => (k, a) end.
Definition an_skeys (s : an_state) : list (nat * nat) := map an_slot_key (an_workers s).

Definition an_kinv (s : an_state) : Prop :=
  NoDup (an_skeys s) /\
  (forall k a, In (k, a) (an_skeys s) ->
     In a (an_started (an_tk s k)) /\ forall p, ~ In (a, p) (at_chan (an_tk s k))) /\
  (forall k a p, In (a, p) (at_chan (an_tk s k)) -> In a (an_started (an_tk s k))).

Lemma an_slot_key_cancel tk now sl : an_slot_key (an_cancel_slot tk now sl) = an_slot_key sl.
Proof.
  destruct sl as [k a d r p|k a saw p]; cbn [an_cancel_slot]; [|reflexivity].
  destruct (ab_honours (an_beh_of (at_opts (tk k)) a) && (now <? r))%bool; reflexivity.
Qed.

Lemma an_skeys_cancel s now nx tk tc sq ac ic mr pc :
  an_skeys {| an_now := now; an_next := nx; an_tk := tk; an_tchan := tc; an_sendq := sq; an_active := ac; an_ichan := ic;
              an_workers := map (an_cancel_slot (an_tk s) (an_now s)) (an_workers s); an_maxrun := mr; an_pc := pc |} = an_skeys s.
Proof.
  unfold an_skeys. cbn [an_workers]. rewrite map_map. apply map_ext. intros sl. apply an_slot_key_cancel.
Qed.

Lemma an_kinv_frame s s' :
  NoDup (an_skeys s') -> incl (an_skeys s') (an_skeys s) ->
  (forall k, an_started (an_tk s' k) = an_started (an_tk s k) /\ incl (at_chan (an_tk s' k)) (at_chan (an_tk s k))) ->
  an_kinv s -> an_kinv s'.
Proof.
  intros Hnd Hi Hk (K1 & K2 & K3). split; [exact Hnd|split].
  - intros k a Hin. destruct (Hk k) as [Es Ec]. destruct (K2 k a (Hi _ Hin)) as [H1 H2]. rewrite Es. split; [exact H1|].
    intros p Hp. apply (H2 p), Ec, Hp.
  - intros k a p Hin. destruct (Hk k) as [Es Ec]. rewrite Es. apply (K3 k a p), Ec, Hin.
Qed.

Lemma an_kinv_step cfg s e s' :
  an_tinv_all s -> an_binv s -> an_kinv s -> an_step cfg s e = Some s' -> an_kinv s'.
Proof.
  intros IT IB IH Hs.
  pose proof (an_started_unsent s IT IB) as Hst0.
  destruct IB as (_ & B2 & _).
  assert (Hfr : forall (k : nat) (t : an_task) (s1 : an_state), an_workers s1 = an_workers s -> an_tk s1 = an_upd (an_tk s) k t ->
                an_started t = an_started (an_tk s k) -> incl (at_chan t) (at_chan (an_tk s k)) -> an_kinv s1).
  { intros k t s1 Hw Ht Es Ec. apply (an_kinv_frame s); [unfold an_skeys; rewrite Hw; apply IH|unfold an_skeys; rewrite Hw; apply incl_refl| |exact IH].
    intros j. rewrite Ht. unfold an_upd. destruct (Nat.eqb_spec j k) as [->|]; [split; assumption|split; [reflexivity|apply incl_refl]]. }
  pose proof IH as (K1 & K2 & K3).
  destruct e; an_inv_step Hs; try (inversion Hs; subst; clear Hs).
  - (* send *) eapply (Hfr (an_next s)); [reflexivity|reflexivity| |]; rewrite ?Hst0; destruct (ao_onerr o); cbn; try reflexivity; apply incl_nil_l.
  - eapply (Hfr (an_next s)); [reflexivity|reflexivity| |]; rewrite ?Hst0; cbn; try reflexivity; apply incl_nil_l.
  - eapply (Hfr (an_next s)); [reflexivity|reflexivity| |]; rewrite ?Hst0; cbn; try reflexivity; apply incl_nil_l.
  - (* pick *) eapply (Hfr k); try reflexivity. apply incl_refl.
  - (* enqueue *) eapply (Hfr k); try reflexivity. apply incl_refl.
  - (* start *)
    an_bools. an_subst_vars.
    assert (Hkey : In (k, a) (an_keys s)) by (unfold an_keys; rewrite M; left; reflexivity).
    destruct (B2 k a Hkey) as [_ Hns].
    unfold an_kinv, an_skeys. cbn [an_workers an_tk map an_slot_key].
    split; [|split].
    + constructor; [|exact K1]. intros Hin. apply K2 in Hin. destruct Hin as [Hin _]. contradiction.
    + intros k' a' [Heq|Hin].
      * inversion Heq; subst k' a'. rewrite an_upd_same. unfold an_started. cbn. split; [left; reflexivity|].
        intros p Hp. apply K3 in Hp. contradiction.
      * destruct (K2 k' a' Hin) as [H1 H2]. unfold an_upd. destruct (Nat.eqb_spec k' k) as [->|]; [|split; assumption].
        unfold an_started in *. cbn. split; [right; exact H1|exact H2].
    + intros k' a' p. unfold an_upd. destruct (Nat.eqb_spec k' k) as [->|]; [|apply K3].
      unfold an_started. cbn. intros Hin. right. eapply K3, Hin.
  - (* return *)
    an_extract_facts M.
    unfold an_skeys in K1, K2. rewrite Ews, map_app in K1, K2. cbn [map an_slot_key] in K1, K2.
    apply (an_kinv_frame s).
    + unfold an_skeys. cbn [an_workers map an_slot_key]. rewrite map_app. constructor; [apply NoDup_remove_2, K1|apply NoDup_remove_1 in K1; exact K1].
    + unfold an_skeys. cbn [an_workers map an_slot_key]. rewrite Ews, !map_app. cbn [map an_slot_key].
      intros x [<-|Hx]; [apply in_or_app; right; left; reflexivity|].
      apply in_app_or in Hx. apply in_or_app. destruct Hx; [left|right; right]; assumption.
    + intros j. cbn [an_tk]. unfold an_upd. destruct (Nat.eqb_spec j k) as [->|]; split; try reflexivity; apply incl_refl.
    + exact IH.
  - (* publish *)
    an_extract_facts M.
    unfold an_skeys in K1, K2. rewrite Ews, map_app in K1, K2. cbn [map an_slot_key] in K1, K2.
    pose proof (NoDup_remove_2 _ _ _ K1) as Hnk. apply NoDup_remove_1 in K1.
    assert (Hsub : forall x, In x (map an_slot_key l1 ++ map an_slot_key l2) -> In x (map an_slot_key l1 ++ (k, a) :: map an_slot_key l2)).
    { intros x Hx. apply in_app_or in Hx. apply in_or_app. destruct Hx; [left|right; right]; assumption. }
    assert (Hka : In (k, a) (map an_slot_key l1 ++ (k, a) :: map an_slot_key l2)) by (apply in_or_app; right; left; reflexivity).
    unfold an_kinv, an_skeys. cbn [an_workers an_tk]. rewrite map_app.
    split; [exact K1|split].
    + intros k' a' Hin. destruct (K2 k' a' (Hsub _ Hin)) as [H1 H2].
      unfold an_upd. destruct (Nat.eqb_spec k' k) as [->|]; [|split; assumption].
      assert (Hne : a' <> a) by (intros ->; contradiction).
      destruct (an_pub cfg); [destruct saw|]; unfold an_started in *; cbn; (split; [exact H1|]);
        (intros p [Heq|Hp]; [inversion Heq; congruence|apply (H2 p Hp)]).
    + intros k' a' p. unfold an_upd. destruct (Nat.eqb_spec k' k) as [->|]; [|apply K3].
      destruct (K2 k a Hka) as [H1 _].
      destruct (an_pub cfg); [destruct saw|]; unfold an_started in *; cbn;
        (intros [Heq|Hp]; [inversion Heq; subst; exact H1|apply (K3 _ _ _ Hp)]).
  - (* decide via doneChan *)
    destruct (an_after_proj s k a (match an_pub cfg with AnSharedFields => at_fields (an_tk s k) | AnAttemptChannel => a0 end))
      as (_ & _ & _ & Hw & Hoth & Hi & Hc & _).
    apply (an_kinv_frame s); [unfold an_skeys; rewrite Hw; exact K1|unfold an_skeys; rewrite Hw; apply incl_refl| |exact IH].
    intros j. destruct (Nat.eq_dec j k) as [->|Hne]; [unfold an_started; rewrite Hi, Hc|rewrite Hoth by exact Hne]; split; try reflexivity; apply incl_refl.
  - (* decide via deadline *)
    destruct (an_after_proj s k a (None, AnDeadline)) as (_ & _ & _ & Hw & Hoth & Hi & Hc & _).
    apply (an_kinv_frame s); [unfold an_skeys; rewrite Hw; exact K1|unfold an_skeys; rewrite Hw; apply incl_refl| |exact IH].
    intros j. destruct (Nat.eq_dec j k) as [->|Hne]; [unfold an_started; rewrite Hi, Hc|rewrite Hoth by exact Hne]; split; try reflexivity; apply incl_refl.
  - (* get2 *) eapply (Hfr k); try reflexivity. apply incl_refl.
  - eapply (Hfr k); try reflexivity. apply incl_refl.
  - (* advance *) apply (an_kinv_frame s); [exact K1|apply incl_refl| |exact IH]. intros j. split; [reflexivity|apply incl_refl].
  - (* parent cancel, again *) exact IH.
  - (* parent cancel: the busy workers keep their (task, attempt) *)
    unfold an_kinv. rewrite an_skeys_cancel. cbn [an_tk]. exact IH.
Qed.

Lemma an_kinv_reach cfg s : an_pub cfg = AnAttemptChannel -> an_reach cfg s -> an_kinv s.
Proof.
  intros Hpub. apply (an_reach_inv an_kinv).
  - unfold an_kinv, an_skeys. cbn. repeat split; try constructor; intros; contradiction.
  - intros s0 e s1 Hr H Hs. eapply an_kinv_step; eauto; [apply (an_tinv_reach cfg)|apply (an_binv_reach cfg)]; assumption.
Qed.

(* ------------------------------------------------------------------ queued callbacks and running handlers are live or overdue *)
(* (a, d) is the attempt the dispatcher of task t is waiting for in its select, d its deadline *)
Definition an_live (t : an_task) (a : nat) (d : Z) : Prop :=
  exists c, at_phase t = AnWait a c /\ d = c + ao_T (at_opts t).
Definition an_busy_phase (ph : an_phase) : bool :=
  match ph with AnEnq _ _ | AnWait _ _ => true | _ => false end.

Definition an_jinv (s : an_state) : Prop :=
  (forall k a d, In (k, a, d) (an_ichan s) -> an_live (an_tk s k) a d \/ d <= an_now s) /\
  (forall k a d r p, In (AnRun k a d r p) (an_workers s) -> an_live (an_tk s k) a d \/ d <= an_now s) /\
  (forall k, an_busy_phase (at_phase (an_tk s k)) = true -> In k (an_active s)).

Lemma an_live_same t t' a d :
  at_phase t' = at_phase t -> at_opts t' = at_opts t -> an_live t a d -> an_live t' a d.
Proof. intros E1 E2 (c & H1 & H2). exists c. rewrite E1, E2. split; assumption. Qed.

Lemma an_jinv_gen s s' :
  an_now s <= an_now s' ->
  (forall k a d, In (k, a, d) (an_ichan s') -> In (k, a, d) (an_ichan s) \/ an_live (an_tk s' k) a d \/ d <= an_now s') ->
  (forall k a d r p, In (AnRun k a d r p) (an_workers s') ->
     In (AnRun k a d r p) (an_workers s) \/ In (k, a, d) (an_ichan s)) ->
  (forall k a d, (In (k, a, d) (an_ichan s) \/ exists r p, In (AnRun k a d r p) (an_workers s)) ->
     an_live (an_tk s k) a d -> an_live (an_tk s' k) a d \/ d <= an_now s') ->
  (forall k, an_busy_phase (at_phase (an_tk s' k)) = true -> In k (an_active s')) ->
  an_jinv s -> an_jinv s'.
Proof.
  intros Hn Hi Hw Hl Hb (J1 & J2 & J3).
  assert (G1 : forall k a d, In (k, a, d) (an_ichan s) -> an_live (an_tk s' k) a d \/ d <= an_now s').
  { intros k a d Hin. destruct (J1 k a d Hin) as [H|H]; [apply Hl; [left; exact Hin|exact H]|right; lia]. }
  split; [|split; [|exact Hb]].
  - intros k a d Hin. destruct (Hi k a d Hin) as [H|[H|H]]; [apply G1, H|left; exact H|right; exact H].
  - intros k a d r p Hin. destruct (Hw k a d r p Hin) as [H|H]; [|apply G1, H].
    destruct (J2 k a d r p H) as [H'|H']; [apply Hl; [right; exists r, p; exact H|exact H']|right; lia].
Qed.

(* the common case: phases and options of all tasks unchanged, nothing new queued, active only grows *)
Lemma an_jinv_frame s s' :
  an_now s <= an_now s' ->
  (forall x, In x (an_ichan s') -> In x (an_ichan s)) ->
  (forall k a d r p, In (AnRun k a d r p) (an_workers s') ->
     In (AnRun k a d r p) (an_workers s) \/ In (k, a, d) (an_ichan s)) ->
  (forall k, at_phase (an_tk s' k) = at_phase (an_tk s k) /\ at_opts (an_tk s' k) = at_opts (an_tk s k)) ->
  (forall k, In k (an_active s) -> In k (an_active s')) ->
  an_jinv s -> an_jinv s'.
Proof.
  intros Hn Hi Hw Hk Ha IH. apply (an_jinv_gen s); auto.
  - intros k a d _ H. left. destruct (Hk k) as [E1 E2]. eapply an_live_same; eauto.
  - intros k Hb. destruct (Hk k) as [E1 _]. rewrite E1 in Hb. apply Ha. destruct IH as (_ & _ & J3). apply J3, Hb.
Qed.

Lemma an_jinv_decide s k a c f :
  an_binv s -> an_kinv s -> an_jinv s -> at_phase (an_tk s k) = AnWait a c ->
  (c + ao_T (at_opts (an_tk s k)) <= an_now s \/
   (forall k' a' d, In (k', a', d) (an_ichan s) \/ (exists r p, In (AnRun k' a' d r p) (an_workers s)) -> d <= an_now s) \/
   exists p, In (a, p) (at_chan (an_tk s k))) ->
  an_jinv (an_after s k a f).
Proof.
  intros (_ & B2 & _) (_ & K2 & K3) IH Hph Hwhy.
  destruct (an_after_proj s k a f) as (Hn & _ & Hi & Hw & Hoth & _ & _ & Ho & _ & Hcase).
  pose proof IH as (J1 & J2 & J3).
  apply (an_jinv_gen s).
  - lia.
  - intros k' a' d Hin. left. rewrite Hi in Hin. exact Hin.
  - intros k' a' d r p Hin. left. rewrite Hw in Hin. exact Hin.
  - intros k' a' d Hpres Hlive. destruct (Nat.eq_dec k' k) as [->|Hne]; [|left; rewrite Hoth by exact Hne; exact Hlive].
    destruct Hlive as (c' & E1 & E2). rewrite Hph in E1. inversion E1; subst a' c'. right. rewrite Hn.
    destruct Hwhy as [Hd|[Hall|[p Hp]]]; [lia|apply (Hall k a d); exact Hpres|exfalso].
    pose proof (K3 _ _ _ Hp) as Hst. destruct Hpres as [Hin|(r & p' & Hin)].
    + destruct (B2 k a) as [_ Hns]; [|contradiction].
      unfold an_keys. apply in_map_iff. exists (k, a, d). split; [reflexivity|exact Hin].
    + destruct (K2 k a) as [_ Hnc].
      { unfold an_skeys. apply in_map_iff. exists (AnRun k a d r p'). split; [reflexivity|exact Hin]. }
      exact (Hnc p Hp).
  - intros k' Hb. destruct (Nat.eq_dec k' k) as [->|Hne].
    + destruct Hcase as [[E _]|[_ E]]; [rewrite E in Hb; discriminate|]. rewrite E. apply J3. rewrite Hph. reflexivity.
    + rewrite Hoth in Hb by exact Hne. apply J3 in Hb.
      destruct Hcase as [[_ E]|[_ E]]; rewrite E; [apply an_remove_in; split; assumption|exact Hb].
  - exact IH.
Qed.

Lemma an_jinv_step cfg s e s' :
  an_tinv_all s -> an_binv s -> an_kinv s -> an_qinv s -> an_jinv s -> an_step cfg s e = Some s' -> an_jinv s'.
Proof.
  intros (IT & Hnext & _ & Hq & _) IB IK IQ IH Hs.
  pose proof IH as (J1 & J2 & J3).
  assert (Hsame : forall (k : nat) (t : an_task) (j : nat), at_phase t = at_phase (an_tk s k) -> at_opts t = at_opts (an_tk s k) ->
            at_phase (an_upd (an_tk s) k t j) = at_phase (an_tk s j) /\ at_opts (an_upd (an_tk s) k t j) = at_opts (an_tk s j)).
  { intros k t j E1 E2. unfold an_upd. destruct (Nat.eqb_spec j k) as [->|]; split; auto. }
  assert (Hsend : forall t s1, an_now s1 = an_now s -> an_ichan s1 = an_ichan s -> an_workers s1 = an_workers s ->
            an_active s1 = an_active s -> an_tk s1 = an_upd (an_tk s) (an_next s) t -> an_busy_phase (at_phase t) = false -> an_jinv s1).
  { intros t s1 E1 E2 E3 E4 E5 Hb.
    assert (Hu : at_phase (an_tk s (an_next s)) = AnUnsent) by (apply Hnext; lia).
    apply (an_jinv_gen s); rewrite ?E1, ?E2, ?E3, ?E4, ?E5; [lia|intros; left; assumption|intros; left; assumption| | |exact IH].
    + intros k a d _ Hl. left. unfold an_upd. destruct (Nat.eqb_spec k (an_next s)) as [->|]; [|exact Hl].
      destruct Hl as (c & E & _). rewrite Hu in E. discriminate.
    + intros k. unfold an_upd. destruct (Nat.eqb_spec k (an_next s)) as [->|]; [|apply J3]. rewrite Hb. discriminate. }
  destruct e; an_inv_step Hs; try (inversion Hs; subst; clear Hs).
  - (* send, discarded *) eapply Hsend; try reflexivity. destruct (ao_onerr o); reflexivity.
  - eapply Hsend; try reflexivity.
  - eapply Hsend; try reflexivity.
  - (* pick *)
    an_bools. an_subst_vars.
    assert (Hkq : at_phase (an_tk s k) = AnQueued) by (apply Hq; try rewrite M; left; reflexivity).
    apply (an_jinv_gen s); cbn [an_now an_ichan an_workers an_tk an_active];
      [lia|intros; left; assumption|intros; left; assumption| | |exact IH].
    + intros k' a d _ Hl. left. unfold an_upd. destruct (Nat.eqb_spec k' k) as [->|]; [|exact Hl].
      destruct Hl as (c & E & _). rewrite Hkq in E. discriminate.
    + intros k'. unfold an_upd. destruct (Nat.eqb_spec k' k) as [->|]; [left; reflexivity|intros Hb; right; apply J3, Hb].
  - (* enqueue *)
    assert (Hka : In k (an_active s)) by (apply J3; rewrite M; reflexivity).
    apply (an_jinv_gen s); cbn [an_now an_ichan an_workers an_tk an_active];
      [lia| |intros; left; assumption| | |exact IH].
    + intros k' a' d Hin. apply in_app_or in Hin. destruct Hin as [Hin|[Heq|[]]]; [left; exact Hin|right].
      inversion Heq; subst k' a' d. rewrite an_upd_same. unfold an_dl. destruct (an_pc s) as [q|] eqn:Epc.
      * right. destruct (IQ q Epc) as (Q1 & _). lia.
      * left. exists c. split; reflexivity.
    + intros k' a' d _ Hl. left. unfold an_upd. destruct (Nat.eqb_spec k' k) as [->|]; [|exact Hl].
      destruct Hl as (c' & E & _). rewrite M in E. discriminate.
    + intros k'. unfold an_upd. destruct (Nat.eqb_spec k' k) as [->|]; [intros _; exact Hka|apply J3].
  - (* start *)
    an_bools. an_subst_vars.
    apply (an_jinv_frame s); cbn [an_now an_ichan an_workers an_tk an_active];
      [lia| | | |intros; assumption|exact IH].
    + intros x Hx. rewrite M. right. exact Hx.
    + intros k' a' d r p [Heq|Hin]; [right; inversion Heq; subst; rewrite M; left; reflexivity|left; exact Hin].
    + intros j. apply Hsame; reflexivity.
  - (* return *)
    an_extract_facts M.
    apply (an_jinv_frame s); cbn [an_now an_ichan an_workers an_tk an_active];
      [lia|intros; assumption| | |intros; assumption|exact IH].
    + intros k' a' d' r' p' [Heq|Hin]; [discriminate|left]. rewrite Ews. apply in_app_or in Hin. apply in_or_app.
      destruct Hin; [left|right; right]; assumption.
    + intros j. apply Hsame; reflexivity.
  - (* publish *)
    an_extract_facts M.
    apply (an_jinv_frame s); cbn [an_now an_ichan an_workers an_tk an_active];
      [lia|intros; assumption| | |intros; assumption|exact IH].
    + intros k' a' d' r' p' Hin. left. rewrite Ews. apply in_app_or in Hin. apply in_or_app.
      destruct Hin; [left|right; right]; assumption.
    + intros j. apply Hsame; destruct (an_pub cfg); [destruct saw| |destruct saw|]; reflexivity.
  - (* decide via doneChan *)
    eapply an_jinv_decide; eauto. right. right. exists a0. apply an_chan_find_in, M0.
  - (* decide via deadline, or via the cancelled parent context *)
    an_bools. eapply an_jinv_decide; eauto. unfold an_dl in *.
    destruct (an_pc s) as [q|] eqn:Epc; [right; left|left; assumption].
    destruct (IQ q Epc) as (Q1 & Q2 & Q3).
    intros k' a' d [Hin|(r & p & Hin)]; [specialize (Q2 _ _ _ Hin)|specialize (Q3 _ _ _ _ _ Hin)]; lia.
  - (* get2 *)
    apply (an_jinv_frame s); cbn [an_now an_ichan an_workers an_tk an_active an_with_task];
      [lia|intros; assumption|intros; left; assumption| |intros; assumption|exact IH].
    intros j. apply Hsame; reflexivity.
  - apply (an_jinv_frame s); cbn [an_now an_ichan an_workers an_tk an_active an_with_task];
      [lia|intros; assumption|intros; left; assumption| |intros; assumption|exact IH].
    intros j. apply Hsame; reflexivity.
  - (* advance *)
    an_bools. apply (an_jinv_frame s); cbn [an_now an_ichan an_workers an_tk an_active];
      [lia|intros; assumption|intros; left; assumption|intros; split; reflexivity|intros; assumption|exact IH].
  - (* parent cancel, again *) exact IH.
  - (* parent cancel: every queued callback and running handler is overdue now *)
    split; [|split]; cbn [an_now an_ichan an_workers an_tk an_active].
    + intros k a d Hin. right. apply in_map_iff in Hin. destruct Hin as ([[k' a'] d'] & E & _). cbn [an_cancel_cb] in E. inversion E. lia.
    + intros k a d r p Hin. right. apply in_map_iff in Hin. destruct Hin as (sl & E & _).
      destruct sl as [k' a' d' r' p'|k' a' saw' p']; cbn [an_cancel_slot] in E; [|discriminate E].
      destruct (ab_honours (an_beh_of (at_opts (an_tk s k')) a') && (an_now s <? r'))%bool; inversion E; lia.
    + exact J3.
Qed.

Lemma an_jinv_reach cfg s : an_pub cfg = AnAttemptChannel -> an_reach cfg s -> an_jinv s.
Proof.
  intros Hpub. apply (an_reach_inv an_jinv).
  - unfold an_jinv. cbn. repeat split; try (intros; contradiction). intros; discriminate.
  - intros s0 e s1 Hr H Hs. eapply an_jinv_step; eauto;
      [apply (an_tinv_reach cfg)|apply (an_binv_reach cfg)|apply (an_kinv_reach cfg)|apply (an_qinv_reach cfg)]; assumption.
Qed.

(* ------------------------------------------------------------------ the counting step *)
Lemma an_nodup_map_fst {A B} (l : list (A * B)) :
  NoDup l -> (forall x y, In x l -> In y l -> fst x = fst y -> x = y) -> NoDup (map fst l).
Proof.
  induction l as [|x l IH]; intros Hnd Hinj; cbn [map]; [constructor|].
  inversion Hnd as [|? ? Hx Hl]; subst. constructor.
  - intros Hin. apply in_map_iff in Hin. destruct Hin as (y & Ey & Hy).
    assert (y = x) by (apply Hinj; [right; exact Hy|left; reflexivity|exact Ey]). subst y. contradiction.
  - apply IH; [exact Hl|]. intros y z Hy Hz. apply Hinj; right; assumption.
Qed.

Lemma an_filter_lt {A} (f : A -> bool) l x :
  In x l -> f x = false -> (length (filter f l) < length l)%nat.
Proof.
  induction l as [|y l IH]; intros Hin Hf; [contradiction|]. cbn [filter length].
  destruct Hin as [->|Hin].
  - rewrite Hf. pose proof (an_filter_length f l). lia.
  - specialize (IH Hin Hf). destruct (f y); cbn [length]; lia.
Qed.

Definition an_waiting (s : an_state) (j : nat) : bool :=
  match at_phase (an_tk s j) with AnWait _ _ => true | _ => false end.

(* maximal progress never lets the clock advance while a dispatcher sits in sendInnerCallback,
   provided every running handler returns by max(now, its deadline) *)
Lemma an_enq_not_quiet cfg s dt k a c :
  an_cnt cfg s -> an_kinv s -> an_jinv s ->
  (forall k a d r p, In (AnRun k a d r p) (an_workers s) -> r <= Z.max (an_now s) d) ->
  0 < dt -> at_phase (an_tk s k) = AnEnq a c -> an_quiet cfg s dt = false.
Proof.
  intros (_ & Hact & _ & Hws & _) (K1 & _ & _) (_ & J2 & J3) HP Hdt Hph.
  destruct (an_quiet cfg s dt) eqn:Q; [exfalso|reflexivity].
  unfold an_quiet in Q. apply andb_prop in Q. destruct Q as [Q QD]. apply andb_prop in Q. destruct Q as [Q QC].
  apply andb_prop in Q. destruct Q as [_ QB].
  assert (Hka : In k (an_active s)) by (apply J3; rewrite Hph; reflexivity).
  rewrite forallb_forall in QC, QD.
  pose proof (QD k Hka) as Hk. unfold an_task_quiet in Hk. rewrite Hph in Hk. apply Nat.leb_le in Hk.
  assert (Hpos : (1 <= length (an_active s))%nat) by (destruct (an_active s); [contradiction|cbn; lia]).
  assert (HN : (an_N cfg <= length (an_workers s))%nat).
  { destruct (an_ichan s); [cbn in Hk; lia|apply Nat.leb_le, QB]. }
  (* every busy worker runs a handler for an attempt its dispatcher is waiting for *)
  assert (Hall : forall sl, In sl (an_workers s) ->
            exists k' a' d r p, sl = AnRun k' a' d r p /\ an_live (an_tk s k') a' d).
  { intros sl Hin. specialize (QC sl Hin). destruct sl as [k' a' d r p|]; [|discriminate QC].
    cbn [an_slot_quiet] in QC. apply Z.leb_le in QC. exists k', a', d, r, p. split; [reflexivity|].
    destruct (J2 _ _ _ _ _ Hin) as [H|H]; [exact H|]. specialize (HP _ _ _ _ _ Hin). lia. }
  assert (Hnd : NoDup (map fst (an_skeys s))).
  { apply an_nodup_map_fst; [exact K1|]. intros [k1 a1] [k2 a2] H1 H2 E. cbn [fst] in E. subst k2.
    unfold an_skeys in H1, H2. apply in_map_iff in H1, H2.
    destruct H1 as (sl1 & E1 & H1). destruct H2 as (sl2 & E2 & H2).
    destruct (Hall _ H1) as (k1' & a1' & d1 & r1 & p1 & -> & (c1 & L1 & _)).
    destruct (Hall _ H2) as (k2' & a2' & d2 & r2 & p2 & -> & (c2 & L2 & _)).
    cbn [an_slot_key] in E1, E2. inversion E1; inversion E2; subst. rewrite L1 in L2. inversion L2. reflexivity. }
  assert (Hincl : incl (map fst (an_skeys s)) (filter (an_waiting s) (an_active s))).
  { intros k' Hin. apply in_map_iff in Hin. destruct Hin as ([k1 a1] & E & Hin). cbn [fst] in E. subst k1.
    unfold an_skeys in Hin. apply in_map_iff in Hin. destruct Hin as (sl & E & Hin).
    destruct (Hall _ Hin) as (k1 & a1' & d1 & r1 & p1 & -> & (c1 & L1 & _)). cbn [an_slot_key] in E. inversion E; subst.
    apply filter_In. split; [apply J3; rewrite L1; reflexivity|unfold an_waiting; rewrite L1; reflexivity]. }
  pose proof (NoDup_incl_length Hnd Hincl) as Hlen.
  unfold an_skeys in Hlen. rewrite !map_length in Hlen.
  assert (Hlt : (length (filter (an_waiting s) (an_active s)) < length (an_active s))%nat).
  { apply (an_filter_lt _ _ k Hka). unfold an_waiting. rewrite Hph. reflexivity. }
  lia.
Qed.

(* ------------------------------------------------------------------ prompt histories: no blocked enqueue *)
Definition an_pinv (s : an_state) : Prop :=
  (forall k a d r p, In (AnRun k a d r p) (an_workers s) -> r <= Z.max (an_now s) d) /\
  (forall k a c, at_phase (an_tk s k) = AnEnq a c -> c = an_now s) /\
  (forall k, at_blocked (an_tk s k) = 0).

Lemma an_pinv_step cfg s e s' :
  an_fixed cfg -> an_urg cfg = true -> an_reach cfg s -> an_pinv s ->
  an_start_prompt s e = true -> an_step cfg s e = Some s' -> an_pinv s'.
Proof.
  intros Hpub Hurg Hr (P1 & P2 & P3) Hpr Hs.
  pose proof (an_cnt_reach cfg s Hr) as IC.
  pose proof (an_kinv_reach cfg s Hpub Hr) as IK.
  pose proof (an_jinv_reach cfg s Hpub Hr) as IJ.
  (* a step that changes one task, keeping Enq phases fresh and B, and adds no running handler *)
  assert (Hfr : forall (k : nat) (t : an_task) (s1 : an_state), an_now s1 = an_now s -> an_tk s1 = an_upd (an_tk s) k t ->
            (forall k' a' d r p, In (AnRun k' a' d r p) (an_workers s1) -> In (AnRun k' a' d r p) (an_workers s)) ->
            (forall a c, at_phase t = AnEnq a c -> c = an_now s) -> at_blocked t = 0 -> an_pinv s1).
  { intros k t s1 En Et Hw Hph Hb. unfold an_pinv. rewrite En, Et. split; [|split].
    - intros k' a' d r p Hin. apply (P1 _ _ _ _ _ (Hw _ _ _ _ _ Hin)).
    - intros k' a' c'. unfold an_upd. destruct (Nat.eqb_spec k' k) as [->|]; [apply Hph|apply P2].
    - intros k'. unfold an_upd. destruct (Nat.eqb_spec k' k) as [->|]; [exact Hb|apply P3]. }
  destruct e; an_inv_step Hs; try (inversion Hs; subst; clear Hs).
  - (* send *) eapply (Hfr (an_next s)); try reflexivity; [intros; assumption| |]; destruct (ao_onerr o); cbn; try reflexivity; intros; discriminate.
  - eapply (Hfr (an_next s)); try reflexivity; [intros; assumption|]; cbn; intros; discriminate.
  - eapply (Hfr (an_next s)); try reflexivity; [intros; assumption|]; cbn; intros; discriminate.
  - (* pick *) eapply (Hfr k); try reflexivity; [intros; assumption| |cbn; apply P3].
    cbn. intros a c E. inversion E. reflexivity.
  - (* enqueue *) eapply (Hfr k); try reflexivity; [intros; assumption| |].
    + cbn. intros; discriminate.
    + cbn. rewrite (P3 k), (P2 _ _ _ M). lia.
  - (* start *)
    an_bools. an_subst_vars.
    unfold an_start_prompt in Hpr. rewrite M in Hpr. apply Z.leb_le in Hpr.
    unfold an_pinv. cbn [an_now an_workers an_tk]. split; [|split].
    + intros k' a' d r p [Heq|Hin]; [inversion Heq; subst; exact Hpr|apply (P1 _ _ _ _ _ Hin)].
    + intros k' a' c'. unfold an_upd. destruct (Nat.eqb_spec k' k) as [->|]; [cbn|]; apply P2.
    + intros k'. unfold an_upd. destruct (Nat.eqb_spec k' k) as [->|]; [cbn|]; apply P3.
  - (* return *)
    an_extract_facts M.
    eapply (Hfr k); try reflexivity; [| |cbn; apply P3].
    + cbn [an_workers]. intros k' a' d' r' p' [Heq|Hin]; [discriminate|]. rewrite Ews. apply in_app_or in Hin. apply in_or_app.
      destruct Hin; [left|right; right]; assumption.
    + cbn. apply P2.
  - (* publish *)
    an_extract_facts M.
    eapply (Hfr k); try reflexivity.
    + cbn [an_workers]. intros k' a' d' r' p' Hin. rewrite Ews. apply in_app_or in Hin. apply in_or_app.
      destruct Hin; [left|right; right]; assumption.
    + destruct (an_pub cfg); [destruct saw|]; cbn; apply P2.
    + destruct (an_pub cfg); [destruct saw|]; cbn; apply P3.
  - (* decide via doneChan *)
    destruct (an_after_proj s k a (match an_pub cfg with AnSharedFields => at_fields (an_tk s k) | AnAttemptChannel => a0 end))
      as (Hn & _ & _ & Hw & Hoth & _ & _ & _ & Hb & Hcase).
    unfold an_pinv. rewrite Hn, Hw. split; [exact P1|split].
    + intros k' a' c'. destruct (Nat.eq_dec k' k) as [->|Hne]; [|rewrite Hoth by exact Hne; apply P2].
      destruct Hcase as [[E _]|[E _]]; rewrite E; intros E'; inversion E'. reflexivity.
    + intros k'. destruct (Nat.eq_dec k' k) as [->|Hne]; [rewrite Hb|rewrite Hoth by exact Hne]; apply P3.
  - (* decide via deadline *)
    destruct (an_after_proj s k a (None, AnDeadline)) as (Hn & _ & _ & Hw & Hoth & _ & _ & _ & Hb & Hcase).
    unfold an_pinv. rewrite Hn, Hw. split; [exact P1|split].
    + intros k' a' c'. destruct (Nat.eq_dec k' k) as [->|Hne]; [|rewrite Hoth by exact Hne; apply P2].
      destruct Hcase as [[E _]|[E _]]; rewrite E; intros E'; inversion E'. reflexivity.
    + intros k'. destruct (Nat.eq_dec k' k) as [->|Hne]; [rewrite Hb|rewrite Hoth by exact Hne]; apply P3.
  - (* get2 *) eapply (Hfr k); try reflexivity; [intros; assumption| |cbn; apply P3]. cbn. apply P2.
  - eapply (Hfr k); try reflexivity; [intros; assumption| |cbn; apply P3]. cbn. apply P2.
  - (* advance *)
    an_bools. rewrite Hurg in *. cbn [negb orb] in *.
    unfold an_pinv. cbn [an_now an_workers an_tk]. split; [|split; [|exact P3]].
    + intros k a d r p Hin. specialize (P1 _ _ _ _ _ Hin). lia.
    + intros k a c Hph. rewrite (P2 _ _ _ Hph).
      destruct (dt =? 0) eqn:Ed; [apply Z.eqb_eq in Ed; lia|]. cbn [orb] in *. apply Z.eqb_neq in Ed.
      rewrite (an_enq_not_quiet cfg s dt k a c IC IK IJ P1) in *; [discriminate|lia|exact Hph].
  - (* parent cancel, again *) exact (conj P1 (conj P2 P3)).
  - (* parent cancel: honouring handlers return now, the others were due (hypothesis) *)
    unfold an_start_prompt in Hpr.
    match goal with H : an_pc s = None |- _ => rewrite H in Hpr end. rewrite forallb_forall in Hpr.
    unfold an_pinv. cbn [an_now an_workers an_tk]. split; [|split; [exact P2|exact P3]].
    intros k a d r p Hin. apply in_map_iff in Hin. destruct Hin as (sl & E & Hin). specialize (Hpr _ Hin).
    destruct sl as [k' a' d' r' p'|k' a' saw' p']; cbn [an_cancel_slot] in E; [|discriminate E].
    destruct (ab_honours (an_beh_of (at_opts (an_tk s k')) a')) eqn:Eh; cbn [andb orb] in E, Hpr.
    + destruct (an_now s <? r') eqn:El; inversion E; subst; an_bools; lia.
    + inversion E; subst. an_bools. lia.
Qed.

Lemma an_all_prompt_inv (P : an_state -> Prop) cfg :
  (forall s e s', an_reach cfg s -> P s -> an_start_prompt s e = true -> an_step cfg s e = Some s' -> P s') ->
  forall evs s s', an_reach cfg s -> P s -> an_run cfg s evs = Some s' -> an_all_prompt cfg s evs = true -> P s'.
Proof.
  intros Hstep evs. induction evs as [|e r IH]; intros s s' Hr HP Hrun Hpr; cbn [an_run an_all_prompt] in *.
  - inversion Hrun; subst; exact HP.
  - destruct (an_step cfg s e) as [s1|] eqn:E; [|discriminate]. apply andb_prop in Hpr. destruct Hpr as [H1 H2].
    apply (IH s1); [eapply an_reach_step; eauto|eapply Hstep; eauto|exact Hrun|exact H2].
Qed.

Lemma an_pinv_reach cfg evs s :
  an_fixed cfg -> an_urg cfg = true -> an_run cfg an_init evs = Some s -> an_all_prompt cfg an_init evs = true ->
  an_pinv s.
Proof.
  intros Hpub Hurg Hrun Hpr.
  apply (an_all_prompt_inv an_pinv cfg) with (evs := evs) (s := an_init); [|exists []; reflexivity| |exact Hrun|exact Hpr].
  - intros s0 e s1 Hr HP He Hs. eapply an_pinv_step; eauto.
  - unfold an_pinv. cbn. repeat split; intros; try contradiction; discriminate.
Qed.

(* ------------------------------------------------------------------ property lemmas *)
Lemma ants_get2_bound_all_prompt_l cfg evs s k :
  an_fixed cfg -> an_urg cfg = true ->
  an_run cfg an_init evs = Some s -> an_all_prompt cfg an_init evs = true ->
  let t := an_tk s k in
  let bound := at_pickup t + Z.of_nat (ao_R (at_opts t)) * ao_T (at_opts t) in
  at_blocked t = 0 /\ at_late t = 0 /\
  (at_phase t = AnDone -> exists f, at_rel t = [f] /\ f <= bound) /\
  (forall a c, at_phase t = AnEnq a c \/ at_phase t = AnWait a c -> an_now s <= bound).
Proof.
  intros Hf Hu Hrun Hpr. assert (Hr : an_reach cfg s) by (exists evs; exact Hrun).
  destruct (an_pinv_reach cfg evs s Hf Hu Hrun Hpr) as (_ & P2 & P3).
  destruct (an_tinv_reach cfg s Hf Hr) as (IT & _). pose proof (an_acc_reach cfg s Hf Hu Hr k) as Hk.
  cbn zeta. specialize (IT k). specialize (P3 k). specialize (P2 k).
  unfold an_tinv, an_acc_task in *. destruct Hk as [HL Hk].
  assert (HL0 : at_late (an_tk s k) = 0) by lia.
  split; [exact P3|split; [exact HL0|split]].
  - intros Hph. rewrite Hph in *.
    destruct IT as (n & p & f & rest & _ & _ & _ & _ & _ & _ & H7 & _).
    exists f. split; [exact H7|]. rewrite <- (Z.add_0_r (_ + _)), <- HL0. apply Hk. rewrite H7. left. reflexivity.
  - intros a c [Hph|Hph]; rewrite Hph in *.
    + destruct IT as (Ha & HT & _). destruct Hk as (_ & _ & Hc). rewrite (P2 a c eq_refl) in Hc.
      assert (Z.of_nat (a - 1) <= Z.of_nat (ao_R (at_opts (an_tk s k)))) by lia. nia.
    + destruct IT as (Ha & HT & _). destruct Hk as (_ & _ & Hn & _).
      assert (Z.of_nat a <= Z.of_nat (ao_R (at_opts (an_tk s k)))) by lia. nia.
Qed.

(* in the property's words *)
Lemma ants_get2_within_timeout_l cfg evs s k :
  an_fixed cfg -> an_urg cfg = true ->
  an_run cfg an_init evs = Some s -> an_all_prompt cfg an_init evs = true ->
  let t := an_tk s k in
  let bound := at_pickup t + Z.of_nat (ao_R (at_opts t)) * ao_T (at_opts t) in
  (forall a c, at_phase t = AnEnq a c \/ at_phase t = AnWait a c -> an_now s <= bound) /\
  (at_phase t = AnDone ->
     an_step cfg s (AnGet2 k) <> None /\
     exists f, at_rel t = [f] /\ f <= bound /\ forall g, In g (at_get2 t) -> f <= snd g).
Proof.
  intros Hf Hu Hrun Hpr. cbn zeta.
  destruct (ants_get2_bound_all_prompt_l cfg evs s k Hf Hu Hrun Hpr) as (_ & _ & H1 & H2).
  split; [exact H2|]. intros Hph. split; [unfold an_step; rewrite Hph; discriminate|].
  destruct (H1 Hph) as (f & E & Hle). exists f. split; [exact E|split; [exact Hle|]].
  destruct (ants_get2_once_l cfg evs s k Hf Hrun) as (_ & Hd & _).
  destruct (Hd Hph) as (n & p & f' & rest & _ & E' & _ & _ & Hg). rewrite E in E'. inversion E'; subst f'. exact Hg.
Qed.

(* ------------------------------------------------------------------ handlers that honour their context are prompt *)
Lemma an_step_opts cfg s e s' j :
  an_step cfg s e = Some s' ->
  at_opts (an_tk s' j) = at_opts (an_tk s j) \/ exists o, e = AnSend o /\ at_opts (an_tk s' j) = o.
Proof.
  intros Hs.
  destruct e; an_inv_step Hs; try (inversion Hs; subst; clear Hs);
    try (cbn [an_tk an_with_task]; unfold an_upd; destruct (Nat.eqb_spec j k) as [->|]; [|left; reflexivity]).
  - cbn [an_tk]. unfold an_upd. destruct (Nat.eqb_spec j (an_next s)) as [->|]; [right|left; reflexivity].
    exists o. split; [reflexivity|]. destruct (ao_onerr o); reflexivity.
  - cbn [an_tk]. unfold an_upd. destruct (Nat.eqb_spec j (an_next s)) as [->|]; [right|left; reflexivity]. exists o. split; reflexivity.
  - cbn [an_tk]. unfold an_upd. destruct (Nat.eqb_spec j (an_next s)) as [->|]; [right|left; reflexivity]. exists o. split; reflexivity.
  - left. reflexivity.
  - left. reflexivity.
  - left. reflexivity.
  - left. reflexivity.
  - left. destruct (an_pub cfg); [destruct saw|]; reflexivity.
  - left. destruct (an_after_proj s k a (match an_pub cfg with AnSharedFields => at_fields (an_tk s k) | AnAttemptChannel => a0 end))
      as (_ & _ & _ & _ & Hoth & _ & _ & Ho & _).
    destruct (Nat.eq_dec j k) as [->|Hne]; [exact Ho|rewrite Hoth by exact Hne; reflexivity].
  - left. destruct (an_after_proj s k a (None, AnDeadline)) as (_ & _ & _ & _ & Hoth & _ & _ & Ho & _).
    destruct (Nat.eq_dec j k) as [->|Hne]; [exact Ho|rewrite Hoth by exact Hne; reflexivity].
  - left. reflexivity.
  - left. reflexivity.
  - left. reflexivity.
  - left. reflexivity.
  - left. reflexivity.
Qed.

Lemma an_honours_prompt b s d : ab_honours b = true -> an_due b s d <= Z.max s d.
Proof.
  intros Hh. unfold an_due, an_cut. rewrite Hh. cbn [andb].
  destruct (d <? s + ab_dur b) eqn:E; [lia|apply Z.ltb_ge in E; lia].
Qed.

Lemma an_beh_of_honours o a : an_opts_honour o = true -> ab_honours (an_beh_of o a) = true.
Proof.
  unfold an_opts_honour, an_beh_of. intros H. rewrite forallb_forall in H.
  destruct (nth_in_or_default (a - 1) (ao_behs o) an_beh_default) as [Hin|E]; [apply H, Hin|rewrite E; reflexivity].
Qed.

Lemma an_sends_honour_prompt cfg evs s :
  (forall j, an_opts_honour (at_opts (an_tk s j)) = true) -> an_sends_honour evs = true ->
  an_all_prompt cfg s evs = true.
Proof.
  revert s. induction evs as [|e r IH]; intros s Hs Hh; cbn [an_all_prompt]; [reflexivity|].
  cbn [an_sends_honour forallb] in Hh. apply andb_prop in Hh. destruct Hh as [He Hr].
  apply andb_true_intro. split.
  - destruct e; try reflexivity.
    + cbn [an_start_prompt]. destruct (an_ichan s) as [|[[k' a'] d] l]; [reflexivity|].
      apply Z.leb_le, an_honours_prompt, an_beh_of_honours, Hs.
    + cbn [an_start_prompt]. destruct (an_pc s); [reflexivity|]. apply forallb_forall.
      intros [k' a' d0 r0 p0|k' a' saw0 p0] _; [|reflexivity]. rewrite (an_beh_of_honours _ _ (Hs k')). reflexivity.
  - destruct (an_step cfg s e) as [s1|] eqn:E; [|reflexivity]. apply IH; [|exact Hr].
    intros j. destruct (an_step_opts cfg s e s1 j E) as [Eo|(o & Ee & Eo)]; rewrite Eo; [apply Hs|subst e; exact He].
Qed.

Lemma ants_honouring_handlers_are_prompt_l cfg evs :
  an_sends_honour evs = true -> an_all_prompt cfg an_init evs = true.
Proof. apply an_sends_honour_prompt. intros j. reflexivity. Qed.

Lemma ants_get2_bound_honouring_l cfg evs s k :
  an_fixed cfg -> an_urg cfg = true ->
  an_run cfg an_init evs = Some s -> an_sends_honour evs = true ->
  let t := an_tk s k in
  let bound := at_pickup t + Z.of_nat (ao_R (at_opts t)) * ao_T (at_opts t) in
  at_blocked t = 0 /\
  (forall a c, at_phase t = AnEnq a c \/ at_phase t = AnWait a c -> an_now s <= bound) /\
  (at_phase t = AnDone -> exists f, at_rel t = [f] /\ f <= bound).
Proof.
  intros Hf Hu Hrun Hh.
  pose proof (ants_honouring_handlers_are_prompt_l cfg evs Hh) as Hpr.
  destruct (ants_get2_bound_all_prompt_l cfg evs s k Hf Hu Hrun Hpr) as (H1 & _ & H3 & H4). cbn zeta. auto.
Qed.

(* non-vacuity: N = 2; task 0 (T=1000, R=2) times out cooperatively twice and is released exactly at
   pickup + R*T = 2000; task 1 succeeds at 100; task 2 (picked at 100) fails once, retries, succeeds at 200.
   At 1000 the dispatcher of task 0 decides on the deadline and enqueues attempt 2 BEFORE the handler of
   attempt 1 has returned (same instant). *)
Definition an_ap_cfg : an_cfg := {| an_N := 2; an_pub := AnAttemptChannel; an_urg := true |}.
Definition an_ap_beh (dur : Z) (v : option Z) (e : an_err) : an_beh :=
  {| ab_dur := dur; ab_honours := true; ab_val := v; ab_err := e |}.
Definition an_ap_o0 : an_opts :=
  {| ao_T := 1000; ao_R := 2; ao_discard := false; ao_onerr := true;
     ao_behs := [an_ap_beh 5000 (Some 1) AnNil; an_ap_beh 5000 (Some 1) AnNil] |}.
Definition an_ap_o1 : an_opts :=
  {| ao_T := 500; ao_R := 1; ao_discard := false; ao_onerr := false; ao_behs := [an_ap_beh 100 (Some 7) AnNil] |}.
Definition an_ap_o2 : an_opts :=
  {| ao_T := 300; ao_R := 2; ao_discard := false; ao_onerr := true;
     ao_behs := [an_ap_beh 50 None (AnE 3); an_ap_beh 50 (Some 9) AnNil] |}.
Definition an_ap_history : list an_event :=
  [AnSend an_ap_o0; AnSend an_ap_o1; AnPick 0; AnPick 1; AnEnqueue 0; AnEnqueue 1; AnStart 0 1; AnStart 1 1; AnAdvance 100;
   AnReturn 1 1 false; AnPublish 1 1; AnDecide 1 true; AnGet2 1; AnSend an_ap_o2; AnPick 2; AnEnqueue 2; AnStart 2 1; AnAdvance 50;
   AnReturn 2 1 false; AnPublish 2 1; AnDecide 2 true; AnEnqueue 2; AnStart 2 2; AnAdvance 50; AnReturn 2 2 false; AnPublish 2 2;
   AnDecide 2 true; AnGet2 2; AnAdvance 800; AnDecide 0 false; AnEnqueue 0; AnReturn 0 1 true; AnPublish 0 1; AnStart 0 2;
   AnAdvance 1000; AnReturn 0 2 true; AnPublish 0 2; AnDecide 0 true; AnGet2 0]%nat.

Lemma ants_all_prompt_witness_l :
  exists s, an_run an_ap_cfg an_init an_ap_history = Some s /\
    an_all_prompt an_ap_cfg an_init an_ap_history = true /\ an_sends_honour an_ap_history = true /\
    an_maxrun s = 2%nat /\
    (let t := an_tk s 0%nat in
     at_phase t = AnDone /\ at_pickup t = 0 /\ at_rel t = [2000] /\ at_blocked t = 0 /\
     at_dec t = [(2%nat, (None, AnDeadline), 2000); (1%nat, (None, AnDeadline), 1000)] /\
     at_pickup t + Z.of_nat (ao_R (at_opts t)) * ao_T (at_opts t) = 2000) /\
    (let t := an_tk s 1%nat in at_phase t = AnDone /\ at_pickup t = 0 /\ at_rel t = [100] /\ at_blocked t = 0) /\
    (let t := an_tk s 2%nat in
     at_phase t = AnDone /\ at_pickup t = 100 /\ at_rel t = [200] /\ at_blocked t = 0 /\
     at_dec t = [(2%nat, (Some 9, AnNil), 200); (1%nat, (None, AnE 3), 150)]).
Proof.
  destruct (an_run an_ap_cfg an_init an_ap_history) as [s|] eqn:E; [|vm_compute in E; discriminate].
  exists s. split; [reflexivity|].
  assert (E' := E). vm_compute in E'. inversion E'; subst s. clear E E'.
  cbn zeta. repeat split; vm_compute; reflexivity.
Qed.
