(* BufferProofs.v -- iox.Buffer (model Buffer.v): no op sequence panics, the cursor stays
   inside the data, and every op is the corresponding op of the abstract seekable FIFO
   (Fifo.v), with compaction chosen by the capacity logic of grow. *)
From Got Require Import Base GoSlice Fifo FifoProofs Buffer.
Local Open Scope Z_scope.

Definition buf_inv (s : buf_state) : Prop :=
  0 <= b_off s <= buf_len s /\ (b_nil s = true -> b_buf s = [] /\ b_spare s = []).

Definition buf_unread (s : buf_state) : list Z := skipn (Z.to_nat (b_off s)) (b_buf s).
Definition buf_abs (s : buf_state) : fifo := mk_fifo (b_buf s) (Z.to_nat (b_off s)).

Lemma buf_inv_init : buf_inv buf_init.
Proof. unfold buf_inv, buf_len; cbn. split; [lia|]. intros _; split; reflexivity. Qed.

Lemma buf_unread_length s : buf_inv s -> Z.of_nat (length (buf_unread s)) = buf_Len s.
Proof. unfold buf_inv, buf_unread, buf_Len, buf_len. intros [H _]. rewrite skipn_length. lia. Qed.

Lemma buf_bytes_ok s : buf_inv s -> buf_bytes s = Ok (buf_unread s).
Proof.
  unfold buf_inv, buf_len, buf_bytes, gs_slice_from, buf_unread. intros [H _].
  replace ((0 <=? b_off s) && (b_off s <=? Z.of_nat (length (b_buf s)))) with true by lia. reflexivity.
Qed.

(* ---- reslicing ---- *)

Lemma buf_reslice_ok s k :
  0 <= k <= buf_cap s ->
  buf_reslice s k = Ok (mk_buf (firstn (Z.to_nat k) (b_buf s ++ b_spare s))
                               (skipn (Z.to_nat k) (b_buf s ++ b_spare s)) (b_off s) (b_nil s)).
Proof.
  intros H. unfold buf_reslice. replace ((0 <=? k) && (k <=? buf_cap s)) with true by lia. reflexivity.
Qed.

Lemma buf_reslice_shrink s k :
  0 <= k <= buf_len s ->
  buf_reslice s k = Ok (mk_buf (firstn (Z.to_nat k) (b_buf s))
                               (skipn (Z.to_nat k) (b_buf s) ++ b_spare s) (b_off s) (b_nil s)).
Proof.
  intros H. unfold buf_len in H. rewrite buf_reslice_ok by (unfold buf_cap; lia).
  rewrite firstn_app, skipn_app.
  replace (Z.to_nat k - length (b_buf s))%nat with 0%nat by lia.
  rewrite firstn_O, app_nil_r, skipn_O. reflexivity.
Qed.

Lemma buf_reslice_extend s j :
  0 <= j <= Z.of_nat (length (b_spare s)) ->
  buf_reslice s (buf_len s + j) =
    Ok (mk_buf (b_buf s ++ firstn (Z.to_nat j) (b_spare s)) (skipn (Z.to_nat j) (b_spare s))
               (b_off s) (b_nil s)).
Proof.
  intros H. unfold buf_len. rewrite buf_reslice_ok by (unfold buf_cap; lia).
  replace (Z.to_nat (Z.of_nat (length (b_buf s)) + j)) with (length (b_buf s) + Z.to_nat j)%nat by lia.
  rewrite firstn_app_2, skipn_app.
  rewrite skipn_all2 by lia.
  replace (length (b_buf s) + Z.to_nat j - length (b_buf s))%nat with (Z.to_nat j) by lia.
  reflexivity.
Qed.

Lemma buf_reset_spec s :
  buf_reset s = Ok (mk_buf [] (b_buf s ++ b_spare s) 0 (b_nil s)).
Proof.
  unfold buf_reset. rewrite buf_reslice_shrink by (unfold buf_len; lia). reflexivity.
Qed.

(* ---- tryGrowByReslice ---- *)

Lemma buf_try_grow_fits s n :
  0 <= n <= Z.of_nat (length (b_spare s)) ->
  buf_try_grow s n =
    Ok (mk_buf (b_buf s ++ firstn (Z.to_nat n) (b_spare s)) (skipn (Z.to_nat n) (b_spare s))
               (b_off s) (b_nil s), Some (buf_len s)).
Proof.
  intros H. unfold buf_try_grow.
  replace (n <=? buf_cap s - buf_len s) with true by (unfold buf_cap, buf_len; lia).
  rewrite buf_reslice_extend by lia. reflexivity.
Qed.

Lemma buf_try_grow_full s n :
  n > Z.of_nat (length (b_spare s)) -> buf_try_grow s n = Ok (s, None).
Proof.
  intros H. unfold buf_try_grow.
  replace (n <=? buf_cap s - buf_len s) with false by (unfold buf_cap, buf_len; lia). reflexivity.
Qed.

(* ---- grow ---- *)

(* what grow(n) guarantees: it returns the write index m; the buffer is the old retained
   data (c = false) or only its unread part (c = true: compaction), followed by n cells of
   unspecified content g; the capacity is unchanged, 64, or 2c+n (and then n > c/2 - Len) *)
Definition buf_grown (s : buf_state) (n : Z) (s' : buf_state) (m : Z) : Prop :=
  exists (c : bool) (g : list Z),
    Z.of_nat (length g) = n /\
    b_buf s' = (if c then buf_unread s else b_buf s) ++ g /\
    b_off s' = (if c then 0 else b_off s) /\
    m = (if c then buf_Len s else buf_len s) /\
    buf_inv s' /\
    (buf_cap s' = buf_cap s \/ buf_cap s' = 64 \/
     (buf_cap s' = 2 * buf_cap s + n /\ n > buf_cap s / 2 - buf_Len s)).

Lemma buf_grow_slow_spec s n :
  buf_inv s -> 0 <= n -> n > Z.of_nat (length (b_spare s)) -> 2 * buf_cap s + n <= buf_maxint ->
  exists s' g,
    buf_grow_slow s n (buf_Len s) = Ok (s', buf_Len s) /\
    Z.of_nat (length g) = n /\
    b_buf s' = buf_unread s ++ g /\ b_off s' = 0 /\ buf_inv s' /\
    (buf_cap s' = buf_cap s \/ buf_cap s' = 64 \/
     (buf_cap s' = 2 * buf_cap s + n /\ n > buf_cap s / 2 - buf_Len s)).
Proof.
  intros [Hoff Hnil] Hn Hfull Hmax. unfold buf_grow_slow.
  destruct (b_nil s && (n <=? buf_small)) eqn:Enil.
  - (* make([]byte, n, 64) *)
    apply andb_prop in Enil. destruct Enil as [En1 En2]. destruct (Hnil En1) as [Hb Hs].
    unfold buf_small in *.
    assert (Hoff0 : b_off s = 0) by (unfold buf_len in Hoff; rewrite Hb in Hoff; cbn in Hoff; lia).
    assert (HL : buf_Len s = 0) by (unfold buf_Len, buf_len; rewrite Hb, Hoff0; reflexivity).
    exists (mk_buf (repeat 0 (Z.to_nat n)) (repeat 0 (Z.to_nat (64 - n))) (b_off s) false), (repeat 0 (Z.to_nat n)).
    rewrite HL. split; [reflexivity|]. rewrite repeat_length. split; [lia|].
    unfold buf_unread. rewrite Hb, skipn_nil. cbn [b_buf b_off app].
    split; [reflexivity|]. split; [exact Hoff0|].
    split.
    + unfold buf_inv, buf_len; cbn [b_buf b_off b_nil]. rewrite repeat_length. split; [lia|discriminate].
    + right; left. unfold buf_cap; cbn [b_buf b_spare]. rewrite !repeat_length. lia.
  - set (src := skipn (Z.to_nat (b_off s)) (b_buf s)).
    assert (Hsrc : gs_slice_from (b_buf s) (b_off s) = Ok src).
    { unfold gs_slice_from, buf_len in *.
      replace ((0 <=? b_off s) && (b_off s <=? Z.of_nat (length (b_buf s)))) with true by lia. reflexivity. }
    assert (Hm : buf_Len s = Z.of_nat (length src)).
    { unfold buf_Len, buf_len in *. subst src. rewrite skipn_length. lia. }
    assert (Hsl : (length src <= length (b_buf s))%nat).
    { subst src. rewrite skipn_length. lia. }
    destruct (n <=? buf_cap s / 2 - buf_Len s) eqn:Eslide.
    + (* slide down *)
      rewrite Hsrc. cbn [gs_bind]. rewrite gs_copy_short by exact Hsl.
      unfold buf_set_buf, buf_set_off; cbn [b_buf b_spare b_off b_nil].
      assert (Hcap : buf_Len s + n <= buf_cap s) by lia.
      rewrite buf_reslice_ok; cbn [b_buf b_spare b_off b_nil].
      2:{ unfold buf_cap in *; cbn [b_buf b_spare]. rewrite app_length, skipn_length. lia. }
      cbn [gs_bind].
      replace (Z.to_nat (buf_Len s + n)) with (length src + Z.to_nat n)%nat by lia.
      rewrite <- app_assoc, firstn_app_2.
      eexists. exists (firstn (Z.to_nat n) (skipn (length src) (b_buf s) ++ b_spare s)).
      split; [reflexivity|]. cbn [b_buf b_off].
      assert (Hg : Z.of_nat (length (firstn (Z.to_nat n) (skipn (length src) (b_buf s) ++ b_spare s))) = n).
      { rewrite firstn_length, app_length, skipn_length. unfold buf_cap in Hcap. lia. }
      split; [exact Hg|]. split; [reflexivity|]. split; [reflexivity|].
      split.
      * unfold buf_inv, buf_len; cbn [b_buf b_off b_nil b_spare]. split; [lia|].
        intros Hn1. rewrite Hn1 in Enil. cbn in Enil. destruct (Hnil Hn1) as [Hb Hs].
        unfold buf_cap, buf_Len, buf_len, buf_small in *. rewrite Hb, Hs in Eslide. rewrite Hb in Hoff.
        cbn in Eslide, Hoff. lia.
      * left. unfold buf_cap; cbn [b_buf b_spare].
        rewrite app_length, skipn_length, !app_length, skipn_length.
        unfold buf_cap in Hcap. lia.
    + (* reallocate *)
      replace (buf_cap s >? buf_maxint - buf_cap s - n) with false by lia.
      rewrite Hsrc. cbn [gs_bind].
      set (K := Z.to_nat (2 * buf_cap s + n)).
      assert (HK : (length src <= K)%nat) by (unfold buf_cap in *; lia).
      rewrite gs_copy_short by (rewrite repeat_length; exact HK).
      unfold buf_set_off; cbn [b_buf b_spare b_off b_nil].
      rewrite buf_reslice_ok; cbn [b_buf b_spare b_off b_nil].
      2:{ unfold buf_cap in *; cbn [b_buf b_spare]. rewrite !app_length, skipn_length, repeat_length. cbn [length]. lia. }
      cbn [gs_bind]. rewrite app_nil_r.
      replace (Z.to_nat (buf_Len s + n)) with (length src + Z.to_nat n)%nat by lia.
      rewrite firstn_app_2.
      eexists. exists (firstn (Z.to_nat n) (skipn (length src) (repeat 0 K))).
      split; [reflexivity|]. cbn [b_buf b_off].
      split; [rewrite firstn_length, skipn_length, repeat_length; unfold buf_cap in *; lia|].
      split; [reflexivity|]. split; [reflexivity|].
      split.
      * unfold buf_inv, buf_len; cbn [b_buf b_off b_nil]. split; [lia|discriminate].
      * right; right. split; [|lia]. unfold buf_cap at 1; cbn [b_buf b_spare].
        rewrite app_length, skipn_length, !firstn_length, !app_length, !skipn_length, !repeat_length.
        unfold buf_cap in *. lia.
Qed.

Lemma buf_unread_all s : buf_inv s -> buf_Len s = 0 -> buf_unread s = [].
Proof.
  unfold buf_inv, buf_Len, buf_len, buf_unread. intros [H _] HL. apply skipn_all2. lia.
Qed.

Lemma buf_try_fits_grown s n :
  buf_inv s -> 0 <= n <= Z.of_nat (length (b_spare s)) ->
  buf_grown s n (mk_buf (b_buf s ++ firstn (Z.to_nat n) (b_spare s)) (skipn (Z.to_nat n) (b_spare s))
                        (b_off s) (b_nil s)) (buf_len s).
Proof.
  intros [Hoff Hnil] Hn. exists false, (firstn (Z.to_nat n) (b_spare s)). cbn [b_buf b_off].
  split; [rewrite firstn_length; lia|]. split; [reflexivity|]. split; [reflexivity|]. split; [reflexivity|].
  split.
  - unfold buf_inv, buf_len in *; cbn [b_buf b_off b_nil b_spare]. split; [rewrite app_length; lia|].
    intros Hn1. destruct (Hnil Hn1) as [Hb Hs]. rewrite Hb, Hs. rewrite firstn_nil, skipn_nil. split; reflexivity.
  - left. unfold buf_cap; cbn [b_buf b_spare]. rewrite app_length, firstn_length, skipn_length. lia.
Qed.

Lemma buf_grow_tail s n :
  buf_inv s -> 0 <= n -> 2 * buf_cap s + n <= buf_maxint ->
  exists s' m,
    gs_bind (buf_try_grow s n) (fun t =>
      match t with (s2, Some i) => Ok (s2, i) | (_, None) => buf_grow_slow s n (buf_Len s) end) = Ok (s', m) /\
    buf_grown s n s' m.
Proof.
  intros Hi Hn Hmax.
  destruct (Z_le_gt_dec n (Z.of_nat (length (b_spare s)))) as [Hfit|Hfull].
  - rewrite buf_try_grow_fits by lia. cbn [gs_bind]. do 2 eexists. split; [reflexivity|].
    apply buf_try_fits_grown; [exact Hi|lia].
  - rewrite buf_try_grow_full by exact Hfull. cbn [gs_bind].
    destruct (buf_grow_slow_spec s n Hi Hn Hfull Hmax) as (s' & g & E & Hg & Hb & Ho & Hi' & Hc).
    exists s', (buf_Len s). split; [exact E|]. exists true, g.
    split; [exact Hg|]. split; [exact Hb|]. split; [exact Ho|]. split; [reflexivity|]. split; [exact Hi'|exact Hc].
Qed.

Lemma buf_grow_spec s n :
  buf_inv s -> 0 <= n -> 2 * buf_cap s + n <= buf_maxint ->
  exists s' m, buf_grow s n = Ok (s', m) /\ buf_grown s n s' m.
Proof.
  intros Hi Hn Hmax. unfold buf_grow.
  destruct ((buf_Len s =? 0) && negb (b_off s =? 0)) eqn:Er.
  - (* empty with consumed prefix: Reset first *)
    apply andb_prop in Er. destruct Er as [EL _]. assert (HL : buf_Len s = 0) by lia.
    rewrite buf_reset_spec. cbn [gs_bind].
    set (s1 := mk_buf [] (b_buf s ++ b_spare s) 0 (b_nil s)).
    assert (Hi1 : buf_inv s1).
    { destruct Hi as [_ Hnil]. unfold buf_inv, buf_len; cbn. split; [lia|]. intros Hn1.
      destruct (Hnil Hn1) as [Hb Hs]. rewrite Hb, Hs. split; reflexivity. }
    assert (Hcap1 : buf_cap s1 = buf_cap s).
    { unfold buf_cap; cbn. rewrite app_length. reflexivity. }
    assert (HL1 : buf_Len s1 = 0) by reflexivity.
    assert (Hmax1 : 2 * buf_cap s1 + n <= buf_maxint) by lia.
    destruct (buf_grow_tail s1 n Hi1 Hn Hmax1) as (s' & m & E & c1 & g & Hg & Hb & Ho & Hm & Hi' & Hc).
    rewrite HL1 in E. rewrite HL. exists s', m. split; [exact E|].
    exists true, g. split; [exact Hg|].
    rewrite (buf_unread_all s Hi HL).
    split; [rewrite Hb; destruct c1; reflexivity|].
    split; [rewrite Ho; destruct c1; reflexivity|].
    split; [rewrite Hm, HL; destruct c1; reflexivity|].
    split; [exact Hi'|]. rewrite Hcap1, HL1 in Hc. rewrite HL. exact Hc.
  - cbn [gs_bind]. apply buf_grow_tail; assumption.
Qed.

(* ---- Write ---- *)

Lemma buf_write_copy s n s1 m p :
  buf_inv s -> buf_grown s n s1 m -> n = Z.of_nat (length p) ->
  exists c : bool,
    gs_bind (gs_slice_from (b_buf s1) m) (fun dst =>
      Ok (buf_set_buf s1 (firstn (Z.to_nat m) (b_buf s1) ++ gs_copy dst p), Z.of_nat (gs_copy_n dst p)))
    = Ok (mk_buf ((if c then buf_unread s else b_buf s) ++ p) (b_spare s1)
                 (if c then 0 else b_off s) (b_nil s1), Z.of_nat (length p)) /\
    buf_inv (mk_buf ((if c then buf_unread s else b_buf s) ++ p) (b_spare s1)
                    (if c then 0 else b_off s) (b_nil s1)) /\
    buf_cap (mk_buf ((if c then buf_unread s else b_buf s) ++ p) (b_spare s1)
                    (if c then 0 else b_off s) (b_nil s1)) = buf_cap s1.
Proof.
  intros Hi (c & g & Hg & Hb & Ho & Hm & Hi' & _) Hn. exists c.
  set (base := if c then buf_unread s else b_buf s) in *.
  assert (Hmb : m = Z.of_nat (length base)).
  { subst base. destruct c; [|exact Hm]. rewrite Hm. symmetry. apply buf_unread_length. exact Hi. }
  unfold gs_slice_from. rewrite Hb, app_length.
  replace ((0 <=? m) && (m <=? Z.of_nat (length base + length g))) with true by lia.
  cbn [gs_bind]. rewrite Hmb, Nat2Z.id.
  rewrite skipn_app, skipn_all, Nat.sub_diag, skipn_O. cbn [app].
  rewrite firstn_app, firstn_all, Nat.sub_diag, firstn_O, app_nil_r.
  rewrite gs_copy_exact by lia. unfold gs_copy_n. replace (Nat.min (length g) (length p)) with (length p) by lia.
  unfold buf_set_buf; cbn [b_spare b_off b_nil]. rewrite Ho.
  split; [reflexivity|]. split.
  - destruct Hi' as [Hoff' Hnil']. unfold buf_inv, buf_len in *; cbn [b_buf b_off b_nil b_spare].
    rewrite Ho, Hb in Hoff'. rewrite app_length in *. split; [lia|].
    intros Hn1. destruct (Hnil' Hn1) as [Hb1 Hs1]. rewrite Hb in Hb1.
    apply app_eq_nil in Hb1. destruct Hb1 as [Hbase Hg0]. subst g. cbn in Hg.
    destruct p; [|cbn in Hn; lia]. rewrite Hbase. split; [reflexivity|exact Hs1].
  - unfold buf_cap; cbn [b_buf b_spare]. rewrite Hb, !app_length. lia.
Qed.

(* Write(p): returns len(p); afterwards the buffer is the old retained data (or, after a
   compaction, only its unread part) followed by p *)
Definition buf_written_post (s : buf_state) (p : list Z) (s' : buf_state) : Prop :=
  exists c : bool,
    b_buf s' = (if c then buf_unread s else b_buf s) ++ p /\
    b_off s' = (if c then 0 else b_off s) /\
    buf_inv s' /\
    (buf_cap s' = buf_cap s \/ buf_cap s' = 64 \/
     (buf_cap s' = 2 * buf_cap s + Z.of_nat (length p) /\
      Z.of_nat (length p) > buf_cap s / 2 - buf_Len s)).

Lemma buf_write_spec s p :
  buf_inv s -> 2 * buf_cap s + Z.of_nat (length p) <= buf_maxint ->
  exists s', buf_write s p = Ok (s', Z.of_nat (length p)) /\ buf_written_post s p s'.
Proof.
  intros Hi Hmax. unfold buf_write.
  assert (Hfin : forall s1 m, buf_grown s (Z.of_nat (length p)) s1 m ->
     exists s', gs_bind (gs_slice_from (b_buf (fst (s1, m))) (snd (s1, m))) (fun dst =>
        Ok (buf_set_buf (fst (s1, m)) (firstn (Z.to_nat (snd (s1, m))) (b_buf (fst (s1, m))) ++ gs_copy dst p),
            Z.of_nat (gs_copy_n dst p))) = Ok (s', Z.of_nat (length p)) /\ buf_written_post s p s').
  { intros s1 m Hgr. cbn [fst snd].
    destruct (buf_write_copy s _ s1 m p Hi Hgr eq_refl) as (c & E & Hi' & Hc).
    eexists. split; [exact E|]. exists c. cbn [b_buf b_off]. split; [reflexivity|]. split; [reflexivity|].
    split; [exact Hi'|]. rewrite Hc. destruct Hgr as (_ & _ & _ & _ & _ & _ & _ & Hcap). exact Hcap. }
  destruct (Z_le_gt_dec (Z.of_nat (length p)) (Z.of_nat (length (b_spare s)))) as [Hfit|Hfull].
  - rewrite buf_try_grow_fits by lia. cbn [gs_bind].
    apply Hfin. apply buf_try_fits_grown; [exact Hi|lia].
  - rewrite buf_try_grow_full by exact Hfull. cbn [gs_bind].
    destruct (buf_grow_spec s (Z.of_nat (length p)) Hi ltac:(lia) Hmax) as (s1 & m & E & Hgr).
    rewrite E. cbn [gs_bind]. apply Hfin. exact Hgr.
Qed.

(* Grow(n): contents as before or compacted; n more bytes fit without reallocation *)
Lemma buf_Grow_spec s n :
  buf_inv s -> 0 <= n -> 2 * buf_cap s + n <= buf_maxint ->
  exists s' (c : bool),
    buf_Grow s n = Ok s' /\
    b_buf s' = (if c then buf_unread s else b_buf s) /\
    b_off s' = (if c then 0 else b_off s) /\
    buf_inv s' /\ buf_cap s' - buf_len s' >= n /\
    (buf_cap s' = buf_cap s \/ buf_cap s' = 64 \/
     (buf_cap s' = 2 * buf_cap s + n /\ n > buf_cap s / 2 - buf_Len s)).
Proof.
  intros Hi Hn Hmax. unfold buf_Grow. replace (n <? 0) with false by lia.
  destruct (buf_grow_spec s n Hi Hn Hmax) as (s1 & m & E & c & g & Hg & Hb & Ho & Hm & Hi1 & Hc).
  rewrite E. cbn [gs_bind fst snd].
  set (base := if c then buf_unread s else b_buf s) in *.
  assert (Hmb : m = Z.of_nat (length base)).
  { subst base. destruct c; [|exact Hm]. rewrite Hm. symmetry. apply buf_unread_length. exact Hi. }
  rewrite buf_reslice_shrink by (unfold buf_len; rewrite Hb, app_length; lia).
  rewrite Hb, Hmb, Nat2Z.id, firstn_app, firstn_all, Nat.sub_diag, firstn_O, app_nil_r.
  rewrite skipn_app, skipn_all, Nat.sub_diag, skipn_O. cbn [app].
  eexists. exists c. split; [reflexivity|]. cbn [b_buf b_off].
  split; [reflexivity|]. split; [exact Ho|].
  assert (Hcap' : buf_cap (mk_buf base (g ++ b_spare s1) (b_off s1) (b_nil s1)) = buf_cap s1).
  { unfold buf_cap; cbn [b_buf b_spare]. rewrite Hb, !app_length. lia. }
  split.
  - destruct Hi1 as [Hoff1 Hnil1]. unfold buf_inv, buf_len in *; cbn [b_buf b_off b_nil b_spare].
    rewrite Hb, app_length in Hoff1. rewrite Ho in *.
    split.
    + subst base. destruct c; [lia|]. destruct Hi as [Hoff _]. unfold buf_len in Hoff. lia.
    + intros Hn1. destruct (Hnil1 Hn1) as [Hb1 Hs1]. rewrite Hb in Hb1. apply app_eq_nil in Hb1.
      destruct Hb1 as [H1 H2]. rewrite H1, H2, Hs1. split; reflexivity.
  - rewrite Hcap'. split; [|exact Hc].
    unfold buf_cap, buf_len; cbn [b_buf b_spare]. rewrite Hb, !app_length. lia.
Qed.

(* ---- Read / Next ---- *)

Lemma buf_read_spec s n :
  buf_inv s ->
  let d := firstn n (buf_unread s) in
  buf_read s n = Ok (buf_set_off s (b_off s + Z.of_nat (length d)),
                     (d, (buf_Len s =? 0) && negb (Nat.eqb n 0))).
Proof.
  intros Hi. pose proof Hi as [Hoff _]. cbn zeta. unfold buf_read, buf_empty.
  destruct (buf_len s <=? b_off s) eqn:E.
  - assert (HL : buf_Len s = 0) by (unfold buf_Len; lia).
    rewrite (buf_unread_all s Hi HL), firstn_nil. cbn [length]. rewrite Z.add_0_r, HL. cbn.
    destruct s; reflexivity.
  - fold (buf_bytes s). rewrite (buf_bytes_ok s Hi). cbn [gs_bind].
    replace (buf_Len s =? 0) with false by (unfold buf_Len; lia). reflexivity.
Qed.

Lemma buf_next_spec s n :
  buf_inv s -> 0 <= n ->
  let d := firstn (Z.to_nat n) (buf_unread s) in
  buf_next s n = Ok (buf_set_off s (b_off s + Z.of_nat (length d)), d).
Proof.
  intros [Hoff _] Hn. cbn zeta. unfold buf_next, buf_Len, buf_unread, buf_len in *.
  set (k := if n >? Z.of_nat (length (b_buf s)) - b_off s then Z.of_nat (length (b_buf s)) - b_off s else n).
  assert (Hk : 0 <= k <= Z.of_nat (length (b_buf s)) - b_off s /\
               Z.to_nat k = Nat.min (Z.to_nat n) (length (b_buf s) - Z.to_nat (b_off s))).
  { subst k. destruct (n >? Z.of_nat (length (b_buf s)) - b_off s) eqn:E; lia. }
  unfold gs_slice. rewrite app_length.
  replace ((0 <=? b_off s) && (b_off s <=? b_off s + k) &&
           (b_off s + k <=? Z.of_nat (length (b_buf s) + length (b_spare s)))) with true by lia.
  cbn [gs_bind]. replace (b_off s + k - b_off s) with k by lia.
  rewrite skipn_app. replace (Z.to_nat (b_off s) - length (b_buf s))%nat with 0%nat by lia. rewrite skipn_O.
  rewrite firstn_app, skipn_length.
  replace (Z.to_nat k - (length (b_buf s) - Z.to_nat (b_off s)))%nat with 0%nat by lia.
  rewrite firstn_O, app_nil_r.
  assert (Hd : firstn (Z.to_nat k) (skipn (Z.to_nat (b_off s)) (b_buf s)) =
               firstn (Z.to_nat n) (skipn (Z.to_nat (b_off s)) (b_buf s))).
  { destruct Hk as [_ Hk]. rewrite Hk.
    destruct (Nat.le_ge_cases (Z.to_nat n) (length (b_buf s) - Z.to_nat (b_off s))).
    - rewrite Nat.min_l by lia. reflexivity.
    - rewrite Nat.min_r by lia. rewrite !firstn_all2; [reflexivity| |]; rewrite skipn_length; lia. }
  rewrite Hd. do 3 f_equal. rewrite <- Hd, firstn_length, skipn_length. lia.
Qed.

(* ---- Tidy ---- *)

Lemma buf_tidy_spec s :
  buf_inv s ->
  exists s', buf_tidy s = Ok s' /\ b_buf s' = buf_unread s /\ b_off s' = 0 /\
             buf_cap s' = buf_cap s /\ buf_inv s'.
Proof.
  intros Hi. pose proof Hi as [Hoff Hnil]. unfold buf_tidy.
  destruct (b_off s >? 0) eqn:E.
  - set (src := buf_unread s).
    assert (Hsl : Z.of_nat (length src) = buf_len s - b_off s) by (apply buf_unread_length; exact Hi).
    assert (Hstep1 : exists b1,
      (if buf_len s - b_off s >? 0
       then gs_bind (gs_slice_from (b_buf s) (b_off s)) (fun src0 => Ok (buf_set_buf s (gs_copy (b_buf s) src0)))
       else Ok s) = Ok (buf_set_buf s b1) /\ length b1 = length (b_buf s) /\
       firstn (length src) b1 = src).
    { destruct (buf_len s - b_off s >? 0) eqn:E2.
      - fold (buf_bytes s). rewrite (buf_bytes_ok s Hi). cbn [gs_bind]. fold src.
        exists (gs_copy (b_buf s) src). split; [reflexivity|]. split; [apply gs_copy_length|].
        unfold buf_len in *. rewrite gs_copy_short by lia.
        rewrite firstn_app, firstn_all, Nat.sub_diag, firstn_O, app_nil_r. reflexivity.
      - exists (b_buf s). split; [destruct s; reflexivity|]. split; [reflexivity|].
        assert (length src = 0%nat) by lia. destruct src; [reflexivity|discriminate]. }
    destruct Hstep1 as (b1 & E1 & Hl1 & Hf1). rewrite E1. cbn [gs_bind].
    rewrite buf_reslice_shrink by (unfold buf_len, buf_set_buf in *; cbn [b_buf]; lia).
    unfold buf_set_buf, buf_set_off; cbn [b_buf b_spare b_off b_nil gs_bind].
    rewrite <- Hsl, Nat2Z.id, Hf1.
    eexists. split; [reflexivity|]. cbn [b_buf b_off]. split; [reflexivity|]. split; [reflexivity|].
    split.
    + unfold buf_cap; cbn [b_buf b_spare]. rewrite app_length, skipn_length. unfold buf_len in *. lia.
    + unfold buf_inv, buf_len; cbn [b_buf b_off b_nil b_spare]. split; [lia|].
      intros Hn1. destruct (Hnil Hn1) as [Hb Hs]. unfold buf_len in Hoff. rewrite Hb in Hoff. cbn in Hoff. lia.
  - exists s. assert (b_off s = 0) by lia. split; [reflexivity|].
    unfold buf_unread. rewrite H. cbn [Z.to_nat skipn].
    split; [reflexivity|]. split; [reflexivity|]. split; [reflexivity|exact Hi].
Qed.

(* ---- Seek ---- *)

Lemma buf_seek_spec s o w :
  buf_inv s -> buf_len s < 2 ^ 63 -> - 2 ^ 63 <= o < 2 ^ 63 ->
  buf_seek s o w =
    match fifo_seek_target (buf_abs s) o w with
    | Some t => (buf_set_off s t, Some t)
    | None => (s, None)
    end.
Proof.
  intros [Hoff _] Hl Ho. unfold buf_len in *. unfold buf_seek, fifo_seek_target, buf_abs, buf_len.
  cbn [f_ret f_cur]. rewrite Z2Nat.id by lia.
  assert (Hwrap : forall b, 0 <= b <= Z.of_nat (length (b_buf s)) ->
     (0 <=? sext 64 (o + b)) && (sext 64 (o + b) <=? Z.of_nat (length (b_buf s))) =
     (0 <=? b + o) && (b + o <=? Z.of_nat (length (b_buf s))) /\
     ((0 <=? b + o) && (b + o <=? Z.of_nat (length (b_buf s))) = true -> sext 64 (o + b) = b + o)).
  { intros b Hb. destruct (Z_lt_ge_dec (o + b) (2 ^ 63)) as [Hlt|Hge].
    - rewrite sext_id by lia. split; [f_equal; f_equal; lia|lia].
    - assert (Hs : sext 64 (o + b) = o + b - 2 ^ 64).
      { unfold sext. replace ((o + b) mod 2 ^ 64) with (o + b) by (symmetry; apply Z.mod_small; lia).
        replace (o + b <? 2 ^ (64 - 1)) with false by lia. reflexivity. }
      rewrite Hs. split; lia. }
  destruct (w =? 0) eqn:E0.
  - replace ((0 <=? w) && (w <=? 2)) with true by lia.
    replace (w =? 1) with false by lia. replace (w =? 2) with false by lia. cbn [Z.add].
    destruct ((0 <=? o) && (o <=? Z.of_nat (length (b_buf s)))); reflexivity.
  - destruct (w =? 1) eqn:E1.
    + replace ((0 <=? w) && (w <=? 2)) with true by lia.
      destruct (Hwrap (b_off s) Hoff) as [H1 H2]. rewrite H1.
      destruct ((0 <=? b_off s + o) && (b_off s + o <=? Z.of_nat (length (b_buf s)))) eqn:E; [|reflexivity].
      rewrite (H2 eq_refl). reflexivity.
    + destruct (w =? 2) eqn:E2.
      * replace ((0 <=? w) && (w <=? 2)) with true by lia.
        destruct (Hwrap (Z.of_nat (length (b_buf s))) ltac:(lia)) as [H1 H2]. rewrite H1.
        destruct ((0 <=? Z.of_nat (length (b_buf s)) + o) &&
                  (Z.of_nat (length (b_buf s)) + o <=? Z.of_nat (length (b_buf s)))) eqn:E; [|reflexivity].
        rewrite (H2 eq_refl). reflexivity.
      * replace ((0 <=? w) && (w <=? 2)) with false by lia. reflexivity.
Qed.

Lemma buf_seek_inv s o w s' r :
  buf_inv s -> buf_seek s o w = (s', r) ->
  buf_inv s' /\ b_buf s' = b_buf s /\ b_spare s' = b_spare s /\ b_nil s' = b_nil s /\
  match r with Some t => b_off s' = t | None => s' = s end.
Proof.
  intros [Hoff Hnil]. unfold buf_seek.
  destruct ((0 <=? w) && (w <=? 2)); [|intros H; inversion H; subst; repeat split; tauto].
  set (next := if w =? 1 then sext 64 (o + b_off s) else if w =? 2 then sext 64 (o + buf_len s) else o).
  destruct ((0 <=? next) && (next <=? buf_len s)) eqn:E; intros H; inversion H; subst; clear H.
  - unfold buf_inv, buf_set_off, buf_len in *; cbn [b_buf b_off b_nil b_spare]. repeat split; try tauto; lia.
  - repeat split; tauto.
Qed.

(* ================= one step: total, invariant, budget, refinement ================= *)

Definition buf_op_abs (op : buf_op) : fifo_op :=
  match op with
  | BWrite p => FWrite p
  | BRead n => FRead n
  | BNext n => FRead (Z.to_nat n)
  | BSeek o w => FSeek o w
  | BTidy => FTidy
  | BReset => FReset
  | BGrow _ => FGrow
  end.

Definition buf_ret_abs (r : buf_ret) : fifo_ret :=
  match r with
  | BRWrote _ => FRUnit
  | BRRead d _ => FRData d
  | BRNext d => FRData d
  | BRSeek x => FRSeek x
  | BRUnit => FRUnit
  end.

(* the property's quantifier: non-negative sizes for Next/Grow; offsets are int64 *)
Definition buf_op_ok (op : buf_op) : Prop :=
  match op with
  | BNext n => 0 <= n
  | BGrow n => 0 <= n
  | BSeek o _ => - 2 ^ 63 <= o < 2 ^ 63
  | _ => True
  end.

Definition buf_op_size (op : buf_op) : Z :=
  match op with BWrite p => Z.of_nat (length p) | BGrow n => n | _ => 0 end.
Definition buf_ops_size (ops : list buf_op) : Z := fold_right (fun op a => buf_op_size op + a) 0 ops.

(* ghost budget S = total size of the Write/Grow requests so far: bounds len and cap, which
   is what keeps grow away from panic(ErrTooLarge) *)
Definition buf_bud (S : Z) (s : buf_state) : Prop :=
  0 <= S /\ buf_cap s <= Z.max 64 (5 * S) /\ buf_len s <= S.

Definition buf_size_limit : Z := 2 ^ 59.

Lemma buf_bud_init : buf_bud 0 buf_init.
Proof. unfold buf_bud, buf_cap, buf_len; cbn. lia. Qed.

Lemma buf_cap_ge_len s : buf_len s <= buf_cap s.
Proof. unfold buf_len, buf_cap. lia. Qed.

Lemma buf_bud_grow S s n c' :
  buf_inv s -> buf_bud S s -> 0 <= n ->
  (c' = buf_cap s \/ c' = 64 \/ (c' = 2 * buf_cap s + n /\ n > buf_cap s / 2 - buf_Len s)) ->
  c' <= Z.max 64 (5 * (S + n)).
Proof.
  intros [Hoff _] (HS & Hc & Hl) Hn Hcase. unfold buf_Len in *.
  destruct Hcase as [->| [->| [-> Hgt]]]; lia.
Qed.

Lemma buf_step_spec S s op :
  buf_inv s -> buf_bud S s -> buf_op_ok op -> S + buf_op_size op <= buf_size_limit ->
  exists s' r (c : bool),
    buf_step s op = Ok (s', r) /\ buf_inv s' /\ buf_bud (S + buf_op_size op) s' /\
    fifo_step c (buf_abs s) (buf_op_abs op) = (buf_abs s', buf_ret_abs r).
Proof.
  intros Hi Hbud Hok Hlim. pose proof Hi as [Hoff Hnil]. pose proof Hbud as (HS & Hcap & Hlen).
  unfold buf_size_limit in Hlim.
  assert (Hmaxint : forall n, 0 <= n -> S + n <= 2 ^ 59 -> 2 * buf_cap s + n <= buf_maxint).
  { intros n Hn Hl. unfold buf_maxint. lia. }
  destruct op; cbn [buf_step buf_op_abs buf_op_ok buf_op_size] in *.
  - (* Write *)
    destruct (buf_write_spec s p Hi (Hmaxint _ (Zle_0_nat _) Hlim)) as (s' & E & c & Hb & Ho & Hi' & Hc).
    rewrite E. cbn [gs_bind fst snd]. exists s', (BRWrote (Z.of_nat (length p))), c.
    split; [reflexivity|]. split; [exact Hi'|]. split.
    + split; [lia|]. split; [exact (buf_bud_grow S s _ _ Hi Hbud (Zle_0_nat _) Hc)|].
      unfold buf_len in *. rewrite Hb, app_length. unfold buf_unread. destruct c; [rewrite skipn_length|]; lia.
    + cbn [fifo_step buf_ret_abs]. unfold buf_abs. rewrite Hb, Ho.
      destruct c; cbn [fifo_compact f_ret f_cur buf_abs]; reflexivity.
  - (* Read *)
    rewrite (buf_read_spec s n Hi). cbn [gs_bind fst snd].
    set (d := firstn n (buf_unread s)).
    assert (Hd : Z.of_nat (length d) <= buf_len s - b_off s).
    { subst d. rewrite firstn_length. pose proof (buf_unread_length s Hi) as HU. unfold buf_Len in HU. lia. }
    do 2 eexists. exists false. split; [reflexivity|].
    unfold buf_set_off. split; [|split].
    + unfold buf_inv, buf_len in *; cbn [b_buf b_off b_nil b_spare]. split; [lia|exact Hnil].
    + unfold buf_bud, buf_cap, buf_len in *; cbn [b_buf b_spare]. lia.
    + cbn [fifo_step buf_ret_abs]. unfold buf_abs, fifo_unread; cbn [f_ret f_cur b_buf b_off].
      fold (buf_unread s). fold d. do 2 f_equal. lia.
  - (* Next *)
    rewrite (buf_next_spec s n Hi Hok). cbn [gs_bind fst snd].
    set (d := firstn (Z.to_nat n) (buf_unread s)).
    assert (Hd : Z.of_nat (length d) <= buf_len s - b_off s).
    { subst d. rewrite firstn_length. pose proof (buf_unread_length s Hi) as HU. unfold buf_Len in HU. lia. }
    do 2 eexists. exists false. split; [reflexivity|].
    unfold buf_set_off. split; [|split].
    + unfold buf_inv, buf_len in *; cbn [b_buf b_off b_nil b_spare]. split; [lia|exact Hnil].
    + unfold buf_bud, buf_cap, buf_len in *; cbn [b_buf b_spare]. lia.
    + cbn [fifo_step buf_ret_abs]. unfold buf_abs, fifo_unread; cbn [f_ret f_cur b_buf b_off].
      fold (buf_unread s). fold d. do 2 f_equal. lia.
  - (* Seek *)
    rewrite (buf_seek_spec s offset whence Hi ltac:(lia) Hok). cbn [fifo_step].
    destruct (fifo_seek_target (buf_abs s) offset whence) as [t|] eqn:E.
    + pose proof (fifo_seek_target_range _ _ _ _ E) as Ht. cbn [buf_abs f_ret] in Ht.
      do 2 eexists. exists false. split; [reflexivity|]. unfold buf_set_off. split; [|split].
      * unfold buf_inv, buf_len in *; cbn [b_buf b_off b_nil b_spare]. split; [lia|exact Hnil].
      * unfold buf_bud, buf_cap, buf_len in *; cbn [b_buf b_spare]. lia.
      * reflexivity.
    + do 2 eexists. exists false. split; [reflexivity|]. split; [exact Hi|]. split; [|reflexivity].
      unfold buf_bud in *. lia.
  - (* Tidy *)
    destruct (buf_tidy_spec s Hi) as (s' & E & Hb & Ho & Hc & Hi'). rewrite E. cbn [gs_bind].
    exists s', BRUnit, false. split; [reflexivity|]. split; [exact Hi'|]. split.
    + unfold buf_bud. rewrite Hc. unfold buf_len in *. rewrite Hb. unfold buf_unread. rewrite skipn_length. lia.
    + cbn [fifo_step buf_ret_abs]. unfold buf_abs, fifo_compact; cbn [f_ret f_cur]. rewrite Hb, Ho. reflexivity.
  - (* Reset *)
    rewrite buf_reset_spec. cbn [gs_bind]. do 2 eexists. exists false. split; [reflexivity|]. split; [|split].
    + unfold buf_inv, buf_len; cbn [b_buf b_off b_nil b_spare]. split; [cbn; lia|].
      intros Hn1. destruct (Hnil Hn1) as [Hb Hs]. rewrite Hb, Hs. split; reflexivity.
    + unfold buf_bud, buf_cap, buf_len in *; cbn [b_buf b_spare]. rewrite app_length. cbn [length]. lia.
    + reflexivity.
  - (* Grow *)
    destruct (buf_Grow_spec s n Hi Hok (Hmaxint _ Hok Hlim)) as (s' & c & E & Hb & Ho & Hi' & _ & Hc).
    rewrite E. cbn [gs_bind]. exists s', BRUnit, c. split; [reflexivity|]. split; [exact Hi'|]. split.
    + split; [lia|]. split; [exact (buf_bud_grow S s _ _ Hi Hbud Hok Hc)|].
      unfold buf_len in *. rewrite Hb. unfold buf_unread. destruct c; [rewrite skipn_length|]; lia.
    + cbn [fifo_step buf_ret_abs]. unfold buf_abs. rewrite Hb, Ho.
      destruct c; cbn [fifo_compact f_ret f_cur buf_abs]; [reflexivity|]. destruct s; reflexivity.
Qed.

(* ================= whole runs ================= *)

Definition buf_ops_ok (ops : list buf_op) : Prop :=
  Forall buf_op_ok ops /\ buf_ops_size ops <= buf_size_limit.

Lemma buf_op_size_nonneg op : buf_op_ok op -> 0 <= buf_op_size op.
Proof. destruct op; cbn; lia. Qed.

Lemma buf_ops_size_nonneg ops : Forall buf_op_ok ops -> 0 <= buf_ops_size ops.
Proof.
  induction 1 as [|op tl Hop _ IH]; cbn; [lia|]. fold (buf_ops_size tl).
  pose proof (buf_op_size_nonneg op Hop). lia.
Qed.

Lemma buf_run_spec ops : forall S s,
  buf_inv s -> buf_bud S s -> Forall buf_op_ok ops -> S + buf_ops_size ops <= buf_size_limit ->
  exists s' rs cs,
    buf_run s ops = Ok (s', rs) /\ buf_inv s' /\ length rs = length ops /\ length cs = length ops /\
    fifo_run (buf_abs s) (combine cs (map buf_op_abs ops)) = (buf_abs s', map buf_ret_abs rs) /\
    buf_len s' <= buf_size_limit.
Proof.
  induction ops as [|op tl IH]; intros S s Hi Hbud Hok Hlim; cbn [buf_run].
  - exists s, [], []. split; [reflexivity|]. split; [exact Hi|]. repeat split.
    destruct Hbud as (_ & _ & Hl). unfold buf_ops_size in Hlim. cbn [fold_right] in Hlim. lia.
  - inversion Hok as [|? ? Hok1 Hok2]; subst.
    cbn [buf_ops_size fold_right] in Hlim. fold (buf_ops_size tl) in Hlim.
    pose proof (buf_ops_size_nonneg tl Hok2) as Hsz.
    destruct (buf_step_spec S s op Hi Hbud Hok1 ltac:(lia)) as (s1 & r & c & E1 & Hi1 & Hbud1 & Href).
    rewrite E1. cbn [gs_bind fst snd].
    destruct (IH (S + buf_op_size op) s1 Hi1 Hbud1 Hok2 ltac:(lia)) as (s2 & rs & cs & E2 & Hi2 & Hl1 & Hl2 & Hrun & Hlen2).
    rewrite E2. cbn [gs_bind fst snd].
    exists s2, (r :: rs), (c :: cs). split; [reflexivity|]. split; [exact Hi2|].
    split; [cbn; lia|]. split; [cbn; lia|]. split; [|exact Hlen2].
    cbn [map combine fifo_run]. rewrite Href, Hrun. reflexivity.
Qed.

Lemma buf_no_panic ops :
  buf_ops_ok ops ->
  exists s rs, buf_run buf_init ops = Ok (s, rs) /\ length rs = length ops /\
               buf_bytes s = Ok (buf_unread s).
Proof.
  intros [Hok Hsz].
  destruct (buf_run_spec ops 0 buf_init buf_inv_init buf_bud_init Hok ltac:(lia)) as (s & rs & cs & E & Hi & Hl & _).
  exists s, rs. split; [exact E|]. split; [exact Hl|]. apply buf_bytes_ok. exact Hi.
Qed.

Lemma buf_cursor_in_bounds ops s rs :
  buf_ops_ok ops -> buf_run buf_init ops = Ok (s, rs) ->
  0 <= b_off s <= buf_len s /\ buf_Len s = Z.of_nat (length (buf_unread s)) /\
  snd (buf_seek s 0 1) = Some (b_off s).
Proof.
  intros [Hok Hsz] Hr.
  destruct (buf_run_spec ops 0 buf_init buf_inv_init buf_bud_init Hok ltac:(lia)) as (s2 & rs2 & cs & E & Hi & _ & _ & _ & Hlen).
  rewrite E in Hr. inversion Hr; subst. pose proof Hi as [Hoff _].
  split; [exact Hoff|]. split; [symmetry; apply buf_unread_length; exact Hi|].
  unfold buf_seek. cbn. rewrite sext_id by (unfold buf_size_limit in *; lia).
  replace ((0 <=? b_off s) && (b_off s <=? buf_len s)) with true by lia. reflexivity.
Qed.

Lemma buf_refines_fifo ops s rs :
  buf_ops_ok ops -> buf_run buf_init ops = Ok (s, rs) ->
  exists cs, length cs = length ops /\
    fifo_run fifo_init (combine cs (map buf_op_abs ops)) = (buf_abs s, map buf_ret_abs rs).
Proof.
  intros [Hok Hsz] Hr.
  destruct (buf_run_spec ops 0 buf_init buf_inv_init buf_bud_init Hok ltac:(lia)) as (s2 & rs2 & cs & E & Hi & _ & Hl & Hrun & _).
  rewrite E in Hr. inversion Hr; subst. exists cs. split; [exact Hl|exact Hrun].
Qed.

Definition buf_op_linear (op : buf_op) : bool :=
  match op with BSeek _ _ | BReset => false | _ => true end.
Definition buf_all_writes (ops : list buf_op) : list Z :=
  flat_map (fun op => match op with BWrite p => p | _ => [] end) ops.
Definition buf_all_reads (rs : list buf_ret) : list Z :=
  flat_map (fun r => match r with BRRead d _ => d | BRNext d => d | _ => [] end) rs.
(* bytes written since the last Reset *)
Fixpoint buf_written (acc : list Z) (ops : list buf_op) : list Z :=
  match ops with
  | [] => acc
  | BWrite p :: tl => buf_written (acc ++ p) tl
  | BReset :: tl => buf_written [] tl
  | _ :: tl => buf_written acc tl
  end.

Lemma buf_all_writes_abs ops : forall cs, length cs = length ops ->
  fifo_all_writes (combine cs (map buf_op_abs ops)) = buf_all_writes ops.
Proof.
  unfold fifo_all_writes, buf_all_writes. induction ops as [|op tl IH]; intros cs Hl.
  - destruct cs; reflexivity.
  - destruct cs as [|c cs]; [discriminate|]. cbn [map combine flat_map snd].
    rewrite IH by (cbn in Hl; lia). destruct op; reflexivity.
Qed.

Lemma buf_all_reads_abs rs : fifo_all_reads (map buf_ret_abs rs) = buf_all_reads rs.
Proof.
  unfold fifo_all_reads, buf_all_reads. induction rs as [|r tl IH]; [reflexivity|].
  cbn [map flat_map]. rewrite IH. destruct r; reflexivity.
Qed.

Lemma buf_written_abs ops : forall cs acc, length cs = length ops ->
  fifo_written acc (combine cs (map buf_op_abs ops)) = buf_written acc ops.
Proof.
  induction ops as [|op tl IH]; intros cs acc Hl.
  - destruct cs; reflexivity.
  - destruct cs as [|c cs]; [discriminate|]. cbn [map combine].
    destruct op; cbn [buf_op_abs fifo_written buf_written]; apply IH; cbn in Hl; lia.
Qed.

Lemma buf_fifo_conservation ops s rs :
  buf_ops_ok ops -> forallb buf_op_linear ops = true ->
  buf_run buf_init ops = Ok (s, rs) ->
  buf_all_reads rs ++ buf_unread s = buf_all_writes ops.
Proof.
  intros Hok Hlin Hr. destruct (buf_refines_fifo ops s rs Hok Hr) as (cs & Hl & Hrun).
  rewrite <- (buf_all_writes_abs ops cs Hl), <- buf_all_reads_abs.
  change (buf_unread s) with (fifo_unread (buf_abs s)).
  apply (fifo_conservation _ _ _); [|exact Hrun].
  clear -Hlin Hl. revert cs Hl. induction ops as [|op tl IH]; intros cs Hl.
  - destruct cs; reflexivity.
  - destruct cs as [|c cs]; [discriminate|]. cbn in Hlin. apply andb_prop in Hlin. destruct Hlin as [H1 H2].
    cbn [map combine forallb snd]. rewrite (IH H2 cs) by (cbn in Hl; lia). rewrite andb_true_r.
    destruct op; cbn in *; congruence.
Qed.

Lemma buf_unread_is_written ops s rs :
  buf_ops_ok ops -> buf_run buf_init ops = Ok (s, rs) ->
  exists d, (d <= length (buf_written [] ops))%nat /\ b_buf s = skipn d (buf_written [] ops) /\
            buf_unread s = skipn (d + Z.to_nat (b_off s)) (buf_written [] ops).
Proof.
  intros Hok Hr. destruct (buf_refines_fifo ops s rs Hok Hr) as (cs & Hl & Hrun).
  destruct (fifo_retained_suffix_of_written _ _ _ Hrun) as (d & Hd & Hret & _).
  rewrite (buf_written_abs ops cs [] Hl) in *. exists d. split; [exact Hd|]. cbn in Hret.
  split; [exact Hret|]. unfold buf_unread. rewrite Hret, gs_skipn_skipn. reflexivity.
Qed.

(* the compared trace has no PANIC entry and the cursor observer never fails *)
Definition buf_line_clean (l : buf_line) : bool :=
  match l with BLObs _ (Ok _) _ _ (Some _) => true | _ => false end.

Lemma buf_trace_clean_gen ops : forall S s,
  buf_inv s -> buf_bud S s -> Forall buf_op_ok ops -> S + buf_ops_size ops <= buf_size_limit ->
  forallb buf_line_clean (buf_trace s ops) = true /\ length (buf_trace s ops) = length ops.
Proof.
  induction ops as [|op tl IH]; intros S s Hi Hbud Hok Hlim; cbn [buf_trace].
  - split; reflexivity.
  - inversion Hok as [|? ? Hok1 Hok2]; subst.
    cbn [buf_ops_size fold_right] in Hlim. fold (buf_ops_size tl) in Hlim.
    pose proof (buf_ops_size_nonneg tl Hok2) as Hsz.
    destruct (buf_step_spec S s op Hi Hbud Hok1 ltac:(lia)) as (s1 & r & c & E1 & Hi1 & Hbud1 & _).
    rewrite E1, (buf_bytes_ok s1 Hi1).
    destruct (IH (S + buf_op_size op) s1 Hi1 Hbud1 Hok2 ltac:(lia)) as [H1 H2].
    assert (Hpos : snd (buf_seek s1 0 1) = Some (b_off s1)).
    { destruct Hi1 as [Hoff1 _]. destruct Hbud1 as (_ & _ & Hl1).
      unfold buf_seek. cbn. rewrite sext_id by (unfold buf_size_limit in *; lia).
      replace ((0 <=? b_off s1) && (b_off s1 <=? buf_len s1)) with true by lia. reflexivity. }
    rewrite Hpos. cbn [forallb buf_line_clean length]. rewrite H1, H2. split; reflexivity.
Qed.

Lemma buf_trace_clean ops :
  buf_ops_ok ops ->
  forallb buf_line_clean (buf_trace buf_init ops) = true /\ length (buf_trace buf_init ops) = length ops.
Proof.
  intros [Hok Hsz]. apply (buf_trace_clean_gen ops 0 buf_init buf_inv_init buf_bud_init Hok). lia.
Qed.

(* ================= statement-level lemmas, any state satisfying the invariant ============ *)

Lemma buf_write_appends_unread s p s' r :
  buf_inv s -> 2 * buf_cap s + Z.of_nat (length p) <= buf_maxint ->
  buf_step s (BWrite p) = Ok (s', r) ->
  r = BRWrote (Z.of_nat (length p)) /\ buf_unread s' = buf_unread s ++ p /\
  (b_buf s' = b_buf s ++ p /\ b_off s' = b_off s \/ b_buf s' = buf_unread s ++ p /\ b_off s' = 0).
Proof.
  intros Hi Hmax Hs. cbn [buf_step] in Hs.
  destruct (buf_write_spec s p Hi Hmax) as (s1 & E & c & Hb & Ho & Hi' & _).
  rewrite E in Hs. cbn [gs_bind fst snd] in Hs. inversion Hs; subst; clear Hs.
  split; [reflexivity|]. unfold buf_unread at 1. rewrite Hb, Ho. destruct c.
  - split; [reflexivity|]. right. split; reflexivity.
  - split; [|left; split; reflexivity]. destruct Hi as [Hoff _]. unfold buf_len in Hoff.
    unfold buf_unread. rewrite skipn_app. replace (Z.to_nat (b_off s) - length (b_buf s))%nat with 0%nat by lia.
    reflexivity.
Qed.

Lemma buf_skipn_unread s n :
  buf_inv s ->
  skipn (Z.to_nat (b_off s + Z.of_nat (length (firstn n (buf_unread s))))) (b_buf s) = skipn n (buf_unread s).
Proof.
  intros [Hoff _]. unfold buf_unread, buf_len in *. rewrite firstn_length, skipn_length, gs_skipn_skipn.
  destruct (Nat.le_ge_cases n (length (b_buf s) - Z.to_nat (b_off s))).
  - f_equal. lia.
  - rewrite !skipn_all2; [reflexivity|lia|lia].
Qed.

Lemma buf_read_takes_prefix_of_unread s n s' r :
  buf_inv s -> buf_step s (BRead n) = Ok (s', r) ->
  r = BRRead (firstn n (buf_unread s)) (match buf_unread s, n with [], S _ => true | _, _ => false end) /\
  buf_unread s' = skipn n (buf_unread s) /\ b_buf s' = b_buf s.
Proof.
  intros Hi Hs. cbn [buf_step] in Hs. rewrite (buf_read_spec s n Hi) in Hs. cbn [gs_bind fst snd] in Hs.
  inversion Hs; subst; clear Hs. split.
  - f_equal. pose proof (buf_unread_length s Hi) as HU.
    destruct (buf_unread s) as [|x l]; cbn [length] in HU.
    + replace (buf_Len s =? 0) with true by lia. destruct n; reflexivity.
    + replace (buf_Len s =? 0) with false by lia. reflexivity.
  - split; [|reflexivity]. unfold buf_unread at 1. cbn [buf_set_off b_buf b_off].
    apply buf_skipn_unread. exact Hi.
Qed.

Lemma buf_next_takes_prefix_of_unread s n s' r :
  buf_inv s -> 0 <= n -> buf_step s (BNext n) = Ok (s', r) ->
  r = BRNext (firstn (Z.to_nat n) (buf_unread s)) /\
  buf_unread s' = skipn (Z.to_nat n) (buf_unread s) /\ b_buf s' = b_buf s.
Proof.
  intros Hi Hn Hs. cbn [buf_step] in Hs. rewrite (buf_next_spec s n Hi Hn) in Hs. cbn [gs_bind fst snd] in Hs.
  inversion Hs; subst; clear Hs. split; [reflexivity|]. split; [|reflexivity].
  unfold buf_unread at 1. cbn [buf_set_off b_buf b_off]. apply buf_skipn_unread. exact Hi.
Qed.

Lemma buf_tidy_preserves_unread s s' r :
  buf_inv s -> buf_step s BTidy = Ok (s', r) ->
  buf_unread s' = buf_unread s /\ b_buf s' = buf_unread s /\ b_off s' = 0 /\ buf_cap s' = buf_cap s.
Proof.
  intros Hi Hs. cbn [buf_step] in Hs. destruct (buf_tidy_spec s Hi) as (s1 & E & Hb & Ho & Hc & _).
  rewrite E in Hs. cbn [gs_bind] in Hs. inversion Hs; subst; clear Hs.
  unfold buf_unread at 1. rewrite Hb, Ho. repeat split; assumption.
Qed.

Lemma buf_Grow_preserves_unread s n s' r :
  buf_inv s -> 0 <= n -> 2 * buf_cap s + n <= buf_maxint ->
  buf_step s (BGrow n) = Ok (s', r) ->
  buf_unread s' = buf_unread s /\ buf_cap s' - buf_len s' >= n /\
  (b_buf s' = b_buf s /\ b_off s' = b_off s \/ b_buf s' = buf_unread s /\ b_off s' = 0).
Proof.
  intros Hi Hn Hmax Hs. cbn [buf_step] in Hs.
  destruct (buf_Grow_spec s n Hi Hn Hmax) as (s1 & c & E & Hb & Ho & _ & Hroom & _).
  rewrite E in Hs. cbn [gs_bind] in Hs. inversion Hs; subst; clear Hs.
  unfold buf_unread at 1. rewrite Hb, Ho. destruct c.
  - split; [reflexivity|]. split; [exact Hroom|]. right; split; reflexivity.
  - split; [reflexivity|]. split; [exact Hroom|]. left; split; reflexivity.
Qed.

(* grow itself, all four branches (reset-if-empty, reslice, make, slide down, reallocate) *)
Lemma buf_grow_preserves_unread s n :
  buf_inv s -> 0 <= n -> 2 * buf_cap s + n <= buf_maxint ->
  exists s' m g,
    buf_grow s n = Ok (s', m) /\ Z.of_nat (length g) = n /\
    skipn (Z.to_nat (b_off s')) (b_buf s') = buf_unread s ++ g /\
    m = Z.of_nat (length (b_buf s')) - n /\ 0 <= b_off s' <= m.
Proof.
  intros Hi Hn Hmax.
  destruct (buf_grow_spec s n Hi Hn Hmax) as (s' & m & E & c & g & Hg & Hb & Ho & Hm & Hi' & _).
  exists s', m, g. split; [exact E|]. split; [exact Hg|]. rewrite Hb, Ho.
  pose proof (buf_unread_length s Hi) as HU. pose proof Hi as [Hoff _]. unfold buf_len in *.
  destruct c.
  - split; [reflexivity|]. rewrite app_length. lia.
  - split.
    + rewrite skipn_app. replace (Z.to_nat (b_off s) - length (b_buf s))%nat with 0%nat by lia. reflexivity.
    + rewrite app_length. lia.
Qed.

Lemma buf_seek_fail_unchanged s o w s' :
  buf_step s (BSeek o w) = Ok (s', BRSeek None) -> s' = s.
Proof.
  cbn [buf_step]. unfold buf_seek.
  destruct ((0 <=? w) && (w <=? 2)); [|intros H; inversion H; reflexivity].
  match goal with |- context [if ?c then (buf_set_off s ?x, Some ?x) else _] => destruct c end;
    intros H; inversion H; reflexivity.
Qed.

Lemma buf_seek_ok_within_retained s o w s' t :
  buf_inv s -> buf_step s (BSeek o w) = Ok (s', BRSeek (Some t)) ->
  0 <= t <= buf_len s /\ b_buf s' = b_buf s /\ b_off s' = t /\
  buf_unread s' = skipn (Z.to_nat t) (b_buf s) /\ buf_cap s' = buf_cap s.
Proof.
  intros Hi Hs. cbn [buf_step] in Hs. destruct (buf_seek s o w) as [s1 r1] eqn:E.
  inversion Hs; subst; clear Hs.
  destruct (buf_seek_inv s o w s' (Some t) Hi E) as (Hi' & Hb & Hsp & _ & Ho).
  destruct Hi' as [Hoff' _]. unfold buf_len, buf_unread, buf_cap in *. rewrite Hb in *. rewrite Hsp, Ho in *.
  repeat split; lia.
Qed.

(* ================= ReadOnce: the second entry point into Write ============ *)

Lemma buf_read_once_is_write s d :
  buf_read_once s (Some d) =
  match buf_step s (BWrite d) with
  | Ok (s', BRWrote n) => Ok (s', Some n)
  | Ok (s', _) => Ok (s', None)
  | Err e => Err e
  | Panic => Panic
  end.
Proof.
  unfold buf_read_once. cbn [buf_step]. destruct (buf_write s d) as [[s1 n]|e|]; reflexivity.
Qed.

Lemma buf_read_once_spec s rd s' r :
  buf_inv s -> 2 * buf_cap s + Z.of_nat (length (match rd with Some d => d | None => [] end)) <= buf_maxint ->
  buf_read_once s rd = Ok (s', r) ->
  match rd with
  | None => s' = s /\ r = None                      (* the reader failed: nothing changes *)
  | Some d => r = Some (Z.of_nat (length d)) /\ buf_unread s' = buf_unread s ++ d
  end.
Proof.
  intros Hi Hmax H. destruct rd as [d|].
  - rewrite buf_read_once_is_write in H.
    destruct (buf_step s (BWrite d)) as [[s1 r1]|e|] eqn:E; [|discriminate|discriminate].
    destruct (buf_write_appends_unread s d s1 r1 Hi Hmax E) as (Hr & Hu & _). subst r1.
    inversion H; subst. split; [reflexivity|exact Hu].
  - cbn in H. inversion H. split; reflexivity.
Qed.
