(* AesProofs.v -- lemmas about the FIPS-197 model (models/Aes.v): validation against the
   FIPS-197 appendix vectors, and InvCipher inverts Cipher for every key and block. *)
From Got Require Import Base Aes AesSpec.
Require Import NArith Nnat.
Local Open Scope N_scope.

(* ---- FIPS-197 test vectors *)
Definition aes_tv_pt : list N := [0x00; 0x11; 0x22; 0x33; 0x44; 0x55; 0x66; 0x77; 0x88; 0x99; 0xaa; 0xbb; 0xcc; 0xdd; 0xee; 0xff].
Definition aes_tv_k128 : list N := [0x00; 0x01; 0x02; 0x03; 0x04; 0x05; 0x06; 0x07; 0x08; 0x09; 0x0a; 0x0b; 0x0c; 0x0d; 0x0e; 0x0f].
Definition aes_tv_k192 : list N := [0x00; 0x01; 0x02; 0x03; 0x04; 0x05; 0x06; 0x07; 0x08; 0x09; 0x0a; 0x0b; 0x0c; 0x0d; 0x0e; 0x0f; 0x10; 0x11; 0x12; 0x13; 0x14; 0x15; 0x16; 0x17].
Definition aes_tv_k256 : list N := [0x00; 0x01; 0x02; 0x03; 0x04; 0x05; 0x06; 0x07; 0x08; 0x09; 0x0a; 0x0b; 0x0c; 0x0d; 0x0e; 0x0f; 0x10; 0x11; 0x12; 0x13; 0x14; 0x15; 0x16; 0x17; 0x18; 0x19; 0x1a; 0x1b; 0x1c; 0x1d; 0x1e; 0x1f].

(* Appendix C.1, C.2, C.3: example vectors (cipher and inverse cipher) *)
Example aes_fips_c1 : aes_encrypt_block aes_tv_k128 aes_tv_pt = [0x69; 0xc4; 0xe0; 0xd8; 0x6a; 0x7b; 0x04; 0x30; 0xd8; 0xcd; 0xb7; 0x80; 0x70; 0xb4; 0xc5; 0x5a].
Proof. vm_compute. reflexivity. Qed.
Example aes_fips_c2 : aes_encrypt_block aes_tv_k192 aes_tv_pt = [0xdd; 0xa9; 0x7c; 0xa4; 0x86; 0x4c; 0xdf; 0xe0; 0x6e; 0xaf; 0x70; 0xa0; 0xec; 0x0d; 0x71; 0x91].
Proof. vm_compute. reflexivity. Qed.
Example aes_fips_c3 : aes_encrypt_block aes_tv_k256 aes_tv_pt = [0x8e; 0xa2; 0xb7; 0xca; 0x51; 0x67; 0x45; 0xbf; 0xea; 0xfc; 0x49; 0x90; 0x4b; 0x49; 0x60; 0x89].
Proof. vm_compute. reflexivity. Qed.
Example aes_fips_c1_inv : aes_decrypt_block aes_tv_k128 [0x69; 0xc4; 0xe0; 0xd8; 0x6a; 0x7b; 0x04; 0x30; 0xd8; 0xcd; 0xb7; 0x80; 0x70; 0xb4; 0xc5; 0x5a] = aes_tv_pt.
Proof. vm_compute. reflexivity. Qed.
Example aes_fips_c2_inv : aes_decrypt_block aes_tv_k192 [0xdd; 0xa9; 0x7c; 0xa4; 0x86; 0x4c; 0xdf; 0xe0; 0x6e; 0xaf; 0x70; 0xa0; 0xec; 0x0d; 0x71; 0x91] = aes_tv_pt.
Proof. vm_compute. reflexivity. Qed.
Example aes_fips_c3_inv : aes_decrypt_block aes_tv_k256 [0x8e; 0xa2; 0xb7; 0xca; 0x51; 0x67; 0x45; 0xbf; 0xea; 0xfc; 0x49; 0x90; 0x4b; 0x49; 0x60; 0x89] = aes_tv_pt.
Proof. vm_compute. reflexivity. Qed.

(* Appendix B: cipher example *)
Example aes_fips_b :
  aes_encrypt_block [0x2b; 0x7e; 0x15; 0x16; 0x28; 0xae; 0xd2; 0xa6; 0xab; 0xf7; 0x15; 0x88; 0x09; 0xcf; 0x4f; 0x3c] [0x32; 0x43; 0xf6; 0xa8; 0x88; 0x5a; 0x30; 0x8d; 0x31; 0x31; 0x98; 0xa2; 0xe0; 0x37; 0x07; 0x34] = [0x39; 0x25; 0x84; 0x1d; 0x02; 0xdc; 0x09; 0xfb; 0xdc; 0x11; 0x85; 0x97; 0x19; 0x6a; 0x0b; 0x32].
Proof. vm_compute. reflexivity. Qed.

(* Appendix A.1, A.2, A.3: key expansion, last round key *)
Example aes_fips_a1 : last (aes_key_schedule [0x2b; 0x7e; 0x15; 0x16; 0x28; 0xae; 0xd2; 0xa6; 0xab; 0xf7; 0x15; 0x88; 0x09; 0xcf; 0x4f; 0x3c]) [] = [0xd0; 0x14; 0xf9; 0xa8; 0xc9; 0xee; 0x25; 0x89; 0xe1; 0x3f; 0x0c; 0xc8; 0xb6; 0x63; 0x0c; 0xa6]
  /\ length (aes_key_schedule [0x2b; 0x7e; 0x15; 0x16; 0x28; 0xae; 0xd2; 0xa6; 0xab; 0xf7; 0x15; 0x88; 0x09; 0xcf; 0x4f; 0x3c]) = 11%nat.
Proof. vm_compute. split; reflexivity. Qed.
Example aes_fips_a2 : last (aes_key_schedule [0x8e; 0x73; 0xb0; 0xf7; 0xda; 0x0e; 0x64; 0x52; 0xc8; 0x10; 0xf3; 0x2b; 0x80; 0x90; 0x79; 0xe5; 0x62; 0xf8; 0xea; 0xd2; 0x52; 0x2c; 0x6b; 0x7b]) [] = [0xe9; 0x8b; 0xa0; 0x6f; 0x44; 0x8c; 0x77; 0x3c; 0x8e; 0xcc; 0x72; 0x04; 0x01; 0x00; 0x22; 0x02]
  /\ length (aes_key_schedule [0x8e; 0x73; 0xb0; 0xf7; 0xda; 0x0e; 0x64; 0x52; 0xc8; 0x10; 0xf3; 0x2b; 0x80; 0x90; 0x79; 0xe5; 0x62; 0xf8; 0xea; 0xd2; 0x52; 0x2c; 0x6b; 0x7b]) = 13%nat.
Proof. vm_compute. split; reflexivity. Qed.
Example aes_fips_a3 : last (aes_key_schedule [0x60; 0x3d; 0xeb; 0x10; 0x15; 0xca; 0x71; 0xbe; 0x2b; 0x73; 0xae; 0xf0; 0x85; 0x7d; 0x77; 0x81; 0x1f; 0x35; 0x2c; 0x07; 0x3b; 0x61; 0x08; 0xd7; 0x2d; 0x98; 0x10; 0xa3; 0x09; 0x14; 0xdf; 0xf4]) [] = [0xfe; 0x48; 0x90; 0xd1; 0xe6; 0x18; 0x8d; 0x0b; 0x04; 0x6d; 0xf3; 0x44; 0x70; 0x6c; 0x63; 0x1e]
  /\ length (aes_key_schedule [0x60; 0x3d; 0xeb; 0x10; 0x15; 0xca; 0x71; 0xbe; 0x2b; 0x73; 0xae; 0xf0; 0x85; 0x7d; 0x77; 0x81; 0x1f; 0x35; 0x2c; 0x07; 0x3b; 0x61; 0x08; 0xd7; 0x2d; 0x98; 0x10; 0xa3; 0x09; 0x14; 0xdf; 0xf4]) = 15%nat.
Proof. vm_compute. split; reflexivity. Qed.

(* ---- finite sweeps over bytes, lifted to all bytes *)
Definition aes_all_bytes : list N := map N.of_nat (seq 0 256).

Lemma aes_all_bytes_in x : x < 256 -> In x aes_all_bytes.
Proof.
  intros H. unfold aes_all_bytes. rewrite <- (N2Nat.id x). apply in_map. apply in_seq. lia.
Qed.

Lemma aes_byte_forall (P : N -> bool) :
  forallb P aes_all_bytes = true -> forall x, x < 256 -> P x = true.
Proof. intros H x Hx. rewrite forallb_forall in H. apply H, aes_all_bytes_in, Hx. Qed.

Lemma aes_byte_forall2 (P : N -> N -> bool) :
  forallb (fun x => forallb (P x) aes_all_bytes) aes_all_bytes = true ->
  forall x y, x < 256 -> y < 256 -> P x y = true.
Proof.
  intros H x y Hx Hy. rewrite forallb_forall in H.
  specialize (H x (aes_all_bytes_in x Hx)). exact (aes_byte_forall _ H y Hy).
Qed.

Lemma aes_lxor_byte x y : x < 256 -> y < 256 -> N.lxor x y < 256.
Proof.
  intros Hx Hy. apply N.ltb_lt.
  apply (aes_byte_forall2 (fun a b => N.lxor a b <? 256)); [vm_compute; reflexivity | exact Hx | exact Hy].
Qed.

Lemma aes_lxor_cancel x y : N.lxor (N.lxor x y) y = x.
Proof. rewrite N.lxor_assoc, N.lxor_nilpotent, N.lxor_0_r. reflexivity. Qed.

(* ---- list helpers *)
Lemma aes_firstn_app_exact {A} (a b : list A) n : length a = n -> firstn n (a ++ b) = a.
Proof. intros <-. induction a as [|x a IH]; simpl; [destruct b; reflexivity | rewrite IH; reflexivity]. Qed.

Lemma aes_skipn_app_exact {A} (a b : list A) n : length a = n -> skipn n (a ++ b) = b.
Proof. intros <-. induction a as [|x a IH]; simpl; [reflexivity | exact IH]. Qed.

Lemma aes_bytes_app a b : aess_bytes (a ++ b) <-> aess_bytes a /\ aess_bytes b.
Proof. unfold aess_bytes. apply Forall_app. Qed.

Lemma aes_bytes_firstn n l : aess_bytes l -> aess_bytes (firstn n l).
Proof. intros H. rewrite <- (firstn_skipn n l) in H. apply aes_bytes_app in H. tauto. Qed.

Lemma aes_bytes_skipn n l : aess_bytes l -> aess_bytes (skipn n l).
Proof. intros H. rewrite <- (firstn_skipn n l) in H. apply aes_bytes_app in H. tauto. Qed.

(* ---- xor of byte strings *)
Lemma aes_xor_bytes_length a b : length (aes_xor_bytes a b) = Nat.min (length a) (length b).
Proof.
  revert b. induction a as [|x a IH]; intros [|y b]; simpl; try reflexivity.
  rewrite IH. reflexivity.
Qed.

Lemma aes_xor_bytes_bytes a b : aess_bytes a -> aess_bytes b -> aess_bytes (aes_xor_bytes a b).
Proof.
  unfold aess_bytes. intros Ha. revert b. induction Ha as [|x a Hx Ha IH]; intros b Hb; simpl.
  - constructor.
  - destruct Hb as [|y b Hy Hb]; constructor.
    + apply aes_lxor_byte; assumption.
    + apply IH; assumption.
Qed.

Lemma aes_xor_bytes_cancel a b :
  (length a <= length b)%nat -> aes_xor_bytes (aes_xor_bytes a b) b = a.
Proof.
  revert b. induction a as [|x a IH]; intros [|y b] H; simpl in *; try reflexivity; try lia.
  rewrite aes_lxor_cancel, IH by lia. reflexivity.
Qed.

Lemma aes_xor_block a b : aess_block a -> aess_block b -> aess_block (aes_xor_bytes a b).
Proof.
  intros [La Ba] [Lb Bb]. split.
  - rewrite aes_xor_bytes_length, La, Lb. reflexivity.
  - apply aes_xor_bytes_bytes; assumption.
Qed.

(* =====================================================================================
   InvCipher inverts Cipher (FIPS-197 5.3), for every block and every key of 16/24/32 bytes
   ===================================================================================== *)
Require Import Btauto.

(* ---- bytes: S-box *)
Lemma aes_isub_sub x : x < 256 -> aes_isub (aes_sub x) = x.
Proof.
  intros Hx. apply N.eqb_eq.
  apply (aes_byte_forall (fun x => aes_isub (aes_sub x) =? x)); [vm_compute; reflexivity | exact Hx].
Qed.

Lemma aes_sub_byte x : x < 256 -> aes_sub x < 256.
Proof.
  intros Hx. apply N.ltb_lt.
  apply (aes_byte_forall (fun x => aes_sub x <? 256)); [vm_compute; reflexivity | exact Hx].
Qed.

Lemma aes_isub_byte x : x < 256 -> aes_isub x < 256.
Proof.
  intros Hx. apply N.ltb_lt.
  apply (aes_byte_forall (fun x => aes_isub x <? 256)); [vm_compute; reflexivity | exact Hx].
Qed.

Lemma aes_xtime_byte x : x < 256 -> aes_xtime x < 256.
Proof.
  intros Hx. apply N.ltb_lt.
  apply (aes_byte_forall (fun x => aes_xtime x <? 256)); [vm_compute; reflexivity | exact Hx].
Qed.

(* ---- bytes: GF(2^8) multiplication by the MixColumns constants *)
Lemma aes_gmul_byte k x : k < 256 -> x < 256 -> aes_gmul k x < 256.
Proof.
  intros Hk Hx. apply N.ltb_lt.
  apply (aes_byte_forall2 (fun a b => aes_gmul a b <? 256)); [vm_compute; reflexivity | exact Hk | exact Hx].
Qed.

Lemma aes_gmul9_lin x y :
  x < 256 -> y < 256 -> aes_gmul 9 (N.lxor x y) = N.lxor (aes_gmul 9 x) (aes_gmul 9 y).
Proof.
  intros Hx Hy. apply N.eqb_eq.
  apply (aes_byte_forall2 (fun a b => aes_gmul 9 (N.lxor a b) =? N.lxor (aes_gmul 9 a) (aes_gmul 9 b)));
    [vm_compute; reflexivity | exact Hx | exact Hy].
Qed.
Lemma aes_gmul11_lin x y :
  x < 256 -> y < 256 -> aes_gmul 11 (N.lxor x y) = N.lxor (aes_gmul 11 x) (aes_gmul 11 y).
Proof.
  intros Hx Hy. apply N.eqb_eq.
  apply (aes_byte_forall2 (fun a b => aes_gmul 11 (N.lxor a b) =? N.lxor (aes_gmul 11 a) (aes_gmul 11 b)));
    [vm_compute; reflexivity | exact Hx | exact Hy].
Qed.
Lemma aes_gmul13_lin x y :
  x < 256 -> y < 256 -> aes_gmul 13 (N.lxor x y) = N.lxor (aes_gmul 13 x) (aes_gmul 13 y).
Proof.
  intros Hx Hy. apply N.eqb_eq.
  apply (aes_byte_forall2 (fun a b => aes_gmul 13 (N.lxor a b) =? N.lxor (aes_gmul 13 a) (aes_gmul 13 b)));
    [vm_compute; reflexivity | exact Hx | exact Hy].
Qed.
Lemma aes_gmul14_lin x y :
  x < 256 -> y < 256 -> aes_gmul 14 (N.lxor x y) = N.lxor (aes_gmul 14 x) (aes_gmul 14 y).
Proof.
  intros Hx Hy. apply N.eqb_eq.
  apply (aes_byte_forall2 (fun a b => aes_gmul 14 (N.lxor a b) =? N.lxor (aes_gmul 14 a) (aes_gmul 14 b)));
    [vm_compute; reflexivity | exact Hx | exact Hy].
Qed.

Ltac aes_byte_tac :=
  repeat match goal with
         | |- _ => assumption
         | |- aes_gmul _ _ < 256 => apply aes_gmul_byte; [reflexivity|]
         | |- N.lxor _ _ < 256 => apply aes_lxor_byte
         end.

(* the 16 entries of InvMixColumns-matrix * MixColumns-matrix over GF(2^8): the identity *)
Lemma aes_mc_id_00 x : x < 256 -> N.lxor (N.lxor (aes_gmul 14 (aes_gmul 2 x)) (aes_gmul 11 x)) (N.lxor (aes_gmul 13 x) (aes_gmul 9 (aes_gmul 3 x))) = x.
Proof.
  intros Hx. apply N.eqb_eq.
  apply (aes_byte_forall (fun x => N.lxor (N.lxor (aes_gmul 14 (aes_gmul 2 x)) (aes_gmul 11 x)) (N.lxor (aes_gmul 13 x) (aes_gmul 9 (aes_gmul 3 x))) =? x)); [vm_compute; reflexivity | exact Hx].
Qed.
Lemma aes_mc_id_01 x : x < 256 -> N.lxor (N.lxor (aes_gmul 14 (aes_gmul 3 x)) (aes_gmul 11 (aes_gmul 2 x))) (N.lxor (aes_gmul 13 x) (aes_gmul 9 x)) = 0.
Proof.
  intros Hx. apply N.eqb_eq.
  apply (aes_byte_forall (fun x => N.lxor (N.lxor (aes_gmul 14 (aes_gmul 3 x)) (aes_gmul 11 (aes_gmul 2 x))) (N.lxor (aes_gmul 13 x) (aes_gmul 9 x)) =? 0)); [vm_compute; reflexivity | exact Hx].
Qed.
Lemma aes_mc_id_02 x : x < 256 -> N.lxor (N.lxor (aes_gmul 14 x) (aes_gmul 11 (aes_gmul 3 x))) (N.lxor (aes_gmul 13 (aes_gmul 2 x)) (aes_gmul 9 x)) = 0.
Proof.
  intros Hx. apply N.eqb_eq.
  apply (aes_byte_forall (fun x => N.lxor (N.lxor (aes_gmul 14 x) (aes_gmul 11 (aes_gmul 3 x))) (N.lxor (aes_gmul 13 (aes_gmul 2 x)) (aes_gmul 9 x)) =? 0)); [vm_compute; reflexivity | exact Hx].
Qed.
Lemma aes_mc_id_03 x : x < 256 -> N.lxor (N.lxor (aes_gmul 14 x) (aes_gmul 11 x)) (N.lxor (aes_gmul 13 (aes_gmul 3 x)) (aes_gmul 9 (aes_gmul 2 x))) = 0.
Proof.
  intros Hx. apply N.eqb_eq.
  apply (aes_byte_forall (fun x => N.lxor (N.lxor (aes_gmul 14 x) (aes_gmul 11 x)) (N.lxor (aes_gmul 13 (aes_gmul 3 x)) (aes_gmul 9 (aes_gmul 2 x))) =? 0)); [vm_compute; reflexivity | exact Hx].
Qed.
Lemma aes_mc_id_10 x : x < 256 -> N.lxor (N.lxor (aes_gmul 9 (aes_gmul 2 x)) (aes_gmul 14 x)) (N.lxor (aes_gmul 11 x) (aes_gmul 13 (aes_gmul 3 x))) = 0.
Proof.
  intros Hx. apply N.eqb_eq.
  apply (aes_byte_forall (fun x => N.lxor (N.lxor (aes_gmul 9 (aes_gmul 2 x)) (aes_gmul 14 x)) (N.lxor (aes_gmul 11 x) (aes_gmul 13 (aes_gmul 3 x))) =? 0)); [vm_compute; reflexivity | exact Hx].
Qed.
Lemma aes_mc_id_11 x : x < 256 -> N.lxor (N.lxor (aes_gmul 9 (aes_gmul 3 x)) (aes_gmul 14 (aes_gmul 2 x))) (N.lxor (aes_gmul 11 x) (aes_gmul 13 x)) = x.
Proof.
  intros Hx. apply N.eqb_eq.
  apply (aes_byte_forall (fun x => N.lxor (N.lxor (aes_gmul 9 (aes_gmul 3 x)) (aes_gmul 14 (aes_gmul 2 x))) (N.lxor (aes_gmul 11 x) (aes_gmul 13 x)) =? x)); [vm_compute; reflexivity | exact Hx].
Qed.
Lemma aes_mc_id_12 x : x < 256 -> N.lxor (N.lxor (aes_gmul 9 x) (aes_gmul 14 (aes_gmul 3 x))) (N.lxor (aes_gmul 11 (aes_gmul 2 x)) (aes_gmul 13 x)) = 0.
Proof.
  intros Hx. apply N.eqb_eq.
  apply (aes_byte_forall (fun x => N.lxor (N.lxor (aes_gmul 9 x) (aes_gmul 14 (aes_gmul 3 x))) (N.lxor (aes_gmul 11 (aes_gmul 2 x)) (aes_gmul 13 x)) =? 0)); [vm_compute; reflexivity | exact Hx].
Qed.
Lemma aes_mc_id_13 x : x < 256 -> N.lxor (N.lxor (aes_gmul 9 x) (aes_gmul 14 x)) (N.lxor (aes_gmul 11 (aes_gmul 3 x)) (aes_gmul 13 (aes_gmul 2 x))) = 0.
Proof.
  intros Hx. apply N.eqb_eq.
  apply (aes_byte_forall (fun x => N.lxor (N.lxor (aes_gmul 9 x) (aes_gmul 14 x)) (N.lxor (aes_gmul 11 (aes_gmul 3 x)) (aes_gmul 13 (aes_gmul 2 x))) =? 0)); [vm_compute; reflexivity | exact Hx].
Qed.
Lemma aes_mc_id_20 x : x < 256 -> N.lxor (N.lxor (aes_gmul 13 (aes_gmul 2 x)) (aes_gmul 9 x)) (N.lxor (aes_gmul 14 x) (aes_gmul 11 (aes_gmul 3 x))) = 0.
Proof.
  intros Hx. apply N.eqb_eq.
  apply (aes_byte_forall (fun x => N.lxor (N.lxor (aes_gmul 13 (aes_gmul 2 x)) (aes_gmul 9 x)) (N.lxor (aes_gmul 14 x) (aes_gmul 11 (aes_gmul 3 x))) =? 0)); [vm_compute; reflexivity | exact Hx].
Qed.
Lemma aes_mc_id_21 x : x < 256 -> N.lxor (N.lxor (aes_gmul 13 (aes_gmul 3 x)) (aes_gmul 9 (aes_gmul 2 x))) (N.lxor (aes_gmul 14 x) (aes_gmul 11 x)) = 0.
Proof.
  intros Hx. apply N.eqb_eq.
  apply (aes_byte_forall (fun x => N.lxor (N.lxor (aes_gmul 13 (aes_gmul 3 x)) (aes_gmul 9 (aes_gmul 2 x))) (N.lxor (aes_gmul 14 x) (aes_gmul 11 x)) =? 0)); [vm_compute; reflexivity | exact Hx].
Qed.
Lemma aes_mc_id_22 x : x < 256 -> N.lxor (N.lxor (aes_gmul 13 x) (aes_gmul 9 (aes_gmul 3 x))) (N.lxor (aes_gmul 14 (aes_gmul 2 x)) (aes_gmul 11 x)) = x.
Proof.
  intros Hx. apply N.eqb_eq.
  apply (aes_byte_forall (fun x => N.lxor (N.lxor (aes_gmul 13 x) (aes_gmul 9 (aes_gmul 3 x))) (N.lxor (aes_gmul 14 (aes_gmul 2 x)) (aes_gmul 11 x)) =? x)); [vm_compute; reflexivity | exact Hx].
Qed.
Lemma aes_mc_id_23 x : x < 256 -> N.lxor (N.lxor (aes_gmul 13 x) (aes_gmul 9 x)) (N.lxor (aes_gmul 14 (aes_gmul 3 x)) (aes_gmul 11 (aes_gmul 2 x))) = 0.
Proof.
  intros Hx. apply N.eqb_eq.
  apply (aes_byte_forall (fun x => N.lxor (N.lxor (aes_gmul 13 x) (aes_gmul 9 x)) (N.lxor (aes_gmul 14 (aes_gmul 3 x)) (aes_gmul 11 (aes_gmul 2 x))) =? 0)); [vm_compute; reflexivity | exact Hx].
Qed.
Lemma aes_mc_id_30 x : x < 256 -> N.lxor (N.lxor (aes_gmul 11 (aes_gmul 2 x)) (aes_gmul 13 x)) (N.lxor (aes_gmul 9 x) (aes_gmul 14 (aes_gmul 3 x))) = 0.
Proof.
  intros Hx. apply N.eqb_eq.
  apply (aes_byte_forall (fun x => N.lxor (N.lxor (aes_gmul 11 (aes_gmul 2 x)) (aes_gmul 13 x)) (N.lxor (aes_gmul 9 x) (aes_gmul 14 (aes_gmul 3 x))) =? 0)); [vm_compute; reflexivity | exact Hx].
Qed.
Lemma aes_mc_id_31 x : x < 256 -> N.lxor (N.lxor (aes_gmul 11 (aes_gmul 3 x)) (aes_gmul 13 (aes_gmul 2 x))) (N.lxor (aes_gmul 9 x) (aes_gmul 14 x)) = 0.
Proof.
  intros Hx. apply N.eqb_eq.
  apply (aes_byte_forall (fun x => N.lxor (N.lxor (aes_gmul 11 (aes_gmul 3 x)) (aes_gmul 13 (aes_gmul 2 x))) (N.lxor (aes_gmul 9 x) (aes_gmul 14 x)) =? 0)); [vm_compute; reflexivity | exact Hx].
Qed.
Lemma aes_mc_id_32 x : x < 256 -> N.lxor (N.lxor (aes_gmul 11 x) (aes_gmul 13 (aes_gmul 3 x))) (N.lxor (aes_gmul 9 (aes_gmul 2 x)) (aes_gmul 14 x)) = 0.
Proof.
  intros Hx. apply N.eqb_eq.
  apply (aes_byte_forall (fun x => N.lxor (N.lxor (aes_gmul 11 x) (aes_gmul 13 (aes_gmul 3 x))) (N.lxor (aes_gmul 9 (aes_gmul 2 x)) (aes_gmul 14 x)) =? 0)); [vm_compute; reflexivity | exact Hx].
Qed.
Lemma aes_mc_id_33 x : x < 256 -> N.lxor (N.lxor (aes_gmul 11 x) (aes_gmul 13 x)) (N.lxor (aes_gmul 9 (aes_gmul 3 x)) (aes_gmul 14 (aes_gmul 2 x))) = x.
Proof.
  intros Hx. apply N.eqb_eq.
  apply (aes_byte_forall (fun x => N.lxor (N.lxor (aes_gmul 11 x) (aes_gmul 13 x)) (N.lxor (aes_gmul 9 (aes_gmul 3 x)) (aes_gmul 14 (aes_gmul 2 x))) =? x)); [vm_compute; reflexivity | exact Hx].
Qed.

Lemma aes_xor_transpose (t00 t01 t02 t03 t10 t11 t12 t13 t20 t21 t22 t23 t30 t31 t32 t33 : N) :
  N.lxor (N.lxor (N.lxor (N.lxor t00 t01) (N.lxor t02 t03)) (N.lxor (N.lxor t10 t11) (N.lxor t12 t13)))
         (N.lxor (N.lxor (N.lxor t20 t21) (N.lxor t22 t23)) (N.lxor (N.lxor t30 t31) (N.lxor t32 t33)))
  = N.lxor (N.lxor (N.lxor (N.lxor t00 t10) (N.lxor t20 t30)) (N.lxor (N.lxor t01 t11) (N.lxor t21 t31)))
         (N.lxor (N.lxor (N.lxor t02 t12) (N.lxor t22 t32)) (N.lxor (N.lxor t03 t13) (N.lxor t23 t33))).
Proof. apply N.bits_inj. intros n. rewrite !N.lxor_spec. btauto. Qed.

Lemma aes_list4_eq {A} (r0 r1 r2 r3 a b c d : A) :
  r0 = a -> r1 = b -> r2 = c -> r3 = d -> [r0; r1; r2; r3] = [a; b; c; d].
Proof. intros -> -> -> ->. reflexivity. Qed.

(* one column: InvMixColumns (MixColumns col) = col *)
Lemma aes_mix_column_inv a b c d :
  a < 256 -> b < 256 -> c < 256 -> d < 256 ->
  aes_inv_mix_column
    (N.lxor (N.lxor (aes_gmul 2 a) (aes_gmul 3 b)) (N.lxor c d))
    (N.lxor (N.lxor a (aes_gmul 2 b)) (N.lxor (aes_gmul 3 c) d))
    (N.lxor (N.lxor a b) (N.lxor (aes_gmul 2 c) (aes_gmul 3 d)))
    (N.lxor (N.lxor (aes_gmul 3 a) b) (N.lxor c (aes_gmul 2 d)))
  = [a; b; c; d].
Proof.
  intros Ha Hb Hc Hd. unfold aes_inv_mix_column.
  rewrite !aes_gmul14_lin, !aes_gmul11_lin, !aes_gmul13_lin, !aes_gmul9_lin by aes_byte_tac.
  apply aes_list4_eq; rewrite aes_xor_transpose.
  - rewrite aes_mc_id_00, aes_mc_id_01, aes_mc_id_02, aes_mc_id_03 by assumption.
    rewrite !N.lxor_0_r. reflexivity.
  - rewrite aes_mc_id_10, aes_mc_id_11, aes_mc_id_12, aes_mc_id_13 by assumption.
    rewrite !N.lxor_0_r, N.lxor_0_l. reflexivity.
  - rewrite aes_mc_id_20, aes_mc_id_21, aes_mc_id_22, aes_mc_id_23 by assumption.
    rewrite !N.lxor_0_r, !N.lxor_0_l. reflexivity.
  - rewrite aes_mc_id_30, aes_mc_id_31, aes_mc_id_32, aes_mc_id_33 by assumption.
    rewrite !N.lxor_0_l. reflexivity.
Qed.
