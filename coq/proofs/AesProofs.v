(* AesProofs.v -- lemmas about the FIPS-197 model (models/Aes.v): validation against the
   FIPS-197 appendix vectors, and InvCipher inverts Cipher for every key and block. *)
From Got Require Import Base Aes AesSpec.
Require Import NArith Nnat.
Local Open Scope N_scope.

(* ---- FIPS-197 test vectors *)
Definition aes_tv_pt : list N := [0x00; 0x11; 0x22; 0x33; 0x44; 0x55; 0x66; 0x77; 0x88; 0x99; 0xaa; 0xbb; 0xcc; 0xdd; 0xee; 0xff].
Definition aes_tv_k128 : list N := [0x00; 0x01; 0x02; 0x03; 0x04; 0x05; 0x06; 0x07; 0x08; 0x09; 0x0a; 0x0b; 0x0c; 0x0d; 0x0e; 0x0f].
Definition aes_tv_k192 : list N := [0x00; 0x01; 0x02; 0x03; 0x04; 0x05; 0x06; 0x07; 0x08; 0x09; 0x0a; 0x0b; 0x0c; 0x0d; 0x0e; 0x0f; 0x10; 0x11; 0x12; 0x13; 0x14; 0x15; 0x16; 0x17].
Definition aes_tv_k256 : list N := [0x00; 0x01; 0x02; 0x03; 0x04; 0x05; 0x06; 0x07; 0x08; 0x09; 0x0a; 0x0b; 0x0c; 0x0d; 0x0e; 0x0f; 0x10; 0x11; 0x12; 0x13; 0x14; 0x15; 0x16; 0x17; 0x18; 0x19; 0x1a; 0x1b; 0x1c; 0x1d; 0x1e; 0x1f].

(* Appendix C.1, C.2, C.3: example vectors (cipher and inverse cipher) *)
Example aes_fips_c1 : aes_encrypt_block aes_tv_k128 aes_tv_pt = [0x69; 0xc4; 0xe0; 0xd8; 0x6a; 0x7b; 0x04; 0x30; 0xd8; 0xcd; 0xb7; 0x80; 0x70; 0xb4; 0xc5; 0x5a].
Proof. vm_compute. reflexivity. Qed.
Example aes_fips_c2 : aes_encrypt_block aes_tv_k192 aes_tv_pt = [0xdd; 0xa9; 0x7c; 0xa4; 0x86; 0x4c; 0xdf; 0xe0; 0x6e; 0xaf; 0x70; 0xa0; 0xec; 0x0d; 0x71; 0x91].
Proof. vm_compute. reflexivity. Qed.
Example aes_fips_c3 : aes_encrypt_block aes_tv_k256 aes_tv_pt = [0x8e; 0xa2; 0xb7; 0xca; 0x51; 0x67; 0x45; 0xbf; 0xea; 0xfc; 0x49; 0x90; 0x4b; 0x49; 0x60; 0x89].
Proof. vm_compute. reflexivity. Qed.
Example aes_fips_c1_inv : aes_decrypt_block aes_tv_k128 [0x69; 0xc4; 0xe0; 0xd8; 0x6a; 0x7b; 0x04; 0x30; 0xd8; 0xcd; 0xb7; 0x80; 0x70; 0xb4; 0xc5; 0x5a] = aes_tv_pt.
Proof. vm_compute. reflexivity. Qed.
Example aes_fips_c2_inv : aes_decrypt_block aes_tv_k192 [0xdd; 0xa9; 0x7c; 0xa4; 0x86; 0x4c; 0xdf; 0xe0; 0x6e; 0xaf; 0x70; 0xa0; 0xec; 0x0d; 0x71; 0x91] = aes_tv_pt.
Proof. vm_compute. reflexivity. Qed.
Example aes_fips_c3_inv : aes_decrypt_block aes_tv_k256 [0x8e; 0xa2; 0xb7; 0xca; 0x51; 0x67; 0x45; 0xbf; 0xea; 0xfc; 0x49; 0x90; 0x4b; 0x49; 0x60; 0x89] = aes_tv_pt.
Proof. vm_compute. reflexivity. Qed.

(* Appendix B: cipher example *)
Example aes_fips_b :
  aes_encrypt_block [0x2b; 0x7e; 0x15; 0x16; 0x28; 0xae; 0xd2; 0xa6; 0xab; 0xf7; 0x15; 0x88; 0x09; 0xcf; 0x4f; 0x3c] [0x32; 0x43; 0xf6; 0xa8; 0x88; 0x5a; 0x30; 0x8d; 0x31; 0x31; 0x98; 0xa2; 0xe0; 0x37; 0x07; 0x34] = [0x39; 0x25; 0x84; 0x1d; 0x02; 0xdc; 0x09; 0xfb; 0xdc; 0x11; 0x85; 0x97; 0x19; 0x6a; 0x0b; 0x32].
Proof. vm_compute. reflexivity. Qed.

(* Appendix A.1, A.2, A.3: key expansion, last round key *)
Example aes_fips_a1 : last (aes_key_schedule [0x2b; 0x7e; 0x15; 0x16; 0x28; 0xae; 0xd2; 0xa6; 0xab; 0xf7; 0x15; 0x88; 0x09; 0xcf; 0x4f; 0x3c]) [] = [0xd0; 0x14; 0xf9; 0xa8; 0xc9; 0xee; 0x25; 0x89; 0xe1; 0x3f; 0x0c; 0xc8; 0xb6; 0x63; 0x0c; 0xa6]
  /\ length (aes_key_schedule [0x2b; 0x7e; 0x15; 0x16; 0x28; 0xae; 0xd2; 0xa6; 0xab; 0xf7; 0x15; 0x88; 0x09; 0xcf; 0x4f; 0x3c]) = 11%nat.
Proof. vm_compute. split; reflexivity. Qed.
Example aes_fips_a2 : last (aes_key_schedule [0x8e; 0x73; 0xb0; 0xf7; 0xda; 0x0e; 0x64; 0x52; 0xc8; 0x10; 0xf3; 0x2b; 0x80; 0x90; 0x79; 0xe5; 0x62; 0xf8; 0xea; 0xd2; 0x52; 0x2c; 0x6b; 0x7b]) [] = [0xe9; 0x8b; 0xa0; 0x6f; 0x44; 0x8c; 0x77; 0x3c; 0x8e; 0xcc; 0x72; 0x04; 0x01; 0x00; 0x22; 0x02]
  /\ length (aes_key_schedule [0x8e; 0x73; 0xb0; 0xf7; 0xda; 0x0e; 0x64; 0x52; 0xc8; 0x10; 0xf3; 0x2b; 0x80; 0x90; 0x79; 0xe5; 0x62; 0xf8; 0xea; 0xd2; 0x52; 0x2c; 0x6b; 0x7b]) = 13%nat.
Proof. vm_compute. split; reflexivity. Qed.
Example aes_fips_a3 : last (aes_key_schedule [0x60; 0x3d; 0xeb; 0x10; 0x15; 0xca; 0x71; 0xbe; 0x2b; 0x73; 0xae; 0xf0; 0x85; 0x7d; 0x77; 0x81; 0x1f; 0x35; 0x2c; 0x07; 0x3b; 0x61; 0x08; 0xd7; 0x2d; 0x98; 0x10; 0xa3; 0x09; 0x14; 0xdf; 0xf4]) [] = [0xfe; 0x48; 0x90; 0xd1; 0xe6; 0x18; 0x8d; 0x0b; 0x04; 0x6d; 0xf3; 0x44; 0x70; 0x6c; 0x63; 0x1e]
  /\ length (aes_key_schedule [0x60; 0x3d; 0xeb; 0x10; 0x15; 0xca; 0x71; 0xbe; 0x2b; 0x73; 0xae; 0xf0; 0x85; 0x7d; 0x77; 0x81; 0x1f; 0x35; 0x2c; 0x07; 0x3b; 0x61; 0x08; 0xd7; 0x2d; 0x98; 0x10; 0xa3; 0x09; 0x14; 0xdf; 0xf4]) = 15%nat.
Proof. vm_compute. split; reflexivity. Qed.

(* ---- finite sweeps over bytes, lifted to all bytes *)
Definition aes_all_bytes : list N := map N.of_nat (seq 0 256).

Lemma aes_all_bytes_in x : x < 256 -> In x aes_all_bytes.
Proof.
  intros H. unfold aes_all_bytes. rewrite <- (N2Nat.id x). apply in_map. apply in_seq. lia.
Qed.

Lemma aes_byte_forall (P : N -> bool) :
  forallb P aes_all_bytes = true -> forall x, x < 256 -> P x = true.
Proof. intros H x Hx. rewrite forallb_forall in H. apply H, aes_all_bytes_in, Hx. Qed.

Lemma aes_byte_forall2 (P : N -> N -> bool) :
  forallb (fun x => forallb (P x) aes_all_bytes) aes_all_bytes = true ->
  forall x y, x < 256 -> y < 256 -> P x y = true.
Proof.
  intros H x y Hx Hy. rewrite forallb_forall in H.
  specialize (H x (aes_all_bytes_in x Hx)). exact (aes_byte_forall _ H y Hy).
Qed.

Lemma aes_lxor_byte x y : x < 256 -> y < 256 -> N.lxor x y < 256.
Proof.
  intros Hx Hy. apply N.ltb_lt.
  apply (aes_byte_forall2 (fun a b => N.lxor a b <? 256)); [vm_compute; reflexivity | exact Hx | exact Hy].
Qed.

Lemma aes_lxor_cancel x y : N.lxor (N.lxor x y) y = x.
Proof. rewrite N.lxor_assoc, N.lxor_nilpotent, N.lxor_0_r. reflexivity. Qed.

(* ---- list helpers *)
Lemma aes_firstn_app_exact {A} (a b : list A) n : length a = n -> firstn n (a ++ b) = a.
Proof. intros <-. induction a as [|x a IH]; simpl; [destruct b; reflexivity | rewrite IH; reflexivity]. Qed.

Lemma aes_skipn_app_exact {A} (a b : list A) n : length a = n -> skipn n (a ++ b) = b.
Proof. intros <-. induction a as [|x a IH]; simpl; [reflexivity | exact IH]. Qed.

Lemma aes_bytes_app a b : aess_bytes (a ++ b) <-> aess_bytes a /\ aess_bytes b.
Proof. unfold aess_bytes. apply Forall_app. Qed.

Lemma aes_bytes_firstn n l : aess_bytes l -> aess_bytes (firstn n l).
Proof. intros H. rewrite <- (firstn_skipn n l) in H. apply aes_bytes_app in H. tauto. Qed.

Lemma aes_bytes_skipn n l : aess_bytes l -> aess_bytes (skipn n l).
Proof. intros H. rewrite <- (firstn_skipn n l) in H. apply aes_bytes_app in H. tauto. Qed.

(* ---- xor of byte strings *)
Lemma aes_xor_bytes_length a b : length (aes_xor_bytes a b) = Nat.min (length a) (length b).
Proof.
  revert b. induction a as [|x a IH]; intros [|y b]; simpl; try reflexivity.
  rewrite IH. reflexivity.
Qed.

Lemma aes_xor_bytes_bytes a b : aess_bytes a -> aess_bytes b -> aess_bytes (aes_xor_bytes a b).
Proof.
  unfold aess_bytes. intros Ha. revert b. induction Ha as [|x a Hx Ha IH]; intros b Hb; simpl.
  - constructor.
  - destruct Hb as [|y b Hy Hb]; constructor.
    + apply aes_lxor_byte; assumption.
    + apply IH; assumption.
Qed.

Lemma aes_xor_bytes_cancel a b :
  (length a <= length b)%nat -> aes_xor_bytes (aes_xor_bytes a b) b = a.
Proof.
  revert b. induction a as [|x a IH]; intros [|y b] H; simpl in *; try reflexivity; try lia.
  rewrite aes_lxor_cancel, IH by lia. reflexivity.
Qed.

Lemma aes_xor_block a b : aess_block a -> aess_block b -> aess_block (aes_xor_bytes a b).
Proof.
  intros [La Ba] [Lb Bb]. split.
  - rewrite aes_xor_bytes_length, La, Lb. reflexivity.
  - apply aes_xor_bytes_bytes; assumption.
Qed.

(* =====================================================================================
   InvCipher inverts Cipher (FIPS-197 5.3), for every block and every key of 16/24/32 bytes
   ===================================================================================== *)
Require Import Btauto.

(* ---- bytes: S-box *)
Lemma aes_isub_sub x : x < 256 -> aes_isub (aes_sub x) = x.
Proof.
  intros Hx. apply N.eqb_eq.
  apply (aes_byte_forall (fun x => aes_isub (aes_sub x) =? x)); [vm_compute; reflexivity | exact Hx].
Qed.

Lemma aes_sub_byte x : x < 256 -> aes_sub x < 256.
Proof.
  intros Hx. apply N.ltb_lt.
  apply (aes_byte_forall (fun x => aes_sub x <? 256)); [vm_compute; reflexivity | exact Hx].
Qed.

Lemma aes_isub_byte x : x < 256 -> aes_isub x < 256.
Proof.
  intros Hx. apply N.ltb_lt.
  apply (aes_byte_forall (fun x => aes_isub x <? 256)); [vm_compute; reflexivity | exact Hx].
Qed.

Lemma aes_xtime_byte x : x < 256 -> aes_xtime x < 256.
Proof.
  intros Hx. apply N.ltb_lt.
  apply (aes_byte_forall (fun x => aes_xtime x <? 256)); [vm_compute; reflexivity | exact Hx].
Qed.

(* ---- bytes: GF(2^8) multiplication by the MixColumns constants *)
Lemma aes_gmul_byte k x : k < 256 -> x < 256 -> aes_gmul k x < 256.
Proof.
  intros Hk Hx. apply N.ltb_lt.
  apply (aes_byte_forall2 (fun a b => aes_gmul a b <? 256)); [vm_compute; reflexivity | exact Hk | exact Hx].
Qed.

Lemma aes_gmul9_lin x y :
  x < 256 -> y < 256 -> aes_gmul 9 (N.lxor x y) = N.lxor (aes_gmul 9 x) (aes_gmul 9 y).
Proof.
  intros Hx Hy. apply N.eqb_eq.
  apply (aes_byte_forall2 (fun a b => aes_gmul 9 (N.lxor a b) =? N.lxor (aes_gmul 9 a) (aes_gmul 9 b)));
    [vm_compute; reflexivity | exact Hx | exact Hy].
Qed.
Lemma aes_gmul11_lin x y :
  x < 256 -> y < 256 -> aes_gmul 11 (N.lxor x y) = N.lxor (aes_gmul 11 x) (aes_gmul 11 y).
Proof.
  intros Hx Hy. apply N.eqb_eq.
  apply (aes_byte_forall2 (fun a b => aes_gmul 11 (N.lxor a b) =? N.lxor (aes_gmul 11 a) (aes_gmul 11 b)));
    [vm_compute; reflexivity | exact Hx | exact Hy].
Qed.
Lemma aes_gmul13_lin x y :
  x < 256 -> y < 256 -> aes_gmul 13 (N.lxor x y) = N.lxor (aes_gmul 13 x) (aes_gmul 13 y).
Proof.
  intros Hx Hy. apply N.eqb_eq.
  apply (aes_byte_forall2 (fun a b => aes_gmul 13 (N.lxor a b) =? N.lxor (aes_gmul 13 a) (aes_gmul 13 b)));
    [vm_compute; reflexivity | exact Hx | exact Hy].
Qed.
Lemma aes_gmul14_lin x y :
  x < 256 -> y < 256 -> aes_gmul 14 (N.lxor x y) = N.lxor (aes_gmul 14 x) (aes_gmul 14 y).
Proof.
  intros Hx Hy. apply N.eqb_eq.
  apply (aes_byte_forall2 (fun a b => aes_gmul 14 (N.lxor a b) =? N.lxor (aes_gmul 14 a) (aes_gmul 14 b)));
    [vm_compute; reflexivity | exact Hx | exact Hy].
Qed.

Ltac aes_byte_tac :=
  repeat match goal with
         | |- _ => assumption
         | |- aes_gmul _ _ < 256 => apply aes_gmul_byte; [reflexivity|]
         | |- N.lxor _ _ < 256 => apply aes_lxor_byte
         end.

(* the 16 entries of InvMixColumns-matrix * MixColumns-matrix over GF(2^8): the identity *)
Lemma aes_mc_id_00 x : x < 256 -> N.lxor (N.lxor (aes_gmul 14 (aes_gmul 2 x)) (aes_gmul 11 x)) (N.lxor (aes_gmul 13 x) (aes_gmul 9 (aes_gmul 3 x))) = x.
Proof.
  intros Hx. apply N.eqb_eq.
  apply (aes_byte_forall (fun x => N.lxor (N.lxor (aes_gmul 14 (aes_gmul 2 x)) (aes_gmul 11 x)) (N.lxor (aes_gmul 13 x) (aes_gmul 9 (aes_gmul 3 x))) =? x)); [vm_compute; reflexivity | exact Hx].
Qed.
Lemma aes_mc_id_01 x : x < 256 -> N.lxor (N.lxor (aes_gmul 14 (aes_gmul 3 x)) (aes_gmul 11 (aes_gmul 2 x))) (N.lxor (aes_gmul 13 x) (aes_gmul 9 x)) = 0.
Proof.
  intros Hx. apply N.eqb_eq.
  apply (aes_byte_forall (fun x => N.lxor (N.lxor (aes_gmul 14 (aes_gmul 3 x)) (aes_gmul 11 (aes_gmul 2 x))) (N.lxor (aes_gmul 13 x) (aes_gmul 9 x)) =? 0)); [vm_compute; reflexivity | exact Hx].
Qed.
Lemma aes_mc_id_02 x : x < 256 -> N.lxor (N.lxor (aes_gmul 14 x) (aes_gmul 11 (aes_gmul 3 x))) (N.lxor (aes_gmul 13 (aes_gmul 2 x)) (aes_gmul 9 x)) = 0.
Proof.
  intros Hx. apply N.eqb_eq.
  apply (aes_byte_forall (fun x => N.lxor (N.lxor (aes_gmul 14 x) (aes_gmul 11 (aes_gmul 3 x))) (N.lxor (aes_gmul 13 (aes_gmul 2 x)) (aes_gmul 9 x)) =? 0)); [vm_compute; reflexivity | exact Hx].
Qed.
Lemma aes_mc_id_03 x : x < 256 -> N.lxor (N.lxor (aes_gmul 14 x) (aes_gmul 11 x)) (N.lxor (aes_gmul 13 (aes_gmul 3 x)) (aes_gmul 9 (aes_gmul 2 x))) = 0.
Proof.
  intros Hx. apply N.eqb_eq.
  apply (aes_byte_forall (fun x => N.lxor (N.lxor (aes_gmul 14 x) (aes_gmul 11 x)) (N.lxor (aes_gmul 13 (aes_gmul 3 x)) (aes_gmul 9 (aes_gmul 2 x))) =? 0)); [vm_compute; reflexivity | exact Hx].
Qed.
Lemma aes_mc_id_10 x : x < 256 -> N.lxor (N.lxor (aes_gmul 9 (aes_gmul 2 x)) (aes_gmul 14 x)) (N.lxor (aes_gmul 11 x) (aes_gmul 13 (aes_gmul 3 x))) = 0.
Proof.
  intros Hx. apply N.eqb_eq.
  apply (aes_byte_forall (fun x => N.lxor (N.lxor (aes_gmul 9 (aes_gmul 2 x)) (aes_gmul 14 x)) (N.lxor (aes_gmul 11 x) (aes_gmul 13 (aes_gmul 3 x))) =? 0)); [vm_compute; reflexivity | exact Hx].
Qed.
Lemma aes_mc_id_11 x : x < 256 -> N.lxor (N.lxor (aes_gmul 9 (aes_gmul 3 x)) (aes_gmul 14 (aes_gmul 2 x))) (N.lxor (aes_gmul 11 x) (aes_gmul 13 x)) = x.
Proof.
  intros Hx. apply N.eqb_eq.
  apply (aes_byte_forall (fun x => N.lxor (N.lxor (aes_gmul 9 (aes_gmul 3 x)) (aes_gmul 14 (aes_gmul 2 x))) (N.lxor (aes_gmul 11 x) (aes_gmul 13 x)) =? x)); [vm_compute; reflexivity | exact Hx].
Qed.
Lemma aes_mc_id_12 x : x < 256 -> N.lxor (N.lxor (aes_gmul 9 x) (aes_gmul 14 (aes_gmul 3 x))) (N.lxor (aes_gmul 11 (aes_gmul 2 x)) (aes_gmul 13 x)) = 0.
Proof.
  intros Hx. apply N.eqb_eq.
  apply (aes_byte_forall (fun x => N.lxor (N.lxor (aes_gmul 9 x) (aes_gmul 14 (aes_gmul 3 x))) (N.lxor (aes_gmul 11 (aes_gmul 2 x)) (aes_gmul 13 x)) =? 0)); [vm_compute; reflexivity | exact Hx].
Qed.
Lemma aes_mc_id_13 x : x < 256 -> N.lxor (N.lxor (aes_gmul 9 x) (aes_gmul 14 x)) (N.lxor (aes_gmul 11 (aes_gmul 3 x)) (aes_gmul 13 (aes_gmul 2 x))) = 0.
Proof.
  intros Hx. apply N.eqb_eq.
  apply (aes_byte_forall (fun x => N.lxor (N.lxor (aes_gmul 9 x) (aes_gmul 14 x)) (N.lxor (aes_gmul 11 (aes_gmul 3 x)) (aes_gmul 13 (aes_gmul 2 x))) =? 0)); [vm_compute; reflexivity | exact Hx].
Qed.
Lemma aes_mc_id_20 x : x < 256 -> N.lxor (N.lxor (aes_gmul 13 (aes_gmul 2 x)) (aes_gmul 9 x)) (N.lxor (aes_gmul 14 x) (aes_gmul 11 (aes_gmul 3 x))) = 0.
Proof.
  intros Hx. apply N.eqb_eq.
  apply (aes_byte_forall (fun x => N.lxor (N.lxor (aes_gmul 13 (aes_gmul 2 x)) (aes_gmul 9 x)) (N.lxor (aes_gmul 14 x) (aes_gmul 11 (aes_gmul 3 x))) =? 0)); [vm_compute; reflexivity | exact Hx].
Qed.
Lemma aes_mc_id_21 x : x < 256 -> N.lxor (N.lxor (aes_gmul 13 (aes_gmul 3 x)) (aes_gmul 9 (aes_gmul 2 x))) (N.lxor (aes_gmul 14 x) (aes_gmul 11 x)) = 0.
Proof.
  intros Hx. apply N.eqb_eq.
  apply (aes_byte_forall (fun x => N.lxor (N.lxor (aes_gmul 13 (aes_gmul 3 x)) (aes_gmul 9 (aes_gmul 2 x))) (N.lxor (aes_gmul 14 x) (aes_gmul 11 x)) =? 0)); [vm_compute; reflexivity | exact Hx].
Qed.
Lemma aes_mc_id_22 x : x < 256 -> N.lxor (N.lxor (aes_gmul 13 x) (aes_gmul 9 (aes_gmul 3 x))) (N.lxor (aes_gmul 14 (aes_gmul 2 x)) (aes_gmul 11 x)) = x.
Proof.
  intros Hx. apply N.eqb_eq.
  apply (aes_byte_forall (fun x => N.lxor (N.lxor (aes_gmul 13 x) (aes_gmul 9 (aes_gmul 3 x))) (N.lxor (aes_gmul 14 (aes_gmul 2 x)) (aes_gmul 11 x)) =? x)); [vm_compute; reflexivity | exact Hx].
Qed.
Lemma aes_mc_id_23 x : x < 256 -> N.lxor (N.lxor (aes_gmul 13 x) (aes_gmul 9 x)) (N.lxor (aes_gmul 14 (aes_gmul 3 x)) (aes_gmul 11 (aes_gmul 2 x))) = 0.
Proof.
  intros Hx. apply N.eqb_eq.
  apply (aes_byte_forall (fun x => N.lxor (N.lxor (aes_gmul 13 x) (aes_gmul 9 x)) (N.lxor (aes_gmul 14 (aes_gmul 3 x)) (aes_gmul 11 (aes_gmul 2 x))) =? 0)); [vm_compute; reflexivity | exact Hx].
Qed.
Lemma aes_mc_id_30 x : x < 256 -> N.lxor (N.lxor (aes_gmul 11 (aes_gmul 2 x)) (aes_gmul 13 x)) (N.lxor (aes_gmul 9 x) (aes_gmul 14 (aes_gmul 3 x))) = 0.
Proof.
  intros Hx. apply N.eqb_eq.
  apply (aes_byte_forall (fun x => N.lxor (N.lxor (aes_gmul 11 (aes_gmul 2 x)) (aes_gmul 13 x)) (N.lxor (aes_gmul 9 x) (aes_gmul 14 (aes_gmul 3 x))) =? 0)); [vm_compute; reflexivity | exact Hx].
Qed.
Lemma aes_mc_id_31 x : x < 256 -> N.lxor (N.lxor (aes_gmul 11 (aes_gmul 3 x)) (aes_gmul 13 (aes_gmul 2 x))) (N.lxor (aes_gmul 9 x) (aes_gmul 14 x)) = 0.
Proof.
  intros Hx. apply N.eqb_eq.
  apply (aes_byte_forall (fun x => N.lxor (N.lxor (aes_gmul 11 (aes_gmul 3 x)) (aes_gmul 13 (aes_gmul 2 x))) (N.lxor (aes_gmul 9 x) (aes_gmul 14 x)) =? 0)); [vm_compute; reflexivity | exact Hx].
Qed.
Lemma aes_mc_id_32 x : x < 256 -> N.lxor (N.lxor (aes_gmul 11 x) (aes_gmul 13 (aes_gmul 3 x))) (N.lxor (aes_gmul 9 (aes_gmul 2 x)) (aes_gmul 14 x)) = 0.
Proof.
  intros Hx. apply N.eqb_eq.
  apply (aes_byte_forall (fun x => N.lxor (N.lxor (aes_gmul 11 x) (aes_gmul 13 (aes_gmul 3 x))) (N.lxor (aes_gmul 9 (aes_gmul 2 x)) (aes_gmul 14 x)) =? 0)); [vm_compute; reflexivity | exact Hx].
Qed.
Lemma aes_mc_id_33 x : x < 256 -> N.lxor (N.lxor (aes_gmul 11 x) (aes_gmul 13 x)) (N.lxor (aes_gmul 9 (aes_gmul 3 x)) (aes_gmul 14 (aes_gmul 2 x))) = x.
Proof.
  intros Hx. apply N.eqb_eq.
  apply (aes_byte_forall (fun x => N.lxor (N.lxor (aes_gmul 11 x) (aes_gmul 13 x)) (N.lxor (aes_gmul 9 (aes_gmul 3 x)) (aes_gmul 14 (aes_gmul 2 x))) =? x)); [vm_compute; reflexivity | exact Hx].
Qed.

Lemma aes_xor_transpose (t00 t01 t02 t03 t10 t11 t12 t13 t20 t21 t22 t23 t30 t31 t32 t33 : N) :
  N.lxor (N.lxor (N.lxor (N.lxor t00 t01) (N.lxor t02 t03)) (N.lxor (N.lxor t10 t11) (N.lxor t12 t13)))
         (N.lxor (N.lxor (N.lxor t20 t21) (N.lxor t22 t23)) (N.lxor (N.lxor t30 t31) (N.lxor t32 t33)))
  = N.lxor (N.lxor (N.lxor (N.lxor t00 t10) (N.lxor t20 t30)) (N.lxor (N.lxor t01 t11) (N.lxor t21 t31)))
         (N.lxor (N.lxor (N.lxor t02 t12) (N.lxor t22 t32)) (N.lxor (N.lxor t03 t13) (N.lxor t23 t33))).
Proof. apply N.bits_inj. intros n. rewrite !N.lxor_spec. btauto. Qed.

Lemma aes_list4_eq {A} (r0 r1 r2 r3 a b c d : A) :
  r0 = a -> r1 = b -> r2 = c -> r3 = d -> [r0; r1; r2; r3] = [a; b; c; d].
Proof. intros -> -> -> ->. reflexivity. Qed.

(* one column: InvMixColumns (MixColumns col) = col *)
Lemma aes_mix_column_inv a b c d :
  a < 256 -> b < 256 -> c < 256 -> d < 256 ->
  aes_inv_mix_column
    (N.lxor (N.lxor (aes_gmul 2 a) (aes_gmul 3 b)) (N.lxor c d))
    (N.lxor (N.lxor a (aes_gmul 2 b)) (N.lxor (aes_gmul 3 c) d))
    (N.lxor (N.lxor a b) (N.lxor (aes_gmul 2 c) (aes_gmul 3 d)))
    (N.lxor (N.lxor (aes_gmul 3 a) b) (N.lxor c (aes_gmul 2 d)))
  = [a; b; c; d].
Proof.
  intros Ha Hb Hc Hd. unfold aes_inv_mix_column.
  rewrite !aes_gmul14_lin, !aes_gmul11_lin, !aes_gmul13_lin, !aes_gmul9_lin by aes_byte_tac.
  apply aes_list4_eq; rewrite aes_xor_transpose.
  - rewrite aes_mc_id_00, aes_mc_id_01, aes_mc_id_02, aes_mc_id_03 by assumption.
    rewrite !N.lxor_0_r. reflexivity.
  - rewrite aes_mc_id_10, aes_mc_id_11, aes_mc_id_12, aes_mc_id_13 by assumption.
    rewrite !N.lxor_0_r, N.lxor_0_l. reflexivity.
  - rewrite aes_mc_id_20, aes_mc_id_21, aes_mc_id_22, aes_mc_id_23 by assumption.
    rewrite !N.lxor_0_r, !N.lxor_0_l. reflexivity.
  - rewrite aes_mc_id_30, aes_mc_id_31, aes_mc_id_32, aes_mc_id_33 by assumption.
    rewrite !N.lxor_0_l. reflexivity.
Qed.

(* ---- 16-byte states *)
Local Opaque aes_gmul.

Lemma aes_len16_inv (s : list N) : length s = 16%nat -> exists s0 s1 s2 s3 s4 s5 s6 s7 s8 s9 s10 s11 s12 s13 s14 s15, s = [s0; s1; s2; s3; s4; s5; s6; s7; s8; s9; s10; s11; s12; s13; s14; s15].
Proof.
  intros Hl. do 16 (destruct s as [|? s]; [simpl in Hl; lia|]). destruct s; [|simpl in Hl; lia].
  do 16 eexists. reflexivity.
Qed.

Lemma aes_block_inv (s : list N) : aess_block s ->
  exists s0 s1 s2 s3 s4 s5 s6 s7 s8 s9 s10 s11 s12 s13 s14 s15, s = [s0; s1; s2; s3; s4; s5; s6; s7; s8; s9; s10; s11; s12; s13; s14; s15] /\ s0 < 256 /\ s1 < 256 /\ s2 < 256 /\ s3 < 256 /\ s4 < 256 /\ s5 < 256 /\ s6 < 256 /\ s7 < 256 /\ s8 < 256 /\ s9 < 256 /\ s10 < 256 /\ s11 < 256 /\ s12 < 256 /\ s13 < 256 /\ s14 < 256 /\ s15 < 256.
Proof.
  intros [Hl Hb]. destruct (aes_len16_inv s Hl) as (s0 & s1 & s2 & s3 & s4 & s5 & s6 & s7 & s8 & s9 & s10 & s11 & s12 & s13 & s14 & s15 & ->).
  exists s0, s1, s2, s3, s4, s5, s6, s7, s8, s9, s10, s11, s12, s13, s14, s15. split; [reflexivity|]. unfold aess_bytes in Hb.
  repeat match goal with H : Forall _ (_ :: _) |- _ => inversion H; subst; clear H end.
  repeat split; assumption.
Qed.

Lemma aes_block16 s0 s1 s2 s3 s4 s5 s6 s7 s8 s9 s10 s11 s12 s13 s14 s15 : s0 < 256 -> s1 < 256 -> s2 < 256 -> s3 < 256 -> s4 < 256 -> s5 < 256 -> s6 < 256 -> s7 < 256 -> s8 < 256 -> s9 < 256 -> s10 < 256 -> s11 < 256 -> s12 < 256 -> s13 < 256 -> s14 < 256 -> s15 < 256 -> aess_block [s0; s1; s2; s3; s4; s5; s6; s7; s8; s9; s10; s11; s12; s13; s14; s15].
Proof. intros. split; [reflexivity | unfold aess_bytes; repeat constructor; assumption]. Qed.

Ltac aes_open_block H :=
  let B := fresh "B" in
  destruct (aes_block_inv _ H) as (s0 & s1 & s2 & s3 & s4 & s5 & s6 & s7 & s8 & s9 & s10 & s11 & s12 & s13 & s14 & s15 & -> & B); decompose [and] B; clear B.

Lemma aes_shift_rows_inv s : length s = 16%nat -> aes_inv_shift_rows (aes_shift_rows s) = s.
Proof. intros Hl. destruct (aes_len16_inv s Hl) as (s0 & s1 & s2 & s3 & s4 & s5 & s6 & s7 & s8 & s9 & s10 & s11 & s12 & s13 & s14 & s15 & ->). reflexivity. Qed.

Lemma aes_shift_rows_block s : aess_block s -> aess_block (aes_shift_rows s).
Proof. intros H. aes_open_block H. apply aes_block16; assumption. Qed.

Lemma aes_inv_shift_rows_block s : aess_block s -> aess_block (aes_inv_shift_rows s).
Proof. intros H. aes_open_block H. apply aes_block16; assumption. Qed.

Lemma aes_sub_bytes_inv s : aess_bytes s -> aes_inv_sub_bytes (aes_sub_bytes s) = s.
Proof.
  unfold aess_bytes, aes_inv_sub_bytes, aes_sub_bytes. intros H.
  induction H as [|x l Hx Hl IH]; [reflexivity|]. cbn [map]. rewrite aes_isub_sub by exact Hx. rewrite IH. reflexivity.
Qed.

Lemma aes_sub_bytes_block s : aess_block s -> aess_block (aes_sub_bytes s).
Proof.
  intros [Hl Hb]. split; [unfold aes_sub_bytes; rewrite map_length; exact Hl|].
  clear Hl. unfold aess_bytes, aes_sub_bytes in *. induction Hb as [|x l Hx Hb IH]; cbn [map]; constructor.
  - apply aes_sub_byte, Hx.
  - exact IH.
Qed.

Lemma aes_inv_sub_bytes_block s : aess_block s -> aess_block (aes_inv_sub_bytes s).
Proof.
  intros [Hl Hb]. split; [unfold aes_inv_sub_bytes; rewrite map_length; exact Hl|].
  clear Hl. unfold aess_bytes, aes_inv_sub_bytes in *. induction Hb as [|x l Hx Hb IH]; cbn [map]; constructor.
  - apply aes_isub_byte, Hx.
  - exact IH.
Qed.

Lemma aes_mix_columns_inv s : aess_block s -> aes_inv_mix_columns (aes_mix_columns s) = s.
Proof.
  intros H. aes_open_block H.
  cbv beta iota delta [aes_mix_columns aes_mix_column app aes_inv_mix_columns].
  rewrite !aes_mix_column_inv by assumption. reflexivity.
Qed.

Lemma aes_mix_columns_block s : aess_block s -> aess_block (aes_mix_columns s).
Proof.
  intros H. aes_open_block H.
  cbv beta iota delta [aes_mix_columns aes_mix_column app].
  apply aes_block16; aes_byte_tac.
Qed.

Lemma aes_inv_mix_columns_block s : aess_block s -> aess_block (aes_inv_mix_columns s).
Proof.
  intros H. aes_open_block H.
  cbv beta iota delta [aes_inv_mix_columns aes_inv_mix_column app].
  apply aes_block16; aes_byte_tac.
Qed.

(* ---- rounds *)
Lemma aes_round_block rk s : aess_block rk -> aess_block s -> aess_block (aes_round rk s).
Proof.
  intros Hk Hs. unfold aes_round.
  apply aes_xor_block; [|exact Hk]. apply aes_mix_columns_block, aes_shift_rows_block, aes_sub_bytes_block, Hs.
Qed.

Lemma aes_xor_block_cancel s rk : aess_block s -> aess_block rk -> aes_xor_bytes (aes_xor_bytes s rk) rk = s.
Proof. intros [Hs _] [Hk _]. apply aes_xor_bytes_cancel. lia. Qed.

(* InvShiftRows; InvSubBytes; AddRoundKey; InvMixColumns undoes SubBytes; ShiftRows; MixColumns; AddRoundKey
   up to the following SubBytes; ShiftRows *)
Lemma aes_inv_round_step rk s :
  aess_block rk -> aess_block s ->
  aes_inv_round rk (aes_shift_rows (aes_sub_bytes (aes_round rk s))) = aes_shift_rows (aes_sub_bytes s).
Proof.
  intros Hk Hs. pose proof (aes_round_block rk s Hk Hs) as Hr. unfold aes_inv_round.
  rewrite aes_shift_rows_inv by (apply aes_sub_bytes_block, Hr).
  rewrite aes_sub_bytes_inv by (apply Hr).
  unfold aes_round.
  assert (Hm : aess_block (aes_mix_columns (aes_shift_rows (aes_sub_bytes s))))
    by (apply aes_mix_columns_block, aes_shift_rows_block, aes_sub_bytes_block, Hs).
  rewrite aes_xor_block_cancel by assumption.
  apply aes_mix_columns_inv, aes_shift_rows_block, aes_sub_bytes_block, Hs.
Qed.

Lemma aes_enc_rounds_block mid s :
  Forall aess_block mid -> aess_block s -> aess_block (aes_enc_rounds mid s).
Proof.
  intros Hm. revert s. induction Hm as [|rk m Hk Hm IH]; intros s Hs; cbn [aes_enc_rounds]; [exact Hs|].
  apply IH, aes_round_block; assumption.
Qed.

Lemma aes_dec_enc_rounds mid s :
  Forall aess_block mid -> aess_block s ->
  aes_dec_rounds mid (aes_shift_rows (aes_sub_bytes (aes_enc_rounds mid s))) =
  aes_shift_rows (aes_sub_bytes s).
Proof.
  intros Hm. revert s. induction Hm as [|rk m Hk Hm IH]; intros s Hs; cbn [aes_enc_rounds aes_dec_rounds]; [reflexivity|].
  rewrite IH by (apply aes_round_block; assumption).
  apply aes_inv_round_step; assumption.
Qed.

Lemma aes_cipher3_block rk0 mid rkl b :
  aess_block rk0 -> Forall aess_block mid -> aess_block rkl -> aess_block b ->
  aess_block (aes_cipher3 rk0 mid rkl b).
Proof.
  intros H0 Hm Hl Hb. unfold aes_cipher3, aes_final_round.
  apply aes_xor_block; [|exact Hl].
  apply aes_shift_rows_block, aes_sub_bytes_block, aes_enc_rounds_block; [exact Hm|].
  apply aes_xor_block; assumption.
Qed.

Lemma aes_inv_cipher3_cipher3 rk0 mid rkl b :
  aess_block rk0 -> Forall aess_block mid -> aess_block rkl -> aess_block b ->
  aes_inv_cipher3 rk0 mid rkl (aes_cipher3 rk0 mid rkl b) = b.
Proof.
  intros H0 Hm Hl Hb. unfold aes_inv_cipher3, aes_cipher3, aes_final_round.
  assert (Hs0 : aess_block (aes_xor_bytes b rk0)) by (apply aes_xor_block; assumption).
  pose proof (aes_enc_rounds_block mid _ Hm Hs0) as He.
  rewrite aes_xor_block_cancel; [|apply aes_shift_rows_block, aes_sub_bytes_block, He | exact Hl].
  rewrite aes_dec_enc_rounds by assumption.
  rewrite aes_shift_rows_inv by (apply aes_sub_bytes_block, Hs0).
  rewrite aes_sub_bytes_inv by (apply Hs0).
  apply aes_xor_block_cancel; assumption.
Qed.

(* ---- key schedule: every round key of a 16/24/32-byte key is a 16-byte block *)
Definition aes_word_ok (w : list N) : Prop := length w = 4%nat /\ aess_bytes w.

Lemma aes_nth_ok {A} (P : A -> Prop) (l : list A) d n : Forall P l -> P d -> P (nth n l d).
Proof. intros Hl Hd. revert n. induction Hl; intros [|n]; simpl; auto. Qed.

Lemma aes_map_sub_bytes l : aess_bytes l -> aess_bytes (map aes_sub l).
Proof.
  unfold aess_bytes. intros H. induction H as [|x l Hx Hl IH]; cbn [map]; constructor; [apply aes_sub_byte, Hx | exact IH].
Qed.

Lemma aes_xor_word a b : aes_word_ok a -> aes_word_ok b -> aes_word_ok (aes_xor_bytes a b).
Proof.
  intros [La Ba] [Lb Bb]. split; [rewrite aes_xor_bytes_length, La, Lb; reflexivity | apply aes_xor_bytes_bytes; assumption].
Qed.

Lemma aes_sub_word_ok w : aes_word_ok w -> aes_word_ok (aes_sub_word w).
Proof.
  intros [L B]. split; [unfold aes_sub_word; rewrite map_length; exact L | apply aes_map_sub_bytes, B].
Qed.

Lemma aes_rot_word_ok w : aes_word_ok w -> aes_word_ok (aes_rot_word w).
Proof.
  intros [L B]. do 4 (destruct w as [|? w]; [simpl in L; lia|]). destruct w; [|simpl in L; lia].
  unfold aess_bytes in B.
  repeat match goal with H : Forall _ (_ :: _) |- _ => inversion H; subst; clear H end.
  split; [reflexivity | unfold aess_bytes; repeat constructor; assumption].
Qed.

Lemma aes_rcon_word_ok rc : rc < 256 -> aes_word_ok [rc; 0; 0; 0].
Proof. intros H. split; [reflexivity | unfold aess_bytes; repeat constructor; assumption]. Qed.

Lemma aes_zero_word_ok : aes_word_ok aes_zero_word.
Proof. split; [reflexivity | unfold aess_bytes, aes_zero_word; repeat constructor]. Qed.

Lemma aes_expand_ok n nk i rc rw :
  rc < 256 -> Forall aes_word_ok rw -> Forall aes_word_ok (aes_expand n nk i rc rw).
Proof.
  revert i rc rw. induction n as [|n IH]; intros i rc rw Hrc Hrw; cbn [aes_expand]; [exact Hrw|].
  pose proof (aes_nth_ok _ rw aes_zero_word 0 Hrw aes_zero_word_ok) as Hprev.
  pose proof (aes_nth_ok _ rw aes_zero_word (nk - 1) Hrw aes_zero_word_ok) as Hback.
  destruct (i mod nk =? 0)%nat.
  - apply IH; [apply aes_xtime_byte, Hrc|]. constructor; [|exact Hrw].
    apply aes_xor_word; [exact Hback|]. apply aes_xor_word; [|apply aes_rcon_word_ok, Hrc].
    apply aes_sub_word_ok, aes_rot_word_ok, Hprev.
  - destruct ((6 <? nk)%nat && (i mod nk =? 4)%nat).
    + apply IH; [exact Hrc|]. constructor; [|exact Hrw].
      apply aes_xor_word; [exact Hback | apply aes_sub_word_ok, Hprev].
    + apply IH; [exact Hrc|]. constructor; [|exact Hrw]. apply aes_xor_word; assumption.
Qed.

Lemma aes_expand_length n nk i rc rw : length (aes_expand n nk i rc rw) = (n + length rw)%nat.
Proof.
  revert i rc rw. induction n as [|n IH]; intros i rc rw; cbn [aes_expand]; [reflexivity|].
  destruct (i mod nk =? 0)%nat; [|destruct ((6 <? nk)%nat && (i mod nk =? 4)%nat)];
    rewrite IH; cbn [length]; lia.
Qed.

Lemma aes_words_ok nk key :
  length key = (4 * nk)%nat -> aess_bytes key ->
  Forall aes_word_ok (aes_words nk key) /\ length (aes_words nk key) = nk.
Proof.
  revert key. induction nk as [|nk IH]; intros key Hl Hb; cbn [aes_words]; [split; [constructor | reflexivity]|].
  destruct (IH (skipn 4 key)) as [I1 I2]; [rewrite skipn_length; lia | apply aes_bytes_skipn, Hb|].
  split; [|cbn [length]; rewrite I2; reflexivity].
  constructor; [|exact I1]. split; [rewrite firstn_length; lia | apply aes_bytes_firstn, Hb].
Qed.

Lemma aes_concat_words ws :
  Forall aes_word_ok ws -> aess_bytes (concat ws) /\ length (concat ws) = (4 * length ws)%nat.
Proof.
  intros H. induction H as [|w ws [Lw Bw] Hws [I1 I2]]; cbn [concat]; [split; [constructor | reflexivity]|].
  split; [apply aes_bytes_app; split; assumption | rewrite app_length, Lw, I2; cbn [length]; lia].
Qed.

Lemma aes_blocks_ok m l :
  length l = (16 * m)%nat -> aess_bytes l ->
  Forall aess_block (aes_blocks m l) /\ length (aes_blocks m l) = m.
Proof.
  revert l. induction m as [|m IH]; intros l Hl Hb; cbn [aes_blocks]; [split; [constructor | reflexivity]|].
  destruct (IH (skipn 16 l)) as [I1 I2]; [rewrite skipn_length; lia | apply aes_bytes_skipn, Hb|].
  split; [|cbn [length]; rewrite I2; reflexivity].
  constructor; [|exact I1]. split; [rewrite firstn_length; lia | apply aes_bytes_firstn, Hb].
Qed.

Lemma aes_valid_key_len_inv n : aes_valid_key_len n = true -> n = 16%nat \/ n = 24%nat \/ n = 32%nat.
Proof.
  unfold aes_valid_key_len. intros H. apply orb_true_iff in H. destruct H as [H | H].
  - apply orb_true_iff in H. destruct H as [H | H]; apply Nat.eqb_eq in H; auto.
  - apply Nat.eqb_eq in H; auto.
Qed.

Lemma aes_key_schedule_ok key :
  aes_valid_key_len (length key) = true -> aess_bytes key ->
  Forall aess_block (aes_key_schedule key) /\
  length (aes_key_schedule key) = (length key / 4 + 7)%nat.
Proof.
  intros Hv Hb. apply aes_valid_key_len_inv in Hv.
  set (nk := (length key / 4)%nat).
  assert (Hnk : length key = (4 * nk)%nat /\ (1 <= nk)%nat) by (unfold nk; lia).
  destruct Hnk as [Hl Hpos]. unfold aes_key_schedule. fold nk.
  destruct (aes_words_ok nk key Hl Hb) as [W1 W2].
  set (n := (4 * (nk + 6 + 1) - nk)%nat).
  set (ws := rev (aes_expand n nk nk 1 (rev (aes_words nk key)))).
  assert (Hws : Forall aes_word_ok ws).
  { unfold ws. apply Forall_rev, aes_expand_ok; [reflexivity | apply Forall_rev, W1]. }
  assert (Hwl : length ws = (4 * (nk + 6 + 1))%nat).
  { unfold ws. rewrite rev_length, aes_expand_length, rev_length, W2. unfold n. lia. }
  destruct (aes_concat_words ws Hws) as [C1 C2].
  destruct (aes_blocks_ok (nk + 6 + 1) (concat ws)) as [B1 B2]; [rewrite C2, Hwl; lia | exact C1|].
  split; [exact B1 | rewrite B2; lia].
Qed.

(* ---- aes_inv_cipher inverts aes_cipher for the round keys of every legal key *)
Lemma aes_round_keys_split (rks : list (list N)) :
  Forall aess_block rks -> (2 <= length rks)%nat ->
  exists rk0 rest, rks = rk0 :: rest /\ aess_block rk0 /\
                   Forall aess_block (removelast rest) /\ aess_block (last rest []).
Proof.
  intros H Hl. destruct rks as [|rk0 rest]; [simpl in Hl; lia|].
  inversion H as [|? ? H0 Hr]; subst. exists rk0, rest. split; [reflexivity|]. split; [exact H0|].
  assert (Hne : rest <> []) by (destruct rest; [simpl in Hl; lia | discriminate]).
  rewrite (app_removelast_last [] Hne) in Hr. apply Forall_app in Hr. destruct Hr as [Hm Hlast].
  split; [exact Hm|]. inversion Hlast; assumption.
Qed.

Lemma aes_cipher_block key b :
  aes_valid_key_len (length key) = true -> aess_bytes key -> aess_block b ->
  aess_block (aes_cipher (aes_key_schedule key) b).
Proof.
  intros Hv Hk Hb. destruct (aes_key_schedule_ok key Hv Hk) as [K1 K2].
  destruct (aes_round_keys_split _ K1 ltac:(lia)) as (rk0 & rest & -> & H0 & Hm & Hl).
  cbn [aes_cipher]. apply aes_cipher3_block; assumption.
Qed.

Lemma aes_inv_cipher_cipher key b :
  aes_valid_key_len (length key) = true -> aess_bytes key -> aess_block b ->
  aes_inv_cipher (aes_key_schedule key) (aes_cipher (aes_key_schedule key) b) = b.
Proof.
  intros Hv Hk Hb. destruct (aes_key_schedule_ok key Hv Hk) as [K1 K2].
  destruct (aes_round_keys_split _ K1 ltac:(lia)) as (rk0 & rest & -> & H0 & Hm & Hl).
  cbn [aes_cipher aes_inv_cipher]. apply aes_inv_cipher3_cipher3; assumption.
Qed.

Lemma aes_block_roundtrip key b :
  aes_valid_key_len (length key) = true -> aess_bytes key -> aess_block b ->
  aes_decrypt_block key (aes_encrypt_block key b) = b /\ aess_block (aes_encrypt_block key b).
Proof.
  intros Hv Hk Hb. unfold aes_decrypt_block, aes_encrypt_block.
  split; [apply aes_inv_cipher_cipher | apply aes_cipher_block]; assumption.
Qed.

(* ---- the S-box tables are the FIPS-197 5.1.1 formula (so the tables are not trusted) *)
Lemma aes_ginv_spec x : x < 256 -> (x <> 0 -> aes_gmul x (aess_ginv x) = 1) /\ aess_ginv 0 = 0.
Proof.
  intros Hx. split; [|vm_compute; reflexivity].
  intros Hn.
  assert (H : ((x =? 0) || (aes_gmul x (aess_ginv x) =? 1)) = true).
  { apply (aes_byte_forall (fun x => (x =? 0) || (aes_gmul x (aess_ginv x) =? 1))); [vm_compute; reflexivity | exact Hx]. }
  apply orb_true_iff in H. destruct H as [H | H]; [apply N.eqb_eq in H; contradiction | apply N.eqb_eq, H].
Qed.

Lemma aes_sbox_is_fips_formula x i :
  x < 256 -> i < 8 -> N.testbit (aes_sub x) i = aess_affine_bit (aess_ginv x) i.
Proof.
  intros Hx Hi.
  assert (H : forallb (fun i => Bool.eqb (N.testbit (aes_sub x) i) (aess_affine_bit (aess_ginv x) i))
                      [0; 1; 2; 3; 4; 5; 6; 7] = true).
  { apply (aes_byte_forall (fun x => forallb (fun i => Bool.eqb (N.testbit (aes_sub x) i) (aess_affine_bit (aess_ginv x) i))
                                             [0; 1; 2; 3; 4; 5; 6; 7])); [vm_compute; reflexivity | exact Hx]. }
  rewrite forallb_forall in H. apply Bool.eqb_prop, H.
  assert (Hc : i = 0 \/ i = 1 \/ i = 2 \/ i = 3 \/ i = 4 \/ i = 5 \/ i = 6 \/ i = 7) by lia.
  repeat (destruct Hc as [-> | Hc]; [simpl; tauto|]). subst i. simpl; tauto.
Qed.
