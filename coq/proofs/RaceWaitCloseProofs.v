(* RaceWaitCloseProofs.v -- the labelled runs of the loom.WaitClose MODEL
   (models/RaceWaitClose.v over models/WaitClose.v) have no happens-before race, for every
   number of threads, all programs and all schedules (timer events included):
     rw_race_free : ~ hb_race (rw_trace (wc_init progs) sched)
   Method: the monitor of lib/Race.v is run along the labelled run; invariant [rw_inv].
   Monitor part (rw_minv o b m; o = owner of the mutex, b = "wc.state is New"):
     - lock discipline for the WRITES of both cells and for the READS of the state cell:
       the last write / the last read of each thread is carried by the mutex or was made by
       the current owner; the owner has acquired everything the mutex carries;
     - while the state is New nobody has read closeChan;
     - once the state is not New, the atomic object wc.state carries the (only) write of
       closeChan (the store of the state released it).
   Thread part: the mutex is owned exactly by the thread parked inside a critical section;
   a thread parked after checkInitSlow's Unlock knows the write of closeChan. *)
From Got Require Import Base ListAux Race RaceProofs RaceHB RaceHBProofs RaceMonLemmas.
From Got Require Import WaitClose RaceWaitClose.
Local Open Scope nat_scope.

Section RW.
Variable N : nat.

Record rw_minv (o : option nat) (b : bool) (m : rc_mon) : Prop := {
  wm_nr : rc_raced m = false;
  wm_w : forall x, rm_P m rw_mutex x \/ o = Some (rc_Wt m x);
  wm_r : forall u, rc_R m rw_xstate u <= rc_L m rw_mutex u \/ o = Some u;
  wm_wc : forall x, rm_K m (rc_Wt m x) x;
  wm_rc : forall x u, rc_R m x u <= rc_C m u u;
  wm_own : forall t, o = Some t -> forall u, rc_L m rw_mutex u <= rc_C m t u;
  wm_new : b = true -> forall u, rc_R m rw_xchan u = 0;
  wm_pub : b = false -> rm_P m rw_state rw_xchan
}.

Lemma rw_minv_init : rw_minv None true rc_init.
Proof.
  constructor; try reflexivity; try discriminate.
  - intros x. left. unfold rm_P. cbn. lia.
  - intros u. left. cbn. lia.
  - intros x. unfold rm_K. cbn. lia.
  - intros x u. cbn. lia.
Qed.

(* the owner knows the last write of every cell *)
Lemma rw_owner_knows t b m x : rw_minv (Some t) b m -> rm_K m t x.
Proof.
  intros [_ Hw _ Hwc _ Hown _ _]. unfold rm_K, rm_P in *.
  destruct (Hw x) as [H|H].
  - specialize (Hown t eq_refl (rc_Wt m x)). lia.
  - inversion H as [Ht]. specialize (Hwc x). rewrite <- Ht in Hwc |- *. exact Hwc.
Qed.

(* an acquire by anybody *)
Lemma rw_m_acq o b m t o' : rw_minv o b m -> rw_minv o b (rc_step N m t (RAcq o')).
Proof.
  intros [A1 A2 A3 A4 A5 A6 A7 A8].
  assert (X : rm_ext (fun _ => True) m (rc_step N m t (RAcq o'))) by (apply rm_ext_sync; exact I).
  assert (HL : forall o2 u, rc_L (rc_step N m t (RAcq o')) o2 u = rc_L m o2 u)
    by (intros; rewrite rc_step_L; reflexivity).
  constructor.
  - rewrite rm_sync_raced by exact I. exact A1.
  - intros x. rewrite rm_sync_Wt by exact I. destruct (A2 x) as [H|H]; [left|right; exact H].
    apply (rm_P_ext _ _ _ _ _ X); [exact I|exact H].
  - intros u. rewrite rm_sync_R by exact I. rewrite HL. apply A3.
  - intros x. rewrite rm_sync_Wt by exact I. apply (rm_K_ext _ _ _ _ _ X); [exact I|apply A4].
  - intros x u. rewrite rm_sync_R by exact I. etransitivity; [apply A5|apply rm_C_mono].
  - intros t' Ht u. rewrite HL. etransitivity; [apply (A6 t' Ht)|apply rm_C_mono].
  - intros Hb u. rewrite rm_sync_R by exact I. apply A7. exact Hb.
  - intros Hb. apply (rm_P_ext _ _ _ _ _ X); [exact I|apply A8; exact Hb].
Qed.

(* Lock *)
Lemma rw_m_lock b m t : rw_minv None b m -> rw_minv (Some t) b (rc_step N m t (RAcq rw_mutex)).
Proof.
  intros H. pose proof (rw_m_acq _ _ _ t rw_mutex H) as [A1 A2 A3 A4 A5 A6 A7 A8].
  constructor; try assumption.
  - intros x. destruct (A2 x) as [Hx|Hx]; [left; exact Hx|discriminate].
  - intros u. destruct (A3 u) as [Hx|Hx]; [left; exact Hx|discriminate].
  - intros t' Ht u. inversion Ht; subst t'.
    rewrite rc_step_L. apply (rm_acq_C N m t (RAcq rw_mutex) rw_mutex u). reflexivity.
Qed.

(* the release half of the atomic store of wc.state, by the owner *)
Lemma rw_m_rel_state b m t :
  rw_minv (Some t) b m -> rw_minv (Some t) false (rc_step N m t (RRel rw_state)).
Proof.
  intros H. pose proof (rw_owner_knows _ _ _ rw_xchan H) as Hk.
  destruct H as [A1 A2 A3 A4 A5 A6 A7 A8].
  assert (X : rm_ext (fun _ => True) m (rc_step N m t (RRel rw_state))) by (apply rm_ext_sync; exact I).
  assert (HL : forall u, rc_L (rc_step N m t (RRel rw_state)) rw_mutex u = rc_L m rw_mutex u)
    by (intros; rewrite rc_step_L; reflexivity).
  constructor.
  - rewrite rm_sync_raced by exact I. exact A1.
  - intros x. rewrite rm_sync_Wt by exact I. destruct (A2 x) as [Hx|Hx]; [left|right; exact Hx].
    apply (rm_P_ext _ _ _ _ _ X); [exact I|exact Hx].
  - intros u. rewrite rm_sync_R by exact I. rewrite HL. apply A3.
  - intros x. rewrite rm_sync_Wt by exact I. apply (rm_K_ext _ _ _ _ _ X); [exact I|apply A4].
  - intros x u. rewrite rm_sync_R by exact I. etransitivity; [apply A5|apply rm_C_mono].
  - intros t' Ht u. rewrite HL. etransitivity; [apply (A6 t' Ht)|apply rm_C_mono].
  - discriminate.
  - intros _. apply rm_rel_P; [reflexivity|exact Hk].
Qed.

(* Unlock by the owner *)
Lemma rw_m_unlock b m t :
  rw_minv (Some t) b m -> rw_minv None b (rc_step N m t (RRel rw_mutex)).
Proof.
  intros H. pose proof (fun x => rw_owner_knows _ _ _ x H) as Hk.
  destruct H as [A1 A2 A3 A4 A5 A6 A7 A8].
  assert (X : rm_ext (fun _ => True) m (rc_step N m t (RRel rw_mutex))) by (apply rm_ext_sync; exact I).
  constructor.
  - rewrite rm_sync_raced by exact I. exact A1.
  - intros x. left. apply rm_rel_P; [reflexivity|apply Hk].
  - intros u. left. rewrite rm_sync_R by exact I. destruct (A3 u) as [Hu|Hu].
    + etransitivity; [exact Hu|apply rm_L_mono].
    + inversion Hu; subst u. etransitivity; [apply A5|].
      apply (rm_rel_L N m t (RRel rw_mutex) rw_mutex t). reflexivity.
  - intros x. rewrite rm_sync_Wt by exact I. apply (rm_K_ext _ _ _ _ _ X); [exact I|apply A4].
  - intros x u. rewrite rm_sync_R by exact I. etransitivity; [apply A5|apply rm_C_mono].
  - discriminate.
  - intros Hb u. rewrite rm_sync_R by exact I. apply A7. exact Hb.
  - intros Hb. apply (rm_P_ext _ _ _ _ _ X); [exact I|apply A8; exact Hb].
Qed.

(* a plain read by a thread that knows the last write; [x] is not closeChan while New *)
Lemma rw_m_read o b m t x :
  rw_minv o b m -> rm_K m t x ->
  (x = rw_xstate -> o = Some t) -> (x = rw_xchan -> b = false) ->
  rw_minv o b (rc_step N m t (RRead x)).
Proof.
  intros [A1 A2 A3 A4 A5 A6 A7 A8] Hk Hst Hch.
  assert (X : rm_ext (fun _ => True) m (rc_step N m t (RRead x))) by apply rm_ext_read.
  assert (HL : forall o2 u, rc_L (rc_step N m t (RRead x)) o2 u = rc_L m o2 u)
    by (intros; apply rm_access_L; intros []).
  assert (HC : forall t2 u, rc_C (rc_step N m t (RRead x)) t2 u = rc_C m t2 u)
    by (intros; apply rm_access_C; intros []).
  constructor.
  - apply rm_read_ok; assumption.
  - intros y. rewrite rm_read_Wt. destruct (A2 y) as [Hy|Hy]; [left|right; exact Hy].
    apply (rm_P_ext _ _ _ _ _ X); [exact I|exact Hy].
  - intros u. rewrite rm_step_R, HL.
    destruct (Nat.eqb_spec rw_xstate x) as [Hx|Hx]; [|apply A3].
    destruct (Nat.eqb_spec u t) as [->|Hu]; [right; apply Hst; congruence|apply A3].
  - intros y. rewrite rm_read_Wt. apply (rm_K_ext _ _ _ _ _ X); [exact I|apply A4].
  - intros y u. rewrite rm_step_R, HC.
    destruct (Nat.eqb_spec y x) as [Hx|Hx]; [|apply A5].
    destruct (Nat.eqb_spec u t) as [->|Hu]; [lia|apply A5].
  - intros t' Ht u. rewrite HL, HC. apply (A6 t' Ht).
  - intros Hb u. rewrite rm_step_R.
    destruct (Nat.eqb_spec rw_xchan x) as [Hx|Hx]; [|apply A7; exact Hb].
    symmetry in Hx. specialize (Hch Hx). congruence.
  - intros Hb. apply (rm_P_ext _ _ _ _ _ X); [exact I|apply A8; exact Hb].
Qed.

(* a write by the owner; closeChan is written only while New *)
Lemma rw_m_write b m t x :
  rw_minv (Some t) b m ->
  (x = rw_xstate \/ (x = rw_xchan /\ b = true)) ->
  rw_minv (Some t) b (rc_step N m t (RWrite x)).
Proof.
  intros H Hx. pose proof (rw_owner_knows _ _ _ x H) as Hk.
  destruct H as [A1 A2 A3 A4 A5 A6 A7 A8].
  assert (HL : forall o2 u, rc_L (rc_step N m t (RWrite x)) o2 u = rc_L m o2 u)
    by (intros; apply rm_access_L; intros []).
  assert (HC : forall t2 u, rc_C (rc_step N m t (RWrite x)) t2 u = rc_C m t2 u)
    by (intros; apply rm_access_C; intros []).
  assert (X : rm_ext (fun y => y <> x) m (rc_step N m t (RWrite x))) by (apply rm_ext_write; tauto).
  constructor.
  - apply rm_write_ok; [exact A1|exact Hk|]. intros u.
    destruct Hx as [->|[-> Hb]].
    + destruct (A3 u) as [Hu|Hu].
      * etransitivity; [exact Hu|apply (A6 t eq_refl)].
      * inversion Hu; subst u. apply A5.
    + rewrite (A7 Hb u). lia.
  - intros y. rewrite rm_step_Wt. destruct (Nat.eqb_spec y x) as [->|Hy]; [right; reflexivity|].
    destruct (A2 y) as [H|H]; [left|right; exact H].
    apply (rm_P_ext _ _ _ _ _ X); [exact Hy|exact H].
  - intros u. rewrite rm_step_R, HL. apply A3.
  - intros y. destruct (Nat.eq_dec y x) as [->|Hy].
    + rewrite rm_step_Wt, Nat.eqb_refl. apply rm_write_K.
    + pose proof (rm_K_ext _ _ _ (rc_Wt m y) y X Hy (A4 y)) as H.
      rewrite rm_step_Wt. destruct (Nat.eqb_spec y x); [contradiction|exact H].
  - intros y u. rewrite rm_step_R, HC. apply A5.
  - intros t' Ht u. rewrite HL, HC. apply (A6 t' Ht).
  - intros Hb u. rewrite rm_step_R. apply A7. exact Hb.
  - intros Hb. destruct Hx as [->|[-> Hb']]; [|congruence].
    apply (rm_P_ext _ _ _ _ _ X); [discriminate|apply A8; exact Hb].
Qed.

(* the deferred store and unlock *)
Lemma rw_m_store_unlock b m t :
  rw_minv (Some t) b m -> rw_minv None false (rm_msteps N m t rw_store_unlock).
Proof.
  intros H. unfold rw_store_unlock. cbn [rm_msteps fold_left].
  apply rw_m_unlock. apply (rw_m_rel_state b). apply rw_m_write; [exact H|left; reflexivity].
Qed.

(* ------------------------------------------------------------------ the model invariant *)
Definition rw_tinv (g : wc_shared) (m : rc_mon) (j : nat) (pc : wc_pc) : Prop :=
  (sh_own g = Some j <-> wc_hold pc = true) /\
  match pc with
  | WC4 _ => sh_st g <> WNew /\ rm_K m j rw_xchan
  | _ => True
  end.

Record rw_inv (s : wc_state) (m : rc_mon) : Prop := {
  wi_m : rw_minv (sh_own (wc_sh s)) (wc_is_new_st (sh_st (wc_sh s))) m;
  wi_th : forall j th, nth_error (wc_threads s) j = Some th -> rw_tinv (wc_sh s) m j (wc_pcof th)
}.

Definition rw_kch : nat -> Prop := fun x => x = rw_xchan.

Lemma rw_inv_intro s m i th g' pc' todo' m' :
  rw_inv s m -> nth_error (wc_threads s) i = Some th ->
  (sh_own g' = sh_own (wc_sh s) \/ (sh_own (wc_sh s) = None /\ sh_own g' = Some i) \/
   (sh_own (wc_sh s) = Some i /\ sh_own g' = None)) ->
  (sh_st (wc_sh s) <> WNew -> sh_st g' <> WNew /\ rm_ext rw_kch m m') ->
  rw_minv (sh_own g') (wc_is_new_st (sh_st g')) m' ->
  rw_tinv g' m' i pc' ->
  rw_inv {| wc_sh := g';
            wc_threads := wc_set_thread (wc_threads s) i {| wc_pcof := pc'; wc_todo := todo' |} |} m'.
Proof.
  intros [Im Ith] E Hown Hst Hm Hme. constructor; cbn [wc_sh wc_threads]; [exact Hm|].
  intros j thj Hj. unfold wc_set_thread in Hj.
  destruct (Nat.eq_dec i j) as [<-|Hne].
  - rewrite (la_nth_error_set_same _ _ _ _ E) in Hj. inversion Hj; subst thj. exact Hme.
  - rewrite (la_nth_error_set_other' _ _ _ _ _ Hne E) in Hj.
    destruct (Ith j thj Hj) as [T1 T2].
    pose proof (Ith i th E) as [Ti _].
    split.
    + rewrite <- T1. destruct Hown as [->|[[E1 E2]|[E1 E2]]]; [tauto| |].
      * rewrite E1, E2. split; intros H; [inversion H; congruence|discriminate].
      * rewrite E1, E2. split; intros H; [discriminate|inversion H; congruence].
    + destruct (wc_pcof thj); try exact I. destruct T2 as [T2 T3].
      destruct (Hst T2) as [H1 H2]. split; [exact H1|].
      apply (rm_K_ext _ _ _ _ _ H2); [reflexivity|exact T3].
Qed.

Ltac rw_ext :=
  lazymatch goal with
  | |- rm_ext _ ?m ?m => apply rm_ext_refl
  | |- rm_ext ?k ?m (rc_step ?n ?x ?t ?e) =>
      apply (rm_ext_trans k m x);
      [rw_ext
      |first [apply rm_ext_sync; exact I | apply rm_ext_read
             | apply rm_ext_write; unfold rw_kch, rw_xstate, rw_xchan; discriminate]]
  | |- rm_ext _ _ ?x => is_var x; unfold x; rw_ext
  end.

Lemma rw_step_inv s m it :
  rw_inv s m ->
  rw_inv (fst (wc_step s it)) (rm_msteps N m (wc_item_tid it) (rw_step s it)).
Proof.
  intros Inv. unfold wc_step, rw_step.
  set (i := wc_item_tid it).
  destruct (nth_error (wc_threads s) i) as [th|] eqn:E; [|exact Inv].
  destruct (wi_th _ _ Inv i th E) as [Tho Tpc].
  pose proof (wi_m _ _ Inv) as Im.
  destruct s as [g ths]. cbn [wc_sh wc_threads] in *.
  destruct (wc_step_pc g i (match it with ITimeout _ => true | IRun _ => false end)
              (wc_pcof th) (wc_todo th)) as [[[g' pc'] todo'] acts] eqn:Hs.
  cbn [fst].
  set (tmo := match it with ITimeout _ => true | IRun _ => false end) in *.
  assert (Hnoev : forall pc2 todo2,
            rw_tinv g m i pc2 ->
            rw_inv {| wc_sh := g; wc_threads := wc_set_thread ths i {| wc_pcof := pc2; wc_todo := todo2 |} |} m).
  { intros pc2 todo2 Hpc2.
    apply (rw_inv_intro {| wc_sh := g; wc_threads := ths |} m i th g pc2 todo2 m Inv E).
    - left. reflexivity.
    - intros H. split; [exact H|apply rm_ext_refl].
    - exact Im.
    - exact Hpc2. }
  destruct tmo.
  { (* timer event *)
    unfold wc_step_pc in Hs. cbn [rw_step_pc rm_msteps fold_left].
    destruct (wc_pcof th) eqn:Epc; inversion Hs; subst; clear Hs; apply Hnoev;
      (split; [exact Tho|try exact I; try exact Tpc]). }
  unfold wc_step_pc in Hs.
  destruct g as [st ch nm clo own]. cbn [sh_st sh_ch sh_nmade sh_clo sh_own] in *.
  destruct (wc_pcof th) as [|cb|cb|cb|o|r|w|w|w|w| |c] eqn:Epc;
    cbn [rw_step_pc wc_hold sh_st sh_ch sh_nmade sh_clo sh_own] in *.
  - (* WIdle *)
    destruct (wc_todo th) as [|[cb| | |] rest]; inversion Hs; subst; clear Hs;
      cbn [rm_msteps fold_left]; apply Hnoev; (split; [exact Tho|exact I]).
  - (* WK1: atomic load *)
    cbn [rm_msteps fold_left].
    assert (Hgen : forall pc2 todo2, wc_hold pc2 = false ->
              match pc2 with WC4 _ => False | _ => True end ->
              rw_inv {| wc_sh := {| sh_st := st; sh_ch := ch; sh_nmade := nm; sh_clo := clo; sh_own := own |};
                        wc_threads := wc_set_thread ths i {| wc_pcof := pc2; wc_todo := todo2 |} |}
                     (rc_step N m i (RAcq rw_state))).
    { intros pc2 todo2 Hh Hpc2.
      apply (rw_inv_intro _ m i th _ pc2 todo2 _ Inv E); cbn [wc_sh sh_own sh_st].
      - left. reflexivity.
      - intros H. split; [exact H|rw_ext].
      - apply rw_m_acq. exact Im.
      - split; [rewrite Hh; exact Tho|]. destruct pc2; try exact I. contradiction. }
    destruct (wc_is_closed_st st); inversion Hs; subst; clear Hs; apply Hgen; try reflexivity; exact I.
  - (* WK2: Lock *)
    destruct own as [ow|]; inversion Hs; subst; clear Hs; cbn [rm_msteps fold_left].
    + apply Hnoev. split; [exact Tho|exact I].
    + apply (rw_inv_intro _ m i th _ (WK3 cb) _ _ Inv E); cbn [wc_sh sh_own sh_st sh_set_own].
      * right. left. split; reflexivity.
      * intros H. split; [exact H|rw_ext].
      * apply rw_m_lock. exact Im.
      * split; [split; reflexivity|exact I].
  - (* WK3: the critical section of Close *)
    assert (Ho : own = Some i) by (apply Tho; reflexivity). subst own.
    set (m1 := rc_step N m i (RRead rw_xstate)).
    assert (M1 : rw_minv (Some i) (wc_is_new_st st) m1).
    { apply rw_m_read; [exact Im|apply (rw_owner_knows _ _ _ _ Im)|reflexivity|discriminate]. }
    destruct st; cbn [wc_is_closed_st wc_is_new_st wc_perform sh_st sh_ch] in *.
    + (* New: closeChan := global *)
      set (m2 := rc_step N m1 i (RRead rw_xstate)).
      assert (M2 : rw_minv (Some i) true m2).
      { apply rw_m_read; [exact M1|apply (rw_owner_knows _ _ _ _ M1)|reflexivity|discriminate]. }
      set (m3 := rc_step N m2 i (RWrite rw_xchan)).
      assert (M3 : rw_minv (Some i) true m3).
      { apply rw_m_write; [exact M2|right; split; reflexivity]. }
      destruct cb as [|oc [|]]; unfold wc_finish in Hs; cbn [sh_set_own sh_set_st sh_set_ch sh_st sh_ch sh_nmade sh_clo sh_own] in Hs;
        inversion Hs; subst; clear Hs; cbn [rm_msteps fold_left rw_store_unlock]; fold m1 m2 m3.
      * apply (rw_inv_intro _ m i th _ (WK6 RNil) _ _ Inv E); cbn [wc_sh sh_own sh_st wc_is_new_st].
        -- right. right. split; reflexivity.
        -- intros H. congruence.
        -- apply (rw_m_store_unlock _ _ _ M3).
        -- split; [split; discriminate|exact I].
      * apply (rw_inv_intro _ m i th _ (WK4 oc) _ _ Inv E); cbn [wc_sh sh_own sh_st wc_is_new_st].
        -- left. reflexivity.
        -- intros H. congruence.
        -- exact M3.
        -- split; [split; reflexivity|exact I].
      * apply (rw_inv_intro _ m i th _ (WK6 (wc_ret_of oc)) _ _ Inv E); cbn [wc_sh sh_own sh_st wc_is_new_st].
        -- right. right. split; reflexivity.
        -- intros H. congruence.
        -- apply (rw_m_store_unlock _ _ _ M3).
        -- split; [split; discriminate|exact I].
    + (* Init: close(closeChan) *)
      set (m2 := rc_step N m1 i (RRead rw_xstate)).
      assert (M2 : rw_minv (Some i) false m2).
      { apply rw_m_read; [exact M1|apply (rw_owner_knows _ _ _ _ M1)|reflexivity|discriminate]. }
      set (m3 := rc_step N m2 i (RRead rw_xchan)).
      assert (M3 : rw_minv (Some i) false m3).
      { apply rw_m_read; [exact M2|apply (rw_owner_knows _ _ _ _ M2)|discriminate|reflexivity]. }
      destruct ch as [|c|]; [| |].
      * (* nil channel: close panics *)
        inversion Hs; subst; clear Hs. cbn [rm_msteps fold_left]. fold m1 m2 m3.
        apply (rw_inv_intro _ m i th _ (WK6 RNil) _ _ Inv E); cbn [wc_sh sh_own sh_st wc_is_new_st sh_set_own].
        -- right. right. split; reflexivity.
        -- intros H. split; [exact H|rw_ext].
        -- apply rw_m_unlock. exact M3.
        -- split; [split; discriminate|exact I].
      * destruct (wc_closedb _ (WMade c)) eqn:Hcl.
        -- inversion Hs; subst; clear Hs. cbn [rm_msteps fold_left]. fold m1 m2 m3.
           apply (rw_inv_intro _ m i th _ (WK6 RNil) _ _ Inv E); cbn [wc_sh sh_own sh_st wc_is_new_st sh_set_own].
           ++ right. right. split; reflexivity.
           ++ intros H. split; [exact H|rw_ext].
           ++ apply rw_m_unlock. exact M3.
           ++ split; [split; discriminate|exact I].
        -- destruct cb as [|oc [|]]; unfold wc_finish in Hs;
             cbn [sh_set_own sh_set_st sh_set_ch sh_st sh_ch sh_nmade sh_clo sh_own] in Hs;
             inversion Hs; subst; clear Hs; cbn [rm_msteps fold_left rw_store_unlock]; fold m1 m2 m3.
           ++ apply (rw_inv_intro _ m i th _ (WK6 RNil) _ _ Inv E); cbn [wc_sh sh_own sh_st wc_is_new_st].
              ** right. right. split; reflexivity.
              ** intros H. split; [discriminate|rw_ext].
              ** apply (rw_m_store_unlock _ _ _ M3).
              ** split; [split; discriminate|exact I].
           ++ apply (rw_inv_intro _ m i th _ (WK4 oc) _ _ Inv E); cbn [wc_sh sh_own sh_st wc_is_new_st].
              ** left. reflexivity.
              ** intros H. split; [discriminate|rw_ext].
              ** exact M3.
              ** split; [split; reflexivity|exact I].
           ++ apply (rw_inv_intro _ m i th _ (WK6 (wc_ret_of oc)) _ _ Inv E); cbn [wc_sh sh_own sh_st wc_is_new_st].
              ** right. right. split; reflexivity.
              ** intros H. split; [discriminate|rw_ext].
              ** apply (rw_m_store_unlock _ _ _ M3).
              ** split; [split; discriminate|exact I].
      * (* global channel with state Init: close panics *)
        inversion Hs; subst; clear Hs. cbn [rm_msteps fold_left]. fold m1 m2 m3.
        apply (rw_inv_intro _ m i th _ (WK6 RNil) _ _ Inv E); cbn [wc_sh sh_own sh_st wc_is_new_st sh_set_own].
        -- right. right. split; reflexivity.
        -- intros H. split; [exact H|rw_ext].
        -- apply rw_m_unlock. exact M3.
        -- split; [split; discriminate|exact I].
    + (* Closed: second check fails *)
      inversion Hs; subst; clear Hs. cbn [rm_msteps fold_left]. fold m1.
      apply (rw_inv_intro _ m i th _ (WK6 RNil) _ _ Inv E); cbn [wc_sh sh_own sh_st wc_is_new_st sh_set_own].
      * right. right. split; reflexivity.
      * intros H. split; [exact H|rw_ext].
      * apply rw_m_unlock. exact M1.
      * split; [split; discriminate|exact I].
  - (* WK4: the callback ends; deferred store and unlock *)
    assert (Ho : own = Some i) by (apply Tho; reflexivity). subst own.
    unfold wc_finish in Hs. cbn [sh_set_own sh_set_st sh_st sh_ch sh_nmade sh_clo sh_own] in Hs.
    inversion Hs; subst; clear Hs.
    apply (rw_inv_intro _ m i th _ (WK6 (wc_ret_of o)) _ _ Inv E); cbn [wc_sh sh_own sh_st wc_is_new_st].
    + right. right. split; reflexivity.
    + intros H. split; [discriminate|]. unfold rw_store_unlock. cbn [rm_msteps fold_left]. rw_ext.
    + apply (rw_m_store_unlock _ _ _ Im).
    + split; [split; discriminate|exact I].
  - (* WK6 *)
    inversion Hs; subst; clear Hs. cbn [rm_msteps fold_left]. apply Hnoev. split; [exact Tho|exact I].
  - (* WC1: atomic load, then closeChan if not New *)
    set (m1 := rc_step N m i (RAcq rw_state)).
    assert (M1 : rw_minv own (wc_is_new_st st) m1) by (apply rw_m_acq; exact Im).
    destruct (wc_is_new_st st) eqn:Hnew.
    + inversion Hs; subst; clear Hs. cbn [rm_msteps fold_left]. fold m1.
      apply (rw_inv_intro _ m i th _ (WC2 w) _ _ Inv E); cbn [wc_sh sh_own sh_st].
      * left. reflexivity.
      * intros H. split; [exact H|rw_ext].
      * rewrite Hnew. exact M1.
      * split; [exact Tho|exact I].
    + assert (K1 : rm_K m1 i rw_xchan).
      { apply (rm_acq_K N m i (RAcq rw_state) rw_state); [reflexivity|].
        apply (wm_pub _ _ _ Im). reflexivity. }
      assert (M2 : rw_minv own false (rc_step N m1 i (RRead rw_xchan))).
      { apply rw_m_read; [exact M1|exact K1|discriminate|reflexivity]. }
      destruct w; inversion Hs; subst; clear Hs; cbn [rm_msteps fold_left]; fold m1.
      * apply (rw_inv_intro _ m i th _ (WWait ch) _ _ Inv E); cbn [wc_sh sh_own sh_st].
        -- left. reflexivity.
        -- intros H. split; [exact H|rw_ext].
        -- rewrite Hnew. exact M2.
        -- split; [exact Tho|exact I].
      * apply (rw_inv_intro _ m i th _ WIdle _ _ Inv E); cbn [wc_sh sh_own sh_st].
        -- left. reflexivity.
        -- intros H. split; [exact H|rw_ext].
        -- rewrite Hnew. exact M2.
        -- split; [exact Tho|exact I].
  - (* WC2: Lock *)
    destruct own as [ow|]; inversion Hs; subst; clear Hs; cbn [rm_msteps fold_left].
    + apply Hnoev. split; [exact Tho|exact I].
    + apply (rw_inv_intro _ m i th _ (WC3 w) _ _ Inv E); cbn [wc_sh sh_own sh_st sh_set_own].
      * right. left. split; reflexivity.
      * intros H. split; [exact H|rw_ext].
      * apply rw_m_lock. exact Im.
      * split; [split; reflexivity|exact I].
  - (* WC3: the critical section of checkInitSlow *)
    assert (Ho : own = Some i) by (apply Tho; reflexivity). subst own.
    set (m1 := rc_step N m i (RRead rw_xstate)).
    assert (M1 : rw_minv (Some i) (wc_is_new_st st) m1).
    { apply rw_m_read; [exact Im|apply (rw_owner_knows _ _ _ _ Im)|reflexivity|discriminate]. }
    destruct (wc_is_new_st st) eqn:Hnew; inversion Hs; subst; clear Hs;
      cbn [rm_msteps fold_left app]; fold m1.
    + set (m2 := rc_step N m1 i (RWrite rw_xchan)).
      assert (M2 : rw_minv (Some i) true m2) by (apply rw_m_write; [exact M1|right; split; reflexivity]).
      set (m3 := rc_step N m2 i (RWrite rw_xstate)).
      assert (M3 : rw_minv (Some i) true m3) by (apply rw_m_write; [exact M2|left; reflexivity]).
      set (m4 := rc_step N m3 i (RRel rw_state)).
      assert (M4 : rw_minv (Some i) false m4) by (apply (rw_m_rel_state true); exact M3).
      apply (rw_inv_intro _ m i th _ (WC4 w) _ _ Inv E); cbn [wc_sh sh_own sh_st wc_is_new_st].
      * right. right. split; reflexivity.
      * intros H. destruct st; cbn in Hnew; try discriminate Hnew; exfalso; apply H; reflexivity.
      * apply rw_m_unlock. exact M4.
      * split; [split; discriminate|]. split; [discriminate|].
        apply (rm_K_ext (fun _ => True) m4); [apply rm_ext_sync; exact I|exact I|].
        apply (rw_owner_knows _ _ _ _ M4).
    + apply (rw_inv_intro _ m i th _ (WC4 w) _ _ Inv E); cbn [wc_sh sh_own sh_st sh_set_own].
      * right. right. split; reflexivity.
      * intros H. split; [exact H|rw_ext].
      * rewrite Hnew. apply rw_m_unlock. exact M1.
      * split; [split; discriminate|]. split; [intros Hc; cbn [sh_st sh_set_own] in Hc; rewrite Hc in Hnew; discriminate Hnew|].
        apply (rm_K_ext (fun _ => True) m1); [apply rm_ext_sync; exact I|exact I|].
        apply (rw_owner_knows _ _ _ _ M1).
  - (* WC4: read closeChan after checkInitSlow *)
    destruct Tpc as [Hst Hk].
    assert (Hnew : wc_is_new_st st = false) by (destruct st; [congruence|reflexivity|reflexivity]).
    assert (M1 : rw_minv own false (rc_step N m i (RRead rw_xchan))).
    { rewrite Hnew in Im. apply rw_m_read; [exact Im|exact Hk|discriminate|reflexivity]. }
    destruct w; inversion Hs; subst; clear Hs; cbn [rm_msteps fold_left].
    + apply (rw_inv_intro _ m i th _ (WWait ch) _ _ Inv E); cbn [wc_sh sh_own sh_st].
      * left. reflexivity.
      * intros H. split; [exact H|rw_ext].
      * rewrite Hnew. exact M1.
      * split; [exact Tho|exact I].
    + apply (rw_inv_intro _ m i th _ WIdle _ _ Inv E); cbn [wc_sh sh_own sh_st].
      * left. reflexivity.
      * intros H. split; [exact H|rw_ext].
      * rewrite Hnew. exact M1.
      * split; [exact Tho|exact I].
  - (* WI1 *)
    inversion Hs; subst; clear Hs. cbn [rm_msteps fold_left].
    apply (rw_inv_intro _ m i th _ WIdle _ _ Inv E); cbn [wc_sh sh_own sh_st].
    + left. reflexivity.
    + intros H. split; [exact H|rw_ext].
    + apply rw_m_acq. exact Im.
    + split; [exact Tho|exact I].
  - (* WWait *)
    destruct (wc_closedb _ c); inversion Hs; subst; clear Hs; cbn [rm_msteps fold_left];
      apply Hnoev; (split; [exact Tho|exact I]).
Qed.

Lemma rw_run_inv sched : forall s m,
  rw_inv s m ->
  rc_raced (fold_left (fun m p => rc_step N m (fst p) (snd p)) (rw_trace s sched) m) = false.
Proof.
  induction sched as [|it r IH]; intros s m Inv; cbn [rw_trace fold_left].
  - apply (wm_nr _ _ _ (wi_m _ _ Inv)).
  - rewrite rm_run_map. apply IH. apply rw_step_inv. exact Inv.
Qed.

Lemma rw_init_inv progs : rw_inv (wc_init progs) rc_init.
Proof.
  constructor; cbn [wc_init wc_sh wc_sh0 sh_own sh_st wc_is_new_st wc_threads].
  - exact rw_minv_init.
  - intros j th Hj. rewrite nth_error_map in Hj. destruct (nth_error progs j); inversion Hj; subst.
    cbn [wc_pcof]. split; [split; discriminate|exact I].
Qed.

End RW.

(* ------------------------------------------------------------------ well-formedness *)
Lemma rw_trace_wf sched : forall s, hb_wf (length (wc_threads s)) (rw_trace s sched).
Proof.
  induction sched as [|it r IH]; intros s; cbn [rw_trace]; [constructor|].
  apply rm_wf_app.
  - unfold rw_step. destruct (nth_error (wc_threads s) (wc_item_tid it)) as [th|] eqn:E; [|constructor].
    apply rm_wf_map. apply nth_error_Some. congruence.
  - assert (Hlen : length (wc_threads (fst (wc_step s it))) = length (wc_threads s)).
    { unfold wc_step. destruct (nth_error (wc_threads s) (wc_item_tid it)) as [th|] eqn:E; [|reflexivity].
      destruct (wc_step_pc _ _ _ _ _) as [[[g' pc'] todo'] acts].
      cbn [fst wc_threads]. unfold wc_set_thread. apply (la_set_length _ _ _ _ E). }
    rewrite <- Hlen. apply IH.
Qed.

(* ------------------------------------------------------------------ the theorems *)
Theorem rw_monitor_silent progs sched :
  rc_raced (rc_run (length progs) (rw_trace (wc_init progs) sched)) = false.
Proof. unfold rc_run. apply rw_run_inv. apply rw_init_inv. Qed.

Theorem rw_race_free progs sched : ~ hb_race (rw_trace (wc_init progs) sched).
Proof.
  apply (hbp_agree (length progs)); [|apply rw_monitor_silent].
  pose proof (rw_trace_wf sched (wc_init progs)) as H.
  cbn [wc_init wc_threads] in H. rewrite map_length in H. exact H.
Qed.

Theorem rw_conflicts_ordered progs sched i j :
  i < j -> j < length (rw_trace (wc_init progs) sched) ->
  hb_conflict (rw_trace (wc_init progs) sched) i j ->
  hb_hb (rw_trace (wc_init progs) sched) i j.
Proof.
  apply (hbp_norace_ordered (length progs)); [|apply rw_monitor_silent].
  pose proof (rw_trace_wf sched (wc_init progs)) as H.
  cbn [wc_init wc_threads] in H. rewrite map_length in H. exact H.
Qed.

(* what the ordering rests on: in the run of the non-vacuity example, without thread 2's
   atomic load of wc.state (event 9) its read of closeChan races with thread 0's write *)
Lemma rw_without_load_refuted :
  let tr := rw_trace (wc_init [[OpC]; [OpClose (Cb ONil true)]; [OpWait]])
                     (map IRun [0;0;0;0; 1;1;1; 2;2; 1;1; 2;2;2; 0;0]) in
  nth_error tr 9 = Some (2, RAcq rw_state) /\ hb_race (firstn 9 tr ++ skipn 10 tr).
Proof. split; [vm_compute; reflexivity|]. apply (hbp_sound 3). vm_compute. reflexivity. Qed.

(* ------------------------------------------------------------------ labelling vs yield sites
   C16 checks at every step that the real goroutine is parked at the yield site the model
   predicts ([wc_site_pc]: 1 LoadState, 2 BeforeLock, 3 AfterLock, 4 AfterUnlock, 5 inside the
   callback, 6 select).  The labelling agrees: from LoadState the first event is the atomic
   load; from BeforeLock the step is blocked or is Lock; from AfterLock (mutex held) the step
   starts with the plain read of wc.state and contains no acquire; from inside the callback
   it is the deferred store and Unlock; from AfterUnlock / select / no site it contains no
   synchronisation event. *)
Lemma rw_sites g pc :
  match wc_site_pc pc with
  | 1 => exists rest, rw_step_pc g false pc = RAcq rw_state :: rest
                      /\ Forall (fun e => ~ rm_sync e) rest
  | 2 => rw_step_pc g false pc = [] \/ rw_step_pc g false pc = [RAcq rw_mutex]
  | 3 => exists rest, rw_step_pc g false pc = RRead rw_xstate :: rest
                      /\ Forall (fun e => forall o, ~ hb_is_acq e o) rest
  | 5 => rw_step_pc g false pc = rw_store_unlock
  | _ => Forall (fun e => ~ rm_sync e) (rw_step_pc g false pc)
  end.
Proof.
  destruct pc; cbn [wc_site_pc rw_step_pc].
  - constructor.
  - eexists. split; [reflexivity|constructor].
  - destruct (sh_own g); [left|right]; reflexivity.
  - eexists. split; [reflexivity|].
    destruct (wc_is_closed_st (sh_st g)); [repeat constructor; intros o []|].
    constructor; [intros o2 []|]. constructor; [destruct (sh_st g); intros o2 []|].
    destruct (wc_perform g); [|repeat constructor; intros o2 []].
    destruct cb as [|oc [|]]; unfold rw_store_unlock; repeat constructor; intros o2 [].
  - reflexivity.
  - constructor.
  - eexists. split; [reflexivity|]. destruct (wc_is_new_st (sh_st g)); repeat constructor. intros [].
  - destruct (sh_own g); [left|right]; reflexivity.
  - eexists. split; [reflexivity|].
    destruct (wc_is_new_st (sh_st g)); cbn [app]; repeat constructor; intros o2 [].
  - repeat constructor. intros [].
  - eexists. split; [reflexivity|constructor].
  - constructor.
Qed.
