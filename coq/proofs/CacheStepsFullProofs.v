(* CacheStepsFullProofs.v -- the small-step machine with the refined ghost (CacheStepsFull.v)
   refines the refined atomic machine cx_step for ALL five operations, and every history of
   cx_step is simulated by a history of Cache.v (same calls / returns / sweeps / time steps,
   same outputs, jobs only start earlier).
   The structure follows CacheStepsProofs.v (whose lemmas about candidates, notes, arenas and
   cs_go are reused); what changes: the ghost map and the memory map agree only up to
   "rotted = absent" (cf_mrel, the simulation relation of C05), Set may displace loading
   futures (no c_displaced = [] clause), the worker's ghost start is by future id. *)
From Got Require Import Base Cache CacheProofs CacheSteps CacheStepsProofs CacheStepsFull.
From Coq Require Import Permutation.
Local Open Scope Z_scope.

(* ================================================================== rotted = absent *)
Definition cf_dead (cfg : c_cfg) (g : c_state) (o : option nat) : Prop :=
  match o with None => True | Some f => c_is_rotted cfg (c_now g) (c_futs g) f = true end.

(* per key: the two maps agree, or each side has no entry or a rotted one *)
Definition cf_mrel (cfg : c_cfg) (g : c_state) (mp : list (Z * nat)) : Prop :=
  forall k, c_lookup (c_map g) k = c_lookup mp k \/
            (cf_dead cfg g (c_lookup (c_map g) k) /\ cf_dead cfg g (c_lookup mp k)).

Lemma cf_rot_spec cfg g f :
  c_is_rotted cfg (c_now g) (c_futs g) f = true <->
  exists v e u, cs_fdone g f = Some (v, e, u) /\ 2 * c_expire cfg e <= c_now g - u /\ c_expire cfg e <= c_now g - u.
Proof.
  rewrite c_is_rotted_spec. unfold cs_fdone. split.
  - intros [x [v [e [u [Hx [Hd [H1 H2]]]]]]]. exists v, e, u. rewrite Hx. auto.
  - intros [v [e [u [Hd [H1 H2]]]]]. destruct (c_get (c_futs g) f) as [x|]; [|discriminate]. exists x, v, e, u. auto.
Qed.

Lemma cf_rot_status cfg g f : c_is_rotted cfg (c_now g) (c_futs g) f = true -> c_status cfg (c_now g) (c_futs g) (Some f) = CRotted.
Proof. unfold c_is_rotted. destruct (c_status cfg (c_now g) (c_futs g) (Some f)); try discriminate. reflexivity. Qed.

Lemma cf_load_dead cfg g k : cf_dead cfg g (c_lookup (c_map g) k) ->
  c_load cfg g k = (c_new_job g k None, OLoad (length (c_futs g)) true).
Proof.
  unfold cf_dead, c_load. destruct (c_lookup (c_map g) k) as [f|]; [|reflexivity].
  intros H. rewrite (cf_rot_status cfg g f H). reflexivity.
Qed.

Lemma cf_get2_dead cfg g k : cf_dead cfg g (c_lookup (c_map g) k) -> c_get2 cfg g k = OImmediate.
Proof.
  unfold cf_dead, c_get2. destruct (c_lookup (c_map g) k) as [f|]; [|reflexivity].
  intros H. rewrite (cf_rot_status cfg g f H). reflexivity.
Qed.

Lemma cf_cand_dead cfg g w k : cf_dead cfg g (c_lookup (c_map g) k) ->
  cs_cand cfg g (cs_rdop w k) = Some (if w then OImmediate else OLoad (length (c_futs g)) true).
Proof.
  intros H. destruct w; cbn [cs_rdop cs_cand].
  - rewrite (cf_get2_dead cfg g k H). reflexivity.
  - rewrite (cf_load_dead cfg g k H). reflexivity.
Qed.

Lemma cf_dead_not_A cfg g k f : cf_dead cfg g (c_lookup (c_map g) k) -> ~ cs_A g k f.
Proof.
  intros H [Hl Hi]. rewrite Hl in H. cbn in H. apply cf_rot_spec in H. destruct H as [v [e [u [Hd _]]]].
  apply cs_isload_fdone in Hi. congruence.
Qed.

(* rotted is permanent: the ghost keeps completed futures, its clock is monotone *)
Lemma cf_dead_mono cfg g g' o :
  (forall f r, cs_fdone g f = Some r -> cs_fdone g' f = Some r) -> c_now g <= c_now g' ->
  cf_dead cfg g o -> cf_dead cfg g' o.
Proof.
  intros Hd Hn. destruct o as [f|]; [|auto]. cbn. rewrite !cf_rot_spec.
  intros [v [e [u [H [H1 H2]]]]]. exists v, e, u. split; [apply Hd; exact H|lia].
Qed.

Lemma cf_mrel_mono cfg g g' mp :
  (forall f r, cs_fdone g f = Some r -> cs_fdone g' f = Some r) -> c_now g <= c_now g' ->
  (forall k, c_lookup (c_map g') k = c_lookup (c_map g) k) ->
  cf_mrel cfg g mp -> cf_mrel cfg g' mp.
Proof.
  intros Hd Hn Hm H k. rewrite Hm. destruct (H k) as [E|[E1 E2]]; [left; exact E|right].
  split; eapply cf_dead_mono; eauto.
Qed.

Lemma cf_mrel_update cfg g g' mp k f :
  (forall f r, cs_fdone g f = Some r -> cs_fdone g' f = Some r) -> c_now g <= c_now g' ->
  c_map g' = c_update (c_map g) k f ->
  cf_mrel cfg g mp -> cf_mrel cfg g' (c_update mp k f).
Proof.
  intros Hd Hn Hm H k'. rewrite Hm, !c_lookup_update. destruct (k =? k'); [left; reflexivity|].
  destruct (H k') as [E|[E1 E2]]; [left; exact E|right]. split; eapply cf_dead_mono; eauto.
Qed.

Lemma cf_mrel_remove cfg g mp k :
  cf_dead cfg g (c_lookup mp k) -> cf_mrel cfg g mp -> cf_mrel cfg g (c_remove mp k).
Proof.
  intros Hk H k'. rewrite c_lookup_remove. destruct (k =? k') eqn:E; [|apply H].
  assert (k = k') by lia. subst k'. right. split; [|exact Logic.I].
  destruct (H k) as [E1|[E1 _]]; [rewrite E1; exact Hk|exact E1].
Qed.

Lemma cf_lookup_sweep cfg g k : NoDup (map fst (c_map g)) ->
  c_lookup (c_map (c_sweep cfg g)) k =
  match c_lookup (c_map g) k with
  | Some f => if c_is_rotted cfg (c_now g) (c_futs g) f then None else Some f
  | None => None
  end.
Proof.
  intros Hn. cbn [c_sweep c_map].
  rewrite (c_lookup_filter (fun f => negb (c_is_rotted cfg (c_now g) (c_futs g) f))) by exact Hn.
  destruct (c_lookup (c_map g) k) as [f|]; [|reflexivity]. destruct (c_is_rotted cfg (c_now g) (c_futs g) f); reflexivity.
Qed.

Lemma cf_mrel_sweep cfg g mp : NoDup (map fst (c_map g)) -> cf_mrel cfg g mp -> cf_mrel cfg (c_sweep cfg g) mp.
Proof.
  intros Hn H k. rewrite (cf_lookup_sweep cfg g k Hn).
  assert (Hdd : forall o, cf_dead cfg (c_sweep cfg g) o <-> cf_dead cfg g o) by (intros [f|]; reflexivity).
  destruct (c_lookup (c_map g) k) as [f|] eqn:El.
  - destruct (c_is_rotted cfg (c_now g) (c_futs g) f) eqn:Er.
    + right. split; [exact Logic.I|]. apply Hdd. destruct (H k) as [E|[_ E2]]; [rewrite <- E, El; exact Er|exact E2].
    + destruct (H k) as [E|[E1 E2]]; [left; rewrite <- E, El; reflexivity|]. rewrite El in E1. cbn in E1. congruence.
  - destruct (H k) as [E|[E1 E2]]; [left; rewrite <- E, El; reflexivity|right]. split; [exact Logic.I|apply Hdd; exact E2].
Qed.

(* ================================================================== environment steps *)
(* as cs_ext, but a loading map entry is only guaranteed to stay when the step keeps the
   ghost's entry of that key (a Set replaces it; every reader that relies on it holds the mutex) *)
Record cf_ext (enq fin : option nat) (m g m' g' : c_state) : Prop := {
  y_done_m : forall f r, cs_fdone m f = Some r -> cs_fdone m' f = Some r;
  y_done_g : forall f r, cs_fdone g f = Some r -> cs_fdone g' f = Some r;
  y_pred_m : forall f r, cs_fdone m f = Some r -> cs_fpred m f = None -> cs_fpred m' f = None;
  y_new_m : forall f v e u, cs_fdone m' f = Some (v, e, u) -> cs_fdone m f = Some (v, e, u) \/ u = c_now m';
  y_now_m : c_now m <= c_now m';
  y_now_g : c_now g <= c_now g';
  y_len : (length (c_futs m) <= length (c_futs m'))%nat;
  y_qg : forall n, In n (c_queue g) -> ~ In n (c_queue m) -> In n (c_queue g');
  y_qm : forall n, In n (c_queue m') -> In n (c_queue m) \/ enq = Some n;
  y_run : forall f, In f (c_running g) -> fin <> Some f -> In f (c_running g');
  y_A : forall k f, c_lookup (c_map g') k = c_lookup (c_map g) k -> cs_A g k f -> fin <> Some f ->
      cs_A g' k f /\ cs_fpred g' f = cs_fpred g f;
  y_fin : forall k f, cs_A g k f -> fin = Some f ->
      c_lookup (c_map g') k = Some f /\
      exists v e, cs_fdone g' f = Some (v, e, c_now g') /\ cs_fdone m' f = Some (v, e, c_now g') /\ cs_fpred m' f = None
}.

Lemma cf_ext_of_cs enq fin m g m' g' : cs_ext enq fin m g m' g' -> cf_ext enq fin m g m' g'.
Proof. intros [X1 X2 X3 X4 X5 X6 X7 X8 X9 X10 X11 X12]. constructor; auto. Qed.

Lemma cf_ext_to_cs enq fin m g m' g' :
  cf_ext enq fin m g m' g' -> (forall k, c_lookup (c_map g') k = c_lookup (c_map g) k) -> cs_ext enq fin m g m' g'.
Proof. intros [X1 X2 X3 X4 X5 X6 X7 X8 X9 X10 X11 X12] H. constructor; auto. Qed.

Lemma cf_pend_ext cfg enq fin m g m' g' t st last n :
  cf_ext enq fin m g m' g' ->
  enq <> Some n -> cs_pend m g t st last n -> cs_pend m' g' (cs_note cfg g' t) st last n.
Proof.
  intros X Hne [H1 [H2 [H3 [H4 H5]]]]. split; [exact H1|]. split; [rewrite cs_note_lin; exact H2|].
  split; [eapply y_qg; eauto|]. split.
  - intros Hin. destruct (y_qm _ _ _ _ _ _ X n Hin) as [H|H]; [exact (H4 H)|exact (Hne H)].
  - pose proof (y_len _ _ _ _ _ _ X). lia.
Qed.

(* ================================================================== the invariant *)
(* entries of the map that removeRotted still has to visit *)
Definition cf_ents (mp : list (Z * nat)) (l : list (Z * nat)) : Prop :=
  NoDup (map fst l) /\ forall k f, In (k, f) l -> c_lookup mp k = Some f.

Definition cf_tinv (cfg : c_cfg) (m g : c_state) (t : cs_thread) : Prop :=
  match ct_pc t with
  | CsIdle => ct_op t = None
  | CsLBL k | CsLAL k => ct_op t = Some (CsLoad k) /\ ct_lin t = None
  | CsLLU k f => ct_op t = Some (CsLoad k) /\ ct_lin t = None /\ c_lookup (c_map m) k = Some f
  | CsLRE k f past => ct_op t = Some (CsLoad k) /\ ct_lin t = None /\ c_lookup (c_map m) k = Some f /\
      exists v e u, cs_fdone m f = Some (v, e, u) /\ past = c_now m - u /\
        (cs_status_of cfg past e = CGood -> cs_rd m g t false k f)
  | CsLAU st last (Some n) | CsLSJ st last n => exists k, ct_op t = Some (CsLoad k) /\ cs_pend m g t st last n
  | CsGBL k | CsGAL k => ct_op t = Some (CsGet2 k)
  | CsGAU None => exists k, ct_op t = Some (CsGet2 k) /\ cs_cnd t OImmediate
  | CsGLU f => exists k, ct_op t = Some (CsGet2 k) /\ c_lookup (c_map m) k = Some f
  | CsGRE f past => exists k, ct_op t = Some (CsGet2 k) /\ exists v e u, cs_fdone m f = Some (v, e, u) /\
      match cs_status_of cfg past e with
      | CGood => cs_rd m g t true k f
      | CExpired => cs_cnd t (OAwait f)
      | _ => cs_cnd t OImmediate
      end
  | CsGFW _ => ct_op t <> None
  | CsRLP w f => exists k, ct_op t = Some (cs_rdop w k) /\ cs_rd m g t w k f
  | CsRPU w f p => exists k, ct_op t = Some (cs_rdop w k) /\ cs_pu cfg m g t w k f p
  | CsRPE w f p past => ct_op t <> None /\ exists v e u, cs_fdone m p = Some (v, e, u) /\
      cs_cnd t (cs_out w (match cs_status_of cfg past e with CExpired => p | _ => f end))
  | CsXAU w x => ct_op t <> None /\ cs_cnd t (cs_out w x)
  | CsSBL _ _ _ | CsSAL _ _ _ | CsSAU | CsZBL | CsZAL | CsZAU => ct_op t <> None
  | CsSSU _ _ _ now | CsSSP _ _ _ now => ct_op t <> None /\ now = c_now m
  | CsZLU k f rest => ct_op t <> None /\ cf_ents (c_map m) ((k, f) :: rest)
  | CsZRE k f past rest => ct_op t <> None /\ cf_ents (c_map m) ((k, f) :: rest) /\
      exists v e u, cs_fdone m f = Some (v, e, u) /\ past = c_now m - u
  | CsWLD f v e => ct_op t <> None /\ In f (c_running g)
  | CsWSU f v e now => ct_op t <> None /\ In f (c_running g) /\ now = c_now m
  | CsWSP f v e now => ct_op t <> None /\ In f (c_running g) /\ now = c_now m /\ cs_fdone m f = Some (v, e, now)
  | _ => False
  end.

(* the mutex is held from AfterLock to the end of the decision / the map write / the last entry *)
Definition cf_holds (pc : cs_pc) : bool :=
  match pc with
  | CsSAL _ _ _ | CsSSU _ _ _ _ | CsSSP _ _ _ _ | CsZAL | CsZLU _ _ _ | CsZRE _ _ _ _ => true
  | _ => cs_holds pc
  end.

Record cf_inv (cfg : c_cfg) (s : cs_state) : Prop := {
  fi_g : c_inv cfg (cs_g s);
  fi_now : c_now (cs_m s) = c_now (cs_g s);
  fi_map : cf_mrel cfg (cs_g s) (c_map (cs_m s));
  fi_mkeys : NoDup (map fst (c_map (cs_m s)));
  fi_len : length (c_futs (cs_m s)) = length (c_futs (cs_g s));
  fi_fut : cs_futrel s;
  fi_queue : forall f, In f (c_queue (cs_m s)) -> In f (c_queue (cs_g s));
  fi_qnodup : NoDup (c_queue (cs_m s));
  fi_lock : forall tid t, nth_error (cs_thr s) tid = Some t ->
      (cf_holds (ct_pc t) = true <-> cs_lock s = Some tid);
  fi_thr : forall tid t, nth_error (cs_thr s) tid = Some t ->
      cf_tinv cfg (cs_m s) (cs_g s) t /\ cs_candnow cfg (cs_g s) t;
  fi_wuniq : forall i j ti tj f, nth_error (cs_thr s) i = Some ti -> nth_error (cs_thr s) j = Some tj ->
      cs_wfut (ct_pc ti) = Some f -> cs_wfut (ct_pc tj) = Some f -> i = j;
  fi_puniq : forall i j ti tj n, nth_error (cs_thr s) i = Some ti -> nth_error (cs_thr s) j = Some tj ->
      cs_pnext (ct_pc ti) = Some n -> cs_pnext (ct_pc tj) = Some n -> i = j;
  fi_mis : cs_mis s = false
}.

(* ------------------------------------------------------------------ the per-thread invariant under environment steps *)
Section Frame.
Variable cfg : c_cfg.
Hypothesis Hcfg : c_cfg_ok cfg.
Variables (enq fin : option nat) (m g m' g' : c_state).
Hypothesis X : cf_ext enq fin m g m' g'.
Hypothesis Ig' : c_inv cfg g'.
Hypothesis Hnow' : c_now m' = c_now g'.

Lemma cf_tinv_ext t :
  cf_tinv cfg m g t -> cs_candnow cfg g t ->
  (cf_holds (ct_pc t) = true -> c_map m' = c_map m /\ forall k, c_lookup (c_map g') k = c_lookup (c_map g) k) ->
  (cs_in_window CsFixed (ct_pc t) = true -> c_now m' = c_now m /\ c_now g' = c_now g) ->
  (forall n, cs_pnext (ct_pc t) = Some n -> enq <> Some n) ->
  (forall f, cs_wfut (ct_pc t) = Some f -> fin <> Some f) ->
  cf_tinv cfg m' g' (cs_note cfg g' t).
Proof.
  unfold cf_tinv. rewrite cs_note_pc, cs_note_op, cs_note_lin.
  intros T Hcn Hmap Hwin Hpn Hwf.
  destruct (ct_pc t) eqn:Epc; cbn [cf_holds cs_holds cs_in_window cs_pnext cs_wfut] in *; try exact T; try contradiction.
  - (* LLU *) destruct T as [H1 [H2 H3]]. destruct (Hmap eq_refl) as [Hm _]. rewrite Hm. auto.
  - (* LRE *) destruct T as [H1 [H2 [H3 [v [e [u [H4 [H5 H6]]]]]]]]. destruct (Hmap eq_refl) as [Hm Hgm]. rewrite Hm.
    destruct (Hwin eq_refl) as [Hnm Hng]. split; [exact H1|]. split; [exact H2|]. split; [exact H3|].
    exists v, e, u. split; [eapply y_done_m; eauto|]. split; [rewrite Hnm; exact H5|].
    intros Hs. apply (cs_rd_ext cfg Hcfg enq fin m g m' g' (cf_ext_to_cs _ _ _ _ _ _ X Hgm) Ig' Hnow' t false k f H1). auto.
  - (* LAU *) destruct next as [n|]; [|contradiction]. destruct T as [k [H1 H2]]. exists k. split; [exact H1|].
    eapply cf_pend_ext; [exact X|apply Hpn; reflexivity|exact H2].
  - (* LSJ *) destruct T as [k [H1 H2]]. exists k. split; [exact H1|]. eapply cf_pend_ext; [exact X|apply Hpn; reflexivity|exact H2].
  - (* GAU *) destruct fo as [f|]; [contradiction|]. destruct T as [k [H1 H2]]. exists k. split; [exact H1|]. apply cs_note_mono; exact H2.
  - (* GLU *) destruct T as [k [H1 H2]]. exists k. split; [exact H1|]. destruct (Hmap eq_refl) as [Hm _]. rewrite Hm. exact H2.
  - (* GRE *) destruct T as [k [H1 [v [e [u [H2 H3]]]]]]. exists k. split; [exact H1|]. exists v, e, u.
    destruct (Hmap eq_refl) as [Hm Hgm].
    split; [eapply y_done_m; eauto|]. destruct (cs_status_of cfg past e).
    + apply cs_note_mono; exact H3.
    + apply (cs_rd_ext cfg Hcfg enq fin m g m' g' (cf_ext_to_cs _ _ _ _ _ _ X Hgm) Ig' Hnow' t true k f H1 H3).
    + apply cs_note_mono; exact H3.
    + apply cs_note_mono; exact H3.
  - (* RLP *) destruct T as [k [H1 H2]]. exists k. split; [exact H1|]. destruct (Hmap eq_refl) as [Hm Hgm].
    apply (cs_rd_ext cfg Hcfg enq fin m g m' g' (cf_ext_to_cs _ _ _ _ _ _ X Hgm) Ig' Hnow' t w k f H1 H2).
  - (* RPU *) destruct T as [k [H1 H2]]. exists k. split; [exact H1|]. destruct (Hmap eq_refl) as [Hm Hgm].
    apply (cs_pu_ext cfg Hcfg enq fin m g m' g' (cf_ext_to_cs _ _ _ _ _ _ X Hgm) Ig' Hnow' t w k f p Hcn H1 H2).
  - (* RPE *) destruct T as [H0 [v [e [u [H1 H2]]]]]. split; [exact H0|]. exists v, e, u. split; [eapply y_done_m; eauto|]. apply cs_note_mono. exact H2.
  - (* XAU *) destruct T as [H0 H1]. split; [exact H0|]. apply cs_note_mono. exact H1.
  - (* SSU *) destruct T as [H0 H1]. destruct (Hwin eq_refl) as [Hnm _]. split; [exact H0|lia].
  - (* SSP *) destruct T as [H0 H1]. destruct (Hwin eq_refl) as [Hnm _]. split; [exact H0|lia].
  - (* WLD *) destruct T as [H0 H1]. split; [exact H0|]. eapply y_run; eauto.
  - (* WSU *) destruct T as [H0 [H1 H2]]. destruct (Hwin eq_refl) as [Hnm Hng]. split; [exact H0|]. split; [eapply y_run; eauto|]. lia.
  - (* WSP *) destruct T as [H0 [H1 [H2 H3]]]. destruct (Hwin eq_refl) as [Hnm Hng]. split; [exact H0|]. split; [eapply y_run; eauto|].
    split; [lia|]. eapply y_done_m; eauto.
  - (* ZLU *) destruct T as [H0 H1]. destruct (Hmap eq_refl) as [Hm _]. rewrite Hm. auto.
  - (* ZRE *) destruct T as [H0 [H1 [v [e [u [H2 H3]]]]]]. destruct (Hmap eq_refl) as [Hm _]. rewrite Hm.
    destruct (Hwin eq_refl) as [Hnm _]. split; [exact H0|]. split; [exact H1|]. exists v, e, u. split; [eapply y_done_m; eauto|lia].
Qed.
End Frame.

(* ------------------------------------------------------------------ assembling the invariant after a thread step *)
Lemma cf_go_inv cfg s tid t op prog r enq fin :
  c_cfg_ok cfg -> cf_inv cfg s -> nth_error (cs_thr s) tid = Some t ->
  let s' := fst (cs_go cfg s tid t op prog r) in
  cf_ext enq fin (cs_m s) (cs_g s) (tr_m r) (tr_g r) ->
  c_inv cfg (tr_g r) ->
  c_now (tr_m r) = c_now (cs_m s) -> c_now (tr_g r) = c_now (cs_g s) ->
  cf_mrel cfg (tr_g r) (c_map (tr_m r)) -> NoDup (map fst (c_map (tr_m r))) ->
  length (c_futs (tr_m r)) = length (c_futs (tr_g r)) ->
  cs_futrel s' ->
  (forall f, In f (c_queue (tr_m r)) -> In f (c_queue (tr_g r))) -> NoDup (c_queue (tr_m r)) ->
  (cs_lock s = tr_lock r \/ (cs_lock s = None /\ tr_lock r = Some tid) \/ (cs_lock s = Some tid /\ tr_lock r = None)) ->
  (cf_holds (tr_pc r) = true <-> tr_lock r = Some tid) ->
  ((c_map (tr_m r) = c_map (cs_m s) /\ forall k, c_lookup (c_map (tr_g r)) k = c_lookup (c_map (cs_g s)) k) \/ cs_lock s = Some tid) ->
  (enq = None \/ enq = cs_pnext (ct_pc t)) -> (fin = None \/ fin = cs_wfut (ct_pc t)) ->
  cf_tinv cfg (tr_m r) (tr_g r) (cs_next cfg t op prog r) ->
  (forall f, cs_wfut (tr_pc r) = Some f -> forall j tj, j <> tid -> nth_error (cs_thr s) j = Some tj -> cs_wfut (ct_pc tj) <> Some f) ->
  (forall n, cs_pnext (tr_pc r) = Some n -> forall j tj, j <> tid -> nth_error (cs_thr s) j = Some tj -> cs_pnext (ct_pc tj) <> Some n) ->
  cs_mis s' = false ->
  cf_inv cfg s'.
Proof.
  intros Hcfg I Ht s' X Ig' Hnm Hng Hmap Hmk Hlen Hfut Hq Hqn Hlk Hlk2 Hmp Henq Hfin Htinv Hw Hp Hmis.
  assert (Hthr : cs_thr s' = cs_upd (map (cs_note cfg (tr_g r)) (cs_thr s)) tid (cs_next cfg t op prog r)) by apply cs_go_thr.
  assert (Hnth : forall j, nth_error (cs_thr s') j = if Nat.eqb j tid then Some (cs_next cfg t op prog r)
                 else option_map (cs_note cfg (tr_g r)) (nth_error (cs_thr s) j)).
  { intros j. rewrite Hthr. apply (cs_thr_nth cfg s tid t). exact Ht. }
  assert (Hoth : forall j tj', j <> tid -> nth_error (cs_thr s') j = Some tj' ->
            exists tj, nth_error (cs_thr s) j = Some tj /\ tj' = cs_note cfg (tr_g r) tj).
  { intros j tj' Hne H. rewrite Hnth in H. apply Nat.eqb_neq in Hne. rewrite Hne in H.
    destruct (nth_error (cs_thr s) j) as [tj|]; [|discriminate]. cbn in H. inversion H. eauto. }
  assert (Hme : forall tj', nth_error (cs_thr s') tid = Some tj' -> tj' = cs_next cfg t op prog r).
  { intros tj' H. rewrite Hnth, Nat.eqb_refl in H. congruence. }
  destruct I as [I1 I3 I4 I4k I5 I6 I7 I8 I9 I10 I11 I12 I13].
  constructor; try assumption.
  - (* now *) change (c_now (tr_m r) = c_now (tr_g r)). lia.
  - (* lock *)
    intros j tj' Hj. change (cs_lock s') with (tr_lock r). destruct (Nat.eq_dec j tid) as [->|Hne].
    + rewrite (Hme _ Hj), cs_next_pc. exact Hlk2.
    + destruct (Hoth j tj' Hne Hj) as [tj [Hj0 ->]]. rewrite cs_note_pc. pose proof (I9 j tj Hj0) as H9.
      destruct Hlk as [Hl|[[Hl1 Hl2]|[Hl1 Hl2]]].
      * rewrite <- Hl. exact H9.
      * rewrite Hl2. rewrite Hl1 in H9. split; intros H; [apply H9 in H; discriminate|inversion H; congruence].
      * rewrite Hl2. rewrite Hl1 in H9. split; intros H; [apply H9 in H; inversion H; congruence|discriminate].
  - (* threads *)
    intros j tj' Hj. change (cs_m s') with (tr_m r). change (cs_g s') with (tr_g r).
    destruct (Nat.eq_dec j tid) as [->|Hne].
    + rewrite (Hme _ Hj). split; [exact Htinv|].
      unfold cs_next. destruct (tr_pc r); try apply cs_note_now. intros op0 o0 H0; discriminate.
    + destruct (Hoth j tj' Hne Hj) as [tj [Hj0 ->]]. destruct (I10 j tj Hj0) as [T Cn].
      split; [|apply cs_note_now].
      eapply cf_tinv_ext; eauto.
      * change (c_now (tr_m r) = c_now (tr_g r)). lia.
      * intros Hh. destruct Hmp as [Hm|Hl]; [exact Hm|]. apply (I9 j tj Hj0) in Hh. congruence.
      * intros n Hn He. destruct Henq as [He0|He0]; [congruence|]. rewrite He0 in He.
        apply Hne. apply (I12 j tid tj t n Hj0 Ht Hn). exact He.
      * intros f Hf He. destruct Hfin as [He0|He0]; [congruence|]. rewrite He0 in He.
        apply Hne. apply (I11 j tid tj t f Hj0 Ht Hf). exact He.
  - (* wuniq *)
    intros i j ti tj f Hi Hj Hfi Hfj.
    destruct (Nat.eq_dec i tid) as [->|Hni]; destruct (Nat.eq_dec j tid) as [->|Hnj]; [reflexivity| | |].
    + rewrite (Hme _ Hi), cs_next_pc in Hfi. destruct (Hoth j tj Hnj Hj) as [tj0 [Hj0 ->]]. rewrite cs_note_pc in Hfj.
      exfalso. exact (Hw f Hfi j tj0 Hnj Hj0 Hfj).
    + rewrite (Hme _ Hj), cs_next_pc in Hfj. destruct (Hoth i ti Hni Hi) as [ti0 [Hi0 ->]]. rewrite cs_note_pc in Hfi.
      exfalso. exact (Hw f Hfj i ti0 Hni Hi0 Hfi).
    + destruct (Hoth i ti Hni Hi) as [ti0 [Hi0 ->]]. destruct (Hoth j tj Hnj Hj) as [tj0 [Hj0 ->]].
      rewrite cs_note_pc in Hfi, Hfj. eapply I11; eauto.
  - (* puniq *)
    intros i j ti tj n Hi Hj Hfi Hfj.
    destruct (Nat.eq_dec i tid) as [->|Hni]; destruct (Nat.eq_dec j tid) as [->|Hnj]; [reflexivity| | |].
    + rewrite (Hme _ Hi), cs_next_pc in Hfi. destruct (Hoth j tj Hnj Hj) as [tj0 [Hj0 ->]]. rewrite cs_note_pc in Hfj.
      exfalso. exact (Hp n Hfi j tj0 Hnj Hj0 Hfj).
    + rewrite (Hme _ Hj), cs_next_pc in Hfj. destruct (Hoth i ti Hni Hi) as [ti0 [Hi0 ->]]. rewrite cs_note_pc in Hfi.
      exfalso. exact (Hp n Hfj i ti0 Hni Hi0 Hfi).
    + destruct (Hoth i ti Hni Hi) as [ti0 [Hi0 ->]]. destruct (Hoth j tj Hnj Hj) as [tj0 [Hj0 ->]].
      rewrite cs_note_pc in Hfi, Hfj. eapply I12; eauto.
Qed.

(* ------------------------------------------------------------------ pure steps (memory and ghost unchanged) *)
Lemma cf_ext_refl m g : cf_ext None None m g m g.
Proof. apply cf_ext_of_cs. apply cs_ext_refl. Qed.

Lemma cf_wfut_keep cfg s tid t pc' :
  cf_inv cfg s -> nth_error (cs_thr s) tid = Some t ->
  (cs_wfut pc' = None \/ cs_wfut pc' = cs_wfut (ct_pc t)) ->
  forall f, cs_wfut pc' = Some f -> forall j tj, j <> tid -> nth_error (cs_thr s) j = Some tj -> cs_wfut (ct_pc tj) <> Some f.
Proof.
  intros I Ht [H|H] f Hf j tj Hne Hj Hc; [congruence|]. rewrite H in Hf.
  apply Hne. eapply (fi_wuniq _ _ I); eauto.
Qed.

Lemma cf_pnext_keep cfg s tid t pc' :
  cf_inv cfg s -> nth_error (cs_thr s) tid = Some t ->
  (cs_pnext pc' = None \/ cs_pnext pc' = cs_pnext (ct_pc t)) ->
  forall n, cs_pnext pc' = Some n -> forall j tj, j <> tid -> nth_error (cs_thr s) j = Some tj -> cs_pnext (ct_pc tj) <> Some n.
Proof.
  intros I Ht [H|H] f Hf j tj Hne Hj Hc; [congruence|]. rewrite H in Hf.
  apply Hne. eapply (fi_puniq _ _ I); eauto.
Qed.

(* fi_fut is kept when the arenas and the clock do not change and the stepping thread does not leave WSP *)
Lemma cf_fut_keep cfg s tid t op prog r :
  cf_inv cfg s -> nth_error (cs_thr s) tid = Some t ->
  c_futs (tr_m r) = c_futs (cs_m s) -> c_futs (tr_g r) = c_futs (cs_g s) -> c_now (tr_m r) = c_now (cs_m s) ->
  (forall f v e n, ct_pc t <> CsWSP f v e n) ->
  cs_futrel (fst (cs_go cfg s tid t op prog r)).
Proof.
  intros I Ht Hfm Hfg Hn Hpc. set (s' := fst (cs_go cfg s tid t op prog r)). intros f x Hx. change (cs_m s') with (tr_m r) in *. change (cs_g s') with (tr_g r).
  rewrite Hfm in Hx. rewrite Hfg, Hn.
  destruct (fi_fut _ _ I f x Hx) as [y [Hy [Hk [Hp Hd]]]]. exists y. repeat split; auto.
  destruct Hd as [Hd|[Hd [j [tj [v [e [Hj [Hpcj Hdx]]]]]]]]; [left; exact Hd|right].
  split; [exact Hd|]. exists j, (cs_note cfg (tr_g r) tj), v, e.
  assert (Hne : j <> tid). { intros ->. rewrite Ht in Hj. inversion Hj; subst. exact (Hpc _ _ _ _ Hpcj). }
  split; [|split; [rewrite cs_note_pc; exact Hpcj|exact Hdx]].
  unfold s'. rewrite cs_go_thr, (cs_thr_nth cfg s tid t _ _ j Ht).
  apply Nat.eqb_neq in Hne. rewrite Hne, Hj. reflexivity.
Qed.

Lemma cf_go_pure cfg s tid t op prog r :
  c_cfg_ok cfg -> cf_inv cfg s -> nth_error (cs_thr s) tid = Some t ->
  tr_m r = cs_m s -> tr_g r = cs_g s ->
  (cs_lock s = tr_lock r \/ (cs_lock s = None /\ tr_lock r = Some tid) \/ (cs_lock s = Some tid /\ tr_lock r = None)) ->
  (cf_holds (tr_pc r) = true <-> tr_lock r = Some tid) ->
  (forall f v e n, ct_pc t <> CsWSP f v e n) ->
  cf_tinv cfg (cs_m s) (cs_g s) (cs_next cfg t op prog r) ->
  (cs_wfut (tr_pc r) = None \/ cs_wfut (tr_pc r) = cs_wfut (ct_pc t)) ->
  (cs_pnext (tr_pc r) = None \/ cs_pnext (tr_pc r) = cs_pnext (ct_pc t)) ->
  cs_mis (fst (cs_go cfg s tid t op prog r)) = false ->
  cf_inv cfg (fst (cs_go cfg s tid t op prog r)).
Proof.
  intros Hcfg I Ht Hm Hg Hlk Hlk2 Hpc Htinv Hw Hp Hmis.
  apply (cf_go_inv cfg s tid t op prog r None None Hcfg I Ht); rewrite ?Hm, ?Hg.
  - apply cf_ext_refl.
  - apply (fi_g _ _ I).
  - reflexivity.
  - reflexivity.
  - apply (fi_map _ _ I).
  - apply (fi_mkeys _ _ I).
  - apply (fi_len _ _ I).
  - apply cf_fut_keep; auto; rewrite ?Hm, ?Hg; reflexivity.
  - apply (fi_queue _ _ I).
  - apply (fi_qnodup _ _ I).
  - exact Hlk.
  - exact Hlk2.
  - left; split; reflexivity.
  - left; reflexivity.
  - left; reflexivity.
  - exact Htinv.
  - eapply cf_wfut_keep; eauto.
  - eapply cf_pnext_keep; eauto.
  - exact Hmis.
Qed.

(* ------------------------------------------------------------------ memory vs ghost *)
Lemma cf_mg_get cfg s f : cf_inv cfg s ->
  match c_get (c_futs (cs_m s)) f, c_get (c_futs (cs_g s)) f with
  | Some x, Some y => c_fkey y = c_fkey x /\ c_fpred y = c_fpred x /\
        (c_fdone y = c_fdone x \/ (c_fdone y = None /\ exists v e, c_fdone x = Some (v, e, c_now (cs_m s))))
  | None, None => True
  | _, _ => False
  end.
Proof.
  intros I. destruct (c_get (c_futs (cs_m s)) f) as [x|] eqn:Ex.
  - destruct (fi_fut _ _ I f x Ex) as [y [Hy [Hk [Hp Hd]]]]. rewrite Hy. split; [exact Hk|]. split; [exact Hp|].
    destruct Hd as [Hd|[Hd [j [tj [v [e [_ [_ Hx]]]]]]]]; [left; exact Hd|right; split; [exact Hd|eauto]].
  - destruct (c_get (c_futs (cs_g s)) f) as [y|] eqn:Ey; [|exact Logic.I].
    apply c_get_lt in Ey. rewrite <- (fi_len _ _ I) in Ey. unfold c_get in Ex. apply nth_error_None in Ex. lia.
Qed.

Lemma cf_mg_pred cfg s f : cf_inv cfg s -> cs_fpred (cs_m s) f = cs_fpred (cs_g s) f.
Proof.
  intros I. pose proof (cf_mg_get cfg s f I) as H. unfold cs_fpred.
  destruct (c_get (c_futs (cs_m s)) f) as [x|]; destruct (c_get (c_futs (cs_g s)) f) as [y|]; try contradiction; [|reflexivity].
  destruct H as [_ [H _]]. auto.
Qed.

Lemma cf_mg_done cfg s f r : cf_inv cfg s -> cs_fdone (cs_g s) f = Some r ->
  cs_fdone (cs_m s) f = Some r /\ cs_fpred (cs_m s) f = None.
Proof.
  intros I Hd. pose proof (cf_mg_get cfg s f I) as H. rewrite (cf_mg_pred cfg s f I). unfold cs_fdone, cs_fpred in *.
  destruct (c_get (c_futs (cs_g s)) f) as [y|] eqn:Ey; [|discriminate].
  destruct (c_get (c_futs (cs_m s)) f) as [x|]; [|contradiction].
  destruct H as [_ [_ [H|[H _]]]]; [|congruence]. split; [congruence|].
  eapply c_done_no_pred; [apply (fi_g _ _ I)|exact Ey|exact Hd].
Qed.

(* a future that is complete in memory but still loading in the ghost was stamped at the current instant *)
Lemma cf_mg_window cfg s f v e u : cf_inv cfg s ->
  cs_fdone (cs_m s) f = Some (v, e, u) -> cs_fdone (cs_g s) f = None -> u = c_now (cs_m s).
Proof.
  intros I Hm Hg. pose proof (cf_mg_get cfg s f I) as H. unfold cs_fdone in *.
  destruct (c_get (c_futs (cs_m s)) f) as [x|]; [|discriminate].
  destruct (c_get (c_futs (cs_g s)) f) as [y|]; [|contradiction].
  destruct H as [_ [_ [H|[_ [v0 [e0 H]]]]]]; congruence.
Qed.

Lemma cf_mg_loading cfg s f : cf_inv cfg s -> (f < length (c_futs (cs_m s)))%nat ->
  cs_fdone (cs_m s) f = None -> c_isload (c_futs (cs_g s)) f.
Proof.
  intros I Hlt Hm. pose proof (cf_mg_get cfg s f I) as H. unfold cs_fdone in Hm.
  destruct (c_get (c_futs (cs_m s)) f) as [x|] eqn:Ex.
  - destruct (c_get (c_futs (cs_g s)) f) as [y|] eqn:Ey; [|contradiction]. exists y. split; [exact Ey|].
    destruct H as [_ [_ [H|[H _]]]]; congruence.
  - unfold c_get in Ex. apply nth_error_None in Ex. lia.
Qed.

(* ================================================================== steps of the Fixed order *)
Definition cf_lockmove (s : cs_state) (tid : nat) (t : cs_thread) (lk' : option nat) (pc' : cs_pc) : Prop :=
  (lk' = cs_lock s /\ cf_holds pc' = cf_holds (ct_pc t)) \/
  (cs_lock s = None /\ lk' = Some tid /\ cf_holds pc' = true) \/
  (cf_holds (ct_pc t) = true /\ lk' = None /\ cf_holds pc' = false).

Lemma cf_lockmove_ok cfg s tid t lk' pc' :
  cf_inv cfg s -> nth_error (cs_thr s) tid = Some t -> cf_lockmove s tid t lk' pc' ->
  (cs_lock s = lk' \/ (cs_lock s = None /\ lk' = Some tid) \/ (cs_lock s = Some tid /\ lk' = None)) /\
  (cf_holds pc' = true <-> lk' = Some tid).
Proof.
  intros I Ht H. pose proof (fi_lock _ _ I tid t Ht) as HL.
  destruct H as [[-> Hh]|[[Hl [-> Hh]]|[Hh [-> Hh']]]].
  - split; [left; reflexivity|]. rewrite Hh. exact HL.
  - split; [right; left; auto|]. rewrite Hh. split; auto.
  - split; [right; right; split; [apply HL; exact Hh|reflexivity]|]. rewrite Hh'. split; discriminate.
Qed.

Lemma cf_park_inv cfg s tid t op prog lk' pc' :
  c_cfg_ok cfg -> cf_inv cfg s -> nth_error (cs_thr s) tid = Some t ->
  cf_lockmove s tid t lk' pc' ->
  (forall f v e n, ct_pc t <> CsWSP f v e n) -> pc' <> CsIdle ->
  cf_tinv cfg (cs_m s) (cs_g s) (cs_mid cfg t op prog (cs_park (cs_m s) lk' (cs_g s) (ct_lin t) pc')) ->
  (cs_wfut pc' = None \/ cs_wfut pc' = cs_wfut (ct_pc t)) ->
  (cs_pnext pc' = None \/ cs_pnext pc' = cs_pnext (ct_pc t)) ->
  cf_inv cfg (fst (cs_go cfg s tid t op prog (cs_park (cs_m s) lk' (cs_g s) (ct_lin t) pc'))).
Proof.
  intros Hcfg I Ht Hlm Hpc Hni Htinv Hw Hp.
  destruct (cf_lockmove_ok cfg s tid t lk' pc' I Ht Hlm) as [H1 H2].
  apply cf_go_pure; auto.
  - rewrite cs_next_mid by exact Hni. exact Htinv.
  - apply cs_mis_park; [apply (fi_mis _ _ I)|reflexivity|reflexivity].
Qed.

(* facts about the stepping thread *)
Lemma cf_thr_facts cfg s tid t : cf_inv cfg s -> nth_error (cs_thr s) tid = Some t ->
  cf_tinv cfg (cs_m s) (cs_g s) t /\ cs_candnow cfg (cs_g s) t.
Proof. intros I Ht. exact (fi_thr _ _ I tid t Ht). Qed.

Ltac cf_mid_tinv := unfold cf_tinv; rewrite ?cs_mid_pc, ?cs_mid_op, ?cs_mid_lin; unfold cs_park; cbn [tr_pc tr_lin].
Ltac cf_keep := left; split; reflexivity.
Ltac cf_not_wsp Epc := let f := fresh in let v := fresh in let e := fresh in let n := fresh in
  intros f v e n; rewrite Epc; discriminate.

(* ================================================================== environment-step instances *)
Lemma cf_take_id_spec f l f' l' : c_take_first (Nat.eqb f) l = Some (f', l') -> f' = f /\ Permutation l (f :: l').
Proof.
  intros H. destruct (c_take_first_spec _ _ _ _ H) as [HP Hp]. apply Nat.eqb_eq in Hp. subst f'. auto.
Qed.

Lemma cf_take_id_ex f l : In f l -> exists l', c_take_first (Nat.eqb f) l = Some (f, l').
Proof.
  intros Hin. destruct (cs_take_first_ex (Nat.eqb f) l f Hin (Nat.eqb_refl f)) as [f' [l' H]].
  destruct (cf_take_id_spec _ _ _ _ H) as [-> _]. eauto.
Qed.

(* the worker's channel receive = the refined atomic start of that very future *)
Lemma cf_ext_startid m g f q q' :
  c_queue m = f :: q -> c_take_first (Nat.eqb f) (c_queue g) = Some (f, q') ->
  cs_ext None None m g (cs_with m (c_futs m) (c_map m) q (c_running m ++ [f]))
    {| c_now := c_now g; c_futs := c_futs g; c_map := c_map g; c_queue := q';
       c_running := c_running g ++ [f]; c_displaced := c_displaced g |}.
Proof.
  intros Hq Et. destruct (cf_take_id_spec _ _ _ _ Et) as [_ HP].
  constructor; unfold cs_with, cs_fdone, cs_fpred, cs_A; cbn [c_futs c_map c_queue c_running c_now]; auto; try lia; try discriminate.
  - intros n Hin Hnm. apply (Permutation_in _ HP) in Hin. destruct Hin as [<-|Hin]; [|exact Hin].
    exfalso. apply Hnm. rewrite Hq. left. reflexivity.
  - intros n Hin. left. rewrite Hq. right. exact Hin.
  - intros f0 Hin _. apply in_or_app. left. exact Hin.
Qed.

Lemma cf_inv_startid cfg s f q' :
  c_inv cfg s -> c_take_first (Nat.eqb f) (c_queue s) = Some (f, q') ->
  c_inv cfg {| c_now := c_now s; c_futs := c_futs s; c_map := c_map s; c_queue := q';
               c_running := c_running s ++ [f]; c_displaced := c_displaced s |}.
Proof.
  intros I Et. destruct (cf_take_id_spec _ _ _ _ Et) as [_ HP].
  assert (HPP : Permutation (c_queue s ++ c_running s) (q' ++ c_running s ++ [f])).
  { eapply perm_trans; [apply Permutation_app_tail; exact HP|]. cbn.
    eapply perm_trans; [|apply Permutation_app_head; apply Permutation_cons_append].
    apply Permutation_middle. }
  destruct I as [I1 I2 I3 I4 I5 I6 I7]. constructor; cbn; auto.
  - eapply Permutation_NoDup; [exact HPP|exact I3].
  - intros g. rewrite <- I4. split; intros Hin.
    + eapply Permutation_in; [apply Permutation_sym; exact HPP|exact Hin].
    + eapply Permutation_in; [exact HPP|exact Hin].
Qed.

(* Set: both arenas get the same complete future, both maps the new entry *)
Lemma cf_ext_set m g k0 v e :
  c_now m = c_now g ->
  cf_ext None None m g (cs_set_entry m k0 v e (c_now m)) (c_set g k0 v e).
Proof.
  intros Hnow. constructor; unfold cs_set_entry, c_set, cs_with, cs_fdone, cs_fpred; cbn [c_futs c_map c_queue c_running c_now]; try lia; try discriminate; auto.
  - intros f r H. rewrite cs_fdone_app. pose proof (cs_fdone_lt m f r H) as Hlt. apply Nat.ltb_lt in Hlt. rewrite Hlt. exact H.
  - intros f r H. rewrite cs_fdone_app. pose proof (cs_fdone_lt g f r H) as Hlt. apply Nat.ltb_lt in Hlt. rewrite Hlt. exact H.
  - intros f r H Hp. rewrite cs_fpred_app. pose proof (cs_fdone_lt m f r H) as Hlt. apply Nat.ltb_lt in Hlt. rewrite Hlt. exact Hp.
  - intros f v0 e0 u H. rewrite cs_fdone_app in H. destruct (Nat.ltb f (length (c_futs m))); [left; exact H|].
    destruct (Nat.eqb f (length (c_futs m))); [|discriminate]. cbn in H. inversion H. right. reflexivity.
  - rewrite app_length. cbn. lia.
  - intros k f Hk [Hl Hi] _. rewrite c_lookup_update in Hk. pose proof (c_isload_lt _ _ Hi) as Hlt.
    destruct (k0 =? k) eqn:E; [rewrite Hl in Hk; inversion Hk; lia|].
    unfold cs_A; cbn [c_map c_futs]. split; [split|].
    + rewrite c_lookup_update, E. exact Hl.
    + apply c_isload_app. left. exact Hi.
    + rewrite cs_fpred_app. apply Nat.ltb_lt in Hlt. rewrite Hlt. reflexivity.
Qed.

(* ================================================================== steps of the Fixed order *)
(* ---------------- lock acquisition *)
Lemma cf_step_lock cfg s tid t op :
  c_cfg_ok cfg -> cf_inv cfg s -> nth_error (cs_thr s) tid = Some t -> ct_op t = Some op -> cs_blocked s t = false ->
  (exists k, ct_pc t = CsLBL k) \/ (exists k, ct_pc t = CsGBL k) \/ (exists k v e, ct_pc t = CsSBL k v e) \/ ct_pc t = CsZBL ->
  cf_inv cfg (fst (cs_go cfg s tid t op (ct_prog t) (cs_tstep CsFixed cfg s tid t))).
Proof.
  intros Hcfg I Ht Hop Hnb Hor. destruct (cf_thr_facts cfg s tid t I Ht) as [T Cn].
  assert (Hl : cs_lock s = None).
  { unfold cs_blocked in Hnb. destruct Hor as [[k Epc]|[[k Epc]|[[k [v [e Epc]]]|Epc]]]; rewrite Epc in Hnb; destruct (cs_lock s); congruence. }
  unfold cf_tinv in T. destruct Hor as [[k Epc]|[[k Epc]|[[k [v [e Epc]]]|Epc]]]; unfold cs_tstep; rewrite Epc in *; cbv zeta.
  - apply cf_park_inv; auto; try discriminate;
      first [solve [right; left; auto] | solve [cf_not_wsp Epc] | solve [cf_mid_tinv; rewrite <- Hop; exact T] | solve [left; reflexivity]].
  - apply cf_park_inv; auto; try discriminate;
      first [solve [right; left; auto] | solve [cf_not_wsp Epc] | solve [cf_mid_tinv; rewrite <- Hop; exact T] | solve [left; reflexivity]].
  - apply cf_park_inv; auto; try discriminate;
      first [solve [right; left; auto] | solve [cf_not_wsp Epc] | solve [cf_mid_tinv; discriminate] | solve [left; reflexivity]].
  - apply cf_park_inv; auto; try discriminate;
      first [solve [right; left; auto] | solve [cf_not_wsp Epc] | solve [cf_mid_tinv; discriminate] | solve [left; reflexivity]].
Qed.

Lemma cf_mrel_some cfg s k f : cf_inv cfg s -> c_lookup (c_map (cs_m s)) k = Some f ->
  c_lookup (c_map (cs_g s)) k = Some f \/
  (c_is_rotted cfg (c_now (cs_g s)) (c_futs (cs_g s)) f = true /\ cf_dead cfg (cs_g s) (c_lookup (c_map (cs_g s)) k)).
Proof. intros I H. destruct (fi_map _ _ I k) as [E|[E1 E2]]; [left; congruence|right]. rewrite H in E2. auto. Qed.

Lemma cf_mrel_none cfg s k : cf_inv cfg s -> c_lookup (c_map (cs_m s)) k = None -> cf_dead cfg (cs_g s) (c_lookup (c_map (cs_g s)) k).
Proof. intros I H. destruct (fi_map _ _ I k) as [E|[E1 E2]]; [rewrite E, H; exact Logic.I|exact E1]. Qed.

Lemma cf_lookup_lt cfg s k f : cf_inv cfg s -> c_lookup (c_map (cs_m s)) k = Some f -> (f < length (c_futs (cs_m s)))%nat.
Proof.
  intros I H. rewrite (fi_len _ _ I). destruct (cf_mrel_some cfg s k f I H) as [Hg|[Hr _]].
  - destruct (ci_map_wf _ _ (fi_g _ _ I) k f Hg) as [x [Hx _]]. eapply c_get_lt; eauto.
  - apply cf_rot_spec in Hr. destruct Hr as [v [e [u [Hd _]]]]. eapply cs_fdone_lt; eauto.
Qed.

Lemma cf_loading_A cfg s k f : cf_inv cfg s -> c_lookup (c_map (cs_m s)) k = Some f ->
  cs_fdone (cs_m s) f = None -> cs_A (cs_g s) k f.
Proof.
  intros I Hl Hd. pose proof (cf_lookup_lt cfg s k f I Hl) as Hlt.
  destruct (cf_mrel_some cfg s k f I Hl) as [Hg|[Hr _]].
  - split; [exact Hg|]. apply (cf_mg_loading cfg s f I Hlt Hd).
  - apply cf_rot_spec in Hr. destruct Hr as [v [e [u [Hdg _]]]].
    destruct (cf_mg_done cfg s f _ I Hdg) as [Hm _]. congruence.
Qed.

(* a future that is rotted in the ghost looks rotted in memory *)
Lemma cf_rot_status_of cfg g f v e u :
  c_is_rotted cfg (c_now g) (c_futs g) f = true -> cs_fdone g f = Some (v, e, u) ->
  cs_status_of cfg (c_now g - u) e = CRotted.
Proof.
  intros Hr Hd. apply cf_rot_spec in Hr. destruct Hr as [v' [e' [u' [Hd' [H1 H2]]]]]. rewrite Hd in Hd'. inversion Hd'; subst.
  unfold cs_status_of. cbv zeta. destruct (c_now g - u' <? c_expire cfg e') eqn:E1; [lia|].
  destruct (c_now g - u' <? 2 * c_expire cfg e') eqn:E2; [lia|reflexivity].
Qed.

(* the entry's status evaluated at this instant: either the entry is (abstractly) still
   loading and looks fresh, or memory and ghost agree on it (or the ghost has no / a rotted entry
   and this one is rotted) and the atomic event answers now what the code is about to decide *)
Lemma cf_status_cases cfg s w k f v e u :
  c_cfg_ok cfg -> cf_inv cfg s -> c_lookup (c_map (cs_m s)) k = Some f -> cs_fdone (cs_m s) f = Some (v, e, u) ->
  (cs_status_of cfg (c_now (cs_m s) - u) e = CGood /\ cs_A (cs_g s) k f) \/
  (cs_fdone (cs_g s) f = Some (v, e, u) /\ cs_fpred (cs_m s) f = None /\
   cs_cand cfg (cs_g s) (cs_rdop w k) =
     Some (match cs_status_of cfg (c_now (cs_m s) - u) e with
           | CGood => cs_out w f
           | CExpired => if w then OAwait f else OLoad f true
           | _ => if w then OImmediate else OLoad (length (c_futs (cs_g s))) true
           end)).
Proof.
  intros Hcfg I Hl Hd.
  destruct (cs_fdone (cs_g s) f) as [r|] eqn:Eg.
  - right. destruct (cf_mg_done cfg s f r I Eg) as [Hm Hp]. rewrite Hd in Hm. inversion Hm; subst r.
    split; [reflexivity|]. split; [exact Hp|]. rewrite (fi_now _ _ I).
    destruct (cf_mrel_some cfg s k f I Hl) as [Hg|[Hr Hdead]].
    + apply (cs_cand_done cfg (cs_g s) w k f v e u (fi_g _ _ I) Hg Eg).
    + rewrite (cf_rot_status_of cfg (cs_g s) f v e u Hr Eg). apply cf_cand_dead. exact Hdead.
  - left. pose proof (cf_mg_window cfg s f v e u I Hd Eg) as Hu. subst u.
    replace (c_now (cs_m s) - c_now (cs_m s)) with 0 by lia. split; [apply cs_status_fresh; exact Hcfg|].
    destruct (cf_mrel_some cfg s k f I Hl) as [Hg|[Hr _]].
    + split; [exact Hg|]. pose proof (cf_mg_get cfg s f I) as H. unfold cs_fdone in Hd, Eg.
      destruct (c_get (c_futs (cs_m s)) f) as [x|]; [|discriminate].
      destruct (c_get (c_futs (cs_g s)) f) as [y|] eqn:Ey; [|contradiction]. exists y. auto.
    + apply cf_rot_spec in Hr. destruct Hr as [v' [e' [u' [Hd' _]]]]. congruence.
Qed.

Lemma cf_return_inv cfg s tid t op prog res o :
  c_cfg_ok cfg -> cf_inv cfg s -> nth_error (cs_thr s) tid = Some t ->
  cf_holds (ct_pc t) = false -> (forall f v e n, ct_pc t <> CsWSP f v e n) ->
  cs_justified (cs_mid cfg t op prog (cs_return (cs_m s) (cs_lock s) (cs_g s) (ct_lin t) res o)) o = true ->
  cf_inv cfg (fst (cs_go cfg s tid t op prog (cs_return (cs_m s) (cs_lock s) (cs_g s) (ct_lin t) res o))).
Proof.
  intros Hcfg I Ht Hh Hpc Hj.
  destruct (cf_lockmove_ok cfg s tid t (cs_lock s) CsIdle I Ht) as [H1 H2].
  { left. split; [reflexivity|]. rewrite Hh. reflexivity. }
  apply cf_go_pure; auto;
    first [solve [unfold cs_next; cbn; reflexivity] | solve [left; reflexivity]
          | solve [eapply cs_mis_ret; [apply (fi_mis _ _ I)|reflexivity|reflexivity|exact Hj]]].
Qed.

(* ---------------- the steps that change neither memory nor ghost *)
Lemma cf_step_pure cfg s tid t op :
  c_cfg_ok cfg -> cf_inv cfg s -> nth_error (cs_thr s) tid = Some t -> ct_op t = Some op ->
  match ct_pc t with
  | CsLAL k => c_lookup (c_map (cs_m s)) k <> None
  | CsLLU _ _ | CsLAU _ _ _ | CsGAL _ | CsGAU _ | CsGLU _ | CsGRE _ _ | CsRLP _ _ | CsRPU _ _ _ | CsRPE _ _ _ _
  | CsXAU _ _ | CsWLD _ _ _ | CsSAL _ _ _ | CsSSU _ _ _ _ | CsSAU | CsZAU => True
  | CsLRE k f past => cs_status_of cfg past (cs_err_of (cs_m s) f) = CGood
  | CsGFW x => cs_fdone (cs_m s) x <> None
  | _ => False
  end ->
  cf_inv cfg (fst (cs_go cfg s tid t op (ct_prog t) (cs_tstep CsFixed cfg s tid t))).
Proof.
  intros Hcfg I Ht Hop Hside. destruct (cf_thr_facts cfg s tid t I Ht) as [T Cn].
  unfold cf_tinv in T.
  destruct (ct_pc t) eqn:Epc; try contradiction; unfold cs_tstep; rewrite Epc; cbv zeta.
  - (* LAL, entry present *)
    destruct (c_lookup (c_map (cs_m s)) k) as [f|] eqn:El; [|congruence].
    apply cf_park_inv; auto; try discriminate;
      first [solve [unfold cf_lockmove; rewrite Epc; left; split; reflexivity] | solve [cf_not_wsp Epc] | solve [left; reflexivity] | idtac].
    cf_mid_tinv. destruct T as [T1 T2]. rewrite <- Hop. auto.
  - (* LLU *)
    destruct T as [T1 [T2 T3]].
    destruct (cs_fdone (cs_m s) f) as [[[v e] u]|] eqn:Ed.
    + apply cf_park_inv; auto; try discriminate;
        first [solve [unfold cf_lockmove; rewrite Epc; left; split; reflexivity] | solve [cf_not_wsp Epc] | solve [left; reflexivity] | idtac].
      cf_mid_tinv. rewrite <- Hop. split; [exact T1|]. split; [exact T2|]. split; [exact T3|].
      exists v, e, u. split; [exact Ed|]. split; [reflexivity|]. intros Hs.
      destruct (cf_status_cases cfg s false k f v e u Hcfg I T3 Ed) as [[_ HA]|[Hg [Hp Hc]]]; [left; exact HA|].
      right. rewrite Hs in Hc. split; [|split; [exact Hp|eauto]].
      apply cs_mid_now. cbn [tr_g cs_park]. rewrite Hop in T1. inversion T1. exact Hc.
    + apply cf_park_inv; auto; try discriminate;
        first [solve [unfold cf_lockmove; rewrite Epc; left; split; reflexivity] | solve [cf_not_wsp Epc] | solve [left; reflexivity] | idtac].
      cf_mid_tinv. exists k. split; [rewrite <- Hop; exact T1|]. left. apply (cf_loading_A cfg s k f I T3 Ed).
  - (* LRE, Good *)
    destruct T as [T1 [T2 [T3 [v [e [u [T4 [T5 T6]]]]]]]]. rewrite Hside.
    apply cf_park_inv; auto; try discriminate;
      first [solve [unfold cf_lockmove; rewrite Epc; left; split; reflexivity] | solve [cf_not_wsp Epc] | solve [left; reflexivity] | idtac].
    cf_mid_tinv. exists k. split; [rewrite <- Hop; exact T1|]. apply cs_rd_mid. apply T6.
    unfold cs_err_of in Hside. rewrite T4 in Hside. exact Hside.
  - (* LAU *)
    destruct next as [n|]; [|contradiction]. destruct T as [k [T1 T2]].
    apply cf_park_inv; auto; try discriminate;
      first [solve [unfold cf_lockmove; rewrite Epc; left; split; reflexivity] | solve [cf_not_wsp Epc] | solve [left; reflexivity] | solve [right; rewrite Epc; reflexivity] | idtac].
    cf_mid_tinv. exists k. split; [rewrite <- Hop; exact T1|]. apply cs_pend_mid; [reflexivity|exact T2].
  - (* GAL *)
    destruct (c_lookup (c_map (cs_m s)) k) as [f|] eqn:El.
    + apply cf_park_inv; auto; try discriminate;
        first [solve [unfold cf_lockmove; rewrite Epc; left; split; reflexivity] | solve [cf_not_wsp Epc] | solve [left; reflexivity] | idtac].
      cf_mid_tinv. exists k. split; [rewrite <- Hop; exact T|exact El].
    + apply cf_park_inv; auto; try discriminate;
        first [solve [unfold cf_lockmove; rewrite Epc; right; right; auto] | solve [cf_not_wsp Epc] | solve [left; reflexivity] | idtac].
      cf_mid_tinv. exists k. split; [rewrite <- Hop; exact T|]. apply cs_mid_now. cbn [tr_g cs_park].
      rewrite Hop in T. inversion T. cbn [cs_cand]. rewrite (cf_get2_dead cfg (cs_g s) k (cf_mrel_none cfg s k I El)). reflexivity.
  - (* GAU *)
    destruct fo as [f|]; [contradiction|]. destruct T as [k [T1 T2]].
    apply cf_return_inv; auto; [rewrite Epc; reflexivity|cf_not_wsp Epc|].
    apply cs_just_cnd; [right; reflexivity|exact T2].
  - (* GLU *)
    destruct T as [k [T1 T2]]. destruct (cs_fdone (cs_m s) f) as [[[v e] u]|] eqn:Ed.
    + apply cf_park_inv; auto; try discriminate;
        first [solve [unfold cf_lockmove; rewrite Epc; left; split; reflexivity] | solve [cf_not_wsp Epc] | solve [left; reflexivity] | idtac].
      cf_mid_tinv. exists k. split; [rewrite <- Hop; exact T1|]. exists v, e, u. split; [exact Ed|].
      assert (Hopk : op = cs_rdop true k) by (rewrite Hop in T1; inversion T1; reflexivity).
      destruct (cf_status_cases cfg s true k f v e u Hcfg I T2 Ed) as [[Hs HA]|[Hg [Hp Hc]]].
      * rewrite Hs. left. exact HA.
      * rewrite <- Hopk in Hc. apply (cs_mid_now cfg t op (ct_prog t) (cs_park (cs_m s) (cs_lock s) (cs_g s) (ct_lin t) (CsGRE f (c_now (cs_m s) - u)))) in Hc.
        destruct (cs_status_of cfg (c_now (cs_m s) - u) e); try exact Hc.
        right. split; [exact Hc|]. split; [exact Hp|eauto].
    + apply cf_park_inv; auto; try discriminate;
        first [solve [unfold cf_lockmove; rewrite Epc; left; split; reflexivity] | solve [cf_not_wsp Epc] | solve [left; reflexivity] | idtac].
      cf_mid_tinv. exists k. split; [rewrite <- Hop; exact T1|]. left. apply (cf_loading_A cfg s k f I T2 Ed).
  - (* GRE *)
    destruct T as [k [T1 [v [e [u [T2 T3]]]]]]. unfold cs_err_of. rewrite T2.
    destruct (cs_status_of cfg past e) eqn:Es; unfold cs_fetched.
    + apply cf_park_inv; auto; try discriminate;
        first [solve [unfold cf_lockmove; rewrite Epc; right; right; auto] | solve [cf_not_wsp Epc] | solve [left; reflexivity] | idtac].
      cf_mid_tinv. exists k. split; [rewrite <- Hop; exact T1|]. apply cs_mid_cnd. exact T3.
    + apply cf_park_inv; auto; try discriminate;
        first [solve [unfold cf_lockmove; rewrite Epc; left; split; reflexivity] | solve [cf_not_wsp Epc] | solve [left; reflexivity] | idtac].
      cf_mid_tinv. exists k. split; [rewrite <- Hop; exact T1|]. apply cs_rd_mid. exact T3.
    + apply cf_park_inv; auto; try discriminate;
        first [solve [unfold cf_lockmove; rewrite Epc; right; right; auto] | solve [cf_not_wsp Epc] | solve [left; reflexivity] | idtac].
      cf_mid_tinv. split; [discriminate|]. apply cs_mid_cnd. exact T3.
    + apply cf_park_inv; auto; try discriminate;
        first [solve [unfold cf_lockmove; rewrite Epc; right; right; auto] | solve [cf_not_wsp Epc] | solve [left; reflexivity] | idtac].
      cf_mid_tinv. exists k. split; [rewrite <- Hop; exact T1|]. apply cs_mid_cnd. exact T3.
  - (* GFW *)
    destruct (cs_fdone (cs_m s) x) as [[[v e] u]|] eqn:Ed; [|congruence].
    destruct (cf_lockmove_ok cfg s tid t (cs_lock s) CsIdle I Ht) as [H1 H2].
    { left. split; [reflexivity|]. rewrite Epc. reflexivity. }
    apply cf_go_pure; auto; try (left; reflexivity).
    + cf_not_wsp Epc.
    + unfold cs_next. cbn. reflexivity.
    + apply cs_mis_park; [apply (fi_mis _ _ I)|reflexivity|reflexivity].
  - (* RLP *)
    destruct T as [k [Hk T]]. destruct (cs_fpred (cs_m s) f) as [p|] eqn:Ep; unfold cs_fetched.
    + apply cf_park_inv; auto; try discriminate;
        first [solve [unfold cf_lockmove; rewrite Epc; left; split; reflexivity] | solve [cf_not_wsp Epc] | solve [left; reflexivity] | idtac].
      cf_mid_tinv. exists k. split; [rewrite <- Hop; exact Hk|]. destruct T as [HA|[_ [H2 _]]]; [|congruence].
      rewrite (cf_mg_pred cfg s f I) in Ep. destruct HA as [Hl [x [Hx Hxd]]].
      assert (Hxp : c_fpred x = Some p). { unfold cs_fpred in Ep. rewrite Hx in Ep. exact Ep. }
      destruct (ci_pred _ _ (fi_g _ _ I) f x p Hx Hxp) as [_ [y [v [e [u [Hy [_ [Hyd Hage]]]]]]]].
      assert (Hgp : cs_fdone (cs_g s) p = Some (v, e, u)). { unfold cs_fdone. rewrite Hy. exact Hyd. }
      exists v, e, u. split; [apply (cf_mg_done cfg s p _ I Hgp)|]. split; [exact Hgp|]. split; [exact Hage|].
      left. split; [split; [exact Hl|exists x; auto]|exact Ep].
    + assert (Hj : cs_cnd t (cs_out w f)).
      { destruct T as [HA|[H1 _]]; [|exact H1].
        pose proof (Cn _ _ Hk (cs_cand_A cfg (cs_g s) w k f HA)) as Hc.
        rewrite cs_fetch_nopred in Hc; [exact Hc|]. rewrite <- (cf_mg_pred cfg s f I). exact Ep. }
      apply cf_park_inv; auto; try discriminate;
        first [solve [unfold cf_lockmove; rewrite Epc; right; right; auto] | solve [cf_not_wsp Epc] | solve [left; reflexivity] | idtac].
      cf_mid_tinv. split; [discriminate|]. apply cs_mid_cnd. exact Hj.
  - (* RPU *)
    destruct T as [k [Hk [v [e [u [Hdm [Hdg [Hage Hor]]]]]]]]. rewrite Hdm.
    apply cf_park_inv; auto; try discriminate;
      first [solve [unfold cf_lockmove; rewrite Epc; left; split; reflexivity] | solve [cf_not_wsp Epc] | solve [left; reflexivity] | idtac].
    cf_mid_tinv. split; [discriminate|]. exists v, e, u. split; [exact Hdm|]. apply cs_mid_cnd. rewrite (fi_now _ _ I).
    unfold cs_status_of. destruct (c_now (cs_g s) - u <? c_expire cfg e) eqn:E1; [lia|].
    destruct Hor as [[HA Hp]|[Hc Hor]].
    + pose proof (Cn _ _ Hk (cs_cand_A cfg (cs_g s) w k f HA)) as Hc.
      rewrite (cs_fetch_pred cfg (cs_g s) f p v e u Hp Hdg Hage) in Hc.
      destruct (c_now (cs_g s) - u <? 2 * c_expire cfg e); exact Hc.
    + destruct (c_now (cs_g s) - u <? 2 * c_expire cfg e) eqn:E2; [|exact Hc].
      destruct Hor as [Hc'|Hr]; [exact Hc'|lia].
  - (* RPE *)
    destruct T as [_ [v [e [u [Hd Hc]]]]]. unfold cs_err_of. rewrite Hd. unfold cs_fetched.
    destruct (cs_status_of cfg past e);
      (apply cf_park_inv; auto; try discriminate;
        first [solve [unfold cf_lockmove; rewrite Epc; right; right; auto] | solve [cf_not_wsp Epc] | solve [left; reflexivity] | idtac];
       cf_mid_tinv; split; [discriminate|apply cs_mid_cnd; exact Hc]).
  - (* XAU *)
    destruct T as [_ Hc]. unfold cs_fetched_now. destruct w.
    + destruct (cf_lockmove_ok cfg s tid t (cs_lock s) (CsGFW x) I Ht) as [H1 H2].
      { left. split; [reflexivity|]. rewrite Epc. reflexivity. }
      apply cf_go_pure; auto; try (left; reflexivity).
      * cf_not_wsp Epc.
      * rewrite cs_next_mid by discriminate. unfold cf_tinv. rewrite cs_mid_pc, cs_mid_op. cbn. discriminate.
      * eapply cs_mis_ret; [apply (fi_mis _ _ I)|reflexivity|reflexivity|].
        apply cs_just_cnd; [left; exists true, x; reflexivity|exact Hc].
    + apply cf_return_inv; auto; [rewrite Epc; reflexivity|cf_not_wsp Epc|].
      apply cs_just_cnd; [left; exists false, x; reflexivity|exact Hc].
  - (* SAL *)
    apply cf_park_inv; auto; try discriminate;
      first [solve [unfold cf_lockmove; rewrite Epc; left; split; reflexivity] | solve [cf_not_wsp Epc] | solve [left; reflexivity] | idtac].
    cf_mid_tinv. split; [discriminate|reflexivity].
  - (* SSU *)
    destruct T as [T0 T1].
    apply cf_park_inv; auto; try discriminate;
      first [solve [unfold cf_lockmove; rewrite Epc; left; split; reflexivity] | solve [cf_not_wsp Epc] | solve [left; reflexivity] | idtac].
    cf_mid_tinv. split; [discriminate|exact T1].
  - (* SAU *)
    apply cf_return_inv; auto; [rewrite Epc; reflexivity|cf_not_wsp Epc].
  - (* WLD *)
    destruct T as [T0 T1].
    apply cf_park_inv; auto; try discriminate;
      first [solve [unfold cf_lockmove; rewrite Epc; left; split; reflexivity] | solve [cf_not_wsp Epc] | solve [left; reflexivity] | solve [right; rewrite Epc; reflexivity] | idtac].
    cf_mid_tinv. split; [discriminate|]. auto.
  - (* ZAU *)
    apply cf_return_inv; auto; [rewrite Epc; reflexivity|cf_not_wsp Epc].
Qed.

(* ---------------- helpers for the steps that change memory *)
Lemma cf_fut_new cfg s tid t op prog r xnew :
  cf_inv cfg s -> nth_error (cs_thr s) tid = Some t -> (forall f v e n, ct_pc t <> CsWSP f v e n) ->
  c_futs (tr_m r) = c_futs (cs_m s) ++ [xnew] -> c_futs (tr_g r) = c_futs (cs_g s) ++ [xnew] ->
  c_now (tr_m r) = c_now (cs_m s) ->
  cs_futrel (fst (cs_go cfg s tid t op prog r)).
Proof.
  intros I Ht Hpc Hfm Hfg Hn f x Hx. change (cs_m (fst (cs_go cfg s tid t op prog r))) with (tr_m r) in *.
  change (cs_g (fst (cs_go cfg s tid t op prog r))) with (tr_g r). rewrite Hfm in Hx. rewrite Hfg, Hn.
  apply c_get_app_inv in Hx. destruct Hx as [Hx|[Hf Hxx]].
  - destruct (fi_fut _ _ I f x Hx) as [y [Hy [Hk [Hp Hd]]]]. exists y. split; [apply c_get_app_old; exact Hy|].
    split; [exact Hk|]. split; [exact Hp|].
    destruct Hd as [Hd|[Hd [j [tj [v [e [Hj [Hpcj Hdx]]]]]]]]; [left; exact Hd|right].
    split; [exact Hd|]. exists j, (cs_note cfg (tr_g r) tj), v, e.
    assert (Hne : j <> tid). { intros ->. rewrite Ht in Hj. inversion Hj; subst. exact (Hpc _ _ _ _ Hpcj). }
    split; [apply cs_wit_keep; auto|]. rewrite cs_note_pc. auto.
  - subst. exists xnew. rewrite (fi_len _ _ I). split; [apply c_get_app_new|]. auto.
Qed.

Lemma cf_queue_range cfg s f : cf_inv cfg s -> In f (c_queue (cs_m s)) -> (f < length (c_futs (cs_m s)))%nat.
Proof.
  intros I H. apply (fi_queue _ _ I) in H. rewrite (fi_len _ _ I). apply c_isload_lt.
  apply (ci_jobs _ _ (fi_g _ _ I)). apply in_or_app. left. exact H.
Qed.


Lemma cf_load_decide cfg s k f v e u :
  cf_inv cfg s -> c_lookup (c_map (cs_m s)) k = Some f -> cs_fdone (cs_g s) f = Some (v, e, u) ->
  cs_status_of cfg (c_now (cs_g s) - u) e <> CGood ->
  c_load cfg (cs_g s) k =
    match cs_status_of cfg (c_now (cs_g s) - u) e with
    | CExpired => (c_new_job (cs_g s) k (Some f), OLoad f true)
    | _ => (c_new_job (cs_g s) k None, OLoad (length (c_futs (cs_g s))) true)
    end /\
  forall f0, ~ cs_A (cs_g s) k f0.
Proof.
  intros I Hl Hd Hs. destruct (cf_mrel_some cfg s k f I Hl) as [Hg|[Hr Hdead]].
  - split; [apply (cs_load_eq cfg (cs_g s) k f v e u Hg Hd Hs)|].
    intros f0 [Hl0 Hi]. rewrite Hg in Hl0. inversion Hl0; subst f0. apply cs_isload_fdone in Hi. congruence.
  - rewrite (cf_rot_status_of cfg (cs_g s) f v e u Hr Hd). split; [apply cf_load_dead; exact Hdead|].
    intros f0. apply (cf_dead_not_A cfg). exact Hdead.
Qed.

Lemma cf_create_inv cfg s tid t op k st last pred o :
  c_cfg_ok cfg -> cf_inv cfg s -> nth_error (cs_thr s) tid = Some t -> ct_op t = Some op -> op = CsLoad k ->
  ct_pc t = CsLAL k \/ (exists f past, ct_pc t = CsLRE k f past) ->
  st <> CGood -> (forall f, ~ cs_A (cs_g s) k f) ->
  c_load cfg (cs_g s) k = (c_new_job (cs_g s) k pred, o) ->
  o = OLoad (match st, last with CExpired, Some f => f | _, _ => length (c_futs (cs_m s)) end) true ->
  let r := {| tr_m := cs_new_entry (cs_m s) k pred; tr_lock := None; tr_g := c_new_job (cs_g s) k pred; tr_emit := [CLoad k];
              tr_pc := CsLAU st last (Some (length (c_futs (cs_m s)))); tr_ev := CsEvYield 3 None; tr_lin := Some o;
              tr_ret := None; tr_chk := None |} in
  cf_inv cfg (fst (cs_go cfg s tid t op (ct_prog t) r)).
Proof.
  intros Hcfg I Ht Hop Hopk Hpc Hst Hno Hload Ho r.
  destruct (cf_thr_facts cfg s tid t I Ht) as [T Cn].
  assert (Hh : cf_holds (ct_pc t) = true). { destruct Hpc as [->|[f [past ->]]]; reflexivity. }
  assert (Hnw : forall f v e n, ct_pc t <> CsWSP f v e n). { intros f v e n. destruct Hpc as [->|[f0 [past ->]]]; discriminate. }
  assert (Hlk : cs_lock s = Some tid). { apply (fi_lock _ _ I tid t Ht). exact Hh. }
  assert (Ig' : c_inv cfg (c_new_job (cs_g s) k pred)).
  { pose proof (c_inv_step cfg (cs_g s) (CLoad k) (fi_g _ _ I)) as H. cbn [c_step] in H. rewrite Hload in H. exact H. }
  pose proof (cs_ext_new (cs_m s) (cs_g s) k pred Hno) as X.
  apply (cf_go_inv cfg s tid t op (ct_prog t) r None None Hcfg I Ht); unfold r; cbn [tr_m tr_g tr_lock tr_pc tr_ret tr_chk tr_lin].
  - apply cf_ext_of_cs. exact X.
  - exact Ig'.
  - reflexivity.
  - reflexivity.
  - cbn [cs_new_entry cs_with c_map]. rewrite (fi_len _ _ I).
    apply (cf_mrel_update cfg (cs_g s) (c_new_job (cs_g s) k pred)); [apply (x_done_g _ _ _ _ _ _ X)|apply (x_now_g _ _ _ _ _ _ X)|reflexivity|apply (fi_map _ _ I)].
  - cbn [cs_new_entry cs_with c_map]. apply c_update_nodup. apply (fi_mkeys _ _ I).
  - cbn. rewrite !app_length, (fi_len _ _ I). reflexivity.
  - apply (cf_fut_new cfg s tid t op (ct_prog t) r {| c_fkey := k; c_fdone := None; c_fpred := pred |} I Ht Hnw); reflexivity.
  - cbn. intros f H. apply in_or_app. left. apply (fi_queue _ _ I). exact H.
  - cbn. apply (fi_qnodup _ _ I).
  - right. right. auto.
  - cbn. split; discriminate.
  - right. exact Hlk.
  - left. reflexivity.
  - left. reflexivity.
  - rewrite cs_next_mid by (cbn; discriminate). unfold cf_tinv. rewrite cs_mid_pc, cs_mid_op, cs_mid_lin. cbn [tr_pc tr_lin].
    exists k. split; [rewrite Hopk; reflexivity|]. unfold cs_pend. rewrite cs_mid_lin. cbn [tr_lin tr_m tr_g c_queue c_futs cs_new_entry c_new_job cs_with].
    split; [exact Hst|]. split; [rewrite Ho; reflexivity|]. split; [apply in_or_app; right; rewrite (fi_len _ _ I); left; reflexivity|].
    split; [intros H; apply (cf_queue_range cfg s _ I) in H; lia|rewrite app_length; cbn; lia].
  - cbn. discriminate.
  - cbn. intros n Hn j tj Hne Hj Hc. inversion Hn; subst n.
    destruct (fi_thr _ _ I j tj Hj) as [Tj _]. unfold cf_tinv in Tj.
    destruct (ct_pc tj); try discriminate Hc.
    + destruct next as [n'|]; [|discriminate]. inversion Hc; subst. destruct Tj as [k0 [_ [_ [_ [_ [_ H]]]]]]. lia.
    + inversion Hc; subst. destruct Tj as [k0 [_ [_ [_ [_ [_ H]]]]]]. lia.
  - apply cs_mis_park; [apply (fi_mis _ _ I)|reflexivity|reflexivity].
Qed.

Lemma cf_step_create cfg s tid t op :
  c_cfg_ok cfg -> cf_inv cfg s -> nth_error (cs_thr s) tid = Some t -> ct_op t = Some op ->
  match ct_pc t with
  | CsLAL k => c_lookup (c_map (cs_m s)) k = None
  | CsLRE k f past => cs_status_of cfg past (cs_err_of (cs_m s) f) <> CGood
  | _ => False
  end ->
  cf_inv cfg (fst (cs_go cfg s tid t op (ct_prog t) (cs_tstep CsFixed cfg s tid t))).
Proof.
  intros Hcfg I Ht Hop Hside. destruct (cf_thr_facts cfg s tid t I Ht) as [T Cn]. unfold cf_tinv in T.
  destruct (ct_pc t) eqn:Epc; try contradiction; unfold cs_tstep; rewrite Epc; cbv zeta.
  - (* LAL, absent *)
    destruct T as [T1 T2]. rewrite Hside. unfold cs_lin_load.
    pose proof (cf_mrel_none cfg s k I Hside) as Hdead.
    pose proof (cf_load_dead cfg (cs_g s) k Hdead) as Hload.
    rewrite Hload.
    apply (cf_create_inv cfg s tid t op k CEmpty None None _ Hcfg I Ht Hop); auto;
      first [solve [rewrite Hop in T1; inversion T1; reflexivity] | solve [discriminate]
            | solve [intros f0; apply (cf_dead_not_A cfg); exact Hdead] | solve [rewrite (fi_len _ _ I); reflexivity]].
  - (* LRE, not Good *)
    destruct T as [T1 [T2 [T3 [v [e [u [T4 [T5 T6]]]]]]]]. unfold cs_err_of in *. rewrite T4 in *.
    destruct (cf_status_cases cfg s false k f v e u Hcfg I T3 T4) as [[Hs _]|[Hgd _]]; [rewrite <- T5 in Hs; congruence|].
    assert (Hside' : cs_status_of cfg (c_now (cs_g s) - u) e <> CGood) by (rewrite <- (fi_now _ _ I), <- T5; exact Hside).
    destruct (cf_load_decide cfg s k f v e u I T3 Hgd Hside') as [Hload HnoA]. rewrite <- (fi_now _ _ I), <- T5 in Hload.
    unfold cs_lin_load.
    assert (Hopk : op = CsLoad k) by (rewrite Hop in T1; inversion T1; reflexivity).
    destruct (cs_status_of cfg past e) eqn:Es; try congruence;
      [exfalso; exact (cs_status_of_nonempty _ _ _ Es)| |]; rewrite Hload.
    + apply (cf_create_inv cfg s tid t op k CExpired (Some f) (Some f) _ Hcfg I Ht Hop Hopk); auto;
        first [solve [right; eauto] | solve [discriminate] | solve [rewrite (fi_len _ _ I); reflexivity]].
    + apply (cf_create_inv cfg s tid t op k CRotted (Some f) None _ Hcfg I Ht Hop Hopk); auto;
        first [solve [right; eauto] | solve [discriminate] | solve [rewrite (fi_len _ _ I); reflexivity]].
Qed.

(* ---------------- sendJob *)
Lemma cf_step_send cfg s tid t op st last n :
  c_cfg_ok cfg -> cf_inv cfg s -> nth_error (cs_thr s) tid = Some t -> ct_op t = Some op -> ct_pc t = CsLSJ st last n ->
  cf_inv cfg (fst (cs_go cfg s tid t op (ct_prog t) (cs_tstep CsFixed cfg s tid t))).
Proof.
  intros Hcfg I Ht Hop Epc. destruct (cf_thr_facts cfg s tid t I Ht) as [T Cn]. unfold cf_tinv in T.
  unfold cs_tstep. rewrite Epc in *. cbv zeta. destruct T as [k [T1 [P1 [P2 [P3 [P4 P5]]]]]].
  set (rr := match st, last with CExpired, Some f => f | _, _ => n end) in *.
  assert (Hh : (false = true <-> cs_lock s = Some tid)).
  { split; [discriminate|]. intros H. apply (fi_lock _ _ I tid t Ht) in H. rewrite Epc in H. discriminate. }
  apply (cf_go_inv cfg s tid t op (ct_prog t) _ (Some n) None Hcfg I Ht); unfold cs_return; cbn [tr_m tr_g tr_lock tr_pc tr_ret tr_chk tr_lin].
  - apply cf_ext_of_cs. apply cs_ext_enqueue.
  - apply (fi_g _ _ I).
  - reflexivity.
  - reflexivity.
  - cbn. apply (fi_map _ _ I).
  - cbn. apply (fi_mkeys _ _ I).
  - cbn. apply (fi_len _ _ I).
  - apply cf_fut_keep; auto; try reflexivity. intros f v e n0. rewrite Epc. discriminate.
  - cbn. intros f H. apply in_app_or in H. destruct H as [H|[<-|[]]]; [apply (fi_queue _ _ I); exact H|exact P3].
  - cbn. apply NoDup_app_intro_single; [apply (fi_qnodup _ _ I)|exact P4].
  - left. reflexivity.
  - cbn. exact Hh.
  - left. split; reflexivity.
  - right. rewrite Epc. reflexivity.
  - left. reflexivity.
  - unfold cs_next. cbn. reflexivity.
  - cbn. discriminate.
  - cbn. discriminate.
  - eapply cs_mis_ret; [apply (fi_mis _ _ I)|reflexivity|reflexivity|].
    cbn [cs_justified]. rewrite cs_mid_lin. cbn [tr_lin]. rewrite P2. apply cs_out_eqb_spec. reflexivity.
Qed.
(* ---------------- the worker's stores *)
Lemma cf_worker_loading cfg s tid t f :
  cf_inv cfg s -> nth_error (cs_thr s) tid = Some t -> cs_wfut (ct_pc t) = Some f ->
  (forall v e n, ct_pc t <> CsWSP f v e n) -> In f (c_running (cs_g s)) ->
  c_isload (c_futs (cs_g s)) f /\ exists x, c_get (c_futs (cs_m s)) f = Some x /\ c_fdone x = None.
Proof.
  intros I Ht Hw Hpc Hin.
  assert (Hi : c_isload (c_futs (cs_g s)) f). { apply (ci_jobs _ _ (fi_g _ _ I)). apply in_or_app. right. exact Hin. }
  split; [exact Hi|]. destruct Hi as [y [Hy Hyd]]. pose proof (c_get_lt _ _ _ Hy) as Hlt. rewrite <- (fi_len _ _ I) in Hlt.
  destruct (c_get (c_futs (cs_m s)) f) as [x|] eqn:Ex; [|unfold c_get in Ex; apply nth_error_None in Ex; lia].
  exists x. split; [reflexivity|]. destruct (fi_fut _ _ I f x Ex) as [y' [Hy' [_ [_ Hd]]]]. rewrite Hy in Hy'. inversion Hy'; subst y'.
  destruct Hd as [Hd|[_ [j [tj [v [e [Hj [Hpcj _]]]]]]]]; [congruence|].
  assert (j = tid). { eapply (fi_wuniq _ _ I j tid tj t f Hj Ht); [rewrite Hpcj; reflexivity|exact Hw]. }
  subst j. rewrite Ht in Hj. inversion Hj; subst tj. exfalso. exact (Hpc _ _ _ Hpcj).
Qed.

(* one future changes in memory (and possibly in the ghost) *)
Lemma cf_fut_set cfg s tid t op prog r f x y x' y' :
  cf_inv cfg s -> nth_error (cs_thr s) tid = Some t ->
  c_get (c_futs (cs_m s)) f = Some x -> c_get (c_futs (cs_g s)) f = Some y ->
  c_futs (tr_m r) = c_setfut (c_futs (cs_m s)) f x' ->
  (c_futs (tr_g r) = c_setfut (c_futs (cs_g s)) f y' \/ (c_futs (tr_g r) = c_futs (cs_g s) /\ y' = y)) ->
  c_now (tr_m r) = c_now (cs_m s) ->
  (c_fkey y' = c_fkey x' /\ c_fpred y' = c_fpred x' /\
   (c_fdone y' = c_fdone x' \/
    (c_fdone y' = None /\ exists v e, tr_pc r = CsWSP f v e (c_now (cs_m s)) /\ c_fdone x' = Some (v, e, c_now (cs_m s))))) ->
  (forall f' v e n, ct_pc t = CsWSP f' v e n -> f' = f) ->
  cs_futrel (fst (cs_go cfg s tid t op prog r)).
Proof.
  intros I Ht Hx Hy Hfm Hfg Hn Hf Hoth f0 x0 Hx0.
  change (cs_m (fst (cs_go cfg s tid t op prog r))) with (tr_m r) in *.
  change (cs_g (fst (cs_go cfg s tid t op prog r))) with (tr_g r).
  pose proof (c_get_lt _ _ _ Hx) as Hltm. pose proof (c_get_lt _ _ _ Hy) as Hltg.
  rewrite Hfm, c_get_setfut in Hx0 by exact Hltm. rewrite Hn.
  assert (Hgy : forall g0, c_get (c_futs (tr_g r)) g0 = if Nat.eqb g0 f then Some y' else c_get (c_futs (cs_g s)) g0).
  { intros g0. destruct Hfg as [Hfg|[Hfg ->]]; rewrite Hfg.
    - apply c_get_setfut. exact Hltg.
    - destruct (Nat.eqb g0 f) eqn:E; [apply Nat.eqb_eq in E; subst; exact Hy|reflexivity]. }
  rewrite Hgy. destruct (Nat.eqb f0 f) eqn:E.
  - apply Nat.eqb_eq in E. subst f0. inversion Hx0; subst x0. exists y'. split; [reflexivity|].
    destruct Hf as [Hk [Hp Hd]]. split; [exact Hk|]. split; [exact Hp|].
    destruct Hd as [Hd|[Hd [v [e [Hpc Hdx]]]]]; [left; exact Hd|right]. split; [exact Hd|].
    exists tid, (cs_next cfg t op prog r), v, e. split; [apply cs_wit_self; exact Ht|]. rewrite cs_next_pc. auto.
  - destruct (fi_fut _ _ I f0 x0 Hx0) as [y0 [Hy0 [Hk [Hp Hd]]]]. exists y0. split; [exact Hy0|]. split; [exact Hk|]. split; [exact Hp|].
    destruct Hd as [Hd|[Hd [j [tj [v0 [e0 [Hj [Hpcj Hdx]]]]]]]]; [left; exact Hd|right]. split; [exact Hd|].
    exists j, (cs_note cfg (tr_g r) tj), v0, e0.
    assert (Hne : j <> tid).
    { intros ->. rewrite Ht in Hj. inversion Hj; subst tj. apply Nat.eqb_neq in E. apply E. eapply Hoth; eauto. }
    split; [apply (cs_wit_keep cfg s tid t op prog r j tj Ht Hj Hne)|]. rewrite cs_note_pc. auto.
Qed.

Lemma cf_step_store_done cfg s tid t op f v e now :
  c_cfg_ok cfg -> cf_inv cfg s -> nth_error (cs_thr s) tid = Some t -> ct_op t = Some op -> ct_pc t = CsWSU f v e now ->
  cf_inv cfg (fst (cs_go cfg s tid t op (ct_prog t) (cs_tstep CsFixed cfg s tid t))).
Proof.
  intros Hcfg I Ht Hop Epc. destruct (cf_thr_facts cfg s tid t I Ht) as [T Cn]. unfold cf_tinv in T.
  rewrite Epc in T. destruct T as [T0 [T1 T2]]. subst now.
  destruct (cf_worker_loading cfg s tid t f I Ht) as [Hil [x [Hx Hxd]]]; [rewrite Epc; reflexivity|intros v0 e0 n0; rewrite Epc; discriminate|exact T1|].
  pose proof (c_get_lt _ _ _ Hx) as Hlt. destruct Hil as [y [Hy Hyd]].
  unfold cs_tstep. rewrite Epc. cbv zeta.
  assert (Hh : (false = true <-> cs_lock s = Some tid)).
  { split; [discriminate|]. intros H. apply (fi_lock _ _ I tid t Ht) in H. rewrite Epc in H. discriminate. }
  assert (Hsd : cs_store_done (cs_m s) f (v, e, c_now (cs_m s)) =
                cs_with (cs_m s) (c_setfut (c_futs (cs_m s)) f {| c_fkey := c_fkey x; c_fdone := Some (v, e, c_now (cs_m s)); c_fpred := c_fpred x |})
                  (c_map (cs_m s)) (c_queue (cs_m s)) (c_running (cs_m s))).
  { unfold cs_store_done. rewrite Hx. reflexivity. }
  apply (cf_go_inv cfg s tid t op (ct_prog t) _ None None Hcfg I Ht); unfold cs_park; cbn [tr_m tr_g tr_lock tr_pc tr_ret tr_chk tr_lin].
  - apply cf_ext_of_cs. eapply cs_ext_store_done; eauto.
  - apply (fi_g _ _ I).
  - rewrite Hsd. reflexivity.
  - reflexivity.
  - rewrite Hsd. cbn. apply (fi_map _ _ I).
  - rewrite Hsd. cbn. apply (fi_mkeys _ _ I).
  - rewrite Hsd. cbn. rewrite c_setfut_length by exact Hlt. apply (fi_len _ _ I).
  - eapply (cf_fut_set cfg s tid t op (ct_prog t) _ f x y _ y I Ht Hx Hy); cbn [tr_m tr_g tr_pc].
    + rewrite Hsd. reflexivity.
    + right. split; reflexivity.
    + rewrite Hsd. reflexivity.
    + cbn [c_fkey c_fpred c_fdone]. destruct (fi_fut _ _ I f x Hx) as [y0 [Hy0 [Hk [Hp _]]]]. rewrite Hy in Hy0. inversion Hy0; subst y0.
      split; [exact Hk|]. split; [exact Hp|]. right. split; [exact Hyd|]. eauto.
    + intros f' v0 e0 n0 H. rewrite Epc in H. discriminate.
  - rewrite Hsd. cbn. apply (fi_queue _ _ I).
  - rewrite Hsd. cbn. apply (fi_qnodup _ _ I).
  - left. reflexivity.
  - cbn. exact Hh.
  - left. rewrite Hsd. split; reflexivity.
  - left. reflexivity.
  - left. reflexivity.
  - rewrite cs_next_mid by (cbn; discriminate). unfold cf_tinv. rewrite cs_mid_pc, cs_mid_op. cbn [tr_pc].
    split; [discriminate|]. split; [exact T1|]. rewrite Hsd. cbn [c_now cs_with]. split; [reflexivity|].
    unfold cs_fdone, cs_with. cbn [c_futs]. rewrite c_get_setfut by exact Hlt. rewrite Nat.eqb_refl. reflexivity.
  - cbn. intros f0 Hf0 j tj Hne Hj Hc. inversion Hf0; subst f0. apply Hne.
    eapply (fi_wuniq _ _ I j tid tj t f); eauto. rewrite Epc. reflexivity.
  - cbn. discriminate.
  - apply cs_mis_park; [apply (fi_mis _ _ I)|reflexivity|reflexivity].
Qed.

Lemma cf_step_store_pred cfg s tid t op f v e now :
  c_cfg_ok cfg -> cf_inv cfg s -> nth_error (cs_thr s) tid = Some t -> ct_op t = Some op -> ct_pc t = CsWSP f v e now ->
  cf_inv cfg (fst (cs_go cfg s tid t op (ct_prog t) (cs_tstep CsFixed cfg s tid t))).
Proof.
  intros Hcfg I Ht Hop Epc. destruct (cf_thr_facts cfg s tid t I Ht) as [T Cn]. unfold cf_tinv in T.
  rewrite Epc in T. destruct T as [T0 [T1 [T2 T3]]]. subst now.
  pose proof (fi_g _ _ I) as Ig.
  assert (Hil : c_isload (c_futs (cs_g s)) f). { apply (ci_jobs _ _ Ig). apply in_or_app. right. exact T1. }
  destruct Hil as [y [Hy Hyd]]. destruct (cs_fdone_get _ _ _ T3) as [x [Hx Hxd]].
  pose proof (c_get_lt _ _ _ Hx) as Hltm. pose proof (c_get_lt _ _ _ Hy) as Hltg.
  destruct (fi_fut _ _ I f x Hx) as [y0 [Hy0 [Hk [Hp _]]]]. rewrite Hy in Hy0. inversion Hy0; subst y0.
  set (k := cs_fkey (cs_g s) f).
  assert (Hkey : c_key_is (c_futs (cs_g s)) k f = true).
  { unfold c_key_is, k, cs_fkey. rewrite Hy. apply Z.eqb_refl. }
  destruct (cs_rank_take (c_key_is (c_futs (cs_g s)) k) f (c_running (cs_g s)) T1 Hkey) as [r' Hr'].
  set (g' := {| c_now := c_now (cs_g s);
                c_futs := c_setfut (c_futs (cs_g s)) f {| c_fkey := k; c_fdone := Some (v, e, c_now (cs_g s)); c_fpred := None |};
                c_map := c_map (cs_g s); c_queue := c_queue (cs_g s); c_running := r'; c_displaced := c_displaced (cs_g s) |}).
  assert (Hfin : c_finish (cs_g s) k (cs_rank (c_key_is (c_futs (cs_g s)) k) f (c_running (cs_g s))) v e = (g', OFinish f)).
  { unfold c_finish. rewrite Hr'. reflexivity. }
  unfold cs_tstep. rewrite Epc. cbv zeta. fold k. rewrite Hfin.
  assert (Hh : (false = true <-> cs_lock s = Some tid)).
  { split; [discriminate|]. intros H. apply (fi_lock _ _ I tid t Ht) in H. rewrite Epc in H. discriminate. }
  assert (Hsp : cs_store_pred_nil (cs_m s) f =
                cs_with (cs_m s) (c_setfut (c_futs (cs_m s)) f {| c_fkey := c_fkey x; c_fdone := c_fdone x; c_fpred := None |})
                  (c_map (cs_m s)) (c_queue (cs_m s)) (c_running (cs_m s))).
  { unfold cs_store_pred_nil. rewrite Hx. reflexivity. }
  assert (X : cs_ext None (Some f) (cs_m s) (cs_g s) (cs_store_pred_nil (cs_m s) f) g').
  { eapply (cs_ext_finish cfg (cs_m s) (cs_g s) f x v e k _ g' Ig (fi_now _ _ I) Hx Hxd); [exists y; auto|exact Hfin]. }
  apply (cf_go_inv cfg s tid t op (ct_prog t) _ None (Some f) Hcfg I Ht); cbn [tr_m tr_g tr_lock tr_pc tr_ret tr_chk tr_lin].
  - exact (cf_ext_of_cs _ _ _ _ _ _ X).
  - eapply c_inv_finish; [exact Ig|exact Hfin].
  - rewrite Hsp. reflexivity.
  - reflexivity.
  - rewrite Hsp. cbn [cs_with c_map].
    apply (cf_mrel_mono cfg (cs_g s) g'); [apply (x_done_g _ _ _ _ _ _ X)|apply (x_now_g _ _ _ _ _ _ X)|reflexivity|apply (fi_map _ _ I)].
  - rewrite Hsp. cbn. apply (fi_mkeys _ _ I).
  - rewrite Hsp. cbn. rewrite !c_setfut_length by assumption. apply (fi_len _ _ I).
  - eapply (cf_fut_set cfg s tid t op (ct_prog t) _ f x y _ _ I Ht Hx Hy); cbn [tr_m tr_g tr_pc].
    + rewrite Hsp. reflexivity.
    + left. reflexivity.
    + rewrite Hsp. reflexivity.
    + cbn [c_fkey c_fpred c_fdone]. split; [unfold k, cs_fkey; rewrite Hy; exact Hk|]. split; [reflexivity|].
      left. rewrite Hxd, (fi_now _ _ I). reflexivity.
    + intros f' v0 e0 n0 H. rewrite Epc in H. inversion H. reflexivity.
  - rewrite Hsp. cbn. apply (fi_queue _ _ I).
  - rewrite Hsp. cbn. apply (fi_qnodup _ _ I).
  - left. reflexivity.
  - cbn. exact Hh.
  - left. rewrite Hsp. split; reflexivity.
  - left. reflexivity.
  - right. rewrite Epc. reflexivity.
  - unfold cs_next. cbn. reflexivity.
  - cbn. discriminate.
  - cbn. discriminate.
  - eapply cs_mis_ret_chk; [apply (fi_mis _ _ I)|reflexivity|reflexivity|reflexivity].
Qed.

(* ---------------- Set: the map write (= the atomic CSet) *)
Lemma cf_step_set cfg s tid t op k v e now :
  c_cfg_ok cfg -> cf_inv cfg s -> nth_error (cs_thr s) tid = Some t -> ct_op t = Some op -> ct_pc t = CsSSP k v e now ->
  cf_inv cfg (fst (cs_go cfg s tid t op (ct_prog t) (cs_tstep CsFixed cfg s tid t))).
Proof.
  intros Hcfg I Ht Hop Epc. destruct (cf_thr_facts cfg s tid t I Ht) as [T Cn]. unfold cf_tinv in T.
  rewrite Epc in T. destruct T as [T0 T1]. subst now.
  assert (Hlk : cs_lock s = Some tid). { apply (fi_lock _ _ I tid t Ht). rewrite Epc. reflexivity. }
  assert (Hnw : forall f v e n, ct_pc t <> CsWSP f v e n). { intros f0 v0 e0 n0. rewrite Epc. discriminate. }
  pose proof (cf_ext_set (cs_m s) (cs_g s) k v e (fi_now _ _ I)) as X.
  unfold cs_tstep. rewrite Epc. cbv zeta.
  apply (cf_go_inv cfg s tid t op (ct_prog t) _ None None Hcfg I Ht); cbn [tr_m tr_g tr_lock tr_pc tr_ret tr_chk tr_lin].
  - exact X.
  - apply c_inv_set. apply (fi_g _ _ I).
  - reflexivity.
  - reflexivity.
  - cbn [cs_set_entry cs_with c_map]. rewrite (fi_len _ _ I).
    apply (cf_mrel_update cfg (cs_g s) (c_set (cs_g s) k v e)); [apply (y_done_g _ _ _ _ _ _ X)|apply (y_now_g _ _ _ _ _ _ X)|reflexivity|apply (fi_map _ _ I)].
  - cbn [cs_set_entry cs_with c_map]. apply c_update_nodup. apply (fi_mkeys _ _ I).
  - cbn. rewrite !app_length, (fi_len _ _ I). reflexivity.
  - apply (cf_fut_new cfg s tid t op (ct_prog t) _ {| c_fkey := k; c_fdone := Some (v, e, c_now (cs_g s)); c_fpred := None |} I Ht Hnw);
      cbn [tr_m tr_g]; [rewrite (fi_now _ _ I); reflexivity|reflexivity|reflexivity].
  - cbn. apply (fi_queue _ _ I).
  - cbn. apply (fi_qnodup _ _ I).
  - right. right. auto.
  - cbn. split; discriminate.
  - right. exact Hlk.
  - left. reflexivity.
  - left. reflexivity.
  - rewrite cs_next_mid by (cbn; discriminate). unfold cf_tinv. rewrite cs_mid_pc, cs_mid_op. cbn [tr_pc]. discriminate.
  - cbn. discriminate.
  - cbn. discriminate.
  - apply cs_mis_park; [apply (fi_mis _ _ I)|reflexivity|reflexivity].
Qed.

(* ---------------- removeRotted *)
Lemma cf_lookup_of_in (mp : list (Z * nat)) k f : NoDup (map fst mp) -> In (k, f) mp -> c_lookup mp k = Some f.
Proof.
  induction mp as [|[a g0] r IH]; cbn [map fst c_lookup]; intros Hn Hin; [destruct Hin|].
  inversion Hn as [|? ? Hna Hnr]; subst. destruct Hin as [Heq|Hin].
  - inversion Heq; subst. rewrite Z.eqb_refl. reflexivity.
  - destruct (a =? k) eqn:E; [|apply IH; assumption].
    exfalso. apply Hna. assert (a = k) by lia. subst a. apply in_map_iff. exists (k, f). auto.
Qed.

Lemma cf_ents_tail mp k f rest : cf_ents mp ((k, f) :: rest) -> cf_ents mp rest.
Proof.
  intros [Hn H]. cbn [map fst] in Hn. inversion Hn; subst. split; [assumption|].
  intros k' f' Hin. apply H. right. exact Hin.
Qed.

Lemma cf_ents_remove mp k f rest : cf_ents mp ((k, f) :: rest) -> cf_ents (c_remove mp k) rest.
Proof.
  intros [Hn H]. cbn [map fst] in Hn. inversion Hn as [|? ? Hnk Hnr]; subst. split; [assumption|].
  intros k' f' Hin. rewrite c_lookup_remove. destruct (k =? k') eqn:E.
  - exfalso. apply Hnk. assert (k = k') by lia. subst k'. apply in_map_iff. exists (k, f'). auto.
  - apply H. right. exact Hin.
Qed.

(* a future that looks rotted in memory is rotted in the ghost *)
Lemma cf_mem_rotted cfg s f v e u :
  c_cfg_ok cfg -> cf_inv cfg s -> cs_fdone (cs_m s) f = Some (v, e, u) ->
  cs_status_of cfg (c_now (cs_m s) - u) e = CRotted ->
  c_is_rotted cfg (c_now (cs_g s)) (c_futs (cs_g s)) f = true.
Proof.
  intros Hcfg I Hd Hs. destruct (cs_fdone (cs_g s) f) as [r|] eqn:Eg.
  - destruct (cf_mg_done cfg s f r I Eg) as [Hm _]. rewrite Hd in Hm. inversion Hm; subst r.
    apply cf_rot_spec. exists v, e, u. split; [exact Eg|]. rewrite <- (fi_now _ _ I).
    unfold cs_status_of in Hs. cbv zeta in Hs.
    destruct (c_now (cs_m s) - u <? c_expire cfg e) eqn:E1; [discriminate|].
    destruct (c_now (cs_m s) - u <? 2 * c_expire cfg e) eqn:E2; [discriminate|]. lia.
  - pose proof (cf_mg_window cfg s f v e u I Hd Eg) as Hu. subst u.
    replace (c_now (cs_m s) - c_now (cs_m s)) with 0 in Hs by lia. rewrite (cs_status_fresh cfg e Hcfg) in Hs. discriminate.
Qed.

Lemma cf_ext_maps cfg m g m' g' :
  c_inv cfg g -> (g' = g \/ g' = c_sweep cfg g) ->
  c_futs m' = c_futs m -> c_now m' = c_now m -> c_queue m' = c_queue m ->
  cs_ext None None m g m' g'.
Proof.
  intros Ig Hg' Hfm Hnm Hqm.
  assert (Hf : c_futs g' = c_futs g /\ c_now g' = c_now g /\ c_queue g' = c_queue g /\ c_running g' = c_running g).
  { destruct Hg' as [->| ->]; cbn; auto. }
  destruct Hf as [Hf [Hn [Hq Hr]]].
  constructor; unfold cs_fdone, cs_fpred; rewrite ?Hfm, ?Hnm, ?Hqm, ?Hf, ?Hn, ?Hq, ?Hr; auto; try lia; try discriminate.
  intros k f [Hl Hi] _. unfold cs_A, cs_fpred. rewrite Hf. split; [split; [|exact Hi]|reflexivity].
  destruct Hg' as [->| ->]; [exact Hl|]. rewrite (cf_lookup_sweep cfg g k (ci_keys _ _ Ig)), Hl.
  destruct Hi as [x [Hx Hd]]. unfold c_is_rotted. rewrite (c_status_loading cfg (c_now g) (c_futs g) f x Hx Hd). reflexivity.
Qed.

(* go on with the next entry, or unlock (= the atomic CSweep); m' is the memory with the new map *)
Lemma cf_sweep_next_inv cfg s tid t op m' rest :
  c_cfg_ok cfg -> cf_inv cfg s -> nth_error (cs_thr s) tid = Some t ->
  cf_holds (ct_pc t) = true -> (forall f v e n, ct_pc t <> CsWSP f v e n) ->
  c_futs m' = c_futs (cs_m s) -> c_now m' = c_now (cs_m s) -> c_queue m' = c_queue (cs_m s) ->
  cf_mrel cfg (cs_g s) (c_map m') -> NoDup (map fst (c_map m')) -> cf_ents (c_map m') rest ->
  cf_inv cfg (fst (cs_go cfg s tid t op (ct_prog t) (cs_sweep_next cfg m' (cs_lock s) (cs_g s) rest))).
Proof.
  intros Hcfg I Ht Hh Hnw Hfm Hnm Hqm Hrel Hmk Hents.
  assert (Hlk : cs_lock s = Some tid). { apply (fi_lock _ _ I tid t Ht). exact Hh. }
  pose proof (fi_g _ _ I) as Ig.
  destruct rest as [|[k f] r]; unfold cs_sweep_next.
  - apply (cf_go_inv cfg s tid t op (ct_prog t) _ None None Hcfg I Ht); cbn [tr_m tr_g tr_lock tr_pc tr_ret tr_chk tr_lin].
    + apply cf_ext_of_cs. apply (cf_ext_maps cfg); auto.
    + apply c_inv_sweep. exact Ig.
    + exact Hnm.
    + reflexivity.
    + apply cf_mrel_sweep; [apply (ci_keys _ _ Ig)|exact Hrel].
    + exact Hmk.
    + rewrite Hfm. apply (fi_len _ _ I).
    + apply cf_fut_keep; auto.
    + rewrite Hqm. apply (fi_queue _ _ I).
    + rewrite Hqm. apply (fi_qnodup _ _ I).
    + right. right. auto.
    + cbn. split; discriminate.
    + right. exact Hlk.
    + left. reflexivity.
    + left. reflexivity.
    + rewrite cs_next_mid by (cbn; discriminate). unfold cf_tinv. rewrite cs_mid_pc, cs_mid_op. cbn [tr_pc].
      discriminate.
    + cbn. discriminate.
    + cbn. discriminate.
    + apply cs_mis_park; [apply (fi_mis _ _ I)|reflexivity|reflexivity].
  - apply (cf_go_inv cfg s tid t op (ct_prog t) _ None None Hcfg I Ht); unfold cs_park; cbn [tr_m tr_g tr_lock tr_pc tr_ret tr_chk tr_lin].
    + apply cf_ext_of_cs. apply (cf_ext_maps cfg); auto.
    + exact Ig.
    + exact Hnm.
    + reflexivity.
    + exact Hrel.
    + exact Hmk.
    + rewrite Hfm. apply (fi_len _ _ I).
    + apply cf_fut_keep; auto.
    + rewrite Hqm. apply (fi_queue _ _ I).
    + rewrite Hqm. apply (fi_qnodup _ _ I).
    + left. reflexivity.
    + cbn. split; auto.
    + right. exact Hlk.
    + left. reflexivity.
    + left. reflexivity.
    + rewrite cs_next_mid by (cbn; discriminate). unfold cf_tinv. rewrite cs_mid_pc, cs_mid_op. cbn [tr_pc].
      split; [discriminate|exact Hents].
    + cbn. discriminate.
    + cbn. discriminate.
    + apply cs_mis_park; [apply (fi_mis _ _ I)|reflexivity|reflexivity].
Qed.

Lemma cf_step_sweep cfg s tid t op :
  c_cfg_ok cfg -> cf_inv cfg s -> nth_error (cs_thr s) tid = Some t -> ct_op t = Some op ->
  match ct_pc t with CsZAL | CsZLU _ _ _ | CsZRE _ _ _ _ => True | _ => False end ->
  cf_inv cfg (fst (cs_go cfg s tid t op (ct_prog t) (cs_tstep CsFixed cfg s tid t))).
Proof.
  intros Hcfg I Ht Hop Hside. destruct (cf_thr_facts cfg s tid t I Ht) as [T Cn]. unfold cf_tinv in T.
  destruct (ct_pc t) eqn:Epc; try contradiction; unfold cs_tstep; rewrite Epc; cbv zeta.
  - (* ZAL *)
    apply cf_sweep_next_inv; auto; try (rewrite Epc; reflexivity); try (cf_not_wsp Epc).
    + apply (fi_map _ _ I).
    + apply (fi_mkeys _ _ I).
    + split; [apply (fi_mkeys _ _ I)|]. intros k f Hin. apply cf_lookup_of_in; [apply (fi_mkeys _ _ I)|exact Hin].
  - (* ZLU *)
    destruct T as [T0 T1]. destruct (cs_fdone (cs_m s) f) as [[[v e] u]|] eqn:Ed.
    + apply cf_park_inv; auto; try discriminate;
        first [solve [unfold cf_lockmove; rewrite Epc; left; split; reflexivity] | solve [cf_not_wsp Epc] | solve [left; reflexivity] | idtac].
      cf_mid_tinv. split; [discriminate|]. split; [exact T1|]. exists v, e, u. auto.
    + apply cf_sweep_next_inv; auto; try (rewrite Epc; reflexivity); try (cf_not_wsp Epc).
      * apply (fi_map _ _ I).
      * apply (fi_mkeys _ _ I).
      * eapply cf_ents_tail; eauto.
  - (* ZRE *)
    destruct T as [T0 [T1 [v [e [u [T2 T3]]]]]]. unfold cs_err_of. rewrite T2.
    destruct (cs_status_of cfg past e) eqn:Es;
      try (apply cf_sweep_next_inv; auto; try (rewrite Epc; reflexivity); try (cf_not_wsp Epc);
           [apply (fi_map _ _ I)|apply (fi_mkeys _ _ I)|eapply cf_ents_tail; eauto]).
    apply cf_sweep_next_inv; auto; try (rewrite Epc; reflexivity); try (cf_not_wsp Epc); cbn [cs_with c_map].
    + apply cf_mrel_remove; [|apply (fi_map _ _ I)].
      destruct T1 as [_ T1]. rewrite (T1 k f (or_introl eq_refl)). cbn. subst past. eapply cf_mem_rotted; eauto.
    + apply c_remove_nodup. apply (fi_mkeys _ _ I).
    + eapply cf_ents_remove; eauto.
Qed.

(* ---------------- first step of a call *)
Lemma cf_step_start cfg s tid t op rest :
  c_cfg_ok cfg -> cf_inv cfg s -> nth_error (cs_thr s) tid = Some t -> ct_op t = None -> ct_prog t = op :: rest ->
  cf_inv cfg (fst (cs_go cfg s tid t op rest (fst (cf_tstart cfg s op)))).
Proof.
  intros Hcfg I Ht Hop Hprog. destruct (fi_thr _ _ I tid t Ht) as [T Cn].
  assert (Hidle : cf_holds (ct_pc t) = false /\ cs_wfut (ct_pc t) = None /\ cs_pnext (ct_pc t) = None /\ forall f v e n, ct_pc t <> CsWSP f v e n).
  { unfold cf_tinv in T. destruct (ct_pc t) eqn:E; repeat split; try reflexivity; try discriminate;
      try (exfalso; repeat match goal with H : exists _, _ |- _ => destruct H | H : _ /\ _ |- _ => destruct H end; congruence).
    all: try (destruct next; [exfalso; repeat match goal with H : exists _, _ |- _ => destruct H | H : _ /\ _ |- _ => destruct H end; congruence|contradiction]).
    all: try (destruct fo; [contradiction|exfalso; repeat match goal with H : exists _, _ |- _ => destruct H | H : _ /\ _ |- _ => destruct H end; congruence]).
    all: try contradiction. }
  destruct Hidle as [Hh [Hw0 [Hp0 Hnw]]].
  assert (Hlk2 : false = true <-> cs_lock s = Some tid).
  { split; [discriminate|]. intros H. apply (fi_lock _ _ I tid t Ht) in H. congruence. }
  destruct op as [k|k|k v e|v e|]; unfold cf_tstart; cbv zeta.
  - (* Load *)
    cbn [fst cs_tstart].
    apply cf_go_pure; auto; unfold cs_park; cbn [tr_m tr_g tr_lock tr_pc tr_ret tr_chk tr_lin cf_holds cs_holds cs_wfut cs_pnext]; auto.
    + rewrite cs_next_mid by (cbn; discriminate). unfold cf_tinv. rewrite cs_mid_pc, cs_mid_op, cs_mid_lin. cbn. auto.
    + apply cs_mis_park; [apply (fi_mis _ _ I)|reflexivity|reflexivity].
  - (* Get2 *)
    cbn [fst cs_tstart].
    apply cf_go_pure; auto; unfold cs_park; cbn [tr_m tr_g tr_lock tr_pc tr_ret tr_chk tr_lin cf_holds cs_holds cs_wfut cs_pnext]; auto.
    + rewrite cs_next_mid by (cbn; discriminate). unfold cf_tinv. rewrite cs_mid_pc, cs_mid_op. cbn. auto.
    + apply cs_mis_park; [apply (fi_mis _ _ I)|reflexivity|reflexivity].
  - (* Set *)
    cbn [fst cs_tstart].
    apply cf_go_pure; auto; unfold cs_park; cbn [tr_m tr_g tr_lock tr_pc tr_ret tr_chk tr_lin cf_holds cs_holds cs_wfut cs_pnext]; auto.
    + rewrite cs_next_mid by (cbn; discriminate). unfold cf_tinv. rewrite cs_mid_pc, cs_mid_op. cbn. discriminate.
    + apply cs_mis_park; [apply (fi_mis _ _ I)|reflexivity|reflexivity].
  - (* worker *)
    destruct (c_queue (cs_m s)) as [|f q] eqn:Eq.
    + cbn [fst]. unfold cs_tstart. rewrite Eq.
      apply cf_go_pure; auto; unfold cs_return; cbn [tr_m tr_g tr_lock tr_pc tr_ret tr_chk tr_lin cf_holds cs_holds cs_wfut cs_pnext]; auto.
      * unfold cs_next. cbn. reflexivity.
      * eapply cs_mis_ret; [apply (fi_mis _ _ I)|reflexivity|reflexivity|reflexivity].
    + pose proof (fi_g _ _ I) as Ig.
      assert (Hfq : In f (c_queue (cs_g s))). { apply (fi_queue _ _ I). rewrite Eq. left. reflexivity. }
      destruct (cf_take_id_ex f (c_queue (cs_g s)) Hfq) as [q' Htf].
      destruct (cf_take_id_spec _ _ _ _ Htf) as [_ HP].
      unfold cx_start_id. rewrite Htf. rewrite Nat.eqb_refl. cbn [fst].
      pose proof (fi_qnodup _ _ I) as Hnd. rewrite Eq in Hnd. inversion Hnd as [|? ? Hnf Hndq]; subst.
      pose proof (cf_ext_startid (cs_m s) (cs_g s) f q q' Eq Htf) as X.
      apply (cf_go_inv cfg s tid t (CsFinish v e) rest _ None None Hcfg I Ht); cbn [tr_m tr_g tr_lock tr_pc tr_ret tr_chk tr_lin].
      * exact (cf_ext_of_cs _ _ _ _ _ _ X).
      * eapply cf_inv_startid; [exact Ig|exact Htf].
      * reflexivity.
      * reflexivity.
      * cbn [cs_with c_map]. apply (cf_mrel_mono cfg (cs_g s)); [apply (x_done_g _ _ _ _ _ _ X)|apply (x_now_g _ _ _ _ _ _ X)|reflexivity|apply (fi_map _ _ I)].
      * cbn. apply (fi_mkeys _ _ I).
      * cbn. apply (fi_len _ _ I).
      * apply cf_fut_keep; auto; reflexivity.
      * cbn. intros f0 Hin. assert (Hg0 : In f0 (c_queue (cs_g s))) by (apply (fi_queue _ _ I); rewrite Eq; right; exact Hin).
        apply (Permutation_in _ HP) in Hg0. destruct Hg0 as [<-|H]; [contradiction|exact H].
      * cbn. exact Hndq.
      * left. reflexivity.
      * cbn. exact Hlk2.
      * left. split; reflexivity.
      * left. reflexivity.
      * left. reflexivity.
      * rewrite cs_next_mid by (cbn; discriminate). unfold cf_tinv. rewrite cs_mid_pc, cs_mid_op. cbn.
        split; [discriminate|]. apply in_or_app. right. left. reflexivity.
      * cbn. intros f0 Hf0 j tj Hne Hj Hc. inversion Hf0; subst f0.
        destruct (fi_thr _ _ I j tj Hj) as [Tj _]. unfold cf_tinv in Tj.
        assert (Hr : In f (c_running (cs_g s))).
        { destruct (ct_pc tj); try discriminate Hc; inversion Hc; subst; [destruct Tj as [_ H]|destruct Tj as [_ [H _]]|destruct Tj as [_ [H _]]]; exact H. }
        exact (cs_nodup_app_disj _ _ f (ci_jobs_nodup _ _ Ig) Hfq Hr).
      * cbn. discriminate.
      * unfold cs_go. cbn [fst cs_mis tr_ret tr_chk]. rewrite (fi_mis _ _ I). reflexivity.
  - (* Sweep *)
    cbn [fst cs_tstart].
    apply cf_go_pure; auto; unfold cs_park; cbn [tr_m tr_g tr_lock tr_pc tr_ret tr_chk tr_lin cf_holds cs_holds cs_wfut cs_pnext]; auto.
    + rewrite cs_next_mid by (cbn; discriminate). unfold cf_tinv. rewrite cs_mid_pc, cs_mid_op. cbn. discriminate.
    + apply cs_mis_park; [apply (fi_mis _ _ I)|reflexivity|reflexivity].
Qed.

(* ---------------- clock tick *)
Lemma cf_tick_inv cfg s dt :
  c_cfg_ok cfg -> cf_inv cfg s -> cs_bad (fst (cs_step CsFixed cfg s (CsTick dt))) = false ->
  cf_inv cfg (fst (cs_step CsFixed cfg s (CsTick dt))).
Proof.
  intros Hcfg I Hb. cbn [cs_step] in *. destruct (dt <? 0) eqn:Edt; [exact I|]. cbn [fst] in *. cbn [cs_bad] in Hb.
  apply orb_false_iff in Hb. destruct Hb as [_ Hb].
  assert (Hwin : forall j tj, nth_error (cs_thr s) j = Some tj -> cs_in_window CsFixed (ct_pc tj) = true -> dt = 0).
  { intros j tj Hj Hw. destruct (0 <? dt) eqn:E; [|lia]. cbn in Hb. exfalso.
    assert (existsb (fun t => cs_in_window CsFixed (ct_pc t)) (cs_thr s) = true).
    { apply existsb_exists. exists tj. split; [eapply nth_error_In; eauto|exact Hw]. }
    congruence. }
  set (g' := fst (c_step cfg (cs_g s) (CAdvance dt))).
  assert (Hg' : g' = {| c_now := c_now (cs_g s) + dt; c_futs := c_futs (cs_g s); c_map := c_map (cs_g s); c_queue := c_queue (cs_g s);
                        c_running := c_running (cs_g s); c_displaced := c_displaced (cs_g s) |}).
  { unfold g'. cbn [c_step]. rewrite Edt. reflexivity. }
  assert (Ig' : c_inv cfg g') by (apply c_inv_step; apply (fi_g _ _ I)).
  assert (Hnth : forall j tj', nth_error (map (cs_note cfg g') (cs_thr s)) j = Some tj' ->
            exists tj, nth_error (cs_thr s) j = Some tj /\ tj' = cs_note cfg g' tj).
  { intros j tj' H. rewrite nth_error_map in H. destruct (nth_error (cs_thr s) j) as [tj|]; [|discriminate]. inversion H. eauto. }
  constructor; cbn [cs_m cs_g cs_thr cs_lock cs_mis].
  - exact Ig'.
  - rewrite Hg'. cbn. rewrite (fi_now _ _ I). reflexivity.
  - cbn [cs_tick c_map]. apply (cf_mrel_mono cfg (cs_g s)); [rewrite Hg'; intros f r H; exact H|rewrite Hg'; cbn; lia|rewrite Hg'; reflexivity|apply (fi_map _ _ I)].
  - cbn. apply (fi_mkeys _ _ I).
  - rewrite Hg'. cbn. apply (fi_len _ _ I).
  - unfold cs_futrel. cbn [cs_m cs_g cs_thr]. intros f x Hx. cbn [cs_tick c_futs c_now] in *.
    assert (Hfg : c_futs g' = c_futs (cs_g s)) by (rewrite Hg'; reflexivity). rewrite Hfg.
    destruct (fi_fut _ _ I f x Hx) as [y [Hy [Hk [Hp Hd]]]]. exists y. split; [exact Hy|]. split; [exact Hk|]. split; [exact Hp|].
    destruct Hd as [Hd|[Hd [j [tj [v [e [Hj [Hpcj Hdx]]]]]]]]; [left; exact Hd|right]. split; [exact Hd|].
    assert (Hz : dt = 0). { apply (Hwin j tj Hj). rewrite Hpcj. reflexivity. }
    exists j, (cs_note cfg g' tj), v, e. replace (c_now (cs_m s) + dt) with (c_now (cs_m s)) by lia.
    split; [rewrite nth_error_map, Hj; reflexivity|]. rewrite cs_note_pc. auto.
  - rewrite Hg'. cbn. apply (fi_queue _ _ I).
  - cbn. apply (fi_qnodup _ _ I).
  - intros j tj' Hj. destruct (Hnth j tj' Hj) as [tj [Hj0 ->]]. rewrite cs_note_pc. apply (fi_lock _ _ I j tj Hj0).
  - intros j tj' Hj. destruct (Hnth j tj' Hj) as [tj [Hj0 ->]]. destruct (fi_thr _ _ I j tj Hj0) as [T Cn].
    split; [|apply cs_note_now].
    apply (cf_tinv_ext cfg Hcfg None None (cs_m s) (cs_g s) (cs_tick (cs_m s) dt) g').
    + apply cf_ext_of_cs. unfold g'. apply cs_ext_tick. lia.
    + exact Ig'.
    + rewrite Hg'. cbn. rewrite (fi_now _ _ I). reflexivity.
    + exact T.
    + exact Cn.
    + intros _. split; [reflexivity|]. rewrite Hg'. reflexivity.
    + intros Hw. pose proof (Hwin j tj Hj0 Hw) as Hz. rewrite Hg'. cbn. lia.
    + intros n _. discriminate.
    + intros f _. discriminate.
  - intros i j ti tj f Hi Hj Hfi Hfj. destruct (Hnth i ti Hi) as [ti0 [Hi0 ->]]. destruct (Hnth j tj Hj) as [tj0 [Hj0 ->]].
    rewrite cs_note_pc in Hfi, Hfj. eapply (fi_wuniq _ _ I); eauto.
  - intros i j ti tj n Hi Hj Hfi Hfj. destruct (Hnth i ti Hi) as [ti0 [Hi0 ->]]. destruct (Hnth j tj Hj) as [tj0 [Hj0 ->]].
    rewrite cs_note_pc in Hfi, Hfj. eapply (fi_puniq _ _ I); eauto.
  - apply (fi_mis _ _ I).
Qed.

(* ================================================================== every step, every run *)
Lemma cf_bad_mono cfg s it : cs_bad (cf_s (fst (cf_step cfg s it))) = false -> cs_bad (cf_s s) = false.
Proof.
  destruct it as [tid|dt]; cbn [cf_step].
  - destruct (nth_error (cs_thr (cf_s s)) tid) as [t|]; [|auto]. destruct (cs_blocked (cf_s s) t); [auto|].
    destruct (ct_op t); [auto|]. destruct (ct_prog t); auto.
  - cbn [fst cf_s]. apply cs_bad_mono.
Qed.

Lemma cf_bad_run cfg sched : forall s, cs_bad (cf_s (cf_run cfg s sched)) = false -> cs_bad (cf_s s) = false.
Proof.
  induction sched as [|it r IH]; intros s H; cbn [cf_run] in H; [exact H|].
  eapply cf_bad_mono. apply IH. exact H.
Qed.

Lemma cf_step_inv cfg s it :
  c_cfg_ok cfg -> cf_inv cfg (cf_s s) -> cs_bad (cf_s (fst (cf_step cfg s it))) = false ->
  cf_inv cfg (cf_s (fst (cf_step cfg s it))).
Proof.
  intros Hcfg I Hb. destruct it as [tid|dt]; [|cbn [cf_step fst cf_s] in *; apply cf_tick_inv; auto].
  cbn [cf_step]. destruct (nth_error (cs_thr (cf_s s)) tid) as [t|] eqn:Ht; [|exact I].
  destruct (cs_blocked (cf_s s) t) eqn:Hnb; [exact I|].
  destruct (ct_op t) as [op|] eqn:Hop.
  - cbn [fst cf_s]. destruct (fi_thr _ _ I tid t Ht) as [T _]. unfold cf_tinv in T.
    destruct (ct_pc t) eqn:Epc; try contradiction; try congruence.
    + (* LBL *) apply (cf_step_lock cfg (cf_s s) tid t op Hcfg I Ht Hop Hnb). left. eauto.
    + (* LAL *) destruct (c_lookup (c_map (cs_m (cf_s s))) k) eqn:El.
      * apply cf_step_pure; auto. rewrite Epc, El. discriminate.
      * apply cf_step_create; auto. rewrite Epc. exact El.
    + (* LLU *) apply cf_step_pure; auto. rewrite Epc. exact Logic.I.
    + (* LRE *) destruct (cs_status_of cfg past (cs_err_of (cs_m (cf_s s)) f)) eqn:Es.
      * apply cf_step_create; auto. rewrite Epc, Es. discriminate.
      * apply cf_step_pure; auto. rewrite Epc. exact Es.
      * apply cf_step_create; auto. rewrite Epc, Es. discriminate.
      * apply cf_step_create; auto. rewrite Epc, Es. discriminate.
    + (* LAU *) apply cf_step_pure; auto. rewrite Epc. exact Logic.I.
    + (* LSJ *) eapply cf_step_send; eauto.
    + (* GBL *) apply (cf_step_lock cfg (cf_s s) tid t op Hcfg I Ht Hop Hnb). right. left. eauto.
    + (* GAL *) apply cf_step_pure; auto. rewrite Epc. exact Logic.I.
    + (* GAU *) apply cf_step_pure; auto. rewrite Epc. exact Logic.I.
    + (* GLU *) apply cf_step_pure; auto. rewrite Epc. exact Logic.I.
    + (* GRE *) apply cf_step_pure; auto. rewrite Epc. exact Logic.I.
    + (* GFW *) apply cf_step_pure; auto. rewrite Epc.
      unfold cs_blocked in Hnb. rewrite Epc in Hnb. unfold cs_complete in Hnb. destruct (cs_fdone (cs_m (cf_s s)) x); [discriminate|discriminate].
    + (* RLP *) apply cf_step_pure; auto. rewrite Epc. exact Logic.I.
    + (* RPU *) apply cf_step_pure; auto. rewrite Epc. exact Logic.I.
    + (* RPE *) apply cf_step_pure; auto. rewrite Epc. exact Logic.I.
    + (* XAU *) apply cf_step_pure; auto. rewrite Epc. exact Logic.I.
    + (* SBL *) apply (cf_step_lock cfg (cf_s s) tid t op Hcfg I Ht Hop Hnb). right. right. left. eauto.
    + (* SAL *) apply cf_step_pure; auto. rewrite Epc. exact Logic.I.
    + (* SSU *) apply cf_step_pure; auto. rewrite Epc. exact Logic.I.
    + (* SSP *) eapply cf_step_set; eauto.
    + (* SAU *) apply cf_step_pure; auto. rewrite Epc. exact Logic.I.
    + (* WLD *) apply cf_step_pure; auto. rewrite Epc. exact Logic.I.
    + (* WSU *) eapply cf_step_store_done; eauto.
    + (* WSP *) eapply cf_step_store_pred; eauto.
    + (* ZBL *) apply (cf_step_lock cfg (cf_s s) tid t op Hcfg I Ht Hop Hnb). right. right. right. exact Epc.
    + (* ZAL *) apply cf_step_sweep; auto. rewrite Epc. exact Logic.I.
    + (* ZLU *) apply cf_step_sweep; auto. rewrite Epc. exact Logic.I.
    + (* ZRE *) apply cf_step_sweep; auto. rewrite Epc. exact Logic.I.
    + (* ZAU *) apply cf_step_pure; auto. rewrite Epc. exact Logic.I.
  - destruct (ct_prog t) as [|op rest] eqn:Hp; [exact I|]. cbn [fst cf_s]. apply cf_step_start; auto.
Qed.

Lemma cf_run_inv cfg sched : c_cfg_ok cfg -> forall s, cf_inv cfg (cf_s s) ->
  cs_bad (cf_s (cf_run cfg s sched)) = false -> cf_inv cfg (cf_s (cf_run cfg s sched)).
Proof.
  intros Hcfg. induction sched as [|it r IH]; intros s I Hb; cbn [cf_run] in *; [exact I|].
  apply IH; [|exact Hb]. apply cf_step_inv; auto. eapply cf_bad_run. exact Hb.
Qed.

(* the invariant holds initially (all threads idle on the empty cache), for ALL programs *)
Lemma cf_inv_init cfg progs : cf_inv cfg (cf_s (cf_init progs)).
Proof.
  assert (Hth : forall tid t, nth_error (map cs_thread_init progs) tid = Some t -> exists p, t = cs_thread_init p).
  { intros tid t H. rewrite nth_error_map in H. destruct (nth_error progs tid) as [p|] eqn:E; [|discriminate].
    inversion H. exists p. reflexivity. }
  constructor; cbn [cf_init cf_init_on cf_s cs_init_on cs_m cs_g cs_thr cs_lock cs_mis]; try reflexivity.
  - apply c_inv_init.
  - intros k. left. reflexivity.
  - constructor.
  - intros f x H. destruct f; discriminate.
  - intros f [].
  - constructor.
  - intros tid t H. destruct (Hth tid t H) as [p ->]. cbn. split; discriminate.
  - intros tid t H. destruct (Hth tid t H) as [p ->]. split; [reflexivity|].
    intros op o H0. discriminate.
  - intros i j ti tj f Hi Hj Hf. destruct (Hth i ti Hi) as [p ->]. discriminate.
  - intros i j ti tj f Hi Hj Hf. destruct (Hth i ti Hi) as [p ->]. discriminate.
Qed.

(* ------------------------------------------------------------------ the ghost is a history of the refined atomic machine *)
Lemma cx_run_app cfg a : forall s b, cx_run cfg s (a ++ b) = cx_run cfg (cx_run cfg s a) b.
Proof. induction a as [|ev r IH]; intros s b; cbn [cx_run app]; [reflexivity|apply IH]. Qed.

Lemma cx_run_embed cfg evs : forall s, cx_run cfg s (map CxE evs) = c_run cfg s evs.
Proof. induction evs as [|ev r IH]; intros s; cbn [map cx_run c_run cx_step]; [reflexivity|apply IH]. Qed.

Lemma cf_tstart_ghost cfg s op :
  tr_g (fst (cf_tstart cfg s op)) = cx_run cfg (cs_g s) (snd (cf_tstart cfg s op)).
Proof.
  unfold cf_tstart. destruct op; try (cbn [fst snd]; rewrite cx_run_embed; apply cs_tstart_ghost).
  destruct (c_queue (cs_m s)) as [|f q]; [cbn [fst snd]; rewrite cx_run_embed; apply cs_tstart_ghost|].
  cbv zeta. destruct (cx_start_id (cs_g s) f) as [g' o] eqn:E. cbn [fst snd tr_g cx_run cx_step]. rewrite E. reflexivity.
Qed.

Definition cf_hist (cfg : c_cfg) (m0 : c_state) (s : cf_state) : Prop :=
  cs_g (cf_s s) = cx_run cfg m0 (rev (cf_xevs s)).

Lemma cf_step_hist cfg m0 s it : cf_hist cfg m0 s -> cf_hist cfg m0 (fst (cf_step cfg s it)).
Proof.
  intros H. unfold cf_hist in *. destruct it as [tid|dt]; cbn [cf_step].
  - destruct (nth_error (cs_thr (cf_s s)) tid) as [t|]; [|exact H].
    destruct (cs_blocked (cf_s s) t); [exact H|].
    destruct (ct_op t) as [op|].
    + cbn [fst cf_s cf_xevs]. unfold cs_go. cbn [fst cs_g].
      rewrite rev_app_distr, rev_involutive, cx_run_app, <- H, cx_run_embed. apply cs_tstep_ghost.
    + destruct (ct_prog t) as [|op rest]; [exact H|].
      cbn [fst cf_s cf_xevs]. unfold cs_go. cbn [fst cs_g].
      rewrite rev_app_distr, rev_involutive, cx_run_app, <- H. apply cf_tstart_ghost.
  - cbn [fst cf_s cf_xevs cs_step]. destruct (dt <? 0) eqn:E; [exact H|]. cbn [fst cs_g rev].
    rewrite cx_run_app, <- H. cbn [cx_run cx_step c_step]. rewrite E. reflexivity.
Qed.

Lemma cf_run_hist cfg m0 sched : forall s, cf_hist cfg m0 s -> cf_hist cfg m0 (cf_run cfg s sched).
Proof. induction sched as [|it r IH]; intros s H; cbn [cf_run]; [exact H|]. apply IH. apply cf_step_hist. exact H. Qed.

(* THE REFINEMENT, all five operations: every program of Load / Get2 / Set / worker / sweep
   calls, Fixed order, every schedule whose clock ticks stay outside the windows *)
Theorem cf_refines cfg progs sched :
  c_cfg_ok cfg ->
  let s := cf_run cfg (cf_init progs) sched in
  cs_bad (cf_s s) = false ->
  cs_mis (cf_s s) = false /\ cs_g (cf_s s) = cx_run cfg c_init (rev (cf_xevs s)).
Proof.
  intros Hcfg s Hb. split.
  - apply (fi_mis cfg). apply cf_run_inv; auto. apply cf_inv_init.
  - apply (cf_run_hist cfg c_init sched). reflexivity.
Qed.

(* the pair a Get2 reads after wg.Wait(): once wg.Done() of x has run, memory and ghost agree on x *)
Lemma cf_complete_agree cfg s x :
  cf_inv cfg s -> cs_complete s x = true -> cs_fdone (cs_m s) x = cs_fdone (cs_g s) x /\ cs_fdone (cs_m s) x <> None.
Proof.
  intros I Hc. unfold cs_complete in Hc. destruct (cs_fdone (cs_m s) x) as [r|] eqn:Ed; [|discriminate].
  split; [|discriminate]. unfold cs_fdone in *. destruct (c_get (c_futs (cs_m s)) x) as [xm|] eqn:Ex; [|discriminate].
  destruct (fi_fut _ _ I x xm Ex) as [y [Hy [_ [_ Hd]]]]. rewrite Hy.
  destruct Hd as [Hd|[_ [j [tj [v [e [Hj [Hpc _]]]]]]]]; [congruence|]. exfalso.
  apply negb_true_iff in Hc.
  assert (H : existsb (fun t => match ct_pc t with CsWSP g _ _ _ => Nat.eqb g x | _ => false end) (cs_thr s) = true).
  { apply existsb_exists. exists tj. split; [eapply nth_error_In; eauto|]. rewrite Hpc. apply Nat.eqb_refl. }
  congruence.
Qed.

Theorem cf_await_pair cfg progs sched x :
  c_cfg_ok cfg ->
  let s := cf_run cfg (cf_init progs) sched in
  cs_bad (cf_s s) = false -> cs_complete (cf_s s) x = true ->
  cs_fdone (cs_m (cf_s s)) x = cs_fdone (cs_g (cf_s s)) x /\ cs_fdone (cs_m (cf_s s)) x <> None.
Proof.
  intros Hcfg s Hb Hc. apply (cf_complete_agree cfg); [|exact Hc]. apply cf_run_inv; auto. apply cf_inv_init.
Qed.

(* ================================================================== the refined atomic machine vs Cache.v *)
(* cx_step differs from c_step only in the job bookkeeping: CxStartF f starts job f wherever it
   stands in the queue.  Simulation: Cache.v starts the jobs queued before f with f's key first
   (earlier than the refined machine); the states then agree on clock, arena, map and displaced
   list, Cache.v's queue is a subset of the refined queue, and every non-start event has the
   same output. *)
Definition cx_R (sx sc : c_state) : Prop :=
  c_now sx = c_now sc /\ c_futs sx = c_futs sc /\ c_map sx = c_map sc /\ c_displaced sx = c_displaced sc /\
  (forall f, In f (c_queue sc) -> In f (c_queue sx)).

Lemma cx_R_running cfg sx sc : c_inv cfg sx -> c_inv cfg sc -> cx_R sx sc ->
  forall f, In f (c_running sx) -> In f (c_running sc).
Proof.
  intros Ix Ic [_ [Hf [_ [_ Hq]]]] f Hin.
  assert (Hl : c_isload (c_futs sc) f). { rewrite <- Hf. apply (ci_jobs _ _ Ix). apply in_or_app. right. exact Hin. }
  apply (ci_jobs _ _ Ic) in Hl. apply in_app_or in Hl. destruct Hl as [Hl|Hl]; [|exact Hl].
  exfalso. exact (cs_nodup_app_disj _ _ f (ci_jobs_nodup _ _ Ix) (Hq f Hl) Hin).
Qed.

(* remove the first n elements satisfying p *)
Fixpoint cx_drop (p : nat -> bool) (n : nat) (l : list nat) : list nat :=
  match l with
  | [] => []
  | x :: r => match n with
              | O => l
              | S n' => if p x then cx_drop p n' r else x :: cx_drop p n r
              end
  end.

Lemma cx_drop_0 p l : cx_drop p 0 l = l.
Proof. destruct l; reflexivity. Qed.

Lemma cx_drop_in p n : forall l x, In x (cx_drop p n l) -> In x l.
Proof.
  intros l. revert n. induction l as [|a r IH]; intros n x; cbn [cx_drop]; [auto|].
  destruct n as [|n']; [auto|]. destruct (p a).
  - intros H. right. eapply IH; eauto.
  - intros [H|H]; [left; exact H|right; eapply IH; eauto].
Qed.

Lemma cx_take_none p l : c_take_first p l = None <-> forall x, In x l -> p x = false.
Proof.
  induction l as [|a r IH]; cbn [c_take_first].
  - split; [intros _ x []|reflexivity].
  - destruct (p a) eqn:E.
    + split; [discriminate|]. intros H. specialize (H a (or_introl eq_refl)). congruence.
    + destruct (c_take_first p r) as [[g r']|].
      * split; [discriminate|]. intros H. exfalso.
        assert (Hn : forall x, In x r -> p x = false) by (intros x Hx; apply H; right; exact Hx).
        apply IH in Hn. discriminate.
      * split; [|reflexivity]. intros _ x [<-|Hx]; [exact E|]. apply (proj1 IH); auto.
Qed.

Lemma cx_drop_none p l : c_take_first p l = None -> forall n, cx_drop p n l = l.
Proof.
  induction l as [|a r IH]; intros H n; cbn [cx_drop]; [reflexivity|]. destruct n as [|n']; [reflexivity|].
  cbn [c_take_first] in H. destruct (p a); [discriminate|].
  destruct (c_take_first p r) as [[g r']|]; [discriminate|]. rewrite IH; reflexivity.
Qed.

Lemma cx_drop_take p : forall l f q' n, c_take_first p l = Some (f, q') -> cx_drop p (S n) l = cx_drop p n q'.
Proof.
  induction l as [|a r IH]; intros f q' n H; cbn [c_take_first] in H; [discriminate|]. cbn [cx_drop].
  destruct (p a) eqn:E.
  - inversion H; subst. reflexivity.
  - destruct (c_take_first p r) as [[g0 r']|] eqn:Et; [|discriminate]. inversion H; subst.
    rewrite (IH _ _ n eq_refl). destruct n as [|n']; cbn [cx_drop]; [rewrite cx_drop_0; reflexivity|]. rewrite E. reflexivity.
Qed.

Lemma cx_upto_in p f : forall l, In f l -> cx_upto p f l <> O.
Proof.
  induction l as [|a r IH]; intros Hin; [destruct Hin|]. cbn [cx_upto]. destruct (Nat.eqb a f) eqn:E; [discriminate|].
  destruct Hin as [->|Hin]; [rewrite Nat.eqb_refl in E; discriminate|]. specialize (IH Hin).
  destruct (cx_upto p f r); [congruence|]. destruct (p a); discriminate.
Qed.

Lemma cx_drop_upto p f : p f = true -> forall l, NoDup l -> ~ In f (cx_drop p (cx_upto p f l) l).
Proof.
  intros Hp. induction l as [|a r IH]; intros Hn; [intros []|]. inversion Hn as [|? ? Hna Hnr]; subst.
  cbn [cx_upto]. destruct (Nat.eqb a f) eqn:E.
  - apply Nat.eqb_eq in E. subst a. cbn [cx_drop]. rewrite Hp, cx_drop_0. exact Hna.
  - apply Nat.eqb_neq in E. specialize (IH Hnr). destruct (cx_upto p f r) as [|n] eqn:Eu.
    + rewrite cx_drop_0 in IH. cbn [cx_drop]. intros [H|H]; [exact (E H)|exact (IH H)].
    + destruct (p a) eqn:Ea; cbn [cx_drop]; rewrite Ea; [exact IH|]. intros [H|H]; [exact (E H)|exact (IH H)].
Qed.

(* n times CStart k *)
Lemma cx_repeat_start cfg k n : forall sc,
  let sc' := c_run cfg sc (repeat (CStart k) n) in
  c_now sc' = c_now sc /\ c_futs sc' = c_futs sc /\ c_map sc' = c_map sc /\ c_displaced sc' = c_displaced sc /\
  c_queue sc' = cx_drop (c_key_is (c_futs sc) k) n (c_queue sc) /\
  c_vis_outputs cfg sc (repeat (CStart k) n) = [].
Proof.
  induction n as [|n IH]; intros sc; cbn [repeat c_run c_vis_outputs c_is_start c_step].
  - rewrite cx_drop_0. repeat split; reflexivity.
  - unfold c_start. destruct (c_take_first (c_key_is (c_futs sc) k) (c_queue sc)) as [[f q']|] eqn:Et; cbn [fst].
    + specialize (IH {| c_now := c_now sc; c_futs := c_futs sc; c_map := c_map sc; c_queue := q';
                        c_running := c_running sc ++ [f]; c_displaced := c_displaced sc |}).
      cbv zeta in IH. cbn [c_now c_futs c_map c_queue c_displaced] in IH.
      destruct IH as [H1 [H2 [H3 [H4 [H5 H6]]]]]. rewrite (cx_drop_take _ _ _ _ n Et). repeat split; assumption.
    + specialize (IH sc). cbv zeta in IH. destruct IH as [H1 [H2 [H3 [H4 [H5 H6]]]]].
      rewrite (cx_drop_none _ _ Et (S n)). rewrite (cx_drop_none _ _ Et n) in H5. repeat split; assumption.
Qed.

Lemma cx_nodup_app_l {A} (a b : list A) : NoDup (a ++ b) -> NoDup a.
Proof.
  induction a as [|x r IH]; cbn; intros H; [constructor|]. inversion H as [|? ? Hn Hr]; subst.
  constructor; [intros Hi; apply Hn; apply in_or_app; left; exact Hi|auto].
Qed.

Lemma cx_starts_run cfg sc f : c_inv cfg sc ->
  let sc' := c_run cfg sc (cx_starts sc f) in
  c_now sc' = c_now sc /\ c_futs sc' = c_futs sc /\ c_map sc' = c_map sc /\ c_displaced sc' = c_displaced sc /\
  (forall x, In x (c_queue sc') -> In x (c_queue sc)) /\ ~ In f (c_queue sc') /\
  c_vis_outputs cfg sc (cx_starts sc f) = [].
Proof.
  intros Ic. unfold cx_starts. set (k := cx_key sc f). set (p := c_key_is (c_futs sc) k).
  destruct (cx_repeat_start cfg k (cx_upto p f (c_queue sc)) sc) as [H1 [H2 [H3 [H4 [H5 H6]]]]].
  cbv zeta. fold p in H5. repeat (split; [assumption|]). split; [|split; [|exact H6]].
  - intros x Hx. rewrite H5 in Hx. eapply cx_drop_in; eauto.
  - rewrite H5. destruct (in_dec Nat.eq_dec f (c_queue sc)) as [Hin|Hnin].
    + apply cx_drop_upto.
      * assert (Hl : c_isload (c_futs sc) f) by (apply (ci_jobs _ _ Ic); apply in_or_app; left; exact Hin).
        destruct Hl as [x [Hx _]]. unfold p, c_key_is, k, cx_key, cs_fkey. rewrite Hx. apply Z.eqb_refl.
      * exact (cx_nodup_app_l _ _ (ci_jobs_nodup _ _ Ic)).
    + intros H. apply Hnin. eapply cx_drop_in; eauto.
Qed.

Lemma cx_take_nth_none p : forall l i, (length l <= i)%nat -> c_take_nth p i l = None.
Proof.
  induction l as [|a r IH]; intros i Hi; cbn [c_take_nth]; [reflexivity|]. cbn [length] in Hi.
  destruct (p a).
  - destruct i as [|j]; [lia|]. rewrite IH by lia. reflexivity.
  - rewrite IH by lia. reflexivity.
Qed.

Lemma c_vis_outputs_app cfg a : forall s b,
  c_vis_outputs cfg s (a ++ b) = c_vis_outputs cfg s a ++ c_vis_outputs cfg (c_run cfg s a) b.
Proof.
  induction a as [|ev r IH]; intros s b; cbn [app c_vis_outputs c_run]; [reflexivity|].
  rewrite IH. destruct (c_is_start ev); reflexivity.
Qed.

(* moving a queued job f to the running list in the refined machine, starting jobs up to f in Cache.v *)
Lemma cx_sim_start cfg sx sc f q' :
  c_inv cfg sc -> cx_R sx sc -> Permutation (c_queue sx) (f :: q') ->
  cx_R {| c_now := c_now sx; c_futs := c_futs sx; c_map := c_map sx; c_queue := q';
          c_running := c_running sx ++ [f]; c_displaced := c_displaced sx |}
       (c_run cfg sc (cx_starts sc f)) /\
  c_vis_outputs cfg sc (cx_starts sc f) = [].
Proof.
  intros Ic [R1 [R2 [R3 [R4 R5]]]] HP.
  destruct (cx_starts_run cfg sc f Ic) as [H1 [H2 [H3 [H4 [H5 [H6 H7]]]]]]. split; [|exact H7].
  unfold cx_R. cbn [c_now c_futs c_map c_displaced c_queue]. rewrite H1, H2, H3, H4. repeat (split; [assumption|]).
  intros x Hx. assert (Hx' : In x (c_queue sx)) by (apply R5, H5, Hx).
  apply (Permutation_in _ HP) in Hx'. destruct Hx' as [<-|Hx']; [contradiction|exact Hx'].
Qed.

Lemma cx_sim_step cfg sx sc xev :
  c_inv cfg sx -> c_inv cfg sc -> cx_R sx sc ->
  let evs := cx_trans1 cfg sx sc xev in
  cx_R (fst (cx_step cfg sx xev)) (c_run cfg sc evs) /\
  c_vis_outputs cfg sc evs = cx_vis_outputs cfg sx [xev].
Proof.
  intros Ix Ic R. pose proof R as [R1 [R2 [R3 [R4 R5]]]].
  destruct xev as [ev|f]; cbn [cx_trans1 cx_step cx_vis_outputs].
  2:{ (* start by id *)
    unfold cx_start_id. destruct (c_take_first (Nat.eqb f) (c_queue sx)) as [[f' q']|] eqn:Et; cbn [fst].
    - destruct (cf_take_id_spec _ _ _ _ Et) as [-> HP]. apply cx_sim_start; auto.
    - destruct (cx_starts_run cfg sc f Ic) as [H1 [H2 [H3 [H4 [H5 [H6 H7]]]]]]. split; [|exact H7].
      unfold cx_R. rewrite H1, H2, H3, H4. repeat (split; [assumption|]). intros x Hx. apply R5, H5, Hx. }
  destruct ev as [k|k|k v e|k|k i v e| |dt]; cbn [c_is_start c_vis_event c_step].
  - (* Load *)
    cbn [c_vis_outputs c_run c_is_start c_vis_event c_step]. unfold c_load. rewrite R1, R2, R3.
    destruct (c_status cfg (c_now sc) (c_futs sc) (c_lookup (c_map sc) k)); cbn [fst snd]; (split; [|reflexivity]);
      unfold cx_R, c_new_job; cbn [c_now c_futs c_map c_displaced c_queue]; rewrite ?R1, ?R2, ?R3, ?R4; repeat (split; [reflexivity|]); auto;
      intros x Hx; apply in_app_or in Hx; apply in_or_app; destruct Hx as [Hx|Hx]; auto.
  - (* Get2 *)
    cbn [c_vis_outputs c_run c_is_start c_vis_event c_step fst snd]. split; [exact R|].
    unfold c_get2. rewrite R1, R2, R3. reflexivity.
  - (* Set *)
    cbn [c_vis_outputs c_run c_is_start c_vis_event c_step fst snd]. split; [|reflexivity].
    unfold cx_R, c_set. cbn [c_now c_futs c_map c_displaced c_queue]. rewrite R1, R2, R3, R4. repeat (split; [reflexivity|]). exact R5.
  - (* Start by key *)
    unfold c_start. destruct (c_take_first (c_key_is (c_futs sx) k) (c_queue sx)) as [[f q']|] eqn:Et; cbn [fst].
    + destruct (c_take_first_spec _ _ _ _ Et) as [HP _]. apply cx_sim_start; auto.
    + cbn [c_vis_outputs c_run c_is_start c_step]. unfold c_start.
      assert (Hn : c_take_first (c_key_is (c_futs sc) k) (c_queue sc) = None).
      { apply cx_take_none. intros x Hx. rewrite <- R2. apply (proj1 (cx_take_none _ _) Et). apply R5. exact Hx. }
      rewrite Hn. cbn [fst]. split; [exact R|reflexivity].
  - (* Finish *)
    unfold c_finish. destruct (c_take_nth (c_key_is (c_futs sx) k) i (c_running sx)) as [[f r']|] eqn:Et.
    + destruct (c_take_nth_spec _ _ _ _ _ Et) as [HP Hk].
      assert (Hin : In f (c_running sc)).
      { apply (cx_R_running cfg sx sc Ix Ic R). eapply Permutation_in; [apply Permutation_sym; exact HP|left; reflexivity]. }
      rewrite R2 in Hk. destruct (cs_rank_take _ f (c_running sc) Hin Hk) as [rc' Hrc].
      cbn [c_vis_outputs c_run c_is_start c_vis_event c_step]. unfold c_finish. rewrite Hrc. cbn [fst snd].
      split; [|reflexivity]. unfold cx_R. cbn [c_now c_futs c_map c_displaced c_queue]. rewrite R1, R2, R3, R4.
      repeat (split; [reflexivity|]). exact R5.
    + cbn [c_vis_outputs c_run c_is_start c_vis_event c_step]. unfold c_finish.
      rewrite (cx_take_nth_none _ (c_running sc) (length (c_running sc))) by lia. cbn [fst snd]. split; [exact R|reflexivity].
  - (* Sweep *)
    cbn [c_vis_outputs c_run c_is_start c_vis_event c_step fst snd]. split; [|reflexivity].
    unfold cx_R, c_sweep. cbn [c_now c_futs c_map c_displaced c_queue]. rewrite R1, R2, R3, R4. repeat (split; [reflexivity|]). exact R5.
  - (* Advance *)
    cbn [c_vis_outputs c_run c_is_start c_vis_event c_step]. destruct (dt <? 0); cbn [fst snd]; (split; [|reflexivity]); [exact R|].
    unfold cx_R. cbn [c_now c_futs c_map c_displaced c_queue]. rewrite R1, R2, R3, R4. repeat (split; [reflexivity|]). exact R5.
Qed.

Lemma cx_inv_step cfg s xev : c_inv cfg s -> c_inv cfg (fst (cx_step cfg s xev)).
Proof.
  intros I. destruct xev as [ev|f]; cbn [cx_step]; [apply c_inv_step; exact I|].
  unfold cx_start_id. destruct (c_take_first (Nat.eqb f) (c_queue s)) as [[f' q']|] eqn:Et; cbn [fst]; [|exact I].
  destruct (cf_take_id_spec _ _ _ _ Et) as [-> _]. eapply cf_inv_startid; eauto.
Qed.

Lemma cx_sim_run cfg xevs : forall sx sc,
  c_inv cfg sx -> c_inv cfg sc -> cx_R sx sc ->
  let evs := cx_trans cfg sx sc xevs in
  cx_R (cx_run cfg sx xevs) (c_run cfg sc evs) /\ c_inv cfg (cx_run cfg sx xevs) /\ c_inv cfg (c_run cfg sc evs) /\
  c_vis_outputs cfg sc evs = cx_vis_outputs cfg sx xevs.
Proof.
  induction xevs as [|xev r IH]; intros sx sc Ix Ic R; cbn [cx_trans cx_run c_run c_vis_outputs cx_vis_outputs]; [auto|].
  destruct (cx_sim_step cfg sx sc xev Ix Ic R) as [R' Ho]. cbv zeta in R', Ho.
  assert (Ix' := cx_inv_step cfg sx xev Ix). assert (Ic' := c_inv_run cfg (cx_trans1 cfg sx sc xev) sc Ic).
  destruct (IH _ _ Ix' Ic' R') as [R'' [Ix'' [Ic'' Ho']]]. cbv zeta in R'', Ic'', Ho'.
  rewrite c_run_app, c_vis_outputs_app. split; [exact R''|]. split; [exact Ix''|]. split; [exact Ic''|].
  rewrite Ho, Ho'. cbn [cx_vis_outputs]. destruct xev as [ev|f]; [destruct (c_is_start ev)|]; reflexivity.
Qed.

(* every history of the refined atomic machine is simulated by a history of Cache.v: the same
   Load / Get2 / Set / loader-return / sweep / time-step events in the same order with the same
   outputs (CFinish identified by the future it completes), only job starts are added or moved
   earlier; the final states agree on clock, arena, map and displaced list; every job running
   in the refined machine runs in Cache.v *)
Theorem cx_simulated_by_cache cfg xevs :
  let evs := cx_trans cfg c_init c_init xevs in
  let sx := cx_run cfg c_init xevs in
  let sc := c_run cfg c_init evs in
  c_vis_outputs cfg c_init evs = cx_vis_outputs cfg c_init xevs /\
  c_now sc = c_now sx /\ c_futs sc = c_futs sx /\ c_map sc = c_map sx /\ c_displaced sc = c_displaced sx /\
  (forall f, In f (c_queue sc) -> In f (c_queue sx)) /\
  (forall f, In f (c_running sx) -> In f (c_running sc)).
Proof.
  cbv zeta.
  assert (R0 : cx_R c_init c_init) by (unfold cx_R; auto).
  destruct (cx_sim_run cfg xevs c_init c_init (c_inv_init cfg) (c_inv_init cfg) R0) as [R [Ix [Ic Ho]]]. cbv zeta in R, Ic, Ho.
  split; [exact Ho|]. pose proof R as [R1 [R2 [R3 [R4 R5]]]]. repeat (split; [congruence|]). split; [exact R5|].
  eapply cx_R_running; eauto.
Qed.

(* ================================================================== same memory steps as CacheSteps.v
   The machine with the refined ghost and the machine of CacheSteps.v (Fixed order) execute the
   same steps on memory, mutex and program counters, return the same results and raise the same
   tick flag under every schedule: they differ in ghost fields only.  (The correspondence with
   the Go code is checked for cs_step; this carries it over to cf_step.) *)
Definition tr_real (r : cs_tres) := (tr_m r, tr_lock r, tr_pc r, tr_ev r, option_map fst (tr_ret r)).

Lemma cs_tstep_real md cfg s1 s2 tid t1 t2 :
  cs_m s1 = cs_m s2 -> cs_lock s1 = cs_lock s2 -> ct_pc t1 = ct_pc t2 ->
  tr_real (cs_tstep md cfg s1 tid t1) = tr_real (cs_tstep md cfg s2 tid t2).
Proof.
  intros Hm Hl Hp. unfold cs_tstep. rewrite Hm, Hl, Hp. cbv zeta.
  destruct (ct_pc t2); unfold tr_real, cs_lin_load, cs_fetched, cs_fetched_now, cs_return, cs_park, cs_sweep_next;
    cs_break; reflexivity.
Qed.

Lemma cf_tstart_real cfg s1 s2 op :
  cs_m s1 = cs_m s2 -> cs_lock s1 = cs_lock s2 ->
  tr_real (cs_tstart cfg s1 op) = tr_real (fst (cf_tstart cfg s2 op)).
Proof.
  intros Hm Hl. unfold cf_tstart, cs_tstart. rewrite Hm, Hl. cbv zeta.
  destruct op; try reflexivity. destruct (c_queue (cs_m s2)); [reflexivity|].
  unfold tr_real. cs_break; reflexivity.
Qed.

Lemma cs_real_note cfg g t : cs_real_thr (cs_note cfg g t) = cs_real_thr t.
Proof. unfold cs_real_thr. rewrite cs_note_prog, cs_note_pc, cs_note_op. reflexivity. Qed.

Lemma cs_real_map_note cfg g l : map cs_real_thr (map (cs_note cfg g) l) = map cs_real_thr l.
Proof. rewrite map_map. apply map_ext. intros t. apply cs_real_note. Qed.

Lemma cs_map_upd {A B} (f : A -> B) (l : list A) i x : map f (cs_upd l i x) = cs_upd (map f l) i (f x).
Proof. revert i. induction l as [|a r IH]; intros i; destruct i; cbn; try reflexivity. rewrite IH. reflexivity. Qed.

Lemma cs_real_next cfg t op prog r :
  cs_real_thr (cs_next cfg t op prog r) = (prog, tr_pc r, match tr_pc r with CsIdle => None | _ => Some op end).
Proof. unfold cs_next. destruct (tr_pc r); try (rewrite cs_real_note); reflexivity. Qed.

Lemma cs_go_real cfg s1 s2 tid t1 t2 op prog r1 r2 :
  cs_real s1 = cs_real s2 -> tr_real r1 = tr_real r2 ->
  cs_real (fst (cs_go cfg s1 tid t1 op prog r1)) = cs_real (fst (cs_go cfg s2 tid t2 op prog r2)) /\
  snd (cs_go cfg s1 tid t1 op prog r1) = snd (cs_go cfg s2 tid t2 op prog r2).
Proof.
  intros Hs Hr. unfold cs_real in Hs. inversion Hs as [[Hm Hl Ht Hb Hlog]]. unfold tr_real in Hr. inversion Hr as [[Rm Rl Rp Re Rr]].
  split; [|unfold cs_go; cbn [snd]; exact Re].
  unfold cs_real. rewrite !cs_go_thr. unfold cs_go. cbn [fst cs_m cs_lock cs_bad cs_log].
  rewrite !cs_map_upd, !cs_real_map_note, !cs_real_next, Rm, Rl, Rp, Ht, Hb.
  f_equal.
  destruct (tr_ret r1) as [[res1 o1]|]; destruct (tr_ret r2) as [[res2 o2]|]; cbn in Rr; try discriminate; cbn [map cs_real_log].
  - inversion Rr; subst. rewrite Hlog. reflexivity.
  - exact Hlog.
Qed.

Lemma cs_existsb_map {A B} (f : A -> B) (p : B -> bool) l : existsb p (map f l) = existsb (fun x => p (f x)) l.
Proof. induction l as [|a r IH]; cbn; [reflexivity|]. rewrite IH. reflexivity. Qed.

Lemma cs_real_pcs s1 s2 : map cs_real_thr (cs_thr s1) = map cs_real_thr (cs_thr s2) -> map ct_pc (cs_thr s1) = map ct_pc (cs_thr s2).
Proof.
  intros H. assert (E : forall l, map ct_pc l = map (fun x => snd (fst x)) (map cs_real_thr l)).
  { intros l. rewrite map_map. reflexivity. }
  rewrite !E, H. reflexivity.
Qed.

Lemma cs_complete_real s1 s2 f : cs_m s1 = cs_m s2 -> map ct_pc (cs_thr s1) = map ct_pc (cs_thr s2) ->
  cs_complete s1 f = cs_complete s2 f.
Proof.
  intros Hm Hp. unfold cs_complete. rewrite Hm.
  assert (E : forall l, existsb (fun t => match ct_pc t with CsWSP g _ _ _ => Nat.eqb g f | _ => false end) l =
                        existsb (fun pc => match pc with CsWSP g _ _ _ => Nat.eqb g f | _ => false end) (map ct_pc l)).
  { intros l. rewrite cs_existsb_map. reflexivity. }
  rewrite !E, Hp. reflexivity.
Qed.

Lemma cs_blocked_real s1 s2 t1 t2 : cs_real s1 = cs_real s2 -> ct_pc t1 = ct_pc t2 -> cs_blocked s1 t1 = cs_blocked s2 t2.
Proof.
  intros Hs Hp. unfold cs_real in Hs. inversion Hs as [[Hm Hl Ht Hb Hlog]]. unfold cs_blocked. rewrite Hp, Hl.
  destruct (ct_pc t2); try reflexivity. rewrite (cs_complete_real s1 s2 x Hm (cs_real_pcs s1 s2 Ht)). reflexivity.
Qed.

Lemma cs_tick_real cfg s1 s2 dt : cs_real s1 = cs_real s2 ->
  cs_real (fst (cs_step CsFixed cfg s1 (CsTick dt))) = cs_real (fst (cs_step CsFixed cfg s2 (CsTick dt))) /\
  snd (cs_step CsFixed cfg s1 (CsTick dt)) = snd (cs_step CsFixed cfg s2 (CsTick dt)).
Proof.
  intros Hs. cbn [cs_step]. destruct (dt <? 0); [split; [exact Hs|reflexivity]|]. cbn [fst snd]. split; [|reflexivity].
  unfold cs_real in *. inversion Hs as [[Hm Hl Ht Hb Hlog]]. cbn [cs_m cs_lock cs_thr cs_bad cs_log].
  rewrite !cs_real_map_note, Hm, Hl, Ht, Hb, Hlog.
  assert (E : forall l, existsb (fun t => cs_in_window CsFixed (ct_pc t)) l = existsb (cs_in_window CsFixed) (map ct_pc l)).
  { intros l. rewrite cs_existsb_map. reflexivity. }
  rewrite !E, (cs_real_pcs s1 s2 Ht). reflexivity.
Qed.

Lemma cf_real_step cfg s1 s2 it : cs_real s1 = cs_real (cf_s s2) ->
  cs_real (fst (cs_step CsFixed cfg s1 it)) = cs_real (cf_s (fst (cf_step cfg s2 it))) /\
  snd (cs_step CsFixed cfg s1 it) = snd (cf_step cfg s2 it).
Proof.
  intros Hs. destruct it as [tid|dt].
  2:{ cbn [cf_step fst snd cf_s]. apply cs_tick_real. exact Hs. }
  pose proof Hs as Hs'. unfold cs_real in Hs'. inversion Hs' as [[Hm Hl Ht Hb Hlog]]. clear Hs'.
  cbn [cs_step cf_step].
  assert (Hn : option_map cs_real_thr (nth_error (cs_thr s1) tid) = option_map cs_real_thr (nth_error (cs_thr (cf_s s2)) tid)).
  { rewrite <- !nth_error_map, Ht. reflexivity. }
  destruct (nth_error (cs_thr s1) tid) as [t1|]; destruct (nth_error (cs_thr (cf_s s2)) tid) as [t2|]; cbn in Hn; try discriminate;
    [|split; [exact Hs|reflexivity]].
  inversion Hn as [[Hprog Hpc Hop]].
  rewrite (cs_blocked_real s1 (cf_s s2) t1 t2 Hs Hpc). destruct (cs_blocked (cf_s s2) t2); [split; [exact Hs|reflexivity]|].
  rewrite Hop. destruct (ct_op t2) as [op|].
  - rewrite Hprog. cbn [fst snd cf_s]. apply cs_go_real; [exact Hs|]. apply cs_tstep_real; auto.
  - rewrite Hprog. destruct (ct_prog t2) as [|op rest]; [split; [exact Hs|reflexivity]|].
    cbn [fst snd cf_s]. apply cs_go_real; [exact Hs|]. apply cf_tstart_real; auto.
Qed.

Lemma cf_real_run cfg sched : forall s1 s2, cs_real s1 = cs_real (cf_s s2) ->
  cs_real (cs_run CsFixed cfg s1 sched) = cs_real (cf_s (cf_run cfg s2 sched)).
Proof.
  induction sched as [|it r IH]; intros s1 s2 H; cbn [cs_run cf_run]; [exact H|].
  apply IH. apply cf_real_step. exact H.
Qed.

Theorem cf_same_steps cfg progs sched :
  cs_real (cs_run CsFixed cfg (cs_init progs) sched) = cs_real (cf_s (cf_run cfg (cf_init progs) sched)).
Proof. apply cf_real_run. reflexivity. Qed.

(* both results chained: the calls linearize in a history of Cache.v itself *)
Theorem cf_refines_cache cfg progs sched :
  c_cfg_ok cfg ->
  let s := cf_run cfg (cf_init progs) sched in
  cs_bad (cf_s s) = false ->
  let xevs := rev (cf_xevs s) in
  let evs := cx_trans cfg c_init c_init xevs in
  let sc := c_run cfg c_init evs in
  cs_mis (cf_s s) = false /\
  c_vis_outputs cfg c_init evs = cx_vis_outputs cfg c_init xevs /\
  c_now sc = c_now (cs_g (cf_s s)) /\ c_futs sc = c_futs (cs_g (cf_s s)) /\
  c_map sc = c_map (cs_g (cf_s s)) /\ c_displaced sc = c_displaced (cs_g (cf_s s)) /\
  (forall f, In f (c_running (cs_g (cf_s s))) -> In f (c_running sc)).
Proof.
  intros Hcfg s Hb xevs evs sc. destruct (cf_refines cfg progs sched Hcfg Hb) as [Hm Hg]. fold s in Hm, Hg.
  destruct (cx_simulated_by_cache cfg xevs) as [H1 [H2 [H3 [H4 [H5 [_ H7]]]]]]. cbv zeta in *. fold xevs in Hg.
  rewrite Hg. auto 10.
Qed.
