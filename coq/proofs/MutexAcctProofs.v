(* MutexAcctProofs.v -- waiter-count accounting of the re-modelled sync.Mutex (models/MutexWord.v
   part 2) and unreachability of its throw/fatal dead ends.

   The exclusion invariant mx_J (MutexWordProofs.v) is extended by
     mx_K: in normal mode     waiters + tokens + pending normal-mode Semrelease = #threads in XLSleep
           in starvation mode waiters + pending hand-off Semrelease
                                = #XLSleep + #XLWoke + #(XLHand or pending hand-off Semrelease),
                              i.e. waiters = #XLSleep + #XLWoke + #XLHand, and woken = 0
     mx_lok2: a lockSlow CAS of a thread with awoke = true carries a snapshot with woken = 1; no
           thread is at XDead. *)
From Got Require Import Base MutexWord MutexWordProofs MutexExclProofs.
Local Open Scope nat_scope.

(* ------------------------------------------------------------------ weights and invariant *)

Definition mx_wQ (th : mx_thread) : nat := match xpc th with XLSleep _ _ _ => 1 | _ => 0 end.
Definition mx_wR (th : mx_thread) : nat := match xpc th with XURel true => 1 | _ => 0 end.
Definition mx_wG (th : mx_thread) : nat := match xpc th with XLHand _ => 1 | _ => 0 end.

Definition mx_lok2 (th : mx_thread) : Prop :=
  match xpc th with
  | XLCas _ _ true _ old => xk old = true
  | XDead => False
  | _ => True
  end.

(* Q sleepers (XLSleep: parked or about to park), W woken-not-yet-loaded, P pending normal-mode
   Semrelease, D hand-off in progress (XLHand or pending hand-off Semrelease), R pending hand-off
   Semrelease *)
Definition mx_K (r : mx_w) (t Q W P D R : nat) : Prop :=
  (xs r = false -> xn r + t + P = Q) /\
  (xs r = true -> xn r + R = Q + W + D /\ xk r = false).

Lemma mx_step_th_K r t th r' t' th' ev RH RW RS RP RD RQ RR :
  mx_lok th -> mx_lok2 th -> RR <= RD ->
  mx_J r t (mx_wH th + RH) (mx_wW th + RW) (mx_wS th + RS) (mx_wP th + RP) (mx_wD th + RD) ->
  mx_K r t (mx_wQ th + RQ) (mx_wW th + RW) (mx_wP th + RP) (mx_wD th + RD) (mx_wR th + RR) ->
  mx_step_th r t th = (r', t', th', ev) ->
  mx_lok2 th' /\ ev <> XEPanic /\
  mx_K r' t' (mx_wQ th' + RQ) (mx_wW th' + RW) (mx_wP th' + RP) (mx_wD th' + RD) (mx_wR th' + RR).
Proof.
  destruct th as [pc h todo].
  unfold mx_step_th, mx_to_cas, mx_uslow_done, mx_lok, mx_lok2, mx_J, mx_K, mx_wH, mx_wW, mx_wS, mx_wP, mx_wD, mx_wQ, mx_wR, mx_b2n.
  cbn [xpc xh xtodo]. intros L L2 HR J K Hs.
  destruct pc; [destruct todo as [|[sp st| |] rest]| | | | | destruct t as [|t0] | | | | | | | | | |];
    mx_conds; inversion Hs; subst; clear Hs;
    cbn [xpc xh xtodo mx_mkth mx_set_l mx_slow_new mx_zero xl xk xs xn] in *;
    repeat match goal with o : mx_w |- _ => destruct o as [?l ?k ?s ?n] end; cbn [xl xk xs xn] in *;
    repeat match goal with
    | H : {| xl := _; xk := _; xs := _; xn := _ |} = {| xl := _; xk := _; xs := _; xn := _ |} |- _ => inversion H; clear H; subst
    | H : {| xl := _; xk := _; xs := _; xn := _ |} = ?o |- _ => subst o
    | H : ?o = {| xl := _; xk := _; xs := _; xn := _ |} |- _ => subst o
    end;
    cbn [xl xk xs xn] in *;
    repeat match goal with b : bool |- _ => clear b end;
    repeat match goal with b : bool |- _ => destruct b end;
    cbn in *; repeat split; intros; try discriminate; try lia;
    repeat match goal with
    | H : _ /\ _ |- _ => destruct H
    | H : ?a = ?a -> _ |- _ => specialize (H eq_refl)
    | H : false = true -> _ |- _ => clear H
    | H : true = false -> _ |- _ => clear H
    end; try discriminate; try lia; try congruence.
Qed.


(* ------------------------------------------------------------------ the global invariant *)

Definition mx_cnt (f : mx_thread -> nat) (s : mx_state) : nat := mx_sum f (xthreads s).

Definition mx_inv2 (s : mx_state) : Prop :=
  mx_inv s /\ Forall mx_lok2 (xthreads s) /\
  mx_K (xword s) (xsema s) (mx_cnt mx_wQ s) (mx_cnt mx_wW s) (mx_cnt mx_wP s) (mx_cnt mx_wD s) (mx_cnt mx_wR s).

Lemma mx_sum_le f g l : (forall x, f x <= g x) -> mx_sum f l <= mx_sum g l.
Proof.
  intros H. unfold mx_sum. induction l as [|x l IH]; simpl; [lia|]. specialize (H x). lia.
Qed.

Lemma mx_wR_le_wD th : mx_wR th <= mx_wD th.
Proof. unfold mx_wR, mx_wD. destruct (xpc th) as [| | | | | | | | | | | | | |hd|]; try destruct hd; lia. Qed.

Lemma mx_wD_split th : mx_wD th = mx_wG th + mx_wR th.
Proof. unfold mx_wR, mx_wD, mx_wG. destruct (xpc th) as [| | | | | | | | | | | | | |hd|]; try destruct hd; reflexivity. Qed.

Lemma mx_sum_plus f g h l : (forall x, f x = g x + h x) -> mx_sum f l = mx_sum g l + mx_sum h l.
Proof.
  intros H. unfold mx_sum. induction l as [|x l IH]; simpl; [reflexivity|]. rewrite H, IH. lia.
Qed.

Lemma mx_step_inv2 s i :
  mx_inv2 s -> mx_inv2 (fst (mx_step s i)) /\ snd (mx_step s i) <> XEPanic.
Proof.
  intros (I & L2 & K). pose proof (mx_step_inv s i I) as I'. destruct I as [L J].
  unfold mx_inv2. revert I'. unfold mx_step.
  destruct (nth_error (xthreads s) i) as [th|] eqn:E.
  2:{ cbn [fst snd]. intros I'. split; [|discriminate]. split; [exact I'|]. split; assumption. }
  destruct (mx_step_th (xword s) (xsema s) th) as [[[r' t'] th'] ev] eqn:Hs.
  cbn [fst snd]. intros I'. unfold mx_cnt in *. cbn [xword xsema xthreads].
  rewrite (mx_sum_split mx_wH _ _ _ E), (mx_sum_split mx_wW _ _ _ E), (mx_sum_split mx_wS _ _ _ E),
          (mx_sum_split mx_wP _ _ _ E), (mx_sum_split mx_wD _ _ _ E) in J.
  rewrite (mx_sum_split mx_wQ _ _ _ E), (mx_sum_split mx_wW _ _ _ E), (mx_sum_split mx_wR _ _ _ E),
          (mx_sum_split mx_wP _ _ _ E), (mx_sum_split mx_wD _ _ _ E) in K.
  assert (Lth : mx_lok th) by (rewrite Forall_forall in L; apply L; eapply nth_error_In; exact E).
  assert (L2th : mx_lok2 th) by (rewrite Forall_forall in L2; apply L2; eapply nth_error_In; exact E).
  assert (HR : mx_sum mx_wR (firstn i (xthreads s)) + mx_sum mx_wR (skipn (S i) (xthreads s)) <=
               mx_sum mx_wD (firstn i (xthreads s)) + mx_sum mx_wD (skipn (S i) (xthreads s))).
  { pose proof (mx_sum_le mx_wR mx_wD (firstn i (xthreads s)) mx_wR_le_wD).
    pose proof (mx_sum_le mx_wR mx_wD (skipn (S i) (xthreads s)) mx_wR_le_wD). lia. }
  destruct (mx_step_th_K _ _ _ _ _ _ _ _ _ _ _ _ _ _ Lth L2th HR J K Hs) as (L2' & Hev & K').
  split; [|exact Hev]. split; [exact I'|]. split.
  - apply mx_Forall_set_nth; assumption.
  - rewrite !mx_sum_set. exact K'.
Qed.

Lemma mx_init_inv2 progs : mx_inv2 (mx_init progs).
Proof.
  split; [apply mx_init_inv|]. unfold mx_init, mx_cnt. cbn [xword xsema xthreads]. split.
  - apply Forall_forall. intros th Hin. apply in_map_iff in Hin. destruct Hin as [p [<- _]]. exact I.
  - assert (Hz : forall f, (forall p, f (mx_mkth XIdle false p) = 0) ->
                          mx_sum f (map (fun p => mx_mkth XIdle false p) progs) = 0).
    { intros f Hf. unfold mx_sum. induction progs as [|p l IH]; simpl; [reflexivity|]. rewrite Hf, IH. reflexivity. }
    rewrite !Hz by (intros; reflexivity).
    unfold mx_K. cbn. split; intros; [reflexivity|discriminate].
Qed.

Lemma mx_run_inv2 s sched :
  mx_inv2 s ->
  mx_inv2 (mx_final s sched) /\ Forall (fun e => snd e <> XEPanic) (mx_trace s sched).
Proof.
  unfold mx_final, mx_trace. revert s. induction sched as [|i r IH]; intros s H; cbn [mx_run].
  - split; [exact H|constructor].
  - destruct (mx_step_inv2 s i H) as [H1 Hev].
    destruct (mx_step s i) as [s1 ev] eqn:E. destruct (mx_run s1 r) as [s2 tr] eqn:E2. cbn [fst snd] in *.
    specialize (IH s1 H1). rewrite E2 in IH. cbn [fst snd] in IH. destruct IH as [IH1 IH2].
    split; [exact IH1|]. constructor; [exact Hev|exact IH2].
Qed.

Lemma mx_reach_inv2 progs sched : mx_inv2 (mx_final (mx_init progs) sched).
Proof. apply mx_run_inv2, mx_init_inv2. Qed.

(* ------------------------------------------------------------------ theorems *)

(* no thread is ever at the dead pc (throw("sync: inconsistent mutex state") in lockSlow -- awoke
   without mutexWoken, hand-off wake-up on a word with locked/woken set or no waiter --, a hand-off
   AddInt32 that is not field-wise, fatal("sync: unlock of unlocked mutex")), and no step of
   any run has the panic event: for all programs (all oracle bits) and all schedules *)
Theorem mx_no_inconsistent_state progs sched :
  let s := mx_final (mx_init progs) sched in
  Forall (fun th => xpc th <> XDead) (xthreads s) /\
  Forall (fun e => snd e <> XEPanic) (mx_trace (mx_init progs) sched).
Proof.
  cbn zeta. destruct (mx_run_inv2 _ sched (mx_init_inv2 progs)) as [(_ & L2 & _) Htr].
  split; [|exact Htr].
  eapply Forall_impl; [|exact L2]. intros th H Hd. unfold mx_lok2 in H. rewrite Hd in H. exact H.
Qed.

(* the accounting invariant, in closed form on reachable states *)
Theorem mx_waiter_accounting progs sched :
  let s := mx_final (mx_init progs) sched in
  let w := xword s in
  (xs w = false ->
     xn w + xsema s + mx_cnt mx_wP s = mx_cnt mx_wQ s /\ mx_cnt mx_wD s = 0 /\
     xsema s + mx_cnt mx_wP s + mx_cnt mx_wW s + mx_cnt mx_wS s <= mx_b2n (xk w)) /\
  (xs w = true ->
     xn w = mx_cnt mx_wQ s + mx_cnt mx_wW s + mx_cnt mx_wG s /\ xk w = false /\
     mx_cnt mx_wP s = 0 /\ mx_cnt mx_wS s = 0 /\
     xsema s + mx_cnt mx_wW s + mx_cnt mx_wD s <= 1 /\
     (xl w = true -> xsema s + mx_cnt mx_wW s + mx_cnt mx_wD s = 0)).
Proof.
  cbn zeta. destruct (mx_reach_inv2 progs sched) as ([_ (J1 & J2 & J3)] & _ & (K1 & K2)).
  unfold mx_cnt in *. split; intros Hs.
  - specialize (J2 Hs). specialize (K1 Hs). destruct J2 as [J2 J2']. repeat split; try assumption.
  - specialize (J3 Hs). specialize (K2 Hs). destruct J3 as (A & B & C & D). destruct K2 as [K2 K2'].
    repeat split; try assumption.
    rewrite (mx_sum_plus mx_wD mx_wG mx_wR _ mx_wD_split) in K2. lia.
Qed.

(* the woken waiter about to do the hand-off AddInt32(mutexLocked - 1<<mutexWaiterShift
   [- mutexStarving]) finds locked = 0, woken = 0, starving = 1, waiters >= 1; so the step is
   taken (no dead end), and the model's field-wise new word is the int32 sum *)
Theorem mx_handoff_wellformed_strong progs sched i th e :
  let s := mx_final (mx_init progs) sched in
  nth_error (xthreads s) i = Some th -> xpc th = XLHand e ->
  xl (xword s) = false /\ xk (xword s) = false /\ xs (xword s) = true /\ 1 <= xn (xword s) /\
  snd (mx_step s i) = XEAcq 2 /\
  mx_enc (xword (fst (mx_step s i))) = (mx_enc (xword s) + (1 - 8 - (if e then 4 else 0)))%Z.
Proof.
  cbn zeta. intros E Hpc.
  destruct (mx_handoff_wellformed progs sched i th e E Hpc) as [Hl Hs].
  pose proof (mx_waiter_accounting progs sched) as [_ A]. cbn zeta in A. specialize (A Hs).
  destruct A as (An & Ak & _).
  assert (Hg : 1 <= mx_cnt mx_wG (mx_final (mx_init progs) sched)).
  { unfold mx_cnt. rewrite (mx_sum_split mx_wG _ _ _ E). unfold mx_wG at 1. rewrite Hpc. lia. }
  assert (Hn : 1 <= xn (xword (mx_final (mx_init progs) sched))) by lia.
  repeat split; try assumption.
  - unfold mx_step. rewrite E. destruct th as [pc h todo]. cbn [xpc] in Hpc. subst pc.
    unfold mx_step_th. cbn [xpc xh xtodo]. rewrite Hl, Hs.
    destruct (xn _ =? 0) eqn:E0; [apply Nat.eqb_eq in E0; lia|].
    destruct e; reflexivity.
  - unfold mx_step. rewrite E. destruct th as [pc h todo]. cbn [xpc] in Hpc. subst pc.
    unfold mx_step_th. cbn [xpc xh xtodo]. rewrite Hl, Hs.
    destruct (xn _ =? 0) eqn:E0; [apply Nat.eqb_eq in E0; lia|].
    rewrite !mx_enc_arith. rewrite Hl, Hs, Ak.
    destruct e; cbn [negb andb orb fst xword xl xk xs xn Z.b2z]; lia.
Qed.

(* a successful TryLock CAS (first or second) happens on a word with locked = woken = starving = 0,
   sets the locked bit and changes nothing else -- waiter count, tokens, and every weight of the
   accounting are as before --, so it preserves mx_K for whatever the other threads contribute *)
Theorem mx_trylock_acquire_accounting r t th r' t' th' how :
  mx_lok th -> mx_step_th r t th = (r', t', th', XEAcq how) -> how = 3 \/ how = 4 ->
  xl r = false /\ xk r = false /\ xs r = false /\ r' = mx_set_l r true /\ t' = t /\
  (mx_wQ th = 0 /\ mx_wW th = 0 /\ mx_wP th = 0 /\ mx_wD th = 0 /\ mx_wR th = 0 /\ mx_wS th = 0) /\
  (mx_wQ th' = 0 /\ mx_wW th' = 0 /\ mx_wP th' = 0 /\ mx_wD th' = 0 /\ mx_wR th' = 0 /\ mx_wS th' = 0) /\
  (forall Q W P D R, mx_K r t Q W P D R -> mx_K r' t' Q W P D R).
Proof.
  destruct th as [pc h todo]. unfold mx_step_th, mx_to_cas, mx_uslow_done, mx_lok. cbn [xpc xh xtodo]. intros L Hs Hh.
  destruct pc; [destruct todo as [|[sp st| |] rest]| | | | | destruct t as [|t0] | | | | | | | | | |];
    mx_conds; inversion Hs; subst; clear Hs; try (destruct Hh; discriminate).
  - cbn [mx_zero xl xk xs]. do 5 (split; [reflexivity|]).
    split; [repeat split|]. split; [repeat split|].
    unfold mx_K, mx_set_l. cbn [xl xk xs xn]. intros q0 w0 p0 d0 r0 [K1 K2]. split; assumption.
  - destruct L as (Ll & Lk & Ls). do 3 (split; [assumption|]). do 2 (split; [reflexivity|]).
    split; [repeat split|]. split; [repeat split|].
    unfold mx_K, mx_set_l. cbn [xl xk xs xn]. intros q0 w0 p0 d0 r0 [K1 K2]. split; assumption.
Qed.

(* ------------------------------------------------------------------ the word stays an int32 *)

Lemma mx_step_length s i : length (xthreads (fst (mx_step s i))) = length (xthreads s).
Proof.
  unfold mx_step. destruct (nth_error (xthreads s) i) as [th|] eqn:E; [|reflexivity].
  destruct (mx_step_th (xword s) (xsema s) th) as [[[r' t'] th'] ev]. cbn [fst xthreads].
  assert (Hi : i < length (xthreads s)) by (apply nth_error_Some; congruence).
  rewrite app_length. cbn [length]. rewrite firstn_length, skipn_length. lia.
Qed.

Lemma mx_run_length s sched : length (xthreads (mx_final s sched)) = length (xthreads s).
Proof.
  unfold mx_final. revert s. induction sched as [|i r IH]; intros s; cbn [mx_run]; [reflexivity|].
  pose proof (mx_step_length s i) as H1.
  destruct (mx_step s i) as [s1 ev] eqn:E. specialize (IH s1).
  destruct (mx_run s1 r) as [s2 tr] eqn:E2. cbn [fst] in *. lia.
Qed.

Lemma mx_sum_QWG_le l : mx_sum mx_wQ l + mx_sum mx_wW l + mx_sum mx_wG l <= length l.
Proof.
  unfold mx_sum. induction l as [|th l IH]; cbn [fold_right length]; [lia|].
  assert (mx_wQ th + mx_wW th + mx_wG th <= 1) by (unfold mx_wQ, mx_wW, mx_wG; destruct (xpc th); lia).
  lia.
Qed.

(* the waiter field never exceeds the number of threads, so with fewer than 2^28 threads the
   word is a valid non-negative int32 (the precondition of mx_count_truthful) *)
Theorem mx_waiters_le_threads progs sched :
  xn (xword (mx_final (mx_init progs) sched)) <= length progs.
Proof.
  pose proof (mx_waiter_accounting progs sched) as [A B]. cbn zeta in A, B.
  pose proof (mx_sum_QWG_le (xthreads (mx_final (mx_init progs) sched))) as Hle.
  rewrite mx_run_length in Hle.
  assert (Hl : length (xthreads (mx_init progs)) = length progs) by (unfold mx_init; cbn [xthreads]; apply map_length).
  rewrite Hl in Hle.
  unfold mx_cnt in *.
  destruct (xs (xword (mx_final (mx_init progs) sched))) eqn:Es.
  - destruct (B eq_refl) as [Hn _]. lia.
  - destruct (A eq_refl) as [Hn _]. lia.
Qed.

Theorem mx_word_valid progs sched :
  (Z.of_nat (length progs) < 2 ^ 28)%Z ->
  mx_valid_word (mx_enc (xword (mx_final (mx_init progs) sched))).
Proof.
  intros Hlen. unfold mx_enc. apply mx_mk_valid.
  pose proof (mx_waiters_le_threads progs sched). lia.
Qed.

(* the dead-end branches of the step function are real: from (unreachable) states each of
   them is taken -- a statement sanity check for mx_no_inconsistent_state *)
Lemma mx_dead_ends_exist :
  snd (mx_step_th {| xl := true; xk := false; xs := false; xn := 0 |} 0
         (mx_mkth (XLLoad 0 0 true false) false [])) = XEPanic /\
  snd (mx_step_th {| xl := true; xk := false; xs := true; xn := 1 |} 0 (mx_mkth (XLWoke 0 0 true) false [])) = XEPanic /\
  snd (mx_step_th {| xl := false; xk := false; xs := true; xn := 0 |} 0 (mx_mkth (XLWoke 0 0 true) false [])) = XEPanic /\
  snd (mx_step_th {| xl := true; xk := false; xs := true; xn := 1 |} 0 (mx_mkth (XLHand true) false [])) = XEPanic /\
  snd (mx_step_th {| xl := false; xk := false; xs := false; xn := 1 |} 0 (mx_mkth XU1 true [])) = XEPanic.
Proof. repeat split. Qed.
