(* proofs about models/MutexObs.v *)
From Got Require Import Base MutexWord MutexWordProofs MutexObs.
Local Open Scope Z_scope.

Lemma mx_land1_odd w : (Z.land w 1 =? 1) = Z.odd w.
Proof.
  change 1 with (Z.ones 1) at 1. rewrite Z.land_ones by lia.
  rewrite Zodd_mod. change (2 ^ 1) with 2. destruct (Zeq_bool (w mod 2) 1) eqn:E.
  - apply Zeq_bool_eq in E. rewrite E. reflexivity.
  - apply Zeq_bool_neq in E. apply Z.eqb_neq. exact E.
Qed.

Lemma mx_land_bit w k : 0 <= k -> (Z.land w (2 ^ k) =? 2 ^ k) = Z.odd (w / 2 ^ k).
Proof.
  intros Hk. rewrite <- Z.shiftr_div_pow2 by lia.
  rewrite <- Z.bit0_odd. rewrite Z.shiftr_spec by lia. rewrite Z.add_0_l.
  destruct (Z.testbit w k) eqn:E.
  - apply Z.eqb_eq. apply Z.bits_inj'. intros n Hn.
    rewrite Z.land_spec. rewrite Z.pow2_bits_eqb by lia.
    destruct (Z.eqb_spec k n) as [->|Hne]; [rewrite E; reflexivity|apply andb_false_r].
  - apply Z.eqb_neq. intros H.
    assert (Hb : Z.testbit (Z.land w (2 ^ k)) k = Z.testbit (2 ^ k) k) by (rewrite H; reflexivity).
    rewrite Z.land_spec, E, Z.pow2_bits_true in Hb by lia. discriminate.
Qed.

(* every observer returns the promised function of the word AT ITS SINGLE LOAD *)
Lemma mx_obs_single_snapshot :
  forall o ws, mx_valid_word (mx_nth_word ws 0) ->
    mx_obs_run MxoOneLoad o ws = (1%nat, [mx_obs_site o], mx_obs_spec o (mx_nth_word ws 0)).
Proof.
  intros o ws Hv. unfold mx_obs_run. f_equal.
  destruct o; cbn [mx_obs_ret mx_obs_spec].
  - apply mx_count_truthful. exact Hv.
  - f_equal. unfold mx_locked. apply mx_land1_odd.
  - f_equal. unfold mx_woken. exact (mx_land_bit _ 1 ltac:(lia)).
  - f_equal. unfold mx_starving. exact (mx_land_bit _ 2 ltac:(lia)).
Qed.

(* hence the result is the promised value of one of the words the mutex had during the call *)
Lemma mx_obs_result_is_some_word :
  forall o ws, ws <> [] -> Forall mx_valid_word ws ->
    exists w, In w ws /\ snd (mx_obs_run MxoOneLoad o ws) = mx_obs_spec o w.
Proof.
  intros o ws Hne Hall. destruct ws as [|w ws']; [congruence|].
  exists w. split; [left; reflexivity|].
  rewrite mx_obs_single_snapshot; [reflexivity|].
  unfold mx_nth_word. cbn [nth]. inversion Hall; assumption.
Qed.

(* the two-load shape: one participant at every instant (woken hand-over word 10, then locked word 1),
   reported total 2; and the other order reports 0 *)
Lemma mx_obs_two_loads_refuted :
  mx_valid_word 10 /\ mx_valid_word 1 /\
  mx_obs_spec MxoCount 10 = 1 /\ mx_obs_spec MxoCount 1 = 1 /\
  snd (mx_obs_run MxoTwoLoads MxoCount [10; 1]) = 2 /\
  snd (mx_obs_run MxoTwoLoads MxoCount [1; 10]) = 0 /\
  (forall w, snd (mx_obs_run MxoTwoLoads MxoCount [w]) = snd (mx_obs_run MxoOneLoad MxoCount [w])).
Proof.
  repeat split; try (vm_compute; congruence).
  intros w. unfold mx_obs_run, mx_nth_word. cbn [nth last snd mx_obs_ret mx_count].
  f_equal.
  assert (H : Z.land w 1 = w mod 2).
  { change 1 with (Z.ones 1). rewrite Z.land_ones by lia. reflexivity. }
  rewrite H. pose proof (Z.mod_pos_bound w 2 ltac:(lia)) as Hb.
  destruct (Z.eqb_spec (w mod 2) 1) as [E|E]; cbn [Z.b2z]; lia.
Qed.
