(* CacheStepsProofs.v -- the small-step machine CacheSteps.v refines the atomic machine
   Cache.v (forward simulation with ghost linearization points and candidate sets). *)
From Got Require Import Base Cache CacheProofs CacheSteps.
Local Open Scope Z_scope.

(* ------------------------------------------------------------------ the ghost is an atomic history *)
Ltac cs_break :=
  repeat match goal with
         | |- context [match ?x with _ => _ end] =>
             match type of x with
             | sumbool _ _ => fail 1
             | _ => destruct x eqn:?
             end
         end.

Lemma cs_sweep_next_ghost cfg m lk g rest :
  tr_g (cs_sweep_next cfg m lk g rest) = c_run cfg g (tr_emit (cs_sweep_next cfg m lk g rest)).
Proof. destruct rest as [|[k f] r]; reflexivity. Qed.

Lemma cs_tstep_ghost cfg s tid t :
  tr_g (cs_tstep cfg s tid t) = c_run cfg (cs_g s) (tr_emit (cs_tstep cfg s tid t)).
Proof.
  unfold cs_tstep, cs_lin_load, cs_fetched, cs_return, cs_park.
  destruct (ct_pc t); try reflexivity; try apply cs_sweep_next_ghost;
    cs_break; try reflexivity; try apply cs_sweep_next_ghost;
    cbn [tr_g tr_emit c_run c_step fst]; 
    repeat match goal with H : _ = (_, _) |- _ => rewrite H; clear H end; reflexivity.
Qed.

Lemma cs_tstart_ghost cfg s op :
  tr_g (cs_tstart cfg s op) = c_run cfg (cs_g s) (tr_emit (cs_tstart cfg s op)).
Proof.
  unfold cs_tstart, cs_return, cs_park. destruct op; try reflexivity.
  cs_break; try reflexivity; cbn [tr_g tr_emit c_run c_step fst];
  repeat match goal with H : _ = (_, _) |- _ => rewrite H; clear H end; reflexivity.
Qed.

Definition cs_hist (cfg : c_cfg) (m0 : c_state) (s : cs_state) : Prop :=
  cs_g s = c_run cfg m0 (rev (cs_evs s)).

Lemma cs_go_hist cfg m0 s tid t op prog r :
  cs_hist cfg m0 s -> tr_g r = c_run cfg (cs_g s) (tr_emit r) ->
  cs_hist cfg m0 (fst (cs_go cfg s tid t op prog r)).
Proof.
  unfold cs_hist, cs_go. cbn [fst cs_g cs_evs]. intros H Hr.
  rewrite rev_app_distr, rev_involutive, c_run_app, <- H. exact Hr.
Qed.

Lemma cs_step_hist cfg m0 s it : cs_hist cfg m0 s -> cs_hist cfg m0 (fst (cs_step cfg s it)).
Proof.
  intros H. destruct it as [tid|dt]; cbn [cs_step].
  - destruct (nth_error (cs_thr s) tid) as [t|]; [|exact H].
    destruct (cs_blocked s t); [exact H|].
    destruct (ct_op t) as [op|].
    + apply cs_go_hist; [exact H|apply cs_tstep_ghost].
    + destruct (ct_prog t) as [|op rest]; [exact H|].
      apply cs_go_hist; [exact H|apply cs_tstart_ghost].
  - destruct (dt <? 0); [exact H|]. unfold cs_hist in *. cbn [fst cs_g cs_evs rev].
    rewrite c_run_app, <- H. reflexivity.
Qed.

Lemma cs_run_hist cfg m0 sched : forall s, cs_hist cfg m0 s -> cs_hist cfg m0 (cs_run cfg s sched).
Proof. induction sched as [|it r IH]; intros s H; cbn [cs_run]; [exact H|]. apply IH. apply cs_step_hist. exact H. Qed.

Lemma cs_ghost_is_history cfg progs sched :
  cs_g (cs_run cfg (cs_init progs) sched) = c_run cfg c_init (rev (cs_evs (cs_run cfg (cs_init progs) sched))).
Proof. apply (cs_run_hist cfg c_init sched). reflexivity. Qed.

(* ================================================================== the simulation invariant *)
Definition cs_out (w : bool) (x : nat) : c_out := if w then OAwait x else OLoad x false.
Definition cs_rdop (w : bool) (k : Z) : cs_op := if w then CsGet2 k else CsLoad k.
Definition cs_cnd (t : cs_thread) (o : c_out) : Prop := In o (ct_cands t).

(* key k's entry is f and f is (abstractly) still loading *)
Definition cs_A (g : c_state) (k : Z) (f : nat) : Prop :=
  c_lookup (c_map g) k = Some f /\ c_isload (c_futs g) f.

(* reader that has seen f Good and will read f's predecessor next *)
Definition cs_rd (m g : c_state) (t : cs_thread) (w : bool) (k : Z) (f : nat) : Prop :=
  cs_A g k f \/ (cs_cnd t (cs_out w f) /\ cs_fpred m f = None /\ exists r, cs_fdone m f = Some r).

Definition cs_fresh (cfg : c_cfg) (m : c_state) (f : nat) : Prop :=
  forall v e u, cs_fdone m f = Some (v, e, u) -> c_now m - u < c_expire cfg e.

Definition cs_st_out (f : nat) (st : c_st) : c_out :=
  match st with CGood | CExpired => OAwait f | _ => OImmediate end.

(* Get2 between its map read and the evaluation of the entry's status *)
Definition cs_gu (cfg : c_cfg) (m g : c_state) (t : cs_thread) (k : Z) (f : nat) : Prop :=
  cs_A g k f \/
  (cs_cnd t (OAwait f) /\ cs_fpred m f = None /\ (exists r, cs_fdone m f = Some r) /\ cs_fresh cfg m f) \/
  (exists v e u, cs_fdone g f = Some (v, e, u) /\ cs_cnd t (cs_st_out f (cs_status_of cfg (c_now g - u) e))).

(* reader that holds predecessor p of f *)
Definition cs_pu (cfg : c_cfg) (m g : c_state) (t : cs_thread) (w : bool) (k : Z) (f p : nat) : Prop :=
  exists v e u, cs_fdone m p = Some (v, e, u) /\ cs_fdone g p = Some (v, e, u) /\ c_expire cfg e <= c_now g - u /\
    ((cs_A g k f /\ cs_fpred g f = Some p) \/
     (cs_cnd t (cs_out w f) /\ (cs_cnd t (cs_out w p) \/ 2 * c_expire cfg e <= c_now g - u))).

(* Load that created next = n and has not sent the job yet *)
Definition cs_pend (m g : c_state) (t : cs_thread) (st : c_st) (last : option nat) (n : nat) : Prop :=
  st <> CGood /\
  ct_lin t = Some (OLoad (match st, last with CExpired, Some f => f | _, _ => n end) true) /\
  In n (c_queue g) /\ ~ In n (c_queue m) /\ (n < length (c_futs m))%nat.

Definition cs_tinv (cfg : c_cfg) (m g : c_state) (t : cs_thread) : Prop :=
  match ct_pc t with
  | CsIdle => ct_op t = None
  | CsLBL k | CsLAL k => ct_op t = Some (CsLoad k) /\ ct_lin t = None
  | CsLLU k f => ct_op t = Some (CsLoad k) /\ ct_lin t = None /\ c_lookup (c_map m) k = Some f
  | CsLRE k f past => ct_op t = Some (CsLoad k) /\ ct_lin t = None /\ c_lookup (c_map m) k = Some f /\
      exists v e u, cs_fdone m f = Some (v, e, u) /\ past = c_now m - u /\
        (cs_status_of cfg past e = CGood -> cs_rd m g t false k f)
  | CsLAU st last next => exists k, ct_op t = Some (CsLoad k) /\
      match next with
      | Some n => cs_pend m g t st last n
      | None => exists f, last = Some f /\ cs_rd m g t false k f
      end
  | CsLSJ st last n => exists k, ct_op t = Some (CsLoad k) /\ cs_pend m g t st last n
  | CsGBL k | CsGAL k => ct_op t = Some (CsGet2 k)
  | CsGAU fo => exists k, ct_op t = Some (CsGet2 k) /\
      match fo with None => cs_cnd t OImmediate | Some f => cs_gu cfg m g t k f end
  | CsGLU f => exists k, ct_op t = Some (CsGet2 k) /\ cs_gu cfg m g t k f
  | CsGRE f past => exists k, ct_op t = Some (CsGet2 k) /\ exists v e u, cs_fdone m f = Some (v, e, u) /\
      match cs_status_of cfg past e with
      | CGood => cs_rd m g t true k f
      | CExpired => cs_cnd t (OAwait f)
      | _ => cs_cnd t OImmediate
      end
  | CsGFW _ => ct_op t <> None
  | CsRLP w f => exists k, ct_op t = Some (cs_rdop w k) /\ cs_rd m g t w k f
  | CsRPU w f p => exists k, ct_op t = Some (cs_rdop w k) /\ cs_pu cfg m g t w k f p
  | CsRPE w f p past => ct_op t <> None /\ exists v e u, cs_fdone m p = Some (v, e, u) /\
      cs_cnd t (cs_out w (match cs_status_of cfg past e with CExpired => p | _ => f end))
  | CsWLD f v e => ct_op t <> None /\ In f (c_running g)
  | CsWSU f v e now => ct_op t <> None /\ In f (c_running g) /\ now = c_now m
  | CsWSP f v e now => ct_op t <> None /\ In f (c_running g) /\ now = c_now m /\ cs_fdone m f = Some (v, e, now)
  | _ => False
  end.

(* the output of the call's atomic event in the current ghost state is among the candidates *)
Definition cs_candnow (cfg : c_cfg) (g : c_state) (t : cs_thread) : Prop :=
  forall op o, ct_op t = Some op -> cs_cand cfg g op = Some o -> cs_cnd t o.

Definition cs_covered_t (t : cs_thread) : Prop :=
  forallb cs_op_covered (ct_prog t) = true /\
  match ct_op t with Some op => cs_op_covered op = true | None => True end.

Definition cs_holds (pc : cs_pc) : bool :=
  match pc with CsLAL _ | CsLLU _ _ | CsLRE _ _ _ | CsGAL _ => true | _ => false end.

(* the future a worker thread is completing / the job a Load has created and not sent *)
Definition cs_wfut (pc : cs_pc) : option nat :=
  match pc with CsWLD f _ _ | CsWSU f _ _ _ | CsWSP f _ _ _ => Some f | _ => None end.
Definition cs_pnext (pc : cs_pc) : option nat :=
  match pc with CsLAU _ _ (Some n) | CsLSJ _ _ n => Some n | _ => None end.

Record cs_inv (cfg : c_cfg) (s : cs_state) : Prop := {
  si_g : c_inv cfg (cs_g s);
  si_nodisp : c_displaced (cs_g s) = [];
  si_now : c_now (cs_m s) = c_now (cs_g s);
  si_map : c_map (cs_m s) = c_map (cs_g s);
  si_len : length (c_futs (cs_m s)) = length (c_futs (cs_g s));
  si_fut : forall f x, c_get (c_futs (cs_m s)) f = Some x ->
      exists y, c_get (c_futs (cs_g s)) f = Some y /\ c_fkey y = c_fkey x /\ c_fpred y = c_fpred x /\
        (c_fdone y = c_fdone x \/
         (c_fdone y = None /\ exists tid t v e, nth_error (cs_thr s) tid = Some t /\
            ct_pc t = CsWSP f v e (c_now (cs_m s)) /\ c_fdone x = Some (v, e, c_now (cs_m s))));
  si_queue : forall f, In f (c_queue (cs_m s)) -> In f (c_queue (cs_g s));
  si_qnodup : NoDup (c_queue (cs_m s));
  si_lock : forall tid t, nth_error (cs_thr s) tid = Some t ->
      (cs_holds (ct_pc t) = true <-> cs_lock s = Some tid);
  si_thr : forall tid t, nth_error (cs_thr s) tid = Some t ->
      cs_tinv cfg (cs_m s) (cs_g s) t /\ cs_candnow cfg (cs_g s) t /\ cs_covered_t t;
  si_wuniq : forall i j ti tj f, nth_error (cs_thr s) i = Some ti -> nth_error (cs_thr s) j = Some tj ->
      cs_wfut (ct_pc ti) = Some f -> cs_wfut (ct_pc tj) = Some f -> i = j;
  si_puniq : forall i j ti tj n, nth_error (cs_thr s) i = Some ti -> nth_error (cs_thr s) j = Some tj ->
      cs_pnext (ct_pc ti) = Some n -> cs_pnext (ct_pc tj) = Some n -> i = j;
  si_mis : cs_mis s = false
}.

(* ------------------------------------------------------------------ small facts *)
Lemma cs_out_eqb_spec a b : cs_out_eqb a b = true <-> a = b.
Proof.
  destruct a, b; cbn; split; intros H; try discriminate; try reflexivity; try congruence.
  - apply andb_true_iff in H. destruct H as [H1 H2]. apply Nat.eqb_eq in H1. apply eqb_prop in H2. subst. reflexivity.
  - inversion H; subst. rewrite Nat.eqb_refl, eqb_reflx. reflexivity.
  - apply Nat.eqb_eq in H. subst. reflexivity.
  - inversion H; subst. apply Nat.eqb_refl.
  - apply Nat.eqb_eq in H. subst. reflexivity.
  - inversion H; subst. apply Nat.eqb_refl.
  - apply Nat.eqb_eq in H. subst. reflexivity.
  - inversion H; subst. apply Nat.eqb_refl.
Qed.

Lemma cs_mem_out_spec o l : cs_mem_out o l = true <-> In o l.
Proof.
  unfold cs_mem_out. rewrite existsb_exists. split.
  - intros [x [Hi He]]. apply cs_out_eqb_spec in He. subst. exact Hi.
  - intros H. exists o. split; [exact H|]. apply cs_out_eqb_spec. reflexivity.
Qed.

Lemma cs_upd_nth {A} (l : list A) i x j :
  nth_error (cs_upd l i x) j = if Nat.eqb j i then (match nth_error l i with Some _ => Some x | None => None end) else nth_error l j.
Proof.
  revert i j. induction l as [|a r IH]; intros i j.
  - cbn. destruct j, i; cbn; try reflexivity; destruct (Nat.eqb j i); reflexivity.
  - destruct i as [|i]; destruct j as [|j]; cbn; try reflexivity. apply IH.
Qed.

Lemma cs_status_of_g cfg now futs f x v e u :
  c_get futs f = Some x -> c_fdone x = Some (v, e, u) ->
  c_status cfg now futs (Some f) = cs_status_of cfg (now - u) e.
Proof. intros Hg Hd. rewrite (c_status_done cfg now futs f x v e u Hg Hd). reflexivity. Qed.

Lemma cs_fdone_get m f r : cs_fdone m f = Some r -> exists x, c_get (c_futs m) f = Some x /\ c_fdone x = Some r.
Proof. unfold cs_fdone. destruct (c_get (c_futs m) f) as [x|]; [|discriminate]. intros H. exists x. auto. Qed.

Lemma cs_isload_fdone g f : c_isload (c_futs g) f -> cs_fdone g f = None.
Proof. intros [x [Hg Hd]]. unfold cs_fdone. rewrite Hg. exact Hd. Qed.

(* ------------------------------------------------------------------ candidates in particular ghost states *)
Lemma cs_cand_A cfg g w k f :
  cs_A g k f -> cs_cand cfg g (cs_rdop w k) = Some (cs_out w (c_fetch cfg (c_now g) (c_futs g) f)).
Proof.
  intros [Hl [x [Hx Hd]]]. pose proof (c_status_loading cfg (c_now g) (c_futs g) f x Hx Hd) as Hs.
  destruct w; cbn [cs_rdop cs_cand cs_out].
  - unfold c_get2. rewrite Hl, Hs. reflexivity.
  - unfold c_load. rewrite Hl, Hs. reflexivity.
Qed.

Lemma cs_fetch_nopred cfg g f : cs_fpred g f = None -> c_fetch cfg (c_now g) (c_futs g) f = f.
Proof.
  unfold cs_fpred, c_fetch. destruct (c_get (c_futs g) f) as [x|]; [|reflexivity]. intros H. rewrite H. reflexivity.
Qed.

Lemma cs_fetch_pred cfg g f p v e u :
  cs_fpred g f = Some p -> cs_fdone g p = Some (v, e, u) -> c_expire cfg e <= c_now g - u ->
  c_fetch cfg (c_now g) (c_futs g) f = if c_now g - u <? 2 * c_expire cfg e then p else f.
Proof.
  unfold cs_fpred, c_fetch. destruct (c_get (c_futs g) f) as [x|]; [|discriminate]. intros Hp Hd Hage. rewrite Hp.
  destruct (cs_fdone_get _ _ _ Hd) as [y [Hy Hyd]].
  rewrite (cs_status_of_g cfg (c_now g) (c_futs g) p y v e u Hy Hyd). unfold cs_status_of.
  destruct (c_now g - u <? c_expire cfg e) eqn:E1; [lia|].
  destruct (c_now g - u <? 2 * c_expire cfg e); reflexivity.
Qed.

Lemma cs_status_of_nonempty cfg past e : cs_status_of cfg past e <> CEmpty.
Proof. unfold cs_status_of. cbv zeta. destruct (past <? c_expire cfg e); [discriminate|]. destruct (past <? 2 * c_expire cfg e); discriminate. Qed.

Lemma cs_cand_done cfg g w k f v e u :
  c_inv cfg g -> c_lookup (c_map g) k = Some f -> cs_fdone g f = Some (v, e, u) ->
  cs_cand cfg g (cs_rdop w k) =
    Some (match cs_status_of cfg (c_now g - u) e with
          | CGood => cs_out w f
          | CExpired => if w then OAwait f else OLoad f true
          | _ => if w then OImmediate else OLoad (length (c_futs g)) true
          end).
Proof.
  intros I Hl Hd. destruct (cs_fdone_get _ _ _ Hd) as [x [Hx Hxd]].
  pose proof (cs_status_of_g cfg (c_now g) (c_futs g) f x v e u Hx Hxd) as Hs.
  assert (Hf : c_fetch cfg (c_now g) (c_futs g) f = f).
  { eapply c_fetch_no_pred; [exact Hx|]. eapply c_done_no_pred; eauto. }
  destruct w; cbn [cs_rdop cs_cand cs_out].
  - unfold c_get2. rewrite Hl, Hs. destruct (cs_status_of cfg (c_now g - u) e) eqn:Es;
      first [exfalso; exact (cs_status_of_nonempty _ _ _ Es) | rewrite Hf; reflexivity | reflexivity].
  - unfold c_load. rewrite Hl, Hs. destruct (cs_status_of cfg (c_now g - u) e) eqn:Es; cbn [snd];
      first [exfalso; exact (cs_status_of_nonempty _ _ _ Es) | rewrite Hf; reflexivity | reflexivity].
Qed.

Lemma cs_status_fresh cfg e : c_cfg_ok cfg -> cs_status_of cfg 0 e = CGood.
Proof.
  intros H. pose proof (c_expire_pos cfg e H). unfold cs_status_of.
  destruct (0 <? c_expire cfg e) eqn:E; [reflexivity|lia].
Qed.

(* ------------------------------------------------------------------ notes *)
Lemma cs_note_pc cfg g t : ct_pc (cs_note cfg g t) = ct_pc t.
Proof. unfold cs_note. destruct (ct_op t) as [op|]; [|reflexivity]. destruct (cs_cand cfg g op); reflexivity. Qed.
Lemma cs_note_op cfg g t : ct_op (cs_note cfg g t) = ct_op t.
Proof. unfold cs_note. destruct (ct_op t) as [op|] eqn:E; [|exact E]. destruct (cs_cand cfg g op); cbn; auto. Qed.
Lemma cs_note_lin cfg g t : ct_lin (cs_note cfg g t) = ct_lin t.
Proof. unfold cs_note. destruct (ct_op t) as [op|]; [|reflexivity]. destruct (cs_cand cfg g op); reflexivity. Qed.
Lemma cs_note_prog cfg g t : ct_prog (cs_note cfg g t) = ct_prog t.
Proof. unfold cs_note. destruct (ct_op t) as [op|]; [|reflexivity]. destruct (cs_cand cfg g op); reflexivity. Qed.
Lemma cs_note_mono cfg g t o : cs_cnd t o -> cs_cnd (cs_note cfg g t) o.
Proof.
  unfold cs_cnd, cs_note. destruct (ct_op t) as [op|]; [|auto]. destruct (cs_cand cfg g op); cbn; auto.
Qed.
Lemma cs_note_now cfg g t : cs_candnow cfg g (cs_note cfg g t).
Proof.
  intros op o Hop Hc. rewrite cs_note_op in Hop. unfold cs_cnd, cs_note. rewrite Hop, Hc. cbn. left. reflexivity.
Qed.
Lemma cs_note_adds cfg g t op o : ct_op t = Some op -> cs_cand cfg g op = Some o -> cs_cnd (cs_note cfg g t) o.
Proof. intros Hop Hc. apply (cs_note_now cfg g t op o); [rewrite cs_note_op; exact Hop|exact Hc]. Qed.
Lemma cs_note_covered cfg g t : cs_covered_t t -> cs_covered_t (cs_note cfg g t).
Proof. unfold cs_covered_t. rewrite cs_note_prog, cs_note_op. auto. Qed.

(* ------------------------------------------------------------------ environment steps *)
Record cs_ext (enq fin : option nat) (m g m' g' : c_state) : Prop := {
  x_done_m : forall f r, cs_fdone m f = Some r -> cs_fdone m' f = Some r;
  x_done_g : forall f r, cs_fdone g f = Some r -> cs_fdone g' f = Some r;
  x_pred_m : forall f r, cs_fdone m f = Some r -> cs_fpred m f = None -> cs_fpred m' f = None;
  x_new_m : forall f v e u, cs_fdone m' f = Some (v, e, u) -> cs_fdone m f = Some (v, e, u) \/ u = c_now m';
  x_now_m : c_now m <= c_now m';
  x_now_g : c_now g <= c_now g';
  x_len : (length (c_futs m) <= length (c_futs m'))%nat;
  x_qg : forall n, In n (c_queue g) -> ~ In n (c_queue m) -> In n (c_queue g');
  x_qm : forall n, In n (c_queue m') -> In n (c_queue m) \/ enq = Some n;
  x_run : forall f, In f (c_running g) -> fin <> Some f -> In f (c_running g');
  x_A : forall k f, cs_A g k f -> fin <> Some f -> cs_A g' k f /\ cs_fpred g' f = cs_fpred g f;
  x_fin : forall k f, cs_A g k f -> fin = Some f ->
      c_lookup (c_map g') k = Some f /\
      exists v e, cs_fdone g' f = Some (v, e, c_now g') /\ cs_fdone m' f = Some (v, e, c_now g') /\ cs_fpred m' f = None
}.

Lemma cs_optnat_dec (a b : option nat) : {a = b} + {a <> b}.
Proof. decide equality. apply Nat.eq_dec. Qed.

Section Frame.
Variable cfg : c_cfg.
Hypothesis Hcfg : c_cfg_ok cfg.
Variables (enq fin : option nat) (m g m' g' : c_state).
Hypothesis X : cs_ext enq fin m g m' g'.
Hypothesis Ig : c_inv cfg g.
Hypothesis Ig' : c_inv cfg g'.
Hypothesis Hnow' : c_now m' = c_now g'.

Lemma cs_fin_cand w k f t :
  cs_A g k f -> fin = Some f -> ct_op t = Some (cs_rdop w k) ->
  cs_cnd (cs_note cfg g' t) (cs_out w f) /\ cs_fpred m' f = None /\ (exists r, cs_fdone m' f = Some r) /\ cs_fresh cfg m' f.
Proof.
  intros HA Hf Hop. destruct (x_fin _ _ _ _ _ _ X k f HA Hf) as [Hl [v [e [Hg [Hm Hp]]]]].
  split; [|split; [exact Hp|split; [eauto|]]].
  - eapply cs_note_adds; [exact Hop|]. rewrite (cs_cand_done cfg g' w k f v e (c_now g') Ig' Hl Hg).
    replace (c_now g' - c_now g') with 0 by lia. rewrite (cs_status_fresh cfg e Hcfg). reflexivity.
  - intros v0 e0 u0 H0. rewrite Hm in H0. inversion H0; subst. rewrite Hnow'.
    pose proof (c_expire_pos cfg e0 Hcfg). lia.
Qed.

Lemma cs_rd_ext t w k f :
  ct_op t = Some (cs_rdop w k) -> cs_rd m g t w k f -> cs_rd m' g' (cs_note cfg g' t) w k f.
Proof.
  intros Hop [HA|[Hc [Hp [r Hd]]]].
  - destruct (cs_optnat_dec fin (Some f)) as [Ef|Ef].
    + right. destruct (cs_fin_cand w k f t HA Ef Hop) as [H1 [H2 [H3 _]]]. auto.
    + left. apply (x_A _ _ _ _ _ _ X k f HA Ef).
  - right. split; [apply cs_note_mono; exact Hc|]. split; [eapply x_pred_m; eauto|]. exists r. eapply x_done_m; eauto.
Qed.

Lemma cs_gu_ext t k f :
  c_now m' = c_now m -> c_now g' = c_now g ->
  ct_op t = Some (CsGet2 k) -> cs_gu cfg m g t k f -> cs_gu cfg m' g' (cs_note cfg g' t) k f.
Proof.
  intros Hnm Hng Hop [HA|[[Hc [Hp [[r Hd] Hf]]]|[v [e [u [Hd Hc]]]]]].
  - destruct (cs_optnat_dec fin (Some f)) as [Ef|Ef].
    + right. left. apply (cs_fin_cand true k f t HA Ef Hop).
    + left. apply (x_A _ _ _ _ _ _ X k f HA Ef).
  - right. left. split; [apply cs_note_mono; exact Hc|]. split; [eapply x_pred_m; eauto|]. split; [exists r; eapply x_done_m; eauto|].
    intros v e u H. destruct (x_new_m _ _ _ _ _ _ X f v e u H) as [Ho|Hu].
    + rewrite Hnm. eapply Hf; eauto.
    + subst u. pose proof (c_expire_pos cfg e Hcfg). lia.
  - right. right. exists v, e, u. split; [eapply x_done_g; eauto|]. rewrite Hng. apply cs_note_mono. exact Hc.
Qed.

Lemma cs_pu_ext t w k f p :
  cs_candnow cfg g t ->
  ct_op t = Some (cs_rdop w k) -> cs_pu cfg m g t w k f p -> cs_pu cfg m' g' (cs_note cfg g' t) w k f p.
Proof.
  intros Hcn Hop [v [e [u [Hdm [Hdg [Hage Hor]]]]]]. exists v, e, u.
  pose proof (x_now_g _ _ _ _ _ _ X) as Hng.
  split; [eapply x_done_m; eauto|]. split; [eapply x_done_g; eauto|]. split; [lia|].
  destruct Hor as [[HA Hpred]|[Hc Hor]].
  - assert (Hnot : fin <> Some f -> (cs_A g' k f /\ cs_fpred g' f = Some p)).
    { intros Hne. destruct (x_A _ _ _ _ _ _ X k f HA Hne) as [H1 H2]. split; [exact H1|congruence]. }
    destruct (cs_optnat_dec fin (Some f)) as [Ef|Ef]; [|left; apply Hnot; exact Ef].
    right. split; [apply (cs_fin_cand w k f t HA Ef Hop)|].
    pose proof (Hcn _ _ Hop (cs_cand_A cfg g w k f HA)) as Hc.
    rewrite (cs_fetch_pred cfg g f p v e u Hpred Hdg Hage) in Hc.
    destruct (c_now g - u <? 2 * c_expire cfg e) eqn:E2.
    + left. apply cs_note_mono. exact Hc.
    + right. lia.
  - right. split; [apply cs_note_mono; exact Hc|]. destruct Hor as [Hc'|Hr]; [left; apply cs_note_mono; exact Hc'|right; lia].
Qed.

Lemma cs_pend_ext t st last n :
  enq <> Some n -> cs_pend m g t st last n -> cs_pend m' g' (cs_note cfg g' t) st last n.
Proof.
  intros Hne [H1 [H2 [H3 [H4 H5]]]]. split; [exact H1|]. split; [rewrite cs_note_lin; exact H2|].
  split; [eapply x_qg; eauto|]. split.
  - intros Hin. destruct (x_qm _ _ _ _ _ _ X n Hin) as [H|H]; [exact (H4 H)|exact (Hne H)].
  - pose proof (x_len _ _ _ _ _ _ X). lia.
Qed.

Lemma cs_tinv_ext t :
  cs_tinv cfg m g t -> cs_candnow cfg g t ->
  (cs_holds (ct_pc t) = true -> c_map m' = c_map m) ->
  (cs_in_window (ct_pc t) = true -> c_now m' = c_now m /\ c_now g' = c_now g) ->
  (forall n, cs_pnext (ct_pc t) = Some n -> enq <> Some n) ->
  (forall f, cs_wfut (ct_pc t) = Some f -> fin <> Some f) ->
  cs_tinv cfg m' g' (cs_note cfg g' t).
Proof.
  unfold cs_tinv. rewrite cs_note_pc, cs_note_op, cs_note_lin.
  intros T Hcn Hmap Hwin Hpn Hwf.
  destruct (ct_pc t) eqn:Epc; cbn [cs_holds cs_in_window cs_pnext cs_wfut] in *; try exact T; try contradiction.
  - (* LLU *) destruct T as [H1 [H2 H3]]. rewrite (Hmap eq_refl). auto.
  - (* LRE *) destruct T as [H1 [H2 [H3 [v [e [u [H4 [H5 H6]]]]]]]]. rewrite (Hmap eq_refl).
    destruct (Hwin eq_refl) as [Hnm Hng]. split; [exact H1|]. split; [exact H2|]. split; [exact H3|].
    exists v, e, u. split; [eapply x_done_m; eauto|]. split; [rewrite Hnm; exact H5|].
    intros Hs. apply (cs_rd_ext t false k f H1). auto.
  - (* LAU *) destruct T as [k [H1 H2]]. exists k. split; [exact H1|]. destruct next as [n|].
    + apply cs_pend_ext; [apply Hpn; reflexivity|exact H2].
    + destruct H2 as [f [Hl Hr]]. exists f. split; [exact Hl|]. apply (cs_rd_ext t false k f H1 Hr).
  - (* LSJ *) destruct T as [k [H1 H2]]. exists k. split; [exact H1|]. apply cs_pend_ext; [apply Hpn; reflexivity|exact H2].
  - (* GAU *) destruct T as [k [H1 H2]]. exists k. split; [exact H1|]. destruct (Hwin eq_refl) as [Hnm Hng].
    destruct fo as [f|]; [apply cs_gu_ext; auto|apply cs_note_mono; exact H2].
  - (* GLU *) destruct T as [k [H1 H2]]. exists k. split; [exact H1|]. destruct (Hwin eq_refl) as [Hnm Hng]. apply cs_gu_ext; auto.
  - (* GRE *) destruct T as [k [H1 [v [e [u [H2 H3]]]]]]. exists k. split; [exact H1|]. exists v, e, u.
    split; [eapply x_done_m; eauto|]. destruct (cs_status_of cfg past e).
    + apply cs_note_mono; exact H3.
    + apply (cs_rd_ext t true k f H1 H3).
    + apply cs_note_mono; exact H3.
    + apply cs_note_mono; exact H3.
  - (* RLP *) destruct T as [k [H1 H2]]. exists k. split; [exact H1|]. apply (cs_rd_ext t w k f H1 H2).
  - (* RPU *) destruct T as [k [H1 H2]]. exists k. split; [exact H1|]. apply (cs_pu_ext t w k f p Hcn H1 H2).
  - (* RPE *) destruct T as [H0 [v [e [u [H1 H2]]]]]. split; [exact H0|]. exists v, e, u. split; [eapply x_done_m; eauto|]. apply cs_note_mono. exact H2.
  - (* WLD *) destruct T as [H0 H1]. split; [exact H0|]. eapply x_run; eauto.
  - (* WSU *) destruct T as [H0 [H1 H2]]. destruct (Hwin eq_refl) as [Hnm Hng]. split; [exact H0|]. split; [eapply x_run; eauto|]. lia.
  - (* WSP *) destruct T as [H0 [H1 [H2 H3]]]. destruct (Hwin eq_refl) as [Hnm Hng]. split; [exact H0|]. split; [eapply x_run; eauto|].
    split; [lia|]. eapply x_done_m; eauto.
Qed.
End Frame.

(* ------------------------------------------------------------------ assembling the invariant after a thread step *)
Definition cs_next (cfg : c_cfg) (t : cs_thread) (op : cs_op) (prog : list cs_op) (r : cs_tres) : cs_thread :=
  match tr_pc r with
  | CsIdle => {| ct_prog := prog; ct_pc := CsIdle; ct_op := None; ct_lin := None; ct_cands := [] |}
  | _ => cs_note cfg (tr_g r) {| ct_prog := prog; ct_pc := tr_pc r; ct_op := Some op; ct_lin := tr_lin r; ct_cands := ct_cands t |}
  end.

Definition cs_mid (cfg : c_cfg) (t : cs_thread) (op : cs_op) (prog : list cs_op) (r : cs_tres) : cs_thread :=
  cs_note cfg (tr_g r) {| ct_prog := prog; ct_pc := tr_pc r; ct_op := Some op; ct_lin := tr_lin r; ct_cands := ct_cands t |}.

Lemma cs_go_thr cfg s tid t op prog r :
  cs_thr (fst (cs_go cfg s tid t op prog r)) = cs_upd (map (cs_note cfg (tr_g r)) (cs_thr s)) tid (cs_next cfg t op prog r).
Proof. unfold cs_go, cs_next. cbn [fst cs_thr]. destruct (tr_pc r); reflexivity. Qed.

Lemma cs_next_pc cfg t op prog r : ct_pc (cs_next cfg t op prog r) = tr_pc r.
Proof. unfold cs_next. destruct (tr_pc r) eqn:E; try (rewrite cs_note_pc; cbn; auto). reflexivity. Qed.

Lemma cs_thr_nth cfg s tid t g' t3 j :
  nth_error (cs_thr s) tid = Some t ->
  nth_error (cs_upd (map (cs_note cfg g') (cs_thr s)) tid t3) j =
    if Nat.eqb j tid then Some t3 else option_map (cs_note cfg g') (nth_error (cs_thr s) j).
Proof.
  intros Ht. rewrite cs_upd_nth. destruct (Nat.eqb j tid) eqn:E.
  - rewrite nth_error_map, Ht. reflexivity.
  - rewrite nth_error_map. reflexivity.
Qed.

Lemma cs_go_inv cfg s tid t op prog r enq fin :
  c_cfg_ok cfg -> cs_inv cfg s -> nth_error (cs_thr s) tid = Some t ->
  let s' := fst (cs_go cfg s tid t op prog r) in
  cs_ext enq fin (cs_m s) (cs_g s) (tr_m r) (tr_g r) ->
  c_inv cfg (tr_g r) -> c_displaced (tr_g r) = [] ->
  c_now (tr_m r) = c_now (cs_m s) -> c_now (tr_g r) = c_now (cs_g s) ->
  c_map (tr_m r) = c_map (tr_g r) -> length (c_futs (tr_m r)) = length (c_futs (tr_g r)) ->
  (forall f x, c_get (c_futs (cs_m s')) f = Some x ->
      exists y, c_get (c_futs (cs_g s')) f = Some y /\ c_fkey y = c_fkey x /\ c_fpred y = c_fpred x /\
        (c_fdone y = c_fdone x \/
         (c_fdone y = None /\ exists tid t v e, nth_error (cs_thr s') tid = Some t /\
            ct_pc t = CsWSP f v e (c_now (cs_m s')) /\ c_fdone x = Some (v, e, c_now (cs_m s'))))) ->
  (forall f, In f (c_queue (tr_m r)) -> In f (c_queue (tr_g r))) -> NoDup (c_queue (tr_m r)) ->
  (cs_lock s = tr_lock r \/ (cs_lock s = None /\ tr_lock r = Some tid) \/ (cs_lock s = Some tid /\ tr_lock r = None)) ->
  (cs_holds (tr_pc r) = true <-> tr_lock r = Some tid) ->
  (c_map (tr_m r) = c_map (cs_m s) \/ cs_lock s = Some tid) ->
  (enq = None \/ enq = cs_pnext (ct_pc t)) -> (fin = None \/ fin = cs_wfut (ct_pc t)) ->
  cs_tinv cfg (tr_m r) (tr_g r) (cs_next cfg t op prog r) ->
  forallb cs_op_covered prog = true -> cs_op_covered op = true ->
  (forall f, cs_wfut (tr_pc r) = Some f -> forall j tj, j <> tid -> nth_error (cs_thr s) j = Some tj -> cs_wfut (ct_pc tj) <> Some f) ->
  (forall n, cs_pnext (tr_pc r) = Some n -> forall j tj, j <> tid -> nth_error (cs_thr s) j = Some tj -> cs_pnext (ct_pc tj) <> Some n) ->
  cs_mis s' = false ->
  cs_inv cfg s'.
Proof.
  intros Hcfg I Ht s' X Ig' Hnd Hnm Hng Hmap Hlen Hfut Hq Hqn Hlk Hlk2 Hmp Henq Hfin Htinv Hcp Hco Hw Hp Hmis.
  assert (Hthr : cs_thr s' = cs_upd (map (cs_note cfg (tr_g r)) (cs_thr s)) tid (cs_next cfg t op prog r)) by apply cs_go_thr.
  assert (Hnth : forall j, nth_error (cs_thr s') j = if Nat.eqb j tid then Some (cs_next cfg t op prog r)
                 else option_map (cs_note cfg (tr_g r)) (nth_error (cs_thr s) j)).
  { intros j. rewrite Hthr. apply (cs_thr_nth cfg s tid t). exact Ht. }
  assert (Hoth : forall j tj', j <> tid -> nth_error (cs_thr s') j = Some tj' ->
            exists tj, nth_error (cs_thr s) j = Some tj /\ tj' = cs_note cfg (tr_g r) tj).
  { intros j tj' Hne H. rewrite Hnth in H. apply Nat.eqb_neq in Hne. rewrite Hne in H.
    destruct (nth_error (cs_thr s) j) as [tj|]; [|discriminate]. cbn in H. inversion H. eauto. }
  assert (Hme : forall tj', nth_error (cs_thr s') tid = Some tj' -> tj' = cs_next cfg t op prog r).
  { intros tj' H. rewrite Hnth, Nat.eqb_refl in H. congruence. }
  destruct I as [I1 I2 I3 I4 I5 I6 I7 I8 I9 I10 I11 I12 I13].
  constructor; try assumption.
  - (* now *) change (c_now (tr_m r) = c_now (tr_g r)). lia.
  - (* lock *)
    intros j tj' Hj. change (cs_lock s') with (tr_lock r). destruct (Nat.eq_dec j tid) as [->|Hne].
    + rewrite (Hme _ Hj), cs_next_pc. exact Hlk2.
    + destruct (Hoth j tj' Hne Hj) as [tj [Hj0 ->]]. rewrite cs_note_pc. pose proof (I9 j tj Hj0) as H9.
      destruct Hlk as [Hl|[[Hl1 Hl2]|[Hl1 Hl2]]].
      * rewrite <- Hl. exact H9.
      * rewrite Hl2. rewrite Hl1 in H9. split; intros H; [apply H9 in H; discriminate|inversion H; congruence].
      * rewrite Hl2. rewrite Hl1 in H9. split; intros H; [apply H9 in H; inversion H; congruence|discriminate].
  - (* threads *)
    intros j tj' Hj. change (cs_m s') with (tr_m r). change (cs_g s') with (tr_g r).
    destruct (Nat.eq_dec j tid) as [->|Hne].
    + rewrite (Hme _ Hj). split; [exact Htinv|]. split.
      * unfold cs_next. destruct (tr_pc r); try apply cs_note_now. intros op0 o0 H0; discriminate.
      * unfold cs_next. destruct (tr_pc r); try (apply cs_note_covered; split; [exact Hcp|exact Hco]). split; [exact Hcp|exact Logic.I].
    + destruct (Hoth j tj' Hne Hj) as [tj [Hj0 ->]]. destruct (I10 j tj Hj0) as [T [Cn Cv]].
      split; [|split; [apply cs_note_now|apply cs_note_covered; exact Cv]].
      eapply cs_tinv_ext; eauto.
      * change (c_now (tr_m r) = c_now (tr_g r)). lia.
      * intros Hh. destruct Hmp as [Hm|Hl]; [exact Hm|]. apply (I9 j tj Hj0) in Hh. congruence.
      * intros n Hn He. destruct Henq as [He0|He0]; [congruence|]. rewrite He0 in He.
        apply Hne. apply (I12 j tid tj t n Hj0 Ht Hn). exact He.
      * intros f Hf He. destruct Hfin as [He0|He0]; [congruence|]. rewrite He0 in He.
        apply Hne. apply (I11 j tid tj t f Hj0 Ht Hf). exact He.
  - (* wuniq *)
    intros i j ti tj f Hi Hj Hfi Hfj.
    destruct (Nat.eq_dec i tid) as [->|Hni]; destruct (Nat.eq_dec j tid) as [->|Hnj]; [reflexivity| | |].
    + rewrite (Hme _ Hi), cs_next_pc in Hfi. destruct (Hoth j tj Hnj Hj) as [tj0 [Hj0 ->]]. rewrite cs_note_pc in Hfj.
      exfalso. exact (Hw f Hfi j tj0 Hnj Hj0 Hfj).
    + rewrite (Hme _ Hj), cs_next_pc in Hfj. destruct (Hoth i ti Hni Hi) as [ti0 [Hi0 ->]]. rewrite cs_note_pc in Hfi.
      exfalso. exact (Hw f Hfj i ti0 Hni Hi0 Hfi).
    + destruct (Hoth i ti Hni Hi) as [ti0 [Hi0 ->]]. destruct (Hoth j tj Hnj Hj) as [tj0 [Hj0 ->]].
      rewrite cs_note_pc in Hfi, Hfj. eapply I11; eauto.
  - (* puniq *)
    intros i j ti tj n Hi Hj Hfi Hfj.
    destruct (Nat.eq_dec i tid) as [->|Hni]; destruct (Nat.eq_dec j tid) as [->|Hnj]; [reflexivity| | |].
    + rewrite (Hme _ Hi), cs_next_pc in Hfi. destruct (Hoth j tj Hnj Hj) as [tj0 [Hj0 ->]]. rewrite cs_note_pc in Hfj.
      exfalso. exact (Hp n Hfi j tj0 Hnj Hj0 Hfj).
    + rewrite (Hme _ Hj), cs_next_pc in Hfj. destruct (Hoth i ti Hni Hi) as [ti0 [Hi0 ->]]. rewrite cs_note_pc in Hfi.
      exfalso. exact (Hp n Hfj i ti0 Hni Hi0 Hfi).
    + destruct (Hoth i ti Hni Hi) as [ti0 [Hi0 ->]]. destruct (Hoth j tj Hnj Hj) as [tj0 [Hj0 ->]].
      rewrite cs_note_pc in Hfi, Hfj. eapply I12; eauto.
Qed.

(* ------------------------------------------------------------------ pure steps (memory and ghost unchanged) *)
Lemma cs_ext_refl m g : cs_ext None None m g m g.
Proof.
  constructor; auto; try lia; try discriminate.
Qed.

Lemma cs_wfut_keep cfg s tid t pc' :
  cs_inv cfg s -> nth_error (cs_thr s) tid = Some t ->
  (cs_wfut pc' = None \/ cs_wfut pc' = cs_wfut (ct_pc t)) ->
  forall f, cs_wfut pc' = Some f -> forall j tj, j <> tid -> nth_error (cs_thr s) j = Some tj -> cs_wfut (ct_pc tj) <> Some f.
Proof.
  intros I Ht [H|H] f Hf j tj Hne Hj Hc; [congruence|]. rewrite H in Hf.
  apply Hne. eapply (si_wuniq _ _ I); eauto.
Qed.

Lemma cs_pnext_keep cfg s tid t pc' :
  cs_inv cfg s -> nth_error (cs_thr s) tid = Some t ->
  (cs_pnext pc' = None \/ cs_pnext pc' = cs_pnext (ct_pc t)) ->
  forall n, cs_pnext pc' = Some n -> forall j tj, j <> tid -> nth_error (cs_thr s) j = Some tj -> cs_pnext (ct_pc tj) <> Some n.
Proof.
  intros I Ht [H|H] f Hf j tj Hne Hj Hc; [congruence|]. rewrite H in Hf.
  apply Hne. eapply (si_puniq _ _ I); eauto.
Qed.

(* si_fut is kept when the arenas and the clock do not change and the stepping thread does not leave WSP *)
Lemma cs_fut_keep cfg s tid t op prog r :
  cs_inv cfg s -> nth_error (cs_thr s) tid = Some t ->
  c_futs (tr_m r) = c_futs (cs_m s) -> c_futs (tr_g r) = c_futs (cs_g s) -> c_now (tr_m r) = c_now (cs_m s) ->
  (forall f v e n, ct_pc t <> CsWSP f v e n) ->
  let s' := fst (cs_go cfg s tid t op prog r) in
  forall f x, c_get (c_futs (cs_m s')) f = Some x ->
      exists y, c_get (c_futs (cs_g s')) f = Some y /\ c_fkey y = c_fkey x /\ c_fpred y = c_fpred x /\
        (c_fdone y = c_fdone x \/
         (c_fdone y = None /\ exists tid t v e, nth_error (cs_thr s') tid = Some t /\
            ct_pc t = CsWSP f v e (c_now (cs_m s')) /\ c_fdone x = Some (v, e, c_now (cs_m s')))).
Proof.
  intros I Ht Hfm Hfg Hn Hpc s' f x Hx. change (cs_m s') with (tr_m r) in *. change (cs_g s') with (tr_g r).
  rewrite Hfm in Hx. rewrite Hfg, Hn.
  destruct (si_fut _ _ I f x Hx) as [y [Hy [Hk [Hp Hd]]]]. exists y. repeat split; auto.
  destruct Hd as [Hd|[Hd [j [tj [v [e [Hj [Hpcj Hdx]]]]]]]]; [left; exact Hd|right].
  split; [exact Hd|]. exists j, (cs_note cfg (tr_g r) tj), v, e.
  assert (Hne : j <> tid). { intros ->. rewrite Ht in Hj. inversion Hj; subst. exact (Hpc _ _ _ _ Hpcj). }
  split; [|split; [rewrite cs_note_pc; exact Hpcj|exact Hdx]].
  unfold s'. rewrite cs_go_thr, (cs_thr_nth cfg s tid t _ _ j Ht).
  apply Nat.eqb_neq in Hne. rewrite Hne, Hj. reflexivity.
Qed.

Lemma cs_go_pure cfg s tid t op prog r :
  c_cfg_ok cfg -> cs_inv cfg s -> nth_error (cs_thr s) tid = Some t ->
  tr_m r = cs_m s -> tr_g r = cs_g s ->
  (cs_lock s = tr_lock r \/ (cs_lock s = None /\ tr_lock r = Some tid) \/ (cs_lock s = Some tid /\ tr_lock r = None)) ->
  (cs_holds (tr_pc r) = true <-> tr_lock r = Some tid) ->
  (forall f v e n, ct_pc t <> CsWSP f v e n) ->
  cs_tinv cfg (cs_m s) (cs_g s) (cs_next cfg t op prog r) ->
  forallb cs_op_covered prog = true -> cs_op_covered op = true ->
  (cs_wfut (tr_pc r) = None \/ cs_wfut (tr_pc r) = cs_wfut (ct_pc t)) ->
  (cs_pnext (tr_pc r) = None \/ cs_pnext (tr_pc r) = cs_pnext (ct_pc t)) ->
  cs_mis (fst (cs_go cfg s tid t op prog r)) = false ->
  cs_inv cfg (fst (cs_go cfg s tid t op prog r)).
Proof.
  intros Hcfg I Ht Hm Hg Hlk Hlk2 Hpc Htinv Hcp Hco Hw Hp Hmis.
  apply (cs_go_inv cfg s tid t op prog r None None Hcfg I Ht); rewrite ?Hm, ?Hg.
  - apply cs_ext_refl.
  - apply (si_g _ _ I).
  - apply (si_nodisp _ _ I).
  - reflexivity.
  - reflexivity.
  - apply (si_map _ _ I).
  - apply (si_len _ _ I).
  - apply cs_fut_keep; auto; rewrite ?Hm, ?Hg; reflexivity.
  - apply (si_queue _ _ I).
  - apply (si_qnodup _ _ I).
  - exact Hlk.
  - exact Hlk2.
  - left; reflexivity.
  - left; reflexivity.
  - left; reflexivity.
  - exact Htinv.
  - exact Hcp.
  - exact Hco.
  - eapply cs_wfut_keep; eauto.
  - eapply cs_pnext_keep; eauto.
  - exact Hmis.
Qed.

(* ------------------------------------------------------------------ the mismatch flag *)
Lemma cs_mis_park cfg s tid t op prog r :
  cs_mis s = false -> tr_ret r = None -> tr_chk r = None -> cs_mis (fst (cs_go cfg s tid t op prog r)) = false.
Proof. intros H H1 H2. unfold cs_go. cbn [fst cs_mis]. rewrite H, H1, H2. reflexivity. Qed.

Lemma cs_mis_ret cfg s tid t op prog r res o :
  cs_mis s = false -> tr_ret r = Some (res, o) -> tr_chk r = None ->
  cs_justified (cs_mid cfg t op prog r) o = true -> cs_mis (fst (cs_go cfg s tid t op prog r)) = false.
Proof. intros H H1 H2 H3. unfold cs_go. cbn [fst cs_mis]. fold (cs_mid cfg t op prog r). rewrite H, H1, H2, H3. reflexivity. Qed.

Lemma cs_mid_cnd cfg t op prog r o : cs_cnd t o -> cs_cnd (cs_mid cfg t op prog r) o.
Proof. intros H. unfold cs_mid. apply cs_note_mono. exact H. Qed.

Lemma cs_next_cnd cfg t op prog r o : tr_pc r <> CsIdle -> cs_cnd t o -> cs_cnd (cs_next cfg t op prog r) o.
Proof. intros Hn H. unfold cs_next. destruct (tr_pc r); try congruence; apply cs_note_mono; exact H. Qed.

Lemma cs_just_rd cfg t op prog r w x :
  cs_cnd t (cs_out w x) -> cs_justified (cs_mid cfg t op prog r) (cs_out w x) = true.
Proof.
  intros H. apply (cs_mid_cnd cfg t op prog r) in H. destruct w; cbn [cs_out cs_justified]; apply cs_mem_out_spec; exact H.
Qed.

(* the tinv of the next thread when it stays inside the call: stated on a thread with the new pc *)
Lemma cs_next_mid cfg t op prog r : tr_pc r <> CsIdle -> cs_next cfg t op prog r = cs_mid cfg t op prog r.
Proof. intros H. unfold cs_next, cs_mid. destruct (tr_pc r); try congruence; reflexivity. Qed.

Lemma cs_mid_pc cfg t op prog r : ct_pc (cs_mid cfg t op prog r) = tr_pc r.
Proof. unfold cs_mid. rewrite cs_note_pc. reflexivity. Qed.
Lemma cs_mid_op cfg t op prog r : ct_op (cs_mid cfg t op prog r) = Some op.
Proof. unfold cs_mid. rewrite cs_note_op. reflexivity. Qed.
Lemma cs_mid_lin cfg t op prog r : ct_lin (cs_mid cfg t op prog r) = tr_lin r.
Proof. unfold cs_mid. rewrite cs_note_lin. reflexivity. Qed.
Lemma cs_mid_now cfg t op prog r o : cs_cand cfg (tr_g r) op = Some o -> cs_cnd (cs_mid cfg t op prog r) o.
Proof. intros H. unfold cs_mid. eapply cs_note_adds; [reflexivity|exact H]. Qed.

(* predicates move from t to the mid thread (same memory) *)
Lemma cs_rd_mid cfg m g t op prog r w k f : cs_rd m g t w k f -> cs_rd m g (cs_mid cfg t op prog r) w k f.
Proof. intros [H|[H1 H2]]; [left; exact H|right; split; [apply cs_mid_cnd; exact H1|exact H2]]. Qed.
Lemma cs_pend_mid cfg m g t op prog r st last n :
  tr_lin r = ct_lin t -> cs_pend m g t st last n -> cs_pend m g (cs_mid cfg t op prog r) st last n.
Proof. intros Hl [H1 [H2 H3]]. split; [exact H1|]. split; [rewrite cs_mid_lin, Hl; exact H2|exact H3]. Qed.

(* ------------------------------------------------------------------ memory vs ghost *)
Lemma cs_mg_get cfg s f : cs_inv cfg s ->
  match c_get (c_futs (cs_m s)) f, c_get (c_futs (cs_g s)) f with
  | Some x, Some y => c_fkey y = c_fkey x /\ c_fpred y = c_fpred x /\
        (c_fdone y = c_fdone x \/ (c_fdone y = None /\ exists v e, c_fdone x = Some (v, e, c_now (cs_m s))))
  | None, None => True
  | _, _ => False
  end.
Proof.
  intros I. destruct (c_get (c_futs (cs_m s)) f) as [x|] eqn:Ex.
  - destruct (si_fut _ _ I f x Ex) as [y [Hy [Hk [Hp Hd]]]]. rewrite Hy. split; [exact Hk|]. split; [exact Hp|].
    destruct Hd as [Hd|[Hd [j [tj [v [e [_ [_ Hx]]]]]]]]; [left; exact Hd|right; split; [exact Hd|eauto]].
  - destruct (c_get (c_futs (cs_g s)) f) as [y|] eqn:Ey; [|exact Logic.I].
    apply c_get_lt in Ey. rewrite <- (si_len _ _ I) in Ey. unfold c_get in Ex. apply nth_error_None in Ex. lia.
Qed.

Lemma cs_mg_pred cfg s f : cs_inv cfg s -> cs_fpred (cs_m s) f = cs_fpred (cs_g s) f.
Proof.
  intros I. pose proof (cs_mg_get cfg s f I) as H. unfold cs_fpred.
  destruct (c_get (c_futs (cs_m s)) f) as [x|]; destruct (c_get (c_futs (cs_g s)) f) as [y|]; try contradiction; [|reflexivity].
  destruct H as [_ [H _]]. auto.
Qed.

Lemma cs_mg_done cfg s f r : cs_inv cfg s -> cs_fdone (cs_g s) f = Some r ->
  cs_fdone (cs_m s) f = Some r /\ cs_fpred (cs_m s) f = None.
Proof.
  intros I Hd. pose proof (cs_mg_get cfg s f I) as H. rewrite (cs_mg_pred cfg s f I). unfold cs_fdone, cs_fpred in *.
  destruct (c_get (c_futs (cs_g s)) f) as [y|] eqn:Ey; [|discriminate].
  destruct (c_get (c_futs (cs_m s)) f) as [x|]; [|contradiction].
  destruct H as [_ [_ [H|[H _]]]]; [|congruence]. split; [congruence|].
  eapply c_done_no_pred; [apply (si_g _ _ I)|exact Ey|exact Hd].
Qed.

(* a future that is complete in memory but still loading in the ghost was stamped at the current instant *)
Lemma cs_mg_window cfg s f v e u : cs_inv cfg s ->
  cs_fdone (cs_m s) f = Some (v, e, u) -> cs_fdone (cs_g s) f = None -> u = c_now (cs_m s).
Proof.
  intros I Hm Hg. pose proof (cs_mg_get cfg s f I) as H. unfold cs_fdone in *.
  destruct (c_get (c_futs (cs_m s)) f) as [x|]; [|discriminate].
  destruct (c_get (c_futs (cs_g s)) f) as [y|]; [|contradiction].
  destruct H as [_ [_ [H|[_ [v0 [e0 H]]]]]]; congruence.
Qed.

Lemma cs_mg_loading cfg s f : cs_inv cfg s -> (f < length (c_futs (cs_m s)))%nat ->
  cs_fdone (cs_m s) f = None -> c_isload (c_futs (cs_g s)) f.
Proof.
  intros I Hlt Hm. pose proof (cs_mg_get cfg s f I) as H. unfold cs_fdone in Hm.
  destruct (c_get (c_futs (cs_m s)) f) as [x|] eqn:Ex.
  - destruct (c_get (c_futs (cs_g s)) f) as [y|] eqn:Ey; [|contradiction]. exists y. split; [exact Ey|].
    destruct H as [_ [_ [H|[H _]]]]; congruence.
  - unfold c_get in Ex. apply nth_error_None in Ex. lia.
Qed.

(* ================================================================== the reads of Get2 and of a Load that found Good *)
Definition cs_reader_pc (pc : cs_pc) : bool :=
  match pc with
  | CsGAU _ | CsGLU _ | CsGRE _ _ | CsRLP _ _ | CsRPU _ _ _ | CsRPE _ _ _ _ => true
  | _ => false
  end.

Ltac cs_simpl_r := unfold cs_park, cs_return, cs_fetched; cbn [tr_m tr_g tr_lock tr_pc tr_ret tr_chk tr_lin tr_ev].

Lemma cs_reader_local cfg s tid t op :
  c_cfg_ok cfg -> cs_inv cfg s -> nth_error (cs_thr s) tid = Some t -> ct_op t = Some op ->
  cs_reader_pc (ct_pc t) = true ->
  let r := cs_tstep cfg s tid t in
  tr_m r = cs_m s /\ tr_g r = cs_g s /\ tr_lock r = cs_lock s /\ tr_chk r = None /\
  cs_holds (tr_pc r) = false /\ cs_wfut (tr_pc r) = None /\ cs_pnext (tr_pc r) = None /\
  cs_tinv cfg (cs_m s) (cs_g s) (cs_next cfg t op (ct_prog t) r) /\
  match tr_ret r with Some (_, o) => cs_justified (cs_mid cfg t op (ct_prog t) r) o = true | None => True end.
Proof.
  intros Hcfg I Ht Hop Hrd.
  destruct (si_thr _ _ I tid t Ht) as [T [Cn _]]. unfold cs_tinv in T.
  pose proof (si_g _ _ I) as Ig. pose proof (si_now _ _ I) as Hnow.
  destruct (ct_pc t) eqn:Epc; try discriminate Hrd; unfold cs_tstep; rewrite Epc; cbv zeta.
  - (* GAU *)
    destruct T as [k [Hk T]]. destruct fo as [f|]; cs_simpl_r; do 7 (split; [reflexivity|]).
    + split; [|exact Logic.I]. rewrite cs_next_mid by discriminate. unfold cs_tinv. rewrite cs_mid_pc, cs_mid_op. cs_simpl_r.
      exists k. split; [rewrite <- Hop; exact Hk|]. destruct T as [HA|[[H1 H2]|[v [e [u [H1 H2]]]]]].
      * left. exact HA.
      * right. left. split; [apply cs_mid_cnd; exact H1|exact H2].
      * right. right. exists v, e, u. split; [exact H1|apply cs_mid_cnd; exact H2].
    + split; [reflexivity|]. cbn [cs_justified]. apply cs_mem_out_spec. apply cs_mid_cnd. exact T.
  - (* GLU *)
    destruct T as [k [Hk T]]. destruct (cs_fdone (cs_m s) f) as [[[v e] u]|] eqn:Ed; cs_simpl_r; do 7 (split; [reflexivity|]).
    + split; [|exact Logic.I]. rewrite cs_next_mid by discriminate. unfold cs_tinv. rewrite cs_mid_pc, cs_mid_op. cs_simpl_r.
      exists k. split; [rewrite <- Hop; exact Hk|]. exists v, e, u. split; [exact Ed|].
      destruct T as [HA|[[H1 [H2 [H3 H4]]]|[v0 [e0 [u0 [H1 H2]]]]]].
      * (* complete in memory, loading in the ghost: stamped now *)
        pose proof (cs_mg_window cfg s f v e u I Ed (cs_isload_fdone _ _ (proj2 HA))) as Hu. subst u.
        replace (c_now (cs_m s) - c_now (cs_m s)) with 0 by lia. rewrite (cs_status_fresh cfg e Hcfg). left. exact HA.
      * pose proof (H4 v e u Ed) as Hf. unfold cs_status_of. destruct (c_now (cs_m s) - u <? c_expire cfg e) eqn:E1; [|lia].
        right. split; [apply cs_mid_cnd; exact H1|]. split; [exact H2|exact H3].
      * destruct (cs_mg_done cfg s f _ I H1) as [Hm Hp]. rewrite Ed in Hm. inversion Hm; subst v0 e0 u0.
        rewrite Hnow. destruct (cs_status_of cfg (c_now (cs_g s) - u) e) eqn:Es; cbn [cs_st_out] in H2; try (apply cs_mid_cnd; exact H2).
        right. split; [apply cs_mid_cnd; exact H2|]. split; [exact Hp|eauto].
    + split; [|exact Logic.I]. rewrite cs_next_mid by discriminate. unfold cs_tinv. rewrite cs_mid_pc, cs_mid_op. cs_simpl_r.
      exists k. split; [rewrite <- Hop; exact Hk|]. destruct T as [HA|[[H1 [H2 [[r0 H3] H4]]]|[v0 [e0 [u0 [H1 H2]]]]]].
      * left. exact HA.
      * congruence.
      * destruct (cs_mg_done cfg s f _ I H1) as [Hm _]. congruence.
  - (* GRE *)
    destruct T as [k [Hk [v [e [u [Hd T]]]]]]. unfold cs_err_of. rewrite Hd.
    destruct (cs_status_of cfg past e) eqn:Es; cs_simpl_r; do 7 (split; [reflexivity|]).
    + split; [reflexivity|]. cbn [cs_justified]. apply cs_mem_out_spec. apply cs_mid_cnd. exact T.
    + split; [|exact Logic.I]. rewrite cs_next_mid by discriminate. unfold cs_tinv. rewrite cs_mid_pc, cs_mid_op. cs_simpl_r.
      exists k. split; [rewrite <- Hop; exact Hk|]. apply cs_rd_mid. exact T.
    + split; [|cbn [cs_justified]; apply cs_mem_out_spec; apply cs_mid_cnd; exact T].
      rewrite cs_next_mid by discriminate. unfold cs_tinv. rewrite cs_mid_pc, cs_mid_op. cs_simpl_r. discriminate.
    + split; [reflexivity|]. cbn [cs_justified]. apply cs_mem_out_spec. apply cs_mid_cnd. exact T.
  - (* RLP *)
    destruct T as [k [Hk T]]. destruct (cs_fpred (cs_m s) f) as [p|] eqn:Ep.
    + cs_simpl_r; do 7 (split; [reflexivity|]). split; [|exact Logic.I].
      rewrite cs_next_mid by discriminate. unfold cs_tinv. rewrite cs_mid_pc, cs_mid_op. cs_simpl_r.
      exists k. split; [rewrite <- Hop; exact Hk|]. destruct T as [HA|[_ [H2 _]]]; [|congruence].
      rewrite (cs_mg_pred cfg s f I) in Ep. destruct HA as [Hl [x [Hx Hxd]]].
      assert (Hxp : c_fpred x = Some p). { unfold cs_fpred in Ep. rewrite Hx in Ep. exact Ep. }
      destruct (ci_pred _ _ Ig f x p Hx Hxp) as [_ [y [v [e [u [Hy [_ [Hyd Hage]]]]]]]].
      assert (Hgp : cs_fdone (cs_g s) p = Some (v, e, u)). { unfold cs_fdone. rewrite Hy. exact Hyd. }
      exists v, e, u. split; [apply (cs_mg_done cfg s p _ I Hgp)|]. split; [exact Hgp|]. split; [exact Hage|].
      left. split; [split; [exact Hl|exists x; auto]|exact Ep].
    + assert (Hj : cs_cnd t (cs_out w f)).
      { destruct T as [HA|[H1 _]]; [|exact H1].
        pose proof (Cn _ _ Hk (cs_cand_A cfg (cs_g s) w k f HA)) as Hc.
        rewrite cs_fetch_nopred in Hc; [exact Hc|]. rewrite <- (cs_mg_pred cfg s f I). exact Ep. }
      destruct w; cs_simpl_r; do 7 (split; [reflexivity|]).
      * split; [|cbn [cs_justified]; apply cs_mem_out_spec; apply cs_mid_cnd; exact Hj].
        rewrite cs_next_mid by discriminate. unfold cs_tinv. rewrite cs_mid_pc, cs_mid_op. cs_simpl_r. discriminate.
      * split; [reflexivity|]. cbn [cs_justified]. apply cs_mem_out_spec. apply cs_mid_cnd. exact Hj.
  - (* RPU *)
    destruct T as [k [Hk [v [e [u [Hdm [Hdg [Hage Hor]]]]]]]]. rewrite Hdm.
    cs_simpl_r; do 7 (split; [reflexivity|]). split; [|exact Logic.I].
    rewrite cs_next_mid by discriminate. unfold cs_tinv. rewrite cs_mid_pc, cs_mid_op. cs_simpl_r.
    split; [discriminate|]. exists v, e, u. split; [exact Hdm|]. apply cs_mid_cnd. rewrite Hnow.
    unfold cs_status_of. destruct (c_now (cs_g s) - u <? c_expire cfg e) eqn:E1; [lia|].
    destruct Hor as [[HA Hp]|[Hc Hor]].
    + pose proof (Cn _ _ Hk (cs_cand_A cfg (cs_g s) w k f HA)) as Hc.
      rewrite (cs_fetch_pred cfg (cs_g s) f p v e u Hp Hdg Hage) in Hc.
      destruct (c_now (cs_g s) - u <? 2 * c_expire cfg e); exact Hc.
    + destruct (c_now (cs_g s) - u <? 2 * c_expire cfg e) eqn:E2; [|exact Hc].
      destruct Hor as [Hc'|Hr]; [exact Hc'|lia].
  - (* RPE *)
    destruct T as [_ [v [e [u [Hd Hc]]]]]. unfold cs_err_of. rewrite Hd.
    destruct (cs_status_of cfg past e); destruct w; cs_simpl_r; do 7 (split; [reflexivity|]);
      (split; [first [reflexivity | rewrite cs_next_mid by discriminate; unfold cs_tinv; rewrite cs_mid_pc, cs_mid_op; cs_simpl_r; discriminate]
              |cbn [cs_justified]; apply cs_mem_out_spec; apply cs_mid_cnd; exact Hc]).
Qed.

Lemma cs_reader_step_inv cfg s tid t :
  c_cfg_ok cfg -> cs_inv cfg s -> nth_error (cs_thr s) tid = Some t -> cs_reader_pc (ct_pc t) = true ->
  cs_inv cfg (fst (cs_step cfg s (CsRun tid))).
Proof.
  intros Hcfg I Ht Hrd. cbn [cs_step]. rewrite Ht.
  assert (Hnb : cs_blocked s t = false).
  { unfold cs_blocked. destruct (ct_pc t); try discriminate Hrd; reflexivity. }
  rewrite Hnb.
  destruct (si_thr _ _ I tid t Ht) as [T [Cn [Cv1 Cv2]]].
  destruct (ct_op t) as [op|] eqn:Hop.
  2:{ exfalso. unfold cs_tinv in T. destruct (ct_pc t); try discriminate Hrd;
        repeat match goal with H : exists _, _ |- _ => destruct H | H : _ /\ _ |- _ => destruct H end; congruence. }
  destruct (cs_reader_local cfg s tid t op Hcfg I Ht Hop Hrd) as [Hm [Hg [Hl [Hc [Hh [Hw [Hp [Hti Hj]]]]]]]].
  apply cs_go_pure; auto.
  - rewrite Hh. split; [discriminate|]. intros H. rewrite Hl in H. apply (si_lock _ _ I tid t Ht) in H.
    destruct (ct_pc t); try discriminate Hrd; discriminate H.
  - intros f v e n Hc0. rewrite Hc0 in Hrd. discriminate.
  - destruct (tr_ret (cs_tstep cfg s tid t)) as [[res o]|] eqn:Er.
    + eapply cs_mis_ret; eauto. apply (si_mis _ _ I).
    + apply cs_mis_park; auto. apply (si_mis _ _ I).
Qed.

(* the invariant holds initially (all threads idle on the empty cache) *)
Lemma cs_inv_init cfg progs : cs_progs_covered progs = true -> cs_inv cfg (cs_init progs).
Proof.
  intros Hc.
  assert (Hth : forall tid t, nth_error (map cs_thread_init progs) tid = Some t ->
            exists p, t = cs_thread_init p /\ forallb cs_op_covered p = true).
  { intros tid t H. rewrite nth_error_map in H. destruct (nth_error progs tid) as [p|] eqn:E; [|discriminate].
    inversion H. exists p. split; [reflexivity|]. unfold cs_progs_covered in Hc. rewrite forallb_forall in Hc.
    apply Hc. eapply nth_error_In; eauto. }
  constructor; cbn [cs_init cs_init_on cs_m cs_g cs_thr cs_lock cs_mis]; try reflexivity.
  - apply c_inv_init.
  - intros f x H. destruct f; discriminate.
  - intros f [].
  - constructor.
  - intros tid t H. destruct (Hth tid t H) as [p [-> _]]. cbn. split; discriminate.
  - intros tid t H. destruct (Hth tid t H) as [p [-> Hp]]. split; [reflexivity|]. split.
    + intros op o H0. discriminate.
    + split; [exact Hp|exact Logic.I].
  - intros i j ti tj f Hi Hj Hf. destruct (Hth i ti Hi) as [p [-> _]]. discriminate.
  - intros i j ti tj f Hi Hj Hf. destruct (Hth i ti Hi) as [p [-> _]]. discriminate.
Qed.

Definition cs_out_eq_dec (a b : c_out) : {a = b} + {a <> b}.
Proof. decide equality; try apply Nat.eq_dec; apply Bool.bool_dec. Defined.
