(* CacheStepsProofs.v -- the small-step machine CacheSteps.v refines the atomic machine
   Cache.v (forward simulation with ghost linearization points and candidate sets). *)
From Got Require Import Base Cache CacheProofs CacheSteps.
From Coq Require Import Permutation.
Local Open Scope Z_scope.

(* ------------------------------------------------------------------ the ghost is an atomic history *)
Ltac cs_break :=
  repeat match goal with
         | |- context [match ?x with _ => _ end] =>
             match type of x with
             | sumbool _ _ => fail 1
             | _ => destruct x eqn:?
             end
         end.

Lemma cs_sweep_next_ghost cfg m lk g rest :
  tr_g (cs_sweep_next cfg m lk g rest) = c_run cfg g (tr_emit (cs_sweep_next cfg m lk g rest)).
Proof. destruct rest as [|[k f] r]; reflexivity. Qed.

Lemma cs_tstep_ghost md cfg s tid t :
  tr_g (cs_tstep md cfg s tid t) = c_run cfg (cs_g s) (tr_emit (cs_tstep md cfg s tid t)).
Proof.
  unfold cs_tstep, cs_lin_load, cs_fetched, cs_fetched_now, cs_return, cs_park.
  destruct (ct_pc t); try reflexivity; try apply cs_sweep_next_ghost;
    cs_break; try reflexivity; try apply cs_sweep_next_ghost;
    cbn [tr_g tr_emit c_run c_step fst]; 
    repeat match goal with H : _ = (_, _) |- _ => rewrite H; clear H end; reflexivity.
Qed.

Lemma cs_tstart_ghost cfg s op :
  tr_g (cs_tstart cfg s op) = c_run cfg (cs_g s) (tr_emit (cs_tstart cfg s op)).
Proof.
  unfold cs_tstart, cs_return, cs_park. destruct op; try reflexivity.
  cs_break; try reflexivity; cbn [tr_g tr_emit c_run c_step fst];
  repeat match goal with H : _ = (_, _) |- _ => rewrite H; clear H end; reflexivity.
Qed.

Definition cs_hist (cfg : c_cfg) (m0 : c_state) (s : cs_state) : Prop :=
  cs_g s = c_run cfg m0 (rev (cs_evs s)).

Lemma cs_go_hist cfg m0 s tid t op prog r :
  cs_hist cfg m0 s -> tr_g r = c_run cfg (cs_g s) (tr_emit r) ->
  cs_hist cfg m0 (fst (cs_go cfg s tid t op prog r)).
Proof.
  unfold cs_hist, cs_go. cbn [fst cs_g cs_evs]. intros H Hr.
  rewrite rev_app_distr, rev_involutive, c_run_app, <- H. exact Hr.
Qed.

Lemma cs_step_hist md cfg m0 s it : cs_hist cfg m0 s -> cs_hist cfg m0 (fst (cs_step md cfg s it)).
Proof.
  intros H. destruct it as [tid|dt]; cbn [cs_step].
  - destruct (nth_error (cs_thr s) tid) as [t|]; [|exact H].
    destruct (cs_blocked s t); [exact H|].
    destruct (ct_op t) as [op|].
    + apply cs_go_hist; [exact H|apply cs_tstep_ghost].
    + destruct (ct_prog t) as [|op rest]; [exact H|].
      apply cs_go_hist; [exact H|apply cs_tstart_ghost].
  - destruct (dt <? 0); [exact H|]. unfold cs_hist in *. cbn [fst cs_g cs_evs rev].
    rewrite c_run_app, <- H. reflexivity.
Qed.

Lemma cs_run_hist md cfg m0 sched : forall s, cs_hist cfg m0 s -> cs_hist cfg m0 (cs_run md cfg s sched).
Proof. induction sched as [|it r IH]; intros s H; cbn [cs_run]; [exact H|]. apply IH. apply cs_step_hist. exact H. Qed.

Lemma cs_ghost_is_history md cfg progs sched :
  cs_g (cs_run md cfg (cs_init progs) sched) = c_run cfg c_init (rev (cs_evs (cs_run md cfg (cs_init progs) sched))).
Proof. apply (cs_run_hist md cfg c_init sched). reflexivity. Qed.

(* ================================================================== the simulation invariant *)
Definition cs_out (w : bool) (x : nat) : c_out := if w then OAwait x else OLoad x false.
Definition cs_rdop (w : bool) (k : Z) : cs_op := if w then CsGet2 k else CsLoad k.
Definition cs_cnd (t : cs_thread) (o : c_out) : Prop := In o (ct_cands t).

(* key k's entry is f and f is (abstractly) still loading *)
Definition cs_A (g : c_state) (k : Z) (f : nat) : Prop :=
  c_lookup (c_map g) k = Some f /\ c_isload (c_futs g) f.

(* reader that has seen f Good and will read f's predecessor next *)
Definition cs_rd (m g : c_state) (t : cs_thread) (w : bool) (k : Z) (f : nat) : Prop :=
  cs_A g k f \/ (cs_cnd t (cs_out w f) /\ cs_fpred m f = None /\ exists r, cs_fdone m f = Some r).

Definition cs_fresh (cfg : c_cfg) (m : c_state) (f : nat) : Prop :=
  forall v e u, cs_fdone m f = Some (v, e, u) -> c_now m - u < c_expire cfg e.

(* reader that holds predecessor p of f *)
Definition cs_pu (cfg : c_cfg) (m g : c_state) (t : cs_thread) (w : bool) (k : Z) (f p : nat) : Prop :=
  exists v e u, cs_fdone m p = Some (v, e, u) /\ cs_fdone g p = Some (v, e, u) /\ c_expire cfg e <= c_now g - u /\
    ((cs_A g k f /\ cs_fpred g f = Some p) \/
     (cs_cnd t (cs_out w f) /\ (cs_cnd t (cs_out w p) \/ 2 * c_expire cfg e <= c_now g - u))).

(* Load that created next = n and has not sent the job yet *)
Definition cs_pend (m g : c_state) (t : cs_thread) (st : c_st) (last : option nat) (n : nat) : Prop :=
  st <> CGood /\
  ct_lin t = Some (OLoad (match st, last with CExpired, Some f => f | _, _ => n end) true) /\
  In n (c_queue g) /\ ~ In n (c_queue m) /\ (n < length (c_futs m))%nat.

Definition cs_tinv (cfg : c_cfg) (m g : c_state) (t : cs_thread) : Prop :=
  match ct_pc t with
  | CsIdle => ct_op t = None
  | CsLBL k | CsLAL k => ct_op t = Some (CsLoad k) /\ ct_lin t = None
  | CsLLU k f => ct_op t = Some (CsLoad k) /\ ct_lin t = None /\ c_lookup (c_map m) k = Some f
  | CsLRE k f past => ct_op t = Some (CsLoad k) /\ ct_lin t = None /\ c_lookup (c_map m) k = Some f /\
      exists v e u, cs_fdone m f = Some (v, e, u) /\ past = c_now m - u /\
        (cs_status_of cfg past e = CGood -> cs_rd m g t false k f)
  | CsLAU st last (Some n) | CsLSJ st last n => exists k, ct_op t = Some (CsLoad k) /\ cs_pend m g t st last n
  | CsGBL k | CsGAL k => ct_op t = Some (CsGet2 k)
  | CsGAU None => exists k, ct_op t = Some (CsGet2 k) /\ cs_cnd t OImmediate
  | CsGLU f => exists k, ct_op t = Some (CsGet2 k) /\ c_lookup (c_map m) k = Some f
  | CsGRE f past => exists k, ct_op t = Some (CsGet2 k) /\ exists v e u, cs_fdone m f = Some (v, e, u) /\
      match cs_status_of cfg past e with
      | CGood => cs_rd m g t true k f
      | CExpired => cs_cnd t (OAwait f)
      | _ => cs_cnd t OImmediate
      end
  | CsGFW _ => ct_op t <> None
  | CsRLP w f => exists k, ct_op t = Some (cs_rdop w k) /\ cs_rd m g t w k f
  | CsRPU w f p => exists k, ct_op t = Some (cs_rdop w k) /\ cs_pu cfg m g t w k f p
  | CsRPE w f p past => ct_op t <> None /\ exists v e u, cs_fdone m p = Some (v, e, u) /\
      cs_cnd t (cs_out w (match cs_status_of cfg past e with CExpired => p | _ => f end))
  | CsXAU w x => ct_op t <> None /\ cs_cnd t (cs_out w x)
  | CsWLD f v e => ct_op t <> None /\ In f (c_running g)
  | CsWSU f v e now => ct_op t <> None /\ In f (c_running g) /\ now = c_now m
  | CsWSP f v e now => ct_op t <> None /\ In f (c_running g) /\ now = c_now m /\ cs_fdone m f = Some (v, e, now)
  | _ => False
  end.

(* the output of the call's atomic event in the current ghost state is among the candidates *)
Definition cs_candnow (cfg : c_cfg) (g : c_state) (t : cs_thread) : Prop :=
  forall op o, ct_op t = Some op -> cs_cand cfg g op = Some o -> cs_cnd t o.

Definition cs_covered_t (t : cs_thread) : Prop :=
  forallb cs_op_covered (ct_prog t) = true /\
  match ct_op t with Some op => cs_op_covered op = true | None => True end.

(* Fixed order: the mutex is held from AfterLock to the end of the decision *)
Definition cs_holds (pc : cs_pc) : bool :=
  match pc with
  | CsLAL _ | CsLLU _ _ | CsLRE _ _ _ | CsGAL _ | CsGLU _ | CsGRE _ _
  | CsRLP _ _ | CsRPU _ _ _ | CsRPE _ _ _ _ => true
  | _ => false
  end.

(* the future a worker thread is completing / the job a Load has created and not sent *)
Definition cs_wfut (pc : cs_pc) : option nat :=
  match pc with CsWLD f _ _ | CsWSU f _ _ _ | CsWSP f _ _ _ => Some f | _ => None end.
Definition cs_pnext (pc : cs_pc) : option nat :=
  match pc with CsLAU _ _ (Some n) | CsLSJ _ _ n => Some n | _ => None end.

Record cs_inv (cfg : c_cfg) (s : cs_state) : Prop := {
  si_g : c_inv cfg (cs_g s);
  si_nodisp : c_displaced (cs_g s) = [];
  si_now : c_now (cs_m s) = c_now (cs_g s);
  si_map : c_map (cs_m s) = c_map (cs_g s);
  si_len : length (c_futs (cs_m s)) = length (c_futs (cs_g s));
  si_fut : forall f x, c_get (c_futs (cs_m s)) f = Some x ->
      exists y, c_get (c_futs (cs_g s)) f = Some y /\ c_fkey y = c_fkey x /\ c_fpred y = c_fpred x /\
        (c_fdone y = c_fdone x \/
         (c_fdone y = None /\ exists tid t v e, nth_error (cs_thr s) tid = Some t /\
            ct_pc t = CsWSP f v e (c_now (cs_m s)) /\ c_fdone x = Some (v, e, c_now (cs_m s))));
  si_queue : forall f, In f (c_queue (cs_m s)) -> In f (c_queue (cs_g s));
  si_qnodup : NoDup (c_queue (cs_m s));
  si_lock : forall tid t, nth_error (cs_thr s) tid = Some t ->
      (cs_holds (ct_pc t) = true <-> cs_lock s = Some tid);
  si_thr : forall tid t, nth_error (cs_thr s) tid = Some t ->
      cs_tinv cfg (cs_m s) (cs_g s) t /\ cs_candnow cfg (cs_g s) t /\ cs_covered_t t;
  si_wuniq : forall i j ti tj f, nth_error (cs_thr s) i = Some ti -> nth_error (cs_thr s) j = Some tj ->
      cs_wfut (ct_pc ti) = Some f -> cs_wfut (ct_pc tj) = Some f -> i = j;
  si_puniq : forall i j ti tj n, nth_error (cs_thr s) i = Some ti -> nth_error (cs_thr s) j = Some tj ->
      cs_pnext (ct_pc ti) = Some n -> cs_pnext (ct_pc tj) = Some n -> i = j;
  si_mis : cs_mis s = false
}.

(* ------------------------------------------------------------------ small facts *)
Lemma cs_out_eqb_spec a b : cs_out_eqb a b = true <-> a = b.
Proof.
  destruct a, b; cbn; split; intros H; try discriminate; try reflexivity; try congruence.
  - apply andb_true_iff in H. destruct H as [H1 H2]. apply Nat.eqb_eq in H1. apply eqb_prop in H2. subst. reflexivity.
  - inversion H; subst. rewrite Nat.eqb_refl, eqb_reflx. reflexivity.
  - apply Nat.eqb_eq in H. subst. reflexivity.
  - inversion H; subst. apply Nat.eqb_refl.
  - apply Nat.eqb_eq in H. subst. reflexivity.
  - inversion H; subst. apply Nat.eqb_refl.
  - apply Nat.eqb_eq in H. subst. reflexivity.
  - inversion H; subst. apply Nat.eqb_refl.
Qed.

Lemma cs_mem_out_spec o l : cs_mem_out o l = true <-> In o l.
Proof.
  unfold cs_mem_out. rewrite existsb_exists. split.
  - intros [x [Hi He]]. apply cs_out_eqb_spec in He. subst. exact Hi.
  - intros H. exists o. split; [exact H|]. apply cs_out_eqb_spec. reflexivity.
Qed.

Lemma cs_upd_nth {A} (l : list A) i x j :
  nth_error (cs_upd l i x) j = if Nat.eqb j i then (match nth_error l i with Some _ => Some x | None => None end) else nth_error l j.
Proof.
  revert i j. induction l as [|a r IH]; intros i j.
  - cbn. destruct j, i; cbn; try reflexivity; destruct (Nat.eqb j i); reflexivity.
  - destruct i as [|i]; destruct j as [|j]; cbn; try reflexivity. apply IH.
Qed.

Lemma cs_status_of_g cfg now futs f x v e u :
  c_get futs f = Some x -> c_fdone x = Some (v, e, u) ->
  c_status cfg now futs (Some f) = cs_status_of cfg (now - u) e.
Proof. intros Hg Hd. rewrite (c_status_done cfg now futs f x v e u Hg Hd). reflexivity. Qed.

Lemma cs_fdone_get m f r : cs_fdone m f = Some r -> exists x, c_get (c_futs m) f = Some x /\ c_fdone x = Some r.
Proof. unfold cs_fdone. destruct (c_get (c_futs m) f) as [x|]; [|discriminate]. intros H. exists x. auto. Qed.

Lemma cs_isload_fdone g f : c_isload (c_futs g) f -> cs_fdone g f = None.
Proof. intros [x [Hg Hd]]. unfold cs_fdone. rewrite Hg. exact Hd. Qed.

(* ------------------------------------------------------------------ candidates in particular ghost states *)
Lemma cs_cand_A cfg g w k f :
  cs_A g k f -> cs_cand cfg g (cs_rdop w k) = Some (cs_out w (c_fetch cfg (c_now g) (c_futs g) f)).
Proof.
  intros [Hl [x [Hx Hd]]]. pose proof (c_status_loading cfg (c_now g) (c_futs g) f x Hx Hd) as Hs.
  destruct w; cbn [cs_rdop cs_cand cs_out].
  - unfold c_get2. rewrite Hl, Hs. reflexivity.
  - unfold c_load. rewrite Hl, Hs. reflexivity.
Qed.

Lemma cs_fetch_nopred cfg g f : cs_fpred g f = None -> c_fetch cfg (c_now g) (c_futs g) f = f.
Proof.
  unfold cs_fpred, c_fetch. destruct (c_get (c_futs g) f) as [x|]; [|reflexivity]. intros H. rewrite H. reflexivity.
Qed.

Lemma cs_fetch_pred cfg g f p v e u :
  cs_fpred g f = Some p -> cs_fdone g p = Some (v, e, u) -> c_expire cfg e <= c_now g - u ->
  c_fetch cfg (c_now g) (c_futs g) f = if c_now g - u <? 2 * c_expire cfg e then p else f.
Proof.
  unfold cs_fpred, c_fetch. destruct (c_get (c_futs g) f) as [x|]; [|discriminate]. intros Hp Hd Hage. rewrite Hp.
  destruct (cs_fdone_get _ _ _ Hd) as [y [Hy Hyd]].
  rewrite (cs_status_of_g cfg (c_now g) (c_futs g) p y v e u Hy Hyd). unfold cs_status_of.
  destruct (c_now g - u <? c_expire cfg e) eqn:E1; [lia|].
  destruct (c_now g - u <? 2 * c_expire cfg e); reflexivity.
Qed.

Lemma cs_status_of_nonempty cfg past e : cs_status_of cfg past e <> CEmpty.
Proof. unfold cs_status_of. cbv zeta. destruct (past <? c_expire cfg e); [discriminate|]. destruct (past <? 2 * c_expire cfg e); discriminate. Qed.

Lemma cs_cand_done cfg g w k f v e u :
  c_inv cfg g -> c_lookup (c_map g) k = Some f -> cs_fdone g f = Some (v, e, u) ->
  cs_cand cfg g (cs_rdop w k) =
    Some (match cs_status_of cfg (c_now g - u) e with
          | CGood => cs_out w f
          | CExpired => if w then OAwait f else OLoad f true
          | _ => if w then OImmediate else OLoad (length (c_futs g)) true
          end).
Proof.
  intros I Hl Hd. destruct (cs_fdone_get _ _ _ Hd) as [x [Hx Hxd]].
  pose proof (cs_status_of_g cfg (c_now g) (c_futs g) f x v e u Hx Hxd) as Hs.
  assert (Hf : c_fetch cfg (c_now g) (c_futs g) f = f).
  { eapply c_fetch_no_pred; [exact Hx|]. eapply c_done_no_pred; eauto. }
  destruct w; cbn [cs_rdop cs_cand cs_out].
  - unfold c_get2. rewrite Hl, Hs. destruct (cs_status_of cfg (c_now g - u) e) eqn:Es;
      first [exfalso; exact (cs_status_of_nonempty _ _ _ Es) | rewrite Hf; reflexivity | reflexivity].
  - unfold c_load. rewrite Hl, Hs. destruct (cs_status_of cfg (c_now g - u) e) eqn:Es; cbn [snd];
      first [exfalso; exact (cs_status_of_nonempty _ _ _ Es) | rewrite Hf; reflexivity | reflexivity].
Qed.

Lemma cs_status_fresh cfg e : c_cfg_ok cfg -> cs_status_of cfg 0 e = CGood.
Proof.
  intros H. pose proof (c_expire_pos cfg e H). unfold cs_status_of.
  destruct (0 <? c_expire cfg e) eqn:E; [reflexivity|lia].
Qed.

(* ------------------------------------------------------------------ notes *)
Lemma cs_note_pc cfg g t : ct_pc (cs_note cfg g t) = ct_pc t.
Proof. unfold cs_note. destruct (ct_op t) as [op|]; [|reflexivity]. destruct (cs_cand cfg g op); reflexivity. Qed.
Lemma cs_note_op cfg g t : ct_op (cs_note cfg g t) = ct_op t.
Proof. unfold cs_note. destruct (ct_op t) as [op|] eqn:E; [|exact E]. destruct (cs_cand cfg g op); cbn; auto. Qed.
Lemma cs_note_lin cfg g t : ct_lin (cs_note cfg g t) = ct_lin t.
Proof. unfold cs_note. destruct (ct_op t) as [op|]; [|reflexivity]. destruct (cs_cand cfg g op); reflexivity. Qed.
Lemma cs_note_prog cfg g t : ct_prog (cs_note cfg g t) = ct_prog t.
Proof. unfold cs_note. destruct (ct_op t) as [op|]; [|reflexivity]. destruct (cs_cand cfg g op); reflexivity. Qed.
Lemma cs_note_mono cfg g t o : cs_cnd t o -> cs_cnd (cs_note cfg g t) o.
Proof.
  unfold cs_cnd, cs_note. destruct (ct_op t) as [op|]; [|auto]. destruct (cs_cand cfg g op); cbn; auto.
Qed.
Lemma cs_note_now cfg g t : cs_candnow cfg g (cs_note cfg g t).
Proof.
  intros op o Hop Hc. rewrite cs_note_op in Hop. unfold cs_cnd, cs_note. rewrite Hop, Hc. cbn. left. reflexivity.
Qed.
Lemma cs_note_adds cfg g t op o : ct_op t = Some op -> cs_cand cfg g op = Some o -> cs_cnd (cs_note cfg g t) o.
Proof. intros Hop Hc. apply (cs_note_now cfg g t op o); [rewrite cs_note_op; exact Hop|exact Hc]. Qed.
Lemma cs_note_covered cfg g t : cs_covered_t t -> cs_covered_t (cs_note cfg g t).
Proof. unfold cs_covered_t. rewrite cs_note_prog, cs_note_op. auto. Qed.

(* ------------------------------------------------------------------ environment steps *)
Record cs_ext (enq fin : option nat) (m g m' g' : c_state) : Prop := {
  x_done_m : forall f r, cs_fdone m f = Some r -> cs_fdone m' f = Some r;
  x_done_g : forall f r, cs_fdone g f = Some r -> cs_fdone g' f = Some r;
  x_pred_m : forall f r, cs_fdone m f = Some r -> cs_fpred m f = None -> cs_fpred m' f = None;
  x_new_m : forall f v e u, cs_fdone m' f = Some (v, e, u) -> cs_fdone m f = Some (v, e, u) \/ u = c_now m';
  x_now_m : c_now m <= c_now m';
  x_now_g : c_now g <= c_now g';
  x_len : (length (c_futs m) <= length (c_futs m'))%nat;
  x_qg : forall n, In n (c_queue g) -> ~ In n (c_queue m) -> In n (c_queue g');
  x_qm : forall n, In n (c_queue m') -> In n (c_queue m) \/ enq = Some n;
  x_run : forall f, In f (c_running g) -> fin <> Some f -> In f (c_running g');
  x_A : forall k f, cs_A g k f -> fin <> Some f -> cs_A g' k f /\ cs_fpred g' f = cs_fpred g f;
  x_fin : forall k f, cs_A g k f -> fin = Some f ->
      c_lookup (c_map g') k = Some f /\
      exists v e, cs_fdone g' f = Some (v, e, c_now g') /\ cs_fdone m' f = Some (v, e, c_now g') /\ cs_fpred m' f = None
}.

Lemma cs_optnat_dec (a b : option nat) : {a = b} + {a <> b}.
Proof. decide equality. apply Nat.eq_dec. Qed.

Section Frame.
Variable cfg : c_cfg.
Hypothesis Hcfg : c_cfg_ok cfg.
Variables (enq fin : option nat) (m g m' g' : c_state).
Hypothesis X : cs_ext enq fin m g m' g'.
Hypothesis Ig : c_inv cfg g.
Hypothesis Ig' : c_inv cfg g'.
Hypothesis Hnow' : c_now m' = c_now g'.

Lemma cs_fin_cand w k f t :
  cs_A g k f -> fin = Some f -> ct_op t = Some (cs_rdop w k) ->
  cs_cnd (cs_note cfg g' t) (cs_out w f) /\ cs_fpred m' f = None /\ (exists r, cs_fdone m' f = Some r) /\ cs_fresh cfg m' f.
Proof.
  intros HA Hf Hop. destruct (x_fin _ _ _ _ _ _ X k f HA Hf) as [Hl [v [e [Hg [Hm Hp]]]]].
  split; [|split; [exact Hp|split; [eauto|]]].
  - eapply cs_note_adds; [exact Hop|]. rewrite (cs_cand_done cfg g' w k f v e (c_now g') Ig' Hl Hg).
    replace (c_now g' - c_now g') with 0 by lia. rewrite (cs_status_fresh cfg e Hcfg). reflexivity.
  - intros v0 e0 u0 H0. rewrite Hm in H0. inversion H0; subst. rewrite Hnow'.
    pose proof (c_expire_pos cfg e0 Hcfg). lia.
Qed.

Lemma cs_rd_ext t w k f :
  ct_op t = Some (cs_rdop w k) -> cs_rd m g t w k f -> cs_rd m' g' (cs_note cfg g' t) w k f.
Proof.
  intros Hop [HA|[Hc [Hp [r Hd]]]].
  - destruct (cs_optnat_dec fin (Some f)) as [Ef|Ef].
    + right. destruct (cs_fin_cand w k f t HA Ef Hop) as [H1 [H2 [H3 _]]]. auto.
    + left. apply (x_A _ _ _ _ _ _ X k f HA Ef).
  - right. split; [apply cs_note_mono; exact Hc|]. split; [eapply x_pred_m; eauto|]. exists r. eapply x_done_m; eauto.
Qed.

Lemma cs_pu_ext t w k f p :
  cs_candnow cfg g t ->
  ct_op t = Some (cs_rdop w k) -> cs_pu cfg m g t w k f p -> cs_pu cfg m' g' (cs_note cfg g' t) w k f p.
Proof.
  intros Hcn Hop [v [e [u [Hdm [Hdg [Hage Hor]]]]]]. exists v, e, u.
  pose proof (x_now_g _ _ _ _ _ _ X) as Hng.
  split; [eapply x_done_m; eauto|]. split; [eapply x_done_g; eauto|]. split; [lia|].
  destruct Hor as [[HA Hpred]|[Hc Hor]].
  - assert (Hnot : fin <> Some f -> (cs_A g' k f /\ cs_fpred g' f = Some p)).
    { intros Hne. destruct (x_A _ _ _ _ _ _ X k f HA Hne) as [H1 H2]. split; [exact H1|congruence]. }
    destruct (cs_optnat_dec fin (Some f)) as [Ef|Ef]; [|left; apply Hnot; exact Ef].
    right. split; [apply (cs_fin_cand w k f t HA Ef Hop)|].
    pose proof (Hcn _ _ Hop (cs_cand_A cfg g w k f HA)) as Hc.
    rewrite (cs_fetch_pred cfg g f p v e u Hpred Hdg Hage) in Hc.
    destruct (c_now g - u <? 2 * c_expire cfg e) eqn:E2.
    + left. apply cs_note_mono. exact Hc.
    + right. lia.
  - right. split; [apply cs_note_mono; exact Hc|]. destruct Hor as [Hc'|Hr]; [left; apply cs_note_mono; exact Hc'|right; lia].
Qed.

Lemma cs_pend_ext t st last n :
  enq <> Some n -> cs_pend m g t st last n -> cs_pend m' g' (cs_note cfg g' t) st last n.
Proof.
  intros Hne [H1 [H2 [H3 [H4 H5]]]]. split; [exact H1|]. split; [rewrite cs_note_lin; exact H2|].
  split; [eapply x_qg; eauto|]. split.
  - intros Hin. destruct (x_qm _ _ _ _ _ _ X n Hin) as [H|H]; [exact (H4 H)|exact (Hne H)].
  - pose proof (x_len _ _ _ _ _ _ X). lia.
Qed.

Lemma cs_tinv_ext t :
  cs_tinv cfg m g t -> cs_candnow cfg g t ->
  (cs_holds (ct_pc t) = true -> c_map m' = c_map m) ->
  (cs_in_window CsFixed (ct_pc t) = true -> c_now m' = c_now m /\ c_now g' = c_now g) ->
  (forall n, cs_pnext (ct_pc t) = Some n -> enq <> Some n) ->
  (forall f, cs_wfut (ct_pc t) = Some f -> fin <> Some f) ->
  cs_tinv cfg m' g' (cs_note cfg g' t).
Proof.
  unfold cs_tinv. rewrite cs_note_pc, cs_note_op, cs_note_lin.
  intros T Hcn Hmap Hwin Hpn Hwf.
  destruct (ct_pc t) eqn:Epc; cbn [cs_holds cs_in_window cs_pnext cs_wfut] in *; try exact T; try contradiction.
  - (* LLU *) destruct T as [H1 [H2 H3]]. rewrite (Hmap eq_refl). auto.
  - (* LRE *) destruct T as [H1 [H2 [H3 [v [e [u [H4 [H5 H6]]]]]]]]. rewrite (Hmap eq_refl).
    destruct (Hwin eq_refl) as [Hnm Hng]. split; [exact H1|]. split; [exact H2|]. split; [exact H3|].
    exists v, e, u. split; [eapply x_done_m; eauto|]. split; [rewrite Hnm; exact H5|].
    intros Hs. apply (cs_rd_ext t false k f H1). auto.
  - (* LAU *) destruct next as [n|]; [|contradiction]. destruct T as [k [H1 H2]]. exists k. split; [exact H1|].
    apply cs_pend_ext; [apply Hpn; reflexivity|exact H2].
  - (* LSJ *) destruct T as [k [H1 H2]]. exists k. split; [exact H1|]. apply cs_pend_ext; [apply Hpn; reflexivity|exact H2].
  - (* GAU *) destruct fo as [f|]; [contradiction|]. destruct T as [k [H1 H2]]. exists k. split; [exact H1|]. apply cs_note_mono; exact H2.
  - (* GLU *) destruct T as [k [H1 H2]]. exists k. split; [exact H1|]. rewrite (Hmap eq_refl). exact H2.
  - (* GRE *) destruct T as [k [H1 [v [e [u [H2 H3]]]]]]. exists k. split; [exact H1|]. exists v, e, u.
    split; [eapply x_done_m; eauto|]. destruct (cs_status_of cfg past e).
    + apply cs_note_mono; exact H3.
    + apply (cs_rd_ext t true k f H1 H3).
    + apply cs_note_mono; exact H3.
    + apply cs_note_mono; exact H3.
  - (* RLP *) destruct T as [k [H1 H2]]. exists k. split; [exact H1|]. apply (cs_rd_ext t w k f H1 H2).
  - (* RPU *) destruct T as [k [H1 H2]]. exists k. split; [exact H1|]. apply (cs_pu_ext t w k f p Hcn H1 H2).
  - (* RPE *) destruct T as [H0 [v [e [u [H1 H2]]]]]. split; [exact H0|]. exists v, e, u. split; [eapply x_done_m; eauto|]. apply cs_note_mono. exact H2.
  - (* XAU *) destruct T as [H0 H1]. split; [exact H0|]. apply cs_note_mono. exact H1.
  - (* WLD *) destruct T as [H0 H1]. split; [exact H0|]. eapply x_run; eauto.
  - (* WSU *) destruct T as [H0 [H1 H2]]. destruct (Hwin eq_refl) as [Hnm Hng]. split; [exact H0|]. split; [eapply x_run; eauto|]. lia.
  - (* WSP *) destruct T as [H0 [H1 [H2 H3]]]. destruct (Hwin eq_refl) as [Hnm Hng]. split; [exact H0|]. split; [eapply x_run; eauto|].
    split; [lia|]. eapply x_done_m; eauto.
Qed.
End Frame.

(* ------------------------------------------------------------------ assembling the invariant after a thread step *)
Definition cs_next (cfg : c_cfg) (t : cs_thread) (op : cs_op) (prog : list cs_op) (r : cs_tres) : cs_thread :=
  match tr_pc r with
  | CsIdle => {| ct_prog := prog; ct_pc := CsIdle; ct_op := None; ct_lin := None; ct_cands := [] |}
  | _ => cs_note cfg (tr_g r) {| ct_prog := prog; ct_pc := tr_pc r; ct_op := Some op; ct_lin := tr_lin r; ct_cands := ct_cands t |}
  end.

Definition cs_mid (cfg : c_cfg) (t : cs_thread) (op : cs_op) (prog : list cs_op) (r : cs_tres) : cs_thread :=
  cs_note cfg (tr_g r) {| ct_prog := prog; ct_pc := tr_pc r; ct_op := Some op; ct_lin := tr_lin r; ct_cands := ct_cands t |}.

Lemma cs_go_thr cfg s tid t op prog r :
  cs_thr (fst (cs_go cfg s tid t op prog r)) = cs_upd (map (cs_note cfg (tr_g r)) (cs_thr s)) tid (cs_next cfg t op prog r).
Proof. unfold cs_go, cs_next. cbn [fst cs_thr]. destruct (tr_pc r); reflexivity. Qed.

Lemma cs_next_pc cfg t op prog r : ct_pc (cs_next cfg t op prog r) = tr_pc r.
Proof. unfold cs_next. destruct (tr_pc r) eqn:E; try (rewrite cs_note_pc; cbn; auto). reflexivity. Qed.

Lemma cs_thr_nth cfg s tid t g' t3 j :
  nth_error (cs_thr s) tid = Some t ->
  nth_error (cs_upd (map (cs_note cfg g') (cs_thr s)) tid t3) j =
    if Nat.eqb j tid then Some t3 else option_map (cs_note cfg g') (nth_error (cs_thr s) j).
Proof.
  intros Ht. rewrite cs_upd_nth. destruct (Nat.eqb j tid) eqn:E.
  - rewrite nth_error_map, Ht. reflexivity.
  - rewrite nth_error_map. reflexivity.
Qed.

Lemma cs_go_inv cfg s tid t op prog r enq fin :
  c_cfg_ok cfg -> cs_inv cfg s -> nth_error (cs_thr s) tid = Some t ->
  let s' := fst (cs_go cfg s tid t op prog r) in
  cs_ext enq fin (cs_m s) (cs_g s) (tr_m r) (tr_g r) ->
  c_inv cfg (tr_g r) -> c_displaced (tr_g r) = [] ->
  c_now (tr_m r) = c_now (cs_m s) -> c_now (tr_g r) = c_now (cs_g s) ->
  c_map (tr_m r) = c_map (tr_g r) -> length (c_futs (tr_m r)) = length (c_futs (tr_g r)) ->
  (forall f x, c_get (c_futs (cs_m s')) f = Some x ->
      exists y, c_get (c_futs (cs_g s')) f = Some y /\ c_fkey y = c_fkey x /\ c_fpred y = c_fpred x /\
        (c_fdone y = c_fdone x \/
         (c_fdone y = None /\ exists tid t v e, nth_error (cs_thr s') tid = Some t /\
            ct_pc t = CsWSP f v e (c_now (cs_m s')) /\ c_fdone x = Some (v, e, c_now (cs_m s'))))) ->
  (forall f, In f (c_queue (tr_m r)) -> In f (c_queue (tr_g r))) -> NoDup (c_queue (tr_m r)) ->
  (cs_lock s = tr_lock r \/ (cs_lock s = None /\ tr_lock r = Some tid) \/ (cs_lock s = Some tid /\ tr_lock r = None)) ->
  (cs_holds (tr_pc r) = true <-> tr_lock r = Some tid) ->
  (c_map (tr_m r) = c_map (cs_m s) \/ cs_lock s = Some tid) ->
  (enq = None \/ enq = cs_pnext (ct_pc t)) -> (fin = None \/ fin = cs_wfut (ct_pc t)) ->
  cs_tinv cfg (tr_m r) (tr_g r) (cs_next cfg t op prog r) ->
  forallb cs_op_covered prog = true -> cs_op_covered op = true ->
  (forall f, cs_wfut (tr_pc r) = Some f -> forall j tj, j <> tid -> nth_error (cs_thr s) j = Some tj -> cs_wfut (ct_pc tj) <> Some f) ->
  (forall n, cs_pnext (tr_pc r) = Some n -> forall j tj, j <> tid -> nth_error (cs_thr s) j = Some tj -> cs_pnext (ct_pc tj) <> Some n) ->
  cs_mis s' = false ->
  cs_inv cfg s'.
Proof.
  intros Hcfg I Ht s' X Ig' Hnd Hnm Hng Hmap Hlen Hfut Hq Hqn Hlk Hlk2 Hmp Henq Hfin Htinv Hcp Hco Hw Hp Hmis.
  assert (Hthr : cs_thr s' = cs_upd (map (cs_note cfg (tr_g r)) (cs_thr s)) tid (cs_next cfg t op prog r)) by apply cs_go_thr.
  assert (Hnth : forall j, nth_error (cs_thr s') j = if Nat.eqb j tid then Some (cs_next cfg t op prog r)
                 else option_map (cs_note cfg (tr_g r)) (nth_error (cs_thr s) j)).
  { intros j. rewrite Hthr. apply (cs_thr_nth cfg s tid t). exact Ht. }
  assert (Hoth : forall j tj', j <> tid -> nth_error (cs_thr s') j = Some tj' ->
            exists tj, nth_error (cs_thr s) j = Some tj /\ tj' = cs_note cfg (tr_g r) tj).
  { intros j tj' Hne H. rewrite Hnth in H. apply Nat.eqb_neq in Hne. rewrite Hne in H.
    destruct (nth_error (cs_thr s) j) as [tj|]; [|discriminate]. cbn in H. inversion H. eauto. }
  assert (Hme : forall tj', nth_error (cs_thr s') tid = Some tj' -> tj' = cs_next cfg t op prog r).
  { intros tj' H. rewrite Hnth, Nat.eqb_refl in H. congruence. }
  destruct I as [I1 I2 I3 I4 I5 I6 I7 I8 I9 I10 I11 I12 I13].
  constructor; try assumption.
  - (* now *) change (c_now (tr_m r) = c_now (tr_g r)). lia.
  - (* lock *)
    intros j tj' Hj. change (cs_lock s') with (tr_lock r). destruct (Nat.eq_dec j tid) as [->|Hne].
    + rewrite (Hme _ Hj), cs_next_pc. exact Hlk2.
    + destruct (Hoth j tj' Hne Hj) as [tj [Hj0 ->]]. rewrite cs_note_pc. pose proof (I9 j tj Hj0) as H9.
      destruct Hlk as [Hl|[[Hl1 Hl2]|[Hl1 Hl2]]].
      * rewrite <- Hl. exact H9.
      * rewrite Hl2. rewrite Hl1 in H9. split; intros H; [apply H9 in H; discriminate|inversion H; congruence].
      * rewrite Hl2. rewrite Hl1 in H9. split; intros H; [apply H9 in H; inversion H; congruence|discriminate].
  - (* threads *)
    intros j tj' Hj. change (cs_m s') with (tr_m r). change (cs_g s') with (tr_g r).
    destruct (Nat.eq_dec j tid) as [->|Hne].
    + rewrite (Hme _ Hj). split; [exact Htinv|]. split.
      * unfold cs_next. destruct (tr_pc r); try apply cs_note_now. intros op0 o0 H0; discriminate.
      * unfold cs_next. destruct (tr_pc r); try (apply cs_note_covered; split; [exact Hcp|exact Hco]). split; [exact Hcp|exact Logic.I].
    + destruct (Hoth j tj' Hne Hj) as [tj [Hj0 ->]]. destruct (I10 j tj Hj0) as [T [Cn Cv]].
      split; [|split; [apply cs_note_now|apply cs_note_covered; exact Cv]].
      eapply cs_tinv_ext; eauto.
      * change (c_now (tr_m r) = c_now (tr_g r)). lia.
      * intros Hh. destruct Hmp as [Hm|Hl]; [exact Hm|]. apply (I9 j tj Hj0) in Hh. congruence.
      * intros n Hn He. destruct Henq as [He0|He0]; [congruence|]. rewrite He0 in He.
        apply Hne. apply (I12 j tid tj t n Hj0 Ht Hn). exact He.
      * intros f Hf He. destruct Hfin as [He0|He0]; [congruence|]. rewrite He0 in He.
        apply Hne. apply (I11 j tid tj t f Hj0 Ht Hf). exact He.
  - (* wuniq *)
    intros i j ti tj f Hi Hj Hfi Hfj.
    destruct (Nat.eq_dec i tid) as [->|Hni]; destruct (Nat.eq_dec j tid) as [->|Hnj]; [reflexivity| | |].
    + rewrite (Hme _ Hi), cs_next_pc in Hfi. destruct (Hoth j tj Hnj Hj) as [tj0 [Hj0 ->]]. rewrite cs_note_pc in Hfj.
      exfalso. exact (Hw f Hfi j tj0 Hnj Hj0 Hfj).
    + rewrite (Hme _ Hj), cs_next_pc in Hfj. destruct (Hoth i ti Hni Hi) as [ti0 [Hi0 ->]]. rewrite cs_note_pc in Hfi.
      exfalso. exact (Hw f Hfj i ti0 Hni Hi0 Hfi).
    + destruct (Hoth i ti Hni Hi) as [ti0 [Hi0 ->]]. destruct (Hoth j tj Hnj Hj) as [tj0 [Hj0 ->]].
      rewrite cs_note_pc in Hfi, Hfj. eapply I11; eauto.
  - (* puniq *)
    intros i j ti tj n Hi Hj Hfi Hfj.
    destruct (Nat.eq_dec i tid) as [->|Hni]; destruct (Nat.eq_dec j tid) as [->|Hnj]; [reflexivity| | |].
    + rewrite (Hme _ Hi), cs_next_pc in Hfi. destruct (Hoth j tj Hnj Hj) as [tj0 [Hj0 ->]]. rewrite cs_note_pc in Hfj.
      exfalso. exact (Hp n Hfi j tj0 Hnj Hj0 Hfj).
    + rewrite (Hme _ Hj), cs_next_pc in Hfj. destruct (Hoth i ti Hni Hi) as [ti0 [Hi0 ->]]. rewrite cs_note_pc in Hfi.
      exfalso. exact (Hp n Hfj i ti0 Hni Hi0 Hfi).
    + destruct (Hoth i ti Hni Hi) as [ti0 [Hi0 ->]]. destruct (Hoth j tj Hnj Hj) as [tj0 [Hj0 ->]].
      rewrite cs_note_pc in Hfi, Hfj. eapply I12; eauto.
Qed.

(* ------------------------------------------------------------------ pure steps (memory and ghost unchanged) *)
Lemma cs_ext_refl m g : cs_ext None None m g m g.
Proof.
  constructor; auto; try lia; try discriminate.
Qed.

Lemma cs_wfut_keep cfg s tid t pc' :
  cs_inv cfg s -> nth_error (cs_thr s) tid = Some t ->
  (cs_wfut pc' = None \/ cs_wfut pc' = cs_wfut (ct_pc t)) ->
  forall f, cs_wfut pc' = Some f -> forall j tj, j <> tid -> nth_error (cs_thr s) j = Some tj -> cs_wfut (ct_pc tj) <> Some f.
Proof.
  intros I Ht [H|H] f Hf j tj Hne Hj Hc; [congruence|]. rewrite H in Hf.
  apply Hne. eapply (si_wuniq _ _ I); eauto.
Qed.

Lemma cs_pnext_keep cfg s tid t pc' :
  cs_inv cfg s -> nth_error (cs_thr s) tid = Some t ->
  (cs_pnext pc' = None \/ cs_pnext pc' = cs_pnext (ct_pc t)) ->
  forall n, cs_pnext pc' = Some n -> forall j tj, j <> tid -> nth_error (cs_thr s) j = Some tj -> cs_pnext (ct_pc tj) <> Some n.
Proof.
  intros I Ht [H|H] f Hf j tj Hne Hj Hc; [congruence|]. rewrite H in Hf.
  apply Hne. eapply (si_puniq _ _ I); eauto.
Qed.

(* si_fut is kept when the arenas and the clock do not change and the stepping thread does not leave WSP *)
Lemma cs_fut_keep cfg s tid t op prog r :
  cs_inv cfg s -> nth_error (cs_thr s) tid = Some t ->
  c_futs (tr_m r) = c_futs (cs_m s) -> c_futs (tr_g r) = c_futs (cs_g s) -> c_now (tr_m r) = c_now (cs_m s) ->
  (forall f v e n, ct_pc t <> CsWSP f v e n) ->
  let s' := fst (cs_go cfg s tid t op prog r) in
  forall f x, c_get (c_futs (cs_m s')) f = Some x ->
      exists y, c_get (c_futs (cs_g s')) f = Some y /\ c_fkey y = c_fkey x /\ c_fpred y = c_fpred x /\
        (c_fdone y = c_fdone x \/
         (c_fdone y = None /\ exists tid t v e, nth_error (cs_thr s') tid = Some t /\
            ct_pc t = CsWSP f v e (c_now (cs_m s')) /\ c_fdone x = Some (v, e, c_now (cs_m s')))).
Proof.
  intros I Ht Hfm Hfg Hn Hpc s' f x Hx. change (cs_m s') with (tr_m r) in *. change (cs_g s') with (tr_g r).
  rewrite Hfm in Hx. rewrite Hfg, Hn.
  destruct (si_fut _ _ I f x Hx) as [y [Hy [Hk [Hp Hd]]]]. exists y. repeat split; auto.
  destruct Hd as [Hd|[Hd [j [tj [v [e [Hj [Hpcj Hdx]]]]]]]]; [left; exact Hd|right].
  split; [exact Hd|]. exists j, (cs_note cfg (tr_g r) tj), v, e.
  assert (Hne : j <> tid). { intros ->. rewrite Ht in Hj. inversion Hj; subst. exact (Hpc _ _ _ _ Hpcj). }
  split; [|split; [rewrite cs_note_pc; exact Hpcj|exact Hdx]].
  unfold s'. rewrite cs_go_thr, (cs_thr_nth cfg s tid t _ _ j Ht).
  apply Nat.eqb_neq in Hne. rewrite Hne, Hj. reflexivity.
Qed.

Lemma cs_go_pure cfg s tid t op prog r :
  c_cfg_ok cfg -> cs_inv cfg s -> nth_error (cs_thr s) tid = Some t ->
  tr_m r = cs_m s -> tr_g r = cs_g s ->
  (cs_lock s = tr_lock r \/ (cs_lock s = None /\ tr_lock r = Some tid) \/ (cs_lock s = Some tid /\ tr_lock r = None)) ->
  (cs_holds (tr_pc r) = true <-> tr_lock r = Some tid) ->
  (forall f v e n, ct_pc t <> CsWSP f v e n) ->
  cs_tinv cfg (cs_m s) (cs_g s) (cs_next cfg t op prog r) ->
  forallb cs_op_covered prog = true -> cs_op_covered op = true ->
  (cs_wfut (tr_pc r) = None \/ cs_wfut (tr_pc r) = cs_wfut (ct_pc t)) ->
  (cs_pnext (tr_pc r) = None \/ cs_pnext (tr_pc r) = cs_pnext (ct_pc t)) ->
  cs_mis (fst (cs_go cfg s tid t op prog r)) = false ->
  cs_inv cfg (fst (cs_go cfg s tid t op prog r)).
Proof.
  intros Hcfg I Ht Hm Hg Hlk Hlk2 Hpc Htinv Hcp Hco Hw Hp Hmis.
  apply (cs_go_inv cfg s tid t op prog r None None Hcfg I Ht); rewrite ?Hm, ?Hg.
  - apply cs_ext_refl.
  - apply (si_g _ _ I).
  - apply (si_nodisp _ _ I).
  - reflexivity.
  - reflexivity.
  - apply (si_map _ _ I).
  - apply (si_len _ _ I).
  - apply cs_fut_keep; auto; rewrite ?Hm, ?Hg; reflexivity.
  - apply (si_queue _ _ I).
  - apply (si_qnodup _ _ I).
  - exact Hlk.
  - exact Hlk2.
  - left; reflexivity.
  - left; reflexivity.
  - left; reflexivity.
  - exact Htinv.
  - exact Hcp.
  - exact Hco.
  - eapply cs_wfut_keep; eauto.
  - eapply cs_pnext_keep; eauto.
  - exact Hmis.
Qed.

(* ------------------------------------------------------------------ the mismatch flag *)
Lemma cs_mis_park cfg s tid t op prog r :
  cs_mis s = false -> tr_ret r = None -> tr_chk r = None -> cs_mis (fst (cs_go cfg s tid t op prog r)) = false.
Proof. intros H H1 H2. unfold cs_go. cbn [fst cs_mis]. rewrite H, H1, H2. reflexivity. Qed.

Lemma cs_mis_ret cfg s tid t op prog r res o :
  cs_mis s = false -> tr_ret r = Some (res, o) -> tr_chk r = None ->
  cs_justified (cs_mid cfg t op prog r) o = true -> cs_mis (fst (cs_go cfg s tid t op prog r)) = false.
Proof. intros H H1 H2 H3. unfold cs_go. cbn [fst cs_mis]. fold (cs_mid cfg t op prog r). rewrite H, H1, H2, H3. reflexivity. Qed.

Lemma cs_mid_cnd cfg t op prog r o : cs_cnd t o -> cs_cnd (cs_mid cfg t op prog r) o.
Proof. intros H. unfold cs_mid. apply cs_note_mono. exact H. Qed.

Lemma cs_next_cnd cfg t op prog r o : tr_pc r <> CsIdle -> cs_cnd t o -> cs_cnd (cs_next cfg t op prog r) o.
Proof. intros Hn H. unfold cs_next. destruct (tr_pc r); try congruence; apply cs_note_mono; exact H. Qed.

Lemma cs_just_rd cfg t op prog r w x :
  cs_cnd t (cs_out w x) -> cs_justified (cs_mid cfg t op prog r) (cs_out w x) = true.
Proof.
  intros H. apply (cs_mid_cnd cfg t op prog r) in H. destruct w; cbn [cs_out cs_justified]; apply cs_mem_out_spec; exact H.
Qed.

(* the tinv of the next thread when it stays inside the call: stated on a thread with the new pc *)
Lemma cs_next_mid cfg t op prog r : tr_pc r <> CsIdle -> cs_next cfg t op prog r = cs_mid cfg t op prog r.
Proof. intros H. unfold cs_next, cs_mid. destruct (tr_pc r); try congruence; reflexivity. Qed.

Lemma cs_mid_pc cfg t op prog r : ct_pc (cs_mid cfg t op prog r) = tr_pc r.
Proof. unfold cs_mid. rewrite cs_note_pc. reflexivity. Qed.
Lemma cs_mid_op cfg t op prog r : ct_op (cs_mid cfg t op prog r) = Some op.
Proof. unfold cs_mid. rewrite cs_note_op. reflexivity. Qed.
Lemma cs_mid_lin cfg t op prog r : ct_lin (cs_mid cfg t op prog r) = tr_lin r.
Proof. unfold cs_mid. rewrite cs_note_lin. reflexivity. Qed.
Lemma cs_mid_now cfg t op prog r o : cs_cand cfg (tr_g r) op = Some o -> cs_cnd (cs_mid cfg t op prog r) o.
Proof. intros H. unfold cs_mid. eapply cs_note_adds; [reflexivity|exact H]. Qed.

(* predicates move from t to the mid thread (same memory) *)
Lemma cs_rd_mid cfg m g t op prog r w k f : cs_rd m g t w k f -> cs_rd m g (cs_mid cfg t op prog r) w k f.
Proof. intros [H|[H1 H2]]; [left; exact H|right; split; [apply cs_mid_cnd; exact H1|exact H2]]. Qed.
Lemma cs_pend_mid cfg m g t op prog r st last n :
  tr_lin r = ct_lin t -> cs_pend m g t st last n -> cs_pend m g (cs_mid cfg t op prog r) st last n.
Proof. intros Hl [H1 [H2 H3]]. split; [exact H1|]. split; [rewrite cs_mid_lin, Hl; exact H2|exact H3]. Qed.

(* ------------------------------------------------------------------ memory vs ghost *)
Lemma cs_mg_get cfg s f : cs_inv cfg s ->
  match c_get (c_futs (cs_m s)) f, c_get (c_futs (cs_g s)) f with
  | Some x, Some y => c_fkey y = c_fkey x /\ c_fpred y = c_fpred x /\
        (c_fdone y = c_fdone x \/ (c_fdone y = None /\ exists v e, c_fdone x = Some (v, e, c_now (cs_m s))))
  | None, None => True
  | _, _ => False
  end.
Proof.
  intros I. destruct (c_get (c_futs (cs_m s)) f) as [x|] eqn:Ex.
  - destruct (si_fut _ _ I f x Ex) as [y [Hy [Hk [Hp Hd]]]]. rewrite Hy. split; [exact Hk|]. split; [exact Hp|].
    destruct Hd as [Hd|[Hd [j [tj [v [e [_ [_ Hx]]]]]]]]; [left; exact Hd|right; split; [exact Hd|eauto]].
  - destruct (c_get (c_futs (cs_g s)) f) as [y|] eqn:Ey; [|exact Logic.I].
    apply c_get_lt in Ey. rewrite <- (si_len _ _ I) in Ey. unfold c_get in Ex. apply nth_error_None in Ex. lia.
Qed.

Lemma cs_mg_pred cfg s f : cs_inv cfg s -> cs_fpred (cs_m s) f = cs_fpred (cs_g s) f.
Proof.
  intros I. pose proof (cs_mg_get cfg s f I) as H. unfold cs_fpred.
  destruct (c_get (c_futs (cs_m s)) f) as [x|]; destruct (c_get (c_futs (cs_g s)) f) as [y|]; try contradiction; [|reflexivity].
  destruct H as [_ [H _]]. auto.
Qed.

Lemma cs_mg_done cfg s f r : cs_inv cfg s -> cs_fdone (cs_g s) f = Some r ->
  cs_fdone (cs_m s) f = Some r /\ cs_fpred (cs_m s) f = None.
Proof.
  intros I Hd. pose proof (cs_mg_get cfg s f I) as H. rewrite (cs_mg_pred cfg s f I). unfold cs_fdone, cs_fpred in *.
  destruct (c_get (c_futs (cs_g s)) f) as [y|] eqn:Ey; [|discriminate].
  destruct (c_get (c_futs (cs_m s)) f) as [x|]; [|contradiction].
  destruct H as [_ [_ [H|[H _]]]]; [|congruence]. split; [congruence|].
  eapply c_done_no_pred; [apply (si_g _ _ I)|exact Ey|exact Hd].
Qed.

(* a future that is complete in memory but still loading in the ghost was stamped at the current instant *)
Lemma cs_mg_window cfg s f v e u : cs_inv cfg s ->
  cs_fdone (cs_m s) f = Some (v, e, u) -> cs_fdone (cs_g s) f = None -> u = c_now (cs_m s).
Proof.
  intros I Hm Hg. pose proof (cs_mg_get cfg s f I) as H. unfold cs_fdone in *.
  destruct (c_get (c_futs (cs_m s)) f) as [x|]; [|discriminate].
  destruct (c_get (c_futs (cs_g s)) f) as [y|]; [|contradiction].
  destruct H as [_ [_ [H|[_ [v0 [e0 H]]]]]]; congruence.
Qed.

Lemma cs_mg_loading cfg s f : cs_inv cfg s -> (f < length (c_futs (cs_m s)))%nat ->
  cs_fdone (cs_m s) f = None -> c_isload (c_futs (cs_g s)) f.
Proof.
  intros I Hlt Hm. pose proof (cs_mg_get cfg s f I) as H. unfold cs_fdone in Hm.
  destruct (c_get (c_futs (cs_m s)) f) as [x|] eqn:Ex.
  - destruct (c_get (c_futs (cs_g s)) f) as [y|] eqn:Ey; [|contradiction]. exists y. split; [exact Ey|].
    destruct H as [_ [_ [H|[H _]]]]; congruence.
  - unfold c_get in Ex. apply nth_error_None in Ex. lia.
Qed.


(* ================================================================== environment-step instances *)
Lemma cs_fdone_app futs x f :
  match c_get (futs ++ [x]) f with Some y => c_fdone y | None => None end =
  if Nat.ltb f (length futs) then match c_get futs f with Some y => c_fdone y | None => None end
  else if Nat.eqb f (length futs) then c_fdone x else None.
Proof.
  unfold c_get. destruct (Nat.ltb f (length futs)) eqn:E.
  - apply Nat.ltb_lt in E. rewrite nth_error_app1 by exact E. reflexivity.
  - apply Nat.ltb_ge in E. rewrite nth_error_app2 by exact E. destruct (Nat.eqb f (length futs)) eqn:E2.
    + apply Nat.eqb_eq in E2. subst. rewrite Nat.sub_diag. reflexivity.
    + apply Nat.eqb_neq in E2. destruct (f - length futs)%nat as [|n] eqn:E3; [lia|]. cbn. destruct n; reflexivity.
Qed.

Lemma cs_fpred_app futs x f :
  match c_get (futs ++ [x]) f with Some y => c_fpred y | None => None end =
  if Nat.ltb f (length futs) then match c_get futs f with Some y => c_fpred y | None => None end
  else if Nat.eqb f (length futs) then c_fpred x else None.
Proof.
  unfold c_get. destruct (Nat.ltb f (length futs)) eqn:E.
  - apply Nat.ltb_lt in E. rewrite nth_error_app1 by exact E. reflexivity.
  - apply Nat.ltb_ge in E. rewrite nth_error_app2 by exact E. destruct (Nat.eqb f (length futs)) eqn:E2.
    + apply Nat.eqb_eq in E2. subst. rewrite Nat.sub_diag. reflexivity.
    + apply Nat.eqb_neq in E2. destruct (f - length futs)%nat as [|n] eqn:E3; [lia|]. cbn. destruct n; reflexivity.
Qed.

Lemma cs_fdone_lt m f r : cs_fdone m f = Some r -> (f < length (c_futs m))%nat.
Proof. intros H. destruct (cs_fdone_get _ _ _ H) as [x [Hx _]]. eapply c_get_lt; eauto. Qed.

(* both arenas get the same loading future appended, both maps the new entry *)
Lemma cs_ext_new m g k0 pred :
  (forall f, ~ cs_A g k0 f) ->
  cs_ext None None m g (cs_new_entry m k0 pred) (c_new_job g k0 pred).
Proof.
  intros Hno. constructor; unfold cs_new_entry, c_new_job, cs_with, cs_fdone, cs_fpred; cbn [c_futs c_map c_queue c_running c_now]; try lia; try discriminate.
  - intros f r H. rewrite cs_fdone_app. pose proof (cs_fdone_lt m f r H) as Hlt. apply Nat.ltb_lt in Hlt. rewrite Hlt. exact H.
  - intros f r H. rewrite cs_fdone_app. pose proof (cs_fdone_lt g f r H) as Hlt. apply Nat.ltb_lt in Hlt. rewrite Hlt. exact H.
  - intros f r H Hp. rewrite cs_fpred_app. pose proof (cs_fdone_lt m f r H) as Hlt. apply Nat.ltb_lt in Hlt. rewrite Hlt. exact Hp.
  - intros f v e u H. rewrite cs_fdone_app in H. destruct (Nat.ltb f (length (c_futs m))); [left; exact H|].
    destruct (Nat.eqb f (length (c_futs m))); discriminate.
  - rewrite app_length. cbn. lia.
  - intros n H _. apply in_or_app. left. exact H.
  - intros n H. left. exact H.
  - intros f H _. exact H.
  - intros k f [Hl Hi] _. destruct (Z.eq_dec k k0) as [->|Hne]; [exfalso; exact (Hno f (conj Hl Hi))|].
    unfold cs_A; cbn [c_map c_futs]. split; [split|].
    + rewrite c_lookup_update. destruct (k0 =? k) eqn:E; [lia|exact Hl].
    + apply c_isload_app. left. exact Hi.
    + rewrite cs_fpred_app. pose proof (c_isload_lt _ _ Hi) as Hlt. apply Nat.ltb_lt in Hlt. rewrite Hlt. reflexivity.
Qed.

Lemma cs_ext_enqueue m g n : cs_ext (Some n) None m g (cs_enqueue m n) g.
Proof.
  constructor; unfold cs_enqueue, cs_with, cs_fdone, cs_fpred; cbn [c_futs c_map c_queue c_running c_now]; auto; try lia; try discriminate.
  intros n' H. apply in_app_or in H. destruct H as [H|[H|[]]]; [left; exact H|right; congruence].
Qed.

Lemma cs_ext_start m g f q k g' :
  c_queue m = f :: q -> c_start g k = (g', OStart f) ->
  cs_ext None None m g (cs_with m (c_futs m) (c_map m) q (c_running m ++ [f])) g'.
Proof.
  intros Hq Hs. unfold c_start in Hs. destruct (c_take_first (c_key_is (c_futs g) k) (c_queue g)) as [[f' q']|] eqn:Et; [|discriminate].
  inversion Hs; subst f' g'. clear Hs. destruct (c_take_first_spec _ _ _ _ Et) as [HP _].
  constructor; unfold cs_with, cs_fdone, cs_fpred, cs_A; cbn [c_futs c_map c_queue c_running c_now]; auto; try lia; try discriminate.
  - intros n Hin Hnm. apply (Permutation_in _ HP) in Hin. destruct Hin as [->|Hin]; [|exact Hin].
    exfalso. apply Hnm. rewrite Hq. left. reflexivity.
  - intros n Hin. left. rewrite Hq. right. exact Hin.
  - intros f0 Hin _. apply in_or_app. left. exact Hin.
Qed.

Lemma cs_fdone_setfut futs f x g0 :
  (f < length futs)%nat ->
  match c_get (c_setfut futs f x) g0 with Some y => c_fdone y | None => None end =
  if Nat.eqb g0 f then c_fdone x else match c_get futs g0 with Some y => c_fdone y | None => None end.
Proof. intros H. rewrite c_get_setfut by exact H. destruct (Nat.eqb g0 f); reflexivity. Qed.
Lemma cs_fpred_setfut futs f x g0 :
  (f < length futs)%nat ->
  match c_get (c_setfut futs f x) g0 with Some y => c_fpred y | None => None end =
  if Nat.eqb g0 f then c_fpred x else match c_get futs g0 with Some y => c_fpred y | None => None end.
Proof. intros H. rewrite c_get_setfut by exact H. destruct (Nat.eqb g0 f); reflexivity. Qed.

(* the worker's store of updateTime: memory only *)
Lemma cs_ext_store_done m g f0 x v e :
  c_get (c_futs m) f0 = Some x -> c_fdone x = None ->
  cs_ext None None m g (cs_store_done m f0 (v, e, c_now m)) g.
Proof.
  intros Hx Hd. pose proof (c_get_lt _ _ _ Hx) as Hlt.
  constructor; unfold cs_store_done; rewrite ?Hx; unfold cs_with, cs_fdone, cs_fpred; cbn [c_futs c_map c_queue c_running c_now]; auto; try lia; try discriminate.
  - intros f r H. rewrite cs_fdone_setfut by exact Hlt. destruct (Nat.eqb f f0) eqn:E; [|exact H].
    apply Nat.eqb_eq in E. subst f. rewrite Hx, Hd in H. discriminate.
  - intros f r _ H. rewrite cs_fpred_setfut by exact Hlt. destruct (Nat.eqb f f0) eqn:E; [|exact H].
    apply Nat.eqb_eq in E. subst f. rewrite Hx in H. cbn. exact H.
  - intros f v0 e0 u H. rewrite cs_fdone_setfut in H by exact Hlt. destruct (Nat.eqb f f0); [|left; exact H].
    cbn in H. inversion H. right. reflexivity.
  - rewrite c_setfut_length by exact Hlt. lia.
Qed.

Lemma cs_rank_take p f l : In f l -> p f = true -> exists l', c_take_nth p (cs_rank p f l) l = Some (f, l').
Proof.
  induction l as [|a r IH]; intros Hin Hp; [destruct Hin|]. cbn [cs_rank c_take_nth].
  destruct (Nat.eqb a f) eqn:E.
  - apply Nat.eqb_eq in E. subst a. rewrite Hp. eauto.
  - assert (Hin' : In f r). { destruct Hin as [->|H]; [rewrite Nat.eqb_refl in E; discriminate|exact H]. }
    destruct (IH Hin' Hp) as [l' Hl]. destruct (p a); rewrite Hl; eauto.
Qed.

(* the worker's store of predecessor := nil = the atomic CFinish *)
Lemma cs_ext_finish cfg m g f0 xm v e k i g' :
  c_inv cfg g -> c_now m = c_now g ->
  c_get (c_futs m) f0 = Some xm -> c_fdone xm = Some (v, e, c_now m) ->
  c_isload (c_futs g) f0 ->
  c_finish g k i v e = (g', OFinish f0) ->
  cs_ext None (Some f0) m g (cs_store_pred_nil m f0) g'.
Proof.
  intros Ig Hnow Hxm Hdm [xg [Hxg Hdg]] Hf. unfold c_finish in Hf.
  destruct (c_take_nth (c_key_is (c_futs g) k) i (c_running g)) as [[f' r']|] eqn:Et; [|discriminate].
  inversion Hf; subst f' g'. clear Hf. destruct (c_take_nth_spec _ _ _ _ _ Et) as [HP _].
  pose proof (c_get_lt _ _ _ Hxm) as Hltm. pose proof (c_get_lt _ _ _ Hxg) as Hltg.
  constructor; unfold cs_store_pred_nil; rewrite ?Hxm; unfold cs_with, cs_fdone, cs_fpred, cs_A; cbn [c_futs c_map c_queue c_running c_now]; auto; try lia.
  - intros f r H. rewrite cs_fdone_setfut by exact Hltm. destruct (Nat.eqb f f0) eqn:E; [|exact H].
    apply Nat.eqb_eq in E. subst f. rewrite Hxm in H. cbn. exact H.
  - intros f r H. rewrite cs_fdone_setfut by exact Hltg. destruct (Nat.eqb f f0) eqn:E; [|exact H].
    apply Nat.eqb_eq in E. subst f. rewrite Hxg, Hdg in H. discriminate.
  - intros f r _ H. rewrite cs_fpred_setfut by exact Hltm. destruct (Nat.eqb f f0); [reflexivity|exact H].
  - intros f v0 e0 u H. left. rewrite cs_fdone_setfut in H by exact Hltm. destruct (Nat.eqb f f0) eqn:E; [|exact H].
    apply Nat.eqb_eq in E. subst f. rewrite Hxm. exact H.
  - rewrite c_setfut_length by exact Hltm. lia.
  - intros f Hin Hne. apply (Permutation_in _ HP) in Hin. destruct Hin as [->|Hin]; [congruence|exact Hin].
  - intros k0 f [Hl [y [Hy Hyd]]] Hne. assert (Hnf : f <> f0) by congruence. apply Nat.eqb_neq in Hnf.
    split; [split; [exact Hl|]|].
    + exists y. rewrite c_get_setfut by exact Hltg. rewrite Hnf. auto.
    + rewrite cs_fpred_setfut by exact Hltg. rewrite Hnf. reflexivity.
  - intros k0 f [Hl _] Hf. inversion Hf; subst f. split; [exact Hl|]. exists v, e.
    rewrite cs_fdone_setfut by exact Hltg. rewrite cs_fdone_setfut by exact Hltm. rewrite cs_fpred_setfut by exact Hltm.
    rewrite Nat.eqb_refl. cbn [c_fdone c_fpred]. rewrite Hdm, Hnow. auto.
Qed.

Lemma cs_ext_tick cfg m g dt : 0 <= dt ->
  cs_ext None None m g (cs_tick m dt) (fst (c_step cfg g (CAdvance dt))).
Proof.
  intros Hdt. cbn [c_step]. destruct (dt <? 0) eqn:E; [lia|]. cbn [fst].
  constructor; unfold cs_tick, cs_fdone, cs_fpred, cs_A; cbn [c_futs c_map c_queue c_running c_now]; auto; try lia; try discriminate.
Qed.

(* ================================================================== steps of the Fixed order *)
Definition cs_lockmove (s : cs_state) (tid : nat) (t : cs_thread) (lk' : option nat) (pc' : cs_pc) : Prop :=
  (lk' = cs_lock s /\ cs_holds pc' = cs_holds (ct_pc t)) \/
  (cs_lock s = None /\ lk' = Some tid /\ cs_holds pc' = true) \/
  (cs_holds (ct_pc t) = true /\ lk' = None /\ cs_holds pc' = false).

Lemma cs_lockmove_ok cfg s tid t lk' pc' :
  cs_inv cfg s -> nth_error (cs_thr s) tid = Some t -> cs_lockmove s tid t lk' pc' ->
  (cs_lock s = lk' \/ (cs_lock s = None /\ lk' = Some tid) \/ (cs_lock s = Some tid /\ lk' = None)) /\
  (cs_holds pc' = true <-> lk' = Some tid).
Proof.
  intros I Ht H. pose proof (si_lock _ _ I tid t Ht) as HL.
  destruct H as [[-> Hh]|[[Hl [-> Hh]]|[Hh [-> Hh']]]].
  - split; [left; reflexivity|]. rewrite Hh. exact HL.
  - split; [right; left; auto|]. rewrite Hh. split; auto.
  - split; [right; right; split; [apply HL; exact Hh|reflexivity]|]. rewrite Hh'. split; discriminate.
Qed.

Lemma cs_park_inv cfg s tid t op prog lk' pc' :
  c_cfg_ok cfg -> cs_inv cfg s -> nth_error (cs_thr s) tid = Some t ->
  cs_lockmove s tid t lk' pc' ->
  (forall f v e n, ct_pc t <> CsWSP f v e n) -> pc' <> CsIdle ->
  cs_tinv cfg (cs_m s) (cs_g s) (cs_mid cfg t op prog (cs_park (cs_m s) lk' (cs_g s) (ct_lin t) pc')) ->
  forallb cs_op_covered prog = true -> cs_op_covered op = true ->
  (cs_wfut pc' = None \/ cs_wfut pc' = cs_wfut (ct_pc t)) ->
  (cs_pnext pc' = None \/ cs_pnext pc' = cs_pnext (ct_pc t)) ->
  cs_inv cfg (fst (cs_go cfg s tid t op prog (cs_park (cs_m s) lk' (cs_g s) (ct_lin t) pc'))).
Proof.
  intros Hcfg I Ht Hlm Hpc Hni Htinv Hcp Hco Hw Hp.
  destruct (cs_lockmove_ok cfg s tid t lk' pc' I Ht Hlm) as [H1 H2].
  apply cs_go_pure; auto.
  - rewrite cs_next_mid by exact Hni. exact Htinv.
  - apply cs_mis_park; [apply (si_mis _ _ I)|reflexivity|reflexivity].
Qed.

(* facts about the stepping thread *)
Lemma cs_thr_facts cfg s tid t : cs_inv cfg s -> nth_error (cs_thr s) tid = Some t ->
  cs_tinv cfg (cs_m s) (cs_g s) t /\ cs_candnow cfg (cs_g s) t /\ forallb cs_op_covered (ct_prog t) = true /\
  (forall op, ct_op t = Some op -> cs_op_covered op = true).
Proof.
  intros I Ht. destruct (si_thr _ _ I tid t Ht) as [T [Cn [C1 C2]]]. repeat split; auto.
  intros op Hop. rewrite Hop in C2. exact C2.
Qed.

Ltac cs_mid_tinv := unfold cs_tinv; rewrite ?cs_mid_pc, ?cs_mid_op, ?cs_mid_lin; unfold cs_park; cbn [tr_pc tr_lin].
Ltac cs_keep := left; split; reflexivity.
Ltac cs_not_wsp Epc := let f := fresh in let v := fresh in let e := fresh in let n := fresh in
  intros f v e n; rewrite Epc; discriminate.

(* ---------------- lock acquisition *)
Lemma cs_step_lock cfg s tid t op :
  c_cfg_ok cfg -> cs_inv cfg s -> nth_error (cs_thr s) tid = Some t -> ct_op t = Some op -> cs_blocked s t = false ->
  (exists k, ct_pc t = CsLBL k) \/ (exists k, ct_pc t = CsGBL k) ->
  cs_inv cfg (fst (cs_go cfg s tid t op (ct_prog t) (cs_tstep CsFixed cfg s tid t))).
Proof.
  intros Hcfg I Ht Hop Hnb Hor. destruct (cs_thr_facts cfg s tid t I Ht) as [T [Cn [Cp Co]]].
  assert (Hl : cs_lock s = None).
  { unfold cs_blocked in Hnb. destruct Hor as [[k Epc]|[k Epc]]; rewrite Epc in Hnb; destruct (cs_lock s); congruence. }
  unfold cs_tinv in T. destruct Hor as [[k Epc]|[k Epc]]; unfold cs_tstep; rewrite Epc in *; cbv zeta.
  - apply cs_park_inv; auto; try discriminate;
      first [solve [right; left; auto] | solve [cs_not_wsp Epc] | solve [cs_mid_tinv; rewrite <- Hop; exact T] | solve [left; reflexivity]].
  - apply cs_park_inv; auto; try discriminate;
      first [solve [right; left; auto] | solve [cs_not_wsp Epc] | solve [cs_mid_tinv; rewrite <- Hop; exact T] | solve [left; reflexivity]].
Qed.

Lemma cs_lookup_facts cfg s k f : cs_inv cfg s -> c_lookup (c_map (cs_m s)) k = Some f ->
  c_lookup (c_map (cs_g s)) k = Some f /\ (f < length (c_futs (cs_m s)))%nat.
Proof.
  intros I H. rewrite (si_map _ _ I) in H. split; [exact H|].
  destruct (ci_map_wf _ _ (si_g _ _ I) k f H) as [x [Hx _]]. rewrite (si_len _ _ I). eapply c_get_lt; eauto.
Qed.

Lemma cs_loading_A cfg s k f : cs_inv cfg s -> c_lookup (c_map (cs_m s)) k = Some f ->
  cs_fdone (cs_m s) f = None -> cs_A (cs_g s) k f.
Proof.
  intros I Hl Hd. destruct (cs_lookup_facts cfg s k f I Hl) as [Hg Hlt]. split; [exact Hg|].
  apply (cs_mg_loading cfg s f I Hlt Hd).
Qed.

(* the entry's status evaluated at this instant: either the entry is (abstractly) still
   loading and looks fresh, or memory and ghost agree on it and the atomic event answers now
   what the code is about to decide *)
Lemma cs_status_cases cfg s w k f v e u :
  c_cfg_ok cfg -> cs_inv cfg s -> c_lookup (c_map (cs_m s)) k = Some f -> cs_fdone (cs_m s) f = Some (v, e, u) ->
  (cs_status_of cfg (c_now (cs_m s) - u) e = CGood /\ cs_A (cs_g s) k f) \/
  (cs_fdone (cs_g s) f = Some (v, e, u) /\ cs_fpred (cs_m s) f = None /\
   cs_cand cfg (cs_g s) (cs_rdop w k) =
     Some (match cs_status_of cfg (c_now (cs_m s) - u) e with
           | CGood => cs_out w f
           | CExpired => if w then OAwait f else OLoad f true
           | _ => if w then OImmediate else OLoad (length (c_futs (cs_g s))) true
           end)).
Proof.
  intros Hcfg I Hl Hd. destruct (cs_lookup_facts cfg s k f I Hl) as [Hg Hlt].
  destruct (cs_fdone (cs_g s) f) as [r|] eqn:Eg.
  - right. destruct (cs_mg_done cfg s f r I Eg) as [Hm Hp]. rewrite Hd in Hm. inversion Hm; subst r.
    split; [reflexivity|]. split; [exact Hp|]. rewrite (si_now _ _ I).
    apply (cs_cand_done cfg (cs_g s) w k f v e u (si_g _ _ I) Hg Eg).
  - left. pose proof (cs_mg_window cfg s f v e u I Hd Eg) as Hu. subst u.
    replace (c_now (cs_m s) - c_now (cs_m s)) with 0 by lia. split; [apply cs_status_fresh; exact Hcfg|].
    split; [exact Hg|]. pose proof (cs_mg_get cfg s f I) as H. unfold cs_fdone in Hd, Eg.
    destruct (c_get (c_futs (cs_m s)) f) as [x|]; [|discriminate].
    destruct (c_get (c_futs (cs_g s)) f) as [y|] eqn:Ey; [|contradiction]. exists y. auto.
Qed.

Lemma cs_return_inv cfg s tid t op prog res o :
  c_cfg_ok cfg -> cs_inv cfg s -> nth_error (cs_thr s) tid = Some t ->
  cs_holds (ct_pc t) = false -> (forall f v e n, ct_pc t <> CsWSP f v e n) ->
  forallb cs_op_covered prog = true -> cs_op_covered op = true ->
  cs_justified (cs_mid cfg t op prog (cs_return (cs_m s) (cs_lock s) (cs_g s) (ct_lin t) res o)) o = true ->
  cs_inv cfg (fst (cs_go cfg s tid t op prog (cs_return (cs_m s) (cs_lock s) (cs_g s) (ct_lin t) res o))).
Proof.
  intros Hcfg I Ht Hh Hpc Hcp Hco Hj.
  destruct (cs_lockmove_ok cfg s tid t (cs_lock s) CsIdle I Ht) as [H1 H2].
  { left. split; [reflexivity|]. rewrite Hh. reflexivity. }
  apply cs_go_pure; auto;
    first [solve [unfold cs_next; cbn; reflexivity] | solve [left; reflexivity]
          | solve [eapply cs_mis_ret; [apply (si_mis _ _ I)|reflexivity|reflexivity|exact Hj]]].
Qed.

Lemma cs_just_cnd cfg t op prog r o :
  (exists w x, o = cs_out w x) \/ o = OImmediate -> cs_cnd t o -> cs_justified (cs_mid cfg t op prog r) o = true.
Proof.
  intros Ho Hc. apply (cs_mid_cnd cfg t op prog r) in Hc.
  destruct Ho as [[w [x ->]]| ->]; [destruct w|]; cbn [cs_out cs_justified]; apply cs_mem_out_spec; exact Hc.
Qed.

(* ---------------- the steps that change neither memory nor ghost *)
Lemma cs_step_pure cfg s tid t op :
  c_cfg_ok cfg -> cs_inv cfg s -> nth_error (cs_thr s) tid = Some t -> ct_op t = Some op ->
  match ct_pc t with
  | CsLAL k => c_lookup (c_map (cs_m s)) k <> None
  | CsLLU _ _ | CsLAU _ _ _ | CsGAL _ | CsGAU _ | CsGLU _ | CsGRE _ _ | CsRLP _ _ | CsRPU _ _ _ | CsRPE _ _ _ _
  | CsXAU _ _ | CsWLD _ _ _ => True
  | CsLRE k f past => cs_status_of cfg past (cs_err_of (cs_m s) f) = CGood
  | CsGFW x => cs_fdone (cs_m s) x <> None
  | _ => False
  end ->
  cs_inv cfg (fst (cs_go cfg s tid t op (ct_prog t) (cs_tstep CsFixed cfg s tid t))).
Proof.
  intros Hcfg I Ht Hop Hside. destruct (cs_thr_facts cfg s tid t I Ht) as [T [Cn [Cp Co]]].
  pose proof (Co op Hop) as Hco. unfold cs_tinv in T.
  destruct (ct_pc t) eqn:Epc; try contradiction; unfold cs_tstep; rewrite Epc; cbv zeta.
  - (* LAL, entry present *)
    destruct (c_lookup (c_map (cs_m s)) k) as [f|] eqn:El; [|congruence].
    apply cs_park_inv; auto; try discriminate;
      first [solve [unfold cs_lockmove; rewrite Epc; left; split; reflexivity] | solve [cs_not_wsp Epc] | solve [left; reflexivity] | idtac].
    cs_mid_tinv. destruct T as [T1 T2]. rewrite <- Hop. auto.
  - (* LLU *)
    destruct T as [T1 [T2 T3]].
    destruct (cs_fdone (cs_m s) f) as [[[v e] u]|] eqn:Ed.
    + apply cs_park_inv; auto; try discriminate;
        first [solve [unfold cs_lockmove; rewrite Epc; left; split; reflexivity] | solve [cs_not_wsp Epc] | solve [left; reflexivity] | idtac].
      cs_mid_tinv. rewrite <- Hop. split; [exact T1|]. split; [exact T2|]. split; [exact T3|].
      exists v, e, u. split; [exact Ed|]. split; [reflexivity|]. intros Hs.
      destruct (cs_status_cases cfg s false k f v e u Hcfg I T3 Ed) as [[_ HA]|[Hg [Hp Hc]]]; [left; exact HA|].
      right. rewrite Hs in Hc. split; [|split; [exact Hp|eauto]].
      apply cs_mid_now. cbn [tr_g cs_park]. rewrite Hop in T1. inversion T1. exact Hc.
    + apply cs_park_inv; auto; try discriminate;
        first [solve [unfold cs_lockmove; rewrite Epc; left; split; reflexivity] | solve [cs_not_wsp Epc] | solve [left; reflexivity] | idtac].
      cs_mid_tinv. exists k. split; [rewrite <- Hop; exact T1|]. left. apply (cs_loading_A cfg s k f I T3 Ed).
  - (* LRE, Good *)
    destruct T as [T1 [T2 [T3 [v [e [u [T4 [T5 T6]]]]]]]]. rewrite Hside.
    apply cs_park_inv; auto; try discriminate;
      first [solve [unfold cs_lockmove; rewrite Epc; left; split; reflexivity] | solve [cs_not_wsp Epc] | solve [left; reflexivity] | idtac].
    cs_mid_tinv. exists k. split; [rewrite <- Hop; exact T1|]. apply cs_rd_mid. apply T6.
    unfold cs_err_of in Hside. rewrite T4 in Hside. exact Hside.
  - (* LAU *)
    destruct next as [n|]; [|contradiction]. destruct T as [k [T1 T2]].
    apply cs_park_inv; auto; try discriminate;
      first [solve [unfold cs_lockmove; rewrite Epc; left; split; reflexivity] | solve [cs_not_wsp Epc] | solve [left; reflexivity] | solve [right; rewrite Epc; reflexivity] | idtac].
    cs_mid_tinv. exists k. split; [rewrite <- Hop; exact T1|]. apply cs_pend_mid; [reflexivity|exact T2].
  - (* GAL *)
    destruct (c_lookup (c_map (cs_m s)) k) as [f|] eqn:El.
    + apply cs_park_inv; auto; try discriminate;
        first [solve [unfold cs_lockmove; rewrite Epc; left; split; reflexivity] | solve [cs_not_wsp Epc] | solve [left; reflexivity] | idtac].
      cs_mid_tinv. exists k. split; [rewrite <- Hop; exact T|exact El].
    + apply cs_park_inv; auto; try discriminate;
        first [solve [unfold cs_lockmove; rewrite Epc; right; right; auto] | solve [cs_not_wsp Epc] | solve [left; reflexivity] | idtac].
      cs_mid_tinv. exists k. split; [rewrite <- Hop; exact T|]. apply cs_mid_now. cbn [tr_g cs_park].
      rewrite Hop in T. inversion T. cbn [cs_cand]. unfold c_get2. rewrite <- (si_map _ _ I), El. reflexivity.
  - (* GAU *)
    destruct fo as [f|]; [contradiction|]. destruct T as [k [T1 T2]].
    apply cs_return_inv; auto; [rewrite Epc; reflexivity|cs_not_wsp Epc|].
    apply cs_just_cnd; [right; reflexivity|exact T2].
  - (* GLU *)
    destruct T as [k [T1 T2]]. destruct (cs_fdone (cs_m s) f) as [[[v e] u]|] eqn:Ed.
    + apply cs_park_inv; auto; try discriminate;
        first [solve [unfold cs_lockmove; rewrite Epc; left; split; reflexivity] | solve [cs_not_wsp Epc] | solve [left; reflexivity] | idtac].
      cs_mid_tinv. exists k. split; [rewrite <- Hop; exact T1|]. exists v, e, u. split; [exact Ed|].
      assert (Hopk : op = cs_rdop true k) by (rewrite Hop in T1; inversion T1; reflexivity).
      destruct (cs_status_cases cfg s true k f v e u Hcfg I T2 Ed) as [[Hs HA]|[Hg [Hp Hc]]].
      * rewrite Hs. left. exact HA.
      * rewrite <- Hopk in Hc. apply (cs_mid_now cfg t op (ct_prog t) (cs_park (cs_m s) (cs_lock s) (cs_g s) (ct_lin t) (CsGRE f (c_now (cs_m s) - u)))) in Hc.
        destruct (cs_status_of cfg (c_now (cs_m s) - u) e); try exact Hc.
        right. split; [exact Hc|]. split; [exact Hp|eauto].
    + apply cs_park_inv; auto; try discriminate;
        first [solve [unfold cs_lockmove; rewrite Epc; left; split; reflexivity] | solve [cs_not_wsp Epc] | solve [left; reflexivity] | idtac].
      cs_mid_tinv. exists k. split; [rewrite <- Hop; exact T1|]. left. apply (cs_loading_A cfg s k f I T2 Ed).
  - (* GRE *)
    destruct T as [k [T1 [v [e [u [T2 T3]]]]]]. unfold cs_err_of. rewrite T2.
    destruct (cs_status_of cfg past e) eqn:Es; unfold cs_fetched.
    + apply cs_park_inv; auto; try discriminate;
        first [solve [unfold cs_lockmove; rewrite Epc; right; right; auto] | solve [cs_not_wsp Epc] | solve [left; reflexivity] | idtac].
      cs_mid_tinv. exists k. split; [rewrite <- Hop; exact T1|]. apply cs_mid_cnd. exact T3.
    + apply cs_park_inv; auto; try discriminate;
        first [solve [unfold cs_lockmove; rewrite Epc; left; split; reflexivity] | solve [cs_not_wsp Epc] | solve [left; reflexivity] | idtac].
      cs_mid_tinv. exists k. split; [rewrite <- Hop; exact T1|]. apply cs_rd_mid. exact T3.
    + apply cs_park_inv; auto; try discriminate;
        first [solve [unfold cs_lockmove; rewrite Epc; right; right; auto] | solve [cs_not_wsp Epc] | solve [left; reflexivity] | idtac].
      cs_mid_tinv. split; [discriminate|]. apply cs_mid_cnd. exact T3.
    + apply cs_park_inv; auto; try discriminate;
        first [solve [unfold cs_lockmove; rewrite Epc; right; right; auto] | solve [cs_not_wsp Epc] | solve [left; reflexivity] | idtac].
      cs_mid_tinv. exists k. split; [rewrite <- Hop; exact T1|]. apply cs_mid_cnd. exact T3.
  - (* GFW *)
    destruct (cs_fdone (cs_m s) x) as [[[v e] u]|] eqn:Ed; [|congruence].
    destruct (cs_lockmove_ok cfg s tid t (cs_lock s) CsIdle I Ht) as [H1 H2].
    { left. split; [reflexivity|]. rewrite Epc. reflexivity. }
    apply cs_go_pure; auto; try (left; reflexivity).
    + cs_not_wsp Epc.
    + unfold cs_next. cbn. reflexivity.
    + apply cs_mis_park; [apply (si_mis _ _ I)|reflexivity|reflexivity].
  - (* RLP *)
    destruct T as [k [Hk T]]. destruct (cs_fpred (cs_m s) f) as [p|] eqn:Ep; unfold cs_fetched.
    + apply cs_park_inv; auto; try discriminate;
        first [solve [unfold cs_lockmove; rewrite Epc; left; split; reflexivity] | solve [cs_not_wsp Epc] | solve [left; reflexivity] | idtac].
      cs_mid_tinv. exists k. split; [rewrite <- Hop; exact Hk|]. destruct T as [HA|[_ [H2 _]]]; [|congruence].
      rewrite (cs_mg_pred cfg s f I) in Ep. destruct HA as [Hl [x [Hx Hxd]]].
      assert (Hxp : c_fpred x = Some p). { unfold cs_fpred in Ep. rewrite Hx in Ep. exact Ep. }
      destruct (ci_pred _ _ (si_g _ _ I) f x p Hx Hxp) as [_ [y [v [e [u [Hy [_ [Hyd Hage]]]]]]]].
      assert (Hgp : cs_fdone (cs_g s) p = Some (v, e, u)). { unfold cs_fdone. rewrite Hy. exact Hyd. }
      exists v, e, u. split; [apply (cs_mg_done cfg s p _ I Hgp)|]. split; [exact Hgp|]. split; [exact Hage|].
      left. split; [split; [exact Hl|exists x; auto]|exact Ep].
    + assert (Hj : cs_cnd t (cs_out w f)).
      { destruct T as [HA|[H1 _]]; [|exact H1].
        pose proof (Cn _ _ Hk (cs_cand_A cfg (cs_g s) w k f HA)) as Hc.
        rewrite cs_fetch_nopred in Hc; [exact Hc|]. rewrite <- (cs_mg_pred cfg s f I). exact Ep. }
      apply cs_park_inv; auto; try discriminate;
        first [solve [unfold cs_lockmove; rewrite Epc; right; right; auto] | solve [cs_not_wsp Epc] | solve [left; reflexivity] | idtac].
      cs_mid_tinv. split; [discriminate|]. apply cs_mid_cnd. exact Hj.
  - (* RPU *)
    destruct T as [k [Hk [v [e [u [Hdm [Hdg [Hage Hor]]]]]]]]. rewrite Hdm.
    apply cs_park_inv; auto; try discriminate;
      first [solve [unfold cs_lockmove; rewrite Epc; left; split; reflexivity] | solve [cs_not_wsp Epc] | solve [left; reflexivity] | idtac].
    cs_mid_tinv. split; [discriminate|]. exists v, e, u. split; [exact Hdm|]. apply cs_mid_cnd. rewrite (si_now _ _ I).
    unfold cs_status_of. destruct (c_now (cs_g s) - u <? c_expire cfg e) eqn:E1; [lia|].
    destruct Hor as [[HA Hp]|[Hc Hor]].
    + pose proof (Cn _ _ Hk (cs_cand_A cfg (cs_g s) w k f HA)) as Hc.
      rewrite (cs_fetch_pred cfg (cs_g s) f p v e u Hp Hdg Hage) in Hc.
      destruct (c_now (cs_g s) - u <? 2 * c_expire cfg e); exact Hc.
    + destruct (c_now (cs_g s) - u <? 2 * c_expire cfg e) eqn:E2; [|exact Hc].
      destruct Hor as [Hc'|Hr]; [exact Hc'|lia].
  - (* RPE *)
    destruct T as [_ [v [e [u [Hd Hc]]]]]. unfold cs_err_of. rewrite Hd. unfold cs_fetched.
    destruct (cs_status_of cfg past e);
      (apply cs_park_inv; auto; try discriminate;
        first [solve [unfold cs_lockmove; rewrite Epc; right; right; auto] | solve [cs_not_wsp Epc] | solve [left; reflexivity] | idtac];
       cs_mid_tinv; split; [discriminate|apply cs_mid_cnd; exact Hc]).
  - (* XAU *)
    destruct T as [_ Hc]. unfold cs_fetched_now. destruct w.
    + destruct (cs_lockmove_ok cfg s tid t (cs_lock s) (CsGFW x) I Ht) as [H1 H2].
      { left. split; [reflexivity|]. rewrite Epc. reflexivity. }
      apply cs_go_pure; auto; try (left; reflexivity).
      * cs_not_wsp Epc.
      * rewrite cs_next_mid by discriminate. unfold cs_tinv. rewrite cs_mid_pc, cs_mid_op. cbn. discriminate.
      * eapply cs_mis_ret; [apply (si_mis _ _ I)|reflexivity|reflexivity|].
        apply cs_just_cnd; [left; exists true, x; reflexivity|exact Hc].
    + apply cs_return_inv; auto; [rewrite Epc; reflexivity|cs_not_wsp Epc|].
      apply cs_just_cnd; [left; exists false, x; reflexivity|exact Hc].
  - (* WLD *)
    destruct T as [T0 T1].
    apply cs_park_inv; auto; try discriminate;
      first [solve [unfold cs_lockmove; rewrite Epc; left; split; reflexivity] | solve [cs_not_wsp Epc] | solve [left; reflexivity] | solve [right; rewrite Epc; reflexivity] | idtac].
    cs_mid_tinv. split; [discriminate|]. auto.
Qed.

(* ---------------- helpers for the steps that change memory *)
Lemma cs_wit_keep cfg s tid t op prog r j tj :
  nth_error (cs_thr s) tid = Some t -> nth_error (cs_thr s) j = Some tj -> j <> tid ->
  nth_error (cs_thr (fst (cs_go cfg s tid t op prog r))) j = Some (cs_note cfg (tr_g r) tj).
Proof.
  intros Ht Hj Hne. rewrite cs_go_thr, (cs_thr_nth cfg s tid t _ _ j Ht). apply Nat.eqb_neq in Hne. rewrite Hne, Hj. reflexivity.
Qed.
Lemma cs_wit_self cfg s tid t op prog r :
  nth_error (cs_thr s) tid = Some t ->
  nth_error (cs_thr (fst (cs_go cfg s tid t op prog r))) tid = Some (cs_next cfg t op prog r).
Proof. intros Ht. rewrite cs_go_thr, (cs_thr_nth cfg s tid t _ _ tid Ht), Nat.eqb_refl. reflexivity. Qed.

Definition cs_futrel (s : cs_state) : Prop :=
  forall f x, c_get (c_futs (cs_m s)) f = Some x ->
      exists y, c_get (c_futs (cs_g s)) f = Some y /\ c_fkey y = c_fkey x /\ c_fpred y = c_fpred x /\
        (c_fdone y = c_fdone x \/
         (c_fdone y = None /\ exists tid t v e, nth_error (cs_thr s) tid = Some t /\
            ct_pc t = CsWSP f v e (c_now (cs_m s)) /\ c_fdone x = Some (v, e, c_now (cs_m s)))).

(* the same future appended to both arenas *)
Lemma cs_fut_new cfg s tid t op prog r xnew :
  cs_inv cfg s -> nth_error (cs_thr s) tid = Some t -> (forall f v e n, ct_pc t <> CsWSP f v e n) ->
  c_futs (tr_m r) = c_futs (cs_m s) ++ [xnew] -> c_futs (tr_g r) = c_futs (cs_g s) ++ [xnew] ->
  c_now (tr_m r) = c_now (cs_m s) ->
  cs_futrel (fst (cs_go cfg s tid t op prog r)).
Proof.
  intros I Ht Hpc Hfm Hfg Hn f x Hx. change (cs_m (fst (cs_go cfg s tid t op prog r))) with (tr_m r) in *.
  change (cs_g (fst (cs_go cfg s tid t op prog r))) with (tr_g r). rewrite Hfm in Hx. rewrite Hfg, Hn.
  apply c_get_app_inv in Hx. destruct Hx as [Hx|[Hf Hxx]].
  - destruct (si_fut _ _ I f x Hx) as [y [Hy [Hk [Hp Hd]]]]. exists y. split; [apply c_get_app_old; exact Hy|].
    split; [exact Hk|]. split; [exact Hp|].
    destruct Hd as [Hd|[Hd [j [tj [v [e [Hj [Hpcj Hdx]]]]]]]]; [left; exact Hd|right].
    split; [exact Hd|]. exists j, (cs_note cfg (tr_g r) tj), v, e.
    assert (Hne : j <> tid). { intros ->. rewrite Ht in Hj. inversion Hj; subst. exact (Hpc _ _ _ _ Hpcj). }
    split; [apply cs_wit_keep; auto|]. rewrite cs_note_pc. auto.
  - subst. exists xnew. rewrite (si_len _ _ I). split; [apply c_get_app_new|]. auto.
Qed.

Lemma cs_queue_range cfg s f : cs_inv cfg s -> In f (c_queue (cs_m s)) -> (f < length (c_futs (cs_m s)))%nat.
Proof.
  intros I H. apply (si_queue _ _ I) in H. rewrite (si_len _ _ I). apply c_isload_lt.
  apply (ci_jobs _ _ (si_g _ _ I)). apply in_or_app. left. exact H.
Qed.

Lemma cs_load_eq cfg g k f v e u :
  c_lookup (c_map g) k = Some f -> cs_fdone g f = Some (v, e, u) ->
  cs_status_of cfg (c_now g - u) e <> CGood ->
  c_load cfg g k =
    match cs_status_of cfg (c_now g - u) e with
    | CExpired => (c_new_job g k (Some f), OLoad f true)
    | _ => (c_new_job g k None, OLoad (length (c_futs g)) true)
    end.
Proof.
  intros Hl Hd Hs. destruct (cs_fdone_get _ _ _ Hd) as [x [Hx Hxd]]. unfold c_load. rewrite Hl.
  rewrite (cs_status_of_g cfg (c_now g) (c_futs g) f x v e u Hx Hxd).
  destruct (cs_status_of cfg (c_now g - u) e) eqn:E; try reflexivity; congruence.
Qed.

(* the job-creating decision of Load: both memories get the new entry *)
Lemma cs_create_inv cfg s tid t op k st last pred o :
  c_cfg_ok cfg -> cs_inv cfg s -> nth_error (cs_thr s) tid = Some t -> ct_op t = Some op -> op = CsLoad k ->
  ct_pc t = CsLAL k \/ (exists f past, ct_pc t = CsLRE k f past) ->
  st <> CGood -> (forall f, ~ cs_A (cs_g s) k f) ->
  c_load cfg (cs_g s) k = (c_new_job (cs_g s) k pred, o) ->
  o = OLoad (match st, last with CExpired, Some f => f | _, _ => length (c_futs (cs_m s)) end) true ->
  let r := {| tr_m := cs_new_entry (cs_m s) k pred; tr_lock := None; tr_g := c_new_job (cs_g s) k pred; tr_emit := [CLoad k];
              tr_pc := CsLAU st last (Some (length (c_futs (cs_m s)))); tr_ev := CsEvYield 3 None; tr_lin := Some o;
              tr_ret := None; tr_chk := None |} in
  cs_inv cfg (fst (cs_go cfg s tid t op (ct_prog t) r)).
Proof.
  intros Hcfg I Ht Hop Hopk Hpc Hst Hno Hload Ho r.
  destruct (cs_thr_facts cfg s tid t I Ht) as [T [Cn [Cp Co]]].
  assert (Hh : cs_holds (ct_pc t) = true). { destruct Hpc as [->|[f [past ->]]]; reflexivity. }
  assert (Hnw : forall f v e n, ct_pc t <> CsWSP f v e n). { intros f v e n. destruct Hpc as [->|[f0 [past ->]]]; discriminate. }
  assert (Hlk : cs_lock s = Some tid). { apply (si_lock _ _ I tid t Ht). exact Hh. }
  assert (Ig' : c_inv cfg (c_new_job (cs_g s) k pred)).
  { pose proof (c_inv_step cfg (cs_g s) (CLoad k) (si_g _ _ I)) as H. cbn [c_step] in H. rewrite Hload in H. exact H. }
  apply (cs_go_inv cfg s tid t op (ct_prog t) r None None Hcfg I Ht); unfold r; cbn [tr_m tr_g tr_lock tr_pc tr_ret tr_chk tr_lin].
  - apply cs_ext_new. exact Hno.
  - exact Ig'.
  - cbn. apply (si_nodisp _ _ I).
  - reflexivity.
  - reflexivity.
  - cbn. rewrite (si_map _ _ I), (si_len _ _ I). reflexivity.
  - cbn. rewrite !app_length, (si_len _ _ I). reflexivity.
  - apply (cs_fut_new cfg s tid t op (ct_prog t) r {| c_fkey := k; c_fdone := None; c_fpred := pred |} I Ht Hnw); reflexivity.
  - cbn. intros f H. apply in_or_app. left. apply (si_queue _ _ I). exact H.
  - cbn. apply (si_qnodup _ _ I).
  - right. right. auto.
  - cbn. split; discriminate.
  - right. exact Hlk.
  - left. reflexivity.
  - left. reflexivity.
  - rewrite cs_next_mid by (cbn; discriminate). unfold cs_tinv. rewrite cs_mid_pc, cs_mid_op, cs_mid_lin. cbn [tr_pc tr_lin].
    exists k. split; [rewrite Hopk; reflexivity|]. unfold cs_pend. rewrite cs_mid_lin. cbn [tr_lin tr_m tr_g c_queue c_futs cs_new_entry c_new_job cs_with].
    split; [exact Hst|]. split; [rewrite Ho; reflexivity|]. split; [apply in_or_app; right; rewrite (si_len _ _ I); left; reflexivity|].
    split; [intros H; apply (cs_queue_range cfg s _ I) in H; lia|rewrite app_length; cbn; lia].
  - exact Cp.
  - apply Co. exact Hop.
  - cbn. discriminate.
  - cbn. intros n Hn j tj Hne Hj Hc. inversion Hn; subst n.
    destruct (si_thr _ _ I j tj Hj) as [Tj _]. unfold cs_tinv in Tj.
    destruct (ct_pc tj); try discriminate Hc.
    + destruct next as [n'|]; [|discriminate]. inversion Hc; subst. destruct Tj as [k0 [_ [_ [_ [_ [_ H]]]]]]. lia.
    + inversion Hc; subst. destruct Tj as [k0 [_ [_ [_ [_ [_ H]]]]]]. lia.
  - apply cs_mis_park; [apply (si_mis _ _ I)|reflexivity|reflexivity].
Qed.

Lemma cs_step_create cfg s tid t op :
  c_cfg_ok cfg -> cs_inv cfg s -> nth_error (cs_thr s) tid = Some t -> ct_op t = Some op ->
  match ct_pc t with
  | CsLAL k => c_lookup (c_map (cs_m s)) k = None
  | CsLRE k f past => cs_status_of cfg past (cs_err_of (cs_m s) f) <> CGood
  | _ => False
  end ->
  cs_inv cfg (fst (cs_go cfg s tid t op (ct_prog t) (cs_tstep CsFixed cfg s tid t))).
Proof.
  intros Hcfg I Ht Hop Hside. destruct (cs_thr_facts cfg s tid t I Ht) as [T [Cn [Cp Co]]]. unfold cs_tinv in T.
  destruct (ct_pc t) eqn:Epc; try contradiction; unfold cs_tstep; rewrite Epc; cbv zeta.
  - (* LAL, absent *)
    destruct T as [T1 T2]. rewrite Hside. unfold cs_lin_load.
    assert (Hg : c_lookup (c_map (cs_g s)) k = None) by (rewrite <- (si_map _ _ I); exact Hside).
    assert (Hload : c_load cfg (cs_g s) k = (c_new_job (cs_g s) k None, OLoad (length (c_futs (cs_g s))) true)).
    { unfold c_load. rewrite Hg. reflexivity. }
    rewrite Hload.
    apply (cs_create_inv cfg s tid t op k CEmpty None None _ Hcfg I Ht Hop); auto;
      first [solve [rewrite Hop in T1; inversion T1; reflexivity] | solve [discriminate]
            | solve [intros f [Hl _]; congruence] | solve [rewrite (si_len _ _ I); reflexivity]].
  - (* LRE, not Good *)
    destruct T as [T1 [T2 [T3 [v [e [u [T4 [T5 T6]]]]]]]]. unfold cs_err_of in *. rewrite T4 in *.
    destruct (cs_lookup_facts cfg s k f I T3) as [Hg _].
    destruct (cs_status_cases cfg s false k f v e u Hcfg I T3 T4) as [[Hs _]|[Hgd _]]; [rewrite <- T5 in Hs; congruence|].
    assert (Hload := cs_load_eq cfg (cs_g s) k f v e u Hg Hgd). rewrite <- (si_now _ _ I), <- T5 in Hload.
    specialize (Hload Hside). unfold cs_lin_load.
    assert (HnoA : forall f0, ~ cs_A (cs_g s) k f0).
    { intros f0 [Hl Hi]. rewrite Hg in Hl. inversion Hl; subst f0. apply cs_isload_fdone in Hi. congruence. }
    assert (Hopk : op = CsLoad k) by (rewrite Hop in T1; inversion T1; reflexivity).
    destruct (cs_status_of cfg past e) eqn:Es; try congruence;
      [exfalso; exact (cs_status_of_nonempty _ _ _ Es)| |]; rewrite Hload.
    + apply (cs_create_inv cfg s tid t op k CExpired (Some f) (Some f) _ Hcfg I Ht Hop Hopk); auto;
        first [solve [right; eauto] | solve [discriminate] | solve [rewrite (si_len _ _ I); reflexivity]].
    + apply (cs_create_inv cfg s tid t op k CRotted (Some f) None _ Hcfg I Ht Hop Hopk); auto;
        first [solve [right; eauto] | solve [discriminate] | solve [rewrite (si_len _ _ I); reflexivity]].
Qed.

Lemma NoDup_app_intro_single {A} (l : list A) x : NoDup l -> ~ In x l -> NoDup (l ++ [x]).
Proof.
  intros Hn Hx. induction l as [|a r IH]; cbn; [constructor; [intros []|constructor]|].
  inversion Hn; subst. constructor.
  - intros H. apply in_app_or in H. destruct H as [H|[H|[]]]; [contradiction|]. subst. apply Hx. left. reflexivity.
  - apply IH; [assumption|]. intros H. apply Hx. right. exact H.
Qed.

(* ---------------- sendJob *)
Lemma cs_step_send cfg s tid t op st last n :
  c_cfg_ok cfg -> cs_inv cfg s -> nth_error (cs_thr s) tid = Some t -> ct_op t = Some op -> ct_pc t = CsLSJ st last n ->
  cs_inv cfg (fst (cs_go cfg s tid t op (ct_prog t) (cs_tstep CsFixed cfg s tid t))).
Proof.
  intros Hcfg I Ht Hop Epc. destruct (cs_thr_facts cfg s tid t I Ht) as [T [Cn [Cp Co]]]. unfold cs_tinv in T.
  unfold cs_tstep. rewrite Epc in *. cbv zeta. destruct T as [k [T1 [P1 [P2 [P3 [P4 P5]]]]]].
  set (rr := match st, last with CExpired, Some f => f | _, _ => n end) in *.
  assert (Hh : (false = true <-> cs_lock s = Some tid)).
  { split; [discriminate|]. intros H. apply (si_lock _ _ I tid t Ht) in H. rewrite Epc in H. discriminate. }
  apply (cs_go_inv cfg s tid t op (ct_prog t) _ (Some n) None Hcfg I Ht); unfold cs_return; cbn [tr_m tr_g tr_lock tr_pc tr_ret tr_chk tr_lin].
  - apply cs_ext_enqueue.
  - apply (si_g _ _ I).
  - apply (si_nodisp _ _ I).
  - reflexivity.
  - reflexivity.
  - cbn. apply (si_map _ _ I).
  - cbn. apply (si_len _ _ I).
  - apply cs_fut_keep; auto; try reflexivity. intros f v e n0. rewrite Epc. discriminate.
  - cbn. intros f H. apply in_app_or in H. destruct H as [H|[<-|[]]]; [apply (si_queue _ _ I); exact H|exact P3].
  - cbn. apply NoDup_app_intro_single; [apply (si_qnodup _ _ I)|exact P4].
  - left. reflexivity.
  - cbn. exact Hh.
  - left. reflexivity.
  - right. rewrite Epc. reflexivity.
  - left. reflexivity.
  - unfold cs_next. cbn. reflexivity.
  - exact Cp.
  - apply Co. exact Hop.
  - cbn. discriminate.
  - cbn. discriminate.
  - eapply cs_mis_ret; [apply (si_mis _ _ I)|reflexivity|reflexivity|].
    cbn [cs_justified]. rewrite cs_mid_lin. cbn [tr_lin]. rewrite P2. apply cs_out_eqb_spec. reflexivity.
Qed.

(* ---------------- the worker's stores *)
Lemma cs_worker_loading cfg s tid t f :
  cs_inv cfg s -> nth_error (cs_thr s) tid = Some t -> cs_wfut (ct_pc t) = Some f ->
  (forall v e n, ct_pc t <> CsWSP f v e n) -> In f (c_running (cs_g s)) ->
  c_isload (c_futs (cs_g s)) f /\ exists x, c_get (c_futs (cs_m s)) f = Some x /\ c_fdone x = None.
Proof.
  intros I Ht Hw Hpc Hin.
  assert (Hi : c_isload (c_futs (cs_g s)) f). { apply (ci_jobs _ _ (si_g _ _ I)). apply in_or_app. right. exact Hin. }
  split; [exact Hi|]. destruct Hi as [y [Hy Hyd]]. pose proof (c_get_lt _ _ _ Hy) as Hlt. rewrite <- (si_len _ _ I) in Hlt.
  destruct (c_get (c_futs (cs_m s)) f) as [x|] eqn:Ex; [|unfold c_get in Ex; apply nth_error_None in Ex; lia].
  exists x. split; [reflexivity|]. destruct (si_fut _ _ I f x Ex) as [y' [Hy' [_ [_ Hd]]]]. rewrite Hy in Hy'. inversion Hy'; subst y'.
  destruct Hd as [Hd|[_ [j [tj [v [e [Hj [Hpcj _]]]]]]]]; [congruence|].
  assert (j = tid). { eapply (si_wuniq _ _ I j tid tj t f Hj Ht); [rewrite Hpcj; reflexivity|exact Hw]. }
  subst j. rewrite Ht in Hj. inversion Hj; subst tj. exfalso. exact (Hpc _ _ _ Hpcj).
Qed.

(* one future changes in memory (and possibly in the ghost) *)
Lemma cs_fut_set cfg s tid t op prog r f x y x' y' :
  cs_inv cfg s -> nth_error (cs_thr s) tid = Some t ->
  c_get (c_futs (cs_m s)) f = Some x -> c_get (c_futs (cs_g s)) f = Some y ->
  c_futs (tr_m r) = c_setfut (c_futs (cs_m s)) f x' ->
  (c_futs (tr_g r) = c_setfut (c_futs (cs_g s)) f y' \/ (c_futs (tr_g r) = c_futs (cs_g s) /\ y' = y)) ->
  c_now (tr_m r) = c_now (cs_m s) ->
  (c_fkey y' = c_fkey x' /\ c_fpred y' = c_fpred x' /\
   (c_fdone y' = c_fdone x' \/
    (c_fdone y' = None /\ exists v e, tr_pc r = CsWSP f v e (c_now (cs_m s)) /\ c_fdone x' = Some (v, e, c_now (cs_m s))))) ->
  (forall f' v e n, ct_pc t = CsWSP f' v e n -> f' = f) ->
  cs_futrel (fst (cs_go cfg s tid t op prog r)).
Proof.
  intros I Ht Hx Hy Hfm Hfg Hn Hf Hoth f0 x0 Hx0.
  change (cs_m (fst (cs_go cfg s tid t op prog r))) with (tr_m r) in *.
  change (cs_g (fst (cs_go cfg s tid t op prog r))) with (tr_g r).
  pose proof (c_get_lt _ _ _ Hx) as Hltm. pose proof (c_get_lt _ _ _ Hy) as Hltg.
  rewrite Hfm, c_get_setfut in Hx0 by exact Hltm. rewrite Hn.
  assert (Hgy : forall g0, c_get (c_futs (tr_g r)) g0 = if Nat.eqb g0 f then Some y' else c_get (c_futs (cs_g s)) g0).
  { intros g0. destruct Hfg as [Hfg|[Hfg ->]]; rewrite Hfg.
    - apply c_get_setfut. exact Hltg.
    - destruct (Nat.eqb g0 f) eqn:E; [apply Nat.eqb_eq in E; subst; exact Hy|reflexivity]. }
  rewrite Hgy. destruct (Nat.eqb f0 f) eqn:E.
  - apply Nat.eqb_eq in E. subst f0. inversion Hx0; subst x0. exists y'. split; [reflexivity|].
    destruct Hf as [Hk [Hp Hd]]. split; [exact Hk|]. split; [exact Hp|].
    destruct Hd as [Hd|[Hd [v [e [Hpc Hdx]]]]]; [left; exact Hd|right]. split; [exact Hd|].
    exists tid, (cs_next cfg t op prog r), v, e. split; [apply cs_wit_self; exact Ht|]. rewrite cs_next_pc. auto.
  - destruct (si_fut _ _ I f0 x0 Hx0) as [y0 [Hy0 [Hk [Hp Hd]]]]. exists y0. split; [exact Hy0|]. split; [exact Hk|]. split; [exact Hp|].
    destruct Hd as [Hd|[Hd [j [tj [v0 [e0 [Hj [Hpcj Hdx]]]]]]]]; [left; exact Hd|right]. split; [exact Hd|].
    exists j, (cs_note cfg (tr_g r) tj), v0, e0.
    assert (Hne : j <> tid).
    { intros ->. rewrite Ht in Hj. inversion Hj; subst tj. apply Nat.eqb_neq in E. apply E. eapply Hoth; eauto. }
    split; [apply (cs_wit_keep cfg s tid t op prog r j tj Ht Hj Hne)|]. rewrite cs_note_pc. auto.
Qed.

Lemma cs_step_store_done cfg s tid t op f v e now :
  c_cfg_ok cfg -> cs_inv cfg s -> nth_error (cs_thr s) tid = Some t -> ct_op t = Some op -> ct_pc t = CsWSU f v e now ->
  cs_inv cfg (fst (cs_go cfg s tid t op (ct_prog t) (cs_tstep CsFixed cfg s tid t))).
Proof.
  intros Hcfg I Ht Hop Epc. destruct (cs_thr_facts cfg s tid t I Ht) as [T [Cn [Cp Co]]]. unfold cs_tinv in T.
  rewrite Epc in T. destruct T as [T0 [T1 T2]]. subst now.
  destruct (cs_worker_loading cfg s tid t f I Ht) as [Hil [x [Hx Hxd]]]; [rewrite Epc; reflexivity|intros v0 e0 n0; rewrite Epc; discriminate|exact T1|].
  pose proof (c_get_lt _ _ _ Hx) as Hlt. destruct Hil as [y [Hy Hyd]].
  unfold cs_tstep. rewrite Epc. cbv zeta.
  assert (Hh : (false = true <-> cs_lock s = Some tid)).
  { split; [discriminate|]. intros H. apply (si_lock _ _ I tid t Ht) in H. rewrite Epc in H. discriminate. }
  assert (Hsd : cs_store_done (cs_m s) f (v, e, c_now (cs_m s)) =
                cs_with (cs_m s) (c_setfut (c_futs (cs_m s)) f {| c_fkey := c_fkey x; c_fdone := Some (v, e, c_now (cs_m s)); c_fpred := c_fpred x |})
                  (c_map (cs_m s)) (c_queue (cs_m s)) (c_running (cs_m s))).
  { unfold cs_store_done. rewrite Hx. reflexivity. }
  apply (cs_go_inv cfg s tid t op (ct_prog t) _ None None Hcfg I Ht); unfold cs_park; cbn [tr_m tr_g tr_lock tr_pc tr_ret tr_chk tr_lin].
  - eapply cs_ext_store_done; eauto.
  - apply (si_g _ _ I).
  - apply (si_nodisp _ _ I).
  - rewrite Hsd. reflexivity.
  - reflexivity.
  - rewrite Hsd. cbn. apply (si_map _ _ I).
  - rewrite Hsd. cbn. rewrite c_setfut_length by exact Hlt. apply (si_len _ _ I).
  - eapply (cs_fut_set cfg s tid t op (ct_prog t) _ f x y _ y I Ht Hx Hy); cbn [tr_m tr_g tr_pc].
    + rewrite Hsd. reflexivity.
    + right. split; reflexivity.
    + rewrite Hsd. reflexivity.
    + cbn [c_fkey c_fpred c_fdone]. destruct (si_fut _ _ I f x Hx) as [y0 [Hy0 [Hk [Hp _]]]]. rewrite Hy in Hy0. inversion Hy0; subst y0.
      split; [exact Hk|]. split; [exact Hp|]. right. split; [exact Hyd|]. eauto.
    + intros f' v0 e0 n0 H. rewrite Epc in H. discriminate.
  - rewrite Hsd. cbn. apply (si_queue _ _ I).
  - rewrite Hsd. cbn. apply (si_qnodup _ _ I).
  - left. reflexivity.
  - cbn. exact Hh.
  - left. rewrite Hsd. reflexivity.
  - left. reflexivity.
  - left. reflexivity.
  - rewrite cs_next_mid by (cbn; discriminate). unfold cs_tinv. rewrite cs_mid_pc, cs_mid_op. cbn [tr_pc].
    split; [discriminate|]. split; [exact T1|]. rewrite Hsd. cbn [c_now cs_with]. split; [reflexivity|].
    unfold cs_fdone, cs_with. cbn [c_futs]. rewrite c_get_setfut by exact Hlt. rewrite Nat.eqb_refl. reflexivity.
  - exact Cp.
  - apply Co. exact Hop.
  - cbn. intros f0 Hf0 j tj Hne Hj Hc. inversion Hf0; subst f0. apply Hne.
    eapply (si_wuniq _ _ I j tid tj t f); eauto. rewrite Epc. reflexivity.
  - cbn. discriminate.
  - apply cs_mis_park; [apply (si_mis _ _ I)|reflexivity|reflexivity].
Qed.

Lemma cs_mis_ret_chk cfg s tid t op prog r res o :
  cs_mis s = false -> tr_ret r = Some (res, o) -> tr_chk r = Some o ->
  cs_justified (cs_mid cfg t op prog r) o = true -> cs_mis (fst (cs_go cfg s tid t op prog r)) = false.
Proof.
  intros H H1 H2 H3. unfold cs_go. cbn [fst cs_mis]. fold (cs_mid cfg t op prog r). rewrite H, H1, H2, H3.
  assert (E : cs_out_eqb o o = true) by (apply cs_out_eqb_spec; reflexivity). rewrite E. reflexivity.
Qed.

Lemma cs_step_store_pred cfg s tid t op f v e now :
  c_cfg_ok cfg -> cs_inv cfg s -> nth_error (cs_thr s) tid = Some t -> ct_op t = Some op -> ct_pc t = CsWSP f v e now ->
  cs_inv cfg (fst (cs_go cfg s tid t op (ct_prog t) (cs_tstep CsFixed cfg s tid t))).
Proof.
  intros Hcfg I Ht Hop Epc. destruct (cs_thr_facts cfg s tid t I Ht) as [T [Cn [Cp Co]]]. unfold cs_tinv in T.
  rewrite Epc in T. destruct T as [T0 [T1 [T2 T3]]]. subst now.
  pose proof (si_g _ _ I) as Ig.
  assert (Hil : c_isload (c_futs (cs_g s)) f). { apply (ci_jobs _ _ Ig). apply in_or_app. right. exact T1. }
  destruct Hil as [y [Hy Hyd]]. destruct (cs_fdone_get _ _ _ T3) as [x [Hx Hxd]].
  pose proof (c_get_lt _ _ _ Hx) as Hltm. pose proof (c_get_lt _ _ _ Hy) as Hltg.
  destruct (si_fut _ _ I f x Hx) as [y0 [Hy0 [Hk [Hp _]]]]. rewrite Hy in Hy0. inversion Hy0; subst y0.
  set (k := cs_fkey (cs_g s) f).
  assert (Hkey : c_key_is (c_futs (cs_g s)) k f = true).
  { unfold c_key_is, k, cs_fkey. rewrite Hy. apply Z.eqb_refl. }
  destruct (cs_rank_take (c_key_is (c_futs (cs_g s)) k) f (c_running (cs_g s)) T1 Hkey) as [r' Hr'].
  set (g' := {| c_now := c_now (cs_g s);
                c_futs := c_setfut (c_futs (cs_g s)) f {| c_fkey := k; c_fdone := Some (v, e, c_now (cs_g s)); c_fpred := None |};
                c_map := c_map (cs_g s); c_queue := c_queue (cs_g s); c_running := r'; c_displaced := c_displaced (cs_g s) |}).
  assert (Hfin : c_finish (cs_g s) k (cs_rank (c_key_is (c_futs (cs_g s)) k) f (c_running (cs_g s))) v e = (g', OFinish f)).
  { unfold c_finish. rewrite Hr'. reflexivity. }
  unfold cs_tstep. rewrite Epc. cbv zeta. fold k. rewrite Hfin.
  assert (Hh : (false = true <-> cs_lock s = Some tid)).
  { split; [discriminate|]. intros H. apply (si_lock _ _ I tid t Ht) in H. rewrite Epc in H. discriminate. }
  assert (Hsp : cs_store_pred_nil (cs_m s) f =
                cs_with (cs_m s) (c_setfut (c_futs (cs_m s)) f {| c_fkey := c_fkey x; c_fdone := c_fdone x; c_fpred := None |})
                  (c_map (cs_m s)) (c_queue (cs_m s)) (c_running (cs_m s))).
  { unfold cs_store_pred_nil. rewrite Hx. reflexivity. }
  apply (cs_go_inv cfg s tid t op (ct_prog t) _ None (Some f) Hcfg I Ht); cbn [tr_m tr_g tr_lock tr_pc tr_ret tr_chk tr_lin].
  - eapply (cs_ext_finish cfg (cs_m s) (cs_g s) f x v e k _ g' Ig (si_now _ _ I) Hx Hxd); [exists y; auto|exact Hfin].
  - eapply c_inv_finish; [exact Ig|exact Hfin].
  - cbn. apply (si_nodisp _ _ I).
  - rewrite Hsp. reflexivity.
  - reflexivity.
  - rewrite Hsp. cbn. apply (si_map _ _ I).
  - rewrite Hsp. cbn. rewrite !c_setfut_length by assumption. apply (si_len _ _ I).
  - eapply (cs_fut_set cfg s tid t op (ct_prog t) _ f x y _ _ I Ht Hx Hy); cbn [tr_m tr_g tr_pc].
    + rewrite Hsp. reflexivity.
    + left. reflexivity.
    + rewrite Hsp. reflexivity.
    + cbn [c_fkey c_fpred c_fdone]. split; [unfold k, cs_fkey; rewrite Hy; exact Hk|]. split; [reflexivity|].
      left. rewrite Hxd, (si_now _ _ I). reflexivity.
    + intros f' v0 e0 n0 H. rewrite Epc in H. inversion H. reflexivity.
  - rewrite Hsp. cbn. apply (si_queue _ _ I).
  - rewrite Hsp. cbn. apply (si_qnodup _ _ I).
  - left. reflexivity.
  - cbn. exact Hh.
  - left. rewrite Hsp. reflexivity.
  - left. reflexivity.
  - right. rewrite Epc. reflexivity.
  - unfold cs_next. cbn. reflexivity.
  - exact Cp.
  - apply Co. exact Hop.
  - cbn. discriminate.
  - cbn. discriminate.
  - eapply cs_mis_ret_chk; [apply (si_mis _ _ I)|reflexivity|reflexivity|reflexivity].
Qed.

Lemma cs_nodup_app_disj {A} (a b : list A) x : NoDup (a ++ b) -> In x a -> In x b -> False.
Proof.
  induction a as [|y r IH]; cbn; intros Hn Ha Hb; [destruct Ha|]. inversion Hn; subst.
  destruct Ha as [->|Ha]; [apply H1; apply in_or_app; right; exact Hb|]. exact (IH H2 Ha Hb).
Qed.

(* ---------------- first step of a call *)
Lemma cs_take_first_ex p (l : list nat) f : In f l -> p f = true -> exists f' l', c_take_first p l = Some (f', l').
Proof.
  induction l as [|a r IH]; intros Hin Hp; [destruct Hin|]. cbn [c_take_first]. destruct (p a) eqn:E; [eauto|].
  destruct Hin as [->|Hin]; [congruence|]. destruct (IH Hin Hp) as [f' [l' H]]. rewrite H. eauto.
Qed.

Lemma cs_step_start cfg s tid t op rest :
  c_cfg_ok cfg -> cs_inv cfg s -> nth_error (cs_thr s) tid = Some t -> ct_op t = None -> ct_prog t = op :: rest ->
  cs_inv cfg (fst (cs_go cfg s tid t op rest (cs_tstart cfg s op))).
Proof.
  intros Hcfg I Ht Hop Hprog. destruct (si_thr _ _ I tid t Ht) as [T [Cn [Cp _]]].
  rewrite Hprog in Cp. cbn [forallb] in Cp. apply andb_true_iff in Cp. destruct Cp as [Hco Hcr].
  assert (Hidle : cs_holds (ct_pc t) = false /\ cs_wfut (ct_pc t) = None /\ cs_pnext (ct_pc t) = None /\ forall f v e n, ct_pc t <> CsWSP f v e n).
  { unfold cs_tinv in T. destruct (ct_pc t) eqn:E; repeat split; try reflexivity; try discriminate;
      try (exfalso; repeat match goal with H : exists _, _ |- _ => destruct H | H : _ /\ _ |- _ => destruct H end; congruence).
    all: try (destruct next; [exfalso; repeat match goal with H : exists _, _ |- _ => destruct H | H : _ /\ _ |- _ => destruct H end; congruence|contradiction]).
    all: try (destruct fo; [contradiction|exfalso; repeat match goal with H : exists _, _ |- _ => destruct H | H : _ /\ _ |- _ => destruct H end; congruence]).
    all: try contradiction. }
  destruct Hidle as [Hh [Hw0 [Hp0 Hnw]]].
  assert (Hlk2 : false = true <-> cs_lock s = Some tid).
  { split; [discriminate|]. intros H. apply (si_lock _ _ I tid t Ht) in H. congruence. }
  destruct op as [k|k|k v e|v e|]; try discriminate Hco; unfold cs_tstart; cbv zeta.
  - (* Load *)
    apply cs_go_pure; auto; unfold cs_park; cbn [tr_m tr_g tr_lock tr_pc tr_ret tr_chk tr_lin cs_holds cs_wfut cs_pnext]; auto.
    + rewrite cs_next_mid by (cbn; discriminate). unfold cs_tinv. rewrite cs_mid_pc, cs_mid_op, cs_mid_lin. cbn. auto.
    + apply cs_mis_park; [apply (si_mis _ _ I)|reflexivity|reflexivity].
  - (* Get2 *)
    apply cs_go_pure; auto; unfold cs_park; cbn [tr_m tr_g tr_lock tr_pc tr_ret tr_chk tr_lin cs_holds cs_wfut cs_pnext]; auto.
    + rewrite cs_next_mid by (cbn; discriminate). unfold cs_tinv. rewrite cs_mid_pc, cs_mid_op. cbn. auto.
    + apply cs_mis_park; [apply (si_mis _ _ I)|reflexivity|reflexivity].
  - (* worker *)
    destruct (c_queue (cs_m s)) as [|f q] eqn:Eq.
    + apply cs_go_pure; auto; unfold cs_return; cbn [tr_m tr_g tr_lock tr_pc tr_ret tr_chk tr_lin cs_holds cs_wfut cs_pnext]; auto.
      * unfold cs_next. cbn. reflexivity.
      * eapply cs_mis_ret; [apply (si_mis _ _ I)|reflexivity|reflexivity|reflexivity].
    + pose proof (si_g _ _ I) as Ig.
      assert (Hfq : In f (c_queue (cs_g s))). { apply (si_queue _ _ I). rewrite Eq. left. reflexivity. }
      assert (Hil : c_isload (c_futs (cs_g s)) f). { apply (ci_jobs _ _ Ig). apply in_or_app. left. exact Hfq. }
      destruct Hil as [y [Hy Hyd]]. set (k := cs_fkey (cs_g s) f).
      assert (Hkey : c_key_is (c_futs (cs_g s)) k f = true). { unfold c_key_is, k, cs_fkey. rewrite Hy. apply Z.eqb_refl. }
      destruct (cs_take_first_ex _ _ f Hfq Hkey) as [f' [q' Htf]].
      assert (Hf' : f' = f).
      { destruct (c_take_first_spec _ _ _ _ Htf) as [HP Hk']. apply c_key_is_spec in Hk'. destruct Hk' as [y' [Hy' Hky']].
        assert (Hin' : In f' (c_queue (cs_g s))). { eapply Permutation_in; [apply Permutation_sym; exact HP|left; reflexivity]. }
        assert (Hil' : c_isload (c_futs (cs_g s)) f'). { apply (ci_jobs _ _ Ig). apply in_or_app. left. exact Hin'. }
        destruct Hil' as [y'' [Hy'' Hyd'']]. rewrite Hy' in Hy''. inversion Hy''; subst y''.
        destruct (ci_current _ _ Ig f y Hy Hyd) as [Hd|Hc]; [rewrite (si_nodisp _ _ I) in Hd; destruct Hd|].
        destruct (ci_current _ _ Ig f' y' Hy' Hyd'') as [Hd|Hc']; [rewrite (si_nodisp _ _ I) in Hd; destruct Hd|].
        assert (c_fkey y = k) by (unfold k, cs_fkey; rewrite Hy; reflexivity). congruence. }
      subst f'.
      assert (Hst : c_start (cs_g s) k =
                ({| c_now := c_now (cs_g s); c_futs := c_futs (cs_g s); c_map := c_map (cs_g s); c_queue := q';
                    c_running := c_running (cs_g s) ++ [f]; c_displaced := c_displaced (cs_g s) |}, OStart f)).
      { unfold c_start. rewrite Htf. reflexivity. }
      fold k. rewrite Hst. rewrite Nat.eqb_refl.
      destruct (c_take_first_spec _ _ _ _ Htf) as [HP _].
      pose proof (si_qnodup _ _ I) as Hnd. rewrite Eq in Hnd. inversion Hnd as [|? ? Hnf Hndq]; subst.
      apply (cs_go_inv cfg s tid t (CsFinish v e) rest _ None None Hcfg I Ht); cbn [tr_m tr_g tr_lock tr_pc tr_ret tr_chk tr_lin].
      * eapply cs_ext_start; eauto.
      * eapply c_inv_start; [exact Ig|exact Hst].
      * cbn. apply (si_nodisp _ _ I).
      * reflexivity.
      * reflexivity.
      * cbn. apply (si_map _ _ I).
      * cbn. apply (si_len _ _ I).
      * apply cs_fut_keep; auto; reflexivity.
      * cbn. intros f0 Hin. assert (Hg0 : In f0 (c_queue (cs_g s))) by (apply (si_queue _ _ I); rewrite Eq; right; exact Hin).
        apply (Permutation_in _ HP) in Hg0. destruct Hg0 as [<-|H]; [contradiction|exact H].
      * cbn. exact Hndq.
      * left. reflexivity.
      * cbn. exact Hlk2.
      * left. reflexivity.
      * left. reflexivity.
      * left. reflexivity.
      * rewrite cs_next_mid by (cbn; discriminate). unfold cs_tinv. rewrite cs_mid_pc, cs_mid_op. cbn.
        split; [discriminate|]. apply in_or_app. right. left. reflexivity.
      * exact Hcr.
      * reflexivity.
      * cbn. intros f0 Hf0 j tj Hne Hj Hc. inversion Hf0; subst f0.
        destruct (si_thr _ _ I j tj Hj) as [Tj _]. unfold cs_tinv in Tj.
        assert (Hr : In f (c_running (cs_g s))).
        { destruct (ct_pc tj); try discriminate Hc; inversion Hc; subst; [destruct Tj as [_ H]|destruct Tj as [_ [H _]]|destruct Tj as [_ [H _]]]; exact H. }
        exact (cs_nodup_app_disj _ _ f (ci_jobs_nodup _ _ Ig) Hfq Hr).
      * cbn. discriminate.
      * unfold cs_go. cbn [fst cs_mis tr_ret tr_chk]. rewrite (si_mis _ _ I). reflexivity.
Qed.

(* ---------------- clock tick *)
Lemma cs_tick_inv cfg s dt :
  c_cfg_ok cfg -> cs_inv cfg s -> cs_bad (fst (cs_step CsFixed cfg s (CsTick dt))) = false ->
  cs_inv cfg (fst (cs_step CsFixed cfg s (CsTick dt))).
Proof.
  intros Hcfg I Hb. cbn [cs_step] in *. destruct (dt <? 0) eqn:Edt; [exact I|]. cbn [fst] in *. cbn [cs_bad] in Hb.
  apply orb_false_iff in Hb. destruct Hb as [_ Hb].
  assert (Hwin : forall j tj, nth_error (cs_thr s) j = Some tj -> cs_in_window CsFixed (ct_pc tj) = true -> dt = 0).
  { intros j tj Hj Hw. destruct (0 <? dt) eqn:E; [|lia]. cbn in Hb. exfalso.
    assert (existsb (fun t => cs_in_window CsFixed (ct_pc t)) (cs_thr s) = true).
    { apply existsb_exists. exists tj. split; [eapply nth_error_In; eauto|exact Hw]. }
    congruence. }
  set (g' := fst (c_step cfg (cs_g s) (CAdvance dt))).
  assert (Hg' : g' = {| c_now := c_now (cs_g s) + dt; c_futs := c_futs (cs_g s); c_map := c_map (cs_g s); c_queue := c_queue (cs_g s);
                        c_running := c_running (cs_g s); c_displaced := c_displaced (cs_g s) |}).
  { unfold g'. cbn [c_step]. rewrite Edt. reflexivity. }
  assert (Ig' : c_inv cfg g') by (apply c_inv_step; apply (si_g _ _ I)).
  assert (Hnth : forall j tj', nth_error (map (cs_note cfg g') (cs_thr s)) j = Some tj' ->
            exists tj, nth_error (cs_thr s) j = Some tj /\ tj' = cs_note cfg g' tj).
  { intros j tj' H. rewrite nth_error_map in H. destruct (nth_error (cs_thr s) j) as [tj|]; [|discriminate]. inversion H. eauto. }
  constructor; cbn [cs_m cs_g cs_thr cs_lock cs_mis].
  - exact Ig'.
  - rewrite Hg'. cbn. apply (si_nodisp _ _ I).
  - rewrite Hg'. cbn. rewrite (si_now _ _ I). reflexivity.
  - rewrite Hg'. cbn. apply (si_map _ _ I).
  - rewrite Hg'. cbn. apply (si_len _ _ I).
  - intros f x Hx. cbn [cs_tick c_futs c_now] in *.
    assert (Hfg : c_futs g' = c_futs (cs_g s)) by (rewrite Hg'; reflexivity). rewrite Hfg.
    destruct (si_fut _ _ I f x Hx) as [y [Hy [Hk [Hp Hd]]]]. exists y. split; [exact Hy|]. split; [exact Hk|]. split; [exact Hp|].
    destruct Hd as [Hd|[Hd [j [tj [v [e [Hj [Hpcj Hdx]]]]]]]]; [left; exact Hd|right]. split; [exact Hd|].
    assert (Hz : dt = 0). { apply (Hwin j tj Hj). rewrite Hpcj. reflexivity. }
    exists j, (cs_note cfg g' tj), v, e. replace (c_now (cs_m s) + dt) with (c_now (cs_m s)) by lia.
    split; [rewrite nth_error_map, Hj; reflexivity|]. rewrite cs_note_pc. auto.
  - rewrite Hg'. cbn. apply (si_queue _ _ I).
  - cbn. apply (si_qnodup _ _ I).
  - intros j tj' Hj. destruct (Hnth j tj' Hj) as [tj [Hj0 ->]]. rewrite cs_note_pc. apply (si_lock _ _ I j tj Hj0).
  - intros j tj' Hj. destruct (Hnth j tj' Hj) as [tj [Hj0 ->]]. destruct (si_thr _ _ I j tj Hj0) as [T [Cn Cv]].
    split; [|split; [apply cs_note_now|apply cs_note_covered; exact Cv]].
    apply (cs_tinv_ext cfg Hcfg None None (cs_m s) (cs_g s) (cs_tick (cs_m s) dt) g').
    + unfold g'. apply cs_ext_tick. lia.
    + exact Ig'.
    + rewrite Hg'. cbn. rewrite (si_now _ _ I). reflexivity.
    + exact T.
    + exact Cn.
    + intros _. reflexivity.
    + intros Hw. pose proof (Hwin j tj Hj0 Hw) as Hz. rewrite Hg'. cbn. lia.
    + intros n _. discriminate.
    + intros f _. discriminate.
  - intros i j ti tj f Hi Hj Hfi Hfj. destruct (Hnth i ti Hi) as [ti0 [Hi0 ->]]. destruct (Hnth j tj Hj) as [tj0 [Hj0 ->]].
    rewrite cs_note_pc in Hfi, Hfj. eapply (si_wuniq _ _ I); eauto.
  - intros i j ti tj n Hi Hj Hfi Hfj. destruct (Hnth i ti Hi) as [ti0 [Hi0 ->]]. destruct (Hnth j tj Hj) as [tj0 [Hj0 ->]].
    rewrite cs_note_pc in Hfi, Hfj. eapply (si_puniq _ _ I); eauto.
  - apply (si_mis _ _ I).
Qed.

(* ================================================================== every step, every run *)
Lemma cs_bad_mono md cfg s it : cs_bad (fst (cs_step md cfg s it)) = false -> cs_bad s = false.
Proof.
  destruct it as [tid|dt]; cbn [cs_step].
  - destruct (nth_error (cs_thr s) tid) as [t|]; [|auto]. destruct (cs_blocked s t); [auto|].
    destruct (ct_op t); [auto|]. destruct (ct_prog t); auto.
  - destruct (dt <? 0); [auto|]. cbn. intros H. apply orb_false_iff in H. tauto.
Qed.

Lemma cs_step_inv cfg s it :
  c_cfg_ok cfg -> cs_inv cfg s -> cs_bad (fst (cs_step CsFixed cfg s it)) = false ->
  cs_inv cfg (fst (cs_step CsFixed cfg s it)).
Proof.
  intros Hcfg I Hb. destruct it as [tid|dt]; [|apply cs_tick_inv; auto].
  cbn [cs_step]. destruct (nth_error (cs_thr s) tid) as [t|] eqn:Ht; [|exact I].
  destruct (cs_blocked s t) eqn:Hnb; [exact I|].
  destruct (ct_op t) as [op|] eqn:Hop.
  - destruct (si_thr _ _ I tid t Ht) as [T _]. unfold cs_tinv in T.
    destruct (ct_pc t) eqn:Epc; try contradiction; try congruence.
    + (* LBL *) apply (cs_step_lock cfg s tid t op Hcfg I Ht Hop Hnb). left. eauto.
    + (* LAL *) destruct (c_lookup (c_map (cs_m s)) k) eqn:El.
      * apply cs_step_pure; auto. rewrite Epc, El. discriminate.
      * apply cs_step_create; auto. rewrite Epc. exact El.
    + (* LLU *) apply cs_step_pure; auto. rewrite Epc. exact Logic.I.
    + (* LRE *) destruct (cs_status_of cfg past (cs_err_of (cs_m s) f)) eqn:Es.
      * apply cs_step_create; auto. rewrite Epc, Es. discriminate.
      * apply cs_step_pure; auto. rewrite Epc. exact Es.
      * apply cs_step_create; auto. rewrite Epc, Es. discriminate.
      * apply cs_step_create; auto. rewrite Epc, Es. discriminate.
    + (* LAU *) apply cs_step_pure; auto. rewrite Epc. exact Logic.I.
    + (* LSJ *) eapply cs_step_send; eauto.
    + (* GBL *) apply (cs_step_lock cfg s tid t op Hcfg I Ht Hop Hnb). right. eauto.
    + (* GAL *) apply cs_step_pure; auto. rewrite Epc. exact Logic.I.
    + (* GAU *) apply cs_step_pure; auto. rewrite Epc. exact Logic.I.
    + (* GLU *) apply cs_step_pure; auto. rewrite Epc. exact Logic.I.
    + (* GRE *) apply cs_step_pure; auto. rewrite Epc. exact Logic.I.
    + (* GFW *) apply cs_step_pure; auto. rewrite Epc.
      unfold cs_blocked in Hnb. rewrite Epc in Hnb. unfold cs_complete in Hnb. destruct (cs_fdone (cs_m s) x); [discriminate|discriminate].
    + (* RLP *) apply cs_step_pure; auto. rewrite Epc. exact Logic.I.
    + (* RPU *) apply cs_step_pure; auto. rewrite Epc. exact Logic.I.
    + (* RPE *) apply cs_step_pure; auto. rewrite Epc. exact Logic.I.
    + (* XAU *) apply cs_step_pure; auto. rewrite Epc. exact Logic.I.
    + (* WLD *) apply cs_step_pure; auto. rewrite Epc. exact Logic.I.
    + (* WSU *) eapply cs_step_store_done; eauto.
    + (* WSP *) eapply cs_step_store_pred; eauto.
  - destruct (ct_prog t) as [|op rest] eqn:Hp; [exact I|]. apply cs_step_start; auto.
Qed.

Lemma cs_run_inv cfg sched : c_cfg_ok cfg -> forall s, cs_inv cfg s ->
  cs_bad (cs_run CsFixed cfg s sched) = false -> cs_inv cfg (cs_run CsFixed cfg s sched).
Proof.
  intros Hcfg. induction sched as [|it r IH]; intros s I Hb; cbn [cs_run] in *; [exact I|].
  apply IH; [|exact Hb]. apply cs_step_inv; auto.
  clear IH I. revert Hb. generalize (fst (cs_step CsFixed cfg s it)). induction r as [|it' r' IH']; intros s0 H; cbn [cs_run] in H; [exact H|].
  eapply cs_bad_mono. apply IH'. exact H.
Qed.
(* the invariant holds initially (all threads idle on the empty cache) *)
Lemma cs_inv_init cfg progs : cs_progs_covered progs = true -> cs_inv cfg (cs_init progs).
Proof.
  intros Hc.
  assert (Hth : forall tid t, nth_error (map cs_thread_init progs) tid = Some t ->
            exists p, t = cs_thread_init p /\ forallb cs_op_covered p = true).
  { intros tid t H. rewrite nth_error_map in H. destruct (nth_error progs tid) as [p|] eqn:E; [|discriminate].
    inversion H. exists p. split; [reflexivity|]. unfold cs_progs_covered in Hc. rewrite forallb_forall in Hc.
    apply Hc. eapply nth_error_In; eauto. }
  constructor; cbn [cs_init cs_init_on cs_m cs_g cs_thr cs_lock cs_mis]; try reflexivity.
  - apply c_inv_init.
  - intros f x H. destruct f; discriminate.
  - intros f [].
  - constructor.
  - intros tid t H. destruct (Hth tid t H) as [p [-> _]]. cbn. split; discriminate.
  - intros tid t H. destruct (Hth tid t H) as [p [-> Hp]]. split; [reflexivity|]. split.
    + intros op o H0. discriminate.
    + split; [exact Hp|exact Logic.I].
  - intros i j ti tj f Hi Hj Hf. destruct (Hth i ti Hi) as [p [-> _]]. discriminate.
  - intros i j ti tj f Hi Hj Hf. destruct (Hth i ti Hi) as [p [-> _]]. discriminate.
Qed.

Definition cs_out_eq_dec (a b : c_out) : {a = b} + {a <> b}.
Proof. decide equality; try apply Nat.eq_dec; apply Bool.bool_dec. Defined.

(* the refinement: programs of Load / Get2 / worker calls, Fixed order, every schedule whose
   clock ticks stay outside the windows *)
Theorem cs_refines cfg progs sched :
  c_cfg_ok cfg -> cs_progs_covered progs = true ->
  let s := cs_run CsFixed cfg (cs_init progs) sched in
  cs_bad s = false -> cs_mis s = false /\ cs_g s = c_run cfg c_init (rev (cs_evs s)).
Proof.
  intros Hcfg Hc s Hb. split; [|apply cs_ghost_is_history].
  apply (si_mis cfg). apply cs_run_inv; auto. apply cs_inv_init. exact Hc.
Qed.
