(* AntsStepsProv.v -- provenance of the decisions in the FIXED ants step model: every pair the dispatcher
   stores is (nil, DeadlineExceeded) or the pair returned by the handler invocation of THAT attempt, carried
   unchanged from the handler's return through the callback's ctx1.Done() test, the per-attempt channel and the
   dispatcher's select to the store.  Part 1: what never changes about an attempt / a task. *)
From Got Require Import Base ListAux AntsSteps AntsStepsProofs AntsStepsCount AntsStepsCountN.
Local Open Scope nat_scope.

(* immutable part of a task: its options; of an attempt: task, attempt number; once started: the invocation index *)
Lemma ast_step_task_opt md n s tid hint t x :
  nth_error (ast_tasks s) t = Some x ->
  exists x', nth_error (ast_tasks (fst (fst (ast_step md n s tid hint)))) t = Some x' /\ att_opt x' = att_opt x.
Proof.
  intros Hx. unfold ast_step. destruct (nth_error (ast_thr s) tid) as [th|] eqn:Eth; [|exists x; auto].
  destruct th as [pc prog hs]. unfold ast_step_pc. cbn [ath_pc ath_prog ath_handles].
  pose proof (ast_nth_lt _ _ _ Hx) as Hlt.
  destruct pc;
    repeat first [progress (unfold ast_wait_ctx; ast_cbn) | match goal with
    | |- context [match ?x with _ => _ end] => destruct x eqn:?
    end]; try (exists x; split; [exact Hx|reflexivity]).
  all: ast_norm; ast_eqb; try lia; rewrite ?Hx; cbn [option_map]; eexists; (split; [reflexivity|reflexivity]).
Qed.

Lemma ast_step_att_fixed md n s tid hint a y :
  ast_inv s -> ast_hinv s -> nth_error (ast_atts s) a = Some y ->
  exists y', nth_error (ast_atts (fst (fst (ast_step md n s tid hint)))) a = Some y' /\
    ata_task y' = ata_task y /\ ata_no y' = ata_no y /\
    (1 <= ata_hst y -> ata_bi y' = ata_bi y /\ 1 <= ata_hst y') /\ (ata_hst y = 2 -> ata_hst y' = 2).
Proof.
  intros Inv Hv Hy. unfold ast_step. destruct (nth_error (ast_thr s) tid) as [th|] eqn:Eth; [|exists y; auto].
  pose proof (hi_chan _ Hv) as Hc.
  destruct th as [pc prog hs]. unfold ast_step_pc. cbn [ath_pc ath_prog ath_handles].
  pose proof (ast_nth_lt _ _ _ Hy) as Hlt.
  destruct pc;
    repeat first [progress (unfold ast_wait_ctx; ast_cbn) | match goal with
    | |- context [match ?x with _ => _ end] => destruct x eqn:?
    end]; try (exists y; repeat split; auto; fail).
  all: try (specialize (Hc _ y (or_introl eq_refl))).
  all: ast_norm; ast_eqb; try lia.
  all: rewrite ?Hy in *; cbn [option_map].
  all: eexists; split; [reflexivity|cbn; repeat split; intros; auto; try lia].
Qed.

(* the pair returned by the handler invocation of attempt a *)
Definition ast_att_pair (s : ast_state) (a : nat) : Z * Z :=
  let b := ast_att_beh s a in (asb_val b, asb_err b).

(* p is the pair the (finished) handler invocation of attempt a returned *)
Definition ast_hp (s : ast_state) (a : nat) (p : Z * Z) : Prop :=
  exists y, nth_error (ast_atts s) a = Some y /\ ata_hst y = 2 /\ p = ast_att_pair s a.

Lemma ast_hp_step md n s tid hint a p :
  ast_inv s -> ast_hinv s -> ast_ninv s -> ast_hp s a p -> ast_hp (fst (fst (ast_step md n s tid hint))) a p.
Proof.
  intros Inv Hv Nv (y & Hy & Hh & ->).
  destruct (ast_step_att_fixed md n s tid hint a y Inv Hv Hy) as (y' & Hy' & Et & _ & Eb & E2).
  destruct (Eb ltac:(lia)) as [Eb' _]. exists y'. split; [exact Hy'|]. split; [exact (E2 Hh)|].
  pose proof (ni_task _ Nv _ _ Hy) as Hlt. destruct (nth_error (ast_tasks s) (ata_task y)) as [x|] eqn:Ex;
    [|apply nth_error_None in Ex; lia].
  destruct (ast_step_task_opt md n s tid hint _ x Ex) as (x' & Ex' & Eo).
  unfold ast_att_pair, ast_att_beh, ast_task_opt. rewrite Hy, Hy', Et, Eb', Ex, Ex', Eo. reflexivity.
Qed.


(* ------------------------------------------------------------------ the provenance invariant *)
Definition ast_dl : Z * Z := (0%Z, ast_err_deadline).

Definition ast_okp (s : ast_state) (a : nat) (p : Z * Z) : Prop := p = ast_dl \/ ast_hp s a p.

(* attempt record a is attempt number k (0-based) of task t *)
Definition ast_lk (s : ast_state) (t a k : nat) : Prop :=
  exists y, nth_error (ast_atts s) a = Some y /\ ata_task y = t /\ ata_no y = k.

(* the pair a thread carries for attempt a; strict: it can only be the handler's pair *)
Definition ast_pc_carry (pc : ast_pc) : option (nat * (Z * Z) * bool) :=
  match pc with
  | AstICtx a v e => Some (a, (v, e), true)
  | AstISend a v e _ => Some (a, (v, e), false)
  | AstDStoreRes _ a _ v e => Some (a, (v, e), false)
  | _ => None
  end.

Definition ast_pc_link (pc : ast_pc) : option (nat * nat * nat) :=
  match pc with
  | AstDEnq t a i | AstDSelect t a i | AstDStoreRes t a i _ _ | AstDStoreTo t a i => Some (t, a, i)
  | _ => None
  end.

Record ast_pinv (s : ast_state) : Prop := {
  pi_carry : forall i pc a p st, ast_pc_of s i = Some pc -> ast_pc_carry pc = Some (a, p, st) ->
             (st = false /\ p = ast_dl) \/ ast_hp s a p;
  pi_link : forall i pc t a k, ast_pc_of s i = Some pc -> ast_pc_link pc = Some (t, a, k) -> ast_lk s t a k;
  pi_chan : forall a y p, nth_error (ast_atts s) a = Some y -> In p (ata_chan y) -> ast_okp s a p;
  pi_dec : forall t x k p, nth_error (ast_tasks s) t = Some x -> nth_error (att_decided x) k = Some p ->
           p = ast_dl \/ exists a, ast_hp s a p /\ ast_lk s t a k
}.

Lemma ast_lk_step md n s tid hint t a k :
  ast_inv s -> ast_hinv s -> ast_lk s t a k -> ast_lk (fst (fst (ast_step md n s tid hint))) t a k.
Proof.
  intros Inv Hv (y & Hy & E1 & E2).
  destruct (ast_step_att_fixed md n s tid hint a y Inv Hv Hy) as (y' & Hy' & Et & En & _).
  exists y'. split; [exact Hy'|]. split; congruence.
Qed.

Definition ast_pcs_but' (s s' : ast_state) (tid : nat) : Prop := forall j, j <> tid -> ast_pc_of s' j = ast_pc_of s j.

Lemma ast_pinv_gen s s' tid pc' :
  ast_pinv s ->
  (forall a p, ast_hp s a p -> ast_hp s' a p) -> (forall t a k, ast_lk s t a k -> ast_lk s' t a k) ->
  ast_pcs_but' s s' tid -> ast_pc_of s' tid = Some pc' ->
  (forall a p st, ast_pc_carry pc' = Some (a, p, st) -> (st = false /\ p = ast_dl) \/ ast_hp s' a p) ->
  (forall t a k, ast_pc_link pc' = Some (t, a, k) -> ast_lk s' t a k) ->
  (forall a y' p, nth_error (ast_atts s') a = Some y' -> In p (ata_chan y') ->
     (exists y, nth_error (ast_atts s) a = Some y /\ In p (ata_chan y)) \/ ast_okp s' a p) ->
  (forall t x' k p, nth_error (ast_tasks s') t = Some x' -> nth_error (att_decided x') k = Some p ->
     (exists x, nth_error (ast_tasks s) t = Some x /\ nth_error (att_decided x) k = Some p) \/
     p = ast_dl \/ exists a, ast_hp s' a p /\ ast_lk s' t a k) ->
  ast_pinv s'.
Proof.
  intros [P1 P2 P3 P4] Hhp Hlk Hoth Hpc' O1 O2 O3 O4. constructor.
  - intros i pc a p st Hi Hc. destruct (Nat.eq_dec i tid) as [->|Hne].
    + rewrite Hpc' in Hi. injection Hi as <-. apply (O1 _ _ _ Hc).
    + rewrite Hoth in Hi by exact Hne. destruct (P1 _ _ _ _ _ Hi Hc) as [H|H]; [left; exact H|right; apply Hhp; exact H].
  - intros i pc t a k Hi Hc. destruct (Nat.eq_dec i tid) as [->|Hne].
    + rewrite Hpc' in Hi. injection Hi as <-. apply (O2 _ _ _ Hc).
    + rewrite Hoth in Hi by exact Hne. apply Hlk. apply (P2 _ _ _ _ _ Hi Hc).
  - intros a y' p Hy' Hin. destruct (O3 _ _ _ Hy' Hin) as [(y & Hy & Hin0)|H]; [|exact H].
    destruct (P3 _ _ _ Hy Hin0) as [H|H]; [left; exact H|right; apply Hhp; exact H].
  - intros t x' k p Hx' Hk. destruct (O4 _ _ _ _ Hx' Hk) as [(x & Hx & Hk0)|H]; [|exact H].
    destruct (P4 _ _ _ _ Hx Hk0) as [H|(a & H1 & H2)]; [left; exact H|right]. exists a. split; [apply Hhp; exact H1|apply Hlk; exact H2].
Qed.
