From Got Require Import Base Sort Unique.
Lemma SortProofs_stub : True. Proof. exact I. Qed.
