(* SortProofs.v -- frame-level facts about the introsort model (models/Sort.v):
   every function only calls Less/Swap at indices inside its segment [lo, hi), hence it
   never panics, never runs out of fuel, leaves everything outside the segment untouched,
   permutes the (key, value) pairs, and performs a bounded number of Less calls.
   These hold for ANY less function (no order axioms). *)
From Got Require Import Base Sort.
Require Import Permutation.
Local Open Scope Z_scope.

(* ------------------------------------------------------------------ lists *)
Section Lists.
  Context {A : Type}.

  Lemma srt_zget_nat (l : list A) i : 0 <= i -> srt_zget l i = nth_error l (Z.to_nat i).
  Proof. intros H. unfold srt_zget. destruct (Z.ltb_spec i 0); [lia|reflexivity]. Qed.

  Lemma srt_zget_some (l : list A) i : 0 <= i < Z.of_nat (length l) -> exists x, srt_zget l i = Some x.
  Proof.
    intros H. rewrite srt_zget_nat by lia.
    destruct (nth_error l (Z.to_nat i)) eqn:E; [eauto|]. apply nth_error_None in E. lia.
  Qed.

  Lemma srt_zget_range (l : list A) i x : srt_zget l i = Some x -> 0 <= i < Z.of_nat (length l).
  Proof.
    unfold srt_zget. destruct (Z.ltb_spec i 0); [discriminate|]. intros E.
    assert (Z.to_nat i < length l)%nat by (apply nth_error_Some; congruence). lia.
  Qed.

  Lemma srt_set_nat_length (l : list A) n x : length (srt_set_nat l n x) = length l.
  Proof. revert n. induction l; intros [|n]; cbn; auto. Qed.

  Lemma srt_set_nat_same (l : list A) n x : (n < length l)%nat -> nth_error (srt_set_nat l n x) n = Some x.
  Proof. revert n. induction l; intros [|n] H; cbn in *; try lia; auto. apply IHl. lia. Qed.

  Lemma srt_set_nat_other (l : list A) n m x : n <> m -> nth_error (srt_set_nat l n x) m = nth_error l m.
  Proof.
    revert n m. induction l; intros [|n] [|m] H; cbn; auto; try congruence.
  Qed.

  Lemma srt_zset_length (l : list A) i x : length (srt_zset l i x) = length l.
  Proof. unfold srt_zset. destruct (i <? 0); [reflexivity|apply srt_set_nat_length]. Qed.

  Lemma srt_zget_zset_same (l : list A) i x :
    0 <= i < Z.of_nat (length l) -> srt_zget (srt_zset l i x) i = Some x.
  Proof.
    intros H. unfold srt_zget, srt_zset. destruct (Z.ltb_spec i 0); [lia|].
    apply srt_set_nat_same. lia.
  Qed.

  Lemma srt_zget_zset_other (l : list A) i j x :
    i <> j -> srt_zget (srt_zset l i x) j = srt_zget l j.
  Proof.
    intros H. unfold srt_zget, srt_zset. destruct (Z.ltb_spec j 0); [reflexivity|].
    destruct (Z.ltb_spec i 0); [reflexivity|]. apply srt_set_nat_other. lia.
  Qed.

  Lemma srt_perm_set_head (t : list A) j y a :
    nth_error t j = Some y -> Permutation (y :: srt_set_nat t j a) (a :: t).
  Proof.
    revert j. induction t as [|b t IH]; intros [|j] H; cbn in *; try discriminate.
    - injection H as ->. apply perm_swap.
    - eapply perm_trans; [apply perm_swap|]. eapply perm_trans; [|apply perm_swap].
      apply perm_skip. apply IH. exact H.
  Qed.

  Lemma srt_perm_swap_nat (l : list A) i j x y :
    nth_error l i = Some x -> nth_error l j = Some y ->
    Permutation (srt_set_nat (srt_set_nat l i y) j x) l.
  Proof.
    revert i j. induction l as [|a t IH]; intros [|i] [|j] Hi Hj; cbn in *; try discriminate.
    - injection Hi as ->. injection Hj as ->. reflexivity.
    - injection Hi as ->. apply srt_perm_set_head. exact Hj.
    - injection Hj as ->. eapply perm_trans; [apply srt_perm_set_head; exact Hi|]. reflexivity.
    - apply perm_skip. apply IH; assumption.
  Qed.

  (* reflect.Swapper on one slice *)
  Lemma srt_swap_list_spec (l : list A) i j x y :
    srt_zget l i = Some x -> srt_zget l j = Some y ->
    exists l', srt_swap_list l i j = Some l' /\
      length l' = length l /\
      Permutation l' l /\
      srt_zget l' i = Some y /\ srt_zget l' j = Some x /\
      (forall k, k <> i -> k <> j -> srt_zget l' k = srt_zget l k).
  Proof.
    intros Hi Hj. unfold srt_swap_list. rewrite Hi, Hj. eexists. split; [reflexivity|].
    pose proof (srt_zget_range _ _ _ Hi) as Ri. pose proof (srt_zget_range _ _ _ Hj) as Rj.
    split; [rewrite !srt_zset_length; reflexivity|]. split.
    { unfold srt_zset. destruct (Z.ltb_spec i 0); [lia|]. destruct (Z.ltb_spec j 0); [lia|].
      apply srt_perm_swap_nat; rewrite <- srt_zget_nat by lia; assumption. }
    split.
    { destruct (Z.eq_dec i j) as [->|Hne].
      - rewrite srt_zget_zset_same by (rewrite srt_zset_length; lia). congruence.
      - rewrite srt_zget_zset_other by congruence. apply srt_zget_zset_same. lia. }
    split.
    { apply srt_zget_zset_same. rewrite srt_zset_length. lia. }
    intros k Hki Hkj. rewrite !srt_zget_zset_other by congruence. reflexivity.
  Qed.
End Lists.

Lemma srt_combine_nth {A B} (l1 : list A) (l2 : list B) n a b :
  nth_error l1 n = Some a -> nth_error l2 n = Some b -> nth_error (combine l1 l2) n = Some (a, b).
Proof.
  revert l2 n. induction l1 as [|x l1 IH]; intros [|y l2] [|n] H1 H2; cbn in *; try discriminate.
  - congruence.
  - apply IH; assumption.
Qed.

Lemma srt_combine_set {A B} (l1 : list A) (l2 : list B) n a b :
  combine (srt_set_nat l1 n a) (srt_set_nat l2 n b) = srt_set_nat (combine l1 l2) n (a, b).
Proof.
  revert l2 n. induction l1 as [|x l1 IH]; intros [|y l2] [|n]; cbn; try reflexivity.
  f_equal. apply IH.
Qed.

(* swapping the same two positions in both slices permutes the pairs *)
Lemma srt_combine_swap {A B} (ks ks' : list A) (vs vs' : list B) i j :
  srt_swap_list ks i j = Some ks' -> srt_swap_list vs i j = Some vs' ->
  Permutation (combine ks' vs') (combine ks vs).
Proof.
  unfold srt_swap_list. intros Hk Hv.
  destruct (srt_zget ks i) as [kx|] eqn:E1; [|discriminate].
  destruct (srt_zget ks j) as [ky|] eqn:E2; [|discriminate].
  destruct (srt_zget vs i) as [vx|] eqn:E3; [|discriminate].
  destruct (srt_zget vs j) as [vy|] eqn:E4; [|discriminate].
  injection Hk as <-. injection Hv as <-.
  pose proof (srt_zget_range _ _ _ E1). pose proof (srt_zget_range _ _ _ E2).
  unfold srt_zset. destruct (Z.ltb_spec i 0); [lia|]. destruct (Z.ltb_spec j 0); [lia|].
  rewrite !srt_combine_set.
  rewrite srt_zget_nat in E1 by lia. rewrite srt_zget_nat in E2 by lia.
  rewrite srt_zget_nat in E3 by lia. rewrite srt_zget_nat in E4 by lia.
  apply srt_perm_swap_nat; apply srt_combine_nth; assumption.
Qed.

(* ------------------------------------------------------------------ the frame logic *)
Section Frame.
  Context {K V : Type}.
  Notation ST := (srt_state K V).

  Record srt_frame (lo hi : Z) (s s' : ST) : Prop := mk_srt_frame {
    fr_lenk : length (st_keys s') = length (st_keys s);
    fr_lenv : length (st_vals s') = length (st_vals s);
    fr_outk : forall i, i < lo \/ hi <= i -> srt_zget (st_keys s') i = srt_zget (st_keys s) i;
    fr_outv : forall i, i < lo \/ hi <= i -> srt_zget (st_vals s') i = srt_zget (st_vals s) i;
    fr_perm : Permutation (combine (st_keys s') (st_vals s')) (combine (st_keys s) (st_vals s));
    fr_permk : Permutation (st_keys s') (st_keys s);
    fr_cmp : (st_cmp s <= st_cmp s')%N }.

  Lemma srt_frame_refl lo hi s : srt_frame lo hi s s.
  Proof. constructor; auto; lia. Qed.

  Lemma srt_frame_trans lo hi s1 s2 s3 :
    srt_frame lo hi s1 s2 -> srt_frame lo hi s2 s3 -> srt_frame lo hi s1 s3.
  Proof.
    intros [a1 a2 a3 a4 a5 a6 a7] [b1 b2 b3 b4 b5 b6 b7]. constructor; try congruence.
    - intros i Hi. rewrite b3, a3; auto.
    - intros i Hi. rewrite b4, a4; auto.
    - eapply perm_trans; eassumption.
    - eapply perm_trans; eassumption.
    - lia.
  Qed.

  Lemma srt_frame_widen lo hi lo' hi' s s' :
    lo' <= lo -> hi <= hi' -> srt_frame lo hi s s' -> srt_frame lo' hi' s s'.
  Proof.
    intros Hl Hh [a1 a2 a3 a4 a5 a6 a7]. constructor; auto.
    - intros i Hi. apply a3. lia.
    - intros i Hi. apply a4. lia.
  Qed.

  Definition srt_wf (hi : Z) (s : ST) : Prop :=
    hi <= Z.of_nat (length (st_keys s)) /\ hi <= Z.of_nat (length (st_vals s)).

  Lemma srt_wf_frame lo hi h s s' : srt_frame lo hi s s' -> srt_wf h s -> srt_wf h s'.
  Proof. intros [a1 a2 _ _ _ _ _] [H1 H2]. split; lia. Qed.

  (* total-correctness triple: from any state whose slices have at least hi elements the
     computation returns normally, within the frame [lo,hi), with result/cost in Q *)
  Definition srt_spec {A} (lo hi : Z) (m : srt_M (K:=K) (V:=V) A) (Q : A -> Z -> Prop) : Prop :=
    forall s, srt_wf hi s ->
      exists a s', m s = SOk (a, s') /\ srt_frame lo hi s s' /\
                   Q a (Z.of_N (st_cmp s') - Z.of_N (st_cmp s)).

  Lemma srt_spec_ret {A} lo hi (a : A) (Q : A -> Z -> Prop) : Q a 0 -> srt_spec lo hi (srt_ret a) Q.
  Proof.
    intros H s _. exists a, s. split; [reflexivity|]. split; [apply srt_frame_refl|].
    replace (Z.of_N (st_cmp s) - Z.of_N (st_cmp s)) with 0 by lia. exact H.
  Qed.

  Lemma srt_spec_bind {A B} lo hi (m : srt_M A) (f : A -> srt_M B) Q1 (Q : B -> Z -> Prop) :
    srt_spec lo hi m Q1 ->
    (forall a d1, Q1 a d1 -> 0 <= d1 -> srt_spec lo hi (f a) (fun b d2 => Q b (d1 + d2))) ->
    srt_spec lo hi (srt_bind m f) Q.
  Proof.
    intros Hm Hf s Hwf. destruct (Hm s Hwf) as (a & s1 & E1 & F1 & Q1a).
    assert (Hd : 0 <= Z.of_N (st_cmp s1) - Z.of_N (st_cmp s)) by (pose proof (fr_cmp _ _ _ _ F1); lia).
    destruct (Hf a _ Q1a Hd s1 (srt_wf_frame _ _ _ _ _ F1 Hwf)) as (b & s2 & E2 & F2 & Q2).
    exists b, s2. unfold srt_bind. rewrite E1. split; [exact E2|].
    split; [eapply srt_frame_trans; eassumption|].
    replace (Z.of_N (st_cmp s2) - Z.of_N (st_cmp s))
      with (Z.of_N (st_cmp s1) - Z.of_N (st_cmp s) + (Z.of_N (st_cmp s2) - Z.of_N (st_cmp s1))) by lia.
    exact Q2.
  Qed.

  Lemma srt_spec_conseq {A} lo hi (m : srt_M A) (Q Q' : A -> Z -> Prop) :
    srt_spec lo hi m Q -> (forall a d, Q a d -> 0 <= d -> Q' a d) -> srt_spec lo hi m Q'.
  Proof.
    intros Hm HQ s Hwf. destruct (Hm s Hwf) as (a & s1 & E1 & F1 & Q1a).
    exists a, s1. split; [exact E1|]. split; [exact F1|]. apply HQ; [exact Q1a|].
    pose proof (fr_cmp _ _ _ _ F1); lia.
  Qed.

  Lemma srt_spec_widen {A} lo hi lo' hi' (m : srt_M A) Q :
    lo' <= lo -> hi <= hi' -> srt_spec lo hi m Q -> srt_spec lo' hi' m Q.
  Proof.
    intros Hl Hh Hm s [W1 W2]. destruct (Hm s) as (a & s1 & E1 & F1 & Q1a); [split; lia|].
    exists a, s1. split; [exact E1|]. split; [|exact Q1a]. eapply srt_frame_widen; eassumption.
  Qed.

  (* primitives *)
  Lemma srt_spec_less (less : K -> K -> bool) lo hi i j :
    0 <= lo -> lo <= i < hi -> lo <= j < hi ->
    srt_spec lo hi (srt_less less i j) (fun _ d => d = 1).
  Proof.
    intros Hlo Hi Hj s [W1 W2]. unfold srt_less.
    destruct (srt_zget_some (st_keys s) i) as [x Ex]; [lia|].
    destruct (srt_zget_some (st_keys s) j) as [y Ey]; [lia|].
    rewrite Ex, Ey. eexists _, _. split; [reflexivity|]. cbn [st_cmp]. split; [|lia].
    constructor; cbn; auto; lia.
  Qed.

  Lemma srt_spec_swap lo hi i j :
    0 <= lo -> lo <= i < hi -> lo <= j < hi ->
    srt_spec lo hi (srt_swap i j) (fun _ d => d = 0).
  Proof.
    intros Hlo Hi Hj s [W1 W2]. unfold srt_swap.
    destruct (srt_zget_some (st_keys s) i) as [x Ex]; [lia|].
    destruct (srt_zget_some (st_keys s) j) as [y Ey]; [lia|].
    destruct (srt_zget_some (st_vals s) i) as [vx Evx]; [lia|].
    destruct (srt_zget_some (st_vals s) j) as [vy Evy]; [lia|].
    destruct (srt_swap_list_spec _ _ _ _ _ Ex Ey) as (ks & Eks & Lk & Pk & _ & _ & Ok).
    destruct (srt_swap_list_spec _ _ _ _ _ Evx Evy) as (vs & Evs & Lv & Pv & _ & _ & Ov).
    rewrite Eks, Evs. eexists _, _. split; [reflexivity|]. cbn [st_cmp]. split; [|lia].
    constructor; cbn [st_keys st_vals st_cmp]; auto; try lia.
    - intros k Hk. apply Ok; lia.
    - intros k Hk. apply Ov; lia.
    - eapply srt_combine_swap; eassumption.
  Qed.

  Lemma srt_spec_tick lo hi k : srt_spec lo hi (srt_tick k) (fun _ d => d = 0).
  Proof.
    intros s _. unfold srt_tick. eexists _, _. split; [reflexivity|]. cbn [st_cmp]. split; [|lia].
    constructor; cbn; auto; lia.
  Qed.
End Frame.

(* ------------------------------------------------------------------ frame specs of the functions *)
Section FrameFuns.
  Context {K V : Type}.
  Variable less : K -> K -> bool.
  Notation spec := (@srt_spec K V).
  Notation M := (@srt_M K V).

  Ltac sbind Q := eapply srt_spec_bind with (Q1 := Q); [ | intros ? ? ? ?].

  Lemma srt_spec_for_up lo hi n : forall i (body : Z -> M unit) c,
    0 <= c ->
    (forall k, i <= k < i + Z.of_nat n -> spec lo hi (body k) (fun _ d => d <= c)) ->
    spec lo hi (srt_for_up n i body) (fun _ d => d <= Z.of_nat n * c).
  Proof.
    induction n as [|n IH]; intros i body c Hc Hb; cbn [srt_for_up].
    - apply srt_spec_ret. lia.
    - sbind (fun (_ : unit) d => d <= c).
      + apply Hb. lia.
      + eapply srt_spec_conseq; [apply (IH (i + 1) body c Hc)|].
        * intros k Hk. apply Hb. lia.
        * cbn beta. intros _ d Hd _. nia.
  Qed.

  Lemma srt_spec_for lo hi i b (body : Z -> M unit) c :
    0 <= c ->
    (forall k, i <= k < b -> spec lo hi (body k) (fun _ d => d <= c)) ->
    spec lo hi (srt_for i b body) (fun _ d => d <= Z.max 0 (b - i) * c).
  Proof.
    intros Hc Hb. unfold srt_for.
    eapply srt_spec_conseq; [apply (srt_spec_for_up lo hi _ i body c Hc)|].
    - intros k Hk. apply Hb. lia.
    - cbn beta. intros _ d Hd _. nia.
  Qed.

  Lemma srt_spec_for_down lo hi n : forall (body : Z -> M unit) c,
    0 <= c ->
    (forall k, 0 <= k < Z.of_nat n -> spec lo hi (body k) (fun _ d => d <= c)) ->
    spec lo hi (srt_for_down n body) (fun _ d => d <= Z.of_nat n * c).
  Proof.
    induction n as [|n IH]; intros body c Hc Hb; cbn [srt_for_down].
    - apply srt_spec_ret. lia.
    - sbind (fun (_ : unit) d => d <= c).
      + apply Hb. lia.
      + eapply srt_spec_conseq; [apply (IH body c Hc)|].
        * intros k Hk. apply Hb. lia.
        * cbn beta. intros _ d Hd _. nia.
  Qed.

  Lemma srt_spec_scan_up_aux lo hi n : forall (cond : Z -> M bool) i,
    (forall k, i <= k < i + Z.of_nat n -> spec lo hi (cond k) (fun _ d => d = 1)) ->
    spec lo hi (srt_scan_up_aux n cond i)
      (fun i' d => i <= i' <= i + Z.of_nat n /\ d <= i' - i + 1).
  Proof.
    induction n as [|n IH]; intros cond i Hc; cbn [srt_scan_up_aux].
    - apply srt_spec_ret. lia.
    - sbind (fun (_ : bool) d => d = 1).
      + apply Hc. lia.
      + destruct a.
        * eapply srt_spec_conseq; [apply (IH cond (i + 1))|].
          -- intros k Hk. apply Hc. lia.
          -- cbn beta. intros i' d Hd _. lia.
        * apply srt_spec_ret. lia.
  Qed.

  Lemma srt_spec_scan_up lo hi (cond : Z -> M bool) i lim :
    (forall k, i <= k < lim -> spec lo hi (cond k) (fun _ d => d = 1)) ->
    spec lo hi (srt_scan_up cond i lim)
      (fun i' d => i <= i' <= Z.max i lim /\ d <= i' - i + 1).
  Proof.
    intros Hc. unfold srt_scan_up.
    eapply srt_spec_conseq; [apply srt_spec_scan_up_aux|].
    - intros k Hk. apply Hc. lia.
    - cbn beta. intros i' d Hd _. lia.
  Qed.

  Lemma srt_spec_scan_down_aux lo hi n : forall (cond : Z -> M bool) x,
    (forall k, x - Z.of_nat n <= k < x -> spec lo hi (cond k) (fun _ d => d = 1)) ->
    spec lo hi (srt_scan_down_aux n cond x)
      (fun x' d => x - Z.of_nat n <= x' <= x /\ d <= x - x' + 1).
  Proof.
    induction n as [|n IH]; intros cond x Hc; cbn [srt_scan_down_aux].
    - apply srt_spec_ret. lia.
    - sbind (fun (_ : bool) d => d = 1).
      + apply Hc. lia.
      + destruct a.
        * eapply srt_spec_conseq; [apply (IH cond (x - 1))|].
          -- intros k Hk. apply Hc. lia.
          -- cbn beta. intros i' d Hd _. lia.
        * apply srt_spec_ret. lia.
  Qed.

  Lemma srt_spec_scan_down lo hi (cond : Z -> M bool) lim x :
    (forall k, lim <= k < x -> spec lo hi (cond k) (fun _ d => d = 1)) ->
    spec lo hi (srt_scan_down cond lim x)
      (fun x' d => Z.min lim x <= x' <= x /\ d <= x - x' + 1).
  Proof.
    intros Hc. unfold srt_scan_down.
    eapply srt_spec_conseq; [apply srt_spec_scan_down_aux|].
    - intros k Hk. apply Hc. lia.
    - cbn beta. intros i' d Hd _. lia.
  Qed.

  (* a Less call followed by negation *)
  Lemma srt_spec_nless lo hi i j :
    0 <= lo -> lo <= i < hi -> lo <= j < hi ->
    spec lo hi (srt_bind (srt_less less i j) (fun t => srt_ret (negb t))) (fun _ d => d = 1).
  Proof.
    intros. sbind (fun (_ : bool) d => d = 1).
    - apply srt_spec_less; assumption.
    - apply srt_spec_ret. lia.
  Qed.

  (* ---------------- insertion sort *)
  Lemma srt_spec_ins_inner lo hi n : forall j,
    0 <= lo -> lo <= j - Z.of_nat n -> j < hi ->
    spec lo hi (srt_ins_inner less n j) (fun _ d => d <= Z.of_nat n).
  Proof.
    induction n as [|n IH]; intros j Hlo Hj Hh; cbn [srt_ins_inner].
    - apply srt_spec_ret. lia.
    - sbind (fun (_ : bool) d => d = 1).
      + apply srt_spec_less; lia.
      + destruct a.
        * sbind (fun (_ : unit) d => d = 0).
          -- apply srt_spec_swap; lia.
          -- eapply srt_spec_conseq; [apply (IH (j - 1)); lia|]. cbn beta. intros; lia.
        * apply srt_spec_ret. lia.
  Qed.

  Lemma srt_spec_insertion_sort lo hi a b :
    0 <= lo -> lo <= a -> b <= hi ->
    spec lo hi (srt_insertion_sort less a b)
      (fun _ d => d <= Z.max 0 (b - a - 1) * Z.max 0 (b - a - 1)).
  Proof.
    intros Hlo Ha Hb. unfold srt_insertion_sort.
    eapply srt_spec_conseq; [apply (srt_spec_for lo hi (a + 1) b _ (Z.max 0 (b - a - 1))); [lia|]|].
    - intros k Hk. eapply srt_spec_conseq; [apply srt_spec_ins_inner; lia|].
      cbn beta. intros; lia.
    - cbn beta. intros _ d Hd _. replace (b - (a + 1)) with (b - a - 1) in Hd by lia. exact Hd.
  Qed.

  (* ---------------- heap sort *)
  Lemma srt_sift_down_exit fuel root hi' first :
    hi' <= 2 * root + 1 -> srt_sift_down less fuel root hi' first = srt_ret (K:=K) (V:=V) tt.
  Proof.
    intros H. destruct fuel; cbn [srt_sift_down];
      (destruct (Z.leb_spec hi' (2 * root + 1)); [reflexivity|lia]).
  Qed.

  Lemma srt_spec_sift_down lo hi hi' first k : forall fuel root,
    (k <= fuel)%nat -> 0 <= lo -> 0 <= root ->
    hi' < (root + 1) * 2 ^ (Z.of_nat k + 1) ->
    lo <= first -> first + hi' <= hi ->
    spec lo hi (srt_sift_down less fuel root hi' first) (fun _ d => d <= 2 * Z.of_nat k).
  Proof.
    induction k as [|k IH]; intros fuel root Hf Hlo Hr Hp Hfi Hhi.
    - rewrite srt_sift_down_exit; [apply srt_spec_ret; lia|].
      change (2 ^ (Z.of_nat 0 + 1)) with 2 in Hp. lia.
    - destruct (Z.le_gt_cases hi' (2 * root + 1)) as [Hex|Hgo].
      { rewrite srt_sift_down_exit by exact Hex. apply srt_spec_ret. lia. }
      destruct fuel as [|f]; [lia|]. cbn [srt_sift_down].
      destruct (Z.leb_spec hi' (2 * root + 1)); [lia|].
      set (P := 2 ^ (Z.of_nat k + 1)).
      assert (HP : 2 ^ (Z.of_nat (S k) + 1) = 2 * P).
      { unfold P. replace (Z.of_nat (S k) + 1) with (Z.succ (Z.of_nat k + 1)) by lia.
        apply Z.pow_succ_r. lia. }
      assert (HP0 : 0 < P) by (apply Z.pow_pos_nonneg; lia).
      rewrite HP in Hp.
      sbind (fun (c : Z) d => (c = 2 * root + 1 \/ c = 2 * root + 2) /\ c < hi' /\ d <= 1).
      + destruct (Z.ltb_spec (2 * root + 1 + 1) hi').
        * sbind (fun (_ : bool) d => d = 1).
          -- apply srt_spec_less; lia.
          -- apply srt_spec_ret. destruct a; lia.
        * apply srt_spec_ret. lia.
      + destruct H0 as (Hc & Hch & Hd1).
        sbind (fun (_ : bool) d => d = 1).
        * apply srt_spec_less; lia.
        * destruct a0; cbn [negb].
          -- sbind (fun (_ : unit) d => d = 0).
             ++ apply srt_spec_swap; lia.
             ++ eapply srt_spec_conseq; [apply (IH f a); try lia; fold P; nia|].
                cbn beta. intros; lia.
          -- apply srt_spec_ret. lia.
  Qed.

  Lemma srt_log2_pow x : 0 <= x -> x < 2 ^ (Z.log2 x + 1).
  Proof.
    intros H. destruct (Z.eq_dec x 0) as [->|Hn]; [reflexivity|].
    replace (Z.log2 x + 1) with (Z.succ (Z.log2 x)) by lia. apply Z.log2_spec. lia.
  Qed.

  Definition srt_heap_cost (n : Z) : Z :=
    (Z.of_nat (Z.to_nat (Z.quot (n - 1) 2 + 1)) + n) * (2 * Z.log2 n).

  Lemma srt_spec_heap_sort lo hi a b :
    0 <= lo -> lo <= a -> a <= b -> b <= hi ->
    spec lo hi (srt_heap_sort less a b) (fun _ d => d <= srt_heap_cost (b - a)).
  Proof.
    intros Hlo Ha Hab Hb. unfold srt_heap_sort, srt_heap_cost.
    set (n := b - a).
    set (kk := Z.to_nat (Z.log2 n)).
    assert (Hn : 0 <= n) by (unfold n; lia).
    assert (Hkk : Z.of_nat kk = Z.log2 n) by (unfold kk; pose proof (Z.log2_nonneg n); lia).
    assert (Hpow : n < 2 ^ (Z.of_nat kk + 1)) by (rewrite Hkk; apply srt_log2_pow; exact Hn).
    assert (HP0 : 0 < 2 ^ (Z.of_nat kk + 1)) by (apply Z.pow_pos_nonneg; lia).
    assert (Hfuel : (kk <= Z.to_nat n)%nat) by (pose proof (Z.log2_le_lin n Hn); lia).
    sbind (fun (_ : unit) d => d <= Z.of_nat (Z.to_nat (Z.quot (n - 1) 2 + 1)) * (2 * Z.of_nat kk)).
    - apply srt_spec_for_down; [lia|]. intros k Hk.
      apply srt_spec_sift_down; try lia; nia.
    - eapply srt_spec_conseq.
      + apply (srt_spec_for_down lo hi (Z.to_nat n) _ (2 * Z.of_nat kk)); [lia|].
        intros k Hk. sbind (fun (_ : unit) d => d = 0).
        * apply srt_spec_swap; lia.
        * eapply srt_spec_conseq; [apply (srt_spec_sift_down lo hi k a kk); try lia|].
          cbn beta. intros; lia.
      + cbn beta. intros _ d Hd _. rewrite <- Hkk. nia.
  Qed.

  (* ---------------- doPivot *)
  Lemma srt_spec_median3 lo hi m1 m0 m2 :
    0 <= lo -> lo <= m1 < hi -> lo <= m0 < hi -> lo <= m2 < hi ->
    spec lo hi (srt_median3 less m1 m0 m2) (fun _ d => d <= 3).
  Proof.
    intros Hlo H1 H0 H2. unfold srt_median3.
    sbind (fun (_ : bool) d => d = 1); [apply srt_spec_less; lia|].
    sbind (fun (_ : unit) d => d = 0).
    { destruct a; [apply srt_spec_swap; lia|apply srt_spec_ret; lia]. }
    sbind (fun (_ : bool) d => d = 1); [apply srt_spec_less; lia|].
    destruct a1.
    - sbind (fun (_ : unit) d => d = 0); [apply srt_spec_swap; lia|].
      sbind (fun (_ : bool) d => d = 1); [apply srt_spec_less; lia|].
      destruct a2; [eapply srt_spec_conseq; [apply srt_spec_swap; lia|cbn beta; intros; lia]
                   |apply srt_spec_ret; lia].
    - apply srt_spec_ret. lia.
  Qed.

  Lemma srt_spec_part_loop lo hi pivot : forall fuel b c,
    0 <= lo -> lo <= pivot < hi -> lo <= b -> c <= hi -> b <= c + 1 ->
    c - b + 1 < Z.of_nat fuel ->
    spec lo hi (srt_part_loop less fuel pivot b c)
      (fun bc d => b <= fst bc /\ snd bc <= c /\ snd bc <= fst bc <= snd bc + 1 /\
                   d <= Z.max 0 (c - b + 1) + 3).
  Proof.
    induction fuel as [|f IH]; intros b c Hlo Hp Hb Hc Hbc Hf; [lia|].
    cbn [srt_part_loop].
    sbind (fun (b1 : Z) d => b <= b1 <= Z.max b c /\ d <= b1 - b + 1).
    { apply srt_spec_scan_up. intros k Hk. apply srt_spec_nless; lia. }
    destruct H as [Hb1 Hd1].
    sbind (fun (c1 : Z) d => Z.min a c <= c1 <= c /\ d <= c - c1 + 1).
    { apply srt_spec_scan_down. intros k Hk. apply srt_spec_less; lia. }
    destruct H as [Hc1 Hd2].
    destruct (Z.leb_spec a0 a).
    - apply srt_spec_ret. cbn [fst snd]. lia.
    - sbind (fun (_ : unit) d => d = 0); [apply srt_spec_swap; lia|].
      eapply srt_spec_conseq; [apply (IH (a + 1) (a0 - 1)); lia|].
      cbn beta. intros [b' c'] d. cbn [fst snd]. intros; lia.
  Qed.

  Lemma srt_spec_prot_loop lo hi pivot : forall fuel a b,
    0 <= lo -> lo <= pivot < hi -> lo <= a -> b <= hi ->
    b - a < Z.of_nat fuel -> (0 < fuel)%nat ->
    spec lo hi (srt_prot_loop less fuel pivot a b)
      (fun b' d => Z.min a b <= b' <= b /\ d <= Z.max 0 (b - a + 1) + 3).
  Proof.
    induction fuel as [|f IH]; intros a b Hlo Hp Ha Hb Hf Hf0; [lia|].
    cbn [srt_prot_loop].
    sbind (fun (b1 : Z) d => Z.min a b <= b1 <= b /\ d <= b - b1 + 1).
    { apply srt_spec_scan_down. intros k Hk. apply srt_spec_nless; lia. }
    destruct H as [Hb1 Hd1].
    sbind (fun (a1 : Z) d => a <= a1 <= Z.max a a0 /\ d <= a1 - a + 1).
    { apply srt_spec_scan_up. intros k Hk. apply srt_spec_less; lia. }
    destruct H as [Ha1 Hd2].
    destruct (Z.leb_spec a0 a1).
    - apply srt_spec_ret. lia.
    - sbind (fun (_ : unit) d => d = 0); [apply srt_spec_swap; lia|].
      eapply srt_spec_conseq; [apply (IH (a1 + 1) (a0 - 1)); lia|].
      cbn beta. intros; lia.
  Qed.

  Tactic Notation "sbindn" constr(Q) "as" simple_intropattern(x) ident(d) simple_intropattern(Hq) :=
    eapply srt_spec_bind with (Q1 := Q); [ | intros x d Hq ? ].

  Lemma srt_spec_do_pivot lo hi :
    0 <= lo -> 12 < hi - lo ->
    spec lo hi (srt_do_pivot less lo hi)
      (fun mm d => lo <= fst mm <= snd mm /\ snd mm <= hi /\ d <= 4 * (hi - lo)).
  Proof.
    intros Hlo Hw. unfold srt_do_pivot.
    sbindn (fun (_ : unit) d => d = 0) as ? d0 Hd0; [apply srt_spec_tick|].
    sbindn (fun (_ : unit) d => d <= 9) as ? d1 Hd1.
    { destruct (Z.ltb_spec 40 (hi - lo)).
      - sbindn (fun (_ : unit) d => d = 0) as ? e0 He0; [apply srt_spec_tick|].
        sbindn (fun (_ : unit) d => d <= 3) as ? e1 He1; [apply srt_spec_median3; lia|].
        sbindn (fun (_ : unit) d => d <= 3) as ? e2 He2; [apply srt_spec_median3; lia|].
        eapply srt_spec_conseq; [apply srt_spec_median3; lia|]. cbn beta. intros; lia.
      - apply srt_spec_ret. lia. }
    sbindn (fun (_ : unit) d => d <= 3) as ? d2 Hd2; [apply srt_spec_median3; lia|].
    sbindn (fun (a : Z) d => lo + 1 <= a <= hi - 1 /\ d <= a - (lo + 1) + 1) as pa d3 [Ha Hd3].
    { eapply srt_spec_conseq; [apply srt_spec_scan_up|].
      - intros k Hk. apply srt_spec_less; lia.
      - cbn beta. intros; lia. }
    sbindn (fun (bc : Z * Z) d => pa <= fst bc /\ snd bc <= hi - 1 /\ snd bc <= fst bc <= snd bc + 1 /\
                                 d <= hi - pa + 3) as [b c] d4 (Hb & Hc & Hbc & Hd4).
    { eapply srt_spec_conseq; [apply srt_spec_part_loop; lia|].
      cbn beta. intros [b c]; cbn [fst snd]. intros; lia. }
    cbn [fst snd] in Hb, Hc, Hbc.
    sbindn (fun (bcp : Z * Z * bool) d =>
             lo + 1 <= fst (fst bcp) <= b /\ c <= snd (fst bcp) <= hi /\ d <= 3)
      as [[b2 c2] protect] d5 (Hb2 & Hc2 & Hd5).
    { destruct (negb (hi - c <? 5) && (hi - c <? (hi - lo) / 4)) eqn:Ed.
      - apply andb_prop in Ed. destruct Ed as [E1 E2].
        apply negb_true_iff in E1. apply Z.ltb_ge in E1. apply Z.ltb_lt in E2.
        sbindn (fun (_ : unit) d => d = 0) as ? e0 He0; [apply srt_spec_tick|].
        sbindn (fun (_ : bool) d => d = 1) as t1 e1 He1; [apply srt_spec_less; lia|].
        sbindn (fun (cd : Z * Z) d => c <= fst cd <= c + 1 /\ d = 0) as [c2 dups] e2 [Hc2 He2].
        { destruct (negb t1).
          - sbindn (fun (_ : unit) d => d = 0) as ? f0 Hf0; [apply srt_spec_swap; lia|].
            apply srt_spec_ret. cbn [fst]. lia.
          - apply srt_spec_ret. cbn [fst]. lia. }
        cbn [fst] in Hc2.
        sbindn (fun (_ : bool) d => d = 1) as t2 e3 He3; [apply srt_spec_less; lia|].
        sbindn (fun (bd : Z * Z) d => b - 1 <= fst bd <= b /\ d = 0) as [b2 dups2] e4 [Hb2 He4].
        { apply srt_spec_ret. destruct (negb t2); cbn [fst]; lia. }
        cbn [fst] in Hb2.
        sbindn (fun (_ : bool) d => d = 1) as t3 e5 He5; [apply srt_spec_less; lia|].
        sbindn (fun (bd : Z * Z) d => b2 - 1 <= fst bd <= b2 /\ d = 0) as [b3 dups3] e6 [Hb3 He6].
        { destruct (negb t3).
          - sbindn (fun (_ : unit) d => d = 0) as ? f0 Hf0; [apply srt_spec_swap; lia|].
            apply srt_spec_ret. cbn [fst]. lia.
          - apply srt_spec_ret. cbn [fst]. lia. }
        cbn [fst] in Hb3.
        apply srt_spec_ret. cbn [fst snd]. lia.
      - apply srt_spec_ret. cbn [fst snd]. lia. }
    cbn [fst snd] in Hb2, Hc2.
    sbindn (fun (b3 : Z) d => lo + 1 <= b3 <= b2 /\ d <= Z.max 0 (b2 - pa + 1) + 3) as b3 d6 [Hb3 Hd6].
    { destruct protect.
      - sbindn (fun (_ : unit) d => d = 0) as ? f0 Hf0; [apply srt_spec_tick|].
        eapply srt_spec_conseq; [apply srt_spec_prot_loop; lia|]. cbn beta. intros; lia.
      - apply srt_spec_ret. lia. }
    sbindn (fun (_ : unit) d => d = 0) as ? d7 Hd7; [apply srt_spec_swap; lia|].
    apply srt_spec_ret. cbn [fst snd]. lia.
  Qed.
End FrameFuns.

(* ------------------------------------------------------------------ quickSort, SliceBy *)
Section FrameTop.
  Context {K V : Type}.
  Variable less : K -> K -> bool.
  Notation spec := (@srt_spec K V).

  Tactic Notation "sbindn" constr(Q) "as" simple_intropattern(x) ident(d) simple_intropattern(Hq) :=
    eapply srt_spec_bind with (Q1 := Q); [ | intros x d Hq ? ].

  Lemma srt_heap_cost_le n : 2 <= n -> srt_heap_cost n <= 4 * n * Z.log2 n.
  Proof.
    intros Hn. unfold srt_heap_cost. rewrite Z.quot_div_nonneg by lia.
    pose proof (Z.log2_nonneg n). nia.
  Qed.

  Lemma srt_spec_quick_sort lo hi L : forall fuel depth a b,
    (depth < fuel)%nat -> 0 <= lo -> lo <= a -> a <= b -> b <= hi ->
    0 <= L -> Z.log2 (b - a) <= L ->
    spec lo hi (srt_quick_sort less fuel a b depth)
      (fun _ d => d <= (b - a) * (4 * Z.of_nat depth + 4 * L + 12)).
  Proof.
    induction fuel as [|f IH]; intros depth a b Hf Hlo Ha Hab Hb HL HLog; [lia|].
    cbn [srt_quick_sort].
    destruct (Z.ltb_spec 12 (b - a)) as [Hbig|Hsmall].
    - destruct depth as [|d'].
      + sbindn (fun (_ : unit) d => d = 0) as ? d0 Hd0; [apply srt_spec_tick|].
        eapply srt_spec_conseq; [apply srt_spec_heap_sort; lia|].
        cbn beta. intros _ d Hd _. pose proof (srt_heap_cost_le (b - a)). nia.
      + sbindn (fun (mm : Z * Z) d => a <= fst mm <= snd mm /\ snd mm <= b /\ d <= 4 * (b - a))
          as [mlo mhi] d0 (Hm1 & Hm2 & Hd0).
        { apply (srt_spec_widen a b lo hi); [lia|lia|]. apply srt_spec_do_pivot; lia. }
        cbn [fst snd] in Hm1, Hm2.
        assert (HL1 : Z.log2 (mlo - a) <= L) by (pose proof (Z.log2_le_mono (mlo - a) (b - a)); lia).
        assert (HL2 : Z.log2 (b - mhi) <= L) by (pose proof (Z.log2_le_mono (b - mhi) (b - a)); lia).
        destruct (mlo - a <? b - mhi).
        * sbindn (fun (_ : unit) d => d = 0) as ? d1 Hd1; [apply srt_spec_tick|].
          sbindn (fun (_ : unit) d => d <= (mlo - a) * (4 * Z.of_nat d' + 4 * L + 12)) as ? d2 Hd2;
            [apply IH; lia|].
          eapply srt_spec_conseq; [apply (IH d' mhi b); lia|].
          cbn beta. intros _ d Hd _. nia.
        * sbindn (fun (_ : unit) d => d = 0) as ? d1 Hd1; [apply srt_spec_tick|].
          sbindn (fun (_ : unit) d => d <= (b - mhi) * (4 * Z.of_nat d' + 4 * L + 12)) as ? d2 Hd2;
            [apply IH; lia|].
          eapply srt_spec_conseq; [apply (IH d' a mlo); lia|].
          cbn beta. intros _ d Hd _. nia.
    - destruct (Z.ltb_spec 1 (b - a)) as [H2|H1].
      + sbindn (fun (_ : unit) d => d = 0) as ? d0 Hd0; [apply srt_spec_tick|].
        sbindn (fun (_ : unit) d => d <= Z.max 0 (b - (a + 6)) * 1) as ? d1 Hd1.
        { apply srt_spec_for; [lia|]. intros k Hk.
          sbindn (fun (_ : bool) d => d = 1) as t e0 He0; [apply srt_spec_less; lia|].
          destruct t; [eapply srt_spec_conseq; [apply srt_spec_swap; lia|cbn beta; intros; lia]
                      |apply srt_spec_ret; lia]. }
        eapply srt_spec_conseq; [apply srt_spec_insertion_sort; lia|].
        cbn beta. intros _ d Hd _. nia.
      + apply srt_spec_ret. nia.
  Qed.

  (* maxDepth *)
  Lemma srt_bitlen_le f : forall i, Z.of_nat (srt_bitlen f i) <= Z.log2 i + 1.
  Proof.
    induction f as [|f IH]; intros i; cbn [srt_bitlen].
    - pose proof (Z.log2_nonneg i). lia.
    - destruct (Z.ltb_spec 0 i) as [Hp|Hn]; [|pose proof (Z.log2_nonneg i); lia].
      specialize (IH (i / 2)).
      destruct (Z.eq_dec (i / 2) 0) as [E|E].
      + rewrite E. assert (Hz : srt_bitlen f 0 = O) by (destruct f; reflexivity).
        rewrite Hz. pose proof (Z.log2_nonneg i). lia.
      + assert (Hh : 0 < i / 2) by lia.
        assert (Hl : Z.log2 i = Z.succ (Z.log2 (i / 2))).
        { destruct (Z.eq_dec (i mod 2) 0).
          - replace i with (2 * (i / 2)) at 1 by lia. apply Z.log2_double. exact Hh.
          - replace i with (2 * (i / 2) + 1) at 1 by lia. apply Z.log2_succ_double. exact Hh. }
        lia.
  Qed.

  Lemma srt_max_depth_le n : Z.of_nat (srt_max_depth n) <= 2 * (Z.log2 n + 1).
  Proof. unfold srt_max_depth. pose proof (srt_bitlen_le 64 n). lia. Qed.

  Definition srt_prefix_len (keys : list K) (vals : list V) : Z :=
    Z.min (Z.of_nat (length keys)) (Z.of_nat (length vals)).

  (* SliceBy with any fuel above maxDepth(n): returns normally, inside the frame [0, n) *)
  Lemma srt_sliceby_fuel_spec fuel keys vals :
    let n := srt_prefix_len keys vals in
    (srt_max_depth n < fuel)%nat ->
    exists s', srt_sliceby_fuel less fuel keys vals = SOk s' /\
               srt_frame 0 n (srt_init keys vals) s' /\
               Z.of_N (st_cmp s') <= n * (4 * Z.of_nat (srt_max_depth n) + 4 * Z.log2 n + 12).
  Proof.
    intros n Hf. unfold srt_sliceby_fuel. fold (srt_prefix_len keys vals). fold n.
    destruct (Z.leb_spec n 1) as [H1|H1].
    - exists (srt_init keys vals). split; [reflexivity|]. split; [apply srt_frame_refl|].
      cbn [srt_init st_cmp]. pose proof (Z.log2_nonneg n).
      assert (0 <= n) by (unfold n, srt_prefix_len; lia). nia.
    - destruct (srt_spec_quick_sort 0 n (Z.log2 n) fuel (srt_max_depth n) 0 n) with (s := srt_init keys vals)
        as (u & s' & E & F & Hc); try lia.
      + apply Z.log2_nonneg.
      + replace (n - 0) with n by lia. lia.
      + unfold srt_wf, srt_init, n, srt_prefix_len. cbn [st_keys st_vals]. lia.
      + rewrite E. exists s'. split; [reflexivity|]. split; [exact F|].
        cbn [srt_init st_cmp] in Hc. replace (n - 0) with n in Hc by lia. lia.
  Qed.

  Lemma srt_sliceby_spec keys vals :
    let n := srt_prefix_len keys vals in
    exists s', srt_sliceby less keys vals = SOk s' /\
               srt_frame 0 n (srt_init keys vals) s' /\
               Z.of_N (st_cmp s') <= 12 * n * (Z.log2 n + 2).
  Proof.
    intros n. unfold srt_sliceby. fold (srt_prefix_len keys vals). fold n.
    destruct (srt_sliceby_fuel_spec (S (srt_max_depth n)) keys vals) as (s' & E & F & Hc); [fold n; lia|].
    fold n in E, F, Hc. exists s'. split; [exact E|]. split; [exact F|].
    pose proof (srt_max_depth_le n). pose proof (Z.log2_nonneg n).
    assert (0 <= n) by (unfold n, srt_prefix_len; lia). nia.
  Qed.
End FrameTop.

(* ------------------------------------------------------------------ from the frame to list statements *)
Lemma srt_nth_error_ext {A} (l l' : list A) :
  (forall i, nth_error l i = nth_error l' i) -> l = l'.
Proof.
  revert l'. induction l as [|x l IH]; intros [|y l'] H.
  - reflexivity.
  - specialize (H O). discriminate.
  - specialize (H O). discriminate.
  - pose proof (H O) as H0. cbn in H0. injection H0 as ->. f_equal. apply IH.
    intros i. apply (H (S i)).
Qed.

Lemma srt_nth_error_skipn {A} (l : list A) n k : nth_error (skipn n l) k = nth_error l (n + k).
Proof.
  revert l. induction n as [|n IH]; intros l; [reflexivity|].
  destruct l; [destruct k; reflexivity|]. cbn. apply IH.
Qed.

Lemma srt_skipn_eq {A} (l l' : list A) (n : nat) :
  (forall i, Z.of_nat n <= i -> srt_zget l' i = srt_zget l i) -> skipn n l' = skipn n l.
Proof.
  intros H. apply srt_nth_error_ext. intros i. rewrite !srt_nth_error_skipn.
  specialize (H (Z.of_nat (n + i))). rewrite !srt_zget_nat in H by lia.
  rewrite Nat2Z.id in H. apply H. lia.
Qed.

Lemma srt_combine_prefix {A B} (l1 : list A) (l2 : list B) :
  let n := Nat.min (length l1) (length l2) in
  combine l1 l2 = combine (firstn n l1) (firstn n l2).
Proof.
  intros n. rewrite <- combine_firstn. symmetry. apply firstn_all2. rewrite combine_length. lia.
Qed.

Section Results.
  Context {K V : Type}.
  Variable less : K -> K -> bool.

  Lemma sliceby_no_panic (keys : list K) (vals : list V) :
    exists s', srt_sliceby less keys vals = SOk s'.
  Proof. destruct (srt_sliceby_spec less keys vals) as (s' & E & _). eauto. Qed.

  Lemma sliceby_fuel_ok (keys : list K) (vals : list V) fuel :
    let n := srt_prefix_len keys vals in
    (srt_max_depth n < fuel)%nat ->
    Z.of_nat (srt_max_depth n) <= 2 * (Z.log2 n + 1) /\
    exists s', srt_sliceby_fuel less fuel keys vals = SOk s'.
  Proof.
    intros n Hf. split; [apply srt_max_depth_le|].
    destruct (srt_sliceby_fuel_spec less fuel keys vals Hf) as (s' & E & _). eauto.
  Qed.

  Lemma sliceby_perm_coupled (keys : list K) (vals : list V) s' :
    srt_sliceby less keys vals = SOk s' ->
    let n := Nat.min (length keys) (length vals) in
    length (st_keys s') = length keys /\ length (st_vals s') = length vals /\
    Permutation (combine (firstn n (st_keys s')) (firstn n (st_vals s')))
                (combine (firstn n keys) (firstn n vals)).
  Proof.
    intros E n. destruct (srt_sliceby_spec less keys vals) as (s1 & E1 & F & _).
    rewrite E in E1. injection E1 as <-.
    destruct F as [Lk Lv _ _ P _ _]. cbn [srt_init st_keys st_vals] in *.
    split; [exact Lk|]. split; [exact Lv|].
    pose proof (srt_combine_prefix (st_keys s') (st_vals s')) as H1. cbn zeta in H1.
    rewrite Lk, Lv in H1. fold n in H1. rewrite <- H1.
    pose proof (srt_combine_prefix keys vals) as H2. cbn zeta in H2. fold n in H2. rewrite <- H2.
    exact P.
  Qed.

  Lemma sliceby_suffix_untouched (keys : list K) (vals : list V) s' :
    srt_sliceby less keys vals = SOk s' ->
    let n := Nat.min (length keys) (length vals) in
    skipn n (st_keys s') = skipn n keys /\ skipn n (st_vals s') = skipn n vals.
  Proof.
    intros E n. destruct (srt_sliceby_spec less keys vals) as (s1 & E1 & F & _).
    rewrite E in E1. injection E1 as <-.
    destruct F as [_ _ Ok Ov _ _ _]. cbn [srt_init st_keys st_vals] in *.
    unfold srt_prefix_len in *.
    split; apply srt_skipn_eq; intros i Hi; [apply Ok|apply Ov]; right; unfold n in Hi; lia.
  Qed.

  Lemma sliceby_comparisons (keys : list K) (vals : list V) s' :
    srt_sliceby less keys vals = SOk s' ->
    let n := srt_prefix_len keys vals in
    Z.of_N (st_cmp s') <= 12 * n * (Z.log2 n + 2).
  Proof.
    intros E n. destruct (srt_sliceby_spec less keys vals) as (s1 & E1 & _ & Hc).
    rewrite E in E1. injection E1 as <-. exact Hc.
  Qed.
End Results.
