(* FifoProofs.v -- facts about the abstract seekable-FIFO specification (Fifo.v) that hold
   for every op sequence and every choice of optional compactions. *)
From Got Require Import Base GoSlice Fifo.
Local Open Scope nat_scope.

Definition fifo_inv (f : fifo) : Prop := f_cur f <= length (f_ret f).

Lemma fifo_inv_init : fifo_inv fifo_init.
Proof. unfold fifo_inv; cbn; lia. Qed.

Lemma fifo_compact_unread f : fifo_unread (fifo_compact f) = fifo_unread f.
Proof. reflexivity. Qed.

Lemma fifo_compact_inv f : fifo_inv (fifo_compact f).
Proof. unfold fifo_inv; cbn; lia. Qed.

Lemma fifo_seek_target_range f o w t :
  fifo_seek_target f o w = Some t -> (0 <= t <= Z.of_nat (length (f_ret f)))%Z.
Proof.
  unfold fifo_seek_target.
  destruct (if (w =? 0)%Z then Some 0%Z else if (w =? 1)%Z then Some (Z.of_nat (f_cur f))
            else if (w =? 2)%Z then Some (Z.of_nat (length (f_ret f))) else None) as [b|]; [|discriminate].
  cbn zeta. destruct ((0 <=? b + o)%Z && (b + o <=? Z.of_nat (length (f_ret f)))%Z) eqn:E; [|discriminate].
  intros H; inversion H; subst. lia.
Qed.

Lemma fifo_step_inv c f op : fifo_inv f -> fifo_inv (fst (fifo_step c f op)).
Proof.
  intros Hi. destruct op; cbn [fifo_step fst].
  - destruct c; unfold fifo_inv in *; cbn; rewrite app_length; lia.
  - unfold fifo_inv in *; cbn. rewrite firstn_length. unfold fifo_unread. rewrite skipn_length. lia.
  - destruct (fifo_seek_target f offset whence) eqn:E; cbn; [|exact Hi].
    apply fifo_seek_target_range in E. unfold fifo_inv; cbn. lia.
  - apply fifo_compact_inv.
  - apply fifo_inv_init.
  - destruct c; [apply fifo_compact_inv | exact Hi].
Qed.

Lemma fifo_run_inv l : forall f f' rs, fifo_inv f -> fifo_run f l = (f', rs) -> fifo_inv f'.
Proof.
  induction l as [|[c op] tl IH]; intros f f' rs Hi Hr; cbn in Hr.
  - inversion Hr; subst; exact Hi.
  - destruct (fifo_step c f op) as [f1 r] eqn:E1.
    destruct (fifo_run f1 tl) as [f2 rs2] eqn:E2. inversion Hr; subst.
    eapply IH; [|exact E2]. pose proof (fifo_step_inv c f op Hi) as H. rewrite E1 in H. exact H.
Qed.

(* statement-level facts on the specification *)
Lemma fifo_write_unread c f p f' r :
  fifo_inv f -> fifo_step c f (FWrite p) = (f', r) -> fifo_unread f' = fifo_unread f ++ p.
Proof.
  intros Hi H. cbn in H. inversion H; subst; clear H. unfold fifo_unread, fifo_inv in *.
  destruct c; cbn.
  - reflexivity.
  - rewrite skipn_app. replace (f_cur f - length (f_ret f)) with 0 by lia. reflexivity.
Qed.

Lemma fifo_read_unread c f n f' r :
  fifo_inv f -> fifo_step c f (FRead n) = (f', r) ->
  r = FRData (firstn n (fifo_unread f)) /\ fifo_unread f' = skipn n (fifo_unread f) /\ f_ret f' = f_ret f.
Proof.
  intros Hi H. cbn in H. inversion H; subst; clear H. split; [reflexivity|]. split; [|reflexivity].
  unfold fifo_unread; cbn. rewrite firstn_length, skipn_length.
  rewrite gs_skipn_skipn. unfold fifo_inv in Hi.
  destruct (Nat.le_ge_cases n (length (f_ret f) - f_cur f)) as [Hle|Hge].
  - rewrite Nat.min_l by lia. reflexivity.
  - rewrite Nat.min_r by lia. rewrite !skipn_all2; [reflexivity|lia|lia].
Qed.

(* conservation: without Seek/Reset, everything read so far followed by the unread
   portion is everything written, in order *)
Lemma fifo_conservation_gen l : forall f f' rs,
  forallb (fun co => fifo_op_linear (snd co)) l = true ->
  fifo_inv f -> fifo_run f l = (f', rs) ->
  fifo_unread f ++ fifo_all_writes l = fifo_all_reads rs ++ fifo_unread f'.
Proof.
  induction l as [|[c op] tl IH]; intros f f' rs Hl Hi Hr; cbn in Hr.
  - inversion Hr; subst. cbn. rewrite app_nil_r. reflexivity.
  - cbn in Hl. apply andb_prop in Hl. destruct Hl as [Hop Hl].
    destruct (fifo_step c f op) as [f1 r] eqn:E1.
    destruct (fifo_run f1 tl) as [f2 rs2] eqn:E2. inversion Hr; subst; clear Hr.
    assert (Hi1 : fifo_inv f1).
    { pose proof (fifo_step_inv c f op Hi) as H. rewrite E1 in H. exact H. }
    specialize (IH f1 f' rs2 Hl Hi1 E2).
    unfold fifo_all_writes, fifo_all_reads in *. cbn [flat_map snd].
    destruct op; cbn in Hop; try discriminate.
    + (* write *)
      pose proof (fifo_write_unread c f p f1 r Hi E1) as Hu.
      cbn in E1. inversion E1; subst r. cbn. rewrite app_assoc, <- Hu. exact IH.
    + (* read *)
      destruct (fifo_read_unread c f n f1 r Hi E1) as (Hr & Hu & _). subst r. cbn.
      rewrite <- app_assoc, <- IH, app_assoc, Hu, firstn_skipn. reflexivity.
    + (* tidy *)
      cbn in E1. inversion E1; subst. cbn. rewrite <- IH. reflexivity.
    + (* grow *)
      cbn in E1. inversion E1; subst. cbn. rewrite <- IH. destruct c; reflexivity.
Qed.

(* the retained data is always a suffix of what was written since the last Reset: the
   byte at retained position p is the byte originally written at stream offset d+p *)
Lemma fifo_retained_gen l : forall f f' rs acc d,
  fifo_inv f -> d <= length acc -> f_ret f = skipn d acc ->
  fifo_run f l = (f', rs) ->
  exists d', d' <= length (fifo_written acc l) /\ f_ret f' = skipn d' (fifo_written acc l).
Proof.
  induction l as [|[c op] tl IH]; intros f f' rs acc d Hi Hd Hret Hr; cbn in Hr.
  - inversion Hr; subst. cbn. exists d. split; [exact Hd|exact Hret].
  - destruct (fifo_step c f op) as [f1 r] eqn:E1.
    destruct (fifo_run f1 tl) as [f2 rs2] eqn:E2. inversion Hr; subst; clear Hr.
    assert (Hi1 : fifo_inv f1).
    { pose proof (fifo_step_inv c f op Hi) as H. rewrite E1 in H. exact H. }
    assert (Hcomp : f_ret (fifo_compact f) = skipn (d + f_cur f) acc /\ d + f_cur f <= length acc).
    { cbn. rewrite Hret, gs_skipn_skipn. unfold fifo_inv in Hi. rewrite Hret, skipn_length in Hi.
      split; [f_equal; lia | lia]. }
    destruct Hcomp as [Hc1 Hc2].
    destruct op; cbn in E1; cbn [fifo_written].
    + (* write *)
      inversion E1; subst; clear E1.
      destruct c.
      * eapply (IH _ _ _ (acc ++ p) (d + f_cur f)); [exact Hi1| | |exact E2].
        -- rewrite app_length; lia.
        -- cbn [f_ret]. rewrite Hc1. rewrite skipn_app.
           replace (d + f_cur f - length acc) with 0 by lia. reflexivity.
      * eapply (IH _ _ _ (acc ++ p) d); [exact Hi1| | |exact E2].
        -- rewrite app_length; lia.
        -- cbn [f_ret]. rewrite Hret, skipn_app. replace (d - length acc) with 0 by lia. reflexivity.
    + inversion E1; subst; clear E1. eapply (IH _ _ _ acc d); eauto.
    + destruct (fifo_seek_target f offset whence); inversion E1; subst; clear E1;
        eapply (IH _ _ _ acc d); eauto.
    + inversion E1; subst; clear E1. eapply (IH _ _ _ acc (d + f_cur f)); eauto.
    + inversion E1; subst; clear E1. eapply (IH _ _ _ [] 0); eauto.
    + inversion E1; subst; clear E1. destruct c.
      * eapply (IH _ _ _ acc (d + f_cur f)); eauto.
      * eapply (IH _ _ _ acc d); eauto.
Qed.

Theorem fifo_conservation l f rs :
  forallb (fun co => fifo_op_linear (snd co)) l = true ->
  fifo_run fifo_init l = (f, rs) ->
  fifo_all_reads rs ++ fifo_unread f = fifo_all_writes l.
Proof.
  intros Hl Hr. symmetry. apply (fifo_conservation_gen l fifo_init f rs Hl fifo_inv_init Hr).
Qed.

Theorem fifo_retained_suffix_of_written l f rs :
  fifo_run fifo_init l = (f, rs) ->
  exists d, d <= length (fifo_written [] l) /\ f_ret f = skipn d (fifo_written [] l) /\
            f_cur f <= length (f_ret f).
Proof.
  intros Hr.
  destruct (fifo_retained_gen l fifo_init f rs [] 0 fifo_inv_init (Nat.le_refl _) eq_refl Hr) as (d & H1 & H2).
  exists d. split; [exact H1|]. split; [exact H2|]. exact (fifo_run_inv l _ _ _ fifo_inv_init Hr).
Qed.
