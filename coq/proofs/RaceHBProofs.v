(* RaceHBProofs.v -- the vector-clock monitor of lib/Race.v agrees with the relational
   happens-before definition of a data race of lib/RaceHB.v:
     hbp_sound     rc_raced (rc_run n tr) = true -> hb_race tr          (any n, any trace)
     hbp_complete  hb_wf n tr -> hb_race tr -> rc_raced (rc_run n tr) = true
   Everything is constructive (the flag is a boolean; completeness is proved as
   "no flag -> every conflicting pair is hb-ordered").

   Method.  st k = monitor state after the first k events.  ep i = own clock component of
   the thread of event i just before event i (its epoch).  Invariant (hbp_vc_inv), for i < k
   with thread u:
     ep i <= C_t[u]  <->  event i happens-before-or-equals some event of t before k
     ep i <= L_o[u]  <->  event i happens-before-or-equals some release on o before k
   (a release increments the own clock, so all events of u up to and including its next
   release share an epoch, and they become known to others exactly through that release).
   Access history (hbp_ah_inv): W_x records a real write with its epoch, R_x[u] a real read;
   while no race is flagged, every earlier write of x is hb-before-or-equal the recorded
   one and every earlier read of x by u is po-before-or-equal the recorded one. *)
From Coq Require Import Relations Setoid.
From Got Require Import Base ListAux Race RaceProofs RaceHB.
Local Open Scope nat_scope.

(* ------------------------------------------------------------------ the monitor step, componentwise *)
Lemma rc_step_C n m t e t' u :
  rc_C (rc_step n m t e) t' u =
  if t' =? t then
    match e with
    | RRead _ | RWrite _ => rc_C m t u
    | RRel _ => if u =? t then S (rc_C m t t) else rc_C m t u
    | RAcq o => Nat.max (rc_C m t u) (rc_L m o u)
    | RAcqRel o => if u =? t then S (Nat.max (rc_C m t t) (rc_L m o t))
                   else Nat.max (rc_C m t u) (rc_L m o u)
    end
  else rc_C m t' u.
Proof.
  destruct e; cbn [rc_step rc_C]; unfold rc_inc, rc_join, rc_upd;
    destruct (Nat.eqb_spec t' t); try reflexivity;
    destruct (Nat.eqb_spec u t); subst; reflexivity.
Qed.

Lemma rc_step_L n m t e o' u :
  rc_L (rc_step n m t e) o' u =
  match e with
  | RRel o => if o' =? o then Nat.max (rc_L m o u) (rc_C m t u) else rc_L m o' u
  | RAcqRel o => if o' =? o then Nat.max (rc_C m t u) (rc_L m o u) else rc_L m o' u
  | _ => rc_L m o' u
  end.
Proof.
  destruct e; cbn [rc_step rc_L]; unfold rc_join, rc_upd; try reflexivity;
    destruct (Nat.eqb_spec o' o); reflexivity.
Qed.

(* the check a step performs *)
Definition hbp_check (n : nat) (m : rc_mon) (t : nat) (e : rc_ev) : bool :=
  match e with
  | RRead x => rc_Wc m x <=? rc_C m t (rc_Wt m x)
  | RWrite x => (rc_Wc m x <=? rc_C m t (rc_Wt m x))
                && forallb (fun u => rc_R m x u <=? rc_C m t u) (seq 0 n)
  | _ => true
  end.

Lemma rc_step_raced n m t e :
  rc_raced (rc_step n m t e) = rc_raced m || negb (hbp_check n m t e).
Proof. destruct e; cbn [rc_step rc_raced hbp_check negb]; rewrite ?orb_false_r; reflexivity. Qed.

Lemma hbp_firstn_snoc {A} (l : list A) k a :
  nth_error l k = Some a -> firstn (S k) l = firstn k l ++ [a].
Proof.
  revert k. induction l as [|b l IH]; intros [|k] H; cbn in *; try discriminate.
  - inversion H. reflexivity.
  - f_equal. apply IH. exact H.
Qed.

Section HB.
Variable n : nat.
Variable tr : hb_trace.

(* ------------------------------------------------------------------ prefix states *)
Definition hbp_st (k : nat) : rc_mon := rc_run n (firstn k tr).

Lemma hbp_st_0 : hbp_st 0 = rc_init.
Proof. reflexivity. Qed.

Lemma hbp_st_S k t e : nth_error tr k = Some (t, e) -> hbp_st (S k) = rc_step n (hbp_st k) t e.
Proof.
  intros H. unfold hbp_st, rc_run. rewrite (hbp_firstn_snoc _ _ _ H), fold_left_app. reflexivity.
Qed.

Lemma hbp_st_all : hbp_st (length tr) = rc_run n tr.
Proof. unfold hbp_st. rewrite firstn_all. reflexivity. Qed.

(* epoch of event i *)
Definition hbp_ep (i : nat) : nat :=
  match nth_error tr i with Some (t, _) => rc_C (hbp_st i) t t | None => 0 end.

(* ------------------------------------------------------------------ happens-before facts *)
Lemma hbp_edge_lt i j : hb_edge tr i j -> i < j.
Proof. intros [[H _]|[H _]]; exact H. Qed.

Lemma hbp_hb_lt i j : hb_hb tr i j -> i < j.
Proof.
  unfold hb_hb. induction 1 as [i j H|i m j _ IH1 _ IH2]; [apply hbp_edge_lt; exact H|lia].
Qed.

(* last edge of a chain *)
Lemma hbp_hb_last i k :
  hb_hb tr i k <-> exists j, (i = j \/ hb_hb tr i j) /\ hb_edge tr j k.
Proof.
  unfold hb_hb. split.
  - induction 1 as [i k H|i m k H1 _ _ IH2].
    + exists i. split; [left; reflexivity|exact H].
    + destruct IH2 as [j [Hj He]]. exists j. split; [right|exact He].
      destruct Hj as [<-|Hj]; [exact H1|eapply t_trans; eassumption].
  - intros [j [[->|H] He]]; [apply t_step; exact He|].
    eapply t_trans; [exact H|apply t_step; exact He].
Qed.

(* event i is known to thread t at time k / to object o at time k *)
Definition hbp_knows (k t i : nat) : Prop :=
  exists j, j < k /\ (exists e, nth_error tr j = Some (t, e)) /\ (i = j \/ hb_hb tr i j).
Definition hbp_lknows (k o i : nat) : Prop :=
  exists j, j < k /\ (exists t e, nth_error tr j = Some (t, e) /\ hb_is_rel e o)
            /\ (i = j \/ hb_hb tr i j).

Lemma hbp_knows_S k t e t' i :
  nth_error tr k = Some (t, e) ->
  (hbp_knows (S k) t' i <-> hbp_knows k t' i \/ (t' = t /\ (i = k \/ hb_hb tr i k))).
Proof.
  intros Ek. split.
  - intros [j [Hj [[e' He'] Hi]]]. destruct (Nat.eq_dec j k) as [->|Hne].
    + right. rewrite Ek in He'. inversion He'; subst. split; [reflexivity|exact Hi].
    + left. exists j. split; [lia|]. split; [exists e'; exact He'|exact Hi].
  - intros [[j [Hj [He' Hi]]]|[-> Hi]].
    + exists j. split; [lia|]. split; assumption.
    + exists k. split; [lia|]. split; [exists e; exact Ek|exact Hi].
Qed.

Lemma hbp_lknows_S k t e o i :
  nth_error tr k = Some (t, e) ->
  (hbp_lknows (S k) o i <-> hbp_lknows k o i \/ (hb_is_rel e o /\ (i = k \/ hb_hb tr i k))).
Proof.
  intros Ek. split.
  - intros [j [Hj [[t' [e' [He' Hr]]] Hi]]]. destruct (Nat.eq_dec j k) as [->|Hne].
    + right. rewrite Ek in He'. inversion He'; subst. split; [exact Hr|exact Hi].
    + left. exists j. split; [lia|]. split; [exists t', e'; split; assumption|exact Hi].
  - intros [[j [Hj [He' Hi]]]|[Hr Hi]].
    + exists j. split; [lia|]. split; assumption.
    + exists k. split; [lia|]. split; [exists t, e; split; assumption|exact Hi].
Qed.

Lemma hbp_hb_into k t e i :
  nth_error tr k = Some (t, e) ->
  (hb_hb tr i k <-> hbp_knows k t i \/ exists o, hb_is_acq e o /\ hbp_lknows k o i).
Proof.
  intros Ek. rewrite hbp_hb_last. split.
  - intros [j [Hi [[Hlt [t0 [e1 [e2 [H1 H2]]]]]|[Hlt [t1 [e1 [t2 [e2 [o [H1 [H2 [Hr Ha]]]]]]]]]]]].
    + rewrite Ek in H2. inversion H2; subst. left. exists j.
      split; [exact Hlt|]. split; [exists e1; exact H1|exact Hi].
    + rewrite Ek in H2. inversion H2; subst. right. exists o. split; [exact Ha|].
      exists j. split; [exact Hlt|]. split; [exists t1, e1; split; assumption|exact Hi].
  - intros [[j [Hj [[e' He'] Hi]]]|[o [Ha [j [Hj [[t1 [e1 [H1 Hr]]] Hi]]]]]].
    + exists j. split; [exact Hi|]. left. split; [exact Hj|]. exists t, e', e. split; assumption.
    + exists j. split; [exact Hi|]. right. split; [exact Hj|].
      exists t1, e1, t, e, o. repeat split; assumption.
Qed.

Lemma hbp_known_hb k t e i : nth_error tr k = Some (t, e) -> hbp_knows k t i -> hb_hb tr i k.
Proof. intros Ek H. apply (hbp_hb_into _ _ _ _ Ek). left. exact H. Qed.

Lemma hbp_hb_known k t e i :
  nth_error tr k = Some (t, e) -> (forall o, ~ hb_is_acq e o) -> hb_hb tr i k -> hbp_knows k t i.
Proof.
  intros Ek Hna H. apply (hbp_hb_into _ _ _ _ Ek) in H. destruct H as [H|[o [Ha _]]]; [exact H|].
  exfalso. exact (Hna o Ha).
Qed.

(* ------------------------------------------------------------------ clock characterisation *)
Record hbp_vc_inv (k : nat) : Prop := {
  vi_C : forall t i u e, nth_error tr i = Some (u, e) -> i < k ->
           (hbp_knows k t i <-> hbp_ep i <= rc_C (hbp_st k) t u);
  vi_L : forall o i u e, nth_error tr i = Some (u, e) -> i < k ->
           (hbp_lknows k o i <-> hbp_ep i <= rc_L (hbp_st k) o u);
  vi_ltC : forall t t', t' <> t -> rc_C (hbp_st k) t' t < rc_C (hbp_st k) t t;
  vi_ltL : forall o t, rc_L (hbp_st k) o t < rc_C (hbp_st k) t t
}.

Lemma hbp_vc_0 : hbp_vc_inv 0.
Proof.
  constructor.
  - intros; lia.
  - intros; lia.
  - intros t t' H. rewrite hbp_st_0. cbn. rewrite Nat.eqb_refl.
    destruct (Nat.eqb_spec t t'); [congruence|lia].
  - intros o t. rewrite hbp_st_0. cbn. rewrite Nat.eqb_refl. lia.
Qed.

Lemma hbp_vc_S k : k < length tr -> hbp_vc_inv k -> hbp_vc_inv (S k).
Proof.
  intros Hk [IC IL IltC IltL].
  destruct (nth_error tr k) as [[t e]|] eqn:Ek; [|apply nth_error_None in Ek; lia].
  assert (Hown : forall i ei, i < k -> nth_error tr i = Some (t, ei) ->
                              hbp_ep i <= rc_C (hbp_st k) t t).
  { intros i ei Hi Hn. apply (IC t i t ei Hn Hi). exists i. split; [exact Hi|].
    split; [exists ei; exact Hn|left; reflexivity]. }
  assert (Hepk : hbp_ep k = rc_C (hbp_st k) t t) by (unfold hbp_ep; rewrite Ek; reflexivity).
  assert (Hnhb : ~ hb_hb tr k k) by (intros H; apply hbp_hb_lt in H; lia).
  assert (Hnk : forall t', ~ hbp_knows k t' k).
  { intros t' [j [Hj [_ [->|H]]]]; [lia|apply hbp_hb_lt in H; lia]. }
  assert (Hnlk : forall o, ~ hbp_lknows k o k).
  { intros o [j [Hj [_ [->|H]]]]; [lia|apply hbp_hb_lt in H; lia]. }
  constructor.
  - (* thread clocks *)
    intros t' i u ei Hn Hi.
    rewrite (hbp_knows_S _ _ _ _ _ Ek), (hbp_st_S _ _ _ Ek), rc_step_C.
    destruct (Nat.eq_dec i k) as [->|Hne].
    + rewrite Ek in Hn. inversion Hn; subst u ei. rewrite Hepk.
      specialize (IltC t t'). specialize (Hnk t').
      destruct (Nat.eqb_spec t' t) as [->|Hne].
      * split; [intros _|intros _; right; split; [reflexivity|left; reflexivity]].
        destruct e; rewrite ?Nat.eqb_refl; lia.
      * split; [intros [H|[H _]]; contradiction|intros H; exfalso; specialize (IltC Hne); lia].
    + assert (Hi' : i < k) by lia.
      rewrite (hbp_hb_into _ _ _ _ Ek).
      pose proof (IC t' i u ei Hn Hi') as IC1. pose proof (IC t i u ei Hn Hi') as IC2.
      assert (HA : (exists o, hb_is_acq e o /\ hbp_lknows k o i) <->
                   match e with
                   | RAcq o | RAcqRel o => hbp_ep i <= rc_L (hbp_st k) o u
                   | _ => False
                   end).
      { destruct e as [x|x|o|o|o]; cbn [hb_is_acq].
        1-3: split; [intros [o' [[] _]]|intros []].
        1-2: rewrite <- (IL o i u ei Hn Hi');
          (split; [intros [o' [<- H]]; exact H|intros H; exists o; split; [reflexivity|exact H]]). }
      rewrite HA, IC1, IC2. clear HA IC1 IC2.
      destruct (Nat.eqb_spec t' t) as [->|Hne'].
      * destruct e as [x|x|o|o|o]; try lia.
        -- destruct (Nat.eqb_spec u t) as [->|Hu]; [|lia].
           pose proof (Hown i ei Hi' Hn). lia.
        -- destruct (Nat.eqb_spec u t) as [->|Hu]; [|lia].
           pose proof (Hown i ei Hi' Hn). lia.
      * lia.
  - (* object clocks *)
    intros o i u ei Hn Hi.
    rewrite (hbp_lknows_S _ _ _ _ _ Ek), (hbp_st_S _ _ _ Ek), rc_step_L.
    destruct (Nat.eq_dec i k) as [->|Hne].
    + rewrite Ek in Hn. inversion Hn; subst u ei. rewrite Hepk.
      specialize (IltL o t) as HL. specialize (Hnlk o).
      destruct e as [x|x|o'|o'|o']; cbn [hb_is_rel].
      1,2,4: split; [intros [H|[[] _]]; contradiction|intros H; exfalso; lia].
      1-2: destruct (Nat.eqb_spec o o') as [->|Hne];
        [split; [intros _; lia|intros _; right; split; [reflexivity|left; reflexivity]]
        |split; [intros [H|[H _]]; [contradiction|congruence]|intros H; exfalso; lia]].
    + assert (Hi' : i < k) by lia.
      rewrite (hbp_hb_into _ _ _ _ Ek).
      pose proof (IL o i u ei Hn Hi') as IL1. pose proof (IC t i u ei Hn Hi') as IC2.
      assert (HA : (exists o, hb_is_acq e o /\ hbp_lknows k o i) <->
                   match e with
                   | RAcq o | RAcqRel o => hbp_ep i <= rc_L (hbp_st k) o u
                   | _ => False
                   end).
      { destruct e as [x|x|o1|o1|o1]; cbn [hb_is_acq].
        1-3: split; [intros [o' [[] _]]|intros []].
        1-2: rewrite <- (IL o1 i u ei Hn Hi');
          (split; [intros [o' [<- H]]; exact H|intros H; exists o1; split; [reflexivity|exact H]]). }
      rewrite HA, IL1, IC2. clear HA IL1 IC2.
      destruct e as [x|x|o'|o'|o']; cbn [hb_is_rel]; try tauto.
      * destruct (Nat.eqb_spec o o') as [->|Hne']; lia.
      * destruct (Nat.eqb_spec o o') as [->|Hne']; lia.
  - (* others know less of t than t itself *)
    intros t1 t2 Hne. rewrite (hbp_st_S _ _ _ Ek), !rc_step_C.
    pose proof (IltC t1 t2 Hne) as H1. pose proof (IltC t1 t) as H2.
    pose proof (fun o => IltL o t1) as H3.
    destruct (Nat.eqb_spec t2 t) as [->|H2t]; destruct (Nat.eqb_spec t1 t) as [->|H1t];
      try congruence; destruct e as [x|x|o|o|o]; try lia; try (specialize (H3 o); lia).
  - intros o t1. rewrite (hbp_st_S _ _ _ Ek), rc_step_L, rc_step_C.
    pose proof (IltL o t1) as H1. pose proof (IltC t1 t) as H2.
    pose proof (fun o => IltL o t1) as H3.
    destruct (Nat.eqb_spec t1 t) as [->|H1t];
      destruct e as [x|x|o'|o'|o']; try lia;
      try (destruct (Nat.eqb_spec o o'); specialize (H3 o'); lia); try (specialize (H3 o'); lia).
Qed.

Lemma hbp_vc_all k : k <= length tr -> hbp_vc_inv k.
Proof. induction k as [|k IH]; intros H; [apply hbp_vc_0|apply hbp_vc_S; [lia|apply IH; lia]]. Qed.

Lemma hbp_ep_eq i u e : nth_error tr i = Some (u, e) -> hbp_ep i = rc_C (hbp_st i) u u.
Proof. intros H. unfold hbp_ep. rewrite H. reflexivity. Qed.

Lemma hbp_ep_pos i u e : nth_error tr i = Some (u, e) -> 1 <= hbp_ep i.
Proof.
  intros H. rewrite (hbp_ep_eq _ _ _ H).
  assert (Hi : i < length tr) by (apply nth_error_Some; congruence).
  pose proof (vi_ltL _ (hbp_vc_all i ltac:(lia)) 0 u). lia.
Qed.

(* clock comparison succeeds -> ordered; fails -> other thread and unordered *)
Lemma hbp_le_hb k t e i u ei :
  hbp_vc_inv k -> nth_error tr k = Some (t, e) -> i < k -> nth_error tr i = Some (u, ei) ->
  hbp_ep i <= rc_C (hbp_st k) t u -> hb_hb tr i k.
Proof.
  intros I Ek Hi Hn Hle. apply (hbp_known_hb _ _ _ _ Ek). apply (vi_C _ I t i u ei Hn Hi). exact Hle.
Qed.

Lemma hbp_gt_nhb k t e i u ei :
  hbp_vc_inv k -> nth_error tr k = Some (t, e) -> (forall o, ~ hb_is_acq e o) ->
  i < k -> nth_error tr i = Some (u, ei) ->
  rc_C (hbp_st k) t u < hbp_ep i -> u <> t /\ ~ hb_hb tr i k.
Proof.
  intros I Ek Hna Hi Hn Hlt. split.
  - intros ->. assert (H : hbp_knows k t i).
    { exists i. split; [exact Hi|]. split; [exists ei; exact Hn|left; reflexivity]. }
    apply (vi_C _ I t i t ei Hn Hi) in H. lia.
  - intros H. apply (hbp_hb_known _ _ _ _ Ek Hna) in H. apply (vi_C _ I t i u ei Hn Hi) in H. lia.
Qed.

(* ------------------------------------------------------------------ access history *)
Record hbp_ah_inv (k : nat) : Prop := {
  ai_W : forall x, rc_Wc (hbp_st k) x <> 0 ->
           exists w, w < k /\ nth_error tr w = Some (rc_Wt (hbp_st k) x, RWrite x)
                     /\ hbp_ep w = rc_Wc (hbp_st k) x;
  ai_R : forall x u, rc_R (hbp_st k) x u <> 0 ->
           exists r, r < k /\ nth_error tr r = Some (u, RRead x)
                     /\ hbp_ep r = rc_R (hbp_st k) x u;
  ai_Wall : rc_raced (hbp_st k) = false ->
            forall i u x, i < k -> nth_error tr i = Some (u, RWrite x) ->
              exists w, w < k /\ nth_error tr w = Some (rc_Wt (hbp_st k) x, RWrite x)
                        /\ hbp_ep w = rc_Wc (hbp_st k) x /\ (i = w \/ hb_hb tr i w);
  ai_Rall : forall i u x, i < k -> nth_error tr i = Some (u, RRead x) ->
              exists r, r < k /\ nth_error tr r = Some (u, RRead x)
                        /\ hbp_ep r = rc_R (hbp_st k) x u /\ (i = r \/ hb_hb tr i r)
}.

Lemma hbp_ah_0 : hbp_ah_inv 0.
Proof.
  constructor.
  - intros x H. rewrite hbp_st_0 in H. cbn in H. congruence.
  - intros x u H. rewrite hbp_st_0 in H. cbn in H. congruence.
  - intros; lia.
  - intros; lia.
Qed.

Lemma hbp_ah_S k : k < length tr -> hbp_vc_inv k -> hbp_ah_inv k -> hbp_ah_inv (S k).
Proof.
  intros Hk V [IW IR IWall IRall].
  destruct (nth_error tr k) as [[t e]|] eqn:Ek; [|apply nth_error_None in Ek; lia].
  assert (Hepk : hbp_ep k = rc_C (hbp_st k) t t) by (apply (hbp_ep_eq _ _ _ Ek)).
  pose proof (hbp_st_S _ _ _ Ek) as Hst.
  assert (Wk : forall (P : nat -> Prop), (exists w, w < k /\ P w) -> exists w, w < S k /\ P w).
  { intros P [w [Hw H]]. exists w. split; [lia|exact H]. }
  destruct e as [x0|x0|o|o|o].
  - (* read *)
    constructor; rewrite Hst; cbn [rc_step rc_Wt rc_Wc rc_R rc_raced].
    + intros x H. apply Wk. apply IW. exact H.
    + intros x u. unfold rc_upd.
      destruct (Nat.eqb_spec x x0) as [->|Hx]; [destruct (Nat.eqb_spec u t) as [->|Hu]|].
      * intros _. exists k. split; [lia|]. split; [exact Ek|exact Hepk].
      * intros H. apply Wk. apply IR. exact H.
      * intros H. apply Wk. apply IR. exact H.
    + intros Hr i u x Hi Hn. apply orb_false_elim in Hr. destruct Hr as [Hr _].
      assert (i <> k) by (intros ->; rewrite Ek in Hn; discriminate).
      apply Wk. apply (IWall Hr i u x); [lia|exact Hn].
    + intros i u x Hi Hn. unfold rc_upd.
      destruct (Nat.eq_dec i k) as [->|Hne].
      * rewrite Ek in Hn. inversion Hn; subst u x. rewrite !Nat.eqb_refl.
        exists k. split; [lia|]. split; [exact Ek|]. split; [exact Hepk|left; reflexivity].
      * destruct (Nat.eqb_spec x x0) as [->|Hx]; [destruct (Nat.eqb_spec u t) as [->|Hu]|].
        -- exists k. split; [lia|]. split; [exact Ek|]. split; [exact Hepk|right].
           apply t_step. left. split; [lia|]. exists t, (RRead x0), (RRead x0). split; assumption.
        -- apply Wk. apply (IRall i u x0); [lia|exact Hn].
        -- apply Wk. apply (IRall i u x); [lia|exact Hn].
  - (* write *)
    constructor; rewrite Hst; cbn [rc_step rc_Wt rc_Wc rc_R rc_raced].
    + intros x. unfold rc_upd. destruct (Nat.eqb_spec x x0) as [->|Hx].
      * intros _. exists k. split; [lia|]. split; [exact Ek|exact Hepk].
      * intros H. apply Wk. apply IW. exact H.
    + intros x u H. apply Wk. apply IR. exact H.
    + intros Hr i u x Hi Hn. apply orb_false_elim in Hr. destruct Hr as [Hr Hck].
      apply negb_false_iff, andb_true_iff in Hck. destruct Hck as [Hokw _].
      apply Nat.leb_le in Hokw. unfold rc_upd.
      destruct (Nat.eq_dec i k) as [->|Hne].
      * rewrite Ek in Hn. inversion Hn; subst u x. rewrite !Nat.eqb_refl.
        exists k. split; [lia|]. split; [exact Ek|]. split; [exact Hepk|left; reflexivity].
      * destruct (Nat.eqb_spec x x0) as [->|Hx].
        -- exists k. split; [lia|]. split; [exact Ek|]. split; [exact Hepk|right].
           destruct (IWall Hr i u x0 ltac:(lia) Hn) as [w [Hw [Hwn [Hwe Hiw]]]].
           assert (Hwk : hb_hb tr w k).
           { apply (hbp_le_hb k t (RWrite x0) w _ _ V Ek Hw Hwn). rewrite Hwe. exact Hokw. }
           destruct Hiw as [->|Hiw]; [exact Hwk|eapply t_trans; eassumption].
        -- apply Wk. apply (IWall Hr i u x); [lia|exact Hn].
    + intros i u x Hi Hn.
      assert (i <> k) by (intros ->; rewrite Ek in Hn; discriminate).
      apply Wk. apply (IRall i u x); [lia|exact Hn].
  - constructor; rewrite Hst; cbn [rc_step rc_Wt rc_Wc rc_R rc_raced].
    + intros x H. apply Wk. apply IW. exact H.
    + intros x u H. apply Wk. apply IR. exact H.
    + intros Hr i u x Hi Hn. assert (i <> k) by (intros ->; rewrite Ek in Hn; discriminate).
      apply Wk. apply (IWall Hr i u x); [lia|exact Hn].
    + intros i u x Hi Hn. assert (i <> k) by (intros ->; rewrite Ek in Hn; discriminate).
      apply Wk. apply (IRall i u x); [lia|exact Hn].
  - constructor; rewrite Hst; cbn [rc_step rc_Wt rc_Wc rc_R rc_raced].
    + intros x H. apply Wk. apply IW. exact H.
    + intros x u H. apply Wk. apply IR. exact H.
    + intros Hr i u x Hi Hn. assert (i <> k) by (intros ->; rewrite Ek in Hn; discriminate).
      apply Wk. apply (IWall Hr i u x); [lia|exact Hn].
    + intros i u x Hi Hn. assert (i <> k) by (intros ->; rewrite Ek in Hn; discriminate).
      apply Wk. apply (IRall i u x); [lia|exact Hn].
  - constructor; rewrite Hst; cbn [rc_step rc_Wt rc_Wc rc_R rc_raced].
    + intros x H. apply Wk. apply IW. exact H.
    + intros x u H. apply Wk. apply IR. exact H.
    + intros Hr i u x Hi Hn. assert (i <> k) by (intros ->; rewrite Ek in Hn; discriminate).
      apply Wk. apply (IWall Hr i u x); [lia|exact Hn].
    + intros i u x Hi Hn. assert (i <> k) by (intros ->; rewrite Ek in Hn; discriminate).
      apply Wk. apply (IRall i u x); [lia|exact Hn].
Qed.

Lemma hbp_ah_all k : k <= length tr -> hbp_ah_inv k.
Proof.
  induction k as [|k IH]; intros H; [apply hbp_ah_0|].
  apply hbp_ah_S; [lia|apply hbp_vc_all; lia|apply IH; lia].
Qed.

(* ------------------------------------------------------------------ the flag *)
Lemma hbp_raced_sticky l : forall m, rc_raced m = true ->
  rc_raced (fold_left (fun m p => rc_step n m (fst p) (snd p)) l m) = true.
Proof.
  induction l as [|p l IH]; intros m H; cbn [fold_left]; [exact H|].
  apply IH. rewrite rc_step_raced, H. reflexivity.
Qed.

Lemma hbp_raced_later k : rc_raced (hbp_st k) = true -> rc_raced (rc_run n tr) = true.
Proof.
  intros H. unfold rc_run. rewrite <- (firstn_skipn k tr), fold_left_app.
  apply hbp_raced_sticky. exact H.
Qed.

Lemma hbp_flag_step k : k <= length tr -> rc_raced (hbp_st k) = true ->
  exists j t e, j < k /\ nth_error tr j = Some (t, e) /\ hbp_check n (hbp_st j) t e = false.
Proof.
  induction k as [|k IH]; intros Hk H; [rewrite hbp_st_0 in H; discriminate|].
  destruct (nth_error tr k) as [[t e]|] eqn:Ek; [|apply nth_error_None in Ek; lia].
  rewrite (hbp_st_S _ _ _ Ek), rc_step_raced in H. apply orb_true_iff in H. destruct H as [H|H].
  - destruct (IH ltac:(lia) H) as [j [t' [e' [Hj H']]]]. exists j, t', e'. split; [lia|exact H'].
  - exists k, t, e. split; [lia|]. split; [exact Ek|]. apply negb_true_iff. exact H.
Qed.

Lemma hbp_forallb_false {A} (f : A -> bool) l :
  forallb f l = false -> exists a, In a l /\ f a = false.
Proof.
  induction l as [|a l IH]; cbn; [discriminate|]. intros H.
  destruct (f a) eqn:E.
  - destruct (IH H) as [b [Hb Hf]]. exists b. split; [right; exact Hb|exact Hf].
  - exists a. split; [left; reflexivity|exact E].
Qed.

(* ------------------------------------------------------------------ SOUNDNESS *)
Theorem hbp_sound : rc_raced (rc_run n tr) = true -> hb_race tr.
Proof.
  intros H. rewrite <- hbp_st_all in H.
  destruct (hbp_flag_step _ (le_n _) H) as [j [t [e [Hj [Ej Hck]]]]].
  pose proof (hbp_vc_all j ltac:(lia)) as V. pose proof (hbp_ah_all j ltac:(lia)) as [IW IR _ _].
  assert (Hlast : forall x, rc_C (hbp_st j) t (rc_Wt (hbp_st j) x) < rc_Wc (hbp_st j) x ->
                   (forall o, ~ hb_is_acq e o) -> hb_is_access e x -> hb_race tr).
  { intros x Hlt Hna Hacc. destruct (IW x ltac:(lia)) as [w [Hw [Hwn Hwe]]].
    destruct (hbp_gt_nhb j t e w _ _ V Ej Hna Hw Hwn ltac:(lia)) as [Hne Hnhb].
    exists w, j. split; [exact Hw|]. split; [exact Hj|]. split; [|exact Hnhb].
    exists (rc_Wt (hbp_st j) x), (RWrite x), t, e, x.
    repeat split; try assumption; try reflexivity. left. reflexivity. }
  destruct e as [x|x|o|o|o]; cbn [hbp_check] in Hck; try discriminate.
  - apply Nat.leb_gt in Hck. apply (Hlast x Hck); [intros o []|reflexivity].
  - apply andb_false_iff in Hck. destruct Hck as [Hck|Hck].
    + apply Nat.leb_gt in Hck. apply (Hlast x Hck); [intros o []|reflexivity].
    + apply hbp_forallb_false in Hck. destruct Hck as [u [_ Hu]]. apply Nat.leb_gt in Hu.
      destruct (IR x u ltac:(lia)) as [r [Hr [Hrn Hre]]].
      destruct (hbp_gt_nhb j t (RWrite x) r _ _ V Ej ltac:(intros o []) Hr Hrn ltac:(lia)) as [Hne Hnhb].
      exists r, j. split; [exact Hr|]. split; [exact Hj|]. split; [|exact Hnhb].
      exists u, (RRead x), t, (RWrite x), x.
      repeat split; try assumption; try reflexivity. right. reflexivity.
Qed.

(* ------------------------------------------------------------------ COMPLETENESS *)
(* no flag -> every conflicting pair is ordered by happens-before *)
Theorem hbp_norace_ordered :
  hb_wf n tr -> rc_raced (rc_run n tr) = false ->
  forall i j, i < j -> j < length tr -> hb_conflict tr i j -> hb_hb tr i j.
Proof.
  intros Hwf Hnr i j Hij Hj [ti [ei [tj [ej [x [Ei [Ej [Hne [Ai [Aj Hw]]]]]]]]]].
  assert (Hr : rc_raced (hbp_st (S j)) = false).
  { destruct (rc_raced (hbp_st (S j))) eqn:E; [|reflexivity].
    apply hbp_raced_later in E. congruence. }
  rewrite (hbp_st_S _ _ _ Ej), rc_step_raced in Hr. apply orb_false_elim in Hr.
  destruct Hr as [Hr Hck]. apply negb_false_iff in Hck.
  pose proof (hbp_vc_all j ltac:(lia)) as V. pose proof (hbp_ah_all j ltac:(lia)) as [_ _ IWall IRall].
  assert (Hti : ti < n).
  { unfold hb_wf in Hwf. rewrite Forall_forall in Hwf. apply (Hwf (ti, ei)).
    eapply nth_error_In. exact Ei. }
  assert (Hfromw : ei = RWrite x ->
                   rc_Wc (hbp_st j) x <= rc_C (hbp_st j) tj (rc_Wt (hbp_st j) x) -> hb_hb tr i j).
  { intros -> Hokw. destruct (IWall Hr i ti x Hij Ei) as [w [Hw' [Hwn [Hwe Hiw]]]].
    assert (Hwj : hb_hb tr w j).
    { apply (hbp_le_hb j tj ej w _ _ V Ej Hw' Hwn). rewrite Hwe. exact Hokw. }
    destruct Hiw as [->|Hiw]; [exact Hwj|eapply t_trans; eassumption]. }
  destruct ei as [xi|xi|o|o|o]; cbn [hb_is_access] in Ai; try contradiction; subst xi;
    destruct ej as [xj|xj|o|o|o]; cbn [hb_is_access] in Aj; try contradiction; subst xj;
    cbn [hbp_check] in Hck.
  - (* read, read *) destruct Hw as [[]|[]].
  - (* read, write *)
    apply andb_true_iff in Hck. destruct Hck as [_ Hokr].
    rewrite forallb_forall in Hokr. specialize (Hokr ti). rewrite in_seq in Hokr.
    specialize (Hokr ltac:(lia)). apply Nat.leb_le in Hokr.
    destruct (IRall i ti x Hij Ei) as [r [Hr' [Hrn [Hre Hir]]]].
    assert (Hrj : hb_hb tr r j).
    { apply (hbp_le_hb j tj (RWrite x) r _ _ V Ej Hr' Hrn). rewrite Hre. exact Hokr. }
    destruct Hir as [->|Hir]; [exact Hrj|eapply t_trans; eassumption].
  - (* write, read *) apply Hfromw; [reflexivity|]. apply Nat.leb_le. exact Hck.
  - (* write, write *)
    apply andb_true_iff in Hck. destruct Hck as [Hokw _].
    apply Hfromw; [reflexivity|]. apply Nat.leb_le. exact Hokw.
Qed.

Theorem hbp_complete : hb_wf n tr -> hb_race tr -> rc_raced (rc_run n tr) = true.
Proof.
  intros Hwf [i [j [Hij [Hj [Hc Hn]]]]].
  destruct (rc_raced (rc_run n tr)) eqn:E; [reflexivity|].
  exfalso. apply Hn. apply hbp_norace_ordered; assumption.
Qed.

Theorem hbp_agree : hb_wf n tr -> (rc_raced (rc_run n tr) = false <-> ~ hb_race tr).
Proof.
  intros Hwf. split.
  - intros E H. apply (hbp_complete Hwf) in H. congruence.
  - intros H. destruct (rc_raced (rc_run n tr)) eqn:E; [|reflexivity].
    exfalso. apply H. apply hbp_sound. exact E.
Qed.

End HB.

(* ------------------------------------------------------------------ traces of the protocol machines *)
Lemma hbp_pstep_mon ug p s t :
  ps_mon (rc_pstep ug p s t) =
  match hb_pev ug p s t with
  | Some (t', e) => rc_step (rc_nthreads p) (ps_mon s) t' e
  | None => ps_mon s
  end.
Proof.
  unfold rc_pstep, hb_pev. destruct t as [|j].
  - destruct (ps_wpc s <? length (pb_ws p)); [reflexivity|].
    destruct (ps_wpc s <? length (pb_ws p) + length (pb_os p)); reflexivity.
  - destruct (nth_error (ps_rpcs s) j) as [[|k|]|];
      destruct (nth_error (pb_readers p) j) as [[o xs]|]; try reflexivity.
    destruct (k <? length xs); reflexivity.
Qed.

Lemma hbp_prun_mon ug p sched : forall s,
  ps_mon (fold_left (rc_pstep ug p) sched s) =
  fold_left (fun m q => rc_step (rc_nthreads p) m (fst q) (snd q))
            (hb_ptrace_from ug p s sched) (ps_mon s).
Proof.
  induction sched as [|t r IH]; intros s; cbn [fold_left hb_ptrace_from]; [reflexivity|].
  rewrite IH, fold_left_app, hbp_pstep_mon.
  destruct (hb_pev ug p s t) as [[t' e]|]; reflexivity.
Qed.

(* the monitor inside the machine is the monitor run on the emitted trace *)
Theorem hbp_ptrace_mon ug p sched :
  ps_mon (rc_prun ug p sched) = rc_run (rc_nthreads p) (hb_ptrace ug p sched).
Proof. unfold rc_prun, hb_ptrace, rc_run. rewrite hbp_prun_mon. reflexivity. Qed.

Lemma hbp_pev_wf ug p s t t' e : hb_pev ug p s t = Some (t', e) -> t' < rc_nthreads p.
Proof.
  unfold hb_pev, rc_nthreads. destruct t as [|j].
  - destruct (ps_wpc s <? length (pb_ws p)); [intros H; inversion H; lia|].
    destruct (ps_wpc s <? length (pb_ws p) + length (pb_os p)); intros H; inversion H; lia.
  - destruct (nth_error (ps_rpcs s) j) as [[|k|]|]; try discriminate;
      destruct (nth_error (pb_readers p) j) as [[o xs]|] eqn:E; try discriminate;
      assert (j < length (pb_readers p)) by (apply nth_error_Some; congruence).
    + intros H'; inversion H'; lia.
    + destruct (k <? length xs); intros H'; inversion H'; lia.
Qed.

Lemma hbp_ptrace_wf ug p sched : forall s, hb_wf (rc_nthreads p) (hb_ptrace_from ug p s sched).
Proof.
  unfold hb_wf. induction sched as [|t r IH]; intros s; cbn [hb_ptrace_from]; [constructor|].
  apply Forall_app. split; [|apply IH].
  destruct (hb_pev ug p s t) as [[t' e]|] eqn:E; cbn [hb_opt_list]; [|constructor].
  constructor; [|constructor]. cbn [fst]. eapply hbp_pev_wf. exact E.
Qed.

Theorem hbp_pub_hb_race_free p sched : ~ hb_race (hb_ptrace false p sched).
Proof.
  apply (hbp_agree (rc_nthreads p)); [apply hbp_ptrace_wf|].
  rewrite <- hbp_ptrace_mon. apply pb_race_free.
Qed.

(* lock discipline *)
Lemma hbp_lstep_mon progs s t :
  ls_mon (rc_lstep progs s t) =
  match hb_lev progs s t with
  | Some (t', e) => rc_step (length progs) (ls_mon s) t' e
  | None => ls_mon s
  end.
Proof.
  unfold rc_lstep, hb_lev.
  destruct (nth_error (ls_pcs s) t) as [[[sec pos] inside]|]; [|reflexivity].
  destruct (nth_error progs t) as [prog|]; [|reflexivity].
  destruct (nth_error prog sec) as [accs|]; [|reflexivity].
  destruct inside; cbn [negb].
  - destruct (nth_error accs pos) as [[w x]|]; reflexivity.
  - destruct (ls_owner s); reflexivity.
Qed.

Lemma hbp_lrun_mon progs sched : forall s,
  ls_mon (fold_left (rc_lstep progs) sched s) =
  fold_left (fun m q => rc_step (length progs) m (fst q) (snd q))
            (hb_ltrace_from progs s sched) (ls_mon s).
Proof.
  induction sched as [|t r IH]; intros s; cbn [fold_left hb_ltrace_from]; [reflexivity|].
  rewrite IH, fold_left_app, hbp_lstep_mon.
  destruct (hb_lev progs s t) as [[t' e]|]; reflexivity.
Qed.

Theorem hbp_ltrace_mon progs sched :
  ls_mon (rc_lrun progs sched) = rc_run (length progs) (hb_ltrace progs sched).
Proof. unfold rc_lrun, hb_ltrace, rc_run. rewrite hbp_lrun_mon. reflexivity. Qed.

Lemma hbp_lev_wf progs s t t' e : hb_lev progs s t = Some (t', e) -> t' < length progs.
Proof.
  unfold hb_lev.
  destruct (nth_error (ls_pcs s) t) as [[[sec pos] inside]|]; [|discriminate].
  destruct (nth_error progs t) as [prog|] eqn:E; [|discriminate].
  assert (t < length progs) by (apply nth_error_Some; congruence).
  destruct (nth_error prog sec) as [accs|]; [|discriminate].
  destruct inside; cbn [negb].
  - destruct (nth_error accs pos) as [[w x]|]; intros H'; inversion H'; lia.
  - destruct (ls_owner s); [discriminate|]. intros H'; inversion H'; lia.
Qed.

Lemma hbp_ltrace_wf progs sched : forall s, hb_wf (length progs) (hb_ltrace_from progs s sched).
Proof.
  unfold hb_wf. induction sched as [|t r IH]; intros s; cbn [hb_ltrace_from]; [constructor|].
  apply Forall_app. split; [|apply IH].
  destruct (hb_lev progs s t) as [[t' e]|] eqn:E; cbn [hb_opt_list]; [|constructor].
  constructor; [|constructor]. cbn [fst]. eapply hbp_lev_wf. exact E.
Qed.

Theorem hbp_lock_hb_race_free progs sched : ~ hb_race (hb_ltrace progs sched).
Proof.
  apply (hbp_agree (length progs)); [apply hbp_ltrace_wf|].
  rewrite <- hbp_ltrace_mon. apply lk_race_free.
Qed.

Lemma hbp_ptrace_spec ug p sched :
  ps_mon (rc_prun ug p sched) = rc_run (rc_nthreads p) (hb_ptrace ug p sched)
  /\ hb_wf (rc_nthreads p) (hb_ptrace ug p sched).
Proof. split; [apply hbp_ptrace_mon|apply hbp_ptrace_wf]. Qed.

Lemma hbp_ltrace_spec progs sched :
  ls_mon (rc_lrun progs sched) = rc_run (length progs) (hb_ltrace progs sched)
  /\ hb_wf (length progs) (hb_ltrace progs sched).
Proof. split; [apply hbp_ltrace_mon|apply hbp_ltrace_wf]. Qed.

(* the refuted patterns are races in the relational sense too *)
Lemma hbp_unguarded_hb_race :
  hb_race (hb_ptrace true {| pb_ws := [7]; pb_os := [1]; pb_readers := [(1, [7])] |} [0; 1; 1]).
Proof. apply (hbp_sound 2). vm_compute. reflexivity. Qed.

Lemma hbp_two_writers_hb_race : hb_race [(0, RWrite 7); (1, RWrite 7)].
Proof. apply (hbp_sound 2). exact rc_two_writers_race. Qed.

(* ------------------------------------------------------------------ the definitions at work *)
(* proved directly from the relational definitions, without the monitor *)
Lemma hbp_ex_publication_ordered :
  hb_hb [(0, RWrite 7); (0, RRel 1); (1, RAcq 1); (1, RRead 7)] 0 3.
Proof.
  unfold hb_hb. apply t_trans with 1; [|apply t_trans with 2]; apply t_step.
  - left. split; [lia|]. exists 0, (RWrite 7), (RRel 1). split; reflexivity.
  - right. split; [lia|]. exists 0, (RRel 1), 1, (RAcq 1), 1. repeat split; reflexivity.
  - left. split; [lia|]. exists 1, (RAcq 1), (RRead 7). split; reflexivity.
Qed.

Lemma hbp_ex_two_writers_unordered : ~ hb_hb [(0, RWrite 7); (1, RWrite 7)] 0 1.
Proof.
  intros H. apply hbp_hb_last in H. destruct H as [j [_ [[Hlt H]|[Hlt H]]]].
  - destruct H as [t [e1 [e2 [H1 H2]]]]. assert (j = 0) by lia. subst j.
    cbn in H1, H2. congruence.
  - destruct H as [t1 [e1 [t2 [e2 [o [_ [H2 [_ Ha]]]]]]]]. cbn in H2. inversion H2; subst.
    exact Ha.
Qed.

(* an acquire that comes BEFORE the release does not synchronise *)
Lemma hbp_ex_early_acquire_races :
  hb_race [(1, RAcq 1); (0, RWrite 7); (0, RRel 1); (1, RRead 7)].
Proof. apply (hbp_sound 2). vm_compute. reflexivity. Qed.

(* a chain through read-modify-write operations orders the accesses (three threads) *)
Lemma hbp_ex_rmw_chain_race_free :
  ~ hb_race [(0, RWrite 7); (0, RAcqRel 1); (1, RAcqRel 1); (1, RRel 2); (2, RAcq 2); (2, RWrite 7)].
Proof.
  apply (hbp_agree 3); [|vm_compute; reflexivity].
  unfold hb_wf. repeat constructor.
Qed.
