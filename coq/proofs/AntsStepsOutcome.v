(* AntsStepsOutcome.v -- consequences of the decision invariant (AntsStepsDecide.v) for every reachable state
   of the FIXED ants step model: attempts are sequential and bounded, the fields after wg.Done hold the last
   decision (first success or the R-th failure), the error callback ran exactly once iff the final err is not
   nil, Get2 returns only a finished task's fields. *)
From Got Require Import Base ListAux AntsSteps AntsStepsProofs AntsStepsDecide.
Local Open Scope nat_scope.

Lemma ast_removelast_nth {A} (P : A -> Prop) (D : list A) k p :
  Forall P (removelast D) -> nth_error D k = Some p -> S k < length D -> P p.
Proof.
  intros HF Hk Hlt. destruct D as [|d0 D0]; [destruct k; discriminate|].
  assert (Hne : d0 :: D0 <> []) by discriminate.
  rewrite (app_removelast_last d0 Hne) in Hk. rewrite (app_removelast_last d0 Hne) in Hlt.
  rewrite app_length in Hlt. cbn [length] in Hlt.
  rewrite nth_error_app1 in Hk by lia. rewrite Forall_forall in HF. apply HF. apply (nth_error_In _ _ Hk).
Qed.

Lemma ast_forall_nth {A} (P : A -> Prop) (D : list A) k p : Forall P D -> nth_error D k = Some p -> P p.
Proof. intros HF Hk. rewrite Forall_forall in HF. apply HF. apply (nth_error_In _ _ Hk). Qed.

(* attempts are bounded by retry and sequential: attempt k+2 exists only if the decision of attempt k+1 is stored
   and is a failure *)
Lemma ast_steps_attempts_sequential_bounded n progs s t x :
  ast_reach AstFixed n progs s -> nth_error (ast_tasks s) t = Some x ->
  att_natt x <= aso_retry (att_opt x) /\
  length (att_decided x) <= att_natt x <= S (length (att_decided x)) /\
  (forall k v e, nth_error (att_decided x) k = Some (v, e) -> S k < att_natt x -> e <> 0%Z) /\
  (forall k, S k < att_natt x -> exists v e, nth_error (att_decided x) k = Some (v, e) /\ e <> 0%Z).
Proof.
  intros R Hx. pose proof (di_t _ (ast_reach_dinv _ _ _ R) _ _ Hx) as [A B C D E].
  assert (H3 : forall k v e, nth_error (att_decided x) k = Some (v, e) -> S k < att_natt x -> e <> 0%Z).
  { intros k v e Hk Hlt. destruct (Nat.eq_dec (att_natt x) (S (length (att_decided x)))) as [Hn|Hn].
    - apply (ast_forall_nth _ _ _ _ (D Hn) Hk).
    - apply (ast_removelast_nth ast_failed _ k (v, e) A Hk). lia. }
  split; [exact E|]. split; [exact C|]. split; [exact H3|].
  intros k Hlt. destruct (nth_error (att_decided x) k) as [[v e]|] eqn:Hk.
  - exists v, e. split; [reflexivity|]. apply (H3 k v e Hk Hlt).
  - apply nth_error_None in Hk. lia.
Qed.

(* while attempt i (0-based) of task t is in flight -- its dispatcher is parked before the enqueue of the callback,
   before the select, or before one of the two stores -- exactly i decisions are stored, all of them failures, and
   neither the error callback nor wg.Done has run *)
Definition ast_pc_inflight (pc : ast_pc) : option (nat * nat) :=
  match pc with
  | AstDEnq t _ i | AstDSelect t _ i | AstDStoreRes t _ i _ _ | AstDStoreTo t _ i => Some (t, i)
  | _ => None
  end.

Lemma ast_steps_attempt_in_flight n progs s j pc t i x :
  ast_reach AstFixed n progs s -> ast_pc_of s j = Some pc -> ast_pc_inflight pc = Some (t, i) ->
  nth_error (ast_tasks s) t = Some x ->
  att_natt x = S i /\ length (att_decided x) = i /\ Forall ast_failed (att_decided x) /\
  att_onerr x = [] /\ att_done x = false.
Proof.
  intros R Hj Hf Hx. pose proof (ast_reach_dinv _ _ _ R) as Dv. pose proof (di_t _ Dv _ _ Hx) as T.
  assert (Hp : ast_pc_task pc = Some t /\ (ast_pc_phase pc x -> ast_ph_run i x)).
  { destruct pc; cbn [ast_pc_inflight] in Hf; try discriminate Hf; injection Hf as Ht Hi; subst; (split; [reflexivity|intros H; exact H]). }
  destruct Hp as [Hp1 Hp2]. destruct (Hp2 (di_pc _ Dv j pc t x Hj Hp1 Hx)) as (P1 & P2 & P3 & P4).
  repeat split; try assumption. apply (tg_fail2 _ T). lia.
Qed.

(* the outcome of a finished task *)
Definition ast_outcome_ok (x : ast_task) : Prop :=
  let D := att_decided x in let R := aso_retry (att_opt x) in
  length D = att_natt x /\ 1 <= length D <= R /\
  (att_res x, att_err x) = last D (0%Z, 0%Z) /\
  Forall ast_failed (removelast D) /\
  (att_err x = 0%Z \/ length D = R) /\
  att_onerr x = (if (att_err x =? 0)%Z then [] else if aso_onerr (att_opt x) then [att_err x] else []).

Lemma ast_fin_outcome x : ast_tinv x -> ast_ph_fin x -> 1 <= aso_retry (att_opt x) -> ast_outcome_ok x.
Proof.
  intros [A B C D E] [F1 F2] HR. unfold ast_outcome_ok, ast_R in *.
  destruct F2 as [(G1 & G2 & G3)|(G1 & G2 & G3)].
  - split; [exact F1|]. split; [lia|]. split; [exact B|]. split; [exact A|]. split; [left; exact G1|].
    rewrite G1. exact G3.
  - assert (Hne : att_decided x <> []) by (destruct (att_decided x); [cbn in *; lia|discriminate]).
    assert (He : att_err x <> 0%Z).
    { rewrite (app_removelast_last (0%Z, 0%Z) Hne) in G2. apply Forall_app in G2. destruct G2 as [_ G2].
      inversion G2 as [|p l Hp _]; subst. rewrite <- B in Hp. exact Hp. }
    split; [exact F1|]. split; [lia|]. split; [exact B|]. split; [exact A|]. split; [right; lia|].
    destruct (Z.eqb_spec (att_err x) 0); [contradiction|exact G3].
Qed.

Lemma ast_steps_result_matches n progs s t x :
  ast_reach AstFixed n progs s -> nth_error (ast_tasks s) t = Some x -> att_done x = true ->
  1 <= aso_retry (att_opt x) -> ast_outcome_ok x.
Proof.
  intros R Hx Hd HR. pose proof (ast_reach_dinv _ _ _ R) as Dv.
  destruct (di_done _ Dv _ _ Hx Hd) as [_ F]. apply ast_fin_outcome; [apply (di_t _ Dv _ _ Hx)|exact F|exact HR].
Qed.

(* wg.Done comes after the last store and the error callback: when the dispatcher is parked before wg.Done the
   outcome is already complete *)
Lemma ast_steps_wgdone_after_final n progs s j t x :
  ast_reach AstFixed n progs s -> ast_pc_of s j = Some (AstDWgDone t) -> nth_error (ast_tasks s) t = Some x ->
  1 <= aso_retry (att_opt x) -> att_done x = false /\ ast_outcome_ok x.
Proof.
  intros R Hj Hx HR. pose proof (ast_reach_dinv _ _ _ R) as Dv.
  destruct (di_pc _ Dv j _ t x Hj eq_refl Hx) as [F Hd]. split; [exact Hd|].
  apply ast_fin_outcome; [apply (di_t _ Dv _ _ Hx)|exact F|exact HR].
Qed.

(* Get2 returns only the fields of a task whose wg.Done has run (or the constant pair of a discarded Send) *)
Lemma ast_steps_get2_after_done md n s tid hint v e :
  snd (fst (ast_step md n s tid hint)) = AstEvRet (AstRPair v e) ->
  (exists t x, ast_pc_of s tid = Some (AstGetWait t) /\ nth_error (ast_tasks s) t = Some x /\
               att_done x = true /\ v = att_res x /\ e = att_err x) \/
  (exists th k rest, nth_error (ast_thr s) tid = Some th /\ ath_pc th = AstIdle /\ ath_prog th = AstGet k :: rest /\
                nth_error (ath_handles th) k = Some AstHDiscard /\ v = 0%Z /\ e = ast_err_discard).
Proof.
  unfold ast_step, ast_pc_of. destruct (nth_error (ast_thr s) tid) as [th|] eqn:Eth; [|discriminate].
  destruct th as [pc prog hs]. unfold ast_step_pc. cbn [ath_pc ath_prog ath_handles option_map].
  destruct pc;
    repeat first [progress (unfold ast_wait_ctx; ast_cbn) | match goal with
    | |- context [match ?x with _ => _ end] => destruct x eqn:?
    end]; cbn [fst snd]; intros H; try discriminate H.
  - injection H as <- <-. right. eexists _, _, _. repeat split; try reflexivity. cbn. assumption.
  - injection H as <- <-. left. eexists _, _. repeat split; try reflexivity; eassumption.
Qed.

(* a task that no thread holds and that is not in taskChan is not changed by any step (except for the count of
   handler invocations: a stale callback of a timed-out attempt may still be run by an inner worker) *)
Lemma ast_step_gone_frozen n s tid hint t x x' :
  ast_inv s -> (forall i pc, ast_pc_of s i = Some pc -> ast_is_storeo pc = false) ->
  nth_error (ast_tasks s) t = Some x -> att_owner x = AwGone ->
  nth_error (ast_tasks (fst (fst (ast_step AstFixed n s tid hint)))) t = Some x' ->
  ast_core x' = ast_core x.
Proof.
  intros Inv Hns Hx Hg. unfold ast_step. destruct (nth_error (ast_thr s) tid) as [th|] eqn:Eth; [|cbn [fst]; intros Hx0; congruence].
  pose proof (Hns tid (ath_pc th)) as Hno. unfold ast_pc_of in Hno. rewrite Eth in Hno. specialize (Hno eq_refl).
  pose proof (ai_tthr _ Inv tid (ath_pc th)) as O1. unfold ast_pc_of in O1. rewrite Eth in O1.
  specialize (fun t => O1 t eq_refl).
  pose proof (ai_tchan _ Inv) as I2.
  destruct th as [pc prog hs]. unfold ast_step_pc. cbn [ath_pc ath_prog ath_handles] in *.
  destruct pc; cbn [ast_pc_task ast_is_storeo] in O1, Hno; try discriminate;
    repeat first [progress (unfold ast_wait_ctx; ast_cbn) | match goal with
    | |- context [match ?x with _ => _ end] => destruct x eqn:?
    end]; intros Hx'; try congruence.
  all: try (specialize (O1 _ eq_refl)); try (specialize (I2 _ (or_introl eq_refl))); unfold ast_town in *.
  all: ast_norm.
  all: ast_eqb; try lia; try congruence.
  all: clear Inv Hns.
  all: try (apply ast_nth_lt in Hx; lia).
  all: rewrite ?Hx in *; cbn [option_map] in *; try congruence.
  all: try (injection Hx' as <-; reflexivity).
Qed.

Lemma ast_step_tasks_length md n s tid hint :
  length (ast_tasks s) <= length (ast_tasks (fst (fst (ast_step md n s tid hint)))).
Proof.
  unfold ast_step. destruct (nth_error (ast_thr s) tid) as [th|] eqn:Eth; [|cbn; lia].
  destruct th as [pc prog hs]. unfold ast_step_pc. cbn [ath_pc ath_prog ath_handles].
  destruct pc;
    repeat first [progress (unfold ast_wait_ctx; ast_cbn) | match goal with
    | |- context [match ?x with _ => _ end] => destruct x eqn:?
    end]; rewrite ?ast_upd_length, ?app_length; lia.
Qed.

(* once wg.Done has run, result, err, the decisions, the error-callback arguments and the attempt count of a task
   never change again, whatever the other threads (late handlers included) do *)
Lemma ast_run_frozen n sched : forall s t x,
  ast_inv s -> (forall i pc, ast_pc_of s i = Some pc -> ast_is_storeo pc = false) ->
  nth_error (ast_tasks s) t = Some x -> att_owner x = AwGone ->
  exists x', nth_error (ast_tasks (ast_run AstFixed n s sched)) t = Some x' /\ ast_core x' = ast_core x.
Proof.
  induction sched as [|[tid h] r IH]; intros s t x Inv Hns Hx Hg; [exists x; split; [exact Hx|reflexivity]|].
  cbn [ast_run fold_left]. unfold ast_next at 2. cbn [fst snd].
  destruct (nth_error (ast_tasks (fst (fst (ast_step AstFixed n s tid h)))) t) as [x1|] eqn:E1.
  - pose proof (ast_step_gone_frozen n s tid h t x x1 Inv Hns Hx Hg E1) as Hc.
    destruct (IH _ t x1 (ast_step_inv _ _ _ _ _ Inv) (ast_step_no_storeo _ _ _ _ Hns) E1) as (x' & H1 & H2).
    + rewrite (ast_core_owner _ _ Hc). exact Hg.
    + exists x'. split; [exact H1|congruence].
  - exfalso. apply nth_error_None in E1. apply ast_nth_lt in Hx.
    pose proof (ast_step_tasks_length AstFixed n s tid h). lia.
Qed.

Lemma ast_steps_frozen_after_done n progs s sched t x :
  ast_reach AstFixed n progs s -> nth_error (ast_tasks s) t = Some x -> att_done x = true ->
  exists x', nth_error (ast_tasks (ast_run AstFixed n s sched)) t = Some x' /\ ast_core x' = ast_core x.
Proof.
  intros R Hx Hd. destruct (di_done _ (ast_reach_dinv _ _ _ R) _ _ Hx Hd) as [Hg _].
  apply ast_run_frozen; [apply (ast_reach_inv _ _ _ _ R)|apply (ast_reach_nostoreo _ _ _ R)|exact Hx|exact Hg].
Qed.

(* ------------------------------------------------------------------ C08 on the step model *)
(* both channels respect their capacity n *)
Lemma ast_step_chan_bound md n s tid hint :
  length (ast_tchan s) <= n /\ length (ast_ichan s) <= n ->
  length (ast_tchan (fst (fst (ast_step md n s tid hint)))) <= n /\
  length (ast_ichan (fst (fst (ast_step md n s tid hint)))) <= n.
Proof.
  intros [H1 H2]. unfold ast_step. destruct (nth_error (ast_thr s) tid) as [th|] eqn:Eth; [|split; assumption].
  destruct th as [pc prog hs]. unfold ast_step_pc. cbn [ath_pc ath_prog ath_handles].
  destruct pc;
    repeat first [progress (unfold ast_wait_ctx; ast_cbn) | match goal with
    | |- context [match ?x with _ => _ end] => destruct x eqn:?
    end]; try (split; assumption).
  all: unfold ast_choose in *; rewrite ?app_length; cbn [length].
  all: repeat match goal with H : (if ?c then _ else _) = _ |- _ => destruct c eqn:? end; try discriminate.
  all: repeat match goal with H : (_ <? _) = true |- _ => apply Nat.ltb_lt in H end.
  all: repeat match goal with H : ?l = _ :: _ |- _ => rewrite H in *; cbn [length] in * end.
  all: cbn [length] in *; split; lia.
Qed.

Lemma ast_run_chan_bound md n sched : forall s,
  length (ast_tchan s) <= n /\ length (ast_ichan s) <= n ->
  length (ast_tchan (ast_run md n s sched)) <= n /\ length (ast_ichan (ast_run md n s sched)) <= n.
Proof.
  induction sched as [|[tid h] r IH]; intros s H; [exact H|]. cbn [ast_run fold_left].
  apply IH. unfold ast_next. cbn [fst snd]. apply ast_step_chan_bound. exact H.
Qed.

Lemma ast_steps_channels_bounded md n progs s :
  ast_reach md n progs s -> length (ast_tchan s) <= n /\ length (ast_ichan s) <= n.
Proof. intros [sched ->]. apply ast_run_chan_bound. cbn. lia. Qed.

(* a Send is rejected as busy only by its len test, with discardOnBusy set and the task channel full *)
Lemma ast_steps_busy_only_if_full md n s tid hint :
  snd (fst (ast_step md n s tid hint)) = AstEvRet AstRDiscard ->
  exists o, ast_pc_of s tid = Some (AstSendLen o) /\ aso_discard o = true /\ length (ast_tchan s) = n.
Proof.
  unfold ast_step, ast_pc_of. destruct (nth_error (ast_thr s) tid) as [th|] eqn:Eth; [|discriminate].
  destruct th as [pc prog hs]. unfold ast_step_pc. cbn [ath_pc ath_prog ath_handles option_map].
  destruct pc;
    repeat first [progress (unfold ast_wait_ctx; ast_cbn) | match goal with
    | |- context [match ?x with _ => _ end] => destruct x eqn:?
    end]; cbn [fst snd]; intros H; try discriminate H.
  exists o. apply andb_prop in Heqb. destruct Heqb as [A B]. apply Nat.eqb_eq in B. auto.
Qed.
