(* proofs about models/AntsDrop.v *)
From Got Require Import Base AntsDrop.
Local Open Scope nat_scope.

Lemma pd_upd_Forall (P : pd_task -> Prop) k f l :
  Forall P l -> (forall x, P x -> P (f x)) -> Forall P (pd_upd k f l).
Proof.
  intros H Hf. revert k. induction H as [|x r Hx Hr IH]; intros k; cbn [pd_upd].
  - destruct k; constructor.
  - destruct k as [|k']; constructor; auto.
Qed.

(* a task holds the wrapper exactly while it is not finished *)
Definition pd_tinv (x : pd_task) : Prop := pt_owner x = negb (pd_is_done (pt_ph x)).

Definition pd_inv (s : pd_state) : Prop :=
  Forall pd_tinv (pd_tasks s) /\
  (pd_closed s = true -> pd_handle s = false /\ Forall (fun x => pt_ph x = PdDone) (pd_tasks s)).

Lemma pd_begin_tinv a x : pd_tinv x -> pt_ph x <> PdDone -> pd_tinv (pd_begin PdFixed a x).
Proof.
  unfold pd_tinv, pd_begin, pd_owner_at. cbn. intros H Hn. rewrite H. destruct (pt_ph x); cbn; try reflexivity. contradiction.
Qed.

Lemma pd_finish_tinv x : pd_tinv (pd_finish x).
Proof. reflexivity. Qed.

Lemma pd_decide_tinv ok x : pd_tinv x -> pd_tinv (pd_decide PdFixed ok x).
Proof.
  intros H. unfold pd_decide. destruct (pt_ph x) eqn:E; try exact H.
  - destruct ok; [exact H|]. destruct (S a <=? pt_R x); [|apply pd_finish_tinv].
    apply pd_begin_tinv; [exact H|rewrite E; discriminate].
  - destruct ok; [apply pd_finish_tinv|]. destruct (S a <=? pt_R x); [|apply pd_finish_tinv].
    apply pd_begin_tinv; [exact H|rewrite E; discriminate].
Qed.

Lemma pd_decide_done ok x : pt_ph x = PdDone -> pt_ph (pd_decide PdFixed ok x) = PdDone.
Proof. intros H. unfold pd_decide. rewrite H. exact H. Qed.

Lemma pd_forallb_owner_done ts :
  Forall pd_tinv ts -> forallb (fun x => negb (pt_owner x)) ts = true -> Forall (fun x => pt_ph x = PdDone) ts.
Proof.
  intros H. induction H as [|x r Hx Hr IH]; cbn [forallb]; intros F; constructor.
  - apply andb_prop in F. destruct F as [F _]. unfold pd_tinv in Hx. rewrite Hx in F.
    destruct (pt_ph x); cbn in F; try discriminate. reflexivity.
  - apply IH. apply andb_prop in F. tauto.
Qed.

Lemma pd_step_inv s e : pd_inv s -> pd_inv (pd_step PdFixed s e).
Proof.
  intros [HT HC]. destruct e as [R| | |k|k|k ok]; cbn [pd_step].
  - destruct (pd_handle s) eqn:Hh.
    + split; cbn.
      * apply Forall_app. split; [exact HT|]. constructor; [reflexivity|constructor].
      * intros Hc. destruct (HC Hc) as [Hf _]. congruence.
    + split; [exact HT|]. intros Hc. rewrite Hh. exact (HC Hc).
  - split; cbn; [exact HT|]. intros Hc. destruct (HC Hc) as [_ Hd]. split; [reflexivity|exact Hd].
  - destruct (negb (pd_handle s) && forallb (fun x => negb (pt_owner x)) (pd_tasks s)) eqn:G.
    + apply andb_prop in G. destruct G as [_ G]. split; cbn; [exact HT|]. intros _. split; [reflexivity|].
      apply pd_forallb_owner_done; assumption.
    + split; assumption.
  - split; cbn.
    + apply pd_upd_Forall; [exact HT|]. intros x Hx. destruct (pt_ph x) eqn:E; try exact Hx.
      apply pd_begin_tinv; [exact Hx|rewrite E; discriminate].
    + intros Hc. destruct (HC Hc) as [Hh Hd]. split; [exact Hh|].
      apply pd_upd_Forall; [exact Hd|]. intros x Hx. rewrite Hx. exact Hx.
  - split; cbn.
    + apply pd_upd_Forall; [exact HT|]. intros x Hx. destruct (pt_ph x) eqn:E; try exact Hx.
      unfold pd_tinv in *. cbn. rewrite Hx, E. reflexivity.
    + intros Hc. destruct (HC Hc) as [Hh Hd]. split; [exact Hh|].
      apply pd_upd_Forall; [exact Hd|]. intros x Hx. rewrite Hx. exact Hx.
  - split; cbn.
    + apply pd_upd_Forall; [exact HT|]. intros x Hx. apply pd_decide_tinv. exact Hx.
    + intros Hc. destruct (HC Hc) as [Hh Hd]. split; [exact Hh|].
      apply pd_upd_Forall; [exact Hd|]. intros x Hx. apply pd_decide_done. exact Hx.
Qed.

Lemma pd_run_inv evs s : pd_inv s -> pd_inv (pd_run PdFixed s evs).
Proof.
  revert s. induction evs as [|e evs IH]; intros s H; cbn [pd_run fold_left]; [exact H|].
  apply IH. apply pd_step_inv. exact H.
Qed.

Lemma pd_init_inv : pd_inv pd_init.
Proof. split; cbn; [constructor|discriminate]. Qed.

(* the pool is never closed while a task it accepted is unfinished -- and nothing is accepted afterwards *)
Lemma pd_never_closed_while_outstanding evs :
  let s := pd_run PdFixed pd_init evs in
  pd_closed s = true -> pd_handle s = false /\ pd_all_done s = true.
Proof.
  intros s Hc. destruct (pd_run_inv evs pd_init pd_init_inv) as [_ HC]. fold s in HC.
  destruct (HC Hc) as [Hh Hd]. split; [exact Hh|].
  unfold pd_all_done. apply forallb_forall. intros x Hx.
  rewrite Forall_forall in Hd. rewrite (Hd x Hx). reflexivity.
Qed.

(* a task not finished keeps the wrapper reachable, whatever the caller does *)
Lemma pd_unfinished_holds_pool evs x :
  let s := pd_run PdFixed pd_init evs in
  In x (pd_tasks s) -> pt_ph x <> PdDone -> pt_owner x = true.
Proof.
  intros s Hx Hn. destruct (pd_run_inv evs pd_init pd_init_inv) as [HT _]. fold s in HT.
  rewrite Forall_forall in HT. specialize (HT x Hx). unfold pd_tinv in HT. rewrite HT.
  destruct (pt_ph x); try reflexivity. contradiction.
Qed.

(* the code before 83eb87d: the pool is closed with a task still queued *)
Lemma pd_orig_refuted :
  let s := pd_run PdOrig pd_init [PdSend 1; PdDrop; PdFinalize] in
  pd_closed s = true /\ map pt_ph (pd_tasks s) = [PdQueued].
Proof. vm_compute. split; reflexivity. Qed.

(* letting go of the pool just before the last attempt: closed while that attempt waits for an inner goroutine *)
Lemma pd_release_before_last_refuted :
  let s := pd_run PdReleaseBeforeLast pd_init [PdSend 1; PdPick 0; PdDrop; PdFinalize] in
  pd_closed s = true /\ map pt_ph (pd_tasks s) = [PdWaiting 1].
Proof. vm_compute. split; reflexivity. Qed.

Lemma pd_release_before_last_refuted_retry :
  let s := pd_run PdReleaseBeforeLast pd_init [PdSend 2; PdPick 0; PdDrop; PdFinalize; PdStart 0; PdEnd 0 false; PdFinalize] in
  pd_closed s = true /\ map pt_ph (pd_tasks s) = [PdWaiting 2].
Proof. vm_compute. split; reflexivity. Qed.

(* the same histories on the fixed code: the finalizer is not enabled until the task is done *)
Lemma pd_fixed_same_history :
  let s1 := pd_run PdFixed pd_init [PdSend 2; PdPick 0; PdDrop; PdFinalize; PdStart 0; PdEnd 0 false; PdFinalize] in
  let s2 := pd_run PdFixed s1 [PdStart 0; PdEnd 0 true; PdFinalize] in
  pd_closed s1 = false /\ map pt_ph (pd_tasks s1) = [PdWaiting 2] /\ pd_closed s2 = true /\ map pt_ph (pd_tasks s2) = [PdDone].
Proof. vm_compute. repeat split. Qed.
