(* SampleProbProofs.v -- proofs about models/SampleProb.v (ideal real-valued keys of
   randx.WeightedSampling).  Lemmas only; the property theorems are in props/C20.v. *)
Require Import Reals Lra.
From Coquelicot Require Import Coquelicot.
Require Import List Permutation Lia.
Import ListNotations.
From Got Require Import SampleProb.
Local Open Scope R_scope.

(* ------------------------------------------------------------------ Rpower facts *)
Lemma sp_Rpower_pos : forall x a, 0 < Rpower x a.
Proof. intros x a. unfold Rpower. apply exp_pos. Qed.

Lemma sp_Rpower_0r : forall x, Rpower x 0 = 1.
Proof. intros x. unfold Rpower. rewrite Rmult_0_l. apply exp_0. Qed.

Lemma sp_Rpower_1l : forall a, Rpower 1 a = 1.
Proof. intros a. unfold Rpower. rewrite ln_1, Rmult_0_r. apply exp_0. Qed.

Lemma sp_ln_neg : forall u, 0 < u < 1 -> ln u < 0.
Proof. intros u [H0 H1]. rewrite <- ln_1. apply ln_increasing; assumption. Qed.

Lemma sp_Rpower_lt1 : forall u a, 0 < u < 1 -> 0 < a -> Rpower u a < 1.
Proof.
  intros u a Hu Ha. unfold Rpower. rewrite <- exp_0. apply exp_increasing.
  pose proof (sp_ln_neg u Hu) as Hl. nra.
Qed.

Lemma sp_Rpower_le1 : forall u a, 0 < u <= 1 -> 0 <= a -> Rpower u a <= 1.
Proof.
  intros u a [H0 H1] Ha.
  destruct (Req_dec u 1) as [->|Hne]. { rewrite sp_Rpower_1l. lra. }
  destruct (Req_dec a 0) as [->|Hane]. { rewrite sp_Rpower_0r. lra. }
  left. apply sp_Rpower_lt1; lra.
Qed.

(* x^a -> 0 as x -> 0+, in epsilon-delta form *)
Lemma sp_Rpower_small :
  forall a eps, 0 < a -> 0 < eps -> exists d, 0 < d /\ forall x, 0 < x < d -> Rpower x a < eps.
Proof.
  intros a eps Ha He. exists (Rpower eps (/ a)). split. { apply sp_Rpower_pos. }
  intros x [Hx0 Hxd].
  replace eps with (Rpower (Rpower eps (/ a)) a) at 1.
  - apply Rlt_Rpower_l; [assumption | split; assumption].
  - rewrite Rpower_mult. rewrite Rinv_l by lra. apply Rpower_1. assumption.
Qed.

(* ------------------------------------------------------------------ x^a extended by 0 *)
Definition sp_pw (a x : R) : R := if Rlt_dec 0 x then Rpower x a else 0.
Definition sp_PW (a x : R) : R := if Rlt_dec 0 x then Rpower x (a + 1) / (a + 1) else 0.

Lemma sp_is_derive_Rpower :
  forall a x, 0 < x -> is_derive (fun y => Rpower y a) x (a * Rpower x (a - 1)).
Proof.
  intros a x Hx. apply is_derive_Reals. apply derivable_pt_lim_power. assumption.
Qed.

Lemma sp_locally_pos : forall x, 0 < x -> locally x (fun y => 0 < y).
Proof.
  intros x Hx. exists (mkposreal x Hx). intros y Hy.
  unfold ball in Hy; simpl in Hy. unfold AbsRing_ball, abs, minus, plus, opp in Hy; simpl in Hy.
  apply Rabs_def2 in Hy. lra.
Qed.

Lemma sp_locally_neg : forall x, x < 0 -> locally x (fun y => y < 0).
Proof.
  intros x Hx. assert (Hx' : 0 < - x) by lra. exists (mkposreal (- x) Hx'). intros y Hy.
  unfold ball in Hy; simpl in Hy. unfold AbsRing_ball, abs, minus, plus, opp in Hy; simpl in Hy.
  apply Rabs_def2 in Hy. lra.
Qed.

Lemma sp_pw_continuous : forall a x, 0 < a -> continuous (sp_pw a) x.
Proof.
  intros a x Ha.
  destruct (Rtotal_order x 0) as [Hneg | [H0 | Hpos]].
  - apply continuous_ext_loc with (g := fun _ => 0).
    + generalize (sp_locally_neg x Hneg). apply filter_imp. intros y Hy.
      unfold sp_pw. destruct (Rlt_dec 0 y); [lra | reflexivity].
    + apply continuous_const.
  - subst x. apply continuity_pt_filterlim. intros eps He.
    destruct (sp_Rpower_small a eps Ha He) as [d [Hd Hsmall]].
    exists d. split; [assumption|]. intros y [_ Hy].
    unfold dist in *; simpl in *. unfold R_dist in *.
    unfold sp_pw at 2. destruct (Rlt_dec 0 0) as [F|_]; [lra|].
    rewrite Rminus_0_r in *. unfold sp_pw. destruct (Rlt_dec 0 y) as [Hy0|Hy0].
    + rewrite Rabs_pos_eq by (left; apply sp_Rpower_pos).
      apply Hsmall. split; [assumption|]. rewrite Rabs_pos_eq in Hy by lra. assumption.
    + rewrite Rabs_R0. assumption.
  - apply continuous_ext_loc with (g := fun y => Rpower y a).
    + generalize (sp_locally_pos x Hpos). apply filter_imp. intros y Hy.
      unfold sp_pw. destruct (Rlt_dec 0 y); [reflexivity | lra].
    + apply (ex_derive_continuous (fun y => Rpower y a)).
      eexists. apply sp_is_derive_Rpower. assumption.
Qed.

Lemma sp_PW_derive : forall a x, 0 < a -> is_derive (sp_PW a) x (sp_pw a x).
Proof.
  intros a x Ha.
  destruct (Rtotal_order x 0) as [Hneg | [H0 | Hpos]].
  - apply is_derive_ext_loc with (f := fun _ => 0).
    + generalize (sp_locally_neg x Hneg). apply filter_imp. intros y Hy.
      unfold sp_PW. destruct (Rlt_dec 0 y); [lra | reflexivity].
    + unfold sp_pw. destruct (Rlt_dec 0 x); [lra|]. apply @is_derive_const.
  - subst x. unfold sp_pw. destruct (Rlt_dec 0 0) as [F|_]; [lra|].
    apply is_derive_Reals. intros eps He.
    destruct (sp_Rpower_small a eps Ha He) as [d [Hd Hsmall]].
    exists (mkposreal d Hd). intros h Hh0 Hh; simpl in Hh.
    rewrite Rplus_0_l, Rminus_0_r.
    unfold sp_PW at 2. destruct (Rlt_dec 0 0) as [F|_]; [lra|]. rewrite Rminus_0_r.
    unfold sp_PW. destruct (Rlt_dec 0 h) as [Hp|Hn].
    + rewrite Rpower_plus, Rpower_1 by assumption.
      replace (Rpower h a * h / (a + 1) / h) with (Rpower h a / (a + 1)) by (field; lra).
      pose proof (sp_Rpower_pos h a) as Hpp.
      assert (Hlt : Rpower h a < eps).
      { apply Hsmall. split; [assumption|]. rewrite Rabs_pos_eq in Hh by lra. assumption. }
      rewrite Rabs_pos_eq.
      * apply Rlt_le_trans with (Rpower h a / 1); [|lra].
        unfold Rdiv. apply Rmult_lt_compat_l; [assumption|].
        apply Rinv_lt_contravar; lra.
      * apply Rlt_le. apply Rdiv_lt_0_compat; lra.
    + unfold Rdiv. rewrite Rmult_0_l, Rabs_R0. assumption.
  - apply is_derive_ext_loc with (f := fun y => / (a + 1) * Rpower y (a + 1)).
    + generalize (sp_locally_pos x Hpos). apply filter_imp. intros y Hy.
      unfold sp_PW. destruct (Rlt_dec 0 y); [cbv beta; unfold Rdiv; apply Rmult_comm | lra].
    + unfold sp_pw. destruct (Rlt_dec 0 x); [|lra].
      replace (Rpower x a) with (/ (a + 1) * ((a + 1) * Rpower x (a + 1 - 1))).
      * apply is_derive_scal. apply sp_is_derive_Rpower. assumption.
      * replace (a + 1 - 1) with a by ring. field. lra.
Qed.

(* integral of x^a over [0,c], 0 <= a, 0 < c; Coq's Rpower 0 a is 1, which is irrelevant:
   only the open interval matters *)
Lemma sp_is_RInt_Rpower :
  forall a c, 0 <= a -> 0 < c ->
    is_RInt (fun x => Rpower x a) 0 c (Rpower c (a + 1) / (a + 1)).
Proof.
  intros a c Ha Hc. destruct (Req_dec a 0) as [->|Hne].
  - apply is_RInt_ext with (f := fun _ => 1).
    + intros x _. rewrite sp_Rpower_0r. reflexivity.
    + replace (Rpower c (0 + 1) / (0 + 1)) with (scal (c - 0) 1).
      * apply @is_RInt_const.
      * unfold scal; simpl. unfold mult; simpl. rewrite Rplus_0_l, Rpower_1 by assumption. field.
  - assert (Ha' : 0 < a) by lra.
    apply is_RInt_ext with (f := sp_pw a).
    + intros x Hx. rewrite Rmin_left, Rmax_right in Hx by lra.
      unfold sp_pw. destruct (Rlt_dec 0 x); [reflexivity | lra].
    + replace (Rpower c (a + 1) / (a + 1)) with (minus (sp_PW a c) (sp_PW a 0)).
      * apply (is_RInt_derive (sp_PW a) (sp_pw a)).
        -- intros x _. apply sp_PW_derive. assumption.
        -- intros x _. apply sp_pw_continuous. assumption.
      * unfold sp_PW. destruct (Rlt_dec 0 c); [|lra]. destruct (Rlt_dec 0 0); [lra|].
        unfold minus, plus, opp; simpl. ring.
Qed.

(* ------------------------------------------------------------------ sums, products, others *)
Lemma sp_sum_app : forall l1 l2, sp_sum (l1 ++ l2) = sp_sum l1 + sp_sum l2.
Proof.
  induction l1 as [|x l1 IH]; intros l2; simpl; [ring|]. rewrite IH. ring.
Qed.

Lemma sp_sum_perm : forall l1 l2, Permutation l1 l2 -> sp_sum l1 = sp_sum l2.
Proof.
  induction 1; simpl; try lra.
Qed.

Lemma sp_sum_nonneg : forall l, sp_pos l -> 0 <= sp_sum l.
Proof.
  induction 1 as [|x l Hx _ IH]; simpl; lra.
Qed.

Lemma sp_sum_pos : forall l, sp_pos l -> l <> [] -> 0 < sp_sum l.
Proof.
  intros l Hp Hne. destruct Hp as [|x l Hx Hl]; [congruence|].
  simpl. pose proof (sp_sum_nonneg l Hl). lra.
Qed.

Lemma sp_split_nth :
  forall (ws : list R) i, (i < length ws)%nat ->
    ws = firstn i ws ++ nth i ws 0 :: skipn (S i) ws.
Proof.
  induction ws as [|x ws IH]; intros i Hi; simpl in Hi; [lia|].
  destruct i as [|i]; simpl; [reflexivity|]. f_equal. apply IH. lia.
Qed.

Lemma sp_others_perm :
  forall ws i, (i < length ws)%nat -> Permutation ws (nth i ws 0 :: sp_others ws i).
Proof.
  intros ws i Hi. unfold sp_others. rewrite (sp_split_nth ws i Hi) at 1.
  symmetry. apply Permutation_middle.
Qed.

Lemma sp_sum_others :
  forall ws i, (i < length ws)%nat -> sp_sum ws = nth i ws 0 + sp_sum (sp_others ws i).
Proof.
  intros ws i Hi. rewrite (sp_sum_perm _ _ (sp_others_perm ws i Hi)). reflexivity.
Qed.

Lemma sp_pos_nth : forall ws i, sp_pos ws -> (i < length ws)%nat -> 0 < nth i ws 0.
Proof.
  intros ws i Hp Hi. unfold sp_pos in Hp. rewrite Forall_forall in Hp.
  apply Hp. apply nth_In. assumption.
Qed.

Lemma sp_pos_others : forall ws i, sp_pos ws -> sp_pos (sp_others ws i).
Proof.
  intros ws i Hp. unfold sp_pos in *. rewrite Forall_forall in *.
  intros x Hx. apply Hp. unfold sp_others in Hx. apply in_app_or in Hx.
  destruct Hx as [Hx|Hx].
  - rewrite <- (firstn_skipn i ws). apply in_or_app. left. assumption.
  - rewrite <- (firstn_skipn (S i) ws). apply in_or_app. right. assumption.
Qed.

Lemma sp_length_others :
  forall (ws : list R) i, (i < length ws)%nat -> S (length (sp_others ws i)) = length ws.
Proof.
  intros ws i Hi. rewrite (Permutation_length (sp_others_perm ws i Hi)). reflexivity.
Qed.

(* product of powers = power of the sum of the exponents (for every base, also 0) *)
Lemma sp_prod_powers :
  forall u wi l, sp_prod (map (fun wj => Rpower u (wj / wi)) l) = Rpower u (sp_sum l / wi).
Proof.
  intros u wi. induction l as [|x l IH]; simpl.
  - unfold Rdiv. rewrite Rmult_0_l. symmetry. apply sp_Rpower_0r.
  - rewrite IH, <- Rpower_plus. f_equal. unfold Rdiv. ring.
Qed.

Lemma sp_integrand_power :
  forall ws i u, sp_integrand ws i u = Rpower u (sp_sum (sp_others ws i) / nth i ws 0).
Proof. intros. unfold sp_integrand. apply sp_prod_powers. Qed.

(* ------------------------------------------------------------------ the main theorem *)
Theorem sp_k1_is_RInt :
  forall ws i, sp_pos ws -> (i < length ws)%nat ->
    is_RInt (sp_integrand ws i) 0 1 (nth i ws 0 / sp_sum ws).
Proof.
  intros ws i Hp Hi.
  pose proof (sp_pos_nth ws i Hp Hi) as Hwi.
  pose proof (sp_sum_nonneg _ (sp_pos_others ws i Hp)) as Hso.
  pose proof (sp_sum_others ws i Hi) as Hsum.
  set (a := sp_sum (sp_others ws i) / nth i ws 0).
  assert (Ha : 0 <= a). { unfold a. apply Rmult_le_pos; [assumption|]. left. apply Rinv_0_lt_compat. assumption. }
  apply is_RInt_ext with (f := fun u => Rpower u a).
  - intros x _. symmetry. apply sp_integrand_power.
  - replace (nth i ws 0 / sp_sum ws) with (Rpower 1 (a + 1) / (a + 1)).
    + apply sp_is_RInt_Rpower; lra.
    + rewrite sp_Rpower_1l, Hsum. unfold a. field. lra.
Qed.

Theorem sp_k1_probability :
  forall ws i, sp_pos ws -> (i < length ws)%nat ->
    sp_win_prob ws i = nth i ws 0 / sp_sum ws.
Proof.
  intros ws i Hp Hi. unfold sp_win_prob. apply is_RInt_unique. apply sp_k1_is_RInt; assumption.
Qed.

Lemma sp_k1_ex_RInt :
  forall ws i, sp_pos ws -> (i < length ws)%nat -> ex_RInt (sp_integrand ws i) 0 1.
Proof. intros ws i Hp Hi. eexists. apply sp_k1_is_RInt; assumption. Qed.

(* ---- corollaries ---- *)
Lemma sp_map_nth_seq :
  forall (l : list R), map (fun i => nth i l 0) (seq 0 (length l)) = l.
Proof.
  induction l as [|x l IH]; simpl; [reflexivity|]. f_equal.
  rewrite <- seq_shift, map_map. exact IH.
Qed.

Lemma sp_sum_map_div :
  forall l c, sp_sum (map (fun x => x / c) l) = sp_sum l / c.
Proof.
  induction l as [|x l IH]; intros c; simpl; [unfold Rdiv; ring|]. rewrite IH. unfold Rdiv. ring.
Qed.

Theorem sp_k1_total_probability :
  forall ws, sp_pos ws -> ws <> [] ->
    sp_sum (map (sp_win_prob ws) (seq 0 (length ws))) = 1.
Proof.
  intros ws Hp Hne.
  rewrite map_ext_in with (g := fun i => nth i ws 0 / sp_sum ws).
  - rewrite <- (map_map (fun i => nth i ws 0) (fun x => x / sp_sum ws)).
    rewrite sp_map_nth_seq, sp_sum_map_div. field.
    pose proof (sp_sum_pos ws Hp Hne). lra.
  - intros i Hin. apply in_seq in Hin. apply sp_k1_probability; [assumption | lia].
Qed.

Lemma sp_k1_prob_range :
  forall ws i, sp_pos ws -> (i < length ws)%nat -> 0 < sp_win_prob ws i <= 1.
Proof.
  intros ws i Hp Hi. rewrite sp_k1_probability by assumption.
  pose proof (sp_pos_nth ws i Hp Hi) as Hwi.
  pose proof (sp_sum_nonneg _ (sp_pos_others ws i Hp)) as Hso.
  pose proof (sp_sum_others ws i Hi) as Hsum.
  assert (HW : 0 < sp_sum ws) by lra. split.
  - apply Rdiv_lt_0_compat; assumption.
  - apply Rmult_le_reg_r with (sp_sum ws); [assumption|].
    unfold Rdiv. rewrite Rmult_assoc, Rinv_l by lra. lra.
Qed.

Lemma sp_pos_scale : forall c ws, 0 < c -> sp_pos ws -> sp_pos (map (Rmult c) ws).
Proof.
  intros c ws Hc Hp. unfold sp_pos in *. rewrite Forall_forall in *.
  intros x Hx. apply in_map_iff in Hx. destruct Hx as [y [<- Hy]].
  apply Rmult_lt_0_compat; auto.
Qed.

Lemma sp_sum_scale : forall c l, sp_sum (map (Rmult c) l) = c * sp_sum l.
Proof. induction l as [|x l IH]; simpl; [ring|]. rewrite IH. ring. Qed.

Theorem sp_k1_scale_invariant :
  forall c ws i, 0 < c -> sp_pos ws -> (i < length ws)%nat ->
    sp_win_prob (map (Rmult c) ws) i = sp_win_prob ws i.
Proof.
  intros c ws i Hc Hp Hi.
  rewrite sp_k1_probability by (try apply sp_pos_scale; try rewrite map_length; assumption).
  rewrite sp_k1_probability by assumption.
  rewrite sp_sum_scale.
  replace (nth i (map (Rmult c) ws) 0) with (c * nth i ws 0).
  - pose proof (sp_pos_nth ws i Hp Hi) as Hwi.
    pose proof (sp_sum_nonneg _ (sp_pos_others ws i Hp)) as Hso.
    pose proof (sp_sum_others ws i Hi) as Hsum.
    field. lra.
  - rewrite <- (Rmult_0_r c) at 2. symmetry. apply (map_nth (Rmult c)).
Qed.

(* the probability of i depends on its own weight and the MULTISET of the other weights *)
Theorem sp_k1_order_invariant :
  forall ws i ws' i', sp_pos ws -> sp_pos ws' -> (i < length ws)%nat -> (i' < length ws')%nat ->
    nth i ws 0 = nth i' ws' 0 -> Permutation (sp_others ws i) (sp_others ws' i') ->
    sp_win_prob ws i = sp_win_prob ws' i'.
Proof.
  intros ws i ws' i' Hp Hp' Hi Hi' Hw Hperm.
  rewrite !sp_k1_probability by assumption.
  rewrite (sp_sum_others ws i Hi), (sp_sum_others ws' i' Hi'), Hw, (sp_sum_perm _ _ Hperm).
  reflexivity.
Qed.
