(* SampleProbProofs.v -- proofs about models/SampleProb.v (ideal real-valued keys of
   randx.WeightedSampling).  Lemmas only; the property theorems are in props/C20.v. *)
Require Import Reals Lra.
From Coquelicot Require Import Coquelicot.
Require Import List Permutation Lia.
Import ListNotations.
From Got Require Import SampleProb.
Local Open Scope R_scope.

(* ------------------------------------------------------------------ Rpower facts *)
Lemma sp_Rpower_pos : forall x a, 0 < Rpower x a.
Proof. intros x a. unfold Rpower. apply exp_pos. Qed.

Lemma sp_Rpower_0r : forall x, Rpower x 0 = 1.
Proof. intros x. unfold Rpower. rewrite Rmult_0_l. apply exp_0. Qed.

Lemma sp_Rpower_1l : forall a, Rpower 1 a = 1.
Proof. intros a. unfold Rpower. rewrite ln_1, Rmult_0_r. apply exp_0. Qed.

Lemma sp_ln_neg : forall u, 0 < u < 1 -> ln u < 0.
Proof. intros u [H0 H1]. rewrite <- ln_1. apply ln_increasing; assumption. Qed.

Lemma sp_Rpower_lt1 : forall u a, 0 < u < 1 -> 0 < a -> Rpower u a < 1.
Proof.
  intros u a Hu Ha. unfold Rpower. rewrite <- exp_0. apply exp_increasing.
  pose proof (sp_ln_neg u Hu) as Hl. nra.
Qed.

Lemma sp_Rpower_le1 : forall u a, 0 < u <= 1 -> 0 <= a -> Rpower u a <= 1.
Proof.
  intros u a [H0 H1] Ha.
  destruct (Req_dec u 1) as [->|Hne]. { rewrite sp_Rpower_1l. lra. }
  destruct (Req_dec a 0) as [->|Hane]. { rewrite sp_Rpower_0r. lra. }
  left. apply sp_Rpower_lt1; lra.
Qed.

(* x^a -> 0 as x -> 0+, in epsilon-delta form *)
Lemma sp_Rpower_small :
  forall a eps, 0 < a -> 0 < eps -> exists d, 0 < d /\ forall x, 0 < x < d -> Rpower x a < eps.
Proof.
  intros a eps Ha He. exists (Rpower eps (/ a)). split. { apply sp_Rpower_pos. }
  intros x [Hx0 Hxd].
  replace eps with (Rpower (Rpower eps (/ a)) a) at 1.
  - apply Rlt_Rpower_l; [assumption | split; assumption].
  - rewrite Rpower_mult. rewrite Rinv_l by lra. apply Rpower_1. assumption.
Qed.

(* ------------------------------------------------------------------ x^a extended by 0 *)
Definition sp_pw (a x : R) : R := if Rlt_dec 0 x then Rpower x a else 0.
Definition sp_PW (a x : R) : R := if Rlt_dec 0 x then Rpower x (a + 1) / (a + 1) else 0.

Lemma sp_is_derive_Rpower :
  forall a x, 0 < x -> is_derive (fun y => Rpower y a) x (a * Rpower x (a - 1)).
Proof.
  intros a x Hx. apply is_derive_Reals. apply derivable_pt_lim_power. assumption.
Qed.

Lemma sp_locally_pos : forall x, 0 < x -> locally x (fun y => 0 < y).
Proof.
  intros x Hx. exists (mkposreal x Hx). intros y Hy.
  unfold ball in Hy; simpl in Hy. unfold AbsRing_ball, abs, minus, plus, opp in Hy; simpl in Hy.
  apply Rabs_def2 in Hy. lra.
Qed.

Lemma sp_locally_neg : forall x, x < 0 -> locally x (fun y => y < 0).
Proof.
  intros x Hx. assert (Hx' : 0 < - x) by lra. exists (mkposreal (- x) Hx'). intros y Hy.
  unfold ball in Hy; simpl in Hy. unfold AbsRing_ball, abs, minus, plus, opp in Hy; simpl in Hy.
  apply Rabs_def2 in Hy. lra.
Qed.

Lemma sp_pw_continuous : forall a x, 0 < a -> continuous (sp_pw a) x.
Proof.
  intros a x Ha.
  destruct (Rtotal_order x 0) as [Hneg | [H0 | Hpos]].
  - apply continuous_ext_loc with (g := fun _ => 0).
    + generalize (sp_locally_neg x Hneg). apply filter_imp. intros y Hy.
      unfold sp_pw. destruct (Rlt_dec 0 y); [lra | reflexivity].
    + apply continuous_const.
  - subst x. apply continuity_pt_filterlim. intros eps He.
    destruct (sp_Rpower_small a eps Ha He) as [d [Hd Hsmall]].
    exists d. split; [assumption|]. intros y [_ Hy].
    unfold dist in *; simpl in *. unfold R_dist in *.
    unfold sp_pw at 2. destruct (Rlt_dec 0 0) as [F|_]; [lra|].
    rewrite Rminus_0_r in *. unfold sp_pw. destruct (Rlt_dec 0 y) as [Hy0|Hy0].
    + rewrite Rabs_pos_eq by (left; apply sp_Rpower_pos).
      apply Hsmall. split; [assumption|]. rewrite Rabs_pos_eq in Hy by lra. assumption.
    + rewrite Rabs_R0. assumption.
  - apply continuous_ext_loc with (g := fun y => Rpower y a).
    + generalize (sp_locally_pos x Hpos). apply filter_imp. intros y Hy.
      unfold sp_pw. destruct (Rlt_dec 0 y); [reflexivity | lra].
    + apply (ex_derive_continuous (fun y => Rpower y a)).
      eexists. apply sp_is_derive_Rpower. assumption.
Qed.

Lemma sp_PW_derive : forall a x, 0 < a -> is_derive (sp_PW a) x (sp_pw a x).
Proof.
  intros a x Ha.
  destruct (Rtotal_order x 0) as [Hneg | [H0 | Hpos]].
  - apply is_derive_ext_loc with (f := fun _ => 0).
    + generalize (sp_locally_neg x Hneg). apply filter_imp. intros y Hy.
      unfold sp_PW. destruct (Rlt_dec 0 y); [lra | reflexivity].
    + unfold sp_pw. destruct (Rlt_dec 0 x); [lra|]. apply @is_derive_const.
  - subst x. unfold sp_pw. destruct (Rlt_dec 0 0) as [F|_]; [lra|].
    apply is_derive_Reals. intros eps He.
    destruct (sp_Rpower_small a eps Ha He) as [d [Hd Hsmall]].
    exists (mkposreal d Hd). intros h Hh0 Hh; simpl in Hh.
    rewrite Rplus_0_l, Rminus_0_r.
    unfold sp_PW at 2. destruct (Rlt_dec 0 0) as [F|_]; [lra|]. rewrite Rminus_0_r.
    unfold sp_PW. destruct (Rlt_dec 0 h) as [Hp|Hn].
    + rewrite Rpower_plus, Rpower_1 by assumption.
      replace (Rpower h a * h / (a + 1) / h) with (Rpower h a / (a + 1)) by (field; lra).
      pose proof (sp_Rpower_pos h a) as Hpp.
      assert (Hlt : Rpower h a < eps).
      { apply Hsmall. split; [assumption|]. rewrite Rabs_pos_eq in Hh by lra. assumption. }
      rewrite Rabs_pos_eq.
      * apply Rlt_le_trans with (Rpower h a / 1); [|lra].
        unfold Rdiv. apply Rmult_lt_compat_l; [assumption|].
        apply Rinv_lt_contravar; lra.
      * apply Rlt_le. apply Rdiv_lt_0_compat; lra.
    + unfold Rdiv. rewrite Rmult_0_l, Rabs_R0. assumption.
  - apply is_derive_ext_loc with (f := fun y => / (a + 1) * Rpower y (a + 1)).
    + generalize (sp_locally_pos x Hpos). apply filter_imp. intros y Hy.
      unfold sp_PW. destruct (Rlt_dec 0 y); [cbv beta; unfold Rdiv; apply Rmult_comm | lra].
    + unfold sp_pw. destruct (Rlt_dec 0 x); [|lra].
      replace (Rpower x a) with (/ (a + 1) * ((a + 1) * Rpower x (a + 1 - 1))).
      * apply is_derive_scal. apply sp_is_derive_Rpower. assumption.
      * replace (a + 1 - 1) with a by ring. field. lra.
Qed.

(* integral of x^a over [0,c], 0 <= a, 0 < c; Coq's Rpower 0 a is 1, which is irrelevant:
   only the open interval matters *)
Lemma sp_is_RInt_Rpower :
  forall a c, 0 <= a -> 0 < c ->
    is_RInt (fun x => Rpower x a) 0 c (Rpower c (a + 1) / (a + 1)).
Proof.
  intros a c Ha Hc. destruct (Req_dec a 0) as [->|Hne].
  - apply is_RInt_ext with (f := fun _ => 1).
    + intros x _. rewrite sp_Rpower_0r. reflexivity.
    + replace (Rpower c (0 + 1) / (0 + 1)) with (scal (c - 0) 1).
      * apply @is_RInt_const.
      * unfold scal; simpl. unfold mult; simpl. rewrite Rplus_0_l, Rpower_1 by assumption. field.
  - assert (Ha' : 0 < a) by lra.
    apply is_RInt_ext with (f := sp_pw a).
    + intros x Hx. rewrite Rmin_left, Rmax_right in Hx by lra.
      unfold sp_pw. destruct (Rlt_dec 0 x); [reflexivity | lra].
    + replace (Rpower c (a + 1) / (a + 1)) with (minus (sp_PW a c) (sp_PW a 0)).
      * apply (is_RInt_derive (sp_PW a) (sp_pw a)).
        -- intros x _. apply sp_PW_derive. assumption.
        -- intros x _. apply sp_pw_continuous. assumption.
      * unfold sp_PW. destruct (Rlt_dec 0 c); [|lra]. destruct (Rlt_dec 0 0); [lra|].
        unfold minus, plus, opp; simpl. ring.
Qed.

(* ------------------------------------------------------------------ sums, products, others *)
Lemma sp_sum_app : forall l1 l2, sp_sum (l1 ++ l2) = sp_sum l1 + sp_sum l2.
Proof.
  induction l1 as [|x l1 IH]; intros l2; simpl; [ring|]. rewrite IH. ring.
Qed.

Lemma sp_sum_perm : forall l1 l2, Permutation l1 l2 -> sp_sum l1 = sp_sum l2.
Proof.
  induction 1; simpl; try lra.
Qed.

Lemma sp_sum_nonneg : forall l, sp_pos l -> 0 <= sp_sum l.
Proof.
  induction 1 as [|x l Hx _ IH]; simpl; lra.
Qed.

Lemma sp_sum_pos : forall l, sp_pos l -> l <> [] -> 0 < sp_sum l.
Proof.
  intros l Hp Hne. destruct Hp as [|x l Hx Hl]; [congruence|].
  simpl. pose proof (sp_sum_nonneg l Hl). lra.
Qed.

Lemma sp_split_nth :
  forall (ws : list R) i, (i < length ws)%nat ->
    ws = firstn i ws ++ nth i ws 0 :: skipn (S i) ws.
Proof.
  induction ws as [|x ws IH]; intros i Hi; simpl in Hi; [lia|].
  destruct i as [|i]; simpl; [reflexivity|]. f_equal. apply IH. lia.
Qed.

Lemma sp_others_perm :
  forall ws i, (i < length ws)%nat -> Permutation ws (nth i ws 0 :: sp_others ws i).
Proof.
  intros ws i Hi. unfold sp_others. rewrite (sp_split_nth ws i Hi) at 1.
  symmetry. apply Permutation_middle.
Qed.

Lemma sp_sum_others :
  forall ws i, (i < length ws)%nat -> sp_sum ws = nth i ws 0 + sp_sum (sp_others ws i).
Proof.
  intros ws i Hi. rewrite (sp_sum_perm _ _ (sp_others_perm ws i Hi)). reflexivity.
Qed.

Lemma sp_pos_nth : forall ws i, sp_pos ws -> (i < length ws)%nat -> 0 < nth i ws 0.
Proof.
  intros ws i Hp Hi. unfold sp_pos in Hp. rewrite Forall_forall in Hp.
  apply Hp. apply nth_In. assumption.
Qed.

Lemma sp_pos_others : forall ws i, sp_pos ws -> sp_pos (sp_others ws i).
Proof.
  intros ws i Hp. unfold sp_pos in *. rewrite Forall_forall in *.
  intros x Hx. apply Hp. unfold sp_others in Hx. apply in_app_or in Hx.
  destruct Hx as [Hx|Hx].
  - rewrite <- (firstn_skipn i ws). apply in_or_app. left. assumption.
  - rewrite <- (firstn_skipn (S i) ws). apply in_or_app. right. assumption.
Qed.

Lemma sp_length_others :
  forall (ws : list R) i, (i < length ws)%nat -> S (length (sp_others ws i)) = length ws.
Proof.
  intros ws i Hi. rewrite (Permutation_length (sp_others_perm ws i Hi)). reflexivity.
Qed.

(* product of powers = power of the sum of the exponents (for every base, also 0) *)
Lemma sp_prod_powers :
  forall u wi l, sp_prod (map (fun wj => Rpower u (wj / wi)) l) = Rpower u (sp_sum l / wi).
Proof.
  intros u wi. induction l as [|x l IH]; simpl.
  - unfold Rdiv. rewrite Rmult_0_l. symmetry. apply sp_Rpower_0r.
  - rewrite IH, <- Rpower_plus. f_equal. unfold Rdiv. ring.
Qed.

Lemma sp_integrand_power :
  forall ws i u, sp_integrand ws i u = Rpower u (sp_sum (sp_others ws i) / nth i ws 0).
Proof. intros. unfold sp_integrand. apply sp_prod_powers. Qed.

(* ------------------------------------------------------------------ the main theorem *)
Theorem sp_k1_is_RInt :
  forall ws i, sp_pos ws -> (i < length ws)%nat ->
    is_RInt (sp_integrand ws i) 0 1 (nth i ws 0 / sp_sum ws).
Proof.
  intros ws i Hp Hi.
  pose proof (sp_pos_nth ws i Hp Hi) as Hwi.
  pose proof (sp_sum_nonneg _ (sp_pos_others ws i Hp)) as Hso.
  pose proof (sp_sum_others ws i Hi) as Hsum.
  set (a := sp_sum (sp_others ws i) / nth i ws 0).
  assert (Ha : 0 <= a). { unfold a. apply Rmult_le_pos; [assumption|]. left. apply Rinv_0_lt_compat. assumption. }
  apply is_RInt_ext with (f := fun u => Rpower u a).
  - intros x _. symmetry. apply sp_integrand_power.
  - replace (nth i ws 0 / sp_sum ws) with (Rpower 1 (a + 1) / (a + 1)).
    + apply sp_is_RInt_Rpower; lra.
    + rewrite sp_Rpower_1l, Hsum. unfold a. field. lra.
Qed.

Theorem sp_k1_probability :
  forall ws i, sp_pos ws -> (i < length ws)%nat ->
    sp_win_prob ws i = nth i ws 0 / sp_sum ws.
Proof.
  intros ws i Hp Hi. unfold sp_win_prob. apply is_RInt_unique. apply sp_k1_is_RInt; assumption.
Qed.

Lemma sp_k1_ex_RInt :
  forall ws i, sp_pos ws -> (i < length ws)%nat -> ex_RInt (sp_integrand ws i) 0 1.
Proof. intros ws i Hp Hi. eexists. apply sp_k1_is_RInt; assumption. Qed.

(* ---- corollaries ---- *)
Lemma sp_map_nth_seq :
  forall (l : list R), map (fun i => nth i l 0) (seq 0 (length l)) = l.
Proof.
  induction l as [|x l IH]; simpl; [reflexivity|]. f_equal.
  rewrite <- seq_shift, map_map. exact IH.
Qed.

Lemma sp_sum_map_div :
  forall l c, sp_sum (map (fun x => x / c) l) = sp_sum l / c.
Proof.
  induction l as [|x l IH]; intros c; simpl; [unfold Rdiv; ring|]. rewrite IH. unfold Rdiv. ring.
Qed.

Theorem sp_k1_total_probability :
  forall ws, sp_pos ws -> ws <> [] ->
    sp_sum (map (sp_win_prob ws) (seq 0 (length ws))) = 1.
Proof.
  intros ws Hp Hne.
  rewrite map_ext_in with (g := fun i => nth i ws 0 / sp_sum ws).
  - rewrite <- (map_map (fun i => nth i ws 0) (fun x => x / sp_sum ws)).
    rewrite sp_map_nth_seq, sp_sum_map_div. field.
    pose proof (sp_sum_pos ws Hp Hne). lra.
  - intros i Hin. apply in_seq in Hin. apply sp_k1_probability; [assumption | lia].
Qed.

Lemma sp_k1_prob_range :
  forall ws i, sp_pos ws -> (i < length ws)%nat -> 0 < sp_win_prob ws i <= 1.
Proof.
  intros ws i Hp Hi. rewrite sp_k1_probability by assumption.
  pose proof (sp_pos_nth ws i Hp Hi) as Hwi.
  pose proof (sp_sum_nonneg _ (sp_pos_others ws i Hp)) as Hso.
  pose proof (sp_sum_others ws i Hi) as Hsum.
  assert (HW : 0 < sp_sum ws) by lra. split.
  - apply Rdiv_lt_0_compat; assumption.
  - apply Rmult_le_reg_r with (sp_sum ws); [assumption|].
    unfold Rdiv. rewrite Rmult_assoc, Rinv_l by lra. lra.
Qed.

Lemma sp_pos_scale : forall c ws, 0 < c -> sp_pos ws -> sp_pos (map (Rmult c) ws).
Proof.
  intros c ws Hc Hp. unfold sp_pos in *. rewrite Forall_forall in *.
  intros x Hx. apply in_map_iff in Hx. destruct Hx as [y [<- Hy]].
  apply Rmult_lt_0_compat; auto.
Qed.

Lemma sp_sum_scale : forall c l, sp_sum (map (Rmult c) l) = c * sp_sum l.
Proof. induction l as [|x l IH]; simpl; [ring|]. rewrite IH. ring. Qed.

Theorem sp_k1_scale_invariant :
  forall c ws i, 0 < c -> sp_pos ws -> (i < length ws)%nat ->
    sp_win_prob (map (Rmult c) ws) i = sp_win_prob ws i.
Proof.
  intros c ws i Hc Hp Hi.
  rewrite sp_k1_probability by (try apply sp_pos_scale; try rewrite map_length; assumption).
  rewrite sp_k1_probability by assumption.
  rewrite sp_sum_scale.
  replace (nth i (map (Rmult c) ws) 0) with (c * nth i ws 0).
  - pose proof (sp_pos_nth ws i Hp Hi) as Hwi.
    pose proof (sp_sum_nonneg _ (sp_pos_others ws i Hp)) as Hso.
    pose proof (sp_sum_others ws i Hi) as Hsum.
    field. lra.
  - rewrite <- (Rmult_0_r c) at 2. symmetry. apply (map_nth (Rmult c)).
Qed.

(* the probability of i depends on its own weight and the MULTISET of the other weights *)
Theorem sp_k1_order_invariant :
  forall ws i ws' i', sp_pos ws -> sp_pos ws' -> (i < length ws)%nat -> (i' < length ws')%nat ->
    nth i ws 0 = nth i' ws' 0 -> Permutation (sp_others ws i) (sp_others ws' i') ->
    sp_win_prob ws i = sp_win_prob ws' i'.
Proof.
  intros ws i ws' i' Hp Hp' Hi Hi' Hw Hperm.
  rewrite !sp_k1_probability by assumption.
  rewrite (sp_sum_others ws i Hi), (sp_sum_others ws' i' Hi'), Hw, (sp_sum_perm _ _ Hperm).
  reflexivity.
Qed.

(* ------------------------------------------------------------------ the conditional event is an interval *)
Lemma sp_lose_interval :
  forall u v wi wj, 0 < u < 1 -> 0 < v -> 0 < wi -> 0 < wj ->
    (sp_key v wj < sp_key u wi <-> v < Rpower u (wj / wi)).
Proof.
  intros u v wi wj Hu Hv Hwi Hwj. unfold sp_key.
  assert (E : ln u / wi = ln (Rpower u (wj / wi)) / wj).
  { rewrite ln_Rpower. field. lra. }
  rewrite E. pose proof (sp_Rpower_pos u (wj / wi)) as Hp. split; intros H.
  - apply ln_lt_inv; try assumption.
    apply Rmult_lt_reg_r with (/ wj); [apply Rinv_0_lt_compat; assumption | exact H].
  - apply Rmult_lt_compat_r; [apply Rinv_0_lt_compat; assumption|].
    apply ln_increasing; assumption.
Qed.

Lemma sp_lose_interval_bounds :
  forall u wi wj, 0 < u < 1 -> 0 < wi -> 0 < wj -> 0 < Rpower u (wj / wi) < 1.
Proof.
  intros u wi wj Hu Hwi Hwj. split; [apply sp_Rpower_pos|].
  apply sp_Rpower_lt1; [assumption|]. apply Rdiv_lt_0_compat; assumption.
Qed.

(* ------------------------------------------------------------------ the three forms of the key have the same order *)
Lemma sp_ares_key_order :
  forall u w u' w',
    (sp_ares_key u w < sp_ares_key u' w' <-> sp_key u w < sp_key u' w').
Proof.
  intros u w u' w'. unfold sp_ares_key, sp_key, Rpower.
  replace (1 / w * ln u) with (ln u / w) by (unfold Rdiv; ring).
  replace (1 / w' * ln u') with (ln u' / w') by (unfold Rdiv; ring).
  split; [apply exp_lt_inv | apply exp_increasing].
Qed.

Lemma sp_ares_key_is_exp : forall u w, sp_ares_key u w = exp (sp_key u w).
Proof.
  intros u w. unfold sp_ares_key, sp_key, Rpower. f_equal. unfold Rdiv; ring.
Qed.

Lemma sp_gumbel_key_eq :
  forall u w, 0 < u < 1 -> 0 < w -> sp_gumbel_key u w = - ln (- sp_key u w).
Proof.
  intros u w Hu Hw. unfold sp_gumbel_key, sp_key.
  pose proof (sp_ln_neg u Hu) as Hl.
  replace (- (ln u / w)) with ((- ln u) * / w) by (unfold Rdiv; ring).
  rewrite ln_mult; [| lra | apply Rinv_0_lt_compat; assumption].
  rewrite ln_Rinv by assumption. ring.
Qed.

Lemma sp_key_neg : forall u w, 0 < u < 1 -> 0 < w -> sp_key u w < 0.
Proof.
  intros u w Hu Hw. unfold sp_key. pose proof (sp_ln_neg u Hu) as Hl.
  unfold Rdiv. pose proof (Rinv_0_lt_compat w Hw). nra.
Qed.

Lemma sp_gumbel_key_order :
  forall u w u' w', 0 < u < 1 -> 0 < w -> 0 < u' < 1 -> 0 < w' ->
    (sp_gumbel_key u w < sp_gumbel_key u' w' <-> sp_key u w < sp_key u' w').
Proof.
  intros u w u' w' Hu Hw Hu' Hw'.
  rewrite !sp_gumbel_key_eq by assumption.
  pose proof (sp_key_neg u w Hu Hw) as Hk. pose proof (sp_key_neg u' w' Hu' Hw') as Hk'.
  split; intros H.
  - assert (H' : ln (- sp_key u' w') < ln (- sp_key u w)) by lra.
    apply ln_lt_inv in H'; lra.
  - assert (H' : ln (- sp_key u' w') < ln (- sp_key u w)); [|lra].
    apply ln_increasing; lra.
Qed.

(* ------------------------------------------------------------------ integrals of indicator functions *)
(* a function with value a on (0,c) and b on (c,1); the values at 0, c, 1 are irrelevant *)
Lemma sp_is_RInt_step :
  forall (f : R -> R) (c a b : R), 0 <= c <= 1 ->
    (forall v, 0 < v < c -> f v = a) -> (forall v, c < v < 1 -> f v = b) ->
    is_RInt f 0 1 (a * c + b * (1 - c)).
Proof.
  intros f c a b Hc Hlo Hhi.
  apply (is_RInt_Chasles f 0 c 1 (a * c) (b * (1 - c))).
  - apply is_RInt_ext with (f := fun _ => a).
    + intros v Hv. rewrite Rmin_left, Rmax_right in Hv by lra. symmetry. apply Hlo. assumption.
    + replace (a * c) with (scal (c - 0) a) by (unfold scal; simpl; unfold mult; simpl; ring).
      apply @is_RInt_const.
  - apply is_RInt_ext with (f := fun _ => b).
    + intros v Hv. rewrite Rmin_left, Rmax_right in Hv by lra. symmetry. apply Hhi. assumption.
    + replace (b * (1 - c)) with (scal (1 - c) b) by (unfold scal; simpl; unfold mult; simpl; ring).
      apply @is_RInt_const.
Qed.

Lemma sp_key_lt_iff :
  forall v v' w, 0 < v -> 0 < v' -> 0 < w -> (sp_key v w < sp_key v' w <-> v < v').
Proof.
  intros v v' w Hv Hv' Hw. unfold sp_key. split; intros H.
  - apply ln_lt_inv; try assumption.
    apply Rmult_lt_reg_r with (/ w); [apply Rinv_0_lt_compat; assumption | exact H].
  - apply Rmult_lt_compat_r; [apply Rinv_0_lt_compat; assumption|].
    apply ln_increasing; assumption.
Qed.

Lemma sp_key_Rpower :
  forall u wi wj, 0 < wi -> 0 < wj -> sp_key u wi = sp_key (Rpower u (wj / wi)) wj.
Proof.
  intros u wi wj Hwi Hwj. unfold sp_key. rewrite ln_Rpower. field. lra.
Qed.

(* the dual form: for fixed v the set of u that beat it is (v^(wi/wj), 1) *)
Lemma sp_win_interval :
  forall u v wi wj, 0 < u -> 0 < v < 1 -> 0 < wi -> 0 < wj ->
    (sp_key v wj < sp_key u wi <-> Rpower v (wi / wj) < u).
Proof.
  intros u v wi wj Hu Hv Hwi Hwj.
  rewrite (sp_key_Rpower v wj wi Hwj Hwi).
  apply sp_key_lt_iff; try assumption. apply sp_Rpower_pos.
Qed.

(* conditional on u_i = u: P(u_j loses) = u^(wj/wi), as the integral of the indicator *)
Lemma sp_is_RInt_lose_ind :
  forall u wi wj, 0 < u < 1 -> 0 < wi -> 0 < wj ->
    is_RInt (fun v => sp_lt_ind (sp_key v wj) (sp_key u wi)) 0 1 (Rpower u (wj / wi)).
Proof.
  intros u wi wj Hu Hwi Hwj.
  pose proof (sp_lose_interval_bounds u wi wj Hu Hwi Hwj) as Hc.
  replace (Rpower u (wj / wi)) with (1 * Rpower u (wj / wi) + 0 * (1 - Rpower u (wj / wi))) by ring.
  apply sp_is_RInt_step; [lra | |]; intros v Hv; unfold sp_lt_ind;
    destruct (Rlt_dec (sp_key v wj) (sp_key u wi)) as [H|H]; try reflexivity; exfalso.
  - apply H. apply sp_lose_interval; try assumption; lra.
  - apply sp_lose_interval in H; try assumption; lra.
Qed.

(* conditional on u_j = v: P(u_i wins) = 1 - v^(wi/wj) *)
Lemma sp_is_RInt_win_ind :
  forall v wi wj, 0 < v < 1 -> 0 < wi -> 0 < wj ->
    is_RInt (fun u => sp_lt_ind (sp_key v wj) (sp_key u wi)) 0 1 (1 - Rpower v (wi / wj)).
Proof.
  intros v wi wj Hv Hwi Hwj.
  pose proof (sp_lose_interval_bounds v wj wi Hv Hwj Hwi) as Hc.
  replace (1 - Rpower v (wi / wj)) with (0 * Rpower v (wi / wj) + 1 * (1 - Rpower v (wi / wj))) by ring.
  apply sp_is_RInt_step; [lra | |]; intros u Hu; unfold sp_lt_ind;
    destruct (Rlt_dec (sp_key v wj) (sp_key u wi)) as [H|H]; try reflexivity; exfalso.
  - apply sp_win_interval in H; try assumption; lra.
  - apply H. apply sp_win_interval; try assumption; lra.
Qed.

(* two items, the probability as the double integral of the indicator of the event;
   u_i outermost *)
Theorem sp_k1_n2_indicator :
  forall wi wj, 0 < wi -> 0 < wj ->
    is_RInt (fun u => RInt (fun v => sp_lt_ind (sp_key v wj) (sp_key u wi)) 0 1) 0 1
            (wi / (wi + wj)).
Proof.
  intros wi wj Hwi Hwj.
  apply is_RInt_ext with (f := fun u => Rpower u (wj / wi)).
  - intros u Hu. rewrite Rmin_left, Rmax_right in Hu by lra.
    symmetry. apply is_RInt_unique. apply sp_is_RInt_lose_ind; assumption.
  - replace (wi / (wi + wj)) with (Rpower 1 (wj / wi + 1) / (wj / wi + 1)).
    + apply sp_is_RInt_Rpower; [|lra]. left. apply Rdiv_lt_0_compat; assumption.
    + rewrite sp_Rpower_1l. field. lra.
Qed.

(* the other order of integration (u_j outermost) gives the same value: the instance of
   the exchange of the order of integration for this event *)
Theorem sp_k1_n2_indicator_swapped :
  forall wi wj, 0 < wi -> 0 < wj ->
    is_RInt (fun v => RInt (fun u => sp_lt_ind (sp_key v wj) (sp_key u wi)) 0 1) 0 1
            (wi / (wi + wj)).
Proof.
  intros wi wj Hwi Hwj.
  apply is_RInt_ext with (f := fun v => minus 1 (Rpower v (wi / wj))).
  - intros v Hv. rewrite Rmin_left, Rmax_right in Hv by lra.
    symmetry. apply is_RInt_unique. apply sp_is_RInt_win_ind; assumption.
  - replace (wi / (wi + wj)) with (minus (scal (1 - 0) 1) (Rpower 1 (wi / wj + 1) / (wi / wj + 1))).
    + apply @is_RInt_minus; [apply @is_RInt_const|].
      apply sp_is_RInt_Rpower; [|lra]. left. apply Rdiv_lt_0_compat; assumption.
    + rewrite sp_Rpower_1l. unfold minus, plus, opp, scal; simpl. unfold mult; simpl. field. lra.
Qed.

(* ------------------------------------------------------------------ any number of items: iterated integral of the indicator *)
Lemma sp_is_iint_scal :
  forall n f l c, sp_is_iint n f l -> sp_is_iint n (fun t => c * f t) (c * l).
Proof.
  induction n as [|n IH]; intros f l c H; simpl in *.
  - rewrite H. reflexivity.
  - destruct H as [g [Hin Hout]]. exists (fun x => c * g x). split.
    + intros x Hx. apply (IH (fun t => f (x :: t))). apply Hin. assumption.
    + apply (is_RInt_scal g 0 1 c l Hout).
Qed.

Lemma sp_is_iint_ext :
  forall n f f' l, (forall t, f t = f' t) -> sp_is_iint n f l -> sp_is_iint n f' l.
Proof.
  induction n as [|n IH]; intros f f' l He H; simpl in *.
  - rewrite <- He. assumption.
  - destruct H as [g [Hin Hout]]. exists g. split; [|assumption].
    intros x Hx. apply (IH (fun t => f (x :: t))); [intros t; apply He | apply Hin; assumption].
Qed.

(* conditional on u_i = u the competitors lose independently: the iterated integral of
   the product of the indicators is the product of the interval lengths *)
Lemma sp_beats_iint :
  forall u wi wo, 0 < u < 1 -> 0 < wi -> sp_pos wo ->
    sp_is_iint (length wo) (fun vs => sp_beats_ind u wi vs wo)
               (sp_prod (map (fun wj => Rpower u (wj / wi)) wo)).
Proof.
  intros u wi wo Hu Hwi. induction 1 as [|wj wo Hwj Hwo IH]; simpl.
  - reflexivity.
  - set (P := sp_prod (map (fun wj0 => Rpower u (wj0 / wi)) wo)) in *.
    exists (fun x => P * sp_lt_ind (sp_key x wj) (sp_key u wi)). split.
    + intros x Hx.
      apply sp_is_iint_ext with (f := fun t => sp_lt_ind (sp_key x wj) (sp_key u wi) * sp_beats_ind u wi t wo).
      * intros t. reflexivity.
      * rewrite Rmult_comm. apply sp_is_iint_scal. exact IH.
    + rewrite Rmult_comm.
      apply (is_RInt_scal (fun x => sp_lt_ind (sp_key x wj) (sp_key u wi)) 0 1 P).
      apply sp_is_RInt_lose_ind; assumption.
Qed.

Theorem sp_k1_indicator_integral :
  forall ws i, sp_pos ws -> (i < length ws)%nat ->
    sp_is_win_prob_ind ws i (nth i ws 0 / sp_sum ws).
Proof.
  intros ws i Hp Hi. unfold sp_is_win_prob_ind. simpl.
  exists (sp_integrand ws i). split.
  - intros u Hu. unfold sp_integrand.
    apply sp_beats_iint; [assumption | apply sp_pos_nth; assumption | apply sp_pos_others; assumption].
  - apply sp_k1_is_RInt; assumption.
Qed.

(* the iterated integral is unique, so the indicator integral IS sp_win_prob *)
Lemma sp_is_iint_unique :
  forall n f l l', sp_is_iint n f l -> sp_is_iint n f l' -> l = l'.
Proof.
  induction n as [|n IH]; intros f l l' H H'; simpl in *.
  - congruence.
  - destruct H as [g [Hin Hout]]. destruct H' as [g' [Hin' Hout']].
    rewrite <- (is_RInt_unique _ _ _ _ Hout), <- (is_RInt_unique _ _ _ _ Hout').
    apply RInt_ext. intros x Hx. rewrite Rmin_left, Rmax_right in Hx by lra.
    apply (IH (fun t => f (x :: t))); [apply Hin | apply Hin']; assumption.
Qed.

Theorem sp_k1_indicator_integral_unique :
  forall ws i p, sp_pos ws -> (i < length ws)%nat ->
    sp_is_win_prob_ind ws i p -> p = sp_win_prob ws i.
Proof.
  intros ws i p Hp Hi H. rewrite sp_k1_probability by assumption.
  apply (sp_is_iint_unique _ _ _ _ H). apply sp_k1_indicator_integral; assumption.
Qed.

(* the indicator really is the indicator of the event sp_wins (for the rearranged draw:
   u_i first, then the competitors) *)
Lemma sp_beats_ind_spec :
  forall u wi vs wo, length vs = length wo ->
    (sp_beats_ind u wi vs wo = 1 <->
     forall j, (j < length wo)%nat -> sp_key (nth j vs 0) (nth j wo 0) < sp_key u wi) /\
    (sp_beats_ind u wi vs wo = 1 \/ sp_beats_ind u wi vs wo = 0).
Proof.
  intros u wi vs. induction vs as [|v vs IH]; intros [|wj wo] Hlen; simpl in Hlen; try discriminate.
  - simpl. split; [|left; reflexivity]. split; [intros _ j Hj; lia | reflexivity].
  - injection Hlen as Hlen. destruct (IH wo Hlen) as [IH1 IH2]. simpl.
    unfold sp_lt_ind. destruct (Rlt_dec (sp_key v wj) (sp_key u wi)) as [Hlt|Hnlt].
    + rewrite Rmult_1_l. split; [|exact IH2]. rewrite IH1. split.
      * intros H [|j] Hj; simpl; [exact Hlt | apply H; lia].
      * intros H j Hj. apply (H (S j)). lia.
    + rewrite Rmult_0_l. split; [|right; reflexivity]. split; [lra|].
      intros H. exfalso. apply Hnlt. apply (H O). lia.
Qed.

Lemma sp_example : sp_pos [1; 2; 3] /\ sp_win_prob [1; 2; 3] 1 = 1 / 3.
Proof.
  assert (Hp : sp_pos [1; 2; 3]) by (repeat constructor; lra).
  split; [exact Hp|]. rewrite sp_k1_probability; [|exact Hp | simpl; lia].
  simpl. field.
Qed.
